// vh — the verification harness binary. Built with -tags verif against the repository's current
// working tree (go.mod: replace github.com/enfein/mieru/v3 => <repo>).
//
//	vh consts                               dump protocol constants ("name value" lines)
//	vh run <Cnn> -tier quick -seed N -model M -gen G -out result.json [-search]
//	vh replay <Cnn> -file replay.json -model M -gen G -out result.json
package main

import (
	"encoding/json"
	"flag"
	"fmt"
	"os"
	"runtime/debug"

	"verifharness/core"
	_ "verifharness/props"
)

func main() {
	if len(os.Args) < 2 {
		fmt.Fprintln(os.Stderr, "usage: vh consts | run <Cnn> … | replay <Cnn> …")
		os.Exit(2)
	}
	switch os.Args[1] {
	case "consts":
		core.DumpConsts(os.Stdout)
	case "list":
		for _, p := range core.Properties() {
			fmt.Println(p)
		}
	case "run", "replay":
		if len(os.Args) < 3 {
			os.Exit(2)
		}
		prop := os.Args[2]
		fs := flag.NewFlagSet("run", flag.ExitOnError)
		tier := fs.String("tier", "quick", "")
		seed := fs.Int64("seed", 1, "")
		model := fs.String("model", "", "")
		gen := fs.String("gen", "", "")
		out := fs.String("out", "", "")
		file := fs.String("file", "", "")
		work := fs.String("work", "", "")
		corpus := fs.String("corpus", "", "")
		repo := fs.String("repo", "/repo", "")
		search := fs.Bool("search", false, "")
		fs.Parse(os.Args[3:])
		sc := core.Lookup(prop)
		if sc == nil {
			fmt.Fprintf(os.Stderr, "vh: no scenario for %s\n", prop)
			os.Exit(2)
		}
		c := core.NewCtx(prop, *tier, *seed)
		c.Search = *search
		c.WorkDir = *work
		c.Corpus = *corpus
		c.Repo = *repo
		if *model != "" {
			p, err := core.StartProc(*model)
			if err != nil {
				fmt.Fprintln(os.Stderr, "vh: cannot start model:", err)
				os.Exit(2)
			}
			c.Model = p
			defer p.Close()
		}
		if *gen != "" {
			if p, err := core.StartProc(*gen); err == nil {
				c.Gen = p
				defer p.Close()
			}
		}
		func() {
			defer func() {
				if r := recover(); r != nil {
					c.Violate(prop+"/harness-panic", fmt.Sprintf("panic in harness process: %v\n%s", r, debug.Stack()), nil)
				}
			}()
			if os.Args[1] == "replay" {
				raw, err := os.ReadFile(*file)
				if err != nil {
					fmt.Fprintln(os.Stderr, "vh:", err)
					os.Exit(2)
				}
				if !sc.ReplayAny(prop, c, json.RawMessage(raw)) {
					fmt.Fprintln(os.Stderr, "vh: replay not supported for", prop)
					os.Exit(2)
				}
			} else {
				sc.RunAll(prop, c)
			}
		}()
		b, _ := json.MarshalIndent(c.Res, "", " ")
		if *out != "" {
			os.WriteFile(*out, b, 0o644)
		} else {
			os.Stdout.Write(b)
		}
	default:
		os.Exit(2)
	}
}
