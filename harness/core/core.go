// Package core holds what every property scenario shares: the run context (tier, seed, PRNG,
// model processes), the result record handed to bin/check, and the registry.
package core

import (
	"bufio"
	"crypto/sha256"
	"encoding/hex"
	"encoding/json"
	"fmt"
	"io"
	"math/rand"
	"os"
	"os/exec"
	"sort"
	"strings"
	"sync"
	"time"
)

// Finding is one failed comparison. Key is fine-grained (computed from the failing input) so
// that known findings suppress exactly themselves.
type Finding struct {
	Key    string      `json:"key"`
	What   string      `json:"what"`
	Replay interface{} `json:"replay"`
}

// Result is what a scenario run reports to bin/check.
type Result struct {
	Property             string                    `json:"property"`
	Evaluations          int                       `json:"evaluations"`
	DistinctNontrivial   int                       `json:"distinct_nontrivial"`
	Rule                 string                    `json:"rule"`
	Samples              []interface{}             `json:"samples"`
	Histograms           map[string]map[string]int `json:"histograms"`
	TracesValidated      int                       `json:"traces_validated_against_impl"`
	DisagreementsChecked int                       `json:"disagreements_checked"`
	Disagreements        []Finding                 `json:"disagreements"`
	Violations           []Finding                 `json:"violations"`
	Exhaustive           bool                      `json:"exhaustive"`
	Correspondences      []string                  `json:"correspondences"`
	Notes                []string                  `json:"notes"`
	Discarded            int                       `json:"discarded_margin_cases"`
}

// Ctx is the run context of one scenario execution.
type Ctx struct {
	Tier    string // quick | thorough
	Seed    int64
	Search  bool // a proof obligation or correspondence broke: widen the failing-input search
	Rand    *rand.Rand
	Model   *Proc // hand-written model (mieru-model)
	Gen     *Proc // regenerated definitions (mieru-gen); may be nil if Gen does not build
	WorkDir string
	Corpus  string
	Repo    string
	Res     *Result

	mu       sync.Mutex
	distinct map[[32]byte]struct{}
	maxFind  int
}

func NewCtx(prop, tier string, seed int64) *Ctx {
	return &Ctx{
		Tier: tier, Seed: seed, Rand: rand.New(rand.NewSource(seed)),
		Res:      &Result{Property: prop, Histograms: map[string]map[string]int{}},
		distinct: map[[32]byte]struct{}{},
		maxFind:  20,
	}
}

func (c *Ctx) Thorough() bool { return c.Tier == "thorough" }

// N picks the case budget: quick, thorough; multiplied when a broken obligation widens the search.
func (c *Ctx) N(quick, thorough int) int {
	n := quick
	if c.Thorough() {
		n = thorough
	}
	if c.Search {
		n *= 4
	}
	return n
}

// Eval counts one evaluated case. canonical identifies the case for the distinct count;
// nontrivial says whether it reached a non-error / property-relevant branch.
func (c *Ctx) Eval(canonical string, nontrivial bool) {
	c.mu.Lock()
	defer c.mu.Unlock()
	c.Res.Evaluations++
	if nontrivial {
		h := sha256.Sum256([]byte(canonical))
		if _, ok := c.distinct[h]; !ok {
			c.distinct[h] = struct{}{}
			c.Res.DistinctNontrivial = len(c.distinct)
		}
	}
}

func (c *Ctx) Hist(name, bucket string) {
	c.mu.Lock()
	defer c.mu.Unlock()
	m := c.Res.Histograms[name]
	if m == nil {
		m = map[string]int{}
		c.Res.Histograms[name] = m
	}
	m[bucket]++
}

func (c *Ctx) Sample(s interface{}) {
	c.mu.Lock()
	defer c.mu.Unlock()
	if len(c.Res.Samples) < 6 {
		c.Res.Samples = append(c.Res.Samples, s)
	}
}

func (c *Ctx) Note(format string, a ...interface{}) {
	c.mu.Lock()
	defer c.mu.Unlock()
	c.Res.Notes = append(c.Res.Notes, fmt.Sprintf(format, a...))
}

func (c *Ctx) Correspondence(name string) {
	c.mu.Lock()
	defer c.mu.Unlock()
	for _, n := range c.Res.Correspondences {
		if n == name {
			return
		}
	}
	c.Res.Correspondences = append(c.Res.Correspondences, name)
}

// Compared counts one model-versus-implementation comparison.
func (c *Ctx) Compared() {
	c.mu.Lock()
	c.Res.DisagreementsChecked++
	c.mu.Unlock()
}

// Disagree records a model/implementation disagreement (correspondence failure).
func (c *Ctx) Disagree(key, what string, replay interface{}) {
	c.mu.Lock()
	defer c.mu.Unlock()
	for _, f := range c.Res.Disagreements {
		if f.Key == key {
			return
		}
	}
	if len(c.Res.Disagreements) < c.maxFind {
		c.Res.Disagreements = append(c.Res.Disagreements, Finding{key, what, replay})
	}
}

// Violate records a direct-oracle failure: the property's own predicate is false on the real
// code's observable behaviour for this input.
func (c *Ctx) Violate(key, what string, replay interface{}) {
	c.mu.Lock()
	defer c.mu.Unlock()
	for _, f := range c.Res.Violations {
		if f.Key == key {
			return
		}
	}
	if len(c.Res.Violations) < c.maxFind {
		c.Res.Violations = append(c.Res.Violations, Finding{key, what, replay})
	}
}

func (c *Ctx) Failed() bool {
	c.mu.Lock()
	defer c.mu.Unlock()
	return len(c.Res.Violations) > 0 || len(c.Res.Disagreements) > 0
}

// ------------------------------------------------------------------------------------------
// Model process (line protocol)

type Proc struct {
	cmd *exec.Cmd
	in  io.WriteCloser
	out *bufio.Reader
	mu  sync.Mutex
	N   int
}

func StartProc(path string) (*Proc, error) {
	cmd := exec.Command(path)
	in, err := cmd.StdinPipe()
	if err != nil {
		return nil, err
	}
	out, err := cmd.StdoutPipe()
	if err != nil {
		return nil, err
	}
	cmd.Stderr = os.Stderr
	if err := cmd.Start(); err != nil {
		return nil, err
	}
	return &Proc{cmd: cmd, in: in, out: bufio.NewReaderSize(out, 1<<20)}, nil
}

// Ask sends one request line and returns the one-line reply.
func (p *Proc) Ask(format string, a ...interface{}) string {
	p.mu.Lock()
	defer p.mu.Unlock()
	line := fmt.Sprintf(format, a...)
	if strings.ContainsAny(line, "\n\r") {
		return "harness-error newline-in-request"
	}
	if _, err := io.WriteString(p.in, line+"\n"); err != nil {
		return "harness-error " + err.Error()
	}
	reply, err := p.out.ReadString('\n')
	if err != nil {
		return "harness-error " + err.Error()
	}
	p.N++
	return strings.TrimRight(reply, "\n")
}

func (p *Proc) Close() {
	if p == nil {
		return
	}
	p.in.Close()
	done := make(chan struct{})
	go func() { p.cmd.Wait(); close(done) }()
	select {
	case <-done:
	case <-time.After(2 * time.Second):
		p.cmd.Process.Kill()
	}
}

func Hex(b []byte) string {
	if len(b) == 0 {
		return "-"
	}
	return hex.EncodeToString(b)
}

func UnHex(s string) []byte {
	if s == "-" {
		return nil
	}
	b, _ := hex.DecodeString(s)
	return b
}

// ------------------------------------------------------------------------------------------
// Registry

type Scenario struct {
	Run    func(c *Ctx)
	Replay func(c *Ctx, raw json.RawMessage) // re-run one recorded case; nil if unsupported
}

var registry = map[string]*Scenario{}
var extras = map[string][]func(c *Ctx){}

// RegisterExtra adds a further stage to a property's scenario (run after its main Run), so that
// transport-level stages can live in their own files.
func RegisterExtra(prop string, f func(c *Ctx)) { extras[prop] = append(extras[prop], f) }

var extraReplays = map[string][]func(c *Ctx, raw json.RawMessage) bool{}

// RegisterReplay adds a replay handler for the cases of an extra stage; it returns true when the
// recorded case was one of its own.
func RegisterReplay(prop string, f func(c *Ctx, raw json.RawMessage) bool) {
	extraReplays[prop] = append(extraReplays[prop], f)
}

// ReplayAny re-runs one recorded case with whichever stage recognises it.
func (s *Scenario) ReplayAny(prop string, c *Ctx, raw json.RawMessage) bool {
	for _, f := range extraReplays[prop] {
		if f(c, raw) {
			return true
		}
	}
	if s.Replay == nil {
		return false
	}
	s.Replay(c, raw)
	return true
}

// RunAll runs the main scenario and its extra stages.
func (s *Scenario) RunAll(prop string, c *Ctx) {
	s.Run(c)
	for _, f := range extras[prop] {
		f(c)
	}
}

func Register(prop string, s *Scenario) { registry[prop] = s }
func Lookup(prop string) *Scenario      { return registry[prop] }
func Properties() []string {
	var r []string
	for k := range registry {
		r = append(r, k)
	}
	sort.Strings(r)
	return r
}

// SizeBucket is used for input-size histograms.
func SizeBucket(n int) string {
	switch {
	case n == 0:
		return "0"
	case n == 1:
		return "1"
	case n < 16:
		return "2-15"
	case n < 256:
		return "16-255"
	case n < 1024:
		return "256-1023"
	case n <= 1025:
		return "1024-1025"
	case n < 32764:
		return "1026-32763"
	case n <= 32769:
		return "32764-32769"
	case n < 1<<20:
		return "32770-1MiB"
	default:
		return ">=1MiB"
	}
}

// Parallel runs f(0..n-1) on a pool of workers. Scenario code must draw everything it needs from
// c.Rand BEFORE calling it (case generation is sequential so that a seed replays exactly).
func Parallel(n, workers int, f func(i int)) {
	if workers < 1 {
		workers = 1
	}
	var wg sync.WaitGroup
	ch := make(chan int)
	for w := 0; w < workers; w++ {
		wg.Add(1)
		go func() {
			defer wg.Done()
			for i := range ch {
				f(i)
			}
		}()
	}
	for i := 0; i < n; i++ {
		ch <- i
	}
	close(ch)
	wg.Wait()
}

// Background tracks asynchronous clean-up (closing simulated worlds) so a scenario can wait for it
// at the end instead of after every case.
type Background struct{ wg sync.WaitGroup }

func (b *Background) Go(f func()) {
	b.wg.Add(1)
	go func() { defer b.wg.Done(); f() }()
}
func (b *Background) Wait(max time.Duration) {
	done := make(chan struct{})
	go func() { b.wg.Wait(); close(done) }()
	select {
	case <-done:
	case <-time.After(max):
	}
}
