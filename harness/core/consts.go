package core

import (
	"fmt"
	"io"
	"sort"

	"github.com/enfein/mieru/v3/pkg/protocol"
)

// DumpConsts prints the constants exported by the verif hooks, obtained by compiling the repo.
func DumpConsts(w io.Writer) {
	all := map[string]int64{}
	for k, v := range protocol.VerifConsts() {
		all[k] = v
	}
	for _, f := range extraConsts {
		for k, v := range f() {
			all[k] = v
		}
	}
	keys := []string{}
	for k := range all {
		keys = append(keys, k)
	}
	sort.Strings(keys)
	for _, k := range keys {
		fmt.Fprintf(w, "%s %d\n", k, all[k])
	}
}

var extraConsts []func() map[string]int64

// AddConsts lets other hook packages contribute constants.
func AddConsts(f func() map[string]int64) { extraConsts = append(extraConsts, f) }
