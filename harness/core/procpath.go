package core

// Path returns the executable a model process was started from, so that a scenario whose requests are large
// can start further instances of the same model and spread its requests over them.
func (p *Proc) Path() string {
	if p == nil || p.cmd == nil {
		return ""
	}
	return p.cmd.Path
}
