module verifharness

go 1.20

require (
	github.com/enfein/mieru/v3 v3.0.0
	golang.org/x/crypto v0.33.0
	google.golang.org/protobuf v1.34.2
)

require (
	github.com/google/btree v1.1.3 // indirect
	golang.org/x/net v0.26.0 // indirect
	golang.org/x/sys v0.30.0 // indirect
	golang.org/x/text v0.22.0 // indirect
	google.golang.org/genproto/googleapis/rpc v0.0.0-20240610135401-a8a62080eff3 // indirect
	google.golang.org/grpc v1.64.1 // indirect
)

replace github.com/enfein/mieru/v3 => /repo
