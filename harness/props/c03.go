package props

import (
	"context"
	"encoding/json"
	"fmt"
	"io"
	"math/rand"
	"net"
	"os"
	"path/filepath"
	"sort"
	"strings"
	"sync"
	"sync/atomic"
	"time"

	"github.com/enfein/mieru/v3/pkg/protocol"
	"verifharness/core"
	"verifharness/sim"
	"verifharness/simnet"
	"verifharness/wire"
)

// C03 — graceful close never turns a partial transfer into a clean end-of-stream.
//
// One case = "write n bytes, Close immediately" on one transport, in one direction, under one fault
// plan over the datagrams in flight at close time; the peer application reads until io.EOF, an
// error, or the bound (reader still blocked: that is C15's subject, counted separately).
//
// Direct oracle:   readBytes == d  ∨  finalErr ≠ EOF.
// Correspondence:  the observed history (application calls + every datagram / stream segment decoded
// with harness/wire) is replayed through the Lean close model (driver ops close-udp / close-tcp),
// which must accept it and must predict the same reader outcome (including the defect).

type c03Fault struct {
	// clean | drop-data | delay-data | dup-data | delay-close | drop-close | dup-close |
	// drop-data+drop-close | latency |
	// stall      (UDP) from the moment the writer starts its last Write nothing is delivered in either
	//            direction for DelayMs, then everything, in order (a delay spike on a path that was fast
	//            before: the window cannot open, part of the last chunk is still queued at Close);
	// tcp-stall  (TCP) the closing direction of the connection makes no progress until DelayMs after a
	//            loop of 1500 one-millisecond sleeps started at the Close() call has finished (a peer that
	//            stopped draining its receive buffer for longer than Close's bounded wait);
	// drop-inflight (UDP) the first data datagram transmitted for the first time after Write has returned
	//            is lost (with CloseAfterFault: Close is called while it is in flight);
	// idle       (UDP) every transmission of data segment Seq and every close request of the closing
	//            direction is lost, for ever: the reader hears nothing any more
	// tcp-reset  (TCP, characterisation only — not a fault the property quantifies over) the connection is
	//            reset when the closing direction has carried Seq bytes
	Kind    string `json:"kind"`
	Seq     int    `json:"seq"`      // sequence number (closing direction) whose FIRST transmission is hit
	DelayMs int    `json:"delay_ms"` // for delay-* and latency
}

type c03Case struct {
	Seed          int64           `json:"seed"`
	UDP           bool            `json:"udp"`
	MTU           int             `json:"mtu"`
	N             int             `json:"n"`
	ServerCloses  bool            `json:"server_closes"`
	ClientPattern json.RawMessage `json:"client_pattern"`
	ServerPattern json.RawMessage `json:"server_pattern"`
	Fault         c03Fault        `json:"fault"`
	MaxRead       int             `json:"max_read"`
	BoundMs       int             `json:"bound_ms"`
	// Warm > 0: the first Warm bytes of d are written first and the writer pauses 150 ms (the path gets
	// round-trip samples, the congestion window opens) before it writes the rest and closes
	Warm int `json:"warm,omitempty"`
	// CloseAfterFault: Close() is called as soon as the addressed datagram has been emitted and hit by
	// the fault (at most 200 ms after Write returned) instead of immediately — the datagram is in flight
	// at Close time
	CloseAfterFault bool `json:"close_after_fault,omitempty"`
}

type c03Outcome struct {
	Setup       string
	Got         int
	Mismatch    int    // -1 = none
	Final       string // EOF | blocked | err:<text> | no-session
	Written     int
	WriteErr    string
	CloseErr    string
	closeCall   int // len(Net.Datagrams) when Close() was called / returned (UDP)
	closeRet    int
	closeRetAt  time.Duration
	closeCallAt time.Duration
	finalAt     time.Duration // when the reader saw EOF / its error
	tap         *c03StreamTap
	closeTook   time.Duration
	elapsed     time.Duration
	world       *sim.World
}

const c03ServerAddr = "10.8.0.1:8964"

// c03Plan builds the fault plan. It decodes every datagram of the closing direction with the
// reference codec to find the addressed segment.
func c03Plan(k c03Case, keys [][]byte, line *c03DelayLine, closeReturned *atomic.Bool, closeAt *atomic.Int64, faultHit *atomic.Bool, armed *atomic.Bool) func(d *simnet.Datagram) []simnet.Delivery {
	var mu sync.Mutex
	seenSeq := map[uint32]bool{}
	closeSeen := 0
	f := k.Fault
	delay := time.Duration(f.DelayMs) * time.Millisecond
	if delay <= 0 {
		delay = 40 * time.Millisecond
	}
	return func(d *simnet.Datagram) []simnet.Delivery {
		mu.Lock()
		defer mu.Unlock()
		if f.Kind == "latency" {
			// uniform one-way latency, order preserved (a FIFO delay line, not per-datagram timers)
			d.Fate = "latency"
			line.push(d, delay)
			return nil
		}
		if f.Kind == "stall" {
			// nothing is delivered from the moment the last Write starts until `delay` later; from then on
			// everything goes through the FIFO line so that nothing overtakes what was held back
			ca := closeAt.Load()
			if ca == 0 {
				return []simnet.Delivery{{}}
			}
			d.Fate = "stall"
			wait := time.Until(time.Unix(0, ca).Add(delay))
			if wait < 0 {
				wait = 0
			}
			line.push(d, wait)
			return nil
		}
		c2s := d.To == c03ServerAddr
		if c2s == k.ServerCloses { // not the closing direction
			return []simnet.Delivery{{}}
		}
		seg, err := wire.OpenUDP(d.Data, keys)
		if err != nil {
			return []simnet.Delivery{{}}
		}
		numbered := seg.IsData() || seg.Proto == wire.OpenSessionRequest || seg.Proto == wire.OpenSessionResponse
		if f.Kind == "idle" {
			if (numbered && int(seg.Seq) == f.Seq) || seg.Proto == wire.CloseSessionRequest {
				d.Fate = "drop"
				faultHit.Store(true)
				return nil
			}
			return []simnet.Delivery{{}}
		}
		if f.Kind == "drop-inflight" {
			// the first data datagram that is transmitted for the first time after Write returned
			if numbered && !seenSeq[seg.Seq] && armed.Load() && !faultHit.Load() {
				seenSeq[seg.Seq] = true
				d.Fate = "drop"
				faultHit.Store(true)
				return nil
			}
			if numbered {
				seenSeq[seg.Seq] = true
			}
			return []simnet.Delivery{{}}
		}
		if numbered && int(seg.Seq) == f.Seq && !seenSeq[seg.Seq] {
			seenSeq[seg.Seq] = true
			faultHit.Store(true)
			switch f.Kind {
			case "drop-data", "drop-data+drop-close":
				d.Fate = "drop"
				return nil
			case "delay-data":
				d.Fate = "delay"
				return []simnet.Delivery{{Delay: delay}}
			case "dup-data":
				d.Fate = "dup"
				return []simnet.Delivery{{}, {Delay: time.Millisecond}}
			}
		}
		if numbered {
			seenSeq[seg.Seq] = true
		}
		if seg.Proto == wire.CloseSessionRequest {
			closeSeen++
			switch f.Kind {
			case "drop-close", "drop-data+drop-close":
				if !closeReturned.Load() { // the session's own request (queue + possibly the fallback copy)
					d.Fate = "drop"
					return nil
				}
			case "delay-close":
				if closeSeen == 1 {
					d.Fate = "delay"
					return []simnet.Delivery{{Delay: delay}}
				}
			case "dup-close":
				if closeSeen == 1 {
					d.Fate = "dup"
					return []simnet.Delivery{{}, {Delay: time.Millisecond}}
				}
			}
		}
		return []simnet.Delivery{{}}
	}
}

// c03DelayLine delivers datagrams after a fixed latency in exactly the order they were sent.
type c03DelayLine struct {
	net  *simnet.Net
	ch   chan c03Delayed
	done chan struct{}
}

type c03Delayed struct {
	at   time.Time
	data []byte
	from *net.UDPAddr
	to   int
}

func newC03DelayLine(n *simnet.Net) *c03DelayLine {
	l := &c03DelayLine{net: n, ch: make(chan c03Delayed, 1<<16), done: make(chan struct{})}
	go func() {
		for {
			select {
			case <-l.done:
				return
			case x := <-l.ch:
				if d := time.Until(x.at); d > 0 {
					select {
					case <-time.After(d):
					case <-l.done:
						return
					}
				}
				if ep := l.net.Endpoint(x.to); ep != nil {
					ep.InjectFrom(x.data, x.from)
				}
			}
		}
	}()
	return l
}

func (l *c03DelayLine) push(d *simnet.Datagram, delay time.Duration) {
	from, err1 := net.ResolveUDPAddr("udp", d.From)
	to, err2 := net.ResolveUDPAddr("udp", d.To)
	if err1 != nil || err2 != nil {
		return
	}
	select {
	case l.ch <- c03Delayed{time.Now().Add(delay), append([]byte(nil), d.Data...), from, to.Port}:
	default:
	}
}

func (l *c03DelayLine) stop() { close(l.done) }

// c03Exec runs one case on fresh endpoints.
func c03Exec(k c03Case) *c03Outcome {
	o := &c03Outcome{Mismatch: -1}
	cfg := sim.Config{UDP: k.UDP, MTU: k.MTU, Seed: k.Seed,
		ClientPattern: patFromJSON(k.ClientPattern), ServerPattern: patFromJSON(k.ServerPattern)}
	w, err := sim.NewWorld(cfg)
	if err != nil {
		o.Setup = err.Error()
		return o
	}
	o.world = w
	var closeReturned, faultHit, armed atomic.Bool
	var closeAt atomic.Int64
	if k.UDP && k.Fault.Kind != "clean" && k.Fault.Kind != "" {
		line := newC03DelayLine(w.Net)
		defer line.stop()
		w.Net.Plan = c03Plan(k, w.AllKeys(), line, &closeReturned, &closeAt, &faultHit, &armed)
	}
	if !k.UDP {
		o.tap = newC03StreamTap(w.Net.T0(), !k.ServerCloses, k.Fault.Kind == "tcp-stall")
		if k.Fault.Kind == "tcp-reset" {
			o.tap.resetAt = int64(k.Fault.Seq)
			o.tap.onReset = func() { w.Fault() }
		}
		w.Net.StreamFilter = o.tap.filter
	}
	bound := time.Duration(k.BoundMs) * time.Millisecond
	if bound <= 0 {
		bound = 20 * time.Second
	}
	t0 := time.Now()
	nDatagrams := func() int {
		w.Net.Lock()
		defer w.Net.Unlock()
		return len(w.Net.Datagrams)
	}

	data := make([]byte, k.N)
	sim.FillStream(data, k.Seed, 0, 0, 0)
	req := []byte{0xC0, 0x03, 0x00, 0x01}

	type accepted struct {
		conn net.Conn
		err  error
	}
	acc := make(chan accepted, 1)
	go func() {
		c, err := w.Server.Accept()
		acc <- accepted{c, err}
	}()
	ctx, cancel := context.WithTimeout(context.Background(), bound)
	cconn, err := w.Dial(ctx)
	cancel()
	if err != nil {
		o.Setup = "dial: " + err.Error()
		return o
	}

	// writeAndClose is what the closing application does
	writeAndClose := func(conn net.Conn) {
		rest := data
		if k.Warm > 0 && k.Warm < len(data) {
			n, err := conn.Write(data[:k.Warm])
			o.Written = n
			if err != nil {
				o.WriteErr = err.Error()
				return
			}
			time.Sleep(150 * time.Millisecond)
			rest = data[k.Warm:]
		}
		if k.Fault.Kind == "stall" {
			closeAt.Store(time.Now().UnixNano()) // the plan's stall starts here
		}
		n, err := conn.Write(rest)
		o.Written += n
		if err != nil {
			o.WriteErr = err.Error()
		}
		if k.CloseAfterFault {
			armed.Store(true)
			for dl := time.Now().Add(200 * time.Millisecond); !faultHit.Load() && time.Now().Before(dl); {
				time.Sleep(200 * time.Microsecond)
			}
		}
		o.closeCall = nDatagrams()
		tc := time.Now()
		o.closeCallAt = tc.Sub(w.Net.T0())
		closeAt.CompareAndSwap(0, tc.UnixNano())
		if o.tap != nil {
			delay := time.Duration(k.Fault.DelayMs) * time.Millisecond
			o.tap.closeCalled(delay)
		}
		if err := conn.Close(); err != nil {
			o.CloseErr = err.Error()
		}
		o.closeTook = time.Since(tc)
		closeReturned.Store(true)
		o.closeRet = nDatagrams()
		o.closeRetAt = time.Since(w.Net.T0())
	}
	// readAll is what the peer application does
	type rres struct {
		got, mismatch int
		final         string
		at            time.Duration
	}
	readAll := func(conn net.Conn, skip int, out chan<- rres) {
		r := rres{mismatch: -1}
		rng := rand.New(rand.NewSource(k.Seed + 17))
		maxRead := k.MaxRead
		if maxRead <= 0 {
			maxRead = 65536
		}
		buf := make([]byte, maxRead)
		for {
			n := 1 + rng.Intn(maxRead)
			m, err := conn.Read(buf[:n])
			for i := 0; i < m; i++ {
				pos := r.got + i - skip
				if pos < 0 {
					continue
				}
				if r.mismatch < 0 && (pos >= len(data) || buf[i] != data[pos]) {
					r.mismatch = pos
				}
			}
			r.got += m
			if err != nil {
				if err == io.EOF {
					r.final = "EOF"
				} else {
					r.final = "err:" + err.Error()
				}
				r.at = time.Since(w.Net.T0())
				out <- r
				return
			}
		}
	}

	var writerDone sync.WaitGroup
	res := make(chan rres, 1)
	var readerConn net.Conn
	if !k.ServerCloses {
		// the client writes d and closes; the server application reads to the end
		writerDone.Add(1)
		go func() { defer writerDone.Done(); writeAndClose(cconn) }()
		select {
		case a := <-acc:
			if a.err != nil {
				o.Final = "no-session"
				writerDone.Wait()
				return o
			}
			readerConn = a.conn
		case <-time.After(bound):
			o.Final = "no-session"
			writerDone.Wait()
			return o
		}
		go readAll(readerConn, 0, res)
	} else {
		// the client sends a 4-byte request; the server answers with d and closes; the client reads
		if _, err := cconn.Write(req); err != nil {
			o.Setup = "client request write: " + err.Error()
			return o
		}
		var sconn net.Conn
		select {
		case a := <-acc:
			if a.err != nil {
				o.Final = "no-session"
				return o
			}
			sconn = a.conn
		case <-time.After(bound):
			o.Final = "no-session"
			return o
		}
		got := make([]byte, 4)
		sconn.SetReadDeadline(time.Now().Add(bound))
		if _, err := io.ReadFull(sconn, got); err != nil {
			o.Setup = "server request read: " + err.Error()
			return o
		}
		readerConn = cconn
		go readAll(readerConn, 0, res)
		writerDone.Add(1)
		go func() { defer writerDone.Done(); writeAndClose(sconn) }()
	}
	select {
	case r := <-res:
		o.Got, o.Mismatch, o.Final, o.finalAt = r.got, r.mismatch, r.final, r.at
	case <-time.After(bound):
		// reader still blocked after the bound: unblock it, keep what it had read
		readerConn.Close()
		select {
		case r := <-res:
			o.Got, o.Mismatch = r.got, r.mismatch
		case <-time.After(5 * time.Second):
		}
		o.Final = "blocked"
	}
	writerDone.Wait()
	o.elapsed = time.Since(t0)
	return o
}

// ------------------------------------------------------------------------------------------------
// wire analysis

// c03Wire is what the captured wire says about the closing direction of the one session.
type c03Wire struct {
	SegLens      []int    // payload bytes of each numbered segment of the closing direction, by seq (first transmissions)
	Tokens       []string // history for the Lean acceptor
	Undecodable  []string
	LostBefore   []int // seqs transmitted but not handed to the reader before the first close request was handed to it
	CloseHanded  bool  // a close request / response reached the reader's endpoint
	UnsentBytes  int   // bytes of d never transmitted
	Retransmits  int
	LateData     int // data emissions later than 50 ms after Close() returned
	CloseEmitted int
	// loss recovery before the close request: the lowest lost sequence number, how often it had been
	// transmitted when the first close request was emitted, and how many HIGHER sequence numbers were
	// transmitted for the first time after its first transmission and before that close request
	LostSeq, LostTx, LaterFirstTx int
	LaterRetxMax                  int   // most transmissions, before the first close request, of one segment first sent after LostSeq
	LostGapMs                     int64 // first close request emission minus first transmission of LostSeq
	ReaderIdleMs                  int64 // reader's EOF minus the last datagram handed to its endpoint
}

func c03AnalyseUDP(k c03Case, o *c03Outcome) *c03Wire {
	w := o.world
	a := &c03Wire{}
	w.Net.Lock()
	ds := append([]*simnet.Datagram(nil), w.Net.Datagrams...)
	evs := append([]simnet.Event(nil), w.Net.Events...)
	w.Net.Unlock()
	keys := w.AllKeys()
	type item struct {
		order int
		tok   string
	}
	var items []item
	closing := func(to string) bool { return (to == c03ServerAddr) != k.ServerCloses }
	first := map[uint32]uint64{}
	lens := map[uint32]int{}
	handed := map[uint32]bool{}
	closeHandedOrder := -1
	maxSeq := -1
	txBeforeClose := map[uint32]int{}
	firstTxIdx := map[uint32]int{}
	firstCloseIdx := -1
	for i, d := range ds {
		seg, err := wire.OpenUDP(d.Data, keys)
		if err != nil {
			a.Undecodable = append(a.Undecodable, fmt.Sprintf("datagram #%d %s→%s len %d: %v", i, d.From, d.To, len(d.Data), err))
			continue
		}
		ord := 4*i + 2
		if closing(d.To) {
			numbered := seg.IsData() || seg.Proto == wire.OpenSessionRequest || seg.Proto == wire.OpenSessionResponse
			if numbered {
				dg := c03Digest(seg)
				if firstCloseIdx < 0 {
					txBeforeClose[seg.Seq]++
				}
				if _, ok := first[seg.Seq]; !ok {
					first[seg.Seq] = dg
					firstTxIdx[seg.Seq] = i
					lens[seg.Seq] = len(seg.Payload)
					if int(seg.Seq) > maxSeq {
						maxSeq = int(seg.Seq)
					}
				} else {
					a.Retransmits++
				}
				if o.closeRetAt > 0 && d.At > o.closeRetAt+50*time.Millisecond {
					a.LateData++
				}
				items = append(items, item{ord, fmt.Sprintf("s:%d:%d", seg.Seq, dg)})
			} else if seg.Proto == wire.CloseSessionRequest {
				a.CloseEmitted++
				if firstCloseIdx < 0 {
					firstCloseIdx = i
				}
				ms := int64(0)
				if d.At > o.closeCallAt {
					ms = (d.At - o.closeCallAt).Milliseconds()
				}
				items = append(items, item{ord, fmt.Sprintf("cs:%d", ms)})
			}
		} else if seg.IsData() || seg.IsAck() {
			items = append(items, item{ord, fmt.Sprintf("a:%d", seg.UnAck)})
		}
	}
	var lastToReader time.Duration
	if os.Getenv("VH_DEBUG") != "" && k.Fault.Kind == "idle" {
		for _, e := range evs {
			if closing(e.To) && e.At > 2*time.Second {
				if seg, err := wire.OpenUDP(e.Data, keys); err == nil {
					fmt.Fprintf(os.Stderr, "c03idle to-reader at=%v proto=%d seq=%d unack=%d len=%d\n", e.At.Round(time.Millisecond), seg.Proto, seg.Seq, seg.UnAck, len(seg.Payload))
				} else {
					fmt.Fprintf(os.Stderr, "c03idle to-reader at=%v undecodable %v\n", e.At.Round(time.Millisecond), err)
				}
			}
		}
		for i, d := range ds {
			if d.At > 2*time.Second {
				if seg, err := wire.OpenUDP(d.Data, keys); err == nil {
					fmt.Fprintf(os.Stderr, "c03idle emitted #%d at=%v %s->%s proto=%d seq=%d fate=%s\n", i, d.At.Round(time.Millisecond), d.From, d.To, seg.Proto, seg.Seq, d.Fate)
				}
			}
		}
	}
	for _, e := range evs {
		if closing(e.To) && e.At > lastToReader && (o.finalAt == 0 || e.At <= o.finalAt) {
			lastToReader = e.At
		}
		seg, err := wire.OpenUDP(e.Data, keys)
		if err != nil {
			continue
		}
		ord := 4 * e.DatagramsSoFar
		if closing(e.To) {
			numbered := seg.IsData() || seg.Proto == wire.OpenSessionRequest || seg.Proto == wire.OpenSessionResponse
			if numbered {
				if closeHandedOrder < 0 {
					handed[seg.Seq] = true
				}
				items = append(items, item{ord, fmt.Sprintf("d:%d:%d", seg.Seq, c03Digest(seg))})
			} else if seg.Proto == wire.CloseSessionRequest || seg.Proto == wire.CloseSessionResponse {
				if closeHandedOrder < 0 {
					closeHandedOrder = ord
				}
				a.CloseHanded = true
				items = append(items, item{ord, "cd"})
			}
		} else if seg.IsData() || seg.IsAck() {
			items = append(items, item{ord, fmt.Sprintf("i:%d", seg.UnAck)})
		}
	}
	// "Close returned" is placed 50 ms late: the output loop may be in the middle of writing a segment
	// it had already dequeued when closeWithError discards the queues
	closeRet := o.closeRet
	for closeRet < len(ds) && ds[closeRet].At <= o.closeRetAt+50*time.Millisecond {
		closeRet++
	}
	items = append(items, item{4*o.closeCall + 1, "C"}, item{4*closeRet + 1, "X"})
	sort.SliceStable(items, func(i, j int) bool { return items[i].order < items[j].order })
	// every segment is written before anything else happens (a valid linearisation: writes have no
	// precondition in the model and all of d was handed to Write before Close was called)
	sent := 0
	for s := 0; s <= maxSeq; s++ {
		dg, ok := first[uint32(s)]
		if !ok {
			a.Undecodable = append(a.Undecodable, fmt.Sprintf("sequence number %d of the closing direction was never transmitted although %d was", s, maxSeq))
			dg = 0
		}
		a.Tokens = append(a.Tokens, fmt.Sprintf("w:%d", dg))
		a.SegLens = append(a.SegLens, lens[uint32(s)])
		sent += lens[uint32(s)]
	}
	total := k.N
	if sent < total {
		a.UnsentBytes = total - sent
		a.Tokens = append(a.Tokens, "w:1") // the part of d that never reached the wire (≥ 1 segment)
	}
	for _, it := range items {
		a.Tokens = append(a.Tokens, it.tok)
	}
	for s := 0; s <= maxSeq; s++ {
		if closeHandedOrder >= 0 && !handed[uint32(s)] {
			a.LostBefore = append(a.LostBefore, s)
		}
	}
	a.LostSeq = -1
	if len(a.LostBefore) > 0 && firstCloseIdx >= 0 {
		a.LostSeq = a.LostBefore[0]
		a.LostTx = txBeforeClose[uint32(a.LostSeq)]
		a.LostGapMs = (ds[firstCloseIdx].At - ds[firstTxIdx[uint32(a.LostSeq)]].At).Milliseconds()
		for sq, idx := range firstTxIdx {
			if int(sq) > a.LostSeq && idx > firstTxIdx[uint32(a.LostSeq)] && idx < firstCloseIdx {
				a.LaterFirstTx++
				if txBeforeClose[sq] > a.LaterRetxMax {
					a.LaterRetxMax = txBeforeClose[sq]
				}
			}
		}
	}
	if o.Final == "EOF" && !a.CloseHanded && o.finalAt > 0 {
		// the reader's session was closed although no close request / response ever reached it
		a.ReaderIdleMs = (o.finalAt - lastToReader).Milliseconds()
		a.Tokens = append(a.Tokens, fmt.Sprintf("lc:%d", a.ReaderIdleMs))
	}
	return a
}

func c03Digest(s *wire.Segment) uint64 {
	var h uint64 = 1469598103934665603
	for _, b := range append([]byte{s.Proto, s.Fragment}, s.Payload...) {
		h ^= uint64(b)
		h *= 1099511628211
	}
	return h>>8 + 2 // never 0 or 1 (reserved for "unknown" / "unsent rest")
}

func c03Run(c *core.Ctx, k c03Case) {
	key, _ := json.Marshal(k)
	o := c03Exec(k)
	if o.world != nil {
		defer bgClose.Go(o.world.Close)
	}
	tr := "tcp"
	if k.UDP {
		tr = "udp"
	}
	dir := "client-closes"
	if k.ServerCloses {
		dir = "server-closes"
	}
	if o.Setup != "" {
		c.Eval(string(key), false)
		c.Violate("C03/setup", "endpoints failed before the scenario could run: "+o.Setup, k)
		return
	}
	c.Eval(string(key), true)
	c.Res.TracesValidated++
	c.Hist("transport", tr)
	c.Hist("direction", dir)
	c.Hist("n", core.SizeBucket(k.N))
	c.Hist("fault", k.Fault.Kind)
	fin := o.Final
	if strings.HasPrefix(fin, "err:") {
		fin = "error"
	}
	c.Hist("reader_final", fin)
	if os.Getenv("VH_DEBUG") != "" {
		fmt.Fprintf(os.Stderr, "c03 %s %s n=%d fault=%+v -> got=%d final=%q written=%d werr=%q elapsed=%v\n", tr, dir, k.N, k.Fault, o.Got, o.Final, o.Written, o.WriteErr, o.elapsed)
	}
	if o.Final == "no-session" {
		return
	}
	if k.Fault.Kind == "tcp-reset" {
		resetPartial := o.Final == "EOF" && o.Got < o.Written // o.Written = what Write accepted
		// Characterisation, not an oracle: C03 quantifies over datagram faults; a TCP connection that
		// dies is outside it. What the reader of a session sees when its underlay dies is recorded.
		outcome := "error"
		switch {
		case resetPartial:
			outcome = "clean-eof-after-strict-prefix"
		case o.Final == "EOF":
			outcome = "clean-eof-after-all-data"
		case o.Final == "blocked":
			outcome = "blocked"
		}
		c.Hist("tcp_reset_reader_outcome", outcome)
		c.Note("tcp-reset (outside C03's quantifier): %s n=%d, Write returned %d (err %q), connection reset after %d wire bytes of the closing direction: the peer application read %d bytes, final %q", dir, k.N, o.Written, o.WriteErr, k.Fault.Seq, o.Got, o.Final)
		if c.Model != nil {
			// a reset discards what the receiving underlay had not yet read: the reader's session got a
			// prefix of the wire's items — the whole segments that make up the bytes it handed out
			all, _ := c03AnalyseTCP(k, o)
			var toks []string
			sum := 0
			for _, t := range all {
				var l int
				if _, err := fmt.Sscanf(t, "D:%d", &l); err != nil || sum+l > o.Got {
					break
				}
				sum += l
				toks = append(toks, t)
			}
			final := "err"
			switch o.Final {
			case "EOF":
				final = "eof"
			case "blocked":
				final = "blocked"
			}
			c.Compared()
			// `L`: the reader's session was closed locally (underlay torn down → graceful s.Close())
			reply := c.Model.Ask("close-tcp %s L R:%d:%s:%d", strings.Join(toks, " "), o.Got, final, o.Written)
			f := strings.Fields(reply)
			if len(f) < 2 || f[0] != "ok" {
				c.Disagree("C03/corr/tcp-history-rejected", "the close model rejects the observed history of a reset connection: "+reply, k)
			} else if (f[1] == "1") != resetPartial {
				c.Disagree("C03/corr/tcp-reader-outcome", fmt.Sprintf("model predicts partial-then-EOF=%v after the reset, the implementation showed %v (%s)", f[1] == "1", resetPartial, reply), k)
			}
		}
		return
	}
	if o.WriteErr != "" || o.Written != k.N {
		// the property is conditional on a successful Write
		c.Hist("branch", "write-failed")
		return
	}
	// server-closes: the reader is the client, which reads only d
	if o.Mismatch >= 0 {
		c.Violate(fmt.Sprintf("C03/%s/content-differs", tr), fmt.Sprintf("%s %s: byte %d read by the peer differs from what was written", tr, dir, o.Mismatch), k)
	}
	var wa *c03Wire
	if k.UDP {
		wa = c03AnalyseUDP(k, o)
	}
	violated := o.Final == "EOF" && o.Got < k.N
	if violated {
		fk := fmt.Sprintf("C03/%s/clean-eof-after-prefix", tr)
		detail := ""
		if k.UDP {
			switch {
			case !wa.CloseHanded:
				fk = "C03/udp/reader-closed-without-close-request"
				if wa.ReaderIdleMs >= 59000 {
					fk = "C03/udp/reader-idle-timeout-clean-eof"
				}
				detail = fmt.Sprintf("; no close request or response ever reached the reader's endpoint: its session was closed locally %d ms after the last datagram it was handed (idleSessionTimeout = 60 s → RemoveSession → graceful s.Close()), and Read reported a clean io.EOF", wa.ReaderIdleMs)
			case k.Fault.Kind == "drop-inflight" && len(wa.LostBefore) > 0 && wa.LostTx <= 1 && (wa.LaterRetxMax >= 3 || wa.LaterFirstTx >= 16+wa.LostSeq+2):
				// Only in the dedicated case (fresh session, warmed-up path, the injected loss is the first
				// one, so the sender is in slow start): (1) the congestion window is minWindowSize + one per
				// acknowledged segment, so with segment s unacknowledged at most 15 + s later segments can be
				// transmitted for the first time before s has been retransmitted and acknowledged;
				// (2) retransmission timers run per segment from its own transmission time: a later segment
				// cannot time out twice before the earlier, still unacknowledged one has timed out once;
				// An elapsed-time criterion ("unacknowledged for 900 ms means it has timed out") was removed: a
				// fresh session's retransmission timeout is 3 s until the first round-trip sample, so on the
				// unchanged tree a segment lost early can stay un-retransmitted for longer than Close()'s bounded
				// wait; that history is the recorded finding data-lost-or-overtaken-before-close, not a new one
				// (the criterion raised a false alarm on an idle machine, vp check 6).
				fk = "C03/udp/lost-data-not-retransmitted-while-sending"
				detail = fmt.Sprintf("; segment %d was lost on its first transmission and never retransmitted before the close request went out, although %d later segments were transmitted for the first time in between (a sender with that segment in its send buffer stalls after at most %d) and one of them %d times; %d ms passed between its transmission and the close request (Close() took %v)", wa.LostSeq, wa.LaterFirstTx, 15+wa.LostSeq, wa.LaterRetxMax, wa.LostGapMs, o.closeTook.Round(time.Millisecond))
			case len(wa.LostBefore) > 0:
				fk = "C03/udp/data-lost-or-overtaken-before-close"
				detail = fmt.Sprintf("; segments %v of the closing direction were transmitted but had not reached the reader when the close request did", wa.LostBefore)
			case wa.UnsentBytes > 0 && o.closeTook >= 900*time.Millisecond:
				fk = "C03/udp/data-discarded-unsent-at-close"
				detail = fmt.Sprintf("; %d bytes of d were never transmitted: Close() took %v (its bounded wait of 1000 x 1 ms expired), wrote the close request out directly and discarded the send queue; nothing was lost or reordered", wa.UnsentBytes, o.closeTook.Round(time.Millisecond))
			case wa.UnsentBytes > 0:
				fk = "C03/udp/data-discarded-unsent-at-close-without-waiting"
				detail = fmt.Sprintf("; %d bytes of d were never transmitted although Close() returned after only %v; nothing was lost or reordered", wa.UnsentBytes, o.closeTook.Round(time.Millisecond))
			default:
				fk = "C03/udp/clean-eof-after-prefix-without-loss"
				detail = "; every transmitted segment reached the reader before the close request"
			}
		}
		c.Violate(fk, fmt.Sprintf("%s %s n=%d fault=%s: Write(d) succeeded, Close followed; the peer read %d of %d bytes and then a clean io.EOF%s", tr, dir, k.N, k.Fault.Kind, o.Got, k.N, detail), k)
	}
	if c.Model == nil {
		return
	}
	// correspondence: the model accepts the history and predicts the reader's outcome
	if k.UDP {
		for _, u := range wa.Undecodable {
			c.Disagree("C03/corr/wire-undecodable", u, k)
		}
		c.Hist("retransmissions", core.SizeBucket(wa.Retransmits))
		c.Compared()
		final := "err"
		switch o.Final {
		case "EOF":
			final = "eof"
		case "blocked":
			final = "blocked"
		}
		lens := "-"
		if len(wa.SegLens) > 0 {
			ls := make([]string, len(wa.SegLens))
			for i, l := range wa.SegLens {
				ls[i] = fmt.Sprint(l)
			}
			lens = strings.Join(ls, ",")
		}
		reply := c.Model.Ask("close-udp L:%s %s R:%d:%s", lens, strings.Join(wa.Tokens, " "), o.Got, final)
		if os.Getenv("VH_DEBUG") != "" && (k.CloseAfterFault || k.Fault.Kind == "stall") {
			if len(wa.LostBefore) > 0 {
				k.Fault.Seq = wa.LostBefore[0]
			}
			var brief []string
			for _, t := range wa.Tokens {
				if t == "C" || t == "X" || strings.HasPrefix(t, "cs") || t == "cd" || strings.HasPrefix(t, fmt.Sprintf("s:%d:", k.Fault.Seq)) || strings.HasPrefix(t, fmt.Sprintf("d:%d:", k.Fault.Seq)) {
					brief = append(brief, t)
				} else if strings.HasPrefix(t, "s:") {
					brief = append(brief, "s")
				}
			}
			fmt.Fprintf(os.Stderr, "c03u %s n=%d fault=%+v closeTook=%v lost=%v tx=%d later=%d laterRetx=%d: %s -> %s\n", dir, k.N, k.Fault, o.closeTook.Round(time.Millisecond), wa.LostBefore, wa.LostTx, wa.LaterFirstTx, wa.LaterRetxMax, strings.Join(brief, " "), reply)
		}
		c03Compare(c, k, reply, violated, "udp")
		if wa.LateData > 0 {
			c.Disagree("C03/corr/data-transmitted-after-close-returned", fmt.Sprintf("%d data datagrams of the closed session were emitted more than 50 ms after Close() returned", wa.LateData), k)
		}
	} else {
		toks, problems := c03AnalyseTCP(k, o)
		for _, p := range problems {
			c.Disagree("C03/corr/wire-undecodable", p, k)
		}
		final := "err"
		switch o.Final {
		case "EOF":
			final = "eof"
		case "blocked":
			final = "blocked"
		}
		c.Compared()
		reply := c.Model.Ask("close-tcp %s R:%d:%s:%d", strings.Join(toks, " "), o.Got, final, k.N)
		c03Compare(c, k, reply, violated, "tcp")
		// the writer's side: application calls and wire emissions with their times, through the
		// writer acceptor (Model/CloseWriter.waccept; Props/C03.writer_history_sound)
		wtoks, wproblems := c03WriterTokens(k, o)
		for _, p := range wproblems {
			c.Disagree("C03/corr/wire-undecodable", p, k)
		}
		c.Compared()
		wreply := c.Model.Ask("close-tcpw %s", strings.Join(wtoks, " "))
		if os.Getenv("VH_DEBUG") != "" {
			fmt.Fprintf(os.Stderr, "c03w %s %s n=%d fault=%s closeTook=%v: %s -> %s\n", tr, dir, k.N, k.Fault.Kind, o.closeTook.Round(time.Millisecond), strings.Join(wtoks, " "), wreply)
		}
		wf := strings.Fields(wreply)
		switch {
		case len(wf) < 4 || wf[0] != "ok":
			c.Disagree("C03/corr/tcp-writer-history-rejected", "the writer model rejects the observed history of Write / Close / wire emissions: "+wreply+" ("+strings.Join(wtoks, " ")+")", k)
		case wf[1] == "1" && wf[2] != "1":
			c.Disagree("C03/corr/tcp-writer-wire-order", "the writer acceptor stayed inside its scheduling assumption but the wire is not `fragments, close request, …` — contradicts Props/C03.writer_history_sound: "+wreply, k)
		case wf[1] != "1":
			c.Hist("model_assumption_broken", "sched")
			c.Disagree("C03/corr/tcp-forced-close-overtook-queued-data", "the close request was written directly (bounded wait expired) while data of the session was still queued; with oLock held across the whole drain (Props/C03.close_lock_scope) that needs an output loop that did not run for the whole wait: "+wreply+" ("+strings.Join(wtoks, " ")+")", k)
		}
		if o.tap != nil && k.Fault.Kind == "tcp-stall" && !o.tap.stalledOnce.Load() {
			c.Hist("branch", "tcp-stall-never-blocked")
		}
	}
}

// c03Compare checks the model's verdict on a history: `ok <partialEOF 0|1> …` or `err …`.
func c03Compare(c *core.Ctx, k c03Case, reply string, violated bool, tr string) {
	f := strings.Fields(reply)
	if len(f) < 2 || f[0] != "ok" {
		c.Disagree("C03/corr/"+tr+"-history-rejected", "the close model rejects the observed history: "+reply, k)
		return
	}
	modelPartial := f[1] == "1"
	if tr == "udp" && len(f) >= 4 {
		// udp_close_partial: inside both assumptions the model cannot show a partial EOF
		// reply fields: partial ordered patient navail total rClosed kept — the third assumption (kept: the reader's
		// endpoint did not close the session locally, e.g. by its idle timeout) is the LAST field; a history with
		// kept = 0 is outside udp_close_partial (that is the recorded finding reader-idle-timeout-clean-eof)
		kept := len(f) < 8 || f[7] == "1"
		if violated && f[2] == "1" && f[3] == "1" && kept {
			c.Disagree("C03/corr/udp-partial-eof-inside-assumptions", "the implementation showed a strict prefix followed by EOF although the replayed history stayed inside the three assumptions of udp_close_partial (ordered, patient, kept) — contradicts Props/C03.accepted_history_sound: "+reply, k)
		}
		if f[2] == "0" {
			c.Hist("model_assumption_broken", "ordered")
		}
		if f[3] == "0" {
			c.Hist("model_assumption_broken", "patient")
		}
	}
	if modelPartial != violated {
		c.Disagree("C03/corr/"+tr+"-reader-outcome", fmt.Sprintf("model predicts partial-then-EOF=%v, the implementation showed %v (%s)", modelPartial, violated, reply), k)
	}
}

// c03AnalyseTCP decodes the closing direction of the captured stream: the session's items in wire
// order (D:<len> data, Q close request, P close response).
func c03AnalyseTCP(k c03Case, o *c03Outcome) ([]string, []string) {
	var toks, problems []string
	for _, ds := range o.world.DecodeStreams() {
		if ds.ClientToServer == k.ServerCloses {
			continue
		}
		if ds.Err != nil {
			problems = append(problems, fmt.Sprintf("reference codec cannot decode conn %d: %v", ds.ConnID, ds.Err))
		}
		for _, s := range ds.Segs {
			switch {
			case s.IsData() || s.Proto == wire.OpenSessionRequest || s.Proto == wire.OpenSessionResponse:
				toks = append(toks, fmt.Sprintf("D:%d", len(s.Payload)))
			case s.Proto == wire.CloseSessionRequest:
				toks = append(toks, "Q")
			case s.Proto == wire.CloseSessionResponse:
				toks = append(toks, "P")
			}
		}
	}
	return toks, problems
}

// ------------------------------------------------------------------------------------------------
// generator

func c03FragmentSize(mtu int, udp bool) int {
	tr := 1
	if udp {
		tr = 2
	}
	f, err := protocol.VerifMaxFragmentSize(mtu, tr, 0)
	if err != nil || f <= 0 {
		return 1200
	}
	return f
}

func genC03(r *rand.Rand, thorough bool) []c03Case {
	var cases []c03Case
	mk := func(udp, serverCloses bool, n int, f c03Fault) *c03Case {
		k := c03Case{Seed: r.Int63(), UDP: udp, MTU: 1400, N: n, ServerCloses: serverCloses, Fault: f,
			MaxRead: []int{1, 13, 1500, 65536}[r.Intn(4)], BoundMs: 20000}
		if udp {
			k.MTU = udpMTUs[r.Intn(len(udpMTUs))]
		}
		if n > 100000 && k.MaxRead < 1500 {
			k.MaxRead = 65536
		}
		if r.Intn(3) == 0 {
			k.ClientPattern = patJSON(sim.RandomPattern(r, false))
			k.ServerPattern = patJSON(sim.RandomPattern(r, false))
		}
		cases = append(cases, k)
		return &cases[len(cases)-1]
	}
	for _, udp := range []bool{false, true} {
		frag := c03FragmentSize(1400, udp)
		sizes := []int{1, 1024, frag - 1, frag, frag + 1, 10240}
		if !udp {
			sizes = append(sizes, 32768, 32769)
		}
		if thorough {
			sizes = append(sizes, 1<<20)
		}
		for _, sc := range []bool{false, true} {
			for _, n := range sizes {
				mk(udp, sc, n, c03Fault{Kind: "clean"})
			}
		}
	}
	// fault plans over the datagrams in flight at close (UDP). Deterministic boundaries first (every run):
	// the first data-bearing sequence number, the second, the last but one and the last, for each of
	// drop / delay (overtaken by the close request) / duplicate, in both directions.
	for _, sc := range []bool{false, true} {
		n := 10240
		nseg := (n-1)/c03FragmentSize(1400, true) + 1 // data segments; seq 0 is the open request / response
		for _, kind := range []string{"drop-data", "delay-data", "dup-data"} {
			for _, seq := range []int{1, 2, nseg - 1, nseg} {
				k := mk(true, sc, n, c03Fault{Kind: kind, Seq: seq, DelayMs: 60})
				k.MTU = 1400
			}
		}
		mk(true, sc, n, c03Fault{Kind: "delay-close", DelayMs: 60})
		mk(true, sc, n, c03Fault{Kind: "dup-close"})
		mk(true, sc, n, c03Fault{Kind: "drop-close"})
		mk(true, sc, n, c03Fault{Kind: "drop-data+drop-close", Seq: nseg})
		// Two cases on a path that has round-trip samples (two fragments written and acknowledged first)
		// with the last Write one full chunk (26 fragments — more than the congestion window of 16 + 3
		// lets out at once, so part of it is still queued, with the close request behind it, at Close):
		// (a) the first datagram of that chunk is lost in flight — the sender must retransmit it before
		// its window lets the rest and the close request out; (b) a 600 ms delay spike starts with that
		// Write, shorter than Close's bounded wait.
		warm := 2 * c03FragmentSize(1400, true)
		k := mk(true, sc, warm+32768, c03Fault{Kind: "drop-inflight"})
		k.MTU, k.Warm, k.CloseAfterFault, k.MaxRead, k.ClientPattern, k.ServerPattern = 1400, warm, true, 65536, nil, nil
		k = mk(true, sc, warm+32768, c03Fault{Kind: "stall", DelayMs: 600})
		k.MTU, k.Warm, k.MaxRead, k.ClientPattern, k.ServerPattern = 1400, warm, 65536, nil, nil
	}
	// stream transport: the connection makes no progress until well after the bounded wait of Close() with the open request / response and the data still unsent; 1025 = smallest write that
	// is not piggybacked on the open request, 32768 = one full segment (a second chunk would make Write
	// itself wait for oLock until the stall is over)
	for _, sc := range []bool{false, true} {
		for _, n := range []int{1025, 20000, 32768} {
			k := mk(false, sc, n, c03Fault{Kind: "tcp-stall", DelayMs: 500})
			k.ClientPattern, k.ServerPattern = nil, nil
		}
	}
	// characterisation (not an oracle): the TCP connection is reset while the tail is on its way
	for _, sc := range []bool{false, true} {
		// two chunks (32768 + 7232): Write returns as soon as the second one is being written; the write
		// that carries it crosses the mark, is held for 100 ms, and the connection is reset meanwhile
		k := mk(false, sc, 40000, c03Fault{Kind: "tcp-reset", Seq: 36000})
		k.ClientPattern, k.ServerPattern, k.MaxRead = nil, nil, 65536
	}
	reps := 0
	if thorough {
		reps = 6
	}
	for rep := 0; rep < reps; rep++ {
		for _, sc := range []bool{false, true} {
			for _, n := range []int{10240, 1400 * 3, 50000} {
				nseg := n/1200 + 1
				for _, kind := range []string{"drop-data", "delay-data", "dup-data"} {
					seq := 1 + r.Intn(nseg)
					mk(true, sc, n, c03Fault{Kind: kind, Seq: seq, DelayMs: 20 + r.Intn(60)})
				}
				mk(true, sc, n, c03Fault{Kind: "delay-close", DelayMs: 20 + r.Intn(60)})
				mk(true, sc, n, c03Fault{Kind: "dup-close"})
			}
			mk(true, sc, 10240, c03Fault{Kind: "drop-close"})
			mk(true, sc, 10240, c03Fault{Kind: "drop-data+drop-close", Seq: 2 + r.Intn(5)})
		}
	}
	// (The `idle` plan — tail and every close request lost for ever, the reader's session closed locally
	// after idleSessionTimeout — is not generated here: it is corpus/C03/thorough/udp-reader-idle-timeout.json,
	// a known finding that takes 80–190 s and runs in the thorough tier only.)
	return cases
}

func c03LoadCorpus(c *core.Ctx) []c03Case {
	var out []c03Case
	files, _ := filepath.Glob(filepath.Join(c.Corpus, "*.json"))
	if c.Thorough() {
		// replays that take minutes (the idle timeout is a 60 s constant of the code) run in thorough only
		more, _ := filepath.Glob(filepath.Join(c.Corpus, "thorough", "*.json"))
		files = append(files, more...)
	}
	sort.Strings(files)
	for _, f := range files {
		raw, err := os.ReadFile(f)
		if err != nil {
			continue
		}
		var rp struct {
			Input json.RawMessage `json:"input"`
		}
		if json.Unmarshal(raw, &rp) != nil || len(rp.Input) == 0 {
			continue
		}
		var k c03Case
		if json.Unmarshal(rp.Input, &k) == nil && k.N > 0 {
			out = append(out, k)
		}
	}
	return out
}

func init() {
	core.Register("C03", &core.Scenario{
		Run: func(c *core.Ctx) {
			c.Res.Rule = "each case: one transport (TCP / UDP with MTU from {1280,1281,1400,1499,1500}), one direction (client closes / server closes), d of n bytes with n in {1, 1024, one fragment -1/0/+1, 10 KiB, 32 KiB(+1) on TCP, 1 MiB (thorough)}, optional random traffic patterns, the application writes d and calls Close immediately, the peer reads with random read sizes until EOF / error / 20 s bound; UDP fault plans address the datagrams in flight at close, deterministically on every run: first transmission of data segment 1 / 2 / last-1 / last dropped / delayed (overtaken by the close request) / duplicated, close request delayed / duplicated / dropped, data dropped and close dropped, on a warmed-up path with a last Write larger than the congestion window: its first datagram lost in flight at Close, and a 600 ms delay spike starting with that Write; TCP: the closing direction stalled until well after the bounded wait of Close (1500 x 1 ms + 0.5 s) with open request/response and data unsent (n = 1025, 20000, 32768); thorough: random positions, 1 MiB; one TCP reset case per direction as a characterisation (not an oracle); corpus replays first. Oracle: bytes read = d or the final error is not io.EOF (reader still blocked at the bound is counted separately). Distinct = distinct case JSON."
			c.Correspondence("observed close histories (application calls, every datagram / stream segment decoded by harness/wire) accepted by the Lean close model (close-udp / close-tcp) and reader outcome predicted by it")
			var cases []c03Case
			cases = append(cases, c03LoadCorpus(c)...)
			cases = append(cases, genC03(c.Rand, c.Thorough() || c.Search)...) // a broken obligation widens the search
			for i := 0; i < 3 && i < len(cases); i++ {
				c.Sample(cases[i])
			}
			core.Parallel(len(cases), 12, func(i int) { c03Run(c, cases[i]) })
			bgClose.Wait(30 * time.Second)
		},
		Replay: func(c *core.Ctx, raw json.RawMessage) {
			var k c03Case
			if json.Unmarshal(raw, &k) == nil {
				c03Run(c, k)
				bgClose.Wait(30 * time.Second)
			}
		},
	})
}
