package props

import (
	"encoding/binary"
	"encoding/json"
	"fmt"
	"math/rand"
	"os"
	"strconv"
	"strings"
	"time"

	"github.com/enfein/mieru/v3/pkg/protocol"
	"verifharness/core"
)

// C02, flow-control stage: the hand-written receiver (`Flow.recv` / `drain` / `rwin`) and sender
// (`Flow.round` = retransmission scan + send loop, `Flow.sndAck`) models against the REAL
// Session.input / Read / runOutputOncePacket / inputAck of one packet session driven single-threaded
// through the verif bench (no event loops; which timers have expired is an input).

type flowCase struct {
	Kind string   `json:"kind"` // "flow-recv" | "flow-send"
	Name string   `json:"name"`
	Ops  []string `json:"ops"` // recv: d:<seq>:<pay> | r ; send: q | a:<una>:<wnd> | p:<una>:<wnd> | o:<expired,…|->
}

const flowCap = 4096

func flowDigest(b []protocol.VerifSeg) uint64 {
	h := uint64(7)
	for _, g := range b {
		h = (h*1000003 + uint64(g.Seq)) % 1000000007
		h = (h*1000003 + uint64(g.TxCount)) % 1000000007
		h = (h*1000003 + uint64(g.AckCount)) % 1000000007
	}
	return h
}

func flowRunRecv(c *core.Ctx, k flowCase) {
	b, err := protocol.VerifNewUDPBench(1400)
	if err != nil {
		c.Disagree("C02/corr/flow-bench", "bench setup failed: "+err.Error(), k)
		return
	}
	real := make([]string, 0, len(k.Ops))
	for _, op := range k.Ops {
		x := "-"
		if op == "r" {
			if p, err := b.ReadSegment(4); err == nil && len(p) == 4 {
				x = fmt.Sprint(binary.BigEndian.Uint32(p))
			} else if err == nil {
				x = fmt.Sprintf("short:%d", len(p))
			}
		} else {
			f := strings.Split(op, ":")
			seq, _ := strconv.ParseUint(f[1], 10, 32)
			pay, _ := strconv.ParseUint(f[2], 10, 32)
			var pl [4]byte
			binary.BigEndian.PutUint32(pl[:], uint32(pay))
			// the model says the packet input path never blocks (a closed window drops before
			// waitForRecvQueueSpace can wait): run it under a watchdog
			done := make(chan error, 1)
			go func() { done <- b.InputData(uint32(seq), 0, 100, pl[:]) }()
			select {
			case err := <-done:
				if err != nil {
					c.Violate("C02/flow/input-error", fmt.Sprintf("%s: Session.input returned %v for a well-formed data segment", k.Name, err), k)
					return
				}
			case <-time.After(20 * time.Second):
				st := b.State()
				c.Disagree("C02/corr/flow-recv-blocked", fmt.Sprintf("%s: Session.input did not return within 20 s for %q (recvBuf %d, recvQueue %d, window %d): the input loop of the session is blocked, the model never blocks", k.Name, op, st.RecvBufLen, st.RecvQueueLen, st.ReceiveWindow), k)
				return
			}
		}
		st := b.State()
		real = append(real, fmt.Sprintf("%d:%d:%d:%d:%s", st.NextRecv, st.RecvBufLen, st.RecvQueueLen, st.ReceiveWindow, x))
		if st.RecvBufLen+st.RecvQueueLen > flowCap || st.RecvQueueLen > flowCap {
			c.Violate("C02/flow/receive-buffers-exceed-capacity", fmt.Sprintf("%s after %q: recvBuf %d + recvQueue %d", k.Name, op, st.RecvBufLen, st.RecvQueueLen), k)
		}
	}
	c.Compared()
	reply := c.Model.Ask("flow-recv %d %s", flowCap, strings.Join(k.Ops, " "))
	want := strings.Fields(reply)
	if len(want) == 0 || want[0] != "ok" || len(want)-1 != len(real) {
		c.Disagree("C02/corr/flow-recv", fmt.Sprintf("%s: model reply %.80q for %d ops", k.Name, reply, len(real)), k)
		return
	}
	for i := range real {
		if real[i] != want[i+1] {
			c.Disagree("C02/corr/flow-recv", fmt.Sprintf("%s: after op #%d %q the real session has nextRecv:recvBuf:recvQueue:window:read = %s, the model %s", k.Name, i, k.Ops[i], real[i], want[i+1]), k)
			return
		}
	}
}

func flowRunSend(c *core.Ctx, k flowCase) {
	b, err := protocol.VerifNewUDPBench(1400)
	if err != nil {
		c.Disagree("C02/corr/flow-bench", "bench setup failed: "+err.Error(), k)
		return
	}
	consts := protocol.VerifConsts()
	var real, mops []string
	dead := false
	maxBuf := 0
	lastWnd := int(consts["minWindowSize"]) // remoteWindowSize starts at minWindowSize
	for _, op := range k.Ops {
		if dead {
			break
		}
		f := strings.Split(op, ":")
		pre := b.State()
		switch f[0] {
		case "q":
			if b.State().SendQueueLen+1 >= flowCap-1 {
				continue // writeChunk waits while sendQueue.Remaining() <= nFragment
			}
			seq, ok := b.Queue([]byte("12345678"))
			if !ok {
				c.Violate("C02/flow/send-queue-insert-failed", fmt.Sprintf("%s: sendQueue.Insert failed for seq %d", k.Name, seq), k)
				return
			}
			mops = append(mops, fmt.Sprintf("q:%d", seq))
		case "a", "p":
			una, _ := strconv.ParseUint(f[1], 10, 32)
			wnd, _ := strconv.ParseUint(f[2], 10, 16)
			if f[0] == "a" {
				err = b.InputAck(uint32(una), uint16(wnd))
			} else {
				err = b.InputData(0, uint32(una), uint16(wnd), []byte{0, 0, 0, 0})
			}
			if err != nil {
				c.Violate("C02/flow/input-error", fmt.Sprintf("%s: Session.input returned %v for %q", k.Name, err, op), k)
				return
			}
			mops = append(mops, op)
			lastWnd = int(wnd)
		case "o":
			ex := map[uint32]bool{}
			if f[1] != "-" {
				for _, x := range strings.Split(f[1], ",") {
					v, _ := strconv.ParseUint(x, 10, 32)
					ex[uint32(v)] = true
				}
			}
			b.SetTimers(ex)
			b.OutputOnce()
			cw := b.State().Cwnd
			if int64(cw) < consts["minWindowSize"] || int64(cw) > consts["maxWindowSize"] {
				c.Disagree("C02/corr/cwnd-out-of-range", fmt.Sprintf("%s: congestion window %d outside [%d,%d]", k.Name, cw, consts["minWindowSize"], consts["maxWindowSize"]), k)
			}
			mops = append(mops, fmt.Sprintf("o:%d:%s", cw, f[1]))
		default:
			return
		}
		st := b.State()
		sb := b.SendBuf()
		d := 0
		if st.OutputErr {
			d, dead = 1, true
		}
		real = append(real, fmt.Sprintf("%d:%d:%d:%d:%d", len(sb), flowDigest(sb), st.SendQueueLen, st.RemoteWindow, d))
		// direct oracle (no model involved): with nothing outstanding, data queued and the peer's most
		// recent ack advertising an open window, an output round must transmit something
		if f[0] == "o" && !dead && pre.SendBufLen == 0 && pre.SendQueueLen > 0 && lastWnd > 0 && len(sb) == 0 {
			c.Violate("C02/flow/queued-data-not-sent-with-open-window", fmt.Sprintf("%s: op #%d: sendBuf empty, %d segments queued, the last ack advertised window %d, yet the output round sent nothing (remoteWindowSize %d)", k.Name, len(real)-1, pre.SendQueueLen, lastWnd, pre.RemoteWindow), k)
		}
		if len(sb) > maxBuf {
			maxBuf = len(sb)
		}
		if len(sb) >= flowCap {
			c.Violate("C02/flow/send-buffer-full", fmt.Sprintf("%s after %q: sendBuf holds %d segments", k.Name, op, len(sb)), k)
		}
	}
	if k.Name == "send-buffer-one-below-capacity" {
		c.Hist("flow_send_boundary_max_sendbuf", fmt.Sprint(maxBuf))
		if maxBuf != flowCap-1 {
			c.Note("flow-send boundary case reached sendBuf %d, not %d", maxBuf, flowCap-1)
		}
	}
	c.Compared()
	reply := c.Model.Ask("flow-send %d %d %d %d %d %s", flowCap, consts["txCountLimit"], consts["earlyRetransmission"], consts["earlyRetransmissionLimit"], consts["minWindowSize"], strings.Join(mops, " "))
	want := strings.Fields(reply)
	if len(want) == 0 || want[0] != "ok" || len(want)-1 != len(real) {
		c.Disagree("C02/corr/flow-send", fmt.Sprintf("%s: model reply %.80q for %d ops", k.Name, reply, len(real)), k)
		return
	}
	for i := range real {
		w := want[i+1]
		if j := strings.LastIndex(w, ":"); j > 0 {
			w = w[:j] // the model's emission count is not observed here
		}
		if real[i] != w {
			c.Disagree("C02/corr/flow-send", fmt.Sprintf("%s: after op #%d %q the real session has sendBuf:digest:sendQueue:remoteWindow:abandoned = %s, the model %s", k.Name, i, mops[i], real[i], w), k)
			return
		}
	}
}

func flowRun(c *core.Ctx, k flowCase) {
	key, _ := json.Marshal(k.Ops)
	c.Eval(k.Kind+"/"+k.Name+"/"+fmt.Sprint(len(key)), true)
	c.Hist("flow_case", k.Kind+"/"+strings.SplitN(k.Name, "#", 2)[0])
	if k.Kind == "flow-recv" {
		flowRunRecv(c, k)
	} else {
		flowRunSend(c, k)
	}
}

// ---- deterministic boundary cases (every run) ---------------------------------------------------

func dOps(from, to int) []string {
	var o []string
	for i := from; i < to; i++ {
		o = append(o, fmt.Sprintf("d:%d:%d", i, 1000+i))
	}
	return o
}
func rep(op string, n int) []string {
	o := make([]string, n)
	for i := range o {
		o[i] = op
	}
	return o
}
func cat(xs ...[]string) []string {
	var o []string
	for _, x := range xs {
		o = append(o, x...)
	}
	return o
}

func flowBoundaryCases() []flowCase {
	C := flowCap
	d := func(k int) []string { return []string{fmt.Sprintf("d:%d:%d", k, 1000+k)} }
	recv := []flowCase{
		{Name: "queue-exactly-full-then-read", Ops: cat(dOps(0, C), d(C), []string{"r"}, d(C), d(C+1), rep("r", 3), d(C+3), d(C+2), d(C+1), rep("r", C+5))},
		{Name: "head-missing-buffer-fills", Ops: cat(dOps(1, C), d(C), d(0), d(C+1), d(0), rep("r", 3))},
		{Name: "head-arrives-with-two-slots-left", Ops: cat(dOps(1, C-1), d(0), d(C-1), d(C), []string{"r"}, d(C+1), []string{"r"}, d(C), rep("r", 5), d(C+2))},
		{Name: "duplicates-stale-and-replacement", Ops: []string{"d:5:1", "d:5:2", "d:3:9", "d:3:9", "d:0:7", "d:0:8", "r", "r", "d:1:1", "d:2:2", "d:1:5", "r", "r", "r", "r", "r", "r", "r", "d:4:4", "d:6:6", "r", "r", "r"}},
		{Name: "read-with-nothing-queued", Ops: []string{"r", "d:1:1", "r", "d:0:0", "r", "r", "r"}},
		{Name: "far-future-sequence-numbers", Ops: []string{"d:4294967295:1", "d:2147483648:2", "d:0:3", "r", "d:4294967295:4", "d:1:5", "r", "r"}},
	}
	for i := range recv {
		recv[i].Kind = "flow-recv"
	}
	o := func(ex ...int) string {
		if len(ex) == 0 {
			return "o:-"
		}
		s := make([]string, len(ex))
		for i, v := range ex {
			s[i] = fmt.Sprint(v)
		}
		return "o:" + strings.Join(s, ",")
	}
	// grow the congestion window to its maximum: ack everything after every round
	var grow []string
	sent := 0
	for r := 0; r < 18; r++ {
		grow = append(grow, rep("q", 600)...)
		grow = append(grow, "o:-")
		sent += 600
		grow = append(grow, fmt.Sprintf("a:%d:65535", sent)) // acks at most what exists; below the real nextSend discards only what was sent
	}
	// then fill sendBuf without acks: each round sends about half of what the congestion window leaves
	var fillBuf []string
	for r := 0; r < 10; r++ {
		fillBuf = append(fillBuf, rep("q", 1500)...)
		fillBuf = append(fillBuf, rep(o(), 4)...)
	}
	var abandon []string
	abandon = append(abandon, "q", "q", o())
	for i := 0; i < 19; i++ {
		abandon = append(abandon, o(0))
	}
	abandon = append(abandon, o(0), o(0))
	var survive []string
	survive = append(survive, "q", "q", o())
	for i := 0; i < 19; i++ {
		survive = append(survive, o(0))
	}
	survive = append(survive, "a:1:100", o(1), o(1), "a:2:100", o(), "q", o())
	send := []flowCase{
		{Name: "window-update-without-new-ack-reopens", Ops: cat(rep("q", 20), []string{o(), "a:16:0", o()}, rep("q", 5), []string{o(), "a:16:0", o(), "a:16:5", o(), o(), "a:20:0", o(), "a:21:1", o(), o(), "a:25:65535", o()})},
		{Name: "piggybacked-window-update-reopens", Ops: cat(rep("q", 20), []string{o(), "p:16:0", o(), "p:16:3", o(), "p:19:0", o(), "p:19:1", o()})},
		{Name: "abandon-after-20-transmissions", Ops: abandon},
		{Name: "ack-after-20-transmissions-survives", Ops: survive},
		{Name: "early-retransmission-once", Ops: cat(rep("q", 4), []string{o(), "a:0:100", "a:0:100", o(), "a:0:100", o(), "a:0:100", "a:0:100", "a:0:100", o(), o(0), "a:1:100", "a:1:100", "a:1:100", "a:1:100", o(), "a:3:100", o()})},
		{Name: "stale-and-future-acks", Ops: cat(rep("q", 10), []string{o(), "a:5:7", "a:2:9", "a:0:0", o(), "a:4000000000:50", o(), "q", o()})},
		{Name: "ack-counter-wraps-at-256", Ops: cat(rep("q", 2), []string{o()}, rep("a:0:100", 256), []string{o()}, rep("a:0:100", 3), []string{o(), o()})},
		{Name: "remote-window-of-one", Ops: cat(rep("q", 6), []string{"a:0:1", o(), o(), "a:1:1", o(), "a:2:2", o(), o(1), o()})},
		{Name: "send-buffer-one-below-capacity", Ops: cat(grow, fillBuf, []string{fmt.Sprintf("a:%d:65535", sent+1)}, rep(o(), 4))},
	}
	for i := range send {
		send[i].Kind = "flow-send"
	}
	return append(recv, send...)
}

func flowRandomRecv(r *rand.Rand, name string) flowCase {
	k := flowCase{Kind: "flow-recv", Name: name}
	next, hi := 0, 0 // approximate: next in-order number, highest number used
	for ph := 0; ph < 3+r.Intn(4); ph++ {
		switch r.Intn(5) {
		case 0: // in-order burst
			n := 1 + r.Intn(5000)
			for i := 0; i < n; i++ {
				k.Ops = append(k.Ops, fmt.Sprintf("d:%d:%d", next, r.Intn(1<<20)))
				next++
			}
		case 1: // out-of-order burst behind a hole
			n := 1 + r.Intn(4200)
			for i := 1; i <= n; i++ {
				k.Ops = append(k.Ops, fmt.Sprintf("d:%d:%d", next+i, r.Intn(1<<20)))
			}
			if next+n > hi {
				hi = next + n
			}
			if r.Intn(2) == 0 {
				k.Ops = append(k.Ops, fmt.Sprintf("d:%d:%d", next, r.Intn(1<<20)))
				next += n + 1
			}
		case 2: // reads
			k.Ops = append(k.Ops, rep("r", 1+r.Intn(5000))...)
		default: // mix around the in-order point
			for i := 0; i < 50+r.Intn(300); i++ {
				switch r.Intn(10) {
				case 0, 1, 2:
					k.Ops = append(k.Ops, "r")
				case 3, 4, 5:
					k.Ops = append(k.Ops, fmt.Sprintf("d:%d:%d", next, r.Intn(1<<20)))
					next++
				case 6:
					k.Ops = append(k.Ops, fmt.Sprintf("d:%d:%d", next-1-r.Intn(6), r.Intn(1<<20)))
				default:
					k.Ops = append(k.Ops, fmt.Sprintf("d:%d:%d", next+r.Intn(9), r.Intn(1<<20)))
				}
			}
		}
		if next < 0 {
			next = 0
		}
	}
	for i, op := range k.Ops { // negative sequence numbers do not exist
		if strings.HasPrefix(op, "d:-") {
			k.Ops[i] = "d:0:1"
		}
	}
	return k
}

func flowRandomSend(r *rand.Rand, name string) flowCase {
	k := flowCase{Kind: "flow-send", Name: name}
	queued := 0
	for i := 0; i < 200+r.Intn(600); i++ {
		switch r.Intn(12) {
		case 0, 1, 2:
			n := 1 + r.Intn(40)
			k.Ops = append(k.Ops, rep("q", n)...)
			queued += n
		case 3, 4:
			una := r.Intn(queued + 2)
			if r.Intn(4) == 0 {
				una = queued
			}
			k.Ops = append(k.Ops, fmt.Sprintf("a:%d:%d", una, []int{0, 1, 2, 16, 100, 4096, 65535}[r.Intn(7)]))
		case 5:
			k.Ops = append(k.Ops, fmt.Sprintf("p:%d:%d", r.Intn(queued+2), []int{0, 1, 16, 4096}[r.Intn(4)]))
		case 6: // three duplicate acks
			una := r.Intn(queued + 1)
			k.Ops = append(k.Ops, rep(fmt.Sprintf("a:%d:100", una), 3)...)
		default:
			var ex []string
			if r.Intn(2) == 0 {
				for j := 0; j < 1+r.Intn(4); j++ {
					ex = append(ex, fmt.Sprint(r.Intn(queued+1)))
				}
			}
			if len(ex) == 0 {
				k.Ops = append(k.Ops, "o:-")
			} else {
				k.Ops = append(k.Ops, "o:"+strings.Join(ex, ","))
			}
		}
	}
	// sometimes hammer one segment to the abandonment boundary
	if r.Intn(2) == 0 {
		k.Ops = append(k.Ops, "q", "o:-")
		for i := 0; i < 25; i++ {
			k.Ops = append(k.Ops, fmt.Sprintf("o:%d", r.Intn(queued+1)))
		}
	}
	return k
}

// stageOn: development switch. VH_ONLY=<stage> runs only that stage of a scenario (unset: all).
func stageOn(stage string) bool {
	v := os.Getenv("VH_ONLY")
	return v == "" || v == stage
}

func init() {
	core.RegisterExtra("C02", func(c *core.Ctx) {
		if !stageOn("flow") {
			return
		}
		c.Correspondence("flow control: Flow.recv/drain/rwin (receiver) and Flow.round/sndAck (retransmission scan = Retx.step per segment, send loop, window bookkeeping) vs the real Session.input / Read / runOutputOncePacket / inputAck of one packet session driven op by op (capacity, window and txCountLimit boundaries on every run + random op sequences)")
		cases := flowBoundaryCases()
		n := c.N(6, 60)
		for i := 0; i < n; i++ {
			cases = append(cases, flowRandomRecv(c.Rand, fmt.Sprintf("random#%d", i)))
			cases = append(cases, flowRandomSend(c.Rand, fmt.Sprintf("random#%d", i)))
		}
		c.Sample(flowCase{Kind: "flow-send", Name: "abandon-after-20-transmissions", Ops: []string{"q", "o:-", "o:0", "…"}})
		core.Parallel(len(cases), 8, func(i int) { flowRun(c, cases[i]) })
	})
	core.RegisterReplay("C02", func(c *core.Ctx, raw json.RawMessage) bool {
		var k flowCase
		if json.Unmarshal(raw, &k) != nil || (k.Kind != "flow-recv" && k.Kind != "flow-send") {
			return false
		}
		flowRun(c, k)
		return true
	})
}
