package props

import (
	"context"
	"encoding/json"
	"fmt"
	"net"
	"strings"
	"time"

	"github.com/enfein/mieru/v3/pkg/protocol"
	"verifharness/core"
	"verifharness/sim"
)

// C02, closed-window stage (every run, no network fault): the receiving application pauses while the
// sender fills the peer's receive window EXACTLY (segmentTreeCapacity unread segments, everything
// acknowledged: sendBuf empty, remoteWindowSize 0), the sender writes more, the receiver resumes
// reading. The protocol has no zero-window probe: the window is reopened by an ack that acknowledges
// nothing new and only advertises a larger window (`Flow.Step.recvAck` stores the window of EVERY
// ack; theorem C02.zero_window_recovery). Oracle: everything written is read, in order, within the
// time limit.

type windowCase struct {
	Kind string `json:"kind"` // "window-full"
	MTU  int    `json:"mtu"`
	Seed int64  `json:"seed"`
	// Reverse: the server is the sender and the client application pauses
	Reverse bool `json:"reverse"`
}

func waitCond(timeout time.Duration, cond func() bool) bool {
	deadline := time.Now().Add(timeout)
	for time.Now().Before(deadline) {
		if cond() {
			return true
		}
		time.Sleep(time.Millisecond)
	}
	return cond()
}

func windowRun(c *core.Ctx, k windowCase) {
	key, _ := json.Marshal(k)
	w, err := sim.NewWorld(sim.Config{UDP: true, MTU: k.MTU, Seed: k.Seed})
	if err != nil {
		c.Eval(string(key), false)
		c.Violate("C02/setup", "endpoints failed to start: "+err.Error(), k)
		return
	}
	defer bgClose.Go(w.Close)
	ctx, cancel := context.WithTimeout(context.Background(), 20*time.Second)
	defer cancel()
	cc, err := w.Dial(ctx)
	if err != nil {
		c.Eval(string(key), false)
		c.Violate("C02/setup", "dial failed: "+err.Error(), k)
		return
	}
	defer cc.Close()
	frag, _ := protocol.VerifMaxFragmentSize(k.MTU, 2, 0)
	// the client's first write opens the session (and identifies nothing: one session only)
	hello := make([]byte, 8)
	sim.FillStream(hello, k.Seed, 9, 0, 0)
	if _, err := cc.Write(hello); err != nil {
		c.Violate("C02/setup", "first write failed: "+err.Error(), k)
		return
	}
	acc := make(chan net.Conn, 1)
	go func() {
		if conn, err := w.Server.Accept(); err == nil {
			acc <- conn
		}
	}()
	var sc net.Conn
	select {
	case sc = <-acc:
	case <-time.After(20 * time.Second):
		c.Eval(string(key), false)
		c.Violate("C02/udp/stall", "the server did not accept the session within 20 s on a loss-free network", k)
		return
	}
	defer sc.Close()
	tx, rx := cc, sc // tx: the sending application's conn, rx: the pausing reader's
	dir := 0
	if k.Reverse {
		// the server sends; the client application must first consume nothing (it pauses too), but the
		// server application reads the hello so that only one direction is loaded
		tx, rx = sc, cc
		dir = 1
		buf := make([]byte, 8)
		sc.SetReadDeadline(time.Now().Add(20 * time.Second))
		if _, err := readFull(sc, buf); err != nil {
			c.Violate("C02/udp/stall", "the server application could not read the client's first write: "+err.Error(), k)
			return
		}
		sc.SetReadDeadline(time.Time{})
	}
	st := func(conn net.Conn) protocol.VerifUDPState { s, _ := protocol.VerifUDPStateOf(conn); return s }
	written := 0
	write := func(n int) error {
		b := make([]byte, n)
		sim.FillStream(b, k.Seed, 0, dir, written)
		m, err := tx.Write(b)
		written += m
		if err == nil && m != n {
			err = fmt.Errorf("short write %d of %d", m, n)
		}
		return err
	}
	unread := 0 // bytes the pausing reader already owes (the hello, when the client is the sender)
	if !k.Reverse {
		unread = len(hello)
	}
	settled := func() bool {
		t, r := st(tx), st(rx)
		if t.SendBufLen != 0 {
			return false
		}
		if r.ReceiveWindow == 0 {
			return t.RemoteWindow == 0
		}
		return t.SendQueueLen == 0 && r.NextRecv == t.NextSend
	}
	stable := func() bool {
		for i := 0; i < 3; i++ {
			if !settled() {
				return false
			}
			time.Sleep(2 * time.Millisecond)
		}
		return settled()
	}
	// step 1: fill the window exactly, burst by burst
	for round := 0; ; round++ {
		if !waitCond(60*time.Second, stable) {
			t, r := st(tx), st(rx)
			c.Eval(string(key), false)
			c.Res.Discarded++
			c.Note("window-full case discarded: round %d did not settle (sender queue %d buf %d rwnd %d, receiver window %d)", round, t.SendQueueLen, t.SendBufLen, t.RemoteWindow, r.ReceiveWindow)
			return
		}
		r := st(rx)
		if r.ReceiveWindow == 0 {
			break
		}
		if round > 4096 {
			c.Eval(string(key), false)
			c.Res.Discarded++
			c.Note("window-full case discarded: the receive window never closed")
			return
		}
		n := 16
		if r.ReceiveWindow < n {
			n = r.ReceiveWindow
		}
		if err := write(n * frag); err != nil {
			c.Eval(string(key), true)
			c.Violate("C02/udp/delivery", fmt.Sprintf("write failed while both ends keep the connection open on a loss-free network: %v", err), k)
			return
		}
	}
	t0 := st(tx)
	c.Eval(string(key), true)
	c.Hist("window_case", fmt.Sprintf("mtu=%d reverse=%v closed-after=%s", k.MTU, k.Reverse, core.SizeBucket(written)))
	if t0.SendBufLen != 0 || t0.RemoteWindow != 0 || st(rx).RecvQueueLen+st(rx).RecvBufLen != flowCap {
		c.Res.Discarded++
		c.Note("window-full case: precondition not reached exactly (sendBuf %d, remoteWindow %d)", t0.SendBufLen, t0.RemoteWindow)
	}
	// step 2: more data; it has to wait in the send queue
	tail := 3 * 16 * frag
	total := written + tail
	tailDone := make(chan error, 1)
	go func() { tailDone <- write(tail) }()
	time.Sleep(200 * time.Millisecond)
	// step 3: the reader resumes
	const patience = 60 * time.Second // measured on the unchanged tree: 4–7 s (the ~5 s heartbeat ack)
	start := time.Now()
	got, mismatch := 0, -1
	buf := make([]byte, 256*1024)
	exp := make([]byte, 256*1024)
	var rerr error
	for got < total+unread {
		rx.SetReadDeadline(start.Add(patience))
		n, err := rx.Read(buf)
		if n > 0 && mismatch < 0 {
			for i := 0; i < n; i++ {
				pos := got + i
				var e byte
				if pos < unread {
					e = sim.StreamByte(k.Seed, 9, 0, pos)
				} else {
					e = sim.StreamByte(k.Seed, 0, dir, pos-unread)
				}
				exp[i] = e
				if buf[i] != e {
					mismatch = pos
					break
				}
			}
		}
		got += n
		if err != nil {
			rerr = err
			break
		}
	}
	el := time.Since(start).Round(time.Millisecond)
	c.Hist("window_recovery", fmt.Sprintf("%ds", int(el.Seconds())))
	if mismatch >= 0 {
		c.Violate("C02/udp/delivery", fmt.Sprintf("closed-window case: byte %d read by the paused reader differs from what was written", mismatch), k)
	}
	if got < total+unread {
		t, r := st(tx), st(rx)
		c.Violate("C02/udp/stall", fmt.Sprintf("closed-window case: both ends keep the connection open and the network lost nothing, but %v after the reader resumed it has %d of %d bytes (%v); sender sendQueue=%d sendBuf=%d remoteWindow=%d, receiver window=%d", el, got, total+unread, rerr, t.SendQueueLen, t.SendBufLen, t.RemoteWindow, r.ReceiveWindow), k)
	}
	select {
	case <-tailDone:
	case <-time.After(time.Second):
	}
	// the wire of this run is a history like any other
	a := w.AuditUDP()
	for name, h := range a.Histories {
		c.Compared()
		if reply := c.Model.Ask("arq-run %s", strings.Join(h, " ")); !strings.HasPrefix(reply, "ok ") {
			c.Disagree("C02/corr/arq-acceptor", fmt.Sprintf("closed-window case: history of %s rejected by the model: %s", name, reply), k)
		}
	}
}

func readFull(conn net.Conn, b []byte) (int, error) {
	n := 0
	for n < len(b) {
		m, err := conn.Read(b[n:])
		n += m
		if err != nil {
			return n, err
		}
	}
	return n, nil
}

func init() {
	core.RegisterExtra("C02", func(c *core.Ctx) {
		if !stageOn("window") {
			return
		}
		c.Correspondence("closed receive window, reopened by a pure window update: real Mux endpoints, reader paused until the window is exactly full and everything is acknowledged")
		cases := []windowCase{{Kind: "window-full", MTU: 1400, Seed: c.Rand.Int63()}}
		if c.Thorough() {
			cases = append(cases, windowCase{Kind: "window-full", MTU: 1280, Seed: c.Rand.Int63(), Reverse: true},
				windowCase{Kind: "window-full", MTU: 1500, Seed: c.Rand.Int63()})
		} else {
			cases = append(cases, windowCase{Kind: "window-full", MTU: 1280, Seed: c.Rand.Int63(), Reverse: true})
		}
		c.Sample(cases[0])
		core.Parallel(len(cases), 3, func(i int) { windowRun(c, cases[i]) })
		bgClose.Wait(30 * time.Second)
	})
	core.RegisterReplay("C02", func(c *core.Ctx, raw json.RawMessage) bool {
		var k windowCase
		if json.Unmarshal(raw, &k) != nil || k.Kind != "window-full" {
			return false
		}
		windowRun(c, k)
		return true
	})
}
