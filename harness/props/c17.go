package props

import (
	"bytes"
	"encoding/json"
	"fmt"
	"math/bits"
	"sync"
	"sync/atomic"

	"github.com/enfein/mieru/v3/pkg/mathext"
	"github.com/enfein/mieru/v3/pkg/protocol"
	"github.com/enfein/mieru/v3/pkg/rng"
	"verifharness/core"
	"verifharness/wire"
)

// C17 — low-entropy encoding is lossless, canonical, identical on every CPU path.
//
// Three things are compared on every case:
//   (C)  the real functions against the bit-by-bit Lean reference (Mieru.Model.LowEntropy, driver ops le-*/pdep/pext),
//   (C') the real functions against the REGENERATED definitions (Mieru.Gen.LE via mieru-gen, ops le-gen-*): this
//        validates the translator of tools/goextract/lowentropy.go (Props/C17 proves Gen = model),
//   (D)  the direct oracle on the real code alone: round trip, length law, the documented wire format (an
//        independent Go reference written from docs/protocol.md, harness/wire), canonicity, rejection of every
//        invalid parameter class, BMI2 == portable. A direct-oracle failure carries a concrete replay.

type leCase struct {
	Kind  string `json:"kind"`
	Src   string `json:"src,omitempty"`
	Enc   string `json:"enc,omitempty"`
	N     int    `json:"n,omitempty"`
	Mode  int    `json:"mode"`
	Half  uint32 `json:"half"`
	Rot   int    `json:"rot"`
	Pad   int    `json:"pad"`
	Proto int    `json:"proto,omitempty"`
	PLen  int    `json:"payload_len,omitempty"`
	ELen  int    `json:"extracted_len,omitempty"`
	X     uint64 `json:"x,omitempty"`
	Mask  uint64 `json:"mask,omitempty"`
	// big bodies are described, not spelled out: Fill byte pattern of length N (kind "roundtrip-fill")
	Fill string `json:"fill,omitempty"`
	I    int    `json:"i,omitempty"`
}

var leC = []int{0, 4, 5, 6, 7}
var leOnes = []int{0, 16, 20, 24, 28}

func randHalfMask(c *core.Ctx, ones int) uint32 {
	perm := c.Rand.Perm(32)
	var m uint32
	for i := 0; i < ones; i++ {
		m |= 1 << uint(perm[i])
	}
	return m
}

func validRotations() []int {
	r := []int{0}
	for i := 1; i <= 15; i++ {
		r = append(r, i, 16*i)
	}
	return r
}

func c17ValidRot(r int) bool { return r == 0 || (r >= 1 && r <= 15) || (r >= 16 && r <= 240 && r%16 == 0) }

// c17Invalid names the documented reason why (mode, half, rot) is not a valid parameter triple ("" = valid).
func c17Invalid(mode int, half uint32, rot int) string {
	switch {
	case mode < 1 || mode > 4:
		return "mode"
	case bits.OnesCount32(half) != leOnes[mode]:
		if bits.OnesCount32(half) > leOnes[mode] {
			return "mask-weight-above"
		}
		return "mask-weight-below"
	case !c17ValidRot(rot):
		return "rotation"
	}
	return ""
}

func c17Fill(pattern string, n int) []byte {
	b := make([]byte, n)
	switch pattern {
	case "zero":
	case "ff":
		for i := range b {
			b[i] = 0xff
		}
	default: // "count": a deterministic non-periodic-looking pattern
		x := uint32(2463534242)
		for i := range b {
			x ^= x << 13
			x ^= x >> 17
			x ^= x << 5
			b[i] = byte(x>>8) ^ byte(i)
		}
	}
	return b
}

func c17Src(k leCase) []byte {
	if k.Fill != "" {
		return c17Fill(k.Fill, k.N)
	}
	return core.UnHex(k.Src)
}

func c17RotClass(rot int) string {
	switch {
	case rot == 0:
		return "0"
	case rot == 15:
		return "15"
	case rot < 15 && rot > 0:
		return "right"
	case rot == 240:
		return "240"
	case c17ValidRot(rot):
		return "left"
	}
	return "invalid"
}

func c17RoundTrip(c *core.Ctx, k leCase) {
	src := c17Src(k)
	key := fmt.Sprintf("rt/%d/%d/%d/%d/%s/%s%d", k.Mode, k.Half, k.Rot, k.Pad, k.Src, k.Fill, k.N)
	enc, err := protocol.VerifEncodeLowEntropy(src, k.Mode, k.Half, k.Rot, uint8(k.Pad))
	c.Eval(key, err == nil)
	c.Hist("mode", fmt.Sprint(k.Mode))
	c.Hist("body_size", core.SizeBucket(len(src)))
	c.Hist("rotation_class", c17RotClass(k.Rot))
	if err != nil {
		c.Hist("branch", "encode-rejected")
	} else {
		c.Hist("branch", "encode-ok")
	}
	var got string
	if err != nil {
		got = "err rejected"
	} else {
		got = "ok " + core.Hex(enc)
	}
	// correspondence: encoder vs hand-written model and vs regenerated definitions. The list-based Lean encoders
	// need seconds for a 32 KiB body: in the quick tier the largest bodies go through the model's DECODER
	// (below), the Go reference and — at the maximal chunk count — the regenerated encoder only.
	big := len(src) > 20000 && !c.Thorough()
	maxChunks := k.Mode >= 1 && k.Mode <= 4 && len(src) == 8191*leC[k.Mode]
	if !big {
		m := c.Model.Ask("le-enc %s %d %d %d %d", core.Hex(src), k.Mode, k.Half, k.Rot, k.Pad)
		c.Compared()
		if m != got {
			c.Disagree("C17/corr/le-enc", fmt.Sprintf("encoder: model %.80s impl %.80s", m, got), k)
		}
	}
	if c.Gen != nil && k.Pad < 256 && (!big || maxChunks) {
		g := c.Gen.Ask("le-gen-enc %s %d %d %d %d", core.Hex(src), k.Mode, k.Half, k.Rot, k.Pad)
		c.Compared()
		if g != got {
			c.Disagree("C17/corr/le-gen-enc", fmt.Sprintf("encoder: regenerated definition %.80s impl %.80s", g, got), k)
		}
	}
	// direct oracle: acceptance is exactly the documented parameter validity
	C := 0
	if k.Mode >= 1 && k.Mode <= 4 {
		C = leC[k.Mode]
	}
	why := c17Invalid(k.Mode, k.Half, k.Rot)
	if why == "" && k.Pad > 1 {
		why = "padding-bit"
	}
	if why == "" && (len(src) == 0 || (len(src)+C-1)/C > 8191) {
		why = "length"
	}
	if why != "" {
		if err == nil {
			c.Violate("C17/accepts-invalid/encoder/"+why, fmt.Sprintf("the encoder accepted an invalid %s (mode %d, half mask %08x with %d one-bits, rotation %d, padding bit %d, %d bytes)", why, k.Mode, k.Half, bits.OnesCount32(k.Half), k.Rot, k.Pad, len(src)), k)
		}
		return
	}
	if err != nil {
		c.Violate(fmt.Sprintf("C17/rejects-valid/encoder/mode=%d", k.Mode), fmt.Sprintf("the encoder rejected valid parameters: %v", err), k)
		return
	}
	// length law, documented wire format, round trip
	if want := (len(src) + C - 1) / C * 8; len(enc) != want {
		c.Violate(fmt.Sprintf("C17/length/mode=%d", k.Mode), fmt.Sprintf("encoded length %d, want ceil(%d/%d)*8=%d", len(enc), len(src), C, want), k)
	}
	if ref := wire.LEEncode(src, uint8(k.Mode), k.Half, uint8(k.Rot), k.Pad); !bytes.Equal(ref, enc) {
		at := 0
		for at < len(ref) && at < len(enc) && ref[at] == enc[at] {
			at++
		}
		c.Violate(fmt.Sprintf("C17/spec/encoder-output/mode=%d/rot=%s/pad=%d", k.Mode, c17RotClass(k.Rot), k.Pad), fmt.Sprintf("the encoding differs from docs/protocol.md (chunk i uses the initial mask rotated by i*R, big-endian deposit, uniform padding) from byte %d (chunk %d) on: rotation %d, %d bytes", at, at/8, k.Rot, len(src)), k)
	}
	dec, derr := protocol.VerifDecodeLowEntropy(enc, len(src), k.Mode, k.Half, k.Rot)
	if derr != nil || !bytes.Equal(dec, src) {
		c.Violate(fmt.Sprintf("C17/roundtrip/mode=%d/rot=%s/pad=%d", k.Mode, c17RotClass(k.Rot), k.Pad), fmt.Sprintf("decode(encode(src)) != src (err=%v)", derr), k)
	}
	md := c.Model.Ask("le-dec %s %d %d %d %d", core.Hex(enc), len(src), k.Mode, k.Half, k.Rot)
	c.Compared()
	if md != "ok "+core.Hex(src) {
		c.Disagree("C17/corr/le-dec-of-enc", fmt.Sprintf("model decode of impl encoding: %.80s", md), k)
	}
}

func c17Decode(c *core.Ctx, k leCase) {
	enc := core.UnHex(k.Enc)
	key := fmt.Sprintf("dec/%d/%d/%d/%d/%s", k.Mode, k.Half, k.Rot, k.N, k.Enc)
	dec, err := protocol.VerifDecodeLowEntropy(enc, k.N, k.Mode, k.Half, k.Rot)
	c.Eval(key, true)
	if err != nil {
		c.Hist("branch", "decode-rejected:"+k.Kind)
	} else {
		c.Hist("branch", "decode-accepted:"+k.Kind)
	}
	got := "err rejected"
	if err == nil {
		got = "ok " + core.Hex(dec)
	}
	m := c.Model.Ask("le-dec %s %d %d %d %d", core.Hex(enc), k.N, k.Mode, k.Half, k.Rot)
	c.Compared()
	if m != got {
		c.Disagree("C17/corr/le-dec", fmt.Sprintf("decoder: model %.80s impl %.80s", m, got), k)
	}
	if c.Gen != nil {
		g := c.Gen.Ask("le-gen-dec %s %d %d %d %d", core.Hex(enc), k.N, k.Mode, k.Half, k.Rot)
		c.Compared()
		if g != got {
			c.Disagree("C17/corr/le-gen-dec", fmt.Sprintf("decoder: regenerated definition %.80s impl %.80s", g, got), k)
		}
	}
	why := c17Invalid(k.Mode, k.Half, k.Rot)
	if err == nil {
		if why != "" {
			c.Violate("C17/accepts-invalid/decoder/"+why, fmt.Sprintf("the decoder accepted an invalid %s (mode %d, half mask %08x with %d one-bits, rotation %d)", why, k.Mode, k.Half, bits.OnesCount32(k.Half), k.Rot), k)
			return
		}
		// canonicity: what was accepted is exactly the encoder's output for one polarity
		e0, err0 := protocol.VerifEncodeLowEntropy(dec, k.Mode, k.Half, k.Rot, 0)
		e1, err1 := protocol.VerifEncodeLowEntropy(dec, k.Mode, k.Half, k.Rot, 1)
		if !((err0 == nil && bytes.Equal(e0, enc)) || (err1 == nil && bytes.Equal(e1, enc))) {
			c.Violate(fmt.Sprintf("C17/canonical/mode=%d", k.Mode), "decoder accepted a byte string that the encoder produces for neither padding polarity", k)
		}
		if len(dec) != k.N {
			c.Violate("C17/decoded-length", fmt.Sprintf("decoded %d bytes, asked for %d", len(dec), k.N), k)
		}
	}
	// documented format: the independent reference accepts exactly the same strings with the same result
	if why == "" {
		ref, rerr := wire.LEDecode(enc, k.N, uint8(k.Mode), k.Half, uint8(k.Rot))
		switch {
		case rerr == nil && err != nil:
			c.Violate(fmt.Sprintf("C17/spec/decoder-rejects-canonical/mode=%d/rot=%s", k.Mode, c17RotClass(k.Rot)), fmt.Sprintf("the decoder rejects an encoding that is canonical per docs/protocol.md: %v", err), k)
		case rerr != nil && err == nil:
			c.Violate(fmt.Sprintf("C17/spec/decoder-accepts-noncanonical/mode=%d/rot=%s", k.Mode, c17RotClass(k.Rot)), fmt.Sprintf("the decoder accepts a byte string docs/protocol.md calls invalid (%v)", rerr), k)
		case rerr == nil && !bytes.Equal(ref, dec):
			c.Violate(fmt.Sprintf("C17/spec/decoder-output/mode=%d/rot=%s", k.Mode, c17RotClass(k.Rot)), "the decoder returns other bytes than docs/protocol.md prescribes", k)
		}
	}
}

func c17Meta(c *core.Ctx, k leCase) {
	err := protocol.VerifValidateLowEntropyMeta(uint8(k.Proto), uint8(k.Mode), k.Half, uint8(k.Rot), uint16(k.PLen), uint16(k.ELen))
	c.Eval(fmt.Sprintf("meta/%d/%d/%d/%d/%d/%d", k.Proto, k.Mode, k.Half, k.Rot, k.PLen, k.ELen), true)
	if err == nil {
		c.Hist("branch", "meta-accepted")
	} else {
		c.Hist("branch", "meta-rejected")
	}
	m := c.Model.Ask("le-meta %d %d %d %d %d %d", k.Proto, k.Mode, k.Half, k.Rot, k.PLen, k.ELen)
	c.Compared()
	if m != fmt.Sprintf("ok %v", err == nil) {
		c.Disagree("C17/corr/le-meta", fmt.Sprintf("metadata validation: model %s impl err=%v", m, err), k)
	}
	if c.Gen != nil {
		g := c.Gen.Ask("le-gen-meta %d %d %d %d %d %d", k.Proto, k.Mode, k.Half, k.Rot, k.PLen, k.ELen)
		c.Compared()
		if g != fmt.Sprintf("ok %v", err == nil) {
			c.Disagree("C17/corr/le-gen-meta", fmt.Sprintf("metadata validation: regenerated definition %s impl err=%v", g, err), k)
		}
	}
	// direct oracle: accepted ⇔ the documented consistency of the fields
	why := ""
	switch {
	case k.Proto != 10 && k.Proto != 11:
		why = "protocol"
	case c17Invalid(k.Mode, k.Half, k.Rot) != "":
		why = c17Invalid(k.Mode, k.Half, k.Rot)
	case k.ELen > 32768:
		why = "extracted-length"
	case k.ELen == 0 && k.PLen != 0:
		why = "length-pair"
	case k.ELen > 0 && ((k.ELen+leC[k.Mode]-1)/leC[k.Mode] > 8191 || k.PLen != (k.ELen+leC[k.Mode]-1)/leC[k.Mode]*8):
		why = "length-pair"
	}
	c.Hist("meta_class", map[bool]string{true: "consistent", false: "inconsistent:" + why}[why == ""])
	if err == nil && why != "" {
		c.Violate("C17/meta-accepts-inconsistent/"+why, "metadata validation accepted inconsistent low-entropy fields ("+why+")", k)
	}
	if err != nil && why == "" {
		c.Violate("C17/meta-rejects-consistent", fmt.Sprintf("metadata validation rejected consistent low-entropy fields: %v", err), k)
	}
}

func c17Bits(c *core.Ctx, k leCase) {
	x, mask := k.X, k.Mask
	c.Eval(fmt.Sprintf("bits/%d/%d", x, mask), true)
	c.Hist("mask_weight", fmt.Sprintf("%02d-%02d", bits.OnesCount64(mask)/8*8, bits.OnesCount64(mask)/8*8+7))
	pg, eg := mathext.VerifPdepGeneric(x, mask), mathext.VerifPextGeneric(x, mask)
	ms := c.Model.Ask("pdep %d %d", x, mask)
	ml := c.Model.Ask("pdep-go %d %d", x, mask)
	es := c.Model.Ask("pext %d %d", x, mask)
	el := c.Model.Ask("pext-go %d %d", x, mask)
	c.Compared()
	if ms != fmt.Sprintf("ok %d", pg) || ml != ms {
		c.Disagree("C17/corr/pdep", fmt.Sprintf("pdep: spec %s loop-model %s impl %d", ms, ml, pg), k)
	}
	if es != fmt.Sprintf("ok %d", eg) || el != es {
		c.Disagree("C17/corr/pext", fmt.Sprintf("pext: spec %s loop-model %s impl %d", es, el, eg), k)
	}
	if c.Gen != nil {
		gp := c.Gen.Ask("le-gen-pdep %d %d", x, mask)
		ge := c.Gen.Ask("le-gen-pext %d %d", x, mask)
		c.Compared()
		if gp != fmt.Sprintf("ok %d", pg) {
			c.Disagree("C17/corr/le-gen-pdep", fmt.Sprintf("pdepGeneric: regenerated definition %s impl %d", gp, pg), k)
		}
		if ge != fmt.Sprintf("ok %d", eg) {
			c.Disagree("C17/corr/le-gen-pext", fmt.Sprintf("pextGeneric: regenerated definition %s impl %d", ge, eg), k)
		}
	}
	c17BitsDirect(c, x, mask, "case")
}

// c17PdepRef / c17PextRef: the documented semantics, bit by bit (independent of the code under test).
func c17PdepRef(x, mask uint64) uint64 {
	var r uint64
	k := uint(0)
	for pos := uint(0); pos < 64; pos++ {
		if mask>>pos&1 == 1 {
			r |= (x >> k & 1) << pos
			k++
		}
	}
	return r
}

func c17PextRef(x, mask uint64) uint64 {
	var r uint64
	k := uint(0)
	for pos := uint(0); pos < 64; pos++ {
		if mask>>pos&1 == 1 {
			r |= (x >> pos & 1) << k
			k++
		}
	}
	return r
}

var c17HasBMI2 = mathext.VerifHasBMI2()

// c17BitsDirect is the direct oracle for one (x, mask) pair on the real routines only; it is cheap enough to
// be run over millions of pairs. Returns false on a violation.
func c17BitsDirect(c *core.Ctx, x, mask uint64, class string) bool {
	pg, eg := mathext.VerifPdepGeneric(x, mask), mathext.VerifPextGeneric(x, mask)
	ok := true
	k := leCase{Kind: "bits", X: x, Mask: mask}
	if c17HasBMI2 {
		if pb := mathext.VerifPdepBMI2(x, mask); pb != pg {
			c.Violate("C17/bmi2/pdep", fmt.Sprintf("pdepBMI2(%#x,%#x)=%#x pdepGeneric=%#x (%s)", x, mask, pb, pg, class), k)
			ok = false
		}
		if eb := mathext.VerifPextBMI2(x, mask); eb != eg {
			c.Violate("C17/bmi2/pext", fmt.Sprintf("pextBMI2(%#x,%#x)=%#x pextGeneric=%#x (%s)", x, mask, eb, eg, class), k)
			ok = false
		}
	}
	if mathext.PDEP(x, mask) != pg || mathext.PEXT(x, mask) != eg {
		c.Violate("C17/dispatch", fmt.Sprintf("exported PDEP/PEXT differ from the portable routine on (%#x,%#x) (%s)", x, mask, class), k)
		ok = false
	}
	return ok
}

// c17BitsRef additionally checks the portable routine against the bit-by-bit semantics (slower: 64 steps).
func c17BitsRef(c *core.Ctx, x, mask uint64, class string) bool {
	ok := c17BitsDirect(c, x, mask, class)
	k := leCase{Kind: "bits", X: x, Mask: mask}
	if pg := mathext.VerifPdepGeneric(x, mask); pg != c17PdepRef(x, mask) {
		c.Violate("C17/portable/pdep", fmt.Sprintf("pdepGeneric(%#x,%#x)=%#x, bit-by-bit deposit gives %#x (%s)", x, mask, pg, c17PdepRef(x, mask), class), k)
		ok = false
	}
	if eg := mathext.VerifPextGeneric(x, mask); eg != c17PextRef(x, mask) {
		c.Violate("C17/portable/pext", fmt.Sprintf("pextGeneric(%#x,%#x)=%#x, bit-by-bit extract gives %#x (%s)", x, mask, eg, c17PextRef(x, mask), class), k)
		ok = false
	}
	return ok
}

// c17HalfFamily: deterministic half masks of the mode's weight (low run, high run, two runs, spread patterns).
func c17HalfFamily(ones int) []uint32 {
	low := uint32(1)<<uint(ones) - 1
	fam := []uint32{low, low << uint(32-ones), bits.RotateLeft32(low, 32-ones/2)}
	// spread: take bit i iff (i*ones)/32 changes, i.e. evenly spaced positions
	var sp uint32
	for i := 0; i < 32; i++ {
		if (i+1)*ones/32 != i*ones/32 {
			sp |= 1 << uint(i)
		}
	}
	fam = append(fam, sp, bits.Reverse32(sp), bits.RotateLeft32(sp, 7))
	if ones == 16 {
		fam = append(fam, 0x0f0f0f0f, 0x55555555, 0xaaaaaaaa, 0x00ff00ff, 0xffff0000)
	}
	return fam
}

// c17BitsSweep: the structured differential sweep BMI2 vs portable (and portable vs bit-by-bit semantics where
// affordable), identical on every run; random pairs are added from c.Rand. Pure Go: millions of pairs per second.
func c17BitsSweep(c *core.Ctx) {
	var n int64
	count := func(class string, k int) {
		for i := 0; i < k; i++ {
			c.Hist("bits_sweep_class", class)
		}
	}
	// (1) all single-bit masks x all single-bit values (+ zero, all-ones)
	for i := uint(0); i < 64; i++ {
		for j := uint(0); j < 64; j++ {
			c17BitsRef(c, 1<<j, 1<<i, "single-bit mask x single-bit value")
			n++
		}
		c17BitsRef(c, 0, 1<<i, "single-bit mask")
		c17BitsRef(c, ^uint64(0), 1<<i, "single-bit mask")
		n += 2
	}
	count("single-bit-mask x single-bit-value", 1)
	// (2) all 2080 contiguous masks x boundary values
	xs := []uint64{0, ^uint64(0), 0x5555555555555555, 0xaaaaaaaaaaaaaaaa, 0x0123456789abcdef, 0x8000000000000001}
	for lo := uint(0); lo < 64; lo++ {
		for hi := lo; hi < 64; hi++ {
			m := (^uint64(0) >> (63 - hi + lo)) << lo
			for _, x := range xs {
				c17BitsRef(c, x, m, "contiguous mask")
			}
			w := hi - lo + 1
			for _, sh := range []uint{0, w - 1, w, lo, hi, 63} { // value bits at and just beyond the mask's width / ends
				if sh < 64 {
					c17BitsRef(c, 1<<sh, m, "contiguous mask")
					n++
				}
			}
			n += int64(len(xs))
		}
	}
	count("contiguous-mask", 1)
	// (3) the rotated repeated half masks the codec uses: family x every rotation amount x source shapes
	for mode := 1; mode <= 4; mode++ {
		fam := c17HalfFamily(leOnes[mode])
		for r := 0; r < 8; r++ {
			fam = append(fam, randHalfMask(c, leOnes[mode]))
		}
		for _, h := range fam {
			for rot := 0; rot < 64; rot++ {
				m := bits.RotateLeft64(mathext.RepeatUint32(h), rot)
				for nb := 1; nb <= leC[mode]; nb++ {
					lb := uint64(1)<<uint(8*nb) - 1
					c17BitsRef(c, lb, m, "codec mask, lowBits")                     // dataMask
					c17BitsDirect(c, c.Rand.Uint64()&lb, m, "codec mask, source")   // PDEP(source, mask)
					c17BitsDirect(c, c.Rand.Uint64(), m, "codec mask, wire chunk") // PEXT(chunk, mask)
					n += 3
				}
			}
		}
	}
	count("codec-rotated-half-mask", 1)
	// (4) every weight class 0..64
	for w := 0; w <= 64; w++ {
		for r := 0; r < 8; r++ {
			perm := c.Rand.Perm(64)
			var m uint64
			for i := 0; i < w; i++ {
				m |= 1 << uint(perm[i])
			}
			c17BitsRef(c, ^uint64(0), m, fmt.Sprintf("weight %d", w))
			c17BitsRef(c, c.Rand.Uint64(), m, fmt.Sprintf("weight %d", w))
			c17BitsRef(c, uint64(1)<<uint(w%64), m, fmt.Sprintf("weight %d", w))
			n += 3
		}
	}
	count("weight-classes-0..64", 1)
	// (5) exhaustive on a window: ALL masks x ALL values of `bitsW` bits, at three positions of the word
	bitsW := uint(11)
	if c.Thorough() {
		bitsW = 13
	}
	if c.Search {
		bitsW++
	}
	var bad int32
	var wg sync.WaitGroup
	var total int64
	for _, sh := range []uint{0, 27, 64 - bitsW} {
		for part := 0; part < 8; part++ {
			wg.Add(1)
			go func(sh uint, part int) {
				defer wg.Done()
				lim := uint64(1) << bitsW
				var cnt int64
				for m := uint64(part); m < lim; m += 8 {
					for x := uint64(0); x < lim; x++ {
						X, M := x<<sh, m<<sh
						pg, eg := mathext.VerifPdepGeneric(x, M), mathext.VerifPextGeneric(X, M)
						fail := mathext.PDEP(x, M) != pg || mathext.PEXT(X, M) != eg
						if c17HasBMI2 && (mathext.VerifPdepBMI2(x, M) != pg || mathext.VerifPextBMI2(X, M) != eg) {
							fail = true
						}
						cnt++
						if fail && atomic.AddInt32(&bad, 1) <= 3 {
							c17BitsDirect(c, x, M, "window")
							c17BitsDirect(c, X, M, "window")
						}
					}
				}
				atomic.AddInt64(&total, cnt)
			}(sh, part)
		}
	}
	wg.Wait()
	n += total
	count(fmt.Sprintf("exhaustive-%d-bit-window x3", bitsW), 1)
	// (6) random pairs
	rn := c.N(200000, 4000000)
	for i := 0; i < rn; i++ {
		x, m := c.Rand.Uint64(), c.Rand.Uint64()
		switch i & 3 {
		case 1:
			m &= c.Rand.Uint64()
		case 2:
			m |= c.Rand.Uint64()
		}
		c17BitsDirect(c, x, m, "random")
	}
	n += int64(rn)
	c.Note("pdep/pext direct sweep (BMI2=%v vs portable vs exported dispatch; portable vs bit-by-bit semantics on the structured classes): %d pairs, exhaustive window %d bits x 3 positions", c17HasBMI2, n, bitsW)
	c.Res.Evaluations += int(n)
}

// c17Pieces: the small regenerated functions against their real counterparts (hooks), whole boundary domains.
func c17Pieces(c *core.Ctx) {
	if c.Gen == nil {
		c.Note("mieru-gen unavailable: the regenerated definitions were not evaluated")
		return
	}
	// lowBits: every n the code can pass and beyond
	for n := 0; n <= 72; n++ {
		g := c.Gen.Ask("le-gen-lowbits %d", n)
		c.Compared()
		if want := fmt.Sprintf("ok %d", protocol.VerifLowBits(n)); g != want {
			c.Disagree("C17/corr/le-gen-lowbits", fmt.Sprintf("lowBits(%d): regenerated %s impl %s", n, g, want), leCase{Kind: "lowbits", N: n})
		}
	}
	// rotateLowEntropyMask: every rotation byte 0..255 (the function itself does not validate) x chunk indices
	// around 0, the 64-chunk cycle and the largest index x mask shapes
	idx := []int{0, 1, 2, 3, 15, 16, 17, 31, 32, 33, 62, 63, 64, 65, 127, 128, 129, 4095, 8190, 8191}
	masks := []uint64{0x0f0f0f0f0f0f0f0f, 0x8000000000000001, 0x00000000ffffffff, 0xfffffffe7fffffff, mathext.RepeatUint32(randHalfMask(c, 20))}
	for rot := 0; rot <= 255; rot++ {
		for _, i := range idx {
			for mi, m := range masks {
				if mi > 1 && (rot+i)%3 != 0 { // thin out the heavier masks deterministically
					continue
				}
				g := c.Gen.Ask("le-gen-rot %d %d %d", m, rot, i)
				c.Compared()
				real := protocol.VerifRotateLowEntropyMask(m, rot, i)
				if g != fmt.Sprintf("ok %d", real) {
					c.Disagree("C17/corr/le-gen-rot", fmt.Sprintf("rotateLowEntropyMask(%#x,%d,%d): regenerated %s impl %d", m, rot, i, g, real), leCase{Kind: "rot", Mask: m, Rot: rot, I: i})
				}
				// direct oracle (documented rule): right by i*R for R in 1..15, left by i*(R/16) for R = 16k
				if c17ValidRot(rot) {
					want := m
					if rot >= 1 && rot <= 15 {
						want = bits.RotateLeft64(m, -((i * rot) % 64))
					} else if rot >= 16 {
						want = bits.RotateLeft64(m, (i*(rot/16))%64)
					}
					if real != want {
						c.Violate(fmt.Sprintf("C17/spec/chunk-mask/rot=%s", c17RotClass(rot)), fmt.Sprintf("chunk %d under rotation %d uses mask %#x, docs/protocol.md prescribes %#x (initial %#x)", i, rot, real, want, m), leCase{Kind: "rot", Mask: m, Rot: rot, I: i})
					}
				}
			}
		}
	}
	c.Hist("pieces", "rotateLowEntropyMask: 256 rotation bytes x 20 chunk indices")
	// validateLowEntropyCodecParams and RepeatUint32: modes 0..6 x weights around each required weight x rotations
	for mode := 0; mode <= 6; mode++ {
		for w := 0; w <= 32; w++ {
			near := false
			for _, o := range leOnes[1:] {
				if w >= o-1 && w <= o+1 {
					near = true
				}
			}
			if !near && w != 0 && w != 32 {
				continue
			}
			half := randHalfMask(c, w)
			for _, rot := range []int{0, 1, 15, 16, 17, 32, 240, 241, 255, 256, -1} {
				g := c.Gen.Ask("le-gen-validate %d %d %d", mode, half, rot)
				c.Compared()
				cc, oo, err := protocol.VerifValidateLowEntropyCodecParams(mode, half, rot)
				want := "err rejected"
				if err == nil {
					want = fmt.Sprintf("ok %d %d", cc, oo)
				}
				if g != want {
					c.Disagree("C17/corr/le-gen-validate", fmt.Sprintf("validateLowEntropyCodecParams(%d,%08x,%d): regenerated %s impl %s", mode, half, rot, g, want), leCase{Kind: "validate", Mode: mode, Half: half, Rot: rot})
				}
				why := c17Invalid(mode, half, rot)
				if (err == nil) != (why == "") {
					c.Violate("C17/accepts-invalid/validator/"+map[bool]string{true: "rejects-valid", false: why}[why == ""], fmt.Sprintf("validateLowEntropyCodecParams(mode %d, mask %08x weight %d, rotation %d) err=%v", mode, half, w, rot, err), leCase{Kind: "validate", Mode: mode, Half: half, Rot: rot})
				}
			}
			g := c.Gen.Ask("le-gen-repeat %d", half)
			if g != fmt.Sprintf("ok %d", mathext.RepeatUint32(half)) {
				c.Disagree("C17/corr/le-gen-repeat", fmt.Sprintf("RepeatUint32(%08x): regenerated %s impl %d", half, g, mathext.RepeatUint32(half)), nil)
			}
		}
	}
	c.Hist("pieces", "validateLowEntropyCodecParams: modes 0..6 x weights w-1,w,w+1,0,32 x 11 rotations")
}

// c17Run replays validate / rot / lowbits cases too (direct oracle only).
func c17Small(c *core.Ctx, k leCase) {
	switch k.Kind {
	case "validate":
		_, _, err := protocol.VerifValidateLowEntropyCodecParams(k.Mode, k.Half, k.Rot)
		why := c17Invalid(k.Mode, k.Half, k.Rot)
		c.Eval(fmt.Sprintf("validate/%d/%d/%d", k.Mode, k.Half, k.Rot), true)
		if (err == nil) != (why == "") {
			c.Violate("C17/accepts-invalid/validator/"+map[bool]string{true: "rejects-valid", false: why}[why == ""], fmt.Sprintf("validateLowEntropyCodecParams err=%v", err), k)
		}
	case "rot":
		real := protocol.VerifRotateLowEntropyMask(k.Mask, k.Rot, k.I)
		c.Eval(fmt.Sprintf("rot/%d/%d/%d", k.Mask, k.Rot, k.I), true)
		if c17ValidRot(k.Rot) {
			want := k.Mask
			if k.Rot >= 1 && k.Rot <= 15 {
				want = bits.RotateLeft64(k.Mask, -((k.I * k.Rot) % 64))
			} else if k.Rot >= 16 {
				want = bits.RotateLeft64(k.Mask, (k.I*(k.Rot/16))%64)
			}
			if real != want {
				c.Violate(fmt.Sprintf("C17/spec/chunk-mask/rot=%s", c17RotClass(k.Rot)), fmt.Sprintf("chunk %d under rotation %d uses mask %#x, want %#x", k.I, k.Rot, real, want), k)
			}
		}
	case "halfmask":
		c17HalfMask(c, k.Mode, 1)
	}
}

// c17HalfMask: the generator of fresh half masks returns the mode's weight (rng.Uint32WithBits for every n too).
func c17HalfMask(c *core.Ctx, mode int, draws int) {
	for i := 0; i < draws; i++ {
		h, err := protocol.VerifNewLowEntropyHalfMask(mode)
		c.Eval(fmt.Sprintf("halfmask/%d/%d", mode, i), true)
		if mode >= 1 && mode <= 4 {
			if err != nil || bits.OnesCount32(h) != leOnes[mode] {
				c.Violate(fmt.Sprintf("C17/halfmask-weight/mode=%d", mode), fmt.Sprintf("newLowEntropyHalfMask(%d) = %08x with %d one-bits (err=%v), want %d", mode, h, bits.OnesCount32(h), err, leOnes[mode]), leCase{Kind: "halfmask", Mode: mode})
				return
			}
		} else if err == nil {
			c.Violate("C17/halfmask-accepts-invalid-mode", fmt.Sprintf("newLowEntropyHalfMask(%d) succeeded", mode), leCase{Kind: "halfmask", Mode: mode})
			return
		}
	}
}

// c17Wrap: the wire-level wrappers (ciphertext body ‖ 16-byte tag) against the model and the direct oracle
// (decode(encode) = identity, the tag untouched, lengths as announced by the metadata).
func c17Wrap(c *core.Ctx, k leCase) {
	ct := core.UnHex(k.Src) // ciphertext body ‖ tag as the sender has it
	pad := int(protocol.VerifLowEntropyPaddingBit())
	w, err := protocol.VerifEncodeLowEntropyEncrypted(ct, uint8(k.Proto), uint8(k.Mode), k.Half, uint8(k.Rot), uint16(k.PLen), uint16(k.ELen))
	c.Eval(fmt.Sprintf("wrap/%s/%d/%d/%d/%d/%d/%d", k.Src, k.Proto, k.Mode, k.Half, k.Rot, k.PLen, k.ELen), err == nil)
	got := "err rejected"
	if err == nil {
		got = "ok " + core.Hex(w)
		c.Hist("branch", "wrap-encode-ok")
	} else {
		c.Hist("branch", "wrap-encode-rejected")
	}
	m := c.Model.Ask("le-wrap-enc %s %d %d %d %d %d %d", core.Hex(ct), k.Mode, k.Half, k.Rot, k.PLen, k.ELen, pad)
	c.Compared()
	if m != got {
		c.Disagree("C17/corr/le-wrap-enc", fmt.Sprintf("encodeLowEntropyEncryptedPayload: model %.80s impl %.80s", m, got), k)
	}
	if err == nil {
		if len(w) != k.PLen+16 || len(ct) < 16 || !bytes.Equal(w[len(w)-16:], ct[len(ct)-16:]) {
			c.Violate("C17/wrap/tag-or-length", fmt.Sprintf("wire payload has %d bytes (metadata payloadLen %d + 16) or its last 16 bytes differ from the AEAD tag", len(w), k.PLen), k)
		}
		back, derr := protocol.VerifDecodeLowEntropyEncrypted(w, uint8(k.Proto), uint8(k.Mode), k.Half, uint8(k.Rot), uint16(k.PLen), uint16(k.ELen))
		if (k.Proto == 10 || k.Proto == 11) && (derr != nil || !bytes.Equal(back, ct)) {
			c.Violate("C17/wrap/roundtrip", fmt.Sprintf("decodeLowEntropyEncryptedPayload(encodeLowEntropyEncryptedPayload(x)) != x (err=%v)", derr), k)
		}
	}
	// the receiving wrapper on the (possibly mutated) wire form
	wireForm := w
	if k.Enc != "" {
		wireForm = core.UnHex(k.Enc)
	}
	if wireForm != nil {
		back, derr := protocol.VerifDecodeLowEntropyEncrypted(wireForm, uint8(k.Proto), uint8(k.Mode), k.Half, uint8(k.Rot), uint16(k.PLen), uint16(k.ELen))
		got := "err rejected"
		if derr == nil {
			got = "ok " + core.Hex(back)
			c.Hist("branch", "wrap-decode-ok")
		} else {
			c.Hist("branch", "wrap-decode-rejected")
		}
		m := c.Model.Ask("le-wrap-dec %s %d %d %d %d %d %d", core.Hex(wireForm), k.Proto, k.Mode, k.Half, k.Rot, k.PLen, k.ELen)
		c.Compared()
		if m != got {
			c.Disagree("C17/corr/le-wrap-dec", fmt.Sprintf("decodeLowEntropyEncryptedPayload: model %.80s impl %.80s", m, got), k)
		}
		if derr == nil && (len(back) != k.ELen+16 || !bytes.Equal(back[len(back)-16:], wireForm[len(wireForm)-16:])) {
			c.Violate("C17/wrap/decoded-tag-or-length", "the reconstructed ciphertext has the wrong length or a changed tag", k)
		}
	}
}

func c17Run(c *core.Ctx, k leCase) {
	switch k.Kind {
	case "roundtrip", "roundtrip-fill":
		c17RoundTrip(c, k)
	case "meta":
		c17Meta(c, k)
	case "bits":
		c17Bits(c, k)
	case "wrap":
		c17Wrap(c, k)
	case "validate", "rot", "halfmask", "lowbits":
		c17Small(c, k)
	default:
		c17Decode(c, k)
	}
}

// c17Boundaries: every boundary value the property's quantifier names and every boundary of every length /
// count field, on EVERY run, before the random stream.
func c17Boundaries(c *core.Ctx) {
	rots := validRotations()
	for mode := 1; mode <= 4; mode++ {
		C := leC[mode]
		fam := c17HalfFamily(leOnes[mode])
		// body lengths: 1, C-1, C, C+1, 2C-1, 2C, around the 64-chunk rotation cycle, the protocol's 32764 / 32768,
		// chunk counts 8190, 8191 (largest), 8192 (one too many) — big bodies are deterministic fills
		small := []int{1, C - 1, C, C + 1, 2*C - 1, 2 * C, 2*C + 1, 63 * C, 63*C + 1, 64 * C, 64*C + 1, 65 * C, 65*C + 1, 128*C + 1}
		for li, n := range small {
			for pad := 0; pad <= 1; pad++ {
				src := c17Fill("count", n)
				if li%3 == 1 {
					src = c17Fill([]string{"zero", "ff"}[pad], n)
				}
				for ri, rot := range []int{0, 1, 15, 16, 240} {
					k := leCase{Kind: "roundtrip", Src: core.Hex(src), Mode: mode, Half: fam[(li+ri)%len(fam)], Rot: rot, Pad: pad}
					c.Hist("boundary", fmt.Sprintf("body-len=%s", map[bool]string{true: fmt.Sprintf("%dC%+d", n/C, n%C), false: fmt.Sprint(n)}[n > 2*C+1]))
					c17Run(c, k)
				}
			}
		}
		big := []int{32764, 32768, 8190 * C, 8190*C + 1, 8191*C - 1, 8191 * C, 8191*C + 1, 8192 * C}
		for bi, n := range big {
			if !c.Thorough() && bi >= 2 && bi <= 4 {
				continue // 8190·C, 8190·C+1, 8191·C−1: thorough only
			}
			k := leCase{Kind: "roundtrip-fill", Fill: []string{"count", "zero", "ff"}[bi%3], N: n, Mode: mode, Half: fam[bi%len(fam)], Rot: []int{15, 240, 7, 0, 16, 1, 112, 15}[bi], Pad: bi % 2}
			cc := (n + C - 1) / C
			c.Hist("boundary", fmt.Sprintf("chunk-count=%s", map[bool]string{true: fmt.Sprint(cc), false: "other"}[cc >= 8190 || n == 32764 || n == 32768]))
			if n == 32764 || n == 32768 {
				c.Hist("boundary", fmt.Sprintf("body-len=%d", n))
			}
			c17Run(c, k)
		}
		// every valid rotation x both polarities, beyond one rotation cycle (66 chunks + a partial one)
		for ri, rot := range rots {
			for pad := 0; pad <= 1; pad++ {
				c.Hist("boundary", "all-31-rotations x 2 polarities x 67 chunks")
				c17Run(c, leCase{Kind: "roundtrip", Src: core.Hex(c17Fill("count", 66*C+1)), Mode: mode, Half: fam[ri%len(fam)], Rot: rot, Pad: pad})
			}
		}
		// invalid parameters, each class alone: weight-1, weight+1, 0, 32; rotations just outside; modes outside; pad 2..255
		okHalf := fam[0]
		src := c17Fill("count", C+1)
		for _, h := range []uint32{okHalf &^ (okHalf & -okHalf), okHalf | (^okHalf & -(^okHalf)), 0, ^uint32(0), okHalf | 0x80000000 | 0x40000000 | 0x20000000 | 0x10000000 | 0x08000000} {
			c.Hist("boundary", "mask-weight w-1/w+1/0/32/heavier")
			c17Run(c, leCase{Kind: "roundtrip", Src: core.Hex(src), Mode: mode, Half: h, Rot: 0, Pad: 0})
			c17Run(c, leCase{Kind: "roundtrip", Src: core.Hex(src), Mode: mode, Half: h, Rot: 15, Pad: 1})
		}
		for _, rot := range []int{17, 31, 33, 241, 248, 255} {
			c.Hist("boundary", "rotation just outside the enum")
			c17Run(c, leCase{Kind: "roundtrip", Src: core.Hex(src), Mode: mode, Half: okHalf, Rot: rot, Pad: 0})
		}
		for _, pad := range []int{2, 3, 255} {
			c.Hist("boundary", "padding bit > 1")
			c17Run(c, leCase{Kind: "roundtrip", Src: core.Hex(src), Mode: mode, Half: okHalf, Rot: 1, Pad: pad})
		}
		c.Hist("boundary", "empty body")
		c17Run(c, leCase{Kind: "roundtrip", Src: "-", Mode: mode, Half: okHalf, Rot: 0, Pad: 0})
		// decoder: spec-conformant encodings (from the independent reference) must be accepted, for every rotation;
		// heavier / lighter masks and lengths off by one must be rejected
		for _, rot := range rots {
			for pad := 0; pad <= 1; pad++ {
				body := c17Fill("count", 3*C+2)
				enc := wire.LEEncode(body, uint8(mode), okHalf, uint8(rot), pad)
				c.Hist("boundary", "decoder x reference encodings x 31 rotations")
				c17Run(c, leCase{Kind: "ref-encoding", Enc: core.Hex(enc), N: len(body), Mode: mode, Half: okHalf, Rot: rot})
			}
		}
		body := c17Fill("count", 2*C+1)
		enc := wire.LEEncode(body, uint8(mode), okHalf, 3, 1)
		heavier := okHalf | (^okHalf & -(^okHalf))
		for _, k := range []leCase{
			{Kind: "heavier-mask", Enc: core.Hex(wire.LEEncode(body, uint8(mode), heavier, 3, 1)), N: len(body), Mode: mode, Half: heavier, Rot: 3},
			{Kind: "lighter-mask", Enc: core.Hex(enc), N: len(body), Mode: mode, Half: okHalf &^ (okHalf & -okHalf), Rot: 3},
			{Kind: "n-1", Enc: core.Hex(enc), N: len(body) - 1, Mode: mode, Half: okHalf, Rot: 3},
			{Kind: "n+1", Enc: core.Hex(enc), N: len(body) + 1, Mode: mode, Half: okHalf, Rot: 3},
			{Kind: "n=0", Enc: core.Hex(enc), N: 0, Mode: mode, Half: okHalf, Rot: 3},
			{Kind: "n+C", Enc: core.Hex(enc), N: len(body) + C, Mode: mode, Half: okHalf, Rot: 3},
			{Kind: "truncated-by-1", Enc: core.Hex(enc[:len(enc)-1]), N: len(body), Mode: mode, Half: okHalf, Rot: 3},
			{Kind: "one-chunk-more", Enc: core.Hex(append(append([]byte{}, enc...), enc[:8]...)), N: len(body), Mode: mode, Half: okHalf, Rot: 3},
			{Kind: "empty", Enc: "-", N: len(body), Mode: mode, Half: okHalf, Rot: 3},
			{Kind: "rot-invalid", Enc: core.Hex(enc), N: len(body), Mode: mode, Half: okHalf, Rot: 19},
			{Kind: "mode-0", Enc: core.Hex(enc), N: len(body), Mode: 0, Half: okHalf, Rot: 3},
			{Kind: "mode-5", Enc: core.Hex(enc), N: len(body), Mode: 5, Half: okHalf, Rot: 3},
		} {
			c.Hist("boundary", "decoder:"+k.Kind)
			c17Run(c, k)
		}
		// every single padding position of the last (partial) chunk and of chunk 0, both polarities: flipping it
		// must be rejected (canonicity incl. the selected-but-unused tail)
		for pad := 0; pad <= 1; pad++ {
			enc := wire.LEEncode(body, uint8(mode), okHalf, 5, pad)
			for _, chunk := range []int{0, len(enc)/8 - 1} {
				for bit := 0; bit < 64; bit++ {
					mut := append([]byte{}, enc...)
					mut[chunk*8+7-bit/8] ^= 1 << uint(bit%8)
					c.Hist("boundary", "decoder: every bit of chunk 0 and of the last chunk flipped")
					c17Run(c, leCase{Kind: "flip-bit", Enc: core.Hex(mut), N: len(body), Mode: mode, Half: okHalf, Rot: 5})
				}
			}
		}
		// metadata: extracted length 0, 1, C-1..C+1, 32764, 32765, 32768, 32769, 65535 x payload length exact / ±8 /
		// not a multiple of 8 / 0 / 65528 x types
		for _, el := range []int{0, 1, C - 1, C, C + 1, 8191 * C, 8191*C + 1, 32764, 32765, 32767, 32768, 32769, 65535} {
			exact := 0
			if el > 0 {
				exact = (el + C - 1) / C * 8
			}
			for _, pl := range []int{exact, exact + 8, exact - 8, exact + 1, 0, 8, 65528, 65535} {
				if pl < 0 || pl > 65535 {
					continue
				}
				for _, proto := range []int{10, 11, 6, 7} {
					c.Hist("boundary", "metadata length pairs")
					c17Run(c, leCase{Kind: "meta", Proto: proto, Mode: mode, Half: okHalf, Rot: 15, PLen: pl, ELen: el})
				}
			}
		}
		for _, h := range []uint32{okHalf &^ (okHalf & -okHalf), heavier, 0, ^uint32(0)} {
			c17Run(c, leCase{Kind: "meta", Proto: 10, Mode: mode, Half: h, Rot: 0, PLen: 8, ELen: 1})
		}
		for _, rot := range []int{17, 241, 255} {
			c17Run(c, leCase{Kind: "meta", Proto: 11, Mode: mode, Half: okHalf, Rot: rot, PLen: 8, ELen: 1})
		}
		// the empty segment (both length fields 0) is legal on the wire: every invalid parameter class alone with it
		for _, h := range []uint32{okHalf &^ (okHalf & -okHalf), heavier, 0, ^uint32(0)} {
			c.Hist("boundary", "metadata: empty segment x invalid parameter")
			c17Run(c, leCase{Kind: "meta", Proto: 10, Mode: mode, Half: h, Rot: 0, PLen: 0, ELen: 0})
		}
		for _, rot := range []int{17, 241, 255} {
			c17Run(c, leCase{Kind: "meta", Proto: 11, Mode: mode, Half: okHalf, Rot: rot, PLen: 0, ELen: 0})
		}
		c17Run(c, leCase{Kind: "meta", Proto: 10, Mode: mode, Half: okHalf, Rot: 240, PLen: 0, ELen: 0})
		c17Run(c, leCase{Kind: "meta", Proto: 6, Mode: mode, Half: okHalf, Rot: 0, PLen: 0, ELen: 0})
		// wrappers: body lengths 1, C, C+1; metadata exact / payloadLen off / extractedLen off / wrong type / short tag
		for _, n := range []int{1, C, C + 1, 3*C + 2} {
			ct := c17Fill("count", n+16)
			pl := (n + C - 1) / C * 8
			for _, k := range []leCase{
				{Kind: "wrap", Src: core.Hex(ct), Proto: 10, Mode: mode, Half: okHalf, Rot: 15, PLen: pl, ELen: n},
				{Kind: "wrap", Src: core.Hex(ct), Proto: 11, Mode: mode, Half: okHalf, Rot: 240, PLen: pl, ELen: n},
				{Kind: "wrap", Src: core.Hex(ct), Proto: 10, Mode: mode, Half: okHalf, Rot: 0, PLen: pl + 8, ELen: n},
				{Kind: "wrap", Src: core.Hex(ct), Proto: 10, Mode: mode, Half: okHalf, Rot: 0, PLen: pl, ELen: n - 1},
				{Kind: "wrap", Src: core.Hex(ct), Proto: 10, Mode: mode, Half: okHalf, Rot: 0, PLen: pl, ELen: n + 1},
				{Kind: "wrap", Src: core.Hex(ct[:len(ct)-1]), Proto: 10, Mode: mode, Half: okHalf, Rot: 0, PLen: pl, ELen: n},
				{Kind: "wrap", Src: core.Hex(ct), Proto: 6, Mode: mode, Half: okHalf, Rot: 0, PLen: pl, ELen: n},
				{Kind: "wrap", Src: core.Hex(ct), Proto: 10, Mode: mode, Half: heavier, Rot: 0, PLen: pl, ELen: n},
			} {
				c.Hist("boundary", "wrappers")
				c17Run(c, k)
			}
		}
		c17Run(c, leCase{Kind: "wrap", Src: core.Hex(c17Fill("count", 16)), Proto: 10, Mode: mode, Half: okHalf, Rot: 0, PLen: 0, ELen: 0}) // empty body
	}
	for _, mode := range []int{0, 5, 6, 255} {
		c.Hist("boundary", "mode outside 1..4")
		c17Run(c, leCase{Kind: "roundtrip", Src: "0102030405", Mode: mode, Half: 0x0f0f0f0f, Rot: 0, Pad: 0})
		c17Run(c, leCase{Kind: "meta", Proto: 10, Mode: mode, Half: 0x0f0f0f0f, Rot: 0, PLen: 8, ELen: 1})
		c17Run(c, leCase{Kind: "meta", Proto: 10, Mode: mode, Half: 0x0f0f0f0f, Rot: 0, PLen: 0, ELen: 0})
	}
	// the document's worked example
	c17Run(c, leCase{Kind: "roundtrip", Src: "12345678", Mode: 1, Half: 0x0f0f0f0f, Rot: 0, Pad: 0})
	c17Run(c, leCase{Kind: "roundtrip", Src: "12345678", Mode: 1, Half: 0x0f0f0f0f, Rot: 0, Pad: 1})
}

func init() {
	core.Register("C17", &core.Scenario{
		Run: func(c *core.Ctx) {
			c.Res.Rule = "deterministic boundary stream (every run): body lengths 1, C-1, C, C+1, around 64 chunks, 32764, 32768, chunk counts 8190/8191/8192, every rotation x polarity x mode, every invalid parameter class alone, reference encodings, every flipped bit of the first and last chunk, metadata length pairs, wrappers; then the random structured stream (body, mode, half mask of the mode's weight, valid rotation, padding bit), a malformed stream for the decoder and the metadata validator, and (x,mask) pairs for pdep/pext (structured sweep + random). Distinct = distinct canonical input tuple; all cases are non-trivial except encoder rejections."
			c.Correspondence("le-enc/le-dec/le-meta/le-wrap-*/pdep/pext: pkg/protocol low_entropy.go, metadata.go, underlay_base.go + pkg/mathext bit.go vs Mieru.Model.LowEntropy")
			c.Correspondence("le-gen-*: the same real functions (and rotateLowEntropyMask, lowBits, validateLowEntropyCodecParams, RepeatUint32 through hooks) vs the REGENERATED Mieru.Gen.LE (mieru-gen)")
			c.Note("BMI2 available on this CPU: %v", c17HasBMI2)
			rots := validRotations()
			// --- deterministic boundaries first
			c17Boundaries(c)
			c17Pieces(c)
			for mode := 0; mode <= 5; mode++ {
				c17HalfMask(c, mode, c.N(200, 5000))
			}
			for n := 0; n <= 32; n++ {
				for i := 0; i < c.N(50, 1000); i++ {
					if v := rng.Uint32WithBits(n); bits.OnesCount32(v) != n {
						c.Violate(fmt.Sprintf("C17/uint32withbits/n=%d", n), fmt.Sprintf("rng.Uint32WithBits(%d) = %08x has %d one-bits", n, v, bits.OnesCount32(v)), leCase{Kind: "halfmask", Mode: n})
						break
					}
				}
			}
			c.Hist("boundary", "half-mask generator: modes 0..5, Uint32WithBits 0..32")
			// --- structured round trips
			nrt := c.N(400, 6000)
			for i := 0; i < nrt; i++ {
				mode := 1 + c.Rand.Intn(4)
				C := leC[mode]
				var n int
				switch c.Rand.Intn(10) {
				case 0:
					n = 1
				case 1:
					n = C - 1
				case 2:
					n = C
				case 3:
					n = C + 1
				case 4:
					n = 64*C + c.Rand.Intn(3*C) // beyond one full rotation cycle of 64 chunks
				default:
					n = 1 + c.Rand.Intn(300)
				}
				if c.Thorough() && i%500 == 0 {
					n = []int{32764, 32768, 8191 * C, 1400}[c.Rand.Intn(4)]
					if n > 8191*C {
						n = 8191 * C
					}
				}
				src := make([]byte, n)
				c.Rand.Read(src)
				if c.Rand.Intn(8) == 0 {
					for j := range src {
						src[j] = []byte{0x00, 0xff}[c.Rand.Intn(2)]
					}
				}
				k := leCase{Kind: "roundtrip", Src: core.Hex(src), Mode: mode, Half: randHalfMask(c, leOnes[mode]), Rot: rots[c.Rand.Intn(len(rots))], Pad: c.Rand.Intn(2)}
				if i < 2 {
					c.Sample(k)
				}
				c17Run(c, k)
			}
			// --- encoder/decoder parameter rejection
			for i := 0; i < c.N(150, 1500); i++ {
				mode := c.Rand.Intn(7)
				half := c.Rand.Uint32()
				if c.Rand.Intn(2) == 0 && mode >= 1 && mode <= 4 {
					w := leOnes[mode] + []int{-1, 1, 0, 2, 4}[c.Rand.Intn(5)]
					half = randHalfMask(c, w)
				}
				rot := c.Rand.Intn(256)
				src := make([]byte, c.Rand.Intn(20))
				c.Rand.Read(src)
				c17Run(c, leCase{Kind: "roundtrip", Src: core.Hex(src), Mode: mode, Half: half, Rot: rot, Pad: c.Rand.Intn(3)})
			}
			// --- malformed stream for the decoder: mutate canonical encodings
			for i := 0; i < c.N(400, 5000); i++ {
				mode := 1 + c.Rand.Intn(4)
				C := leC[mode]
				n := 1 + c.Rand.Intn(4*C)
				src := make([]byte, n)
				c.Rand.Read(src)
				half := randHalfMask(c, leOnes[mode])
				rot := rots[c.Rand.Intn(len(rots))]
				enc := wire.LEEncode(src, uint8(mode), half, uint8(rot), c.Rand.Intn(2))
				k := leCase{Kind: "flip", N: n, Mode: mode, Half: half, Rot: rot}
				switch c.Rand.Intn(8) {
				case 0: // flip one bit anywhere (data bit: still canonical; padding bit: mixed)
					enc[c.Rand.Intn(len(enc))] ^= 1 << uint(c.Rand.Intn(8))
				case 1: // flip a bit in the last chunk (unused tail positions)
					k.Kind = "flip-last"
					enc[len(enc)-8+c.Rand.Intn(8)] ^= 1 << uint(c.Rand.Intn(8))
				case 2:
					k.Kind = "wrong-n"
					k.N = n + []int{-1, 1, C, -C}[c.Rand.Intn(4)]
					if k.N < 0 {
						k.N = 0 // the wire field is unsigned
					}
				case 3:
					k.Kind = "truncated"
					enc = enc[:len(enc)-1-c.Rand.Intn(8)]
				case 4:
					k.Kind = "wrong-rot"
					k.Rot = c.Rand.Intn(256)
				case 5:
					k.Kind = "wrong-mask"
					k.Half = half ^ (1 << uint(c.Rand.Intn(32)))
				case 6:
					k.Kind = "random"
					c.Rand.Read(enc)
				case 7:
					k.Kind = "untouched"
				}
				k.Enc = core.Hex(enc)
				if i < 1 {
					c.Sample(k)
				}
				c17Run(c, k)
			}
			// --- metadata validation
			for i := 0; i < c.N(400, 5000); i++ {
				mode := c.Rand.Intn(6)
				half := c.Rand.Uint32()
				if mode >= 1 && mode <= 4 && c.Rand.Intn(4) != 0 {
					half = randHalfMask(c, leOnes[mode])
				}
				rot := rots[c.Rand.Intn(len(rots))]
				if c.Rand.Intn(6) == 0 {
					rot = c.Rand.Intn(256)
				}
				el := c.Rand.Intn(40)
				if c.Rand.Intn(5) == 0 {
					el = []int{0, 32764, 32765, 32768, 32769, 65535}[c.Rand.Intn(6)]
				}
				pl := 0
				if mode >= 1 && mode <= 4 && el > 0 {
					pl = (el + leC[mode] - 1) / leC[mode] * 8
				}
				switch c.Rand.Intn(5) {
				case 0:
					pl += 8
				case 1:
					pl = c.Rand.Intn(65536)
				}
				proto := []int{10, 11, 10, 11, 6, 7, 8, 2, 200}[c.Rand.Intn(9)]
				c17Run(c, leCase{Kind: "meta", Proto: proto, Mode: mode, Half: half, Rot: rot, PLen: pl & 0xffff, ELen: el})
			}
			// --- wrappers, random
			for i := 0; i < c.N(150, 2000); i++ {
				mode := 1 + c.Rand.Intn(4)
				C := leC[mode]
				n := 1 + c.Rand.Intn(5*C)
				ct := make([]byte, n+16)
				c.Rand.Read(ct)
				k := leCase{Kind: "wrap", Src: core.Hex(ct), Proto: 10 + c.Rand.Intn(2), Mode: mode, Half: randHalfMask(c, leOnes[mode]), Rot: rots[c.Rand.Intn(len(rots))], PLen: (n + C - 1) / C * 8, ELen: n}
				if c.Rand.Intn(4) == 0 { // a tampered wire form offered to the receiving wrapper
					w, err := protocol.VerifEncodeLowEntropyEncrypted(ct, uint8(k.Proto), uint8(k.Mode), k.Half, uint8(k.Rot), uint16(k.PLen), uint16(k.ELen))
					if err == nil {
						w[c.Rand.Intn(len(w))] ^= 1 << uint(c.Rand.Intn(8))
						k.Enc = core.Hex(w)
					}
				}
				c17Run(c, k)
			}
			// --- pdep / pext: model + regenerated definitions on structured and random pairs; then the big direct sweep
			var pairs [][2]uint64
			for i := 0; i < 64; i++ {
				pairs = append(pairs, [2]uint64{^uint64(0), 1 << uint(i)}, [2]uint64{1 << uint(i), 1 << uint(63-i)}, [2]uint64{c.Rand.Uint64(), ^uint64(0) >> uint(i)}, [2]uint64{c.Rand.Uint64(), ^uint64(0) << uint(i)})
			}
			pairs = append(pairs, [2]uint64{0, 0}, [2]uint64{^uint64(0), 0}, [2]uint64{^uint64(0), ^uint64(0)}, [2]uint64{0x12345678, 0x0f0f0f0f0f0f0f0f}, [2]uint64{0, ^uint64(0)})
			for mode := 1; mode <= 4; mode++ {
				for _, h := range c17HalfFamily(leOnes[mode]) {
					for _, rot := range []int{0, 1, 15, 31, 32, 63} {
						pairs = append(pairs, [2]uint64{c.Rand.Uint64(), bits.RotateLeft64(mathext.RepeatUint32(h), rot)})
					}
				}
			}
			for i := 0; i < c.N(300, 4000); i++ {
				x, m := c.Rand.Uint64(), c.Rand.Uint64()
				switch c.Rand.Intn(4) {
				case 0: // the rotated repeated half masks the codec uses
					mode := 1 + c.Rand.Intn(4)
					m = bits.RotateLeft64(mathext.RepeatUint32(randHalfMask(c, leOnes[mode])), c.Rand.Intn(64))
				case 1:
					m &= c.Rand.Uint64() & c.Rand.Uint64()
				case 2:
					m |= c.Rand.Uint64() | c.Rand.Uint64()
				}
				pairs = append(pairs, [2]uint64{x, m})
			}
			for i, p := range pairs {
				k := leCase{Kind: "bits", X: p[0], Mask: p[1]}
				if i == 3 {
					c.Sample(k)
				}
				c17Run(c, k)
			}
			c17BitsSweep(c)
		},
		Replay: func(c *core.Ctx, raw json.RawMessage) {
			var k leCase
			if json.Unmarshal(raw, &k) == nil {
				c17Run(c, k)
			}
		},
	})
}
