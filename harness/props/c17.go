package props

import (
	"bytes"
	"encoding/json"
	"fmt"
	"math/bits"

	"github.com/enfein/mieru/v3/pkg/mathext"
	"github.com/enfein/mieru/v3/pkg/protocol"
	"verifharness/core"
)

// C17 — low-entropy encoding is lossless, canonical, identical on every CPU path.
//
// Correspondence: real encode/decode/metadata validation and pdep/pext (generic and BMI2) against
// the bit-by-bit Lean reference (Mieru.Model.LowEntropy). Direct oracle: round trip, length law,
// canonicity (anything the decoder accepts is the encoder's output for one of the two polarities),
// rejection of invalid parameters, BMI2 == generic.

type leCase struct {
	Kind  string `json:"kind"`
	Src   string `json:"src,omitempty"`
	Enc   string `json:"enc,omitempty"`
	N     int    `json:"n,omitempty"`
	Mode  int    `json:"mode"`
	Half  uint32 `json:"half"`
	Rot   int    `json:"rot"`
	Pad   int    `json:"pad"`
	Proto int    `json:"proto,omitempty"`
	PLen  int    `json:"payload_len,omitempty"`
	ELen  int    `json:"extracted_len,omitempty"`
	X     uint64 `json:"x,omitempty"`
	Mask  uint64 `json:"mask,omitempty"`
}

var leC = []int{0, 4, 5, 6, 7}
var leOnes = []int{0, 16, 20, 24, 28}

func randHalfMask(c *core.Ctx, ones int) uint32 {
	perm := c.Rand.Perm(32)
	var m uint32
	for i := 0; i < ones; i++ {
		m |= 1 << uint(perm[i])
	}
	return m
}

func validRotations() []int {
	r := []int{0}
	for i := 1; i <= 15; i++ {
		r = append(r, i, 16*i)
	}
	return r
}

func c17RoundTrip(c *core.Ctx, k leCase) {
	src := core.UnHex(k.Src)
	key := fmt.Sprintf("rt/%d/%d/%d/%d/%s", k.Mode, k.Half, k.Rot, k.Pad, k.Src)
	enc, err := protocol.VerifEncodeLowEntropy(src, k.Mode, k.Half, k.Rot, uint8(k.Pad))
	c.Eval(key, err == nil)
	c.Hist("mode", fmt.Sprint(k.Mode))
	c.Hist("body_size", core.SizeBucket(len(src)))
	if err != nil {
		c.Hist("branch", "encode-rejected")
	} else {
		c.Hist("branch", "encode-ok")
	}
	// correspondence: encoder
	m := c.Model.Ask("le-enc %s %d %d %d %d", core.Hex(src), k.Mode, k.Half, k.Rot, k.Pad)
	c.Compared()
	var got string
	if err != nil {
		got = "err rejected"
	} else {
		got = "ok " + core.Hex(enc)
	}
	if m != got {
		c.Disagree("C17/corr/le-enc", fmt.Sprintf("encoder: model %.80s impl %.80s", m, got), k)
	}
	if err != nil {
		return
	}
	// direct oracle: length law and round trip
	C := leC[k.Mode]
	if want := (len(src) + C - 1) / C * 8; len(enc) != want {
		c.Violate(fmt.Sprintf("C17/length/mode=%d", k.Mode), fmt.Sprintf("encoded length %d, want ceil(%d/%d)*8=%d", len(enc), len(src), C, want), k)
	}
	dec, derr := protocol.VerifDecodeLowEntropy(enc, len(src), k.Mode, k.Half, k.Rot)
	if derr != nil || !bytes.Equal(dec, src) {
		c.Violate(fmt.Sprintf("C17/roundtrip/mode=%d/rot=%d/pad=%d", k.Mode, k.Rot, k.Pad), fmt.Sprintf("decode(encode(src)) != src (err=%v)", derr), k)
	}
	md := c.Model.Ask("le-dec %s %d %d %d %d", core.Hex(enc), len(src), k.Mode, k.Half, k.Rot)
	c.Compared()
	if md != "ok "+core.Hex(src) {
		c.Disagree("C17/corr/le-dec-of-enc", fmt.Sprintf("model decode of impl encoding: %.80s", md), k)
	}
}

func c17Decode(c *core.Ctx, k leCase) {
	enc := core.UnHex(k.Enc)
	key := fmt.Sprintf("dec/%d/%d/%d/%d/%s", k.Mode, k.Half, k.Rot, k.N, k.Enc)
	dec, err := protocol.VerifDecodeLowEntropy(enc, k.N, k.Mode, k.Half, k.Rot)
	c.Eval(key, true)
	if err != nil {
		c.Hist("branch", "decode-rejected:"+k.Kind)
	} else {
		c.Hist("branch", "decode-accepted:"+k.Kind)
	}
	m := c.Model.Ask("le-dec %s %d %d %d %d", core.Hex(enc), k.N, k.Mode, k.Half, k.Rot)
	c.Compared()
	got := "err rejected"
	if err == nil {
		got = "ok " + core.Hex(dec)
	}
	if m != got {
		c.Disagree("C17/corr/le-dec", fmt.Sprintf("decoder: model %.80s impl %.80s", m, got), k)
	}
	if err == nil {
		// canonicity: what was accepted is exactly the encoder's output for one polarity
		e0, err0 := protocol.VerifEncodeLowEntropy(dec, k.Mode, k.Half, k.Rot, 0)
		e1, err1 := protocol.VerifEncodeLowEntropy(dec, k.Mode, k.Half, k.Rot, 1)
		if !((err0 == nil && bytes.Equal(e0, enc)) || (err1 == nil && bytes.Equal(e1, enc))) {
			c.Violate(fmt.Sprintf("C17/canonical/mode=%d", k.Mode), "decoder accepted a byte string that the encoder produces for neither padding polarity", k)
		}
		if len(dec) != k.N {
			c.Violate("C17/decoded-length", fmt.Sprintf("decoded %d bytes, asked for %d", len(dec), k.N), k)
		}
	}
}

func c17Meta(c *core.Ctx, k leCase) {
	err := protocol.VerifValidateLowEntropyMeta(uint8(k.Proto), uint8(k.Mode), k.Half, uint8(k.Rot), uint16(k.PLen), uint16(k.ELen))
	c.Eval(fmt.Sprintf("meta/%d/%d/%d/%d/%d/%d", k.Proto, k.Mode, k.Half, k.Rot, k.PLen, k.ELen), true)
	if err == nil {
		c.Hist("branch", "meta-accepted")
	} else {
		c.Hist("branch", "meta-rejected")
	}
	m := c.Model.Ask("le-meta %d %d %d %d %d %d", k.Proto, k.Mode, k.Half, k.Rot, k.PLen, k.ELen)
	c.Compared()
	if m != fmt.Sprintf("ok %v", err == nil) {
		c.Disagree("C17/corr/le-meta", fmt.Sprintf("metadata validation: model %s impl err=%v", m, err), k)
	}
	if err == nil {
		// direct oracle: accepted metadata ties the fields together as documented
		okMode := k.Mode >= 1 && k.Mode <= 4
		if !okMode || bits.OnesCount32(k.Half) != leOnes[k.Mode] || (k.ELen > 0 && k.PLen != (k.ELen+leC[k.Mode]-1)/leC[k.Mode]*8) || (k.ELen == 0 && k.PLen != 0) {
			c.Violate("C17/meta-accepts-inconsistent", "metadata validation accepted inconsistent low-entropy fields", k)
		}
	}
}

func c17Bits(c *core.Ctx, k leCase) {
	x, mask := k.X, k.Mask
	c.Eval(fmt.Sprintf("bits/%d/%d", x, mask), true)
	c.Hist("mask_weight", fmt.Sprint(bits.OnesCount64(mask)/8*8))
	pg, eg := mathext.VerifPdepGeneric(x, mask), mathext.VerifPextGeneric(x, mask)
	ms := c.Model.Ask("pdep %d %d", x, mask)
	ml := c.Model.Ask("pdep-go %d %d", x, mask)
	es := c.Model.Ask("pext %d %d", x, mask)
	el := c.Model.Ask("pext-go %d %d", x, mask)
	c.Compared()
	if ms != fmt.Sprintf("ok %d", pg) || ml != ms {
		c.Disagree("C17/corr/pdep", fmt.Sprintf("pdep: spec %s loop-model %s impl %d", ms, ml, pg), k)
	}
	if es != fmt.Sprintf("ok %d", eg) || el != es {
		c.Disagree("C17/corr/pext", fmt.Sprintf("pext: spec %s loop-model %s impl %d", es, el, eg), k)
	}
	if mathext.VerifHasBMI2() {
		if pb := mathext.VerifPdepBMI2(x, mask); pb != pg {
			c.Violate("C17/bmi2/pdep", fmt.Sprintf("pdepBMI2=%d pdepGeneric=%d", pb, pg), k)
		}
		if eb := mathext.VerifPextBMI2(x, mask); eb != eg {
			c.Violate("C17/bmi2/pext", fmt.Sprintf("pextBMI2=%d pextGeneric=%d", eb, eg), k)
		}
	}
	if mathext.PDEP(x, mask) != pg || mathext.PEXT(x, mask) != eg {
		c.Violate("C17/dispatch", "exported PDEP/PEXT differ from the portable routine", k)
	}
}

func c17Run(c *core.Ctx, k leCase) {
	switch k.Kind {
	case "roundtrip":
		c17RoundTrip(c, k)
	case "meta":
		c17Meta(c, k)
	case "bits":
		c17Bits(c, k)
	default:
		c17Decode(c, k)
	}
}

func init() {
	core.Register("C17", &core.Scenario{
		Run: func(c *core.Ctx) {
			c.Res.Rule = "structured stream: (body, mode, half-mask of the mode's weight, valid rotation, padding bit) round trips incl. boundary lengths; malformed stream: arbitrary/mutated encodings and parameter tuples offered to the decoder and the metadata validator; (x,mask) pairs for pdep/pext. Distinct = distinct canonical input tuple; all cases are non-trivial except encoder rejections."
			c.Correspondence("le-enc/le-dec/le-meta/pdep/pext: pkg/protocol low_entropy.go + pkg/mathext bit.go vs Mieru.Model.LowEntropy")
			c.Note("BMI2 available on this CPU: %v", mathext.VerifHasBMI2())
			rots := validRotations()
			// --- structured round trips
			nrt := c.N(400, 6000)
			for i := 0; i < nrt; i++ {
				mode := 1 + c.Rand.Intn(4)
				C := leC[mode]
				var n int
				switch c.Rand.Intn(10) {
				case 0:
					n = 1
				case 1:
					n = C - 1
				case 2:
					n = C
				case 3:
					n = C + 1
				case 4:
					n = 64*C + c.Rand.Intn(3*C) // beyond one full rotation cycle of 64 chunks
				default:
					n = 1 + c.Rand.Intn(300)
				}
				if c.Thorough() && i%500 == 0 {
					n = []int{32764, 32768, 8191 * C, 1400}[c.Rand.Intn(4)]
					if n > 8191*C {
						n = 8191 * C
					}
				}
				src := make([]byte, n)
				c.Rand.Read(src)
				if c.Rand.Intn(8) == 0 {
					for j := range src {
						src[j] = []byte{0x00, 0xff}[c.Rand.Intn(2)]
					}
				}
				k := leCase{Kind: "roundtrip", Src: core.Hex(src), Mode: mode, Half: randHalfMask(c, leOnes[mode]), Rot: rots[c.Rand.Intn(len(rots))], Pad: c.Rand.Intn(2)}
				if i < 2 {
					c.Sample(k)
				}
				c17Run(c, k)
			}
			// every mode x every valid rotation x both polarities once, multi-chunk
			for mode := 1; mode <= 4; mode++ {
				for _, rot := range rots {
					for pad := 0; pad < 2; pad++ {
						src := make([]byte, 3*leC[mode]+1)
						c.Rand.Read(src)
						c17Run(c, leCase{Kind: "roundtrip", Src: core.Hex(src), Mode: mode, Half: randHalfMask(c, leOnes[mode]), Rot: rot, Pad: pad})
					}
				}
			}
			// --- encoder/decoder parameter rejection
			for i := 0; i < c.N(150, 1500); i++ {
				mode := c.Rand.Intn(7)
				half := c.Rand.Uint32()
				if c.Rand.Intn(2) == 0 && mode >= 1 && mode <= 4 {
					w := leOnes[mode] + []int{-1, 1, 0}[c.Rand.Intn(3)]
					half = randHalfMask(c, w)
				}
				rot := c.Rand.Intn(256)
				src := make([]byte, c.Rand.Intn(20))
				c.Rand.Read(src)
				c17Run(c, leCase{Kind: "roundtrip", Src: core.Hex(src), Mode: mode, Half: half, Rot: rot, Pad: c.Rand.Intn(3)})
			}
			// --- malformed stream for the decoder: mutate canonical encodings
			for i := 0; i < c.N(400, 5000); i++ {
				mode := 1 + c.Rand.Intn(4)
				C := leC[mode]
				n := 1 + c.Rand.Intn(4*C)
				src := make([]byte, n)
				c.Rand.Read(src)
				half := randHalfMask(c, leOnes[mode])
				rot := rots[c.Rand.Intn(len(rots))]
				enc, err := protocol.VerifEncodeLowEntropy(src, mode, half, rot, uint8(c.Rand.Intn(2)))
				if err != nil {
					continue
				}
				k := leCase{Kind: "flip", N: n, Mode: mode, Half: half, Rot: rot}
				switch c.Rand.Intn(7) {
				case 0: // flip one bit anywhere (data bit: still canonical; padding bit: mixed)
					enc[c.Rand.Intn(len(enc))] ^= 1 << uint(c.Rand.Intn(8))
				case 1: // flip a bit in the last chunk (unused tail positions)
					k.Kind = "flip-last"
					enc[len(enc)-8+c.Rand.Intn(8)] ^= 1 << uint(c.Rand.Intn(8))
				case 2:
					k.Kind = "wrong-n"
					k.N = n + []int{-1, 1, C, -C}[c.Rand.Intn(4)]
					if k.N < 0 {
						k.N = 0 // the wire field is unsigned
					}
				case 3:
					k.Kind = "truncated"
					enc = enc[:len(enc)-1-c.Rand.Intn(8)]
				case 4:
					k.Kind = "wrong-rot"
					k.Rot = c.Rand.Intn(256)
				case 5:
					k.Kind = "wrong-mask"
					k.Half = half ^ (1 << uint(c.Rand.Intn(32)))
				case 6:
					k.Kind = "random"
					c.Rand.Read(enc)
				}
				k.Enc = core.Hex(enc)
				if i < 1 {
					c.Sample(k)
				}
				c17Run(c, k)
			}
			// --- metadata validation
			for i := 0; i < c.N(400, 5000); i++ {
				mode := c.Rand.Intn(6)
				half := c.Rand.Uint32()
				if mode >= 1 && mode <= 4 && c.Rand.Intn(4) != 0 {
					half = randHalfMask(c, leOnes[mode])
				}
				rot := rots[c.Rand.Intn(len(rots))]
				if c.Rand.Intn(6) == 0 {
					rot = c.Rand.Intn(256)
				}
				el := c.Rand.Intn(40)
				if c.Rand.Intn(5) == 0 {
					el = []int{0, 32764, 32765, 32768, 32769, 65535}[c.Rand.Intn(6)]
				}
				pl := 0
				if mode >= 1 && mode <= 4 && el > 0 {
					pl = (el + leC[mode] - 1) / leC[mode] * 8
				}
				switch c.Rand.Intn(5) {
				case 0:
					pl += 8
				case 1:
					pl = c.Rand.Intn(65536)
				}
				proto := []int{10, 11, 10, 11, 6, 7, 8, 2, 200}[c.Rand.Intn(9)]
				c17Run(c, leCase{Kind: "meta", Proto: proto, Mode: mode, Half: half, Rot: rot, PLen: pl & 0xffff, ELen: el})
			}
			// --- pdep / pext
			var pairs [][2]uint64
			for i := 0; i < 64; i++ {
				pairs = append(pairs, [2]uint64{^uint64(0), 1 << uint(i)}, [2]uint64{c.Rand.Uint64(), ^uint64(0) >> uint(i)}, [2]uint64{c.Rand.Uint64(), ^uint64(0) << uint(i)})
			}
			pairs = append(pairs, [2]uint64{0, 0}, [2]uint64{^uint64(0), 0}, [2]uint64{^uint64(0), ^uint64(0)}, [2]uint64{0x12345678, 0x0f0f0f0f0f0f0f0f})
			for i := 0; i < c.N(300, 4000); i++ {
				x, m := c.Rand.Uint64(), c.Rand.Uint64()
				switch c.Rand.Intn(4) {
				case 0: // the rotated repeated half masks the codec uses
					mode := 1 + c.Rand.Intn(4)
					m = bits.RotateLeft64(mathext.RepeatUint32(randHalfMask(c, leOnes[mode])), c.Rand.Intn(64))
				case 1:
					m &= c.Rand.Uint64() & c.Rand.Uint64()
				case 2:
					m |= c.Rand.Uint64() | c.Rand.Uint64()
				}
				pairs = append(pairs, [2]uint64{x, m})
			}
			for i, p := range pairs {
				k := leCase{Kind: "bits", X: p[0], Mask: p[1]}
				if i == 3 {
					c.Sample(k)
				}
				c17Run(c, k)
			}
		},
		Replay: func(c *core.Ctx, raw json.RawMessage) {
			var k leCase
			if json.Unmarshal(raw, &k) == nil {
				c17Run(c, k)
			}
		},
	})
}
