package props

import (
	"github.com/enfein/mieru/v3/pkg/metrics"
	"verifharness/core"
)

func init() {
	core.AddConsts(metrics.VerifConstsC19)
	core.Register("C19", &core.Scenario{Run: func(c *core.Ctx) {}})
}
