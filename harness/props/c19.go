package props

import (
	"encoding/json"
	"fmt"
	"os"
	"path/filepath"
	"sort"
	"strings"
	"sync/atomic"
	"time"

	"github.com/enfein/mieru/v3/pkg/appctl/appctlpb"
	"github.com/enfein/mieru/v3/pkg/metrics"
	pb "github.com/enfein/mieru/v3/pkg/metrics/metricspb"
	"github.com/enfein/mieru/v3/pkg/protocol"
	"google.golang.org/protobuf/proto"
	"verifharness/core"
)

// C19 — counter and quota logic.
//
// Correspondence: the real metrics.Counter (hooks: addWithTime, snapshot, one doRollUp pass, load
// from a Metric protobuf; exported: Load/Name/Type/DeltaBetween/ToMetricPB/FromMetricPB/
// DumpMetricsNow/LoadMetricsFromDump) against Mieru.Model.Counter, and the real checkQuota (hook)
// against Mieru.Model.Quota. The code reads the wall clock inside doRollUp and checkQuota; the model
// is fed the instant measured just before the call, timestamps are placed in the past relative to
// the real clock, and a case in which any age threshold lies within 50 ms of the measured interval
// is discarded and counted.
//
// Direct oracle: Σ increments = value (Load()); Σ history = value (≤ after a lossy load);
// 0 ≤ DeltaBetween ≤ value; on a sorted history DeltaBetween = Σ of the entries stamped in (t1,t2];
// history stays sorted when the increments' timestamps never go backwards; a load never decreases
// the value; the quota decision equals an independent evaluation on the counters' histories and is
// unchanged by any other user's traffic.
//
// TODO(integrator, needs the in-memory network): whole-system quota runs — several users with and
// without quotas, traffic just below/at/above the allowance with known byte counts, a refused
// session gets the quota status and nothing is relayed, per-user counters equal the bytes the
// server application read/wrote. Known deviation to be judged there (see docs/notes/C19.md): the
// payload piggy-backed on a refused open-session request (≤ 1024 B) is still readable by the server
// application. Nothing of that is run here.

type c19Entry struct {
	T int64 `json:"t"`
	D int64 `json:"d"`
	L int32 `json:"l"`
}

type c19Op struct {
	K     string `json:"k"` // add | tick | force | query | pass | pbround | loadpb
	Delta int64  `json:"delta,omitempty"`
	Age   int64  `json:"age_ms,omitempty"` // timestamp = case start − age
	N     int    `json:"n,omitempty"`
	A1    int64  `json:"a1_ns,omitempty"` // query: t1 = case start − a1, t2 = case start − a2 (a1 ≥ a2)
	A2    int64  `json:"a2_ns,omitempty"`
	From  int32  `json:"from,omitempty"`
	To    int32  `json:"to,omitempty"`
	DurMs int64  `json:"dur_ms,omitempty"`
	TrMs  int64  `json:"trunc_ms,omitempty"`
	// loadpb: history given as ages; value = current value + DV, or the history's sum if UseSum
	Hist   []c19Entry `json:"hist,omitempty"` // T is an AGE in ms here
	DV     int64      `json:"dv,omitempty"`
	UseSum bool       `json:"use_sum,omitempty"`
}

type c19Quota struct {
	Days int32 `json:"days"`
	MB   int32 `json:"mb"`
}

type c19Add struct {
	Delta int64 `json:"delta"`
	Age   int64 `json:"age_ms"`
}

type c19User struct {
	Policy     string     `json:"policy"` // "" = session has no policy; else the policy's user name
	Quotas     []c19Quota `json:"quotas"`
	Register   int        `json:"register"` // 0: no counters, 1: upload only, 2: both
	Up         []c19Add   `json:"up"`
	Down       []c19Add   `json:"down"`
	ForceRoll  bool       `json:"force_roll,omitempty"`
	ExtraLater int64      `json:"extra_later,omitempty"` // bytes added after the first round of checks
}

type c19Case struct {
	Kind  string    `json:"kind"` // counter | quota | file
	TS    bool      `json:"ts,omitempty"`
	Ops   []c19Op   `json:"ops,omitempty"`
	Users []c19User `json:"users,omitempty"`
	// file
	Adds     []c19Add `json:"adds,omitempty"`
	More     []c19Add `json:"more,omitempty"`
	CraftDV  int64    `json:"craft_dv,omitempty"`
	UseCraft bool     `json:"use_craft,omitempty"`
}

const c19Margin = int64(50 * time.Millisecond)

var c19ID atomic.Int64
var c19Durs = []int64{int64(2 * time.Second), int64(120 * time.Second), int64(120 * time.Minute), int64(8 * 24 * time.Hour)}

func c19Snap(ctr *metrics.Counter) (int64, uint64, []c19Entry) {
	v, op, h := ctr.VerifSnapshot()
	out := make([]c19Entry, len(h))
	for i, e := range h {
		out[i] = c19Entry{e.TimeUnixMilli, e.Delta, e.RollUp}
	}
	return v, op, out
}

func c19Show(h []c19Entry) string {
	if len(h) == 0 {
		return "-"
	}
	var sb strings.Builder
	for i, e := range h {
		if i > 0 {
			sb.WriteByte(',')
		}
		fmt.Fprintf(&sb, "%d:%d:%d", e.T, e.D, e.L)
	}
	return sb.String()
}

func c19Sum(h []c19Entry) (s int64) {
	for _, e := range h {
		s += e.D
	}
	return
}

func c19Sorted(h []c19Entry) bool {
	for i := 1; i < len(h); i++ {
		if h[i].T < h[i-1].T {
			return false
		}
	}
	return true
}

func floorTo(t, d int64) int64 {
	r := t % d
	if r < 0 {
		r += d
	}
	return t - r
}

// c19RollMarginOK: no age comparison a full roll-up can make lies within the margin of [before, after].
func c19RollMarginOK(h []c19Entry, before, after time.Time, durs []int64, truncs []int64) bool {
	lo, hi := before.UnixNano()-c19Margin, after.UnixNano()+c19Margin
	for _, e := range h {
		cands := []int64{e.T}
		for _, tr := range truncs {
			cands = append(cands, floorTo(e.T, tr))
		}
		for _, t := range cands {
			for _, d := range durs {
				thr := t*1e6 + d
				if lo <= thr && thr <= hi {
					return false
				}
			}
		}
	}
	return true
}

var c19Truncs = []int64{1000, 60000, 3600000, 86400000}

type c19Run struct {
	c      *core.Ctx
	k      c19Case
	ctr    *metrics.Counter
	id     int64
	base   time.Time
	sumAdd int64 // Σ increments (direct oracle), reset by loads
	hsum   int64 // expected Σ history
	lossy  bool  // a load made Σ history and value diverge legitimately
	incons bool  // a dump whose value is not the sum of its history was loaded (outside the property's hypotheses)
	neg    bool  // a dump with negative deltas was loaded (ditto)
	mono   bool  // timestamps of increments never went backwards and no foreign history was loaded
	lastT  int64
	nOps   int
	held   []c19Held // dump snapshots taken earlier (step 1 of DumpMetricsNow), not yet written
}

// c19Held is a ToMetricPB snapshot together with the counter's state when it was taken.
type c19Held struct {
	pbm *pb.Metric
	v   int64
	h   []c19Entry
	at  string
}

// checkHeld: a snapshot taken for a dump describes the counter at one instant, whatever happened to
// the live counter since (increments, roll-ups): written now and loaded again, its time series still
// sums to its total and is what it was.
func (r *c19Run) checkHeld(where string) {
	for _, hd := range r.held {
		raw, err := proto.Marshal(hd.pbm)
		pb2 := &pb.Metric{}
		if err == nil {
			err = proto.Unmarshal(raw, pb2)
		}
		if err != nil {
			r.c.Violate("C19/export/marshal", err.Error(), r.k)
			return
		}
		var h []c19Entry
		for _, e := range pb2.GetHistory() {
			h = append(h, c19Entry{e.GetTimeUnixMilli(), e.GetDelta(), int32(e.GetRollUp())})
		}
		if pb2.GetValue() != hd.v || c19Show(h) != c19Show(hd.h) {
			r.c.Violate("C19/export/snapshot-changed-after-taken", fmt.Sprintf("%s: dump snapshot taken at %s had value %d Σ history %d; written now it has value %d Σ history %d", where, hd.at, hd.v, c19Sum(hd.h), pb2.GetValue(), c19Sum(h)), r.k)
			return
		}
	}
}

func (r *c19Run) compareState(where string) bool {
	v, op, h := c19Snap(r.ctr)
	// direct oracle on the real state (always, also when the model disagrees)
	if r.k.TS {
		if s := c19Sum(h); s != r.hsum {
			r.c.Violate("C19/counter/history-sum-changed", fmt.Sprintf("%s: Σ history = %d, want %d (value %d)", where, s, r.hsum, v), r.k)
		}
		if !r.lossy && c19Sum(h) != v {
			r.c.Violate("C19/counter/history-sum-ne-value", fmt.Sprintf("%s: Σ history = %d but value = %d", where, c19Sum(h), v), r.k)
		}
		if c19Sum(h) > v && !r.incons {
			r.c.Violate("C19/counter/history-sum-gt-value", fmt.Sprintf("%s: Σ history = %d exceeds value = %d", where, c19Sum(h), v), r.k)
		}
		if r.mono && !c19Sorted(h) {
			r.c.Violate("C19/counter/history-disordered", fmt.Sprintf("%s: history not sorted by time although increments were", where), r.k)
		}
	}
	if v != r.sumAdd {
		r.c.Violate("C19/counter/value-ne-increments", fmt.Sprintf("%s: value %d, Σ increments %d", where, v, r.sumAdd), r.k)
	}
	m := r.c.Model.Ask("ctr-get %d", r.id)
	r.c.Compared()
	want := fmt.Sprintf("ok %d %d %s", v, op, c19Show(h))
	if m != want {
		r.c.Disagree("C19/corr/state", fmt.Sprintf("%s: impl %.300s model %.300s", where, want, m), r.k)
		return false
	}
	return true
}

// returns false if the case must be discarded (timing margin)
func c19RunCounter(c *core.Ctx, k c19Case) bool {
	r := &c19Run{c: c, k: k, ctr: metrics.VerifNewCounter("c", k.TS), id: c19ID.Add(1), base: time.Now(), mono: true, lastT: -1 << 62}
	ts := 0
	if k.TS {
		ts = 1
	}
	c.Model.Ask("ctr-new %d %d", r.id, ts)
	defer func() { c.Model.Ask("ctr-drop %d", r.id) }()
	baseMs := r.base.UnixMilli()
	labels := map[int32]bool{}
	rollups := 0
	for i, op := range k.Ops {
		where := fmt.Sprintf("op %d (%s)", i, op.K)
		switch op.K {
		case "add":
			t := baseMs - op.Age
			_, opn, h := c19Snap(r.ctr)
			trigger := k.TS && op.Delta != 0 && (opn+1)%1000 == 0
			before := time.Now()
			v := r.ctr.VerifAddWithTime(op.Delta, time.UnixMilli(t))
			after := time.Now()
			if trigger {
				// distance of the measured instant to the nearest age threshold the roll-up evaluates
				var dist int64
				mm := c.Model.Ask("ctr-margin %d %d %d %d", r.id, op.Delta, t, before.UnixNano())
				if _, err := fmt.Sscanf(mm, "ok %d", &dist); err != nil {
					c.Disagree("C19/corr/margin", "model: "+mm, k)
					return true
				}
				if dist >= 0 && dist < c19Margin+after.Sub(before).Nanoseconds() {
					return false
				}
			}
			_ = h
			m := c.Model.Ask("ctr-add %d %d %d %d", r.id, op.Delta, t, before.UnixNano())
			c.Compared()
			r.sumAdd += op.Delta
			if op.Delta != 0 && k.TS {
				r.hsum += op.Delta
				if t < r.lastT {
					r.mono = false
				}
				r.lastT = t
			}
			if m != fmt.Sprintf("ok %d %d", v, opn+1) {
				c.Disagree("C19/corr/add", fmt.Sprintf("%s: impl value %d op %d, model %s", where, v, opn+1, m), k)
				return true
			}
			if v != r.sumAdd {
				c.Violate("C19/counter/value-ne-increments", fmt.Sprintf("%s: Add returned %d, Σ increments %d", where, v, r.sumAdd), k)
			}
			if trigger {
				rollups++
				c.Hist("rollup_history_len", core.SizeBucket(len(h)+1))
				if !r.compareState(where + " roll-up") {
					return true
				}
				r.checkHeld(where + " roll-up")
				_, _, h2 := c19Snap(r.ctr)
				for _, e := range h2 {
					labels[e.L] = true
				}
			}
		case "tick", "force":
			n := op.N
			if op.K == "force" {
				_, opn, _ := c19Snap(r.ctr)
				n = int((1000 - 1 - opn%1000 + 1000) % 1000)
			}
			for j := 0; j < n; j++ {
				switch j % 3 {
				case 0:
					r.ctr.Load()
				case 1:
					r.ctr.Name()
				default:
					r.ctr.Type()
				}
			}
			c.Model.Ask("ctr-tick %d %d", r.id, n)
		case "query":
			if !k.TS {
				continue
			}
			t1, t2 := baseMs*1e6-op.A1, baseMs*1e6-op.A2 // relative to the millisecond the timestamps are relative to
			v, _, h := c19Snap(r.ctr)
			got := r.ctr.DeltaBetween(time.Unix(0, t1), time.Unix(0, t2))
			m := c.Model.Ask("ctr-query %d %d %d", r.id, t1, t2)
			c.Compared()
			if !strings.HasPrefix(m, fmt.Sprintf("ok %d ", got)) {
				c.Disagree("C19/corr/query", fmt.Sprintf("%s: DeltaBetween = %d, model %s", where, got, m), k)
			}
			if (got < 0 || got > v) && !r.incons && !r.neg {
				c.Violate("C19/counter/window-gt-total", fmt.Sprintf("%s: DeltaBetween = %d, value = %d", where, got, v), k)
			}
			if c19Sorted(h) {
				var want int64
				for _, e := range h {
					if e.T*1e6 > t1 && e.T*1e6 <= t2 {
						want += e.D
					}
				}
				c.Hist("window", map[bool]string{true: "empty", false: "non-empty"}[want == 0])
				if got != want {
					c.Violate("C19/counter/window-wrong-on-sorted-history", fmt.Sprintf("%s: DeltaBetween = %d, entries stamped in the window sum to %d", where, got, want), k)
				}
			} else {
				c.Hist("window", "unsorted-history")
			}
		case "pass":
			if !k.TS {
				continue
			}
			_, _, h := c19Snap(r.ctr)
			before := time.Now()
			r.ctr.VerifDoRollUp(op.From, op.To, time.Duration(op.DurMs)*time.Millisecond, time.Duration(op.TrMs)*time.Millisecond)
			after := time.Now()
			var hf []c19Entry
			for _, e := range h {
				if e.L == op.From {
					hf = append(hf, e)
				}
			}
			if !c19RollMarginOK(hf, before, after, []int64{op.DurMs * 1e6}, nil) {
				return false
			}
			c.Model.Ask("ctr-pass %d %d %d %d %d %d", r.id, op.From, op.To, op.DurMs*1e6, op.TrMs, before.UnixNano())
			if !(op.TrMs == c19Truncs[0] && op.To == 1 || op.TrMs == c19Truncs[1] && op.To == 2 || op.TrMs == c19Truncs[2] && op.To == 3 || op.TrMs == c19Truncs[3] && op.To == 4) || !(op.To == op.From || op.To == op.From+1) {
				r.mono = false // a pass rollUp never issues: order is not promised
			}
			c.Hist("single_pass", fmt.Sprintf("%d->%d", op.From, op.To))
			if !r.compareState(where) {
				return true
			}
		case "hold":
			pbm := metrics.ToMetricPB(r.ctr)
			c.Model.Ask("ctr-tick %d 4", r.id) // Name, Type, Load, Type
			v0, _, h0 := c19Snap(r.ctr)
			r.held = append(r.held, c19Held{pbm, v0, h0, where})
			c.Hist("reload", "snapshot-held-across-later-operations")
		case "pbround":
			pbm := metrics.ToMetricPB(r.ctr)
			if k.TS {
				c.Model.Ask("ctr-tick %d 4", r.id)
			} else {
				c.Model.Ask("ctr-tick %d 3", r.id)
			}
			raw, err := proto.Marshal(pbm)
			pb2 := &pb.Metric{}
			if err == nil {
				err = proto.Unmarshal(raw, pb2)
			}
			if err != nil {
				c.Violate("C19/export/marshal", err.Error(), k)
				return true
			}
			v0, _, h0 := c19Snap(r.ctr)
			before := time.Now()
			m2, err := metrics.FromMetricPB(pb2)
			if err != nil {
				c.Violate("C19/export/from-pb", err.Error(), k)
				return true
			}
			c.Model.Ask("ctr-drop %d", r.id)
			r.id = c19ID.Add(1)
			c.Model.Ask("ctr-new %d %d", r.id, ts)
			c.Model.Ask("ctr-load %d %d %s %d", r.id, v0, c19Show(h0), before.UnixNano())
			r.ctr = m2.(*metrics.Counter)
			c.Hist("reload", "pb-round-trip")
			if !r.compareState(where) {
				return true
			}
			if v1, _, h1 := c19Snap(r.ctr); v1 != v0 || c19Show(h1) != c19Show(h0) {
				c.Violate("C19/export/round-trip-changes-counter", fmt.Sprintf("%s: value %d→%d, history %.100s→%.100s", where, v0, v1, c19Show(h0), c19Show(h1)), k)
			}
		case "loadpb":
			v0, _, _ := c19Snap(r.ctr)
			var hist []*pb.History
			var plain []c19Entry
			for _, e := range op.Hist {
				t := baseMs - e.T
				hist = append(hist, &pb.History{TimeUnixMilli: proto.Int64(t), Delta: proto.Int64(e.D), RollUp: pb.RollUpLabel(e.L).Enum()})
				plain = append(plain, c19Entry{t, e.D, e.L})
			}
			sv := v0 + op.DV
			if op.UseSum {
				sv = c19Sum(plain)
			}
			typ := pb.MetricType_COUNTER
			if k.TS {
				typ = pb.MetricType_COUNTER_TIME_SERIES
			}
			before := time.Now()
			metrics.VerifLoadCounterFromMetricPB(r.ctr, &pb.Metric{Name: proto.String("c"), Type: typ.Enum(), Value: proto.Int64(sv), History: hist})
			m := c.Model.Ask("ctr-load %d %d %s %d", r.id, sv, c19Show(plain), before.UnixNano())
			c.Compared()
			v1, op1, _ := c19Snap(r.ctr)
			if m != fmt.Sprintf("ok %d %d", v1, op1) {
				c.Disagree("C19/corr/load", fmt.Sprintf("%s: impl value %d op %d, model %s", where, v1, op1, m), k)
				return true
			}
			want := v0
			if sv > want {
				want = sv
			}
			if v1 < v0 || v1 != want {
				c.Violate("C19/export/load-not-monotone", fmt.Sprintf("%s: value %d, dump value %d → %d (want %d)", where, v0, sv, v1, want), k)
			}
			c.Hist("reload", map[bool]string{true: "load-larger-dump", false: "load-smaller-or-equal-dump"}[sv > v0])
			r.sumAdd = v1
			r.hsum = c19Sum(plain)
			if sv != c19Sum(plain) {
				r.incons = true
			}
			for _, e := range plain {
				if e.D < 0 {
					r.neg = true
				}
			}
			r.lossy = r.lossy || r.hsum != v1
			r.mono = false
			if !k.TS {
				r.hsum = 0
			}
			if !r.compareState(where) {
				return true
			}
		}
		r.nOps++
		if i%64 == 63 {
			if !r.compareState(where) {
				return true
			}
		}
	}
	r.compareState("end")
	r.checkHeld("end")
	// exported Load() is the value
	if l := r.ctr.Load(); l != r.sumAdd {
		c.Violate("C19/counter/value-ne-increments", fmt.Sprintf("Load() = %d, Σ increments %d", l, r.sumAdd), k)
	}
	for l := range labels {
		c.Hist("labels_after_rollup", fmt.Sprint(l))
	}
	c.Hist("rollups_per_case", fmt.Sprint(rollups))
	c.Eval(fmt.Sprintf("counter/%v/%d/%d/%d", k.TS, len(k.Ops), r.sumAdd, rollups), true)
	c.Res.TracesValidated++
	return true
}

// ---- quota

var c19UserSeq atomic.Int64

func c19WindowSum(h []c19Entry, t1, t2 int64) (s int64) {
	for _, e := range h {
		if e.T*1e6 > t1 && e.T*1e6 <= t2 {
			s += e.D
		}
	}
	return
}

type c19LiveUser struct {
	name     string
	spec     c19User
	up, down *metrics.Counter
	pbUser   *appctlpb.User
}

// one quota decision on the real code, the model and the independent evaluation; ok=false → discard
func c19Check(c *core.Ctx, k c19Case, u *c19LiveUser) (refusedReal bool, ok bool) {
	var upH, downH []c19Entry
	if u.up != nil {
		_, _, upH = c19Snap(u.up)
	}
	if u.down != nil {
		_, _, downH = c19Snap(u.down)
	}
	before := time.Now()
	quotaOK, _ := protocol.VerifCheckQuota(u.pbUser, u.name)
	after := time.Now()
	// margin: every entry vs every window boundary
	lo, hi := before.UnixNano()-c19Margin, after.UnixNano()+c19Margin
	for _, h := range [][]c19Entry{upH, downH} {
		for _, e := range h {
			// upper boundary `now`: an entry stamped at or before `before` is inside for every clock
			// reading the code can make; only entries stamped (slightly) in the future are ambiguous
			if b := e.T * 1e6; before.UnixNano() < b && b <= hi {
				return false, false
			}
			// lower boundary `now - days`
			for _, q := range u.spec.Quotas {
				if b := e.T*1e6 + int64(q.Days)*24*int64(time.Hour); lo <= b && b <= hi {
					return false, false
				}
			}
		}
	}
	pname := "-"
	if u.pbUser != nil {
		pname = u.pbUser.GetName()
	}
	var qs []string
	for _, q := range u.spec.Quotas {
		qs = append(qs, fmt.Sprintf("%d:%d", q.Days, q.MB))
	}
	qstr := "-"
	if len(qs) > 0 && u.pbUser != nil {
		qstr = strings.Join(qs, ",")
	}
	present := 0
	if u.up != nil && u.down != nil {
		present = 1
	}
	m := c.Model.Ask("quota-check %s %s %s %d %s %s %d", pname, u.name, qstr, present, c19Show(upH), c19Show(downH), before.UnixNano())
	c.Compared()
	if m != fmt.Sprintf("ok %v", quotaOK) {
		c.Disagree("C19/corr/quota-check", fmt.Sprintf("user %s: checkQuota = %v, model %s", u.name, quotaOK, m), k)
	}
	// independent evaluation
	want := false
	class := "no-policy"
	if u.pbUser != nil {
		class = "policy-of-other-user"
		if u.pbUser.GetName() == u.name {
			class = "no-quotas"
			if len(u.spec.Quotas) > 0 {
				class = "counters-missing"
				if present == 1 {
					class = "within-all-quotas"
					for _, q := range u.spec.Quotas {
						then := before.UnixNano() - int64(q.Days)*24*int64(time.Hour)
						total := c19WindowSum(upH, then, before.UnixNano()) + c19WindowSum(downH, then, before.UnixNano())
						if total/1048576 > int64(q.MB) {
							want, class = true, "over-some-quota"
						}
					}
				}
			}
		}
	}
	if !c19Sorted(upH) || !c19Sorted(downH) {
		// DeltaBetween's binary search promises nothing on an unsorted history: model comparison only
		c.Hist("quota_class", "unsorted-history")
		return !quotaOK, true
	}
	c.Hist("quota_class", class)
	if !quotaOK != want {
		c.Violate("C19/quota/decision/"+class, fmt.Sprintf("user %s (%s): refused=%v, want %v", u.name, class, !quotaOK, want), k)
	}
	return !quotaOK, true
}

func c19RunQuota(c *core.Ctx, k c19Case) bool {
	base := time.Now()
	run := c19UserSeq.Add(1)
	var live []*c19LiveUser
	for i, spec := range k.Users {
		u := &c19LiveUser{name: fmt.Sprintf("vq%d-%d-%d-%d", c.Seed, os.Getpid(), run, i), spec: spec}
		if spec.Policy != "" {
			pn := u.name
			if spec.Policy != "self" {
				pn = u.name + "-other"
			}
			u.pbUser = &appctlpb.User{Name: proto.String(pn)}
			for _, q := range spec.Quotas {
				u.pbUser.Quotas = append(u.pbUser.Quotas, &appctlpb.Quota{Days: proto.Int32(q.Days), Megabytes: proto.Int32(q.MB)})
			}
		}
		group := fmt.Sprintf(metrics.UserMetricGroupFormat, u.name)
		if spec.Register >= 1 {
			u.up = metrics.RegisterMetric(group, metrics.UserMetricUploadBytes, metrics.COUNTER_TIME_SERIES).(*metrics.Counter)
		}
		if spec.Register >= 2 {
			u.down = metrics.RegisterMetric(group, metrics.UserMetricDownloadBytes, metrics.COUNTER_TIME_SERIES).(*metrics.Counter)
		}
		for _, a := range spec.Up {
			if u.up != nil {
				u.up.VerifAddWithTime(a.Delta, time.UnixMilli(base.UnixMilli()-a.Age))
			}
		}
		for _, a := range spec.Down {
			if u.down != nil {
				u.down.VerifAddWithTime(a.Delta, time.UnixMilli(base.UnixMilli()-a.Age))
			}
		}
		if spec.ForceRoll {
			for _, ctr := range []*metrics.Counter{u.up, u.down} {
				if ctr == nil {
					continue
				}
				_, opn, h := c19Snap(ctr)
				for j := 0; j < int((1000-1-opn%1000+1000)%1000); j++ {
					ctr.Load()
				}
				at := base.UnixMilli()
				if len(h) > 0 && h[len(h)-1].T > at {
					at = h[len(h)-1].T // keep the history sorted when the last entry is stamped in the future
				}
				before := time.Now()
				ctr.VerifAddWithTime(1, time.UnixMilli(at))
				if !c19RollMarginOK(append(h, c19Entry{at, 1, 0}), before, time.Now(), c19Durs, c19Truncs) {
					return false
				}
			}
		}
		live = append(live, u)
	}
	first := make([]bool, len(live))
	for i, u := range live {
		r, ok := c19Check(c, k, u)
		if !ok {
			return false
		}
		first[i] = r
	}
	// isolation: now one user at a time receives more traffic; nobody else's decision may change
	for i, u := range live {
		if u.spec.ExtraLater == 0 || u.up == nil {
			continue
		}
		u.up.VerifAddWithTime(u.spec.ExtraLater, time.Now().Add(-time.Second))
		for j, o := range live {
			r, ok := c19Check(c, k, o)
			if !ok {
				return false
			}
			if j != i && r != first[j] {
				c.Violate("C19/quota/isolation", fmt.Sprintf("decision for user #%d changed from %v to %v after user #%d received %d more bytes", j, first[j], r, i, u.spec.ExtraLater), k)
			}
			if j == i {
				first[j] = r
			}
		}
	}
	c.Eval(fmt.Sprintf("quota/%v", first), true)
	return true
}

// ---- dump / reload through the real files

func c19RunFile(c *core.Ctx, k c19Case) bool {
	base := time.Now()
	run := c19UserSeq.Add(1)
	group := fmt.Sprintf("verifC19-%d-%d-%d", c.Seed, os.Getpid(), run)
	ctr := metrics.RegisterMetric(group, "X", metrics.COUNTER_TIME_SERIES).(*metrics.Counter)
	id := c19ID.Add(1)
	c.Model.Ask("ctr-new %d 1", id)
	defer c.Model.Ask("ctr-drop %d", id)
	add := func(a c19Add) {
		t := base.UnixMilli() - a.Age
		ctr.VerifAddWithTime(a.Delta, time.UnixMilli(t))
		c.Model.Ask("ctr-add %d %d %d %d", id, a.Delta, t, time.Now().UnixNano())
	}
	for _, a := range k.Adds {
		add(a)
	}
	dir := c.WorkDir
	if dir == "" {
		dir = os.TempDir()
	}
	path := filepath.Join(dir, fmt.Sprintf("c19-dump-%d.pb", run))
	defer os.Remove(path)
	metrics.SetMetricsDumpFilePath(path)
	if err := metrics.DumpMetricsNow(); err != nil {
		c.Violate("C19/export/dump-failed", err.Error(), k)
		return true
	}
	c.Model.Ask("ctr-tick %d 4", id)
	v0, _, h0 := c19Snap(ctr)
	dumpV, dumpH := v0, h0
	if k.UseCraft {
		// a dump as another process of the same server would have left it: same group/metric, other totals
		raw, _ := os.ReadFile(path)
		all := &pb.AllMetrics{}
		if err := proto.Unmarshal(raw, all); err != nil {
			c.Violate("C19/export/dump-unreadable", err.Error(), k)
			return true
		}
		for _, g := range all.GetGroups() {
			if g.GetName() != group {
				continue
			}
			for _, m := range g.GetMetrics() {
				if m.GetName() == "X" {
					dumpV = v0 + k.CraftDV
					if k.CraftDV > 0 {
						m.History = append(m.History, &pb.History{TimeUnixMilli: proto.Int64(base.UnixMilli()), Delta: proto.Int64(k.CraftDV), RollUp: pb.RollUpLabel_NO_ROLL_UP.Enum()})
						dumpH = append(append([]c19Entry{}, h0...), c19Entry{base.UnixMilli(), k.CraftDV, 0})
					}
					m.Value = proto.Int64(dumpV)
				}
			}
		}
		raw, _ = proto.Marshal(all)
		os.WriteFile(path, raw, 0o660)
	}
	for _, a := range k.More {
		add(a)
	}
	v1, _, _ := c19Snap(ctr)
	before := time.Now()
	if err := metrics.LoadMetricsFromDump(); err != nil {
		c.Violate("C19/export/load-failed", err.Error(), k)
		return true
	}
	// LoadMetricsFromDump walks the dump twice
	c.Model.Ask("ctr-load %d %d %s %d", id, dumpV, c19Show(dumpH), before.UnixNano())
	c.Model.Ask("ctr-load %d %d %s %d", id, dumpV, c19Show(dumpH), before.UnixNano())
	v2, op2, h2 := c19Snap(ctr)
	m := c.Model.Ask("ctr-get %d", id)
	c.Compared()
	if want := fmt.Sprintf("ok %d %d %s", v2, op2, c19Show(h2)); m != want {
		c.Disagree("C19/corr/file-reload", fmt.Sprintf("impl %.200s model %.200s", want, m), k)
	}
	wantV := v1
	if dumpV > wantV {
		wantV = dumpV
	}
	if v2 < v1 || v2 != wantV {
		c.Violate("C19/export/load-not-monotone", fmt.Sprintf("live value %d, dump value %d → %d (want %d)", v1, dumpV, v2, wantV), k)
	}
	if c19Sum(h2) > v2 {
		c.Violate("C19/counter/history-sum-gt-value", fmt.Sprintf("after reload Σ history = %d exceeds value = %d", c19Sum(h2), v2), k)
	}
	if len(k.More) == 0 && !k.UseCraft && (v2 != v0 || c19Show(h2) != c19Show(h0)) {
		c.Violate("C19/export/round-trip-changes-counter", "dump followed by reload changed an idle counter", k)
	}
	c.Hist("reload", fmt.Sprintf("file/more=%v/craft=%v", len(k.More) > 0, k.UseCraft))
	c.Eval(fmt.Sprintf("file/%d/%d/%d", v0, v1, dumpV), true)
	c.Res.TracesValidated++
	return true
}

func c19Exec(c *core.Ctx, k c19Case) bool {
	switch k.Kind {
	case "counter":
		return c19RunCounter(c, k)
	case "quota":
		return c19RunQuota(c, k)
	case "file":
		return c19RunFile(c, k)
	}
	return true
}

// ---- generators

const (
	c19Sec  = int64(1000)
	c19Min  = 60 * c19Sec
	c19Hour = 60 * c19Min
	c19Day  = 24 * c19Hour
)

// ages (ms) spanning "bursts within a millisecond" to "gaps of weeks"
func c19Ages(c *core.Ctx, n int) []int64 {
	var ages []int64
	for len(ages) < n {
		var a int64
		switch c.Rand.Intn(9) {
		case 0, 1:
			a = c.Rand.Int63n(1800) // not old enough for anything
		case 2:
			a = 2200 + c.Rand.Int63n(100*c19Sec) // → second
		case 3:
			a = 125*c19Sec + c.Rand.Int63n(2*c19Hour-130*c19Sec) // → minute
		case 4:
			a = 2*c19Hour + 10*c19Sec + c.Rand.Int63n(8*c19Day-2*c19Hour-c19Min) // → hour
		case 5:
			a = 8*c19Day + c19Min + c.Rand.Int63n(60*c19Day) // → day
		case 6: // close to a threshold (the margin check discards what is too close)
			thr := []int64{2 * c19Sec, 120 * c19Sec, 120 * c19Min, 8 * c19Day}[c.Rand.Intn(4)]
			a = thr + []int64{-900, -300, 300, 900, 1500}[c.Rand.Intn(5)]
		case 7: // close to a bucket boundary of the wall clock is arbitrary anyway; whole seconds
			a = c19Sec * c.Rand.Int63n(300)
		default:
			a = c.Rand.Int63n(70 * c19Day)
		}
		burst := 1
		if c.Rand.Intn(4) == 0 {
			burst = 2 + c.Rand.Intn(5) // several increments within the same millisecond
		}
		for b := 0; b < burst && len(ages) < n; b++ {
			ages = append(ages, a)
		}
	}
	return ages
}

func c19GenCounter(c *core.Ctx, n int, sorted bool, extras bool) c19Case {
	k := c19Case{Kind: "counter", TS: c.Rand.Intn(8) != 0}
	ages := c19Ages(c, n)
	if sorted {
		sort.Slice(ages, func(i, j int) bool { return ages[i] > ages[j] })
	}
	forceEvery := 0
	if n < 900 {
		forceEvery = 5 + c.Rand.Intn(n)
	}
	for i, a := range ages {
		d := int64(1 + c.Rand.Intn(5000))
		switch c.Rand.Intn(12) {
		case 0:
			d = 0
		case 1:
			d = 1 << uint(20+c.Rand.Intn(12))
		}
		if forceEvery > 0 && i > 0 && i%forceEvery == 0 {
			k.Ops = append(k.Ops, c19Op{K: "force"})
		}
		k.Ops = append(k.Ops, c19Op{K: "add", Delta: d, Age: a})
		if !extras {
			continue
		}
		switch c.Rand.Intn(14) {
		case 0:
			k.Ops = append(k.Ops, c19Op{K: "tick", N: 1 + c.Rand.Intn(40)})
		case 1, 2:
			a1 := c.Rand.Int63n(70*c19Day) * 1e6
			if c.Rand.Intn(3) == 0 {
				a1 = ages[c.Rand.Intn(len(ages))]*1e6 + int64(c.Rand.Intn(3)-1)*int64(c.Rand.Intn(2000000)) // at / next to an entry's timestamp
			}
			if a1 < 0 {
				a1 = 0
			}
			a2 := a1 - c.Rand.Int63n(a1+1)
			if c.Rand.Intn(4) == 0 {
				a2 = -c.Rand.Int63n(int64(time.Hour)) // the window reaches into the future
			}
			k.Ops = append(k.Ops, c19Op{K: "query", A1: a1, A2: a2})
		case 3:
			if c.Rand.Intn(4) == 0 {
				k.Ops = append(k.Ops, c19Op{K: "pbround"})
			}
		case 4:
			if c.Rand.Intn(3) == 0 {
				k.Ops = append(k.Ops, c19Op{K: "hold"})
			}
		}
	}
	k.Ops = append(k.Ops, c19Op{K: "force"}, c19Op{K: "add", Delta: 1, Age: 0})
	k.Ops = append(k.Ops, c19Op{K: "query", A1: 80 * c19Day * 1e6, A2: -1e9})
	return k
}

// arbitrary histories (unsorted, any labels, negative deltas) loaded from a protobuf, then rolled up
func c19GenArbitrary(c *core.Ctx) c19Case {
	k := c19Case{Kind: "counter", TS: true}
	n := 1 + c.Rand.Intn(60)
	ages := c19Ages(c, n)
	var h []c19Entry
	for _, a := range ages {
		d := int64(c.Rand.Intn(4000))
		if c.Rand.Intn(10) == 0 {
			d = -d
		}
		h = append(h, c19Entry{a, d, int32(c.Rand.Intn(5))})
	}
	k.Ops = append(k.Ops, c19Op{K: "add", Delta: int64(c.Rand.Intn(100000)), Age: 5})
	k.Ops = append(k.Ops, c19Op{K: "loadpb", Hist: h, DV: int64(c.Rand.Intn(20001) - 10000), UseSum: c.Rand.Intn(2) == 0})
	for i := 0; i < 1+c.Rand.Intn(4); i++ {
		switch c.Rand.Intn(3) {
		case 0:
			k.Ops = append(k.Ops, c19Op{K: "force"}, c19Op{K: "add", Delta: 7, Age: c.Rand.Int63n(3000)})
		case 1:
			tr := []int64{1, 500, 1000, 2000, 30000, 60000, 900000, 3600000, 21600000, 86400000}[c.Rand.Intn(10)]
			dur := []int64{0, 1500, 2000, 100000, 120000, 7200000, 691200000}[c.Rand.Intn(7)] + int64(c.Rand.Intn(3)-1)*700
			if dur < 0 {
				dur = 0
			}
			k.Ops = append(k.Ops, c19Op{K: "pass", From: int32(c.Rand.Intn(5)), To: int32(c.Rand.Intn(5)), DurMs: dur, TrMs: tr})
		default:
			a1 := c.Rand.Int63n(70*c19Day) * 1e6
			k.Ops = append(k.Ops, c19Op{K: "query", A1: a1, A2: a1 - c.Rand.Int63n(a1+1)})
		}
	}
	return k
}

func c19GenQuota(c *core.Ctx) c19Case {
	k := c19Case{Kind: "quota"}
	nu := 2 + c.Rand.Intn(3)
	for i := 0; i < nu; i++ {
		u := c19User{Policy: "self", Register: 2}
		switch c.Rand.Intn(12) {
		case 0:
			u.Policy = ""
		case 1:
			u.Policy = "other"
		case 2:
			u.Register = c.Rand.Intn(2)
		}
		nq := c.Rand.Intn(4)
		for j := 0; j < nq; j++ {
			u.Quotas = append(u.Quotas, c19Quota{Days: int32([]int{1, 1, 2, 7, 30, 0}[c.Rand.Intn(6)]), MB: int32(1 + c.Rand.Intn(40))})
		}
		// traffic: aim at the boundary of one quota
		target := int64(1+c.Rand.Intn(40)) << 20
		if len(u.Quotas) > 0 {
			q := u.Quotas[c.Rand.Intn(len(u.Quotas))]
			target = (int64(q.MB) + 1) << 20 // the first total that is refused
		}
		target += []int64{-1 << 20, -1, 0, 1, 1 << 19, -(1 << 19), 5 << 20}[c.Rand.Intn(7)]
		if target < 0 {
			target = 0
		}
		// split the total over upload / download and over instants inside and outside the windows
		parts := 1 + c.Rand.Intn(6)
		left := target
		for p := 0; p < parts; p++ {
			d := left
			if p < parts-1 {
				d = c.Rand.Int63n(left + 1)
			}
			left -= d
			age := []int64{3 * c19Sec, 10 * c19Min, 5 * c19Hour, 23 * c19Hour, 25 * c19Hour, 3 * c19Day, 6*c19Day + 23*c19Hour, 8 * c19Day, 29 * c19Day, 31 * c19Day}[c.Rand.Intn(10)] + c.Rand.Int63n(c19Min)
			if c.Rand.Intn(25) == 0 {
				age = -10 * c19Sec // stamped in the future: not counted
			}
			if c.Rand.Intn(2) == 0 {
				u.Up = append(u.Up, c19Add{d, age})
			} else {
				u.Down = append(u.Down, c19Add{d, age})
			}
		}
		sort.Slice(u.Up, func(a, b int) bool { return u.Up[a].Age > u.Up[b].Age })
		sort.Slice(u.Down, func(a, b int) bool { return u.Down[a].Age > u.Down[b].Age })
		u.ForceRoll = c.Rand.Intn(5) == 0
		if c.Rand.Intn(2) == 0 {
			u.ExtraLater = int64(1+c.Rand.Intn(64)) << 20
		}
		k.Users = append(k.Users, u)
	}
	return k
}

func c19GenFile(c *core.Ctx) c19Case {
	k := c19Case{Kind: "file"}
	mk := func(n int) []c19Add {
		ages := c19Ages(c, n)
		sort.Slice(ages, func(i, j int) bool { return ages[i] > ages[j] })
		var out []c19Add
		for _, a := range ages {
			out = append(out, c19Add{int64(1 + c.Rand.Intn(9000)), a})
		}
		return out
	}
	k.Adds = mk(1 + c.Rand.Intn(30))
	switch c.Rand.Intn(4) {
	case 0:
		k.More = []c19Add{{int64(1 + c.Rand.Intn(9000)), 0}, {int64(1 + c.Rand.Intn(9000)), 0}}
	case 1:
		k.UseCraft, k.CraftDV = true, int64(1+c.Rand.Intn(100000))
	case 2:
		k.UseCraft, k.CraftDV = true, -int64(c.Rand.Intn(5))
		k.More = []c19Add{{int64(1 + c.Rand.Intn(9000)), 0}}
	}
	return k
}

func init() {
	core.AddConsts(metrics.VerifConstsC19)
	core.Register("C19", &core.Scenario{
		Run: func(c *core.Ctx) {
			c.Res.Rule = "counter histories: increments with ages from 0 ms to 70 days (bursts within one millisecond, ages next to the four roll-up thresholds), sorted and unsorted, zero and multi-megabyte deltas, roll-up forced at arbitrary operation counts and reached naturally after 1000 operations, op-only calls, DeltaBetween windows (random, at entry timestamps, reaching into the future), protobuf round trips, loads of arbitrary histories (unsorted, any label, negative deltas) followed by roll-ups and single doRollUp passes with arbitrary parameters; quota: 2–4 users with policy of self / other / none, 0–3 quotas, counters registered or not, traffic at the refusal boundary ±1 byte split over upload/download and over instants inside/outside the windows, isolation re-checks; dump/reload through the real files. Distinct = distinct (kind, size, total, roll-up count) resp. decision vectors."
			c.Correspondence("ctr-*: pkg/metrics Counter (addWithTime, rollUp/doRollUp, DeltaBetween, loadCounterFromMetricPB, ToMetricPB/FromMetricPB, DumpMetricsNow/LoadMetricsFromDump) vs Mieru.Model.Counter with measured instants")
			c.Correspondence("quota-check: pkg/protocol Session.checkQuota vs Mieru.Model.Quota.checkQuota")
			c.Note("whole-system quota and accounting runs are the extra stage c19_endpoint.go")
			var cases []c19Case
			if files, _ := filepath.Glob(filepath.Join(c.Corpus, "*.json")); len(files) > 0 {
				sort.Strings(files)
				for _, f := range files {
					raw, err := os.ReadFile(f)
					var k c19Case
					if err == nil && json.Unmarshal(raw, &k) == nil && (k.Kind == "counter" || k.Kind == "quota" || k.Kind == "file") {
						cases = append(cases, k)
					}
				}
				c.Note("corpus cases: %d", len(cases))
			}
			for i := 0; i < c.N(120, 1500); i++ {
				k := c19GenCounter(c, 5+c.Rand.Intn(250), c.Rand.Intn(5) != 0, true)
				if i == 0 {
					c.Sample(k.Ops[:3])
				}
				cases = append(cases, k)
			}
			// natural roll-ups: more than 1000 (2000) operations without forcing
			for i := 0; i < c.N(2, 12); i++ {
				cases = append(cases, c19GenCounter(c, 1100+c.Rand.Intn(1200), true, i%2 == 0))
			}
			for i := 0; i < c.N(150, 2000); i++ {
				cases = append(cases, c19GenArbitrary(c))
			}
			for i := 0; i < c.N(150, 2000); i++ {
				k := c19GenQuota(c)
				if i == 0 {
					c.Sample(k)
				}
				cases = append(cases, k)
			}
			for i := 0; i < c.N(16, 60); i++ {
				cases = append(cases, c19GenFile(c))
			}
			for _, k := range cases {
				c.Hist("case_kind", k.Kind)
				ok := false
				for try := 0; try < 2 && !ok; try++ { // a case inside the timing margin is retried once
					ok = c19Exec(c, k)
					if !ok {
						c.Res.Discarded++
						c.Hist("discarded_margin", k.Kind)
					}
				}
			}
		},
		Replay: func(c *core.Ctx, raw json.RawMessage) {
			var k c19Case
			if json.Unmarshal(raw, &k) == nil {
				for try := 0; try < 3; try++ {
					if c19Exec(c, k) {
						return
					}
					c.Res.Discarded++
				}
			}
		},
	})
}
