package props

import (
	"context"
	"encoding/json"
	"fmt"
	"io"
	"net"
	"strings"
	"sync"
	"time"

	"github.com/enfein/mieru/v3/pkg/protocol"
	"github.com/enfein/mieru/v3/pkg/protocol/serveruser"
	"verifharness/core"
	"verifharness/sim"
)

// C07, session stage with MULTIPLEXING and a RELOAD (audit item G1): what a real server does with a
// session whose first segment never reaches Registry.Discover — UDP: the datagram comes from the
// ip:port of a live session and opens under that session's cipher (tryDecryptExistingSession runs
// before the registry); TCP: the segment arrives on an established connection whose receive cipher
// was fixed by the connection's first segment. Every dial is classified by what the CLIENT did
// (new underlay or an underlay that carries a live session — seen from the local address) and the
// server's reaction (accepted or not, UserName() of the accepted session, whether the registry was
// consulted — the registry's own lookup counter) is compared with Mieru.Model.Session.

type c07SessStep struct {
	Kind   string `json:"kind"`             // dial | reload | close
	User   int    `json:"user,omitempty"`   // dial: index of the dialling client; close: whose sessions
	Repeat int    `json:"repeat,omitempty"` // dial: number of dials
	Users  []int  `json:"users,omitempty"`  // reload: the new user set
}

type c07SessCase struct {
	Sess      bool          `json:"c07_sessions"`
	Seed      int64         `json:"seed"`
	UDP       bool          `json:"udp"`
	Multiplex int           `json:"multiplex"`
	Steps     []c07SessStep `json:"steps"`
}

type c07SessObs struct {
	step     int
	user     int
	local    string // client-side local address of the session = the underlay it rides on
	reused   bool   // the underlay already carried a live session of this client
	accepted bool
	name     string // UserName() of the session the server accepted
	remote   string // RemoteAddr() the server saw
	lookups  uint64 // registry lookups caused while this dial was in progress
	clean    bool   // no rejected dial before this one in this world (stray retransmissions would add lookups)
}

var c07SessUsers = []sim.User{
	{Name: "s-alice", Password: "pw-alice"},
	{Name: "s-bob", Password: "pw-bob"},
	{Name: "s-carol", Password: "pw-carol"},
}

func c07SessionsRun(c *core.Ctx, k c07SessCase) []c07SessObs {
	w, err := sim.NewWorld(sim.Config{UDP: k.UDP, Seed: k.Seed, Users: c07SessUsers, Multiplex: k.Multiplex})
	if err != nil {
		c.Violate("C07/sessions/setup", err.Error(), k)
		return nil
	}
	defer bgClose.Go(w.Close)
	reg := protocol.VerifServerRegistry(w.Server)
	clients := make([]*protocol.Mux, len(c07SessUsers))
	clients[0] = w.Client
	for i := 1; i < len(c07SessUsers); i++ {
		cl, err := w.NewClient(i, nil)
		if err != nil {
			c.Violate("C07/sessions/setup", err.Error(), k)
			return nil
		}
		clients[i] = cl
	}
	var mu sync.Mutex
	type seen struct{ name, remote string }
	got := map[byte]seen{}
	go func() {
		for {
			conn, err := w.Server.Accept()
			if err != nil {
				return
			}
			go func(conn net.Conn) {
				b := make([]byte, 1)
				conn.SetReadDeadline(time.Now().Add(30 * time.Second))
				if _, err := io.ReadFull(conn, b); err != nil {
					return
				}
				name := ""
				if u, ok := conn.(userNamer); ok {
					name = u.UserName()
				}
				mu.Lock()
				got[b[0]] = seen{name, conn.RemoteAddr().String()}
				mu.Unlock()
				conn.Write([]byte{b[0]})
				// keep the session open until the client closes it
				conn.SetReadDeadline(time.Time{})
				io.Copy(io.Discard, conn)
				conn.Close()
			}(conn)
		}
	}()
	live := map[int][]net.Conn{} // user → open client-side sessions
	defer func() {
		for _, l := range live {
			for _, x := range l {
				x.Close()
			}
		}
	}()
	var obs []c07SessObs
	tag := byte(0)
	clean := true
	for si, st := range k.Steps {
		switch st.Kind {
		case "reload":
			var us []sim.User
			for _, i := range st.Users {
				us = append(us, c07SessUsers[i])
			}
			w.Server.SetServerUsers(sim.PBUsers(us))
		case "close":
			for _, x := range live[st.User] {
				x.Close()
			}
			live[st.User] = nil
		case "dial":
			for r := 0; r < st.Repeat; r++ {
				tag++
				o := c07SessObs{step: si, user: st.User, clean: clean}
				l0, _ := serveruser.VerifRegistryCounters(reg)
				ctx, cancel := context.WithTimeout(context.Background(), 20*time.Second)
				conn, err := clients[st.User].DialContext(ctx)
				cancel()
				if err != nil {
					obs = append(obs, o)
					clean = false
					continue
				}
				o.local = conn.LocalAddr().String()
				for _, x := range live[st.User] {
					if x.LocalAddr().String() == o.local {
						o.reused = true
					}
				}
				conn.Write([]byte{tag})
				b := make([]byte, 1)
				conn.SetReadDeadline(time.Now().Add(2500 * time.Millisecond))
				_, rerr := io.ReadFull(conn, b)
				conn.SetReadDeadline(time.Time{})
				mu.Lock()
				s, ok := got[tag]
				mu.Unlock()
				l1, _ := serveruser.VerifRegistryCounters(reg)
				o.lookups = l1 - l0
				if rerr == nil && ok {
					o.accepted, o.name, o.remote = true, s.name, s.remote
					live[st.User] = append(live[st.User], conn)
				} else {
					conn.Close()
					clean = false
				}
				obs = append(obs, o)
			}
		}
	}
	return obs
}

func c07SessDescribe(obs []c07SessObs) string {
	var sb strings.Builder
	for _, o := range obs {
		fmt.Fprintf(&sb, "[step %d %s local=%s reused=%v accepted=%v name=%q remote=%s lookups=%d clean=%v] ", o.step, c07SessUsers[o.user].Name, o.local, o.reused, o.accepted, o.name, o.remote, o.lookups, o.clean)
	}
	return sb.String()
}

func init() {
	core.RegisterReplay("C07", func(c *core.Ctx, raw json.RawMessage) bool {
		var k c07SessCase
		if json.Unmarshal(raw, &k) != nil || !k.Sess {
			return false
		}
		obs := c07SessionsRun(c, k)
		c.Note("C07 sessions: %s", c07SessDescribe(obs))
		bgClose.Wait(30 * time.Second)
		return true
	})
}
