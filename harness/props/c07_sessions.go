package props

import (
	"context"
	"encoding/hex"
	"encoding/json"
	"fmt"
	"io"
	"net"
	"sort"
	"strings"
	"sync"
	"sync/atomic"
	"time"

	"github.com/enfein/mieru/v3/pkg/appctl/appctlpb"
	"github.com/enfein/mieru/v3/pkg/protocol"
	"github.com/enfein/mieru/v3/pkg/protocol/serveruser"
	"google.golang.org/protobuf/proto"
	"verifharness/core"
	"verifharness/sim"
	"verifharness/wire"
)

// C07, session stage with MULTIPLEXING and RELOADS (audit item G1): what a real server does with a
// session whose first segment never reaches Registry.Discover — UDP: the datagram comes from the
// ip:port of a live session and opens under that session's cipher (tryDecryptExistingSession runs
// before the registry); TCP: the segment arrives on an established connection whose receive cipher
// was fixed by the connection's first segment. Every dial is classified by what the CLIENT did (which
// underlay = local address the session rides on) and the server's reaction — accepted or not,
// UserName() of the accepted session, whether the registry was consulted (its own lookup counter) —
// is compared with Mieru.Session.udpOuts / tcpOuts (driver op sess-run), the model the session-level
// theorems of Props/C07.lean are about.
//
// Direct oracles (the property as read in Props/C07.lean): an accepted session is attributed to the
// user that dialled it; a NEW connection (an underlay that never carried a session) with a
// credential that is not registered any more is not accepted; one with a registered credential is.

type c07SessStep struct {
	Kind   string `json:"kind"`             // dial | reload | close
	Cred   int    `json:"cred,omitempty"`   // dial / close: index into the credential pool (one client mux each)
	Repeat int    `json:"repeat,omitempty"` // dial: number of dials
	Users  []int  `json:"users,omitempty"`  // reload: the new user set (pool indices, distinct names)
}

type c07SessCase struct {
	Sess      bool          `json:"c07_sessions"`
	Name      string        `json:"name,omitempty"`
	Seed      int64         `json:"seed"`
	UDP       bool          `json:"udp"`
	Multiplex int           `json:"multiplex"`
	Mandatory bool          `json:"mandatory,omitempty"`
	Initial   []int         `json:"initial"`
	Steps     []c07SessStep `json:"steps"`
}

// the credential pool: pool index → (user name, credential); several entries may carry the same name
// with different credentials (a changed password, a rotated hashedPassword)
func c07SessPool() []sim.User {
	hp := func(name, secret string) string { return hex.EncodeToString(wire.HashedPassword(name, secret)) }
	return []sim.User{
		{Name: "s-alice", Password: "pw-alice"},          // 0
		{Name: "s-bob", Password: "pw-bob"},              // 1
		{Name: "s-carol", Password: "pw-carol"},          // 2
		{Name: "s-dave", HashedHex: hp("s-dave", "d-1")}, // 3  configured by hashedPassword only
		{Name: "s-bob", Password: "pw-bob-changed"},      // 4  bob re-added with another credential
		{Name: "s-dave", HashedHex: hp("s-dave", "d-2")}, // 5  ONLY dave's hashedPassword rotated
		// ONLY the quota differs (same name, same credential as 1 resp. 3): a reload between them changes
		// nothing a client can see, but a session authenticated afterwards must carry the new policy
		{Name: "s-bob", Password: "pw-bob", Quotas: []*appctlpb.Quota{{Days: proto.Int32(1), Megabytes: proto.Int32(100)}}},                                                                   // 6
		{Name: "s-bob", Password: "pw-bob", Quotas: []*appctlpb.Quota{{Days: proto.Int32(1), Megabytes: proto.Int32(200)}}},                                                                   // 7
		{Name: "s-dave", HashedHex: hp("s-dave", "d-1"), Quotas: []*appctlpb.Quota{{Days: proto.Int32(2), Megabytes: proto.Int32(50)}, {Days: proto.Int32(30), Megabytes: proto.Int32(900)}}}, // 8
	}
}

// c07SessCredTok: pool entries with the same name and credential are ONE credential for the model and
// for the oracles (the token of the first such entry)
func c07SessCredTok(pool []sim.User, i int) int {
	for j := range pool {
		if pool[j].Name == pool[i].Name && string(pool[j].Hashed()) == string(pool[i].Hashed()) {
			return j
		}
	}
	return i
}

func c07SessQuotas(u sim.User) string {
	var q [][2]int32
	for _, x := range u.Quotas {
		q = append(q, [2]int32{x.GetDays(), x.GetMegabytes()})
	}
	return fmt.Sprint(q)
}

type c07SessObs struct {
	Step     int    `json:"step"`
	Cred     int    `json:"cred"`
	Local    string `json:"local"`  // client-side local address of the session = the underlay it rides on
	Fresh    bool   `json:"fresh"`  // that underlay never carried a session before (a new connection)
	Reused   bool   `json:"reused"` // it carries a live accepted session of this client right now
	Accepted bool   `json:"accepted"`
	Name     string `json:"name"`    // UserName() of the session the server accepted
	Lookups  uint64 `json:"lookups"` // registry lookups while this dial was in progress
	Clean    bool   `json:"clean"`   // no rejected dial before it in this world (stray retransmissions add lookups)
	Policy   string `json:"policy"`  // quotas of the policy snapshot the accepted session carries
	PolName  string `json:"policy_name"`
	sid      int
	addr     int
}

var c07SessDiscarded atomic.Int64

type c07SessLive struct {
	client net.Conn
	server net.Conn
	sid    int
	addr   int
}

// c07SessionsRun drives the real endpoints and returns the observations and the model events.
func c07SessionsRun(c *core.Ctx, k c07SessCase) (obs []c07SessObs, events []string, discard string) {
	pool := c07SessPool()
	var users []sim.User
	for _, i := range k.Initial {
		users = append(users, pool[i])
	}
	w, err := sim.NewWorld(sim.Config{UDP: k.UDP, Seed: k.Seed, Users: users, Multiplex: k.Multiplex, HintMandatory: k.Mandatory})
	if err != nil {
		c.Violate("C07/sessions/setup", err.Error(), k)
		return nil, nil, "setup"
	}
	defer bgClose.Go(w.Close)
	reg := protocol.VerifServerRegistry(w.Server)
	// one client mux per pool entry (w.Cfg.Users is only used by NewClient to pick the credential)
	w.Cfg.Users = pool
	clients := make([]*protocol.Mux, len(pool))
	for i := range pool {
		cl, err := w.NewClient(i, nil)
		if err != nil {
			c.Violate("C07/sessions/setup", err.Error(), k)
			return nil, nil, "setup"
		}
		clients[i] = cl
	}
	var mu sync.Mutex
	type seen struct {
		name string
		conn net.Conn
	}
	got := map[byte]seen{}
	go func() {
		for {
			conn, err := w.Server.Accept()
			if err != nil {
				return
			}
			go func(conn net.Conn) {
				b := make([]byte, 1)
				conn.SetReadDeadline(time.Now().Add(30 * time.Second))
				if _, err := io.ReadFull(conn, b); err != nil {
					conn.Close()
					return
				}
				name := ""
				if u, ok := conn.(userNamer); ok {
					name = u.UserName()
				}
				mu.Lock()
				got[b[0]] = seen{name, conn}
				mu.Unlock()
				conn.Write([]byte{b[0]})
				conn.SetReadDeadline(time.Time{})
				io.Copy(io.Discard, conn) // the session stays open until the client closes it
				conn.Close()
			}(conn)
		}
	}()
	live := map[int][]c07SessLive{} // pool index → open sessions
	defer func() {
		for _, l := range live {
			for _, x := range l {
				x.client.Close()
			}
		}
	}()
	addrs := map[string]int{}
	registered := map[int]bool{}
	for _, i := range k.Initial {
		registered[c07SessCredTok(pool, i)] = true
	}
	tag := byte(0)
	sid := 0
	clean := true
	for si, st := range k.Steps {
		switch st.Kind {
		case "reload":
			var us []sim.User
			for _, i := range st.Users {
				us = append(us, pool[i])
			}
			w.Server.SetServerUsers(sim.PBUsers(us))
			registered = map[int]bool{}
			for _, i := range st.Users {
				registered[c07SessCredTok(pool, i)] = true
			}
			events = append(events, "R"+c07SessGen(pool, st.Users))
		case "close":
			for _, x := range live[st.Cred] {
				x.client.Close()
			}
			// the model's "gone" = the session has left the server underlay's table (the cleaning round
			// runs every 5 s); wait for it positively
			// (cleanSessions runs between two segments the event loop accepts, so a quiet server never
			// cleans: keep another user's session talking)
			deadline := time.Now().Add(30 * time.Second)
			for _, x := range live[st.Cred] {
				for n := 0; protocol.VerifSessionRegistered(x.server); n++ {
					if time.Now().After(deadline) {
						return obs, events, "server session not removed within 30 s"
					}
					if n%5 == 0 {
						for cred, l := range live {
							if cred != st.Cred && len(l) > 0 {
								l[0].client.Write([]byte{0})
								break
							}
						}
					}
					time.Sleep(100 * time.Millisecond)
				}
				events = append(events, fmt.Sprintf("G%d/%d", x.addr, x.sid))
			}
			live[st.Cred] = nil
		case "dial":
			for r := 0; r < st.Repeat; r++ {
				tag++
				o := c07SessObs{Step: si, Cred: st.Cred, Clean: clean}
				l0, _ := serveruser.VerifRegistryCounters(reg)
				ctx, cancel := context.WithTimeout(context.Background(), 20*time.Second)
				conn, err := clients[st.Cred].DialContext(ctx)
				cancel()
				if err != nil {
					return obs, events, "dial error: " + err.Error()
				}
				o.Local = conn.LocalAddr().String()
				if _, known := addrs[o.Local]; !known {
					addrs[o.Local] = len(addrs) + 1
					o.Fresh = true
				}
				o.addr = addrs[o.Local]
				for _, x := range live[st.Cred] {
					if x.addr == o.addr {
						o.Reused = true
					}
				}
				sid++
				o.sid = sid
				conn.Write([]byte{tag})
				b := make([]byte, 1)
				// a session the property (new connection, registered credential) or the documented behaviour
				// (an underlay that carries a live session) lets in gets a generous deadline; a wrongly
				// accepted one answers within milliseconds anyway
				wait := 3 * time.Second
				if registered[c07SessCredTok(pool, st.Cred)] || o.Reused {
					wait = 25 * time.Second
				}
				conn.SetReadDeadline(time.Now().Add(wait))
				_, rerr := io.ReadFull(conn, b)
				conn.SetReadDeadline(time.Time{})
				mu.Lock()
				s, ok := got[tag]
				mu.Unlock()
				l1, _ := serveruser.VerifRegistryCounters(reg)
				o.Lookups = l1 - l0
				if rerr == nil && ok {
					o.Accepted, o.Name = true, s.name
					if pn, q, ok := protocol.VerifSessionPolicy(s.conn); ok {
						o.PolName, o.Policy = pn, fmt.Sprint(q)
					} else {
						o.Policy = "none"
					}
					live[st.Cred] = append(live[st.Cred], c07SessLive{conn, s.conn, o.sid, o.addr})
				} else {
					conn.Close()
					clean = false
				}
				obs = append(obs, o)
				// the client's honest open request: sealed under its credential, hint names its user
				events = append(events, fmt.Sprintf("S%d/%d/%d/1/%d/-/0", o.addr, 100+c07SessCredTok(pool, st.Cred), c07SessNameTok(pool, st.Cred), o.sid))
			}
		}
	}
	return obs, events, ""
}

// name tokens follow the order of the names (buildState sorts by name; ids are positions)
func c07SessNameTok(pool []sim.User, i int) int {
	names := map[string]bool{}
	for _, u := range pool {
		names[u.Name] = true
	}
	var l []string
	for n := range names {
		l = append(l, n)
	}
	sort.Strings(l)
	return sort.SearchStrings(l, pool[i].Name) + 1
}

func c07SessGen(pool []sim.User, idx []int) string {
	s := append([]int(nil), idx...)
	sort.Slice(s, func(a, b int) bool { return pool[s[a]].Name < pool[s[b]].Name })
	if len(s) == 0 {
		return "-"
	}
	parts := make([]string, len(s))
	for j, i := range s {
		parts[j] = fmt.Sprintf("%d:%d", c07SessNameTok(pool, i), 100+c07SessCredTok(pool, i))
	}
	return strings.Join(parts, ",")
}

func c07SessionsCase(c *core.Ctx, k c07SessCase) {
	pool := c07SessPool()
	obs, events, discard := c07SessionsRun(c, k)
	if discard != "" {
		c07SessDiscarded.Add(1)
		c.Note("C07 sessions: case %q discarded: %s", k.Name, discard)
		return
	}
	transport := map[bool]string{true: "udp", false: "tcp"}[k.UDP]
	m := c.Model.Ask("sess-run %s %d %s %s", transport, map[bool]int{false: 0, true: 1}[k.Mandatory], c07SessGen(pool, k.Initial), strings.Join(events, " "))
	mf := strings.Fields(m)
	if len(mf) != len(events)+1 || mf[0] != "ok" {
		c.Disagree("C07/corr/sessions", fmt.Sprintf("model reply %q for %d events", m, len(events)), k)
		return
	}
	// registered set at each step, for the direct oracles
	cur := map[int]bool{}      // registered credentials (tokens)
	record := map[string]int{} // user name → pool index of the published record
	for _, i := range k.Initial {
		cur[c07SessCredTok(pool, i)] = true
		record[pool[i].Name] = i
	}
	carried := map[string]string{} // underlay (local address) → policy of the sessions it carries
	oi := 0
	// walk steps and observations together
	ei := 0
	for si, st := range k.Steps {
		switch st.Kind {
		case "reload":
			cur = map[int]bool{}
			record = map[string]int{}
			for _, i := range st.Users {
				cur[c07SessCredTok(pool, i)] = true
				record[pool[i].Name] = i
			}
			ei++
		case "close":
			for ei < len(events) && events[ei][0] == 'G' {
				ei++
			}
		case "dial":
			for oi < len(obs) && obs[oi].Step == si {
				o := obs[oi]
				mo := mf[1+ei]
				ei++
				oi++
				c.Compared()
				kind := map[bool]string{true: "reused-underlay", false: "idle-underlay"}[o.Reused]
				if o.Fresh {
					kind = "new-underlay"
				}
				isReg := cur[c07SessCredTok(pool, o.Cred)]
				regd := map[bool]string{true: "registered", false: "retired"}[isReg]
				c.Hist("c07_sessions", fmt.Sprintf("%s/%s/%s/accepted=%v", transport, kind, regd, o.Accepted))
				c.Eval(fmt.Sprintf("c07-sess/%s/%s/%d/%d/%s/%s", k.Name, transport, si, oi, kind, regd), o.Accepted)
				what := fmt.Sprintf("step %d: %s dials over %s (%s, credential %s): server accepted=%v as %q, registry lookups %d; model %s",
					si, pool[o.Cred].Name, o.Local, kind, regd, o.Accepted, o.Name, o.Lookups, mo)
				// ---- direct oracles
				if o.Accepted && o.Name != pool[o.Cred].Name {
					c.Violate("C07/sessions/attributed-to-other-user", what, k)
				}
				if o.Fresh && !isReg && o.Accepted {
					c.Violate("C07/sessions/retired-credential-new-connection", what+" — a new connection was authenticated with a credential that is no longer registered", k)
				}
				if o.Fresh && isReg && !o.Accepted {
					c.Violate("C07/sessions/registered-user-rejected", what, k)
				}
				// the POLICY the accepted session carries: a session authenticated by the registry (new
				// connection) carries the policy of the user RECORD published now — also when a reload changed
				// nothing but that record's quota; a session multiplexed into an authenticated underlay carries
				// the snapshot of that underlay's authentication (documented behaviour, see Props/C07.lean)
				if o.Accepted {
					if o.Fresh || (k.UDP && !o.Reused) { // (UDP: no live session on that ip:port ⇒ the registry ran again)
						want := c07SessQuotas(pool[record[pool[o.Cred].Name]])
						c.Hist("c07_session_policy", fmt.Sprintf("%s/new-underlay/%s", transport, map[bool]string{true: "current-record", false: "OTHER"}[o.Policy == want]))
						if o.Policy != want || o.PolName != pool[o.Cred].Name {
							c.Violate("C07/sessions/stale-policy", what+fmt.Sprintf(" — the session carries the policy %s %s, the published record of %s has quotas %s", o.PolName, o.Policy, pool[o.Cred].Name, want), k)
						}
						carried[o.Local] = o.Policy
					} else if prev, ok := carried[o.Local]; ok {
						c.Hist("c07_session_policy", fmt.Sprintf("%s/carried-underlay/%s", transport, map[bool]string{true: "snapshot-of-the-underlay", false: "OTHER"}[o.Policy == prev]))
						if o.Policy != prev {
							c.Disagree("C07/corr/sessions/policy-of-carrier", what+fmt.Sprintf(" — carries %s, the underlay was authenticated with %s", o.Policy, prev), k)
						}
					} else {
						carried[o.Local] = o.Policy
					}
				}
				// ---- the model
				if !k.UDP && !o.Fresh && !o.Reused && !o.Accepted && strings.HasPrefix(mo, "a:") {
					// an idle TCP connection may have been closed by either side's idle cleaning, which
					// the harness cannot observe
					c07SessDiscarded.Add(1)
					continue
				}
				want := "d"
				if o.Accepted {
					want = "a"
				}
				if mo[:1] != want {
					c.Disagree("C07/corr/sessions/"+transport+"/"+kind+"/"+regd, what, k)
					continue
				}
				if o.Accepted {
					f := strings.Split(mo, ":") // a:<user>:<gen>:<via>
					if len(f) != 4 || f[1] != fmt.Sprint(c07SessNameTok(pool, o.Cred)) {
						c.Disagree("C07/corr/sessions/user", what, k)
					}
					if o.Clean && len(f) == 4 && (f[3] == "1") != (o.Lookups > 0) {
						c.Disagree("C07/corr/sessions/via-discover", what+" — the model says the registry "+map[bool]string{true: "was", false: "was not"}[f[3] == "1"]+" consulted", k)
					}
				}
			}
		}
	}
}

// deterministic scenarios, run on EVERY run for both transports
func c07SessBoundary(udp bool, seed int64) []c07SessCase {
	mk := func(name string, mux int, mand bool, initial []int, steps ...c07SessStep) c07SessCase {
		return c07SessCase{Sess: true, Name: name, Seed: seed, UDP: udp, Multiplex: mux, Mandatory: mand, Initial: initial, Steps: steps}
	}
	dial := func(cred, n int) c07SessStep { return c07SessStep{Kind: "dial", Cred: cred, Repeat: n} }
	reload := func(us ...int) c07SessStep { return c07SessStep{Kind: "reload", Users: us} }
	closeS := func(cred int) c07SessStep { return c07SessStep{Kind: "close", Cred: cred} }
	out := []c07SessCase{
		// G1: bob keeps one multiplexed underlay open, the reload removes him, he dials again
		mk("g1-removed-user-keeps-underlay", 8, false, []int{0, 1, 2}, dial(1, 3), dial(0, 2), reload(0, 2), dial(1, 6), dial(0, 2)),
		// no multiplexing: every dial is a new connection
		mk("no-multiplex-removed-user", 0, false, []int{0, 1, 2}, dial(1, 2), reload(0, 2), dial(1, 2), dial(0, 1)),
		// only dave's hashedPassword is rotated (he is configured by hashedPassword only)
		mk("only-hashed-password-rotated", 0, false, []int{0, 3}, dial(3, 1), reload(0, 5), dial(3, 2), dial(5, 2), dial(0, 1)),
		mk("only-hashed-password-rotated-multiplexed", 8, true, []int{0, 3}, dial(3, 2), reload(0, 5), dial(3, 5), dial(5, 2)),
		// bob removed and re-added with another credential
		mk("user-readded-with-other-credential", 3, false, []int{0, 1}, dial(1, 2), reload(0), dial(1, 3), reload(0, 4), dial(1, 3), dial(4, 2)),
	}
	out = append(out,
		// ONLY a quota changes (names and credentials equal): new connections carry the NEW policy
		mk("only-quota-changed", 0, false, []int{0, 6}, dial(6, 1), reload(0, 7), dial(6, 2), dial(0, 1), reload(0, 1), dial(1, 1), reload(0, 6), dial(7, 1)),
		mk("only-quota-changed-multiplexed", 8, false, []int{0, 6, 3}, dial(6, 2), dial(3, 1), reload(0, 7, 8), dial(6, 5), dial(3, 4)),
		mk("quota-added-to-hashed-user", 0, true, []int{0, 3}, dial(3, 1), reload(0, 8), dial(3, 2), reload(0, 3), dial(8, 1)),
	)
	if udp {
		// … and once bob's sessions are gone from the server's table the same ip:port is refused too
		out = append(out, mk("g1-dies-out-with-the-last-session", 8, false, []int{0, 1}, dial(0, 1), dial(1, 2), reload(0), dial(1, 3), closeS(1), dial(1, 3), dial(0, 1)))
	}
	return out
}

func init() {
	core.RegisterExtra("C07", func(c *core.Ctx) {
		c.Correspondence("sess-run: sessions over multiplexed underlays with reloads (UserName(), accepted or not, registry consulted or not) vs Mieru.Session.udpOuts / tcpOuts, TCP and UDP")
		var cases []c07SessCase
		for _, udp := range []bool{false, true} {
			cases = append(cases, c07SessBoundary(udp, c.Rand.Int63())...)
		}
		for i := 0; i < c.N(4, 40); i++ {
			k := c07SessCase{Sess: true, Name: fmt.Sprintf("random-%d", i), Seed: c.Rand.Int63(), UDP: i%2 == 1, Multiplex: []int{1, 3, 8}[c.Rand.Intn(3)], Mandatory: c.Rand.Intn(3) == 0, Initial: []int{0, 1, 2, 3}}
			cur := []int{0, 1, 2, 3}
			for j := 0; j < 6+c.Rand.Intn(5); j++ {
				switch c.Rand.Intn(4) {
				case 0:
					var next []int
					for _, alt := range [][]int{{0}, {1, 4, 6, 7}, {2}, {3, 5, 8}} {
						if c.Rand.Intn(4) != 0 {
							next = append(next, alt[c.Rand.Intn(len(alt))])
						}
					}
					if len(next) == 0 {
						next = []int{0}
					}
					k.Steps = append(k.Steps, c07SessStep{Kind: "reload", Users: next})
					cur = next
				default:
					cred := c.Rand.Intn(9)
					if c.Rand.Intn(2) == 0 {
						cred = cur[c.Rand.Intn(len(cur))]
					}
					k.Steps = append(k.Steps, c07SessStep{Kind: "dial", Cred: cred, Repeat: 1 + c.Rand.Intn(3)})
				}
			}
			cases = append(cases, k)
		}
		c.Sample(cases[0])
		core.Parallel(len(cases), 8, func(i int) { c07SessionsCase(c, cases[i]) })
		c.Res.Discarded += int(c07SessDiscarded.Swap(0))
		bgClose.Wait(30 * time.Second)
	})
	core.RegisterReplay("C07", func(c *core.Ctx, raw json.RawMessage) bool {
		var k c07SessCase
		if json.Unmarshal(raw, &k) != nil || !k.Sess {
			return false
		}
		c07SessionsCase(c, k)
		bgClose.Wait(30 * time.Second)
		return true
	})
}
