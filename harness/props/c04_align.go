package props

import (
	"bytes"
	"context"
	"encoding/json"
	"fmt"
	"math/rand"
	"net"
	"os"
	"sort"
	"strings"
	"sync"
	"time"

	"verifharness/core"
	"verifharness/sim"
	"verifharness/wire"
)

// C04, stream transport, round 3: receivers ALIGNED to something else than their own stream.
//
// One key seals both directions of every connection of a user and the receiver takes its initial
// nonce from the wire in clear text, so an on-path attacker can start a receiver
//
//	tcp-swap32          on the PAYLOAD nonce of a segment whose 32-byte payload is itself a valid metadata
//	                    block (Props/C04 tcp_payload_as_metadata_counterexample)
//	tcp-reflect-aligned on the first byte of the REVERSE direction's stream (its own nonce)
//	tcp-splice-aligned  on the first byte of ANOTHER connection's stream of the same user
//
// (Props/C04 tcp_tamper_key_history, tcp_aligned_reflection_splice). Every scenario runs real
// protocol.Mux endpoints; the applications' reads are compared with what their peers wrote (direct
// oracle: every reader gets a prefix of what ITS peer session wrote) and with the model's prediction
// (driver op c04-tcpk: drainG + lePayOpen + underlayCut + sessionRead with the table AEAD of every
// stream the key sealed in the scenario).

// ------------------------------------------------------------------------------------------------
// tap: a StreamFilter that records and re-frames every direction of every connection and lets a rule
// decide what is forwarded

type c04TapDir struct {
	conn   int
	c2s    bool
	dec    *wire.StreamDecoder
	pend   []byte
	units  []*c04Unit
	ends   []int  // ends[i] = offset in raw of the end of unit i
	raw    []byte // every genuine byte written so far
	cursor int    // rule-private: how much of SOME source has been forwarded on this direction
	fired  bool   // rule-private
}

type c04Tap struct {
	mu     sync.Mutex
	keys   [][]byte
	dirs   map[[2]int]*c04TapDir
	ignore map[int]bool // connections made by the scenario itself (injected bytes): passed through, not decoded
	rule   func(t *c04Tap, d *c04TapDir, b []byte) []byte
	broken string
	note   string
}

func newC04Tap(keys [][]byte) *c04Tap {
	return &c04Tap{keys: keys, dirs: map[[2]int]*c04TapDir{}, ignore: map[int]bool{}}
}

func (t *c04Tap) dir(conn int, c2s bool) *c04TapDir {
	key := [2]int{conn, 0}
	if c2s {
		key[1] = 1
	}
	d := t.dirs[key]
	if d == nil {
		d = &c04TapDir{conn: conn, c2s: c2s, dec: &wire.StreamDecoder{Keys: t.keys}}
		t.dirs[key] = d
	}
	return d
}

func (t *c04Tap) filter(conn int, c2s bool, off int64, b []byte) []byte {
	t.mu.Lock()
	defer t.mu.Unlock()
	if t.ignore[conn] {
		return b
	}
	d := t.dir(conn, c2s)
	d.raw = append(d.raw, b...)
	if d.dec.Err == nil {
		d.pend = append(d.pend, b...)
		for _, s := range d.dec.Feed(b) {
			u := &c04Unit{Raw: append([]byte(nil), d.pend[:s.WireLen]...), Seg: s, HasNonce: len(d.units) == 0, Index: len(d.units)}
			d.pend = d.pend[s.WireLen:]
			prev := 0
			if len(d.ends) > 0 {
				prev = d.ends[len(d.ends)-1]
			}
			d.units = append(d.units, u)
			d.ends = append(d.ends, prev+s.WireLen)
		}
		if d.dec.Err != nil && t.broken == "" {
			t.broken = fmt.Sprintf("conn %d c2s=%v: %v", conn, c2s, d.dec.Err)
		}
	}
	if t.rule == nil {
		return b
	}
	return t.rule(t, d, b)
}

// sealsBefore is the number of AEAD operations the sender did before unit i of the direction.
func (d *c04TapDir) sealsBefore(i int) int {
	n := 0
	for _, u := range d.units[:i] {
		n += u.seals()
	}
	return n
}

// tables renders every recorded stream for the driver op c04-tcpk: `S <nonce> units…`, per unit
// `<metaPT> <metaCT>` and, with a payload, `<payPT> <payCT>` (low entropy: the decoded body + tag).
func (t *c04Tap) tables() []string {
	t.mu.Lock()
	defer t.mu.Unlock()
	var keys [][2]int
	for k := range t.dirs {
		keys = append(keys, k)
	}
	sort.Slice(keys, func(i, j int) bool {
		return keys[i][0] < keys[j][0] || (keys[i][0] == keys[j][0] && keys[i][1] > keys[j][1])
	})
	var out []string
	for _, k := range keys {
		d := t.dirs[k]
		if len(d.units) == 0 {
			continue
		}
		out = append(out, "S", core.Hex(d.units[0].Raw[:24]))
		for _, u := range d.units {
			out = append(out, c04HonestUDP(u)...) // same rendering: (metaPT, metaCT[, payPT, payCT as the AEAD produced it])
		}
	}
	return out
}

// sids returns the session ids named by any recorded unit (plus extra).
func (t *c04Tap) sids(extra ...uint32) []uint32 {
	t.mu.Lock()
	defer t.mu.Unlock()
	seen := map[uint32]bool{}
	var out []uint32
	add := func(x uint32) {
		if !seen[x] {
			seen[x] = true
			out = append(out, x)
		}
	}
	for _, d := range t.dirs {
		for _, u := range d.units {
			add(u.Seg.SessionID)
		}
	}
	for _, x := range extra {
		add(x)
	}
	sort.Slice(out, func(i, j int) bool { return out[i] < out[j] })
	return out
}

// ------------------------------------------------------------------------------------------------
// the applications of the aligned scenarios

// c04Peer records what one application end wrote and read.
type c04Peer struct {
	mu    sync.Mutex
	name  string
	wrote []byte
	read  []byte
	rerr  string
	werr  string
}

func (p *c04Peer) write(conn net.Conn, b []byte) bool {
	conn.SetWriteDeadline(time.Now().Add(5 * time.Second))
	n, err := conn.Write(b)
	p.mu.Lock()
	defer p.mu.Unlock()
	if n > 0 {
		p.wrote = append(p.wrote, b[:n]...)
	}
	if err != nil {
		p.werr = err.Error()
		return false
	}
	return true
}

// readAll reads until an error, EOF or `quiet` without a byte (total at most `bound`).
func (p *c04Peer) readAll(conn net.Conn, quiet, bound time.Duration, wg *sync.WaitGroup) {
	defer wg.Done()
	buf := make([]byte, 65536)
	end := time.Now().Add(bound)
	for time.Now().Before(end) {
		conn.SetReadDeadline(time.Now().Add(quiet))
		n, err := conn.Read(buf)
		p.mu.Lock()
		if n > 0 {
			p.read = append(p.read, buf[:n]...)
		}
		if err != nil {
			p.rerr = err.Error()
			p.mu.Unlock()
			return
		}
		p.mu.Unlock()
	}
}

func (p *c04Peer) snapshot() (wrote, read []byte) {
	p.mu.Lock()
	defer p.mu.Unlock()
	return append([]byte(nil), p.wrote...), append([]byte(nil), p.read...)
}

func c04Fill(seed int64, who, n, off int) []byte {
	b := make([]byte, n)
	sim.FillStream(b, seed, who, who%2, off)
	return b
}

// c04Server accepts sessions until the world closes; every accepted session writes `writes(idx)` chunks
// (paced) and records what it reads.
type c04Server struct {
	mu    sync.Mutex
	peers []*c04Peer
	wg    sync.WaitGroup
}

func (s *c04Server) run(w *sim.World, seed int64, sizes []int, gap time.Duration, craft func(idx, i int, def []byte) []byte, quiet, bound time.Duration) {
	go func() {
		for {
			conn, err := w.Server.Accept()
			if err != nil {
				return
			}
			s.mu.Lock()
			idx := len(s.peers)
			p := &c04Peer{name: fmt.Sprintf("server application, accepted session #%d", idx)}
			s.peers = append(s.peers, p)
			s.wg.Add(2)
			s.mu.Unlock()
			go p.readAll(conn, quiet, bound, &s.wg)
			go func() {
				defer s.wg.Done()
				off := 0
				for i, n := range sizes {
					b := c04Fill(seed, 101+2*idx, n, off)
					off += n
					if craft != nil {
						b = craft(idx, i, b)
					}
					if !p.write(conn, b) {
						return
					}
					time.Sleep(gap)
				}
			}()
		}
	}()
}

func (s *c04Server) snapshot() []*c04Peer {
	s.mu.Lock()
	defer s.mu.Unlock()
	return append([]*c04Peer(nil), s.peers...)
}

func isPrefix(a, b []byte) bool { return len(a) <= len(b) && bytes.Equal(a, b[:len(a)]) }

func firstDiff(a, b []byte) int {
	for i := range a {
		if i >= len(b) || a[i] != b[i] {
			return i
		}
	}
	return -1
}

// ------------------------------------------------------------------------------------------------
// the scenarios

func c04AlignKey(k c04Case) string {
	switch k.Special {
	case "tcp-swap32":
		return "C04/tcp/payload-opened-as-metadata"
	case "tcp-reflect-aligned":
		return "C04/tcp/aligned-reflection-delivered"
	case "tcp-splice-aligned":
		return "C04/tcp/aligned-splice-delivered"
	case "tcp-mux-cut":
		return "C04/tcp/multiplexed-prefix-cut-delivered"
	}
	return "C04/tcp/" + k.Special
}

// variants (k.Mut.Param):
//
//	tcp-swap32           0 client→server, the crafted chunk is the client's FIRST write (payload of the open request)
//	                     1 client→server, a later write (payload of a data segment), forged as an open request
//	                     2 server→client, a later write, forged as data (session id of the client's session, sequence number 0)
//	                     3 server→client, forged as an open response
//	                     4 as 0 against a server with userHintIsMandatory (the advanced nonce fails the hint check)
//	tcp-reflect-aligned  0 the client receives its own client→server stream from its first byte
//	                     1 a new connection to the server carries the server→client stream from its first byte
//	                       (the client never saw it: nothing is in any replay cache)
//	                     2 as 1, but the client did receive the stream (same process: the replay cache has the nonce)
//	tcp-splice-aligned   0 two connections of one user, client→server streams exchanged from the first byte
//	                     1 connection 1 carries a COPY of connection 0's client→server stream (the server sees that nonce twice)
//	                     2 connection 1's client receives a copy of connection 0's server→client stream
//	tcp-mux-cut          two sessions multiplexed on ONE connection; the client→server stream is cut with the nonce advanced
//	                     0 in front of the SECOND session's open request (that session is delivered completely, the first
//	                       one not at all: the per-session filter, and a server session exists from its open request on)
//	                     1 one unit earlier, in front of a data segment (first-segment validation: nothing is delivered)
func c04RunAlign(c *core.Ctx, k c04Case) {
	key, _ := json.Marshal(k)
	cfg := sim.Config{UDP: false, MTU: k.MTU, Seed: k.Seed, ClientPattern: patFromJSON(k.ClientPattern), ServerPattern: patFromJSON(k.ServerPattern)}
	// variant 4 of tcp-swap32: the server demands the user hint (last 4 nonce bytes = SHA-256(user ‖ first 16
	// nonce bytes)[:4]); an advanced nonce no longer carries it
	cfg.HintMandatory = k.Special == "tcp-swap32" && k.Mut.Param == 4
	if k.Special == "tcp-mux-cut" {
		cfg.Multiplex = 3
	}
	w, err := sim.NewWorld(cfg)
	if err != nil {
		c.Eval(string(key), false)
		c.Violate("C04/setup", "endpoints failed before the scenario could run: "+err.Error(), k)
		return
	}
	defer bgClose.Go(w.Close)
	c.Res.TracesValidated++
	c.Hist("transport", "tcp")
	c.Hist("kind", k.Mut.Kind)
	c.Hist("class", k.Mut.Class)
	c.Hist("pattern", k.PatternName)
	c.Hist("align_variant", fmt.Sprintf("%s/%d", k.Special, k.Mut.Param))
	tap := newC04Tap(w.AllKeys())
	w.Net.StreamFilter = tap.filter
	r := &c04AlignRun{c: c, k: k, w: w, tap: tap, srv: &c04Server{}}
	switch k.Special {
	case "tcp-swap32":
		r.swap32()
	case "tcp-reflect-aligned":
		r.reflect()
	case "tcp-splice-aligned":
		r.splice()
	case "tcp-mux-cut":
		r.muxcut()
	default:
		c.Eval(string(key), false)
		return
	}
	c.Eval(string(key), r.applied)
	if !r.applied {
		c.Hist("branch", "mutation-not-applicable")
		if os.Getenv("VH_DEBUG") != "" {
			fmt.Fprintf(os.Stderr, "c04 align %s/%d NOT APPLIED: %s\n", k.Special, k.Mut.Param, r.why)
		}
		return
	}
	r.judge()
}

type c04AlignRun struct {
	c       *core.Ctx
	k       c04Case
	w       *sim.World
	tap     *c04Tap
	srv     *c04Server
	clients []*c04Peer
	cconns  []net.Conn
	applied bool
	why     string
	// which receiver got the crafted stream: (connection id, is the receiver the client end)
	rxConn     int
	rxIsClient bool
	extraSids  []uint32
	chunk      []byte // swap32: the crafted 32-byte chunk
	expectMeta []byte // swap32: the genuine metadata plaintext that follows the chunk on the wire
}

const (
	c04AlignQuiet = 1500 * time.Millisecond
	c04AlignBound = 6 * time.Second
)

func (r *c04AlignRun) dial(mux interface {
	DialContext(context.Context) (net.Conn, error)
}, name string) (net.Conn, *c04Peer, error) {
	ctx, cancel := context.WithTimeout(context.Background(), 10*time.Second)
	defer cancel()
	conn, err := mux.DialContext(ctx)
	if err != nil {
		return nil, nil, err
	}
	p := &c04Peer{name: name}
	r.clients = append(r.clients, p)
	r.cconns = append(r.cconns, conn)
	return conn, p, nil
}

// waitFor polls cond (under the tap's lock) until it holds or the bound expires.
func (r *c04AlignRun) waitFor(bound time.Duration, cond func() bool) bool {
	end := time.Now().Add(bound)
	for time.Now().Before(end) {
		r.tap.mu.Lock()
		ok := cond()
		r.tap.mu.Unlock()
		if ok {
			return true
		}
		time.Sleep(5 * time.Millisecond)
	}
	return false
}

func (r *c04AlignRun) swap32() {
	k, tap := r.k, r.tap
	v := k.Mut.Param
	c2s := v == 0 || v == 1 || v == 4
	forgedSid := uint32(0x5a17c0de)
	now := func() uint32 { return uint32(time.Now().Unix() / 60) }
	// the rule: hold the target direction of connection 0 back until the unit that carries the chunk
	// and the unit after it are complete; then emit `nonce0 + (seals before that payload)`, the payload's
	// ciphertext + tag (its end padding is cut) and the next unit's metadata ciphertext + tag
	tap.rule = func(t *c04Tap, d *c04TapDir, b []byte) []byte {
		if d.conn != 0 || d.c2s != c2s {
			return b
		}
		if d.fired {
			// everything after the next unit's metadata stays withheld: the receiver waits for bytes
			// instead of failing on the next open, so the delivery below is not raced by a teardown
			return nil
		}
		if r.chunk == nil {
			return nil
		}
		for i, u := range d.units {
			if u.Seg.PayloadLen == 32 && bytes.Equal(u.Seg.Payload, r.chunk) && i+1 < len(d.units) {
				l := u.layout()
				ks := d.sealsBefore(i) + 1
				out := append([]byte(nil), addToNonce(d.units[0].Raw[:24], ks)...)
				out = append(out, u.Raw[l["payload-ct"].lo:l["payload-tag"].hi]...)
				out = append(out, d.raw[d.ends[i]:d.ends[i]+48]...) // the next unit's metadata ciphertext + tag
				d.cursor = len(d.raw)
				d.fired = true
				r.applied = true
				r.expectMeta = d.units[i+1].Seg.Meta.Bytes()
				t.note = fmt.Sprintf("unit %d of %d, %d seals before its payload, unit type %d, next unit type %d", i, len(d.units), ks, u.Seg.Proto, d.units[i+1].Seg.Proto)
				return out
			}
		}
		return nil
	}
	r.rxConn, r.rxIsClient = 0, !c2s
	r.extraSids = []uint32{forgedSid}
	seed := k.Seed
	serverSizes := []int{1500, 32, 700, 300}
	var sidMu sync.Mutex
	var clientSid uint32
	craftS := func(idx, i int, def []byte) []byte {
		if c2s || i != 1 {
			return def
		}
		var sid uint32
		for end := time.Now().Add(4 * time.Second); time.Now().Before(end); time.Sleep(5 * time.Millisecond) {
			sidMu.Lock()
			sid = clientSid
			sidMu.Unlock()
			if sid != 0 {
				break
			}
		}
		m := wire.Meta{Proto: wire.DataServerToClient, Timestamp: now(), SessionID: sid, Seq: 0, UnAck: 0, Window: 4096, PayloadLen: 32}
		if v == 3 {
			m = wire.Meta{Proto: wire.OpenSessionResponse, Timestamp: now(), SessionID: sid, Seq: 0, PayloadLen: 32}
		}
		tap.mu.Lock()
		r.chunk = m.Bytes()
		tap.mu.Unlock()
		return r.chunk
	}
	if c2s {
		serverSizes = []int{200, 300}
	}
	r.srv.run(r.w, seed, serverSizes, 30*time.Millisecond, craftS, c04AlignQuiet, c04AlignBound)
	conn, p, err := r.dial(r.w.Client, "client application")
	if err != nil {
		r.why = "dial: " + err.Error()
		return
	}
	var wg sync.WaitGroup
	wg.Add(1)
	go func() {
		if !c2s {
			// the client's reader starts its silence clock when the crafted stream has been released
			r.waitFor(c04AlignBound, func() bool { return tap.dir(0, false).fired })
		}
		p.readAll(conn, c04AlignQuiet, c04AlignBound, &wg)
	}()
	mkChunk := func() []byte {
		m := wire.Meta{Proto: wire.OpenSessionRequest, Timestamp: now(), SessionID: forgedSid, Seq: 0, PayloadLen: 32}
		tap.mu.Lock()
		r.chunk = m.Bytes()
		tap.mu.Unlock()
		return r.chunk
	}
	switch v {
	case 0, 4:
		p.write(conn, mkChunk())
		time.Sleep(20 * time.Millisecond)
		p.write(conn, c04Fill(seed, 0, 700, 0))
		time.Sleep(20 * time.Millisecond)
		p.write(conn, c04Fill(seed, 0, 300, 700))
	case 1:
		p.write(conn, c04Fill(seed, 0, 1500, 0))
		time.Sleep(20 * time.Millisecond)
		p.write(conn, mkChunk())
		time.Sleep(20 * time.Millisecond)
		p.write(conn, c04Fill(seed, 0, 700, 1500))
		time.Sleep(20 * time.Millisecond)
		p.write(conn, c04Fill(seed, 0, 300, 2200))
	default:
		// the server application needs the client's session id (an attacker who controls the 32 bytes
		// has to guess it: 2^-32; the harness reads it off the wire)
		p.write(conn, c04Fill(seed, 0, 400, 0))
		if !r.waitFor(5*time.Second, func() bool {
			d := tap.dir(0, true)
			if len(d.units) == 0 {
				return false
			}
			sidMu.Lock()
			clientSid = d.units[0].Seg.SessionID
			sidMu.Unlock()
			return true
		}) {
			r.why = "the client's open request never appeared on the wire"
		}
		p.write(conn, c04Fill(seed, 0, 300, 400))
	}
	wg.Wait()
	r.srv.wg.Wait()
	if !r.applied && r.why == "" {
		r.why = "the unit carrying the crafted chunk (or the unit after it) never appeared on the wire"
	}
}

func (r *c04AlignRun) reflect() {
	k, tap := r.k, r.tap
	v := k.Mut.Param
	seed := k.Seed
	switch v {
	case 0:
		// the client's receiver is fed the client→server stream of its own connection
		tap.rule = func(t *c04Tap, d *c04TapDir, b []byte) []byte {
			if d.conn != 0 || d.c2s {
				return b
			}
			src := t.dir(0, true)
			out := append([]byte(nil), src.raw[d.cursor:]...)
			d.cursor = len(src.raw)
			if len(out) > 0 {
				r.applied = true
			}
			return out
		}
		r.rxConn, r.rxIsClient = 0, true
	default:
		// the server→client stream is recorded (variant 1: and withheld from the client)
		tap.rule = func(t *c04Tap, d *c04TapDir, b []byte) []byte {
			if d.conn != 0 || d.c2s || v == 2 {
				return b
			}
			return nil
		}
		r.rxConn, r.rxIsClient = 1, false
	}
	r.srv.run(r.w, seed, []int{600, 900, 1200, 300, 800}, 40*time.Millisecond, nil, c04AlignQuiet, c04AlignBound)
	conn, p, err := r.dial(r.w.Client, "client application")
	if err != nil {
		r.why = "dial: " + err.Error()
		return
	}
	var wg sync.WaitGroup
	wg.Add(1)
	go p.readAll(conn, c04AlignQuiet, c04AlignBound, &wg)
	off := 0
	for _, n := range []int{500, 1100, 700, 400} {
		p.write(conn, c04Fill(seed, 0, n, off))
		off += n
		time.Sleep(40 * time.Millisecond)
	}
	if v != 0 {
		// wait until the server has written a few units, then replay its stream on a new connection
		if !r.waitFor(5*time.Second, func() bool { return len(tap.dir(0, false).units) >= 3 }) {
			r.why = "the server→client stream never got three units long"
			wg.Wait()
			r.srv.wg.Wait()
			return
		}
		time.Sleep(100 * time.Millisecond)
		tap.mu.Lock()
		stream := append([]byte(nil), tap.dir(0, false).raw...)
		tap.ignore[1] = true
		tap.mu.Unlock()
		cc, _, err := r.w.Net.DialPair(c03ServerAddr)
		if err != nil {
			r.why = "raw dial: " + err.Error()
		} else {
			cc.Write(stream)
			r.applied = true
			go func() { time.Sleep(c04AlignBound); cc.Close() }()
		}
	}
	wg.Wait()
	r.srv.wg.Wait()
}

func (r *c04AlignRun) splice() {
	k, tap := r.k, r.tap
	v := k.Mut.Param
	seed := k.Seed
	switch v {
	case 0:
		tap.rule = func(t *c04Tap, d *c04TapDir, b []byte) []byte {
			if !d.c2s || d.conn > 1 {
				return b
			}
			src := t.dir(1-d.conn, true)
			out := append([]byte(nil), src.raw[d.cursor:]...)
			d.cursor = len(src.raw)
			if d.conn == 1 && len(out) > 0 {
				r.applied = true
			}
			return out
		}
		r.rxConn, r.rxIsClient = 1, false
	case 1:
		tap.rule = func(t *c04Tap, d *c04TapDir, b []byte) []byte {
			if !d.c2s || d.conn != 1 {
				return b
			}
			src := t.dir(0, true)
			out := append([]byte(nil), src.raw[d.cursor:]...)
			d.cursor = len(src.raw)
			if len(out) > 0 {
				r.applied = true
			}
			return out
		}
		r.rxConn, r.rxIsClient = 1, false
	default:
		tap.rule = func(t *c04Tap, d *c04TapDir, b []byte) []byte {
			if d.c2s || d.conn != 1 {
				return b
			}
			src := t.dir(0, false)
			out := append([]byte(nil), src.raw[d.cursor:]...)
			d.cursor = len(src.raw)
			if len(out) > 0 {
				r.applied = true
			}
			return out
		}
		r.rxConn, r.rxIsClient = 1, true
	}
	r.srv.run(r.w, seed, []int{600, 900, 1200, 300, 800}, 40*time.Millisecond, nil, c04AlignQuiet, c04AlignBound)
	second, err := r.w.NewClient(0, patFromJSON(k.ClientPattern))
	if err != nil {
		r.why = "second client: " + err.Error()
		return
	}
	var wg sync.WaitGroup
	muxes := []interface {
		DialContext(context.Context) (net.Conn, error)
	}{r.w.Client, second}
	var conns []net.Conn
	var peers []*c04Peer
	for i, m := range muxes {
		conn, p, err := r.dial(m, fmt.Sprintf("client application of connection %d", i))
		if err != nil {
			r.why = "dial: " + err.Error()
			return
		}
		conns, peers = append(conns, conn), append(peers, p)
		wg.Add(1)
		go p.readAll(conn, c04AlignQuiet, c04AlignBound, &wg)
		// the first write makes the connection (connection ids follow the order of the dials)
		p.write(conn, c04Fill(seed, 2*i, 500, 0))
		if !r.waitFor(5*time.Second, func() bool { return len(tap.dir(i, true).raw) > 0 }) {
			r.why = fmt.Sprintf("connection %d never wrote", i)
			return
		}
	}
	off := 500
	for _, n := range []int{1100, 700, 400, 250, 900} {
		for i := range conns {
			peers[i].write(conns[i], c04Fill(seed, 2*i, n, off))
		}
		off += n
		time.Sleep(40 * time.Millisecond)
	}
	wg.Wait()
	r.srv.wg.Wait()
}

func (r *c04AlignRun) muxcut() {
	k, tap := r.k, r.tap
	v := k.Mut.Param
	seed := k.Seed
	// index of the second session's open request among the client→server units of connection 0
	second := func(d *c04TapDir) int {
		if len(d.units) == 0 {
			return -1
		}
		first := d.units[0].Seg.SessionID
		for i, u := range d.units {
			if u.Seg.Proto == wire.OpenSessionRequest && u.Seg.SessionID != first {
				return i
			}
		}
		return -1
	}
	tap.rule = func(t *c04Tap, d *c04TapDir, b []byte) []byte {
		if d.conn != 0 || !d.c2s {
			return b
		}
		if d.fired {
			out := append([]byte(nil), d.raw[d.cursor:]...)
			d.cursor = len(d.raw)
			return out
		}
		j := second(d)
		if j < 2 || len(d.units) < j+3 {
			return nil
		}
		if v == 1 {
			j--
		}
		out := append([]byte(nil), addToNonce(d.units[0].Raw[:24], d.sealsBefore(j))...)
		out = append(out, d.raw[d.ends[j-1]:]...)
		d.cursor = len(d.raw)
		d.fired = true
		r.applied = true
		t.note = fmt.Sprintf("stream cut in front of unit %d (type %d, session %d) of %d, %d seals removed", j, d.units[j].Seg.Proto, d.units[j].Seg.SessionID, len(d.units), d.sealsBefore(j))
		return out
	}
	r.rxConn, r.rxIsClient = 0, false
	r.srv.run(r.w, seed, []int{300, 500}, 40*time.Millisecond, nil, c04AlignQuiet, c04AlignBound)
	var wg sync.WaitGroup
	var conns []net.Conn
	var peers []*c04Peer
	// open requests seen so far: (on connection 0, on any connection) — call with the tap's lock held
	opens := func() (int, int) {
		on0, all := 0, 0
		for _, d := range tap.dirs {
			if !d.c2s {
				continue
			}
			for _, u := range d.units {
				if u.Seg.Proto == wire.OpenSessionRequest {
					all++
					if d.conn == 0 {
						on0++
					}
				}
			}
		}
		return on0, all
	}
	// the client multiplexes at random: dial until a second session shares connection 0 (sessions that got a
	// connection of their own stay idle)
	for i, tries := 0, 0; i < 2 && tries < 8; tries++ {
		conn, p, err := r.dial(r.w.Client, fmt.Sprintf("client application of session %d", tries))
		if err != nil {
			r.why = "dial: " + err.Error()
			return
		}
		wg.Add(1)
		go p.readAll(conn, c04AlignQuiet, c04AlignBound, &wg)
		tap.mu.Lock()
		on0, all := opens()
		tap.mu.Unlock()
		p.write(conn, c04Fill(seed, 2*tries, 1500, 0))
		var now0 int
		if !r.waitFor(3*time.Second, func() bool {
			a, b := opens()
			now0 = a
			return b > all
		}) {
			r.why = "a session's open request never appeared on the wire"
			break
		}
		if now0 == on0 {
			continue // this session got a connection of its own
		}
		conns, peers = append(conns, conn), append(peers, p)
		if i == 0 {
			p.write(conn, c04Fill(seed, 0, 700, 1500))
			time.Sleep(30 * time.Millisecond)
		}
		i++
	}
	if len(conns) < 2 {
		r.why = "no second session was multiplexed onto the first connection in 8 dials"
		tap.mu.Lock()
		tap.rule = nil
		tap.mu.Unlock()
		wg.Wait()
		r.srv.wg.Wait()
		return
	}
	second2 := len(r.clients) - 1
	offs := []int{2200, 1500}
	who := []int{0, 2 * second2}
	for _, n := range []int{400, 900, 250} {
		for i := range conns {
			peers[i].write(conns[i], c04Fill(seed, who[i], n, offs[i]))
			offs[i] += n
		}
		time.Sleep(30 * time.Millisecond)
	}
	wg.Wait()
	r.srv.wg.Wait()
	if !r.applied && r.why == "" {
		r.why = "the second session's open request (and two units after it) never appeared on the wire"
	}
}

// judge: direct oracle + model comparison
func (r *c04AlignRun) judge() {
	c, k := r.c, r.k
	servers := r.srv.snapshot()
	type stream struct {
		who   string
		bytes []byte
	}
	var cw, sw []stream
	for _, p := range r.clients {
		wrote, _ := p.snapshot()
		cw = append(cw, stream{p.name, wrote})
	}
	for _, p := range servers {
		wrote, _ := p.snapshot()
		sw = append(sw, stream{p.name, wrote})
	}
	debug := os.Getenv("VH_DEBUG") != ""
	if debug {
		fmt.Fprintf(os.Stderr, "c04 align %s/%d pattern=%s applied=%v note=%q\n", k.Special, k.Mut.Param, k.PatternName, r.applied, r.tap.note)
	}
	// every reader gets a prefix of what SOME peer application wrote …
	check := func(p *c04Peer, cands []stream, side string) (matched int) {
		_, read := p.snapshot()
		if debug {
			fmt.Fprintf(os.Stderr, "   %s: read %d bytes (err %q) first bytes %x\n", p.name, len(read), p.rerr, read[:min(len(read), 32)])
		}
		if len(read) == 0 {
			return -1
		}
		best, bestAt := -1, -1
		for i, cand := range cands {
			if isPrefix(read, cand.bytes) {
				return i
			}
			if d := firstDiff(read, cand.bytes); d > bestAt {
				best, bestAt = i, d
			}
		}
		what := fmt.Sprintf("tcp %s, %s variant %d (%s): the %s read %d bytes that are not a prefix of what any %s application wrote", k.PatternName, k.Special, k.Mut.Param, r.tap.note, p.name, len(read), side)
		if best >= 0 {
			what += fmt.Sprintf(" (closest: %s, byte %d differs)", cands[best].who, bestAt)
		}
		if r.expectMeta != nil {
			at := bestAt
			if at < 0 {
				at = 0
			}
			if at+32 <= len(read) && bytes.Equal(read[at:at+32], r.expectMeta) {
				what += fmt.Sprintf("; bytes %d..%d are exactly the 32 bytes of the NEXT segment's genuine metadata plaintext %x, where the sender wrote the crafted chunk %x — the receiver was started on the payload's nonce and opened the chunk's ciphertext as metadata", at, at+32, r.expectMeta, r.chunk)
			}
		}
		c.Violate(c04AlignKey(k), what, k)
		return -2
	}
	var serverRead, clientRead int
	pair := map[int]int{} // client index → accepted session whose reads are a prefix of that client's writes
	for ai, p := range servers {
		m := check(p, cw, "client")
		_, read := p.snapshot()
		serverRead += len(read)
		if m >= 0 {
			pair[m] = ai
		}
	}
	for ci, p := range r.clients {
		m := check(p, sw, "server")
		_, read := p.snapshot()
		if r.rxIsClient && ci == r.rxConn {
			clientRead = len(read)
		}
		// … and of what ITS peer session wrote: the accepted session that read this client's bytes
		if m >= 0 {
			if ai, ok := pair[ci]; ok && ai != m {
				c.Violate(c04AlignKey(k), fmt.Sprintf("tcp %s, %s variant %d: the %s read %d bytes written by accepted session #%d, but its own bytes were read by accepted session #%d: data of another session", k.PatternName, k.Special, k.Mut.Param, p.name, len(read), m, ai), k)
			}
		}
	}
	if c.Model == nil {
		return
	}
	if r.tap.broken != "" {
		c.Disagree("C04/corr/wire-undecodable", "reference codec lost track of a genuine stream: "+r.tap.broken, k)
		return
	}
	// model: the bytes the receiver under test was given, against the table of every stream of the key
	r.w.Net.Lock()
	caps := r.w.Net.Streams
	r.w.Net.Unlock()
	if r.rxConn >= len(caps) {
		return
	}
	c2sB, s2cB, _, _ := caps[r.rxConn].Snapshot()
	given := c2sB
	if r.rxIsClient {
		given = s2cB
	}
	if len(given) < 24 {
		return
	}
	tbl := strings.Join(r.tap.tables(), " ")
	ic := 0
	if r.rxIsClient {
		ic = 1
	}
	predicted, dead, events := 0, "", ""
	askSids := r.tap.sids(r.extraSids...)
	if r.rxIsClient {
		// a client underlay knows the sessions it dialed: the reader under test is the one of its own session
		r.tap.mu.Lock()
		own := r.tap.dir(r.rxConn, true)
		if len(own.units) > 0 {
			askSids = []uint32{own.units[0].Seg.SessionID}
		}
		r.tap.mu.Unlock()
	}
	for _, sid := range askSids {
		c.Compared()
		reply := c.Model.Ask("c04-tcpk %d %d %s %s", ic, sid, core.Hex(given), tbl)
		f := strings.Fields(reply)
		if len(f) < 5 || f[0] != "ok" {
			c.Disagree("C04/corr/tcpk-model-error", "model reply: "+reply, k)
			return
		}
		var n int
		fmt.Sscanf(f[4], "%d", &n)
		predicted += n
		dead, events = f[1], f[2]
	}
	got := serverRead
	if r.rxIsClient {
		got = clientRead
	} else {
		// the server's other connections deliver their own (genuine) streams: add the model's verdict for them
		for ci := range caps {
			if ci == r.rxConn {
				continue
			}
			b, _, _, _ := caps[ci].Snapshot()
			if len(b) < 24 {
				continue
			}
			for _, sid := range r.tap.sids(r.extraSids...) {
				c.Compared()
				reply := c.Model.Ask("c04-tcpk 0 %d %s %s", sid, core.Hex(b), tbl)
				f := strings.Fields(reply)
				if len(f) < 5 || f[0] != "ok" {
					c.Disagree("C04/corr/tcpk-model-error", "model reply: "+reply, k)
					return
				}
				var n int
				fmt.Sscanf(f[4], "%d", &n)
				predicted += n
			}
		}
	}
	c.Hist("align_model", fmt.Sprintf("%s/%d dead=%s events>0=%v delivers>0=%v", k.Special, k.Mut.Param, dead, events != "0", predicted > 0))
	if debug {
		fmt.Fprintf(os.Stderr, "   model: dead=%s events=%s predicted=%d; endpoint delivered %d\n", dead, events, predicted, got)
	}
	if got > predicted {
		c.Disagree("C04/corr/tcpk-delivered-bytes", fmt.Sprintf("%s variant %d on %s: the model (drainG + lePayOpen + underlayCut + sessionRead over every stream of the key) delivers %d application bytes for the stream the receiver was given, the real endpoint delivered %d", k.Special, k.Mut.Param, k.PatternName, predicted, got), k)
	} else if got == predicted {
		c.Hist("align_delivered_vs_model", "equal")
	} else {
		c.Hist("align_delivered_vs_model", fmt.Sprintf("fewer (%s/%d)", k.Special, k.Mut.Param))
	}
}

// ------------------------------------------------------------------------------------------------
// the regular campaign's TCP cases against the key-history model (both directions of the connection in
// the table, the stream INCLUDING its clear-text nonce): called next to c04CompareTCP

func c04CompareTCPK(c *core.Ctx, k c04Case, o *c04Outcome) {
	t := o.tcp
	t.mu.Lock()
	var streams [][]*c04Unit
	for _, c2s := range []bool{true, false} {
		d := t.dir(0, c2s)
		if len(d.units) > 0 {
			streams = append(streams, append([]*c04Unit(nil), d.units...))
		}
	}
	broken := t.broken
	t.mu.Unlock()
	if broken != "" || len(streams) == 0 {
		return
	}
	o.world.Net.Lock()
	caps := o.world.Net.Streams
	o.world.Net.Unlock()
	if len(caps) == 0 {
		return
	}
	c2sB, s2cB, _, _ := caps[0].Snapshot()
	given := s2cB
	if k.C2S {
		given = c2sB
	}
	if len(given) < 24 {
		return
	}
	var tbl []string
	var sid uint32
	for _, us := range streams {
		tbl = append(tbl, "S", core.Hex(us[0].Raw[:24]))
		for _, u := range us {
			tbl = append(tbl, c04HonestUDP(u)...)
		}
		sid = us[0].Seg.SessionID
	}
	ic := 1
	if k.C2S {
		ic = 0
	}
	c.Compared()
	reply := c.Model.Ask("c04-tcpk %d %d %s %s", ic, sid, core.Hex(given), strings.Join(tbl, " "))
	f := strings.Fields(reply)
	if len(f) < 5 || f[0] != "ok" {
		c.Disagree("C04/corr/tcpk-model-error", "model reply: "+reply, k)
		return
	}
	var predicted int
	fmt.Sscanf(f[4], "%d", &predicted)
	r := o.tr.Sessions[0].S2C
	if k.C2S {
		r = o.tr.Sessions[0].C2S
		predicted -= 4 // the session tag the harness prepends
		if predicted < 0 {
			predicted = 0
		}
	}
	c.Hist("model_tcpk_dead", f[1])
	switch {
	case r.Got > predicted:
		c.Disagree("C04/corr/tcpk-delivered-bytes", fmt.Sprintf("%s/%s on %s: the key-history model delivers %d application bytes of the mutated stream to session %d, the real endpoint delivered %d (%s)", k.Mut.Kind, k.Mut.Class, k.PatternName, predicted, sid, r.Got, reply), k)
	case r.Got == predicted:
		c.Hist("tcpk_delivered_vs_model", "equal")
	default:
		// Fewer is legitimate only where the receiver's underlay ends (teardown race) or the transfer was
		// cut short by the scenario's clock. A model receiver that is still alive at the end of an
		// undamaged or padding-only-damaged stream must be matched exactly.
		if f[1] == "0" && !o.tr.Stalled && r.Err == "" {
			c.Disagree("C04/corr/tcpk-delivered-fewer", fmt.Sprintf("%s/%s on %s: the model receiver is alive at the end of the stream and delivers %d bytes, the real endpoint's reader finished with %d", k.Mut.Kind, k.Mut.Class, k.PatternName, predicted, r.Got), k)
		} else {
			c.Hist("tcpk_delivered_vs_model", "fewer (teardown race / cut short)")
		}
	}
	// the byte-at-a-time receiver of the theorems against the one-pass receiver the op runs, on the head of the stream
	head := given
	if len(head) > 1800 {
		head = head[:1800]
	}
	c.Compared()
	fe := c.Model.Ask("c04-feedeq %s %s", core.Hex(head), strings.Join(tbl, " "))
	if !strings.HasPrefix(fe, "ok 1 ") {
		c.Disagree("C04/corr/feedG-vs-drainG", "byte-at-a-time feedG and one-pass drainG disagree on the first 1800 bytes of the mutated stream: "+fe, k)
	}
	// leOpen on the low-entropy bodies of the genuine units: canonical body accepted, one flipped bit in the padding region rejected or accepted as the model says
	n := 0
	for _, us := range streams {
		for _, u := range us {
			if !u.Seg.IsLE() || u.Seg.PayloadLen == 0 || n >= 3 {
				continue
			}
			n++
			l := u.layout()
			wireBody := u.Raw[l["payload-ct"].lo:l["payload-tag"].hi]
			ent := c04HonestUDP(u)
			ct := ent[len(ent)-1]
			for _, flip := range []int{-1, int(u.Seg.PayloadLen) / 2} {
				wb := append([]byte(nil), wireBody...)
				if flip >= 0 {
					wb[flip] ^= 0x10
				}
				_, derr := wire.LEDecode(wb[:u.Seg.PayloadLen], int(u.Seg.ExtractedLen), u.Seg.Byte1, u.Seg.LEMask, u.Seg.LERot)
				want := "ok reject"
				if derr == nil {
					dec, _ := wire.LEDecode(wb[:u.Seg.PayloadLen], int(u.Seg.ExtractedLen), u.Seg.Byte1, u.Seg.LEMask, u.Seg.LERot)
					if core.Hex(append(append([]byte(nil), dec...), wb[u.Seg.PayloadLen:]...)) == ct {
						want = "ok accept"
					}
				}
				c.Compared()
				got := c.Model.Ask("c04-leopen %s %d %d %d %d %d %s", core.Hex(wb), u.Seg.PayloadLen, u.Seg.ExtractedLen, u.Seg.Byte1, u.Seg.LEMask, u.Seg.LERot, ct)
				if got != want {
					c.Disagree("C04/corr/leopen", fmt.Sprintf("leOpen on a low-entropy body (flip at %d): model %q, reference codec %q", flip, got, want), k)
				}
			}
		}
	}
}

// ------------------------------------------------------------------------------------------------
// generator: deterministic on every run (quick and thorough), before the random campaign

func c04AlignCases(r *rand.Rand, thorough bool) []c04Case {
	var cases []c04Case
	special := func(sp, kind, pat string, variant int) {
		k := c04Case{Seed: r.Int63(), UDP: false, MTU: 1400, PatternName: pat, C2S: true, Special: sp, TimeoutS: 10}
		k.Mut = c04Mut{Kind: kind, Class: "nonce", Param: variant}
		p := patJSON(c04Pattern(pat))
		k.ClientPattern, k.ServerPattern = p, p
		cases = append(cases, k)
	}
	pats := []string{"plain"}
	if thorough {
		pats = []string{"plain", "maxpad", "le"}
	}
	for _, pat := range pats {
		for v := 0; v <= 4; v++ {
			special("tcp-swap32", "payload-as-metadata", pat, v)
		}
		for v := 0; v <= 2; v++ {
			special("tcp-reflect-aligned", "reflect-aligned", pat, v)
		}
		for v := 0; v <= 2; v++ {
			special("tcp-splice-aligned", "splice-aligned", pat, v)
		}
		for v := 0; v <= 1; v++ {
			special("tcp-mux-cut", "mux-cut", pat, v)
		}
	}
	// stream prefix removed with the clear-text nonce advanced: whole units (1, 2) and seal-counted
	// (1 … 4: odd alignments start the receiver on a payload nonce), both directions, on every run
	regular := func(pat string, c2s bool, m c04Mut) {
		k := c04Case{Seed: r.Int63(), UDP: false, MTU: 1400, PatternName: pat, C2S: c2s, Mut: m, TimeoutS: 5}
		p := patJSON(c04Pattern(pat))
		k.ClientPattern, k.ServerPattern = p, p
		k.ClientWrites = []int{300, 32, 700, 2500, 120, 900, 32, 4000}
		k.ServerWrites = []int{200, 32, 900, 5000, 80, 32, 3000, 600}
		cases = append(cases, k)
	}
	for _, pat := range pats {
		for _, c2s := range []bool{false, true} {
			for _, n := range []int{1, 2} {
				regular(pat, c2s, c04Mut{Kind: "nonce-advance-cut", Class: "nonce", Param: n})
			}
			for n := 1; n <= 4; n++ {
				regular(pat, c2s, c04Mut{Kind: "nonce-advance-seals", Class: "nonce", Param: n})
			}
		}
	}
	// one padding bit of a low-entropy body flipped (first chunk / a later chunk), both directions, on every run:
	// the canonical-padding check precedes the AEAD open (Props/C04 le_decode_then_open, tcp_tamper_low_entropy)
	for _, pat := range []string{"le", "le4"} {
		if pat == "le4" && !thorough {
			continue
		}
		for _, c2s := range []bool{false, true} {
			for p := 0; p <= 1; p++ {
				regular(pat, c2s, c04Mut{Kind: "le-pad-flip", Class: "payload-ct", Unit: 1, Param: p})
			}
		}
	}
	if thorough {
		for i := 0; i < 12; i++ {
			regular([]string{"plain", "maxpad", "le", "le4"}[i%4], r.Intn(2) == 0, c04Mut{Kind: "nonce-advance-seals", Class: "nonce", Param: 5 + r.Intn(12)})
		}
	}
	return cases
}
