package props

import (
	"math/big"
	"math/rand"
	"sync"
	"time"

	"verifharness/simnet"
	"verifharness/wire"
)

// Mutation engines of the C04 campaign. A "unit" is one segment on a TCP stream or one datagram.
// Byte-position classes are computed by decoding the genuine traffic with harness/wire.

type c04Mut struct {
	// bitflip | subst | insert | delete | truncate | swap-next | replay-prev | reflect | splice |
	// meta-payload-swap | meta-over-payload | nonce-advance-cut | nonce-advance-seals | le-pad-flip | none
	Kind string `json:"kind"`
	// nonce | meta-ct | meta-tag | pad1 | payload-ct | payload-tag | pad2 | boundary
	Class string  `json:"class"`
	Unit  int     `json:"unit"`  // index among the units of the mutated direction that have this class
	Rel   float64 `json:"rel"`   // relative position inside the class's byte range [0,1)
	Param int     `json:"param"` // bit number / byte delta / number of bytes / number of segments
	// Ext selects the class-aware semantics of c04_ext.go (round 3): swap-next / replay-prev / reflect /
	// splice act on the byte range of Class (exchange with the next unit's range, overwrite with the
	// previous unit's / the opposite direction's range, tail splice at the start of the range), Class
	// "boundary" = the whole unit; bitflip / subst on "boundary" hit the last byte of the unit,
	// truncate on "boundary" cuts the stream after the unit (TCP) / the datagram at the 72-byte header
	// boundary + Param (UDP); insert with ToLen > 0 grows the unit to exactly ToLen bytes.
	Ext   bool `json:"ext,omitempty"`
	ToLen int  `json:"to_len,omitempty"`
	// Target (UDP): which datagrams are eligible — "" = first transmissions of data-bearing data
	// datagrams, "open" = open session request / response, "ack" = pure acks.
	Target string `json:"target,omitempty"`
	// PayloadLen > 0: only a unit whose metadata announces exactly this payload length is eligible.
	PayloadLen int `json:"payload_len,omitempty"`
}

// c04Unit is one genuine unit with its decoding.
type c04Unit struct {
	Raw      []byte
	Seg      *wire.Segment
	HasNonce bool
	Index    int // index among the units of its direction
}

type span struct{ lo, hi int }

// layout gives the byte range of every class inside the unit's raw bytes.
func (u *c04Unit) layout() map[string]span {
	l := map[string]span{}
	p := 0
	if u.HasNonce {
		l["nonce"] = span{0, 24}
		p = 24
	}
	l["meta-ct"] = span{p, p + 32}
	l["meta-tag"] = span{p + 32, p + 48}
	p += 48
	s := u.Seg
	if !s.IsSession() && s.PrefixLen > 0 {
		l["pad1"] = span{p, p + int(s.PrefixLen)}
		p += int(s.PrefixLen)
	}
	if s.PayloadLen > 0 {
		l["payload-ct"] = span{p, p + int(s.PayloadLen)}
		p += int(s.PayloadLen)
		l["payload-tag"] = span{p, p + 16}
		p += 16
	}
	if s.SuffixLen > 0 {
		l["pad2"] = span{p, p + int(s.SuffixLen)}
		p += int(s.SuffixLen)
	}
	l["boundary"] = span{len(u.Raw), len(u.Raw)}
	return l
}

func (u *c04Unit) has(class string) bool {
	sp, ok := u.layout()[class]
	if !ok {
		return false
	}
	return class == "boundary" || sp.hi > sp.lo
}

// seals is the number of AEAD operations the unit consumed (TCP counter nonce).
func (u *c04Unit) seals() int {
	if u.Seg.PayloadLen > 0 {
		return 2
	}
	return 1
}

// mutateInUnit applies a byte-level mutation inside one unit.
func mutateInUnit(u *c04Unit, m c04Mut, seed int64) []byte {
	raw := append([]byte(nil), u.Raw...)
	sp := u.layout()[m.Class]
	pos := sp.lo
	if sp.hi > sp.lo {
		pos = sp.lo + int(m.Rel*float64(sp.hi-sp.lo))
		if pos >= sp.hi {
			pos = sp.hi - 1
		}
	}
	rng := rand.New(rand.NewSource(seed))
	n := m.Param
	if n <= 0 {
		n = 1
	}
	switch m.Kind {
	case "bitflip":
		if pos < len(raw) {
			raw[pos] ^= 1 << uint(m.Param&7)
		}
	case "subst":
		if pos < len(raw) {
			raw[pos] += byte(1 + m.Param%255)
		}
	case "insert":
		ins := make([]byte, n)
		rng.Read(ins)
		raw = append(raw[:pos:pos], append(ins, raw[pos:]...)...)
	case "delete":
		if m.Class == "boundary" {
			pos = len(raw) - n
			if pos < 0 {
				pos = 0
			}
		}
		end := pos + n
		if end > len(raw) {
			end = len(raw)
		}
		raw = append(raw[:pos:pos], raw[end:]...)
	case "truncate":
		raw = raw[:pos]
	}
	return raw
}

// addToNonce adds k to a 24-byte big-endian counter.
func addToNonce(nonce []byte, k int) []byte {
	x := new(big.Int).SetBytes(nonce)
	x.Add(x, big.NewInt(int64(k)))
	x.Mod(x, new(big.Int).Lsh(big.NewInt(1), 192))
	b := x.Bytes()
	out := make([]byte, 24)
	copy(out[24-len(b):], b)
	return out
}

// nonceDelta returns b − a if it is in [0, 1<<20], else −1.
func nonceDelta(a, b []byte) int {
	x := new(big.Int).Sub(new(big.Int).SetBytes(b), new(big.Int).SetBytes(a))
	if x.Sign() < 0 || x.BitLen() > 20 {
		return -1
	}
	return int(x.Int64())
}

// ------------------------------------------------------------------------------------------------
// TCP: a stateful StreamFilter that re-frames the genuine stream with the reference decoder and
// emits it unit by unit (bytes of an incomplete unit are held back until it is complete).

type c04StreamDir struct {
	dec   *wire.StreamDecoder
	pend  []byte
	units []*c04Unit
	seen  int // eligible units seen so far
	held  *c04Unit
}

type c04TCP struct {
	mu      sync.Mutex
	k       c04Case
	keys    [][]byte
	dirs    map[[2]int]*c04StreamDir // (connID, c2s)
	applied bool
	target  *c04Unit
	cut     int    // nonce-advance-cut: units removed so far
	cutSeal int    // … and the AEAD operations they consumed
	nonce0  []byte // genuine first nonce of the mutated direction
	broken  string
}

func (t *c04TCP) dir(conn int, c2s bool) *c04StreamDir {
	key := [2]int{conn, 0}
	if c2s {
		key[1] = 1
	}
	d := t.dirs[key]
	if d == nil {
		d = &c04StreamDir{dec: &wire.StreamDecoder{Keys: t.keys}}
		t.dirs[key] = d
	}
	return d
}

func (t *c04TCP) filter(conn int, c2s bool, off int64, b []byte) []byte {
	t.mu.Lock()
	defer t.mu.Unlock()
	d := t.dir(conn, c2s)
	d.pend = append(d.pend, b...)
	segs := d.dec.Feed(b)
	if d.dec.Err != nil {
		// cannot follow the genuine stream any more (not expected): pass everything through
		if t.broken == "" {
			t.broken = d.dec.Err.Error()
		}
		out := d.pend
		d.pend = nil
		return out
	}
	var out []byte
	for _, s := range segs {
		u := &c04Unit{Raw: append([]byte(nil), d.pend[:s.WireLen]...), Seg: s, HasNonce: len(d.units) == 0, Index: len(d.units)}
		d.pend = d.pend[s.WireLen:]
		d.units = append(d.units, u)
		if conn != 0 || c2s != t.k.C2S {
			out = append(out, u.Raw...)
			continue
		}
		out = append(out, t.emit(d, u)...)
	}
	return out
}

// emit decides what goes on the wire in place of genuine unit u of the mutated direction.
func (t *c04TCP) emit(d *c04StreamDir, u *c04Unit) []byte {
	m := t.k.Mut
	if u.Index == 0 {
		t.nonce0 = append([]byte(nil), u.Raw[:24]...)
	}
	if m.Kind == "nonce-advance-cut" {
		// remove the first Param units and advance the clear-text initial nonce by the number of
		// AEAD operations they consumed
		if t.cut < m.Param {
			t.cut++
			t.cutSeal += u.seals()
			return nil
		}
		if !t.applied {
			t.applied = true
			t.target = u
			return append(addToNonce(t.nonce0, t.cutSeal), u.Raw...)
		}
		return u.Raw
	}
	if m.Kind == "nonce-advance-seals" {
		// remove the stream up to the sender's Param-th AEAD operation and advance the clear-text
		// initial nonce by Param: on a unit boundary this is nonce-advance-cut; between a unit's two
		// seals the receiver starts on the PAYLOAD nonce, in front of the payload's ciphertext
		if t.applied {
			return u.Raw
		}
		if t.cutSeal+u.seals() <= m.Param {
			t.cut++
			t.cutSeal += u.seals()
			return nil
		}
		t.applied = true
		t.target = u
		if t.cutSeal == m.Param {
			raw := u.Raw
			if u.HasNonce {
				raw = raw[24:]
			}
			return append(addToNonce(t.nonce0, m.Param), raw...)
		}
		t.cutSeal++
		return append(addToNonce(t.nonce0, m.Param), u.Raw[u.layout()["payload-ct"].lo:]...)
	}
	if d.held != nil {
		h := d.held
		d.held = nil
		return append(append([]byte(nil), u.Raw...), h.Raw...)
	}
	if t.applied || m.Kind == "none" || !u.has(m.Class) || (u.Index == 0 && (m.Kind == "replay-prev" || m.Kind == "splice")) {
		return u.Raw
	}
	if m.Kind == "le-pad-flip" && !(u.Seg.IsLE() && u.Seg.PayloadLen >= 16) {
		return u.Raw // needs a low-entropy body of at least two 8-byte chunks
	}
	if d.seen < m.Unit {
		d.seen++
		return u.Raw
	}
	if m.Kind == "reflect" && len(t.dir(0, !t.k.C2S).units) == 0 {
		return u.Raw // nothing has travelled the other way yet: try the next unit
	}
	t.applied = true
	t.target = u
	switch m.Kind {
	case "swap-next":
		d.held = u
		return nil
	case "replay-prev":
		prev := d.units[u.Index-1]
		raw := prev.Raw
		if prev.HasNonce {
			raw = raw[24:]
		}
		return append(append([]byte(nil), raw...), u.Raw...)
	case "reflect":
		// a unit of the opposite direction of the same connection, inserted before u
		od := t.dir(0, !t.k.C2S)
		if len(od.units) == 0 {
			return u.Raw
		}
		o := od.units[len(od.units)-1]
		raw := o.Raw
		if o.HasNonce {
			raw = raw[24:]
		}
		return append(append([]byte(nil), raw...), u.Raw...)
	case "splice":
		// this unit's metadata followed by the previous payload-bearing unit's payload part
		for i := u.Index - 1; i >= 0; i-- {
			p := d.units[i]
			if p.Seg.PayloadLen > 0 {
				pl, ul := p.layout(), u.layout()
				return append(append([]byte(nil), u.Raw[:ul["meta-tag"].hi]...), p.Raw[pl["meta-tag"].hi:]...)
			}
		}
		return u.Raw
	case "le-pad-flip":
		// one PADDING bit of a low-entropy body flipped (Param 0: in the first 8-byte chunk — "mixed padding";
		// Param 1: in a later chunk — "non-uniform padding"). A padding bit is one whose flip makes the
		// reference decoder reject the body (flipping a data bit never does).
		raw := append([]byte(nil), u.Raw...)
		lo, n := u.layout()["payload-ct"].lo, int(u.Seg.PayloadLen)
		from, to := 0, 8
		if m.Param != 0 {
			from, to = 8, n
		}
		for off := from; off < to && off < n; off++ {
			for bit := uint(0); bit < 8; bit++ {
				raw[lo+off] ^= 1 << bit
				if _, err := wire.LEDecode(raw[lo:lo+n], int(u.Seg.ExtractedLen), u.Seg.Byte1, u.Seg.LEMask, u.Seg.LERot); err != nil {
					return raw
				}
				raw[lo+off] ^= 1 << bit
			}
		}
		return u.Raw
	default:
		return mutateInUnit(u, m, t.k.Seed)
	}
}

// ------------------------------------------------------------------------------------------------
// UDP: the Plan mutates Delivery.Data.

type c04UDP struct {
	mu      sync.Mutex
	k       c04Case
	keys    [][]byte
	server  string
	seen    int
	applied bool
	target  *c04Unit // the genuine datagram that was mutated
	mutated []byte
	prev    *c04Unit // previous payload-bearing datagram of the mutated direction
	index   int
	dgIndex int // simnet index of the mutated datagram
	mutTime time.Time
	seqSeen map[uint32]bool // sequence numbers already transmitted in the mutated direction
	// class-aware kinds (c04_ext.go)
	prevClass   *c04Unit // previous eligible datagram of the mutated direction that has the class
	other       *c04Unit // latest datagram of the OPPOSITE direction that has the class
	otherMaxSeq uint32   // highest sequence number seen in the opposite direction
	otherSeen   bool
	held        *c04Unit // swap-next on a byte range: the first unit waits for the next one
	mutated2    []byte   // … whose mutated form is the second mutated datagram
}

// c04ObserveWindow: after a datagram was mutated, genuine retransmissions of the same sequence number
// are held back this long, so that the receiver's acks show unambiguously whether it accepted the
// mutated copy (it acknowledges within a few milliseconds if it did).
const c04ObserveWindow = 300 * time.Millisecond

func (p *c04UDP) eligibleTarget(seg *wire.Segment) bool {
	switch p.k.Mut.Target {
	case "open":
		return seg.Proto == wire.OpenSessionRequest || seg.Proto == wire.OpenSessionResponse
	case "ack":
		return seg.IsAck()
	}
	if p.k.Mut.PayloadLen > 0 && int(seg.PayloadLen) != p.k.Mut.PayloadLen {
		return false
	}
	return seg.IsData() && seg.PayloadLen > 0
}

func (p *c04UDP) plan(d *simnet.Datagram) []simnet.Delivery {
	p.mu.Lock()
	defer p.mu.Unlock()
	c2s := d.To == p.server
	m := p.k.Mut
	if m.Kind == "none" {
		return []simnet.Delivery{{}}
	}
	if c2s != p.k.C2S && !(m.Kind == "reflect") {
		return []simnet.Delivery{{}}
	}
	seg, err := wire.OpenUDP(d.Data, p.keys)
	if err != nil {
		return []simnet.Delivery{{}}
	}
	if c2s != p.k.C2S {
		// the opposite direction: remember how far its numbering got (a reflected datagram can only be
		// taken for new data while its sequence number is ahead of that) and its latest unit that has
		// the class (source of the reflected byte range)
		if seg.IsData() || seg.IsSession() {
			if !p.otherSeen || seg.Seq > p.otherMaxSeq {
				p.otherMaxSeq = seg.Seq
			}
			p.otherSeen = true
		}
		ou := &c04Unit{Raw: append([]byte(nil), d.Data...), Seg: seg, HasNonce: true}
		if ou.has(m.Class) && seg.IsData() {
			p.other = ou
		}
		return []simnet.Delivery{{}}
	}
	u := &c04Unit{Raw: append([]byte(nil), d.Data...), Seg: seg, HasNonce: true, Index: p.index}
	p.index++
	if p.applied && p.mutated != nil && p.target != nil && seg.SessionID == p.target.Seg.SessionID && seg.Seq == p.target.Seg.Seq &&
		(seg.IsData() || seg.IsSession()) && seg.Proto == p.target.Seg.Proto && time.Since(p.mutTime) < c04ObserveWindow {
		d.Fate = "held-for-observation"
		return nil
	}
	defer func() {
		if seg.PayloadLen > 0 {
			p.prev = u
		}
		if p.eligibleTarget(seg) && u.has(m.Class) {
			p.prevClass = u
		}
	}()
	if p.seqSeen == nil {
		p.seqSeen = map[uint32]bool{}
	}
	firstTx := !p.seqSeen[seg.Seq] || seg.IsAck()
	if seg.IsData() || seg.IsSession() {
		p.seqSeen[seg.Seq] = true
	}
	if p.held != nil && m.Ext && m.Kind == "swap-next" {
		// the second unit of a byte-range swap
		if !(p.eligibleTarget(seg) && u.has(m.Class)) {
			return []simnet.Delivery{{}}
		}
		h := p.held
		p.held = nil
		a, b := c04SwapRange(h, u, m.Class)
		p.mutated, p.mutated2 = a, b
		d.Fate = "mutated:swap-next/" + m.Class
		return []simnet.Delivery{{Data: a}, {Data: b}}
	}
	// the campaign targets first transmissions (a loss costs a retransmission timeout), by default of
	// data-bearing datagrams after the handshake
	eligible := !p.applied && firstTx && u.has(m.Class) && p.eligibleTarget(seg)
	if !m.Ext {
		eligible = eligible && (m.Kind != "splice" && m.Kind != "replay-prev" || p.prev != nil)
	} else {
		switch m.Kind {
		case "splice", "replay-prev":
			eligible = eligible && p.prevClass != nil
		case "reflect":
			eligible = eligible && (m.Class == "boundary" || p.other != nil)
		}
	}
	if m.Kind == "reflect" && m.Ext && m.Class == "boundary" {
		// whole-datagram reflection: only a datagram whose sequence number the sender has not yet
		// received from its peer can be mistaken for the peer's data
		eligible = eligible && p.otherSeen && seg.Seq > p.otherMaxSeq+1
	}
	if !eligible {
		return []simnet.Delivery{{}}
	}
	if p.seen < m.Unit {
		p.seen++
		return []simnet.Delivery{{}}
	}
	p.applied = true
	p.target = u
	p.dgIndex = d.Index
	p.mutTime = time.Now()
	d.Fate = "mutated:" + m.Kind + "/" + m.Class
	if m.Ext {
		return p.planExt(u, d)
	}
	switch m.Kind {
	case "swap-next":
		return []simnet.Delivery{{Delay: 25 * time.Millisecond}}
	case "replay-prev":
		return []simnet.Delivery{{}, {Data: p.prev.Raw}}
	case "reflect":
		// the datagram also comes back to its sender, as if sent by the peer
		return []simnet.Delivery{{}, {To: d.From, From: d.To}}
	case "splice":
		ul, pl := u.layout(), p.prev.layout()
		p.mutated = append(append([]byte(nil), u.Raw[:ul["meta-tag"].hi]...), p.prev.Raw[pl["meta-tag"].hi:]...)
	case "meta-payload-swap":
		// [nonce ‖ ct(payload) ‖ ct(meta)]
		ul := u.layout()
		p.mutated = append(append(append([]byte(nil), u.Raw[:24]...), u.Raw[ul["payload-ct"].lo:ul["payload-tag"].hi]...), u.Raw[24:72]...)
	case "meta-over-payload":
		// the payload ciphertext+tag replaced by the datagram's own metadata ciphertext+tag
		ul := u.layout()
		p.mutated = append([]byte(nil), u.Raw...)
		if ul["payload-tag"].hi-ul["payload-ct"].lo == 48 {
			copy(p.mutated[ul["payload-ct"].lo:], u.Raw[24:72])
		}
	default:
		p.mutated = mutateInUnit(u, m, p.k.Seed)
	}
	return []simnet.Delivery{{Data: p.mutated}}
}
