package props

import (
	"bytes"
	"encoding/json"
	"io"
	"net"
	"os"
	"path/filepath"
	"sort"
	"sync"
	"time"

	"verifharness/core"
)

// Shared by the C11 and C12 scenarios: an in-memory scripted net.Conn and the corpus loader.

// socksScriptConn plays a fixed byte string to the code under test (then end-of-stream) and records
// everything written to it. Reads are cut into chunks of at most `chunk` bytes (0: no cutting), so
// the code's io.ReadFull loops see arbitrary TCP segmentation. Deadlines are accepted and ignored
// (nothing here ever blocks). It implements apicommon.UserContext.
type socksScriptConn struct {
	mu     sync.Mutex
	in     []byte
	pos    int
	chunk  int
	out    bytes.Buffer
	closed bool
	user   string
	local  net.Addr
	remote net.Addr
}

func newSocksScriptConn(in []byte, chunk int, user string) *socksScriptConn {
	return &socksScriptConn{
		in: in, chunk: chunk, user: user,
		local:  &net.TCPAddr{IP: net.IPv4(192, 0, 2, 1), Port: 1080},
		remote: &net.TCPAddr{IP: net.IPv4(192, 0, 2, 2), Port: 40000},
	}
}

func (c *socksScriptConn) Read(p []byte) (int, error) {
	c.mu.Lock()
	defer c.mu.Unlock()
	if c.closed {
		return 0, io.ErrClosedPipe
	}
	if len(p) == 0 {
		return 0, nil
	}
	if c.pos >= len(c.in) {
		return 0, io.EOF
	}
	n := len(c.in) - c.pos
	if n > len(p) {
		n = len(p)
	}
	if c.chunk > 0 && n > c.chunk {
		n = c.chunk
	}
	copy(p, c.in[c.pos:c.pos+n])
	c.pos += n
	return n, nil
}

func (c *socksScriptConn) Write(p []byte) (int, error) {
	c.mu.Lock()
	defer c.mu.Unlock()
	if c.closed {
		return 0, io.ErrClosedPipe
	}
	c.out.Write(p)
	return len(p), nil
}

func (c *socksScriptConn) Close() error {
	c.mu.Lock()
	c.closed = true
	c.mu.Unlock()
	return nil
}
func (c *socksScriptConn) LocalAddr() net.Addr                { return c.local }
func (c *socksScriptConn) RemoteAddr() net.Addr               { return c.remote }
func (c *socksScriptConn) SetDeadline(t time.Time) error      { return nil }
func (c *socksScriptConn) SetReadDeadline(t time.Time) error  { return nil }
func (c *socksScriptConn) SetWriteDeadline(t time.Time) error { return nil }
func (c *socksScriptConn) UserName() string                   { return c.user }

func (c *socksScriptConn) Written() []byte {
	c.mu.Lock()
	defer c.mu.Unlock()
	return append([]byte(nil), c.out.Bytes()...)
}

func (c *socksScriptConn) Consumed() int {
	c.mu.Lock()
	defer c.mu.Unlock()
	return c.pos
}

// socksCorpus runs every corpus file (the replay-file layout bin/check writes: {"input": …}) through run.
func socksCorpus(c *core.Ctx, run func(raw json.RawMessage)) int {
	if c.Corpus == "" {
		return 0
	}
	files, _ := filepath.Glob(filepath.Join(c.Corpus, "*.json"))
	sort.Strings(files)
	n := 0
	for _, f := range files {
		b, err := os.ReadFile(f)
		if err != nil {
			continue
		}
		var rp struct {
			Input json.RawMessage `json:"input"`
		}
		if json.Unmarshal(b, &rp) != nil || len(rp.Input) == 0 {
			c.Note("corpus file %s is not a replay file", filepath.Base(f))
			continue
		}
		run(rp.Input)
		n++
	}
	return n
}
