package props

import (
	"fmt"
	"strings"
	"time"

	"verifharness/core"
)

// Round 4: the map bytes → unit → reaction is the LEAN function Mieru.ServerBytes.classifyTcp / udpUnit
// (driver ops srvb-tcp / srvb-udp): the harness ships the probe's raw bytes, the registered credentials
// (hashed passwords) and the clock; the replay cache's answer is the only fact taken from the probe's
// by-construction token (the cache's state is C06's composition).

// c05BytesUsers: model user id → hashed password of the registered users of the probe worlds.
func c05BytesUsers() string {
	var b strings.Builder
	id := 0
	for _, u := range probeUsers {
		if u.Password == "" {
			continue // a name-only record is no credential (registry skips it)
		}
		fmt.Fprintf(&b, " %d:%s", id, hashedHex(u.Name, u.Password))
		id++
	}
	return b.String()
}

// c05BytesModel asks the byte-level model. ok=false: the probe is outside the byte-level function's
// domain as driven here (reload worlds, datagrams on the existing-session path).
func c05BytesModel(c *core.Ctx, k probeCase, p probe) (reply, units string, ok bool) {
	if k.Reload != "" {
		return "", "", false
	}
	f := strings.Fields(p.Model)
	if len(f) == 0 {
		return "", "", false
	}
	t := strings.Split(f[0], "/")
	data := p.Data
	if data == "" {
		data = "-"
	}
	now := time.Now().Unix()
	var r string
	if k.UDP {
		if len(t) != 12 || t[1] != "none" || len(f) != 1 {
			return "", "", false
		}
		r = c.Model.Ask("srvb-udp %d %s %s%s", now, t[3], data, c05BytesUsers())
	} else {
		if len(t) != 13 {
			return "", "", false
		}
		eof := 0
		if p.EOF {
			eof = 1
		}
		r = c.Model.Ask("srvb-tcp %d %d %s %s%s", now, eof, t[3], data, c05BytesUsers())
	}
	i := strings.Index(r, " | ")
	if !strings.HasPrefix(r, "ok ") || i < 0 {
		return r, "", true
	}
	return r[:i], strings.TrimSpace(r[i+3:]), true
}

// c05BytesCompare: the byte-level reaction against the reaction to the by-construction unit tokens (the
// latter is what rounds 1–3 compared with the server; the former is compared with the server from now on).
func c05BytesCompare(c *core.Ctx, k probeCase, p probe, tokReply, bytesReply, units string) {
	tr := map[bool]string{true: "udp", false: "tcp"}[k.UDP]
	single := probeCase{Seed: k.Seed, UDP: k.UDP, Stage: k.Stage, LE: k.LE, Probes: []probe{p}}
	c.Compared()
	c.Hist("bytes_level", tr+":"+p.Class)
	a, b := parseModelReply(tokReply), parseModelReply(bytesReply)
	if !b.OK {
		c.Disagree("C05/corr/bytes-model-reply", fmt.Sprintf("class %s: byte-level model answered %q", p.Class, bytesReply), single)
		return
	}
	if a.OK && (a.Out != b.Out || a.Accepted != b.Accepted || a.CloseReq != b.CloseReq || a.Closed != b.Closed || a.Drain != b.Drain) {
		c.Disagree("C05/corr/bytes-vs-units/"+tr+"/"+p.Class, fmt.Sprintf("Lean parsed the bytes into %q (%s); the units by construction are %q (%s)", units, bytesReply, p.Model, tokReply), single)
	}
	// first unit: the decision-relevant fields (the by-construction tokens are loose in fields no branch
	// reads: eof of a complete header, the length of a datagram nobody's key opens, the id under an undefined
	// protocol type, leOk outside types 10 / 11)
	fu, ft := strings.Fields(units), strings.Fields(p.Model)
	if len(fu) == 0 || len(ft) == 0 {
		return
	}
	x, y := strings.Split(fu[0], "/"), strings.Split(ft[0], "/")
	if len(x) != len(y) {
		return
	}
	if x[3] == "1" || y[3] == "1" {
		return // reported by the replay cache: no branch reads the fields behind the flag (the by-construction tokens leave them at their defaults)
	}
	c.Compared()
	bad := false
	if k.UDP {
		if (x[1] == "none" && x[2] == "none") || (y[1] == "none" && y[2] == "none") {
			bad = x[1] != y[1] || x[2] != y[2] || (x[0] < "72" && len(x[0]) <= 2) != (y[0] < "72" && len(y[0]) <= 2)
		} else {
			for _, j := range []int{0, 1, 2, 3, 4, 6, 7, 8, 9, 11} {
				bad = bad || x[j] != y[j]
			}
		}
	} else {
		if x[2] == "none" || y[2] == "none" {
			bad = x[2] != y[2] || x[0] != y[0]
		} else {
			for _, j := range []int{0, 2, 3, 4, 6, 7, 8, 9, 11, 12} {
				bad = bad || x[j] != y[j]
			}
		}
	}
	if bad {
		c.Disagree("C05/corr/bytes-first-unit/"+tr+"/"+p.Class, fmt.Sprintf("first unit from the bytes %s, by construction %s", fu[0], ft[0]), single)
	}
}
