package props

// C10, round 4 — a sender that IGNORES the advertised receive window, against an application that does not read.
//
// All users of a UDP server share ONE event loop goroutine; it hands segments to a session with a blocking
// channel send (baseUnderlay.deliverSegmentToSession), which is only harmless as long as the input goroutine of
// a packet session never blocks. What guarantees that is the early drop in Session.inputData's packet branch:
// a segment that arrives while receiveWindowSize() <= 0 is discarded BEFORE any call that can wait
// (waitForRecvQueueSpace). Mieru.DispatchAsync models the receive window, the channel and the blocking calls;
// `full_window_drops_never_blocks` / `event_loop_never_blocks`; the order "guard precedes every blocking call"
// is a regenerated fact (Gen/C10Async.lean).
//
// Stage: registered user bob opens a session the application accepts and never reads, then sends
// 4096 + 512 (+ a bit) IN-ORDER data segments whatever window the server advertises (crafted with harness/wire,
// paced by the server's acks). Then, within a few seconds: alice's established real-client session must echo and
// a NEW session of user carol must open and echo (bystander oracle). Positive evidence that the attack was live:
// the server acknowledged >= 4000 segments and advertised window 0.

import (
	"encoding/json"
	"fmt"
	"os"
	"strings"
	"time"

	"verifharness/core"
	"verifharness/wire"
)

type c10WindowSpec struct {
	Kind    string `json:"kind"`    // "window"
	Extra   int    `json:"extra"`   // in-order segments beyond the 4096 the receive queue holds
	Payload int    `json:"payload"` // bytes per segment
	Seed    int64  `json:"seed"`
	Reader  bool   `json:"reader"` // control: the application DOES read (everything must be echoed)
}

type c10WindowObs struct {
	Sent        int    `json:"sent"`
	Acked       uint32 `json:"acked"`      // highest unAck the server reported for bob's session
	MinWindow   int    `json:"min_window"` // smallest receive window it advertised (-1: none seen)
	AcksSeen    int    `json:"acks_seen"`
	Victim      string `json:"victim"`    // alice's established session afterwards (5 s)
	Newcomer    string `json:"newcomer"`  // a new session of carol afterwards: echo | no-open | silent | closed
	OwnAfter    string `json:"own_after"` // bob's session (control run: echo)
	SendMs      int64  `json:"send_ms"`
	BystanderMs int64  `json:"bystander_ms"`
}

const c10WindowBystanderLimit = 5 * time.Second

func (c *c10Child) runWindow(w *c10WindowSpec) c10Reply {
	var rep c10Reply
	obs := &c10WindowObs{MinWindow: -1}
	rep.Window = obs
	if !c.udp || c.role != "server" {
		rep.Error = "window: UDP server only"
		return rep
	}
	c10AvoidSlotBoundary()
	keys := c10Keys(time.Now())
	if c.probeApp(c.victimRd, c10ProbeTimeout) != "echo" {
		go c.victim.Close()
		if err := c.dialVictim(); err != nil {
			rep.Error = "setup: " + err.Error()
			return rep
		}
	}
	bob, err := c.newAttacker("bob", keys, w.Seed)
	if err != nil {
		rep.Error = "peer: " + err.Error()
		return rep
	}
	defer bob.close()
	sid := uint32(0x57000000) + uint32(w.Seed%100000)*16 + 1
	if !w.Reader {
		c.mu.Lock()
		c.mute[sid] = true
		c.mu.Unlock()
	}
	if !bob.open(sid, c10ProbeTimeout) {
		rep.Error = "setup: bob's session does not open"
		return rep
	}
	if !c.waitFor(c10ProbeTimeout, func() bool { return c.apps[sid] != nil }) {
		rep.Error = "setup: the application did not accept bob's session"
		return rep
	}
	rep.SetupOK = true
	fmt.Fprintf(os.Stderr, "c10-step 0\nc10-window flood\n")
	total := 4096 + w.Extra
	payload := make([]byte, w.Payload)
	for i := range payload {
		payload[i] = byte('a' + i%26)
	}
	start := time.Now()
	bob.mu.Lock()
	s := bob.sess[sid]
	bob.mu.Unlock()
	const batch = 128
	stalls := 0
	for sent := 0; sent < total; {
		bob.mu.Lock()
		n := batch
		if total-sent < n {
			n = total - sent
		}
		for j := 0; j < n; j++ {
			// in order, one after the other, whatever window the server advertised
			bob.sendSegLocked(wire.Meta{Proto: wire.DataClientToServer, SessionID: sid, Seq: s.nextSend, UnAck: s.nextRecv, Window: 256}, payload)
			s.nextSend++
		}
		sent += n
		target := s.nextSend
		bob.mu.Unlock()
		// pacing: give the server time to take the batch (its acks tell); once it stops acknowledging (window
		// closed) do not wait long — the sender under test ignores the window
		limit := 400 * time.Millisecond
		if stalls > 2 {
			limit = 15 * time.Millisecond
		}
		if bob.wait(limit, func() bool { return s.peerUnAck >= target || s.closeSeen }) {
			stalls = 0
		} else {
			stalls++
		}
		obs.Sent = sent
	}
	obs.SendMs = time.Since(start).Milliseconds()
	time.Sleep(100 * time.Millisecond)
	bob.mu.Lock()
	obs.Acked = s.peerUnAck
	obs.AcksSeen = s.winSeen
	if s.winSeen > 0 {
		obs.MinWindow = int(s.minWindow)
	}
	bob.mu.Unlock()

	// bystanders, within a few seconds
	fmt.Fprintf(os.Stderr, "c10-step 1\nc10-window bystanders\n")
	t0 := time.Now()
	obs.Victim = c.probeApp(c.victimRd, c10WindowBystanderLimit)
	carol, err := c.newAttacker("carol", keys, w.Seed+5)
	if err != nil {
		rep.Error = "peer: " + err.Error()
		return rep
	}
	defer carol.close()
	csid := sid + 3
	if !carol.open(csid, c10WindowBystanderLimit) {
		obs.Newcomer = "no-open"
	} else {
		c.markerSeq++
		obs.Newcomer = carol.probe(csid, c10Marker("newcomer", c.markerSeq), c10WindowBystanderLimit)
	}
	obs.BystanderMs = time.Since(t0).Milliseconds()
	if w.Reader {
		c.markerSeq++
		obs.OwnAfter = bob.probe(sid, c10Marker("own", c.markerSeq), c10ProbeTimeout)
	}
	return rep
}

// ------------------------------------------------------------------------------------------------
// parent side

func c10WindowRun(c *core.Ctx, spec c10WindowSpec) {
	kd := "server/udp"
	p, err := c10StartChild("server", true, c.Seed*1000+800)
	if err != nil {
		c.Violate("C10/"+kd+"/endpoint-does-not-start", err.Error(), spec)
		return
	}
	// the child is thrown away afterwards (a frozen event loop cannot be repaired); kill instead of a polite quit
	defer p.kill()
	rep, died := p.ask(c10Cmd{Op: "window", Window: &spec}, 180*time.Second)
	kj, _ := json.Marshal(spec)
	c.Eval(string(kj), !died && rep.Error == "")
	if died {
		tr := p.trace()
		c.Violate(fmt.Sprintf("C10/%s/panic/%s/window-ignoring-sender", kd, c10PanicSite(tr)),
			"the SERVER PROCESS DIED while a registered user kept sending in-order data to a session whose application does not read. Trace:\n"+tr, spec)
		return
	}
	if rep.Error != "" {
		if strings.HasPrefix(rep.Error, "timeout") {
			c.Violate("C10/"+kd+"/window-ignoring-sender/unresponsive", "the child hosting the real server stopped answering: "+rep.Error, spec)
		} else {
			c.Note("C10 window: executor error (discarded): %s", rep.Error)
			c.Hist("c10_window", "discarded")
		}
		return
	}
	o := rep.Window
	if o == nil {
		return
	}
	c.Hist("c10_window", fmt.Sprintf("reader=%v sent=%d acked=%d minWindow=%d victim=%s newcomer=%s own=%s send=%dms bystanders=%dms",
		spec.Reader, o.Sent, o.Acked, o.MinWindow, o.Victim, o.Newcomer, o.OwnAfter, o.SendMs, o.BystanderMs))
	c.Compared()
	if spec.Reader {
		// control: with an application that reads, the same traffic is ordinary bulk data
		if o.OwnAfter != "echo" || o.Victim != "echo" {
			c.Disagree("C10/"+kd+"/window/control", fmt.Sprintf("control run (application reads): own session %s, other user's session %s", o.OwnAfter, o.Victim), spec)
		}
		return
	}
	live := o.Acked >= 4000 && o.MinWindow == 0
	if !live {
		// the stage did not reach the state it is about: not a verdict about the code, and not silently ok
		c.Disagree("C10/"+kd+"/window/not-live", fmt.Sprintf("the flood did not close the receive window: acked %d, smallest advertised window %d (acks seen %d)", o.Acked, o.MinWindow, o.AcksSeen), spec)
		return
	}
	if o.Victim != "echo" || o.Newcomer != "echo" {
		c.Violate("C10/"+kd+"/other-session-broken/window-ignoring-sender",
			fmt.Sprintf("after registered user bob sent %d in-order data segments to his own session whose application does not read (server acknowledged %d, advertised window %d), OTHER users get no service within %v on the same UDP endpoint: established session of alice: %s; new session of carol: %s. The process is alive — the one event loop all users share no longer reads the socket.",
				o.Sent, o.Acked, o.MinWindow, c10WindowBystanderLimit, o.Victim, o.Newcomer), spec)
	}
}

func init() {
	core.RegisterExtra("C10", func(c *core.Ctx) {
		if !stageOn("window") {
			return
		}
		c.Correspondence("window-ignoring sender: 4096+N in-order data segments to a session whose application does not read, real UDP server in a child — Mieru.DispatchAsync: a full receive window drops (never blocks), the shared event loop never blocks; observed: other users' established and new sessions echo within 5 s")
		c10WindowRun(c, c10WindowSpec{Kind: "window", Extra: 512 + 64, Payload: 16, Seed: c.Seed})
		if c.Thorough() {
			c10WindowRun(c, c10WindowSpec{Kind: "window", Extra: 2048, Payload: 900, Seed: c.Seed + 1})
			c10WindowRun(c, c10WindowSpec{Kind: "window", Extra: 600, Payload: 16, Seed: c.Seed + 2, Reader: true})
		}
	})
	core.RegisterReplay("C10", func(c *core.Ctx, raw json.RawMessage) bool {
		var s c10WindowSpec
		if json.Unmarshal(raw, &s) != nil || s.Kind != "window" {
			return false
		}
		c10WindowRun(c, s)
		return true
	})
}
