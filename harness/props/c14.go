package props

import (
	"encoding/json"
	"fmt"
	"time"

	"github.com/enfein/mieru/v3/pkg/appctl/appctlpb"
	"github.com/enfein/mieru/v3/pkg/protocol"
	"verifharness/core"
	"verifharness/sim"
)

// C14 — no datagram above the MTU; no payload above its length field.
//
// Tie T (primary): the regenerated Lean definitions of maxFragmentSize / maxPaddingSize /
// lowEntropyEncodedPayloadLen are evaluated by mieru-gen and compared with the real functions on
// the whole small domain. Direct oracle: the datagram length formula of writeOneSegment, fed with
// the real functions' results, never exceeds the MTU, and encoded payload lengths fit 16 bits.

type c14Case struct {
	Kind      string `json:"kind"`
	MTU       int    `json:"mtu"`
	Transport int    `json:"transport"`
	Mode      int    `json:"mode"`
	N         int    `json:"n"`
	MaxMid    int    `json:"max_middle"` // -1 = unset
	MaxEnd    int    `json:"max_end"`
	P1        int    `json:"p1"`
}

func c14Pattern(k c14Case) *appctlpb.TrafficPattern {
	if k.MaxMid < 0 && k.MaxEnd < 0 {
		return nil
	}
	p := &appctlpb.TrafficPattern{Padding: &appctlpb.PaddingPattern{}}
	if k.MaxMid >= 0 {
		v := int32(k.MaxMid)
		p.Padding.MaxMiddlePaddingLen = &v
	}
	if k.MaxEnd >= 0 {
		v := int32(k.MaxEnd)
		p.Padding.MaxEndPaddingLen = &v
	}
	return p
}

func genOK(reply string) (int, bool) {
	var v int
	if _, err := fmt.Sscanf(reply, "ok %d", &v); err == nil {
		return v, true
	}
	return 0, false
}

// c14Datagram evaluates the direct oracle for one configuration and application fragment size n
// (n = 0: pure ack).
func c14Datagram(c *core.Ctx, k c14Case) {
	key := fmt.Sprintf("dg/%d/%d/%d/%d/%d/%d", k.MTU, k.Mode, k.N, k.MaxMid, k.MaxEnd, k.P1)
	frag, err := protocol.VerifMaxFragmentSize(k.MTU, 2, k.Mode)
	c.Eval(key, err == nil)
	if err != nil {
		c.Hist("branch", "fragment-size-error")
		return
	}
	n := k.N
	if n > frag {
		n = frag
	}
	wire := n
	if k.Mode != 0 && n > 0 {
		w, err := protocol.VerifLowEntropyEncodedPayloadLen(n, k.Mode)
		if err != nil {
			c.Violate(fmt.Sprintf("C14/le-len-error/mode=%d", k.Mode), fmt.Sprintf("fragment of %d bytes (≤ maxFragmentSize %d) has no encodable length: %v", n, frag, err), k)
			return
		}
		wire = int(w)
	}
	tp := c14Pattern(k)
	p1max := protocol.VerifMaxPaddingSizeWithTrafficPattern(k.MTU, 2, wire, 0, tp, 0)
	p1 := k.P1
	if p1 > p1max {
		p1 = p1max
	}
	p2max := protocol.VerifMaxPaddingSizeWithTrafficPattern(k.MTU, 2, wire, p1, tp, 1)
	total := 24 + 48 + p1 + p2max
	if n > 0 {
		total += wire + 16
	}
	c.Hist("branch", fmt.Sprintf("mode=%d", k.Mode))
	if total > k.MTU {
		c.Violate(fmt.Sprintf("C14/datagram-exceeds-mtu/mode=%d", k.Mode), fmt.Sprintf("data datagram of %d bytes at MTU %d (payload %d wire %d p1 %d p2 %d)", total, k.MTU, n, wire, p1, p2max), k)
	}
	if wire > 65535 || p1max > 255 || p2max > 255 || p1max < 0 || p2max < 0 {
		c.Violate("C14/field-overflow", fmt.Sprintf("wire=%d p1max=%d p2max=%d", wire, p1max, p2max), k)
	}
	if k.MaxMid >= 0 && p1max > k.MaxMid || k.MaxEnd >= 0 && p2max > k.MaxEnd {
		c.Violate("C14/padding-above-configured", fmt.Sprintf("p1max=%d p2max=%d configured %d/%d", p1max, p2max, k.MaxMid, k.MaxEnd), k)
	}
	// session segment (open/close) with piggybacked payload min(n,1024): padding budget is computed
	// from the payload length alone
	sp := n
	if sp > 1024 {
		sp = 1024
	}
	spad := protocol.VerifMaxPaddingSizeWithTrafficPattern(k.MTU, 2, sp, 0, tp, 1)
	stotal := 24 + 48 + spad
	if sp > 0 {
		stotal += sp + 16
	}
	if stotal > k.MTU {
		c.Violate("C14/session-datagram-exceeds-mtu", fmt.Sprintf("session datagram of %d bytes at MTU %d (payload %d padding %d)", stotal, k.MTU, sp, spad), k)
	}
}

func c14Tie(c *core.Ctx, k c14Case) {
	if c.Gen == nil {
		return
	}
	switch k.Kind {
	case "tie-fragment":
		got, err := protocol.VerifMaxFragmentSize(k.MTU, k.Transport, k.Mode)
		m := c.Gen.Ask("maxFragmentSize %d %d %d", k.MTU, k.Transport, k.Mode)
		c.Compared()
		c.Eval(fmt.Sprintf("tf/%d/%d/%d", k.MTU, k.Transport, k.Mode), true)
		v, ok := genOK(m)
		if ok != (err == nil) || (ok && v != got) {
			c.Disagree("C14/tie/maxFragmentSize", fmt.Sprintf("generated def %s, real (%d,%v)", m, got, err), k)
		}
	case "tie-padding":
		got := protocol.VerifMaxPaddingSize(k.MTU, k.Transport, k.N, k.P1)
		m := c.Gen.Ask("maxPaddingSize %d %d %d %d", k.MTU, k.Transport, k.N, k.P1)
		c.Compared()
		c.Eval(fmt.Sprintf("tp/%d/%d/%d/%d", k.MTU, k.Transport, k.N, k.P1), true)
		if v, ok := genOK(m); !ok || v != got {
			c.Disagree("C14/tie/maxPaddingSize", fmt.Sprintf("generated def %s, real %d", m, got), k)
		}
	case "tie-lelen":
		got, err := protocol.VerifLowEntropyEncodedPayloadLen(k.N, k.Mode)
		m := c.Gen.Ask("lowEntropyEncodedPayloadLen %d %d", k.N, k.Mode)
		c.Compared()
		c.Eval(fmt.Sprintf("tl/%d/%d", k.N, k.Mode), true)
		v, ok := genOK(m)
		if ok != (err == nil) || (ok && v != int(got)) {
			c.Disagree("C14/tie/lowEntropyEncodedPayloadLen", fmt.Sprintf("generated def %s, real (%d,%v)", m, got, err), k)
		}
	}
}

func c14Run(c *core.Ctx, k c14Case) {
	if k.Kind == "datagram" {
		c14Datagram(c, k)
	} else {
		c14Tie(c, k)
	}
}

func init() {
	core.Register("C14", &core.Scenario{
		Run: func(c *core.Ctx) {
			if !stageOn("main") {
				return
			}
			c.Res.Rule = "tie: regenerated Lean defs vs real functions on every MTU 1280..1500 x transport x mode, a lattice of (fragment, existing padding), and low-entropy lengths 0..40 + boundaries; oracle: datagram-length formula of writeOneSegment over every MTU x mode x payload size {0,1,mid,max} x configured maxima {unset,0,1,100,255} x first padding {0,max}. Distinct = distinct tuple; non-trivial = the configuration yields a fragment size."
			c.Correspondence("Gen.Arith.{maxFragmentSize,maxPaddingSize,lowEntropyEncodedPayloadLen} vs pkg/protocol (hooks)")
			if c.Gen == nil {
				c.Disagree("C14/tie/gen-unavailable", "mieru-gen (regenerated definitions) is not available", nil)
			}
			for mtu := 1280; mtu <= 1500; mtu++ {
				for tr := 1; tr <= 2; tr++ {
					for mode := 0; mode <= 5; mode++ {
						c14Run(c, c14Case{Kind: "tie-fragment", MTU: mtu, Transport: tr, Mode: mode})
					}
				}
				step := 97
				if c.Thorough() {
					step = 13
				}
				for frag := 0; frag <= mtu; frag += step {
					for _, ex := range []int{0, 1, 100, 255} {
						c14Run(c, c14Case{Kind: "tie-padding", MTU: mtu, Transport: 2, N: frag, P1: ex})
					}
				}
				for _, frag := range []int{mtu - 88, mtu - 89, mtu - 87, mtu - 88 - 255, mtu - 88 - 256} {
					for _, ex := range []int{0, 1, 254, 255} {
						c14Run(c, c14Case{Kind: "tie-padding", MTU: mtu, Transport: 2, N: frag, P1: ex})
					}
				}
				c14Run(c, c14Case{Kind: "tie-padding", MTU: mtu, Transport: 1, N: 32768, P1: 0})
			}
			for mode := 0; mode <= 5; mode++ {
				for n := -1; n <= 64; n++ {
					c14Run(c, c14Case{Kind: "tie-lelen", N: n, Mode: mode})
				}
				for _, n := range []int{32763, 32764, 32765, 32768, 40955, 40956, 49146, 49147, 57337, 57338, 65535, 70000} {
					c14Run(c, c14Case{Kind: "tie-lelen", N: n, Mode: mode})
				}
			}
			maxima := []int{-1, 0, 1, 100, 255}
			for mtu := 1280; mtu <= 1500; mtu++ {
				for mode := 0; mode <= 4; mode++ {
					for _, n := range []int{0, 1, 700, 1 << 20} {
						for _, mm := range maxima {
							for _, me := range maxima {
								for _, p1 := range []int{0, 255} {
									k := c14Case{Kind: "datagram", MTU: mtu, Mode: mode, N: n, MaxMid: mm, MaxEnd: me, P1: p1}
									if mtu == 1400 && mode == 1 && n == 700 && mm == 255 && me == -1 && p1 == 255 {
										c.Sample(k)
									}
									c14Run(c, k)
								}
							}
						}
					}
				}
			}
			c.Res.Exhaustive = true
			// measured datagrams of real UDP sessions at boundary MTUs with maximal padding and low entropy
			nw := c.N(10, 80)
			wcases := make([]udpCase, nw)
			for i := range wcases {
				wcases[i] = genUDPCase(c.Rand, 40000, false)
				wcases[i].MTU = []int{1280, 1281, 1400, 1499, 1500}[i%5]
				wcases[i].Faults = sim.FaultSpec{Seed: 1, Loss: 0.05}
			}
			core.Parallel(nw, 10, func(i int) { udpRun(c, wcases[i], "C14") })
			bgClose.Wait(30 * time.Second)
			c.Sample(c14Case{Kind: "tie-fragment", MTU: 1280, Transport: 2, Mode: 4})
		},
		Replay: func(c *core.Ctx, raw json.RawMessage) {
			var k c14Case
			if json.Unmarshal(raw, &k) == nil {
				c14Run(c, k)
			}
		},
	})
}
