package props

import (
	"encoding/hex"
	"encoding/json"
	"fmt"
	"sort"
	"strings"
	"time"

	"github.com/enfein/mieru/v3/apis/trafficpattern"
	"github.com/enfein/mieru/v3/pkg/appctl/appctlpb"
	"github.com/enfein/mieru/v3/pkg/common"
	"google.golang.org/protobuf/proto"
	"verifharness/core"
	"verifharness/sim"
	"verifharness/wire"
)

// C16, wire stage: the traffic-pattern values are what the emitted traffic exhibits. Real sessions run over
// the in-memory network with patterns known to the harness; every emitted segment is decoded with the
// reference codec and compared with the EFFECTIVE pattern of the emitting side (computed with the real
// NewConfig; its agreement with the model is the configuration stage's job), i.e. explicit AND implicit values:
//   * padding: prefixLen ≤ maxMiddlePaddingLen, suffixLen ≤ maxEndPaddingLen (0 ⇒ none)
//   * low entropy: per session, the history of received / emitted data segments IN CAPTURE ORDER is accepted
//     by the model's session machine (pw-le-check): client segments are type 10 with the configured mode and
//     rotation iff the client's mode is on; a server's type 11 only after that session received a type 10
//     ("server only after client") — on TCP the two directions are ordered by a global Write counter
//   * nonce prefix: PRINTABLE ⇒ the first minLen bytes in 0x20..0x7e, PRINTABLE_SUBSET ⇒ in the exact
//     Common64Set, FIXED ⇒ one of the configured prefixes; TCP: the first segment of each direction; UDP: the
//     first datagram of each socket (both sides), every datagram iff applyToAllUDPPacket, and — where a random
//     nonce cannot look patterned (FIXED prefix ≥ 8 bytes) — NO later datagram of a client socket otherwise
//   * TCP fragmentation: not enabled ⇒ every Write ends at a segment end; enabled ⇒ the session segments are
//     cut into pieces the model's acceptor accepts (pw-frag-ok)

type c16WireCase struct {
	Stage         string          `json:"stage"` // "c16wire"
	Name          string          `json:"name"`
	UDP           bool            `json:"udp"`
	Seed          int64           `json:"seed"`
	MTU           int             `json:"mtu,omitempty"`
	ClientPattern json.RawMessage `json:"client_pattern"`
	ServerPattern json.RawMessage `json:"server_pattern"`
	Scripts       []sim.Script    `json:"scripts"`
}

func c16InWireClass(ty appctlpb.NonceType, b byte) bool {
	switch ty {
	case appctlpb.NonceType_NONCE_TYPE_PRINTABLE:
		return b >= common.PrintableCharSub && b <= common.PrintableCharSup
	case appctlpb.NonceType_NONCE_TYPE_PRINTABLE_SUBSET:
		return strings.IndexByte(common.Common64Set, b) >= 0 // the exact set (cross-checked against ToCommon64Set in the tie stage)
	}
	return false
}

// c16CheckNonce: does the nonce carry the (effective) pattern? "" = yes.
func c16CheckNonce(p *appctlpb.NoncePattern, nonce []byte) string {
	if p == nil {
		return ""
	}
	minLen := int(p.GetMinLen())
	if int(p.GetMaxLen()) < minLen {
		minLen = int(p.GetMaxLen())
	}
	switch p.GetType() {
	case appctlpb.NonceType_NONCE_TYPE_PRINTABLE, appctlpb.NonceType_NONCE_TYPE_PRINTABLE_SUBSET:
		for i := 0; i < minLen && i < len(nonce); i++ {
			if !c16InWireClass(p.GetType(), nonce[i]) {
				return fmt.Sprintf("nonce %x: byte %d (0x%02x) is outside the class of nonce type %v although minLen %d is in force", nonce, i, nonce[i], p.GetType(), minLen)
			}
		}
	case appctlpb.NonceType_NONCE_TYPE_FIXED:
		if len(p.GetCustomHexStrings()) == 0 {
			return ""
		}
		for _, h := range p.GetCustomHexStrings() {
			pre, err := hex.DecodeString(h)
			if err == nil && len(pre) <= len(nonce) && string(nonce[:len(pre)]) == string(pre) {
				return ""
			}
		}
		return fmt.Sprintf("nonce %x starts with none of the configured fixed prefixes %v", nonce, p.GetCustomHexStrings())
	}
	return ""
}

// c16UnmistakablePrefix: a FIXED pattern whose every prefix has ≥ 8 bytes — a random nonce matches with
// probability ≤ 2^-64, so "does not carry the pattern" is observable.
func c16UnmistakablePrefix(p *appctlpb.NoncePattern) bool {
	if p.GetType() != appctlpb.NonceType_NONCE_TYPE_FIXED || len(p.GetCustomHexStrings()) == 0 {
		return false
	}
	for _, h := range p.GetCustomHexStrings() {
		if len(h) < 16 {
			return false
		}
	}
	return true
}

type c16Ev struct {
	key  int64 // position in the capture order
	c2s  bool
	seg  *wire.Segment
	sess uint32
}

func c16Effective(p *appctlpb.TrafficPattern) *appctlpb.TrafficPattern {
	cfg, err := trafficpattern.NewConfig(proto.Clone(p).(*appctlpb.TrafficPattern))
	if err != nil {
		return nil
	}
	return cfg.Effective()
}

func c16EvTokens(evs []c16Ev, serverRole bool) string {
	var t []string
	for _, e := range evs {
		emitted := e.c2s != serverRole
		if emitted {
			if e.seg.IsLE() {
				t = append(t, fmt.Sprintf("s%d:%d:%d", e.seg.Proto, e.seg.Byte1, e.seg.LERot))
			} else {
				t = append(t, fmt.Sprintf("s%d:0:0", e.seg.Proto))
			}
		} else if serverRole { // what a client receives never matters to its decision
			t = append(t, fmt.Sprintf("r%d", e.seg.Proto))
		}
	}
	if len(t) == 0 {
		return "-"
	}
	return strings.Join(t, ",")
}

// c16CheckLowEntropy: per session, the data segments in capture order against the model's session machine
// and against the rule itself.
func c16CheckLowEntropy(c *core.Ctx, evs []c16Ev, cEff, sEff *appctlpb.TrafficPattern, k c16WireCase) {
	bySess := map[uint32][]c16Ev{}
	for _, e := range evs {
		if e.seg.IsData() && len(e.seg.Payload) > 0 {
			bySess[e.sess] = append(bySess[e.sess], e)
		}
	}
	for sess, l := range bySess {
		sort.SliceStable(l, func(i, j int) bool { return l[i].key < l[j].key })
		for _, role := range []bool{false, true} { // false: the client's machine, true: the server's
			eff := cEff
			if role {
				eff = sEff
			}
			le := eff.GetLowEntropy()
			m := c.Model.Ask("pw-le-check %s P P %d %d %s", c16b01(!role), int32(le.GetMode()), int32(le.GetMaskRotation()), c16EvTokens(l, role))
			c.Compared()
			if m != "ok" {
				c.Disagree("C16/corr/wire-low-entropy-history", fmt.Sprintf("session %08x, %s role: the model's session machine does not accept the captured history (%s): %s", sess, map[bool]string{false: "client", true: "server"}[role], m, c16EvTokens(l, role)), k)
			}
		}
		// the rule itself, on the real traffic
		clientUsed := false
		for _, e := range l {
			s := e.seg
			eff, side := sEff, "server"
			if e.c2s {
				eff, side = cEff, "client"
			}
			mode := eff.GetLowEntropy().GetMode()
			c.Hist("wire_data_segments", fmt.Sprintf("%s le=%v", side, s.IsLE()))
			if e.c2s && s.IsLE() {
				clientUsed = true
			}
			if !e.c2s && s.IsLE() && !clientUsed {
				c.Violate("C16/wire/server-low-entropy-before-client", fmt.Sprintf("session %08x: the server emitted a low-entropy data segment before any low-entropy segment of that client had been written", sess), k)
			}
			if mode == appctlpb.LowEntropyMode_LOW_ENTROPY_MODE_OFF && s.IsLE() {
				c.Violate("C16/wire/low-entropy-used-although-off", fmt.Sprintf("%s emitted type %d although its low-entropy mode is OFF", side, s.Proto), k)
			}
			if mode != appctlpb.LowEntropyMode_LOW_ENTROPY_MODE_OFF {
				if e.c2s && !s.IsLE() {
					c.Violate("C16/wire/low-entropy-not-used", fmt.Sprintf("client emitted plain data type %d although low-entropy mode %v is in force", s.Proto, mode), k)
				}
				if s.IsLE() && int(s.Byte1) != int(mode) {
					c.Violate("C16/wire/low-entropy-mode-differs", fmt.Sprintf("%s emitted low-entropy mode %d, configured %v", side, s.Byte1, mode), k)
				}
				if s.IsLE() && int(s.LERot) != int(eff.GetLowEntropy().GetMaskRotation()) {
					c.Violate("C16/wire/low-entropy-rotation-differs", fmt.Sprintf("%s emitted rotation %d, configured %d", side, s.LERot, eff.GetLowEntropy().GetMaskRotation()), k)
				}
			}
		}
	}
}

func c16CheckPadding(c *core.Ctx, s *wire.Segment, eff *appctlpb.TrafficPattern, side string, k c16WireCase) {
	c.Hist("wire_checked", side)
	pd := eff.GetPadding()
	if !s.IsSession() && int(s.PrefixLen) > int(pd.GetMaxMiddlePaddingLen()) {
		c.Violate("C16/wire/middle-padding-exceeds-configured", fmt.Sprintf("%s emitted a type-%d segment with %d bytes of middle padding, maximum in force %d", side, s.Proto, s.PrefixLen, pd.GetMaxMiddlePaddingLen()), k)
	}
	if int(s.SuffixLen) > int(pd.GetMaxEndPaddingLen()) {
		c.Violate("C16/wire/end-padding-exceeds-configured", fmt.Sprintf("%s emitted a type-%d segment with %d bytes of end padding, maximum in force %d", side, s.Proto, s.SuffixLen, pd.GetMaxEndPaddingLen()), k)
	}
}

func c16WireRun(c *core.Ctx, k c16WireCase) {
	cp, sp := patFromJSON(k.ClientPattern), patFromJSON(k.ServerPattern)
	cfg := sim.Config{UDP: k.UDP, MTU: k.MTU, Seed: k.Seed, ClientPattern: cp, ServerPattern: sp}
	w, err := sim.NewWorld(cfg)
	if err != nil {
		c.Violate("C16/wire/valid-pattern-does-not-run", "a valid traffic pattern was rejected at start-up: "+err.Error(), k)
		return
	}
	defer bgClose.Go(w.Close)
	order := newC16Order()
	if !k.UDP {
		w.Net.StreamFilter = order.filter
	}
	tr := sim.RunTransfer(w, k.Scripts, k.Seed, 90*time.Second)
	c.Eval(fmt.Sprintf("c16-wire/%s/%v/%d", k.Name, k.UDP, k.Seed), true)
	c.Hist("wire_world", fmt.Sprintf("%s %s", map[bool]string{true: "udp", false: "tcp"}[k.UDP], k.Name))
	for _, f := range tr.Check(k.Scripts) {
		c.Violate("C16/wire/valid-pattern-does-not-run", "transfer under a valid traffic pattern failed: "+f, k)
	}
	cEff, sEff := c16Effective(cp), c16Effective(sp)
	if cEff == nil || sEff == nil {
		return
	}
	var evs []c16Ev
	undecodable := false // part of the capture is missing: per-session histories would be incomplete
	if k.UDP {
		type sock struct {
			addr string
			c2s  bool
		}
		count := map[sock]int{}
		for _, d := range w.DecodeDatagrams() {
			if d.Err != nil {
				c.Violate("C16/wire/pattern-not-exhibited", fmt.Sprintf("datagram #%d emitted under the configured pattern cannot be decoded by the reference codec (%v): the traffic does not exhibit the configured low-entropy mode / rotation / lengths", d.Index, d.Err), k)
				undecodable = true
				continue
			}
			c2s := d.To == "10.8.0.1:8964"
			client := d.From
			eff, side := cEff, "client"
			if !c2s {
				client, eff, side = d.To, sEff, "server"
			}
			evs = append(evs, c16Ev{key: int64(d.Index), c2s: c2s, seg: d.Seg, sess: d.Seg.SessionID})
			c16CheckPadding(c, d.Seg, eff, side, k)
			// nonce: per socket (a client underlay has ONE cipher object; the server's first datagram to a
			// client is the first use of the object it created for that client's session)
			sk := sock{client, c2s}
			n := count[sk]
			count[sk]++
			np := eff.GetNonce()
			carries := c16CheckNonce(np, d.Seg.Nonce)
			switch {
			case n == 0 || np.GetApplyToAllUDPPacket():
				c.Hist("wire_nonce", side+" udp must-carry")
				if carries != "" {
					c.Violate("C16/wire/nonce-prefix", fmt.Sprintf("%s, datagram %d of its socket (applyToAllUDPPacket=%v): %s", side, n, np.GetApplyToAllUDPPacket(), carries), k)
				}
			case c2s && c16UnmistakablePrefix(np):
				c.Hist("wire_nonce", side+" udp must-not-carry")
				if carries == "" {
					c.Violate("C16/wire/nonce-applied-to-later-udp-packets", fmt.Sprintf("client datagram %d of its socket carries a fixed prefix although applyToAllUDPPacket=false (nonce %x)", n, d.Seg.Nonce), k)
				}
			}
		}
	} else {
		for _, ds := range w.DecodeStreams() {
			if ds.Err != nil {
				c.Violate("C16/wire/pattern-not-exhibited", fmt.Sprintf("conn %d (client→server=%v) emitted under the configured pattern cannot be decoded by the reference codec (%v): the traffic does not exhibit the configured low-entropy mode / rotation / lengths", ds.ConnID, ds.ClientToServer, ds.Err), k)
				undecodable = true
				continue
			}
			eff, side := sEff, "server"
			if ds.ClientToServer {
				eff, side = cEff, "client"
			}
			off := int64(0)
			ends := map[int64]bool{}
			for j, s := range ds.Segs {
				start := off
				off += int64(s.WireLen)
				ends[off] = true
				// a received segment counts once its LAST byte was written, an emitted one from its FIRST byte
				key := order.seqAt(ds.ConnID, ds.ClientToServer, off-1)
				if !ds.ClientToServer {
					key = order.seqAt(ds.ConnID, ds.ClientToServer, start)
				}
				evs = append(evs, c16Ev{key: key, c2s: ds.ClientToServer, seg: s, sess: s.SessionID})
				c16CheckPadding(c, s, eff, side, k)
				if j == 0 { // the only nonce of the direction that is on the wire
					c.Hist("wire_nonce", side+" tcp first")
					if msg := c16CheckNonce(eff.GetNonce(), s.Nonce); msg != "" {
						c.Violate("C16/wire/nonce-prefix", side+": "+msg, k)
					}
				}
				// TCP fragmentation of the segments written through writeWithPossibleFragment (session segments)
				if s.IsSession() && eff.GetTcpFragment().GetEnable() && off <= int64(ds.Bytes-ds.Pending) {
					sizes, aligned := order.writesWithin(ds.ConnID, ds.ClientToServer, start, off)
					ss := make([]string, len(sizes))
					for i, n := range sizes {
						ss[i] = fmt.Sprint(n)
					}
					c.Hist("wire_tcp_fragment", fmt.Sprintf("%s enabled pieces=%s", side, core.SizeBucket(len(sizes))))
					m := c.Model.Ask("pw-frag-ok 0 %d %s", s.WireLen, strings.Join(ss, ","))
					c.Compared()
					if !aligned || m != "ok true" {
						c.Disagree("C16/corr/wire-fragment-writes", fmt.Sprintf("conn %d %s: a %d-byte session segment was written as %v (aligned=%v); the model's fragmenter cannot produce that (%s)", ds.ConnID, side, s.WireLen, sizes, aligned, m), k)
					}
					if s.WireLen >= 4 && len(sizes) < 2 {
						c.Violate("C16/wire/tcp-not-fragmented-although-enabled", fmt.Sprintf("conn %d %s: a %d-byte session segment went out in one Write although tcpFragment.enable is in force", ds.ConnID, side, s.WireLen), k)
					}
				}
			}
			if !eff.GetTcpFragment().GetEnable() {
				c.Hist("wire_tcp_fragment", side+" disabled")
				woff := int64(0)
				for _, wsz := range ds.Writes {
					woff += int64(wsz)
					if woff <= int64(ds.Bytes-ds.Pending) && !ends[woff] {
						c.Violate("C16/wire/tcp-fragmented-although-disabled", fmt.Sprintf("conn %d: a Write call ended at stream offset %d, inside a segment, although tcpFragment.enable=false is in force", ds.ConnID, woff), k)
						break
					}
				}
			}
		}
	}
	if !undecodable {
		c16CheckLowEntropy(c, evs, cEff, sEff, k)
	}
}

// c16FixedWorlds: the deterministic worlds of every run (TCP and UDP each): padding 0/0; explicit low-entropy
// modes 1 and 4 with rotations 15 and 240 on the client, on the server only, on both; a FIXED 12-byte nonce
// with applyToAllUDPPacket true and false; PRINTABLE / PRINTABLE_SUBSET with minLen = maxLen = 12; TCP
// fragmentation enabled; padding 1 / 254 / 255.
func c16FixedWorlds() []c16WireCase {
	hex12 := "160301feedfacecafebeef99"
	le := func(mode appctlpb.LowEntropyMode, rot appctlpb.LowEntropyMaskRotation) *appctlpb.LowEntropyPattern {
		return &appctlpb.LowEntropyPattern{Mode: mode.Enum(), MaskRotation: rot.Enum()}
	}
	nonce := func(ty appctlpb.NonceType, all bool, mn, mx int32, hx ...string) *appctlpb.NoncePattern {
		return &appctlpb.NoncePattern{Type: ty.Enum(), ApplyToAllUDPPacket: proto.Bool(all), MinLen: proto.Int32(mn), MaxLen: proto.Int32(mx), CustomHexStrings: hx}
	}
	pad := func(a, b int32) *appctlpb.PaddingPattern {
		return &appctlpb.PaddingPattern{MaxMiddlePaddingLen: proto.Int32(a), MaxEndPaddingLen: proto.Int32(b)}
	}
	frag := func(on bool) *appctlpb.TCPFragment {
		return &appctlpb.TCPFragment{Enable: proto.Bool(on), MaxSleepMs: proto.Int32(0)}
	}
	off := appctlpb.LowEntropyMode_LOW_ENTROPY_MODE_OFF
	m32, m56 := appctlpb.LowEntropyMode_LOW_ENTROPY_MODE_32, appctlpb.LowEntropyMode_LOW_ENTROPY_MODE_56
	r15, l15 := appctlpb.LowEntropyMaskRotation_LOW_ENTROPY_MASK_ROTATE_RIGHT_15, appctlpb.LowEntropyMaskRotation_LOW_ENTROPY_MASK_ROTATE_LEFT_15
	type w struct {
		name string
		c, s *appctlpb.TrafficPattern
	}
	worlds := []w{
		{"both-LE(c:32/r15,s:56/l15) pad0/0 fixed12(c:all,s:first) frag(c:on)",
			&appctlpb.TrafficPattern{Seed: proto.Int32(1), TcpFragment: frag(true), Nonce: nonce(3, true, 0, 12, hex12), Padding: pad(0, 0), LowEntropy: le(m32, r15)},
			&appctlpb.TrafficPattern{Seed: proto.Int32(2), TcpFragment: frag(false), Nonce: nonce(3, false, 0, 12, hex12), Padding: pad(0, 0), LowEntropy: le(m56, l15)}},
		{"server-only-LE(32/l15) subset12(c:first) printable12(s:all) pad255/255",
			&appctlpb.TrafficPattern{Seed: proto.Int32(3), TcpFragment: frag(false), Nonce: nonce(2, false, 12, 12), Padding: pad(255, 255), LowEntropy: le(off, 0)},
			&appctlpb.TrafficPattern{Seed: proto.Int32(4), TcpFragment: frag(false), Nonce: nonce(1, true, 12, 12), Padding: pad(255, 255), LowEntropy: le(m32, l15)}},
		{"client-only-LE(56/l15) fixed12(c:first,s:all) pad(c:1/254,s:254/1) frag(s:on)",
			&appctlpb.TrafficPattern{Seed: proto.Int32(5), TcpFragment: frag(false), Nonce: nonce(3, false, 0, 12, hex12), Padding: pad(1, 254), LowEntropy: le(m56, l15)},
			&appctlpb.TrafficPattern{Seed: proto.Int32(6), TcpFragment: frag(true), Nonce: nonce(3, true, 0, 12, hex12), Padding: pad(254, 1), LowEntropy: le(off, 0)}},
	}
	scripts := []sim.Script{
		{ClientWrites: []int{100, 3000, 20000}, ServerWrites: []int{50, 5000, 20000}, MaxRead: 65536},
		{ClientWrites: []int{2000, 1}, ServerWrites: []int{1, 2000}, MaxRead: 1500, ClientClose: true},
	}
	var out []c16WireCase
	for i, x := range worlds {
		for _, udp := range []bool{false, true} {
			k := c16WireCase{Stage: "c16wire", Name: x.name, UDP: udp, Seed: int64(1000 + i), ClientPattern: patJSON(x.c), ServerPattern: patJSON(x.s), Scripts: scripts}
			if udp {
				k.MTU = []int{1280, 1400, 1500}[i%3]
			}
			out = append(out, k)
		}
	}
	return out
}

func init() {
	core.RegisterExtra("C16", func(c *core.Ctx) {
		c.Correspondence("wire stage: decoded prefix/suffix lengths, protocol types, low-entropy mode/rotation (per-session histories in capture order vs the model's session machine, pw-le-check), nonce prefixes and TCP write boundaries (pw-frag-ok) of real sessions vs the EFFECTIVE pattern of each side")
		cases := c16FixedWorlds()
		n := c.N(12, 150)
		for i := 0; i < n; i++ {
			if i%2 == 0 {
				g := genC01(c.Rand, false)
				cases = append(cases, c16WireCase{Stage: "c16wire", Name: "random", Seed: g.Seed, ClientPattern: g.ClientPattern, ServerPattern: g.ServerPattern, Scripts: g.Scripts})
			} else {
				g := genUDPCase(c.Rand, 30000, false)
				cases = append(cases, c16WireCase{Stage: "c16wire", Name: "random", UDP: true, Seed: g.Seed, MTU: g.MTU, ClientPattern: g.ClientPattern, ServerPattern: g.ServerPattern, Scripts: g.Scripts})
			}
		}
		core.Parallel(len(cases), 6, func(i int) { c16WireRun(c, cases[i]) })
		bgClose.Wait(30 * time.Second)
	})
	core.RegisterReplay("C16", func(c *core.Ctx, raw json.RawMessage) bool {
		var k c16WireCase
		if json.Unmarshal(raw, &k) != nil || k.Stage != "c16wire" {
			return false
		}
		c16WireRun(c, k)
		bgClose.Wait(30 * time.Second)
		return true
	})
}
