package props

import (
	"encoding/hex"
	"fmt"
	"strings"
	"time"

	"github.com/enfein/mieru/v3/pkg/appctl/appctlpb"
	"verifharness/core"
	"verifharness/sim"
	"verifharness/simnet"
	"verifharness/wire"
)

// C16, wire stage: explicitly configured traffic-pattern values are what the emitted traffic
// exhibits. Real sessions run over the in-memory network with patterns known to the harness; every
// emitted segment is decoded with the reference codec and compared with the EXPLICIT fields of the
// emitting side's pattern:
//   * padding: prefixLen ≤ maxMiddlePaddingLen, suffixLen ≤ maxEndPaddingLen (0 ⇒ none)
//   * low entropy: client data segments are type 10 with the configured mode/rotation iff the
//     client's mode is explicit and ≠ OFF, never if explicitly OFF; server type 11 only if the server's
//     mode is on AND that client already used type 10 ("server only after client")
//   * nonce prefix: PRINTABLE / PRINTABLE_SUBSET ⇒ at least minLen leading bytes in the class, FIXED ⇒
//     starts with one of the configured prefixes; on UDP only the first datagram of an underlay unless
//     applyToAllUDPPacket
//   * TCP fragmentation explicitly disabled ⇒ every Write call carries whole segments

const common64 = "0123456789ABCDEFGHIJKLMNOPQRSTUVWXYZabcdefghijklmnopqrstuvwxyz-_" // checked against the code below

func printable(b byte) bool { return b >= 0x20 && b <= 0x7e }

func c16CheckNonce(p *appctlpb.NoncePattern, nonce []byte) string {
	if p == nil || p.Type == nil {
		return ""
	}
	minLen := 0
	if p.MinLen != nil {
		minLen = int(p.GetMinLen())
	}
	if p.MaxLen != nil && int(p.GetMaxLen()) < minLen {
		minLen = int(p.GetMaxLen())
	}
	switch p.GetType() {
	case appctlpb.NonceType_NONCE_TYPE_PRINTABLE:
		for i := 0; i < minLen && i < len(nonce); i++ {
			if !printable(nonce[i]) {
				return fmt.Sprintf("nonce byte %d (0x%02x) is not printable although type PRINTABLE with minLen %d is configured", i, nonce[i], minLen)
			}
		}
	case appctlpb.NonceType_NONCE_TYPE_PRINTABLE_SUBSET:
		for i := 0; i < minLen && i < len(nonce); i++ {
			c := nonce[i]
			ok := (c >= '0' && c <= '9') || (c >= 'A' && c <= 'Z') || (c >= 'a' && c <= 'z') || !isAlnumOnlySet() && printable(c)
			if !ok {
				return fmt.Sprintf("nonce byte %d (0x%02x) is outside the printable subset although minLen %d is configured", i, c, minLen)
			}
		}
	case appctlpb.NonceType_NONCE_TYPE_FIXED:
		if len(p.GetCustomHexStrings()) == 0 {
			return ""
		}
		for _, h := range p.GetCustomHexStrings() {
			pre, err := hex.DecodeString(h)
			if err == nil && len(pre) <= len(nonce) && string(nonce[:len(pre)]) == string(pre) {
				return ""
			}
		}
		return fmt.Sprintf("nonce %x starts with none of the configured fixed prefixes %v", nonce[:12], p.GetCustomHexStrings())
	}
	return ""
}

// the subset's exact alphabet is an implementation detail; accept any printable byte unless the set
// is known to be alphanumeric-only (conservative: never alarms on a correct implementation)
func isAlnumOnlySet() bool { return false }

type c16Seg struct {
	seg    *wire.Segment
	c2s    bool
	first  bool // first segment of its direction on its underlay (carries the nonce on TCP)
	client string
}

func c16CheckSegments(c *core.Ctx, segs []c16Seg, cp, sp *appctlpb.TrafficPattern, udp bool, replay interface{}) {
	clientUsedLE := map[string]bool{}
	seenNonce := map[string]bool{}
	for _, x := range segs {
		s := x.seg
		pat := sp
		side := "server"
		if x.c2s {
			pat, side = cp, "client"
		}
		c.Hist("wire_checked", side)
		if pat != nil && pat.Padding != nil {
			if pat.Padding.MaxMiddlePaddingLen != nil && !s.IsSession() && int(s.PrefixLen) > int(pat.Padding.GetMaxMiddlePaddingLen()) {
				c.Violate("C16/wire/middle-padding-exceeds-configured", fmt.Sprintf("%s emitted a type-%d segment with %d bytes of middle padding, configured maximum %d", side, s.Proto, s.PrefixLen, pat.Padding.GetMaxMiddlePaddingLen()), replay)
			}
			if pat.Padding.MaxEndPaddingLen != nil && int(s.SuffixLen) > int(pat.Padding.GetMaxEndPaddingLen()) {
				c.Violate("C16/wire/end-padding-exceeds-configured", fmt.Sprintf("%s emitted a type-%d segment with %d bytes of end padding, configured maximum %d", side, s.Proto, s.SuffixLen, pat.Padding.GetMaxEndPaddingLen()), replay)
			}
		}
		if s.IsData() && len(s.Payload) > 0 {
			if x.c2s && s.IsLE() {
				clientUsedLE[x.client] = true
			}
			if pat != nil && pat.LowEntropy != nil && pat.LowEntropy.Mode != nil {
				mode := pat.LowEntropy.GetMode()
				if mode == appctlpb.LowEntropyMode_LOW_ENTROPY_MODE_OFF && s.IsLE() {
					c.Violate("C16/wire/low-entropy-used-although-off", fmt.Sprintf("%s emitted type %d although its low-entropy mode is explicitly OFF", side, s.Proto), replay)
				}
				if mode != appctlpb.LowEntropyMode_LOW_ENTROPY_MODE_OFF {
					if x.c2s && !s.IsLE() {
						c.Violate("C16/wire/low-entropy-not-used", fmt.Sprintf("client emitted plain data type %d although low-entropy mode %v is configured", s.Proto, mode), replay)
					}
					if s.IsLE() && int(s.Byte1) != int(mode) {
						c.Violate("C16/wire/low-entropy-mode-differs", fmt.Sprintf("%s emitted low-entropy mode %d, configured %v", side, s.Byte1, mode), replay)
					}
					if s.IsLE() && pat.LowEntropy.MaskRotation != nil && int(s.LERot) != int(pat.LowEntropy.GetMaskRotation()) {
						c.Violate("C16/wire/low-entropy-rotation-differs", fmt.Sprintf("%s emitted rotation %d, configured %d", side, s.LERot, pat.LowEntropy.GetMaskRotation()), replay)
					}
				}
			}
			if !x.c2s && s.IsLE() && !clientUsedLE[x.client] {
				c.Violate("C16/wire/server-low-entropy-before-client", "server emitted a low-entropy data segment towards a client that had not used low entropy", replay)
			}
		}
		// nonce prefix
		if pat != nil && pat.Nonce != nil {
			key := fmt.Sprintf("%s/%v", x.client, x.c2s)
			check := false
			if udp {
				// only the client's own cipher applies the pattern once per underlay; the server's
				// per-user ciphers are cloned per datagram, so only applyToAll is checkable there
				if pat.Nonce.GetApplyToAllUDPPacket() {
					check = true
				} else if x.c2s && !seenNonce[key] {
					check = true
				}
			} else if x.first {
				check = true
			}
			seenNonce[key] = true
			if check {
				if msg := c16CheckNonce(pat.Nonce, s.Nonce); msg != "" {
					c.Violate("C16/wire/nonce-prefix", side+": "+msg, replay)
				}
			}
		}
	}
}

func init() {
	core.RegisterExtra("C16", func(c *core.Ctx) {
		c.Correspondence("wire stage: decoded prefix/suffix lengths, protocol types, low-entropy mode/rotation, nonce prefixes and TCP write boundaries of real sessions vs the explicit fields of each side's traffic pattern")
		n := c.N(12, 150)
		type wc struct {
			tcp c01Case
			udp udpCase
			isU bool
		}
		cases := make([]wc, n)
		for i := range cases {
			if i%2 == 0 {
				k := genC01(c.Rand, false)
				k.MaxChunk = 0
				k.Multiplex = 0 // one underlay per session: "first segment of a direction" is well defined
				cases[i] = wc{tcp: k}
			} else {
				k := genUDPCase(c.Rand, 30000, false)
				k.Faults = sim.FaultSpec{Seed: 1}
				k.Multiplex = 0
				cases[i] = wc{udp: k, isU: true}
			}
		}
		core.Parallel(n, 6, func(i int) {
			x := cases[i]
			var cfg sim.Config
			var scripts []sim.Script
			var seed int64
			var rep interface{}
			if x.isU {
				k := x.udp
				cfg = sim.Config{UDP: true, MTU: k.MTU, Seed: k.Seed, ClientPattern: patFromJSON(k.ClientPattern), ServerPattern: patFromJSON(k.ServerPattern)}
				scripts, seed, rep = k.Scripts, k.Seed, k
			} else {
				k := x.tcp
				cfg = sim.Config{Seed: k.Seed, ClientPattern: patFromJSON(k.ClientPattern), ServerPattern: patFromJSON(k.ServerPattern)}
				scripts, seed, rep = k.Scripts, k.Seed, k
			}
			w, err := sim.NewWorld(cfg)
			if err != nil {
				c.Violate("C16/wire/valid-pattern-does-not-run", "a valid traffic pattern was rejected at start-up: "+err.Error(), rep)
				return
			}
			defer bgClose.Go(w.Close)
			tr := sim.RunTransfer(w, scripts, seed, 90*time.Second)
			c.Eval(fmt.Sprintf("c16-wire/%v/%d", x.isU, seed), true)
			for _, f := range tr.Check(scripts) {
				c.Violate("C16/wire/valid-pattern-does-not-run", "transfer under a valid traffic pattern failed: "+f, rep)
			}
			var segs []c16Seg
			if x.isU {
				seen := map[string]bool{}
				for _, d := range w.DecodeDatagrams() {
					if d.Err != nil {
						c.Violate("C16/wire/pattern-not-exhibited", fmt.Sprintf("datagram #%d emitted under the configured pattern cannot be decoded by the reference codec (%v): the traffic does not exhibit the configured low-entropy mode / rotation / lengths", d.Index, d.Err), rep)
						continue
					}
					c2s := d.To == "10.8.0.1:8964"
					client := d.From
					if !c2s {
						client = d.To
					}
					k := fmt.Sprintf("%s/%v", client, c2s)
					segs = append(segs, c16Seg{seg: d.Seg, c2s: c2s, first: !seen[k], client: client})
					seen[k] = true
				}
			} else {
				w.Net.Lock()
				caps := append([]*simnet.StreamCapture(nil), w.Net.Streams...)
				w.Net.Unlock()
				for _, ds := range w.DecodeStreams() {
					if ds.Err != nil {
						c.Violate("C16/wire/pattern-not-exhibited", fmt.Sprintf("conn %d (client→server=%v) emitted under the configured pattern cannot be decoded by the reference codec (%v): the traffic does not exhibit the configured low-entropy mode / rotation / lengths", ds.ConnID, ds.ClientToServer, ds.Err), rep)
						continue
					}
					for j, s := range ds.Segs {
						segs = append(segs, c16Seg{seg: s, c2s: ds.ClientToServer, first: j == 0, client: fmt.Sprint(ds.ConnID)})
					}
					// TCP fragmentation explicitly disabled: write boundaries coincide with segment ends
					pat := cfg.ServerPattern
					if ds.ClientToServer {
						pat = cfg.ClientPattern
					}
					if pat != nil && pat.TcpFragment != nil && pat.TcpFragment.Enable != nil && !pat.TcpFragment.GetEnable() {
						ends := map[int]bool{}
						off := 0
						for _, s := range ds.Segs {
							off += s.WireLen
							ends[off] = true
						}
						off = 0
						for _, wsz := range ds.Writes {
							off += wsz
							if off <= ds.Bytes-ds.Pending && !ends[off] {
								c.Violate("C16/wire/tcp-fragmented-although-disabled", fmt.Sprintf("conn %d: a Write call ended at stream offset %d, inside a segment, although tcpFragment.enable=false", ds.ConnID, off), rep)
								break
							}
						}
					}
				}
				_ = caps
			}
			// order: stable by construction (per stream in order; datagrams in emission order)
			// interleave c2s before s2c of the same client for the "server only after client" rule on TCP
			if !x.isU {
				var c2s, s2c []c16Seg
				for _, s := range segs {
					if s.c2s {
						c2s = append(c2s, s)
					} else {
						s2c = append(s2c, s)
					}
				}
				segs = append(c2s, s2c...)
			}
			c16CheckSegments(c, segs, cfg.ClientPattern, cfg.ServerPattern, x.isU, rep)
		})
		bgClose.Wait(30 * time.Second)
		_ = strings.Join
	})
}
