package props

import (
	"bytes"
	"crypto/sha256"
	"encoding/hex"
	"encoding/json"
	"fmt"
	"net"
	"os"
	"path/filepath"
	"sort"
	"strconv"
	"strings"
	"sync"
	"sync/atomic"

	"github.com/enfein/mieru/v3/pkg/appctl/appctlpb"
	"github.com/enfein/mieru/v3/pkg/cipher"
	"github.com/enfein/mieru/v3/pkg/protocol/serveruser"
	"google.golang.org/protobuf/proto"
	"verifharness/core"
)

// C07 — sessions are attributed to the authenticating user despite caches and reloads.
//
// Correspondence: the real serveruser.Registry (exported API + add-only hooks: injected tick,
// cache lookup/record for a key, bucket index, discovery with an afterAttempt seam) against
// Mieru.Model.Discovery.tryState and Mieru.Model.SrcCache. First-segment metadata is sealed with
// the real cipher API under chosen nonces (so the 4-byte user hint can name any user, nobody, an
// unregistered name, or two colliding names at once). Direct oracles: an accepted segment is
// attributed to a user whose credential sealed it; a hinted authenticating user has precedence;
// mandatory hints; equality with a COLD registry holding the same users whenever at most one user
// authenticates; after SetUsers a removed credential never authenticates.

type c07Cred struct {
	Name   string `json:"name"`
	Pw     string `json:"pw,omitempty"`     // password (credential = SHA-256(pw ‖ 0x00 ‖ name))
	Hashed string `json:"hashed,omitempty"` // hex of a 32-byte credential used as is (may be shared)
	Skip   bool   `json:"skip,omitempty"`   // an unusable record (no credential): buildState must skip it
}

type c07Op struct {
	Kind string `json:"kind"` // discover | reload | record-held | cache-record | cache-lookup | concurrent
	Dt   uint32 `json:"dt,omitempty"`
	Src  int    `json:"src,omitempty"` // index into the source pool
	// discover
	EncAs  int   `json:"enc_as,omitempty"` // index into Creds whose credential seals the metadata; -1 garbage
	Hint   int   `json:"hint,omitempty"`   // index into Creds whose NAME the nonce names; -1 none; -3 the colliding pair
	Record bool  `json:"record,omitempty"`
	Hold   bool  `json:"hold,omitempty"` // keep the Authentication for a later record-held
	ReqCur bool  `json:"require_current,omitempty"`
	During []int `json:"reload_during,omitempty"` // SetUsers(these) from the afterAttempt seam of the FIRST attempt
	// Seams[k] = the user sets given to SetUsers (in order) from the afterAttempt seam of attempt k: a
	// reload during the retry attempt is Seams[1], two reloads inside one attempt are two entries of
	// Seams[k]. (During is Seams[0] = [During]; kept for recorded cases.)
	Seams [][][]int `json:"seams,omitempty"`
	// reload
	Users []int `json:"users,omitempty"`
	// cache-record
	ID uint32 `json:"id,omitempty"`
}

type c07Case struct {
	Kind      string    `json:"kind"` // history | selectway | age
	Creds     []c07Cred `json:"creds,omitempty"`
	Users     []int     `json:"users,omitempty"` // initial user set (indices into Creds)
	Mandatory bool      `json:"mandatory,omitempty"`
	Tick0     uint32    `json:"tick0,omitempty"`
	Prefix    string    `json:"nonce_prefix,omitempty"` // hex, 16 bytes: prefix for which Creds[0], Creds[1] get colliding names
	Ops       []c07Op   `json:"ops,omitempty"`
	// selectway / age
	Now   uint32  `json:"now,omitempty"`
	Ticks []int64 `json:"ticks,omitempty"`
}

// ------------------------------------------------------------------------------------------
// source pool: addresses whose cache keys share a bucket in THIS process (the hash is seeded per
// process, so they are searched for at run time, deterministically from the seed)

type c07Source struct {
	addr net.Addr
	desc string
}

var (
	c07PoolOnce sync.Once
	c07Pool     []c07Source
)

func c07BuildPool(c *core.Ctx) {
	c07PoolOnce.Do(func() {
		byBucket := map[uint32][]net.IP{}
		var best uint32
		for i := 0; i < 60000; i++ {
			ip := make(net.IP, 16)
			ip[0], ip[1] = 0x20, 0x01
			for j := 2; j < 16; j++ {
				ip[j] = byte((i*2654435761 + j*40503 + i>>j) >> uint(j%3))
			}
			ip[12], ip[13], ip[14], ip[15] = byte(i>>24), byte(i>>16), byte(i>>8), byte(i)
			b := serveruser.VerifBucketIndex(serveruser.SourceFromAddr(&net.TCPAddr{IP: ip, Port: 1}))
			byBucket[b] = append(byBucket[b], ip)
			if len(byBucket[b]) > len(byBucket[best]) {
				best = b
			}
			if len(byBucket[best]) >= 7 {
				break
			}
		}
		col := byBucket[best]
		for i := 0; i < 6; i++ {
			ip := col[i%len(col)]
			c07Pool = append(c07Pool, c07Source{&net.TCPAddr{IP: ip, Port: 1000 + i}, fmt.Sprintf("collide%d", i)})
		}
		// equal keys reached through different addresses
		c07Pool = append(c07Pool, c07Source{&net.UDPAddr{IP: col[0], Port: 53}, "collide0-udp-other-port"})
		c07Pool = append(c07Pool, c07Source{&net.TCPAddr{IP: net.IPv4(10, 1, 2, 3).To4(), Port: 7}, "v4"})
		c07Pool = append(c07Pool, c07Source{&net.UDPAddr{IP: net.IPv4(10, 1, 2, 3).To16(), Port: 9}, "v4-mapped"})
		c07Pool = append(c07Pool, c07Source{&net.UnixAddr{Name: "x", Net: "unix"}, "no-source"})
		c07Pool = append(c07Pool, c07Source{&net.TCPAddr{IP: net.ParseIP("2001:db8::77"), Port: 7}, "other1"})
		c07Pool = append(c07Pool, c07Source{&net.TCPAddr{IP: net.IPv4(192, 0, 2, 200).To4(), Port: 7}, "other2"})
		c.Note("C07: %d source keys share cache bucket %d in this process", len(col), best)
	})
}

const c07PoolSize = 12

// ------------------------------------------------------------------------------------------
// credentials, hints

func c07Credential(k c07Cred) []byte {
	if k.Hashed != "" {
		b, _ := hex.DecodeString(k.Hashed)
		return b
	}
	h := sha256.Sum256(append(append([]byte(k.Pw), 0x00), k.Name...))
	return h[:]
}

// c07Hint4 is the harness's own computation of the 4-byte user hint (docs/protocol.md).
func c07Hint4(name string, prefix []byte) []byte {
	h := sha256.Sum256(append([]byte(name), prefix[:16]...))
	return h[:4]
}

var c07CollisionCache sync.Map // prefix hex → [2]string

// c07CollidingNames searches generated names for two that share the hint under `prefix`.
func c07CollidingNames(prefix []byte) (string, string, bool) {
	key := hex.EncodeToString(prefix)
	if v, ok := c07CollisionCache.Load(key); ok {
		p := v.([2]string)
		return p[0], p[1], p[0] != ""
	}
	seen := make(map[[4]byte]int, 1<<19)
	for i := 0; i < 400000; i++ {
		name := "u" + strconv.Itoa(i)
		var k [4]byte
		copy(k[:], c07Hint4(name, prefix))
		if j, ok := seen[k]; ok {
			p := [2]string{"u" + strconv.Itoa(j), name}
			c07CollisionCache.Store(key, p)
			return p[0], p[1], true
		}
		seen[k] = i
	}
	c07CollisionCache.Store(key, [2]string{})
	return "", "", false
}

func c07UserMap(creds []c07Cred, idx []int) map[string]*appctlpb.User {
	m := map[string]*appctlpb.User{}
	for _, i := range idx {
		k := creds[i]
		u := &appctlpb.User{Name: proto.String(k.Name)}
		switch {
		case k.Skip:
		case k.Hashed != "":
			u.HashedPassword = proto.String(k.Hashed)
		default:
			u.Password = proto.String(k.Pw)
		}
		m[fmt.Sprintf("%03d-%s", i, k.Name)] = u
	}
	return m
}

// c07Generation is the harness's own view of what buildState must produce: usable users sorted
// by name, ids 1..n.
func c07Generation(creds []c07Cred, idx []int) []int {
	var g []int
	for _, i := range idx {
		if !creds[i].Skip && creds[i].Name != "" {
			g = append(g, i)
		}
	}
	sort.Slice(g, func(a, b int) bool { return creds[g[a]].Name < creds[g[b]].Name })
	return g
}

func c07IDs(ids []int) string {
	if len(ids) == 0 {
		return "-"
	}
	s := make([]string, len(ids))
	for i, v := range ids {
		s[i] = strconv.Itoa(v)
	}
	return strings.Join(s, ",")
}

func c07IDs32(ids []uint32) string {
	x := make([]int, len(ids))
	for i, v := range ids {
		x[i] = int(v)
	}
	return c07IDs(x)
}

var c07Origins = []string{"unknown", "cached-hint", "registry-hint", "cached-fallback", "registry-fallback"}

// ------------------------------------------------------------------------------------------

type c07Run struct {
	c     *core.Ctx
	k     c07Case
	reg   *serveruser.Registry
	gen   []int // current generation: indices into Creds, id = position + 1
	set   []int // current user set as given to SetUsers
	tick  uint32
	keys  map[[16]byte]int
	held  *serveruser.Authentication
	heldG int // generation counter at the time it was obtained
	heldS serveruser.Source
	hist  map[int][][2]uint32 // model key → (user id, tick) recorded in the current generation
	genNo int
	rnd   func(n int) []byte
	// identity of every generation published in this case, in order (serveruser.VerifGeneration), and
	// the harness's own view of each (indices into Creds, id = position + 1)
	genTok  []any
	genSets [][]int
	credTok map[string]int
}

func (op c07Op) seams() [][][]int {
	if len(op.Seams) > 0 {
		return op.Seams
	}
	if len(op.During) > 0 {
		return [][][]int{{op.During}}
	}
	return nil
}

// credToken gives equal credentials equal small numbers (the model's credential tokens)
func (r *c07Run) credToken(k c07Cred) int {
	if r.credTok == nil {
		r.credTok = map[string]int{}
	}
	h := hex.EncodeToString(c07Credential(k))
	if _, ok := r.credTok[h]; !ok {
		r.credTok[h] = 1000 + len(r.credTok)
	}
	return r.credTok[h]
}

// genSpec is a generation in the drivers' notation: name:cred,… in id order (name token = index in Creds + 1)
func (r *c07Run) genSpec(gen []int) string {
	if len(gen) == 0 {
		return "-"
	}
	parts := make([]string, len(gen))
	for i, ci := range gen {
		parts[i] = fmt.Sprintf("%d:%d", ci+1, r.credToken(r.k.Creds[ci]))
	}
	return strings.Join(parts, ",")
}

func (r *c07Run) keyOf(src serveruser.Source) (bucket uint32, key int, valid bool) {
	kb, ok := serveruser.VerifSourceKey(src)
	if !ok {
		return 0, 0, false
	}
	if _, seen := r.keys[kb]; !seen {
		r.keys[kb] = len(r.keys) + 1
	}
	return serveruser.VerifBucketIndex(src), r.keys[kb], true
}

func (r *c07Run) setUsers(idx []int) {
	r.set = idx
	r.reg.SetUsers(c07UserMap(r.k.Creds, idx))
	serveruser.VerifSetCacheTick(r.reg, func() uint32 { return r.tick })
	r.gen = c07Generation(r.k.Creds, idx)
	r.genNo++
	r.genTok = append(r.genTok, serveruser.VerifGeneration(r.reg))
	r.genSets = append(r.genSets, r.gen)
	r.hist = map[int][][2]uint32{}
	r.c.Model.Ask("srccache-new")
	// tie: the code's generation is the harness's expectation (sorted by name, dense ids)
	names := serveruser.VerifUserNames(r.reg)
	var want []string
	for _, i := range r.gen {
		want = append(want, r.k.Creds[i].Name)
	}
	if strings.Join(names, "\x00") != strings.Join(want, "\x00") {
		r.c.Disagree("C07/corr/generation", fmt.Sprintf("buildState users %q, expected %q", names, want), r.k)
	}
}

// seal builds the encrypted first-segment metadata for one discover op.
func (r *c07Run) seal(op c07Op) (enc []byte, nonce []byte, sealCred []byte) {
	nonce = r.rnd(24)
	switch {
	case op.Hint >= 0:
		copy(nonce[20:], c07Hint4(r.k.Creds[op.Hint].Name, nonce))
	case op.Hint == -3:
		prefix, _ := hex.DecodeString(r.k.Prefix)
		copy(nonce, prefix)
		copy(nonce[20:], c07Hint4(r.k.Creds[0].Name, nonce))
	}
	if op.EncAs < 0 {
		return append(append([]byte(nil), nonce...), r.rnd(48)...), nonce, nil
	}
	sealCred = c07Credential(r.k.Creds[op.EncAs])
	block, err := cipher.BlockCipherFromPassword(sealCred, true)
	if err != nil {
		return nil, nonce, nil
	}
	buf := make([]byte, 24, 24+32+16)
	copy(buf, nonce)
	if err := block.EncryptWithNonce(buf, nonce, r.rnd(32)); err != nil {
		return nil, nonce, nil
	}
	return buf[:24+32+16], nonce, sealCred
}

// noteRecord tells the model (and the harness's own history) that `id` was recorded for `src` now.
func (r *c07Run) noteRecord(src serveruser.Source, id uint32) {
	if bucket, key, ok := r.keyOf(src); ok {
		r.c.Model.Ask("srccache-record %d %d %d %d", bucket, key, id, r.tick)
		if id != 0 {
			r.hist[key] = append(r.hist[key], [2]uint32{id, r.tick})
		}
	}
}

// checkLookup is the direct oracle for the cache: only ids recorded for exactly this key less
// than 600 ticks ago, each once, at most 16.
func (r *c07Run) checkLookup(oi int, src serveruser.Source, ids []uint32) {
	_, key, ok := r.keyOf(src)
	if !ok {
		if len(ids) != 0 {
			r.c.Violate("C07/cache/lookup-without-source", fmt.Sprintf("op %d: ids %v for an unusable source", oi, ids), r.k)
		}
		return
	}
	seen := map[uint32]bool{}
	for _, id := range ids {
		fresh := false
		for _, h := range r.hist[key] {
			if h[0] == id && r.tick-h[1] < 600 {
				fresh = true
			}
		}
		switch {
		case id == 0 || seen[id] || len(ids) > 16:
			r.c.Violate("C07/cache/lookup-malformed", fmt.Sprintf("op %d: lookup returned %v", oi, ids), r.k)
		case !fresh:
			r.c.Violate("C07/cache/lookup-unsound", fmt.Sprintf("op %d: lookup returned user id %d which was not recorded for this source key within the last 600 ticks (tick %d, recorded %v)", oi, id, r.tick, r.hist[key]), r.k)
		}
		seen[id] = true
	}
}

func (r *c07Run) modelLookup(src serveruser.Source) (string, bool) {
	bucket, key, valid := r.keyOf(src)
	if !valid {
		return "-", false
	}
	m := r.c.Model.Ask("srccache-lookup %d %d %d", bucket, key, r.tick)
	return strings.TrimPrefix(m, "ok "), true
}

// expectations of the harness itself for one sealed segment against a generation
func (r *c07Run) sets(gen []int, nonce, sealCred []byte) (hintIDs, authIDs []int) {
	for pos, ci := range gen {
		id := pos + 1
		k := r.k.Creds[ci]
		if bytes.Equal(c07Hint4(k.Name, nonce), nonce[20:]) {
			hintIDs = append(hintIDs, id)
		}
		if sealCred != nil && bytes.Equal(c07Credential(k), sealCred) {
			authIDs = append(authIDs, id)
		}
		if real := cipher.CheckUserFromHint([]byte(k.Name), nonce); real != bytes.Equal(c07Hint4(k.Name, nonce), nonce[20:]) {
			r.c.Disagree("C07/corr/hint", fmt.Sprintf("CheckUserFromHint(%q) = %v differs from SHA-256(name ‖ nonce[:16])[:4] == nonce[20:]", k.Name, real), r.k)
		}
	}
	return
}

func c07Min(a, b int) int {
	if a < b {
		return a
	}
	return b
}

func c07Has(ids []int, id int) bool {
	for _, v := range ids {
		if v == id {
			return true
		}
	}
	return false
}

func (r *c07Run) discover(oi int, op c07Op) {
	c := r.c
	src := serveruser.SourceFromAddr(c07Pool[op.Src%len(c07Pool)].addr)
	enc, nonce, sealCred := r.seal(op)
	if enc == nil {
		c.Note("C07: could not seal metadata (case skipped)")
		return
	}
	oldGen := r.gen
	hintIDs, authIDs := r.sets(oldGen, nonce, sealCred)
	cachedModel, valid := r.modelLookup(src)
	if valid {
		realIDs := serveruser.VerifCacheLookup(r.reg, src)
		r.checkLookup(oi, src, realIDs)
		real := c07IDs32(realIDs)
		c.Compared()
		if real != cachedModel {
			c.Disagree("C07/corr/srccache-lookup", fmt.Sprintf("op %d: cache lookup for %s: model %s impl %s", oi, c07Pool[op.Src%len(c07Pool)].desc, cachedModel, real), r.k)
		}
	}
	c.Hist("cached_ids", strconv.Itoa(strings.Count(cachedModel, ",")+map[bool]int{true: 0, false: 1}[cachedModel == "-"]))
	mand := map[bool]int{false: 0, true: 1}[r.k.Mandatory]

	// the reload seam: discoverUser's own afterAttempt hook, fired on EVERY attempt
	seams := op.seams()
	fired := false
	startIdx := len(r.genTok) - 1
	var seamSpecs []string // per attempt, the generations its seam published (driver notation)
	seam := func(attempt int) {
		if attempt >= len(seams) {
			return
		}
		var specs []string
		for _, set := range seams[attempt] {
			fired = true
			r.setUsers(set)
			specs = append(specs, r.genSpec(r.gen))
		}
		for len(seamSpecs) < attempt {
			seamSpecs = append(seamSpecs, "=")
		}
		if len(specs) == 0 {
			seamSpecs = append(seamSpecs, "=")
		} else {
			seamSpecs = append(seamSpecs, strings.Join(specs, "+"))
		}
	}
	var tr serveruser.VerifDiscoveryTrace
	panicked := ""
	func() {
		defer func() {
			if p := recover(); p != nil {
				panicked = fmt.Sprint(p)
			}
		}()
		tr = serveruser.VerifDiscoverTraced(r.reg, enc, src, op.ReqCur, seam)
	}()
	if panicked != "" {
		c.Violate("C07/discover-panic", fmt.Sprintf("op %d: discovery panicked with cached ids %s: %s", oi, cachedModel, panicked), r.k)
		return
	}
	d, err := tr.Result, tr.Err
	if !tr.Intact {
		// a key epoch rolled while the decryptors were traced: the attempt lists are incomplete
		c.Res.Discarded++
		return
	}
	cachedFirst := cachedModel
	// the harness's own replay of the loop: which generation the returned outcome was computed on
	judged := oldGen
	finalAttempt := 0
	for k := 0; ; k++ {
		finalAttempt = k
		if len(judged) == 0 {
			break // "no server user found": returned at once, no seam
		}
		reloaded := k < len(seams) && len(seams[k]) > 0
		if op.ReqCur && reloaded {
			judged = c07Generation(r.k.Creds, seams[k][len(seams[k])-1])
			continue
		}
		break
	}
	if finalAttempt > 0 {
		// earlier attempts were discarded; the outcome comes from a fresh generation, cold cache
		hintIDs, authIDs = r.sets(judged, nonce, sealCred)
		cachedModel = "-"
	}
	r.compareSchedule(oi, op, tr, startIdx, oldGen, nonce, sealCred, cachedFirst, seamSpecs, len(seams))
	switch {
	case len(seams) == 0:
		c.Hist("reload_seam", "none")
	default:
		desc := fmt.Sprintf("rc=%v/attempts=%d", op.ReqCur, len(tr.Attempts))
		for k, sm := range seams {
			if len(sm) > 1 {
				desc += fmt.Sprintf("/%d-reloads-in-seam-%d", len(sm), k)
			}
		}
		c.Hist("reload_seam", desc)
	}
	m := c.Model.Ask("disc-try %d %s %s %d %s", len(judged), c07IDs(hintIDs), c07IDs(authIDs), mand, cachedModel)
	c.Compared()
	got := "ok none"
	if err == nil {
		got = fmt.Sprintf("ok %d %s", d.UserID, c07Origins[d.Origin])
	}
	mf := strings.Fields(m)
	mres := m
	tried := 0
	if len(mf) >= 3 {
		mres = strings.Join(mf[:len(mf)-1], " ")
		if mf[len(mf)-1] != "-" {
			tried = strings.Count(mf[len(mf)-1], ",") + 1
		}
	}
	key := fmt.Sprintf("d/%d/%s/%s/%d/%s", len(judged), c07IDs(hintIDs), c07IDs(authIDs), mand, cachedModel)
	c.Eval(key, err == nil)
	if err == nil {
		c.Hist("outcome", c07Origins[d.Origin])
	} else {
		c.Hist("outcome", "rejected")
	}
	c.Hist("auth_users", strconv.Itoa(len(authIDs)))
	c.Hist("hint_users", strconv.Itoa(len(hintIDs)))
	if mres != got {
		c.Disagree("C07/corr/discover", fmt.Sprintf("op %d: n=%d hint=%s auth=%s mandatory=%d cached=%s: model %s impl %s", oi, len(judged), c07IDs(hintIDs), c07IDs(authIDs), mand, cachedModel, m, got), r.k)
	} else if err == nil && d.Attempts != tried {
		c.Disagree("C07/corr/attempts", fmt.Sprintf("op %d: impl ran %d decryptions, model %d (%s)", oi, d.Attempts, tried, m), r.k)
	}

	// ---- direct oracles
	caseKey := fmt.Sprintf("auth=%d/hint=%d/mand=%d", c07Min(len(authIDs), 2), c07Min(len(hintIDs), 2), mand)
	if err == nil {
		id := int(d.UserID)
		if id < 1 || id > len(judged) || r.k.Creds[judged[id-1]].Name != d.UserName {
			c.Violate("C07/attribution/unknown-user", fmt.Sprintf("op %d: attributed to id %d name %q which is not a user of the generation", oi, id, d.UserName), r.k)
		} else if !c07Has(authIDs, id) {
			c.Violate("C07/attribution/not-authenticating/"+caseKey, fmt.Sprintf("op %d: attributed to %q whose credential did not seal the segment", oi, d.UserName), r.k)
		}
		if r.k.Mandatory && !c07Has(hintIDs, id) {
			c.Violate("C07/mandatory-hint/accepted-unhinted", fmt.Sprintf("op %d: hints are mandatory, attributed to %q which the hint does not name", oi, d.UserName), r.k)
		}
		hintedAuth := false
		for _, h := range hintIDs {
			hintedAuth = hintedAuth || c07Has(authIDs, h)
		}
		if hintedAuth && !c07Has(hintIDs, id) {
			c.Violate("C07/hint-precedence/"+caseKey, fmt.Sprintf("op %d: a hinted user authenticates but %q (not hinted) was chosen", oi, d.UserName), r.k)
		}
		if op.ReqCur && !d.GenerationCurrent {
			c.Violate("C07/reload/stale-generation", fmt.Sprintf("op %d: requireCurrent result belongs to a generation that is no longer published", oi), r.k)
		}
	} else {
		mustAccept := false
		for _, a := range authIDs {
			if !r.k.Mandatory || c07Has(hintIDs, a) {
				mustAccept = true
			}
		}
		if mustAccept {
			c.Violate("C07/rejected-valid/"+caseKey, fmt.Sprintf("op %d: a registered credential sealed the segment (auth ids %s, hint ids %s) but it was rejected: %v", oi, c07IDs(authIDs), c07IDs(hintIDs), err), r.k)
		}
	}
	// cold registry: same users, nothing cached, no source
	cold := &serveruser.Registry{}
	cold.SetUsers(c07UserMap(r.k.Creds, r.set))
	cold.SetHintMandatory(r.k.Mandatory)
	if !(fired && !op.ReqCur) { // (a snapshot result of the OLD generation is not comparable with the new set)
		cb, _, _, cerr := cold.Discover(enc, serveruser.Source{}, true)
		coldName := ""
		if cerr == nil {
			coldName = cb.BlockContext().UserName
		}
		warmName := ""
		if err == nil {
			warmName = d.UserName
		}
		c.Hist("cold_vs_warm", map[bool]string{true: "same", false: "different"}[coldName == warmName])
		if len(authIDs) <= 1 && coldName != warmName {
			c.Violate("C07/cache-dependent/"+caseKey, fmt.Sprintf("op %d: warm registry → %q, cold registry with the same users → %q (cached ids %s, source %s)", oi, warmName, coldName, cachedModel, c07Pool[op.Src%len(c07Pool)].desc), r.k)
		}
	}
	// record / hold
	if err == nil {
		switch {
		case op.Hold:
			a := d.Auth
			r.held, r.heldG, r.heldS = &a, r.genNo, src
		case op.Record && !(fired && !op.ReqCur):
			a := d.Auth
			a.Record()
			r.noteRecord(src, d.UserID)
		case op.Record:
			a := d.Auth // result of the retired generation: Record must be a no-op
			a.Record()
		}
	}
}

// compareSchedule compares discoverUser, attempt by attempt, with Mieru.Reload.run (driver op
// reload-run): the outcome, the generation it is attributed to, and for EVERY attempt (also the
// discarded ones and the rejecting one) the generation it ran on and the ORDERED ids of the users
// whose decryptor ran.
func (r *c07Run) compareSchedule(oi int, op c07Op, tr serveruser.VerifDiscoveryTrace, startIdx int, startGen []int, nonce, sealCred []byte, cachedFirst string, seamSpecs []string, nSeams int) {
	c := r.c
	key := "-"
	if sealCred != nil {
		key = strconv.Itoa(r.credToken(c07Cred{Hashed: hex.EncodeToString(sealCred)}))
	}
	var hinted []int
	for ci, k := range r.k.Creds {
		if k.Name != "" && bytes.Equal(c07Hint4(k.Name, nonce), nonce[20:]) {
			hinted = append(hinted, ci+1)
		}
	}
	var sched []string
	for k := 0; k <= nSeams; k++ {
		cached := "-"
		if k == 0 {
			cached = cachedFirst
		}
		sm := "="
		if k < len(seamSpecs) {
			sm = seamSpecs[k]
		}
		sched = append(sched, cached+"/"+sm)
	}
	m := c.Model.Ask("reload-run %d %d %s %s %s %s", map[bool]int{false: 0, true: 1}[op.ReqCur], map[bool]int{false: 0, true: 1}[r.k.Mandatory], key, c07IDs(hinted), r.genSpec(startGen), strings.Join(sched, " "))
	c.Compared()
	genIdx := func(tok any) int {
		for i := len(r.genTok) - 1; i >= 0; i-- {
			if r.genTok[i] == tok {
				return i - startIdx
			}
		}
		return -1000
	}
	got := []string{"ok"}
	if tr.Err == nil {
		name := 0
		for ci, k := range r.k.Creds {
			if k.Name == tr.Result.UserName {
				name = ci + 1
			}
		}
		got = append(got, fmt.Sprintf("ret:%d:%d", genIdx(tr.Generation), name))
	} else {
		// the generation of a rejection is not exposed by discoverUser: the model's is its last attempt's
		gi := 0
		if n := len(tr.Attempts); n > 0 {
			gi = genIdx(tr.Attempts[n-1].Generation)
		} else {
			gi = len(r.genTok) - 1 - startIdx
		}
		got = append(got, fmt.Sprintf("ret:%d:none", gi))
	}
	for _, a := range tr.Attempts {
		got = append(got, fmt.Sprintf("%d:%s", genIdx(a.Generation), c07IDs32(a.Tried)))
	}
	if g := strings.Join(got, " "); g != m {
		c.Disagree("C07/corr/reload-schedule", fmt.Sprintf("op %d: discoverUser (requireCurrent=%v, seams %v) outcome and attempts [generation:tried ids…] %q, Mieru.Reload.run %q", oi, op.ReqCur, op.seams(), g, m), r.k)
	}
	// direct oracle: the outcome is attributed to a generation that was published at or after the
	// start of the discovery; with requireCurrent it is the published one at the return
	if tr.Err == nil {
		if gi := genIdx(tr.Generation); gi < 0 {
			c.Violate("C07/reload/generation-retired-before-start", fmt.Sprintf("op %d: the result is attributed to a generation that was retired before the discovery started", oi), r.k)
		}
	}
}

func (r *c07Run) run() {
	c := r.c
	r.reg = &serveruser.Registry{}
	r.reg.SetHintMandatory(r.k.Mandatory)
	r.keys = map[[16]byte]int{}
	r.tick = r.k.Tick0
	r.setUsers(r.k.Users)
	for oi, op := range r.k.Ops {
		r.tick += op.Dt
		c.Hist("op", op.Kind)
		switch op.Kind {
		case "discover":
			r.discover(oi, op)
		case "reload":
			r.setUsers(op.Users)
		case "record-held":
			if r.held != nil {
				uid, _, _ := serveruser.VerifAuthInfo(*r.held)
				r.held.Record()
				if r.heldG == r.genNo {
					// still the same generation: a normal record; otherwise the generation is
					// retired and Record must leave the new generation's cache untouched
					r.noteRecord(r.heldS, uid)
				}
				r.held = nil
			}
		case "cache-record":
			src := serveruser.SourceFromAddr(c07Pool[op.Src%len(c07Pool)].addr)
			serveruser.VerifCacheRecord(r.reg, src, op.ID)
			r.noteRecord(src, op.ID)
		case "cache-lookup":
			src := serveruser.SourceFromAddr(c07Pool[op.Src%len(c07Pool)].addr)
			if mm, ok := r.modelLookup(src); ok {
				ids := serveruser.VerifCacheLookup(r.reg, src)
				real := c07IDs32(ids)
				c.Compared()
				c.Eval(fmt.Sprintf("lk/%d/%s", r.tick, real), len(ids) > 0)
				if real != mm {
					c.Disagree("C07/corr/srccache-lookup", fmt.Sprintf("op %d: cache lookup: model %s impl %s", oi, mm, real), r.k)
				}
				r.checkLookup(oi, src, ids)
			}
		}
		if c07Violated(c) {
			return
		}
	}
}

// c07Violated: a direct-oracle failure has been found (a mere model/implementation disagreement
// does not stop the run: the search for a concrete failing input goes on).
func c07Violated(c *core.Ctx) bool { return len(c.Res.Violations) > 0 }

func c07RunCase(c *core.Ctx, k c07Case) {
	c07BuildPool(c)
	switch k.Kind {
	case "selectway":
		if len(k.Ticks) != 4 {
			return
		}
		var la [4]int64
		args := make([]string, 4)
		for i, t := range k.Ticks {
			la[i] = t
			args[i] = "-"
			if t >= 0 {
				args[i] = strconv.FormatInt(t, 10)
			}
		}
		way := serveruser.VerifSelectWay(la, k.Now)
		m := c.Model.Ask("srccache-selectway %d %s", k.Now, strings.Join(args, " "))
		c.Compared()
		c.Eval(fmt.Sprintf("sw/%d/%v", k.Now, k.Ticks), true)
		if m != fmt.Sprintf("ok %d", way) {
			c.Disagree("C07/corr/selectway", fmt.Sprintf("selectSourceUserCacheWay(%v, now=%d): model %s impl %d", k.Ticks, k.Now, m, way), k)
		}
		if c.Gen != nil {
			// the definition REGENERATED from the current source (loops unrolled) against the real function
			g := strings.Fields(c.Gen.Ask("c07-selectway %d %s", k.Now, strings.Join(args, " ")))
			c.Compared()
			if len(g) != 3 || g[0] != "ok" || g[1] != strconv.Itoa(way) {
				c.Disagree("C07/corr/gen-selectway", fmt.Sprintf("selectSourceUserCacheWay(%v, now=%d): regenerated definition %v impl %d", k.Ticks, k.Now, g, way), k)
			}
		}
	case "age":
		for _, t := range k.Ticks {
			a, e := serveruser.VerifAge(k.Now, uint32(t))
			m := c.Model.Ask("srccache-age %d %d", k.Now, uint32(t))
			c.Compared()
			if m != fmt.Sprintf("ok %d %v", a, e) {
				c.Disagree("C07/corr/age", fmt.Sprintf("age(now=%d, then=%d): model %s impl %d %v", k.Now, uint32(t), m, a, e), k)
			}
			if c.Gen != nil {
				g := c.Gen.Ask("c07-age %d %d", k.Now, uint32(t))
				c.Compared()
				if g != fmt.Sprintf("ok %d %v", a, e) {
					c.Disagree("C07/corr/gen-age", fmt.Sprintf("age(now=%d, then=%d): regenerated definition %s impl %d %v", k.Now, uint32(t), g, a, e), k)
				}
			}
		}
	default:
		if len(k.Creds) == 0 {
			return
		}
		state := uint64(0x9e3779b97f4a7c15)
		for _, b := range []byte(fmt.Sprintf("%v%v%v", k.Users, k.Tick0, len(k.Ops))) {
			state = state*1099511628211 + uint64(b)
		}
		r := &c07Run{c: c, k: k, rnd: func(n int) []byte {
			out := make([]byte, n)
			for i := range out {
				state ^= state << 13
				state ^= state >> 7
				state ^= state << 17
				out[i] = byte(state >> 32)
			}
			return out
		}}
		r.run()
	}
}

// ------------------------------------------------------------------------------------------
// generators

func c07GenCreds(c *core.Ctx, n int, shared int, collide bool) ([]c07Cred, string) {
	var creds []c07Cred
	prefix := ""
	if collide {
		for try := 0; try < 6; try++ {
			p := make([]byte, 16)
			c.Rand.Read(p)
			if a, b, ok := c07CollidingNames(p); ok {
				prefix = hex.EncodeToString(p)
				creds = append(creds, c07Cred{Name: a, Pw: "pw-" + a}, c07Cred{Name: b, Pw: "pw-" + b})
				break
			}
		}
	}
	for len(creds) < n {
		i := len(creds)
		name := fmt.Sprintf("%s%02d", []string{"alice", "bob", "carol", "dave", "zoe", "mallory"}[c.Rand.Intn(6)], i)
		// boundary name lengths on every run: 48/49 (name ‖ nonce[:16] crosses one SHA-256 block), 56, 63 and
		// the legal maximum 64 — the hint a correct client computes must name such a user too (seeded C07-7)
		if i%2 == 1 {
			name += strings.Repeat("x", []int{49, 64, 48, 56, 63}[(i/2)%5]-len(name))
		}
		creds = append(creds, c07Cred{Name: name, Pw: fmt.Sprintf("secret-%d-%d", i, c.Rand.Intn(1000))})
	}
	if shared > 1 {
		h := sha256.Sum256([]byte(fmt.Sprintf("shared-%d", c.Rand.Int())))
		for j := 0; j < shared && j < n; j++ {
			i := len(creds) - 1 - j
			creds[i].Pw, creds[i].Hashed = "", hex.EncodeToString(h[:])
		}
	}
	// one credential that is never registered, one unusable record
	creds = append(creds, c07Cred{Name: "ghost", Pw: "never-registered"}, c07Cred{Name: "broken", Skip: true})
	return creds, prefix
}

func c07GenHistory(c *core.Ctx, family string) c07Case {
	nUsers := 2 + c.Rand.Intn(6)
	shared := 0
	collide := false
	switch family {
	case "shared":
		shared = 2 + c.Rand.Intn(2)
		nUsers = shared + 1 + c.Rand.Intn(3)
	case "collide":
		collide = true
	case "many":
		nUsers = 17 + c.Rand.Intn(8)
	}
	creds, prefix := c07GenCreds(c, nUsers, shared, collide)
	ghost, broken := len(creds)-2, len(creds)-1
	k := c07Case{Kind: "history", Creds: creds, Mandatory: c.Rand.Intn(3) == 0, Prefix: prefix}
	switch c.Rand.Intn(4) {
	case 0:
		k.Tick0 = 0
	case 1:
		k.Tick0 = 4294967295 - uint32(c.Rand.Intn(700)) // the 32-bit tick wraps during the history
	default:
		k.Tick0 = uint32(c.Rand.Intn(100000))
	}
	for i := 0; i < nUsers; i++ {
		k.Users = append(k.Users, i)
	}
	if c.Rand.Intn(3) == 0 {
		k.Users = append(k.Users, broken)
	}
	cur := append([]int(nil), k.Users...)
	dts := []uint32{0, 0, 0, 1, 1, 1, 2, 5, 5, 30, 60, 299, 598, 599, 600, 601, 1200}
	pickSrc := func() int {
		if c.Rand.Intn(4) == 0 {
			return c.Rand.Intn(c07PoolSize)
		}
		return c.Rand.Intn(7) // the colliding ones
	}
	nOps := 10 + c.Rand.Intn(30)
	if family == "many" {
		nOps = 40 + c.Rand.Intn(30)
	}
	for i := 0; i < nOps; i++ {
		op := c07Op{Kind: "discover", Dt: dts[c.Rand.Intn(len(dts))], Src: pickSrc(), Record: c.Rand.Intn(5) != 0, ReqCur: c.Rand.Intn(2) == 0}
		regd := cur[c.Rand.Intn(len(cur))]
		if family == "many" {
			// fill one source entry beyond its 16 user slots: every user in turn, same source key
			op.Src = []int{0, 6}[c.Rand.Intn(2)]
			op.Dt = uint32(c.Rand.Intn(3))
			op.Record = true
			regd = cur[i%len(cur)]
		}
		if regd == broken {
			regd = cur[0]
		}
		switch r := c.Rand.Intn(20); {
		case r < 12:
			op.EncAs = regd
		case r < 14:
			op.EncAs = ghost
		case r < 15:
			op.EncAs = -1
		default:
			op.EncAs = c.Rand.Intn(nUsers) // possibly a removed user
		}
		switch r := c.Rand.Intn(20); {
		case r < 9 && op.EncAs >= 0:
			op.Hint = op.EncAs // the honest client: hint names the sealing user
		case r < 12:
			op.Hint = cur[c.Rand.Intn(len(cur))] // names somebody else
		case r < 14:
			op.Hint = ghost
		case r < 16 && collide && prefix != "":
			op.Hint = -3
			if c.Rand.Intn(2) == 0 {
				op.EncAs = c.Rand.Intn(2)
			}
		default:
			op.Hint = -1
		}
		randomSet := func(keep int) []int {
			var next []int
			for j := 0; j < nUsers; j++ {
				if c.Rand.Intn(keep) != 0 {
					next = append(next, j)
				}
			}
			if len(next) == 0 {
				next = []int{c.Rand.Intn(nUsers)}
			}
			return next
		}
		switch c.Rand.Intn(29) {
		case 25: // a reload during the first attempt AND one during the retry attempt
			a, b := randomSet(3), randomSet(3)
			op.Seams = [][][]int{{a}, {b}}
			cur = b
			if !op.ReqCur {
				cur = a // without requireCurrent there is no second attempt
			}
		case 26: // two reloads inside one attempt
			a, b := randomSet(3), randomSet(4)
			op.Seams = [][][]int{{a, b}}
			cur = b
		case 27: // a reload that publishes the same users again (a new generation all the same)
			op.Seams = [][][]int{{append([]int(nil), cur...)}}
		case 28: // three attempts
			a, b, d := randomSet(3), randomSet(3), randomSet(2)
			op.Seams = [][][]int{{a}, {b, d}, {}}
			cur = d
			if !op.ReqCur {
				cur = a
			}
		case 0:
			var next []int
			for j := 0; j < nUsers; j++ {
				if c.Rand.Intn(4) != 0 {
					next = append(next, j)
				}
			}
			if len(next) == 0 {
				next = []int{0}
			}
			k.Ops = append(k.Ops, c07Op{Kind: "reload", Users: next})
			cur = next
		case 1:
			var next []int
			for j := 0; j < nUsers; j++ {
				if c.Rand.Intn(3) != 0 {
					next = append(next, j)
				}
			}
			if len(next) == 0 {
				next = []int{nUsers - 1}
			}
			op.During = next
			cur = next
		case 2:
			op.Hold = true
		case 3:
			k.Ops = append(k.Ops, c07Op{Kind: "record-held"})
		case 4, 5:
			// arbitrary cache contents: stale / zero / out-of-range / duplicate ids
			for j := 0; j < 1+c.Rand.Intn(20); j++ {
				k.Ops = append(k.Ops, c07Op{Kind: "cache-record", Src: pickSrc(), ID: uint32(c.Rand.Intn(nUsers + 4)), Dt: uint32(c.Rand.Intn(3))})
			}
		case 6:
			k.Ops = append(k.Ops, c07Op{Kind: "cache-lookup", Src: pickSrc(), Dt: dts[c.Rand.Intn(len(dts))]})
		}
		k.Ops = append(k.Ops, op)
	}
	return k
}

// c07BoundaryHistories: deterministic histories run on EVERY run before the random stream (guide item
// 4): every boundary the property's quantifier and the cache geometry name.
func c07BoundaryHistories(c *core.Ctx) []c07Case {
	var out []c07Case
	disc := func(enc, hint, src int, dt uint32, record bool) c07Op {
		return c07Op{Kind: "discover", EncAs: enc, Hint: hint, Src: src, Dt: dt, Record: record}
	}
	lookup := func(src int, dt uint32) c07Op { return c07Op{Kind: "cache-lookup", Src: src, Dt: dt} }
	users := func(n int) []int {
		u := make([]int, n)
		for i := range u {
			u[i] = i
		}
		return u
	}
	// (1) hint collisions: two users (distinct credentials) whose names collide on the 4-byte hint; the
	// OTHER one is cached for the source; both hint modes; same and another source
	for _, mand := range []bool{false, true} {
		creds, prefix := c07GenCreds(c, 4, 0, true)
		if prefix == "" {
			c.Note("C07: no colliding name pair found for the boundary case")
			continue
		}
		out = append(out, c07Case{Kind: "history", Creds: creds, Users: users(4), Mandatory: mand, Tick0: 1000, Prefix: prefix, Ops: []c07Op{
			disc(0, -3, 0, 1, true), lookup(0, 0), disc(1, -3, 0, 1, true), disc(0, -3, 0, 1, true), disc(1, -3, 0, 1, false),
			disc(1, -3, 10, 1, true), disc(0, -3, 10, 1, false), disc(2, -3, 0, 1, false), disc(1, -3, 0, 601, false),
		}})
		c.Hist("boundary_history", fmt.Sprintf("hint-collision/mandatory=%v", mand))
	}
	// (2) users per source 0, 1, 15, 16, 17 (the 16-slot entry and the 16-id attempted array): user i
	// authenticates from ONE source; after 0, 1, 15, 16, 17 users a lookup and an unhinted segment of the
	// FIRST user (cached fallback / evicted → registry fallback), hints optional and mandatory
	for _, mand := range []bool{false, true} {
		creds, _ := c07GenCreds(c, 18, 0, false)
		k := c07Case{Kind: "history", Creds: creds, Users: users(18), Mandatory: mand, Tick0: 50}
		for i := 0; i <= 17; i++ {
			switch i {
			case 0, 1, 15, 16, 17:
				k.Ops = append(k.Ops, lookup(0, 0), disc(0, -1, 0, 0, false), disc(0, 0, 0, 0, false), disc(17, 17, 0, 0, false))
				c.Hist("boundary_users_per_source", strconv.Itoa(i))
			}
			if i < 17 {
				k.Ops = append(k.Ops, disc(i, i, 0, 1, true))
			}
		}
		out = append(out, k)
	}
	// (3) 3, 4, 5 source keys in one bucket (4 ways): way replacement
	{
		creds, _ := c07GenCreds(c, 3, 0, false)
		k := c07Case{Kind: "history", Creds: creds, Users: users(3), Tick0: 7}
		for key := 0; key < 5; key++ {
			k.Ops = append(k.Ops, disc(key%3, key%3, key, 2, true))
			if key >= 2 {
				for q := 0; q <= key; q++ {
					k.Ops = append(k.Ops, lookup(q, 0))
				}
				c.Hist("boundary_keys_in_bucket", strconv.Itoa(key+1))
			}
		}
		out = append(out, k)
	}
	// (4) dt ∈ {0, 1, 599, 600, 601, 1200} after a record, starting just below the 32-bit tick wrap
	for _, dt := range []uint32{0, 1, 599, 600, 601, 1200} {
		for _, t0 := range []uint32{0, 4294967295 - 300, 4294967295} {
			creds, _ := c07GenCreds(c, 2, 0, false)
			out = append(out, c07Case{Kind: "history", Creds: creds, Users: users(2), Tick0: t0, Ops: []c07Op{
				disc(0, 0, 0, 0, true), disc(1, 1, 0, 1, true), lookup(0, dt), disc(0, -1, 0, 0, false), disc(1, -1, 0, 0, true), lookup(0, 599), lookup(0, 1),
			}})
		}
		c.Hist("boundary_dt", strconv.FormatUint(uint64(dt), 10))
	}
	// (5) cached ids 0 / n / n+1 / duplicates, cached list lengths 0, 1, 15, 16 injected through the hook
	for _, n := range []int{0, 1, 15, 16} {
		creds, _ := c07GenCreds(c, 3, 0, false)
		k := c07Case{Kind: "history", Creds: creds, Users: users(3), Tick0: 99}
		for j := 0; j < n; j++ {
			k.Ops = append(k.Ops, c07Op{Kind: "cache-record", Src: 0, ID: uint32([]int{3, 4, 0, 2, 2, 9, 1}[j%7] + 10*(j/7)), Dt: 0})
		}
		k.Ops = append(k.Ops, lookup(0, 0), disc(2, -1, 0, 0, false), disc(2, 2, 0, 0, false), disc(0, 1, 0, 0, false), disc(-1, -1, 0, 0, false))
		out = append(out, k)
		c.Hist("boundary_cached_len", strconv.Itoa(n))
	}
	return out
}

// c07Concurrent: SetUsers racing with Discover (thorough tier). Only schedule-independent facts
// are asserted: no panic, an accepted segment is attributed to the sealing user, and once the
// reloads have stopped on a set without that user its credential is refused.
func c07Concurrent(c *core.Ctx) {
	creds := []c07Cred{{Name: "keep", Pw: "k"}, {Name: "victim", Pw: "v"}, {Name: "other", Pw: "o"}}
	withV, withoutV := c07UserMap(creds, []int{0, 1, 2}), c07UserMap(creds, []int{0, 2})
	reg := &serveruser.Registry{}
	reg.SetUsers(withV)
	block, err := cipher.BlockCipherFromPassword(c07Credential(creds[1]), true)
	if err != nil {
		return
	}
	block.SetBlockContext(cipher.BlockContext{UserName: "victim"})
	seal := func() []byte {
		buf := make([]byte, 0, 24+32+16)
		if err := block.Encrypt(buf, make([]byte, 32)); err != nil {
			return nil
		}
		return buf[:24+32+16]
	}
	var stop atomic.Bool
	var wg sync.WaitGroup
	var wrong atomic.Value
	var accepted, rejected atomic.Int64
	for g := 0; g < 4; g++ {
		wg.Add(1)
		go func(g int) {
			defer wg.Done()
			defer func() {
				if p := recover(); p != nil {
					wrong.Store(fmt.Sprintf("panic: %v", p))
				}
			}()
			src := serveruser.SourceFromAddr(c07Pool[g%len(c07Pool)].addr)
			for !stop.Load() {
				enc := seal()
				if enc == nil {
					return
				}
				b, _, a, err := reg.Discover(enc, src, g%2 == 0)
				if err != nil {
					rejected.Add(1)
					continue
				}
				accepted.Add(1)
				if b.BlockContext().UserName != "victim" {
					wrong.Store("attributed to " + b.BlockContext().UserName)
				}
				a.Record()
			}
		}(g)
	}
	for i := 0; i < 300; i++ {
		if i%2 == 0 {
			reg.SetUsers(withoutV)
		} else {
			reg.SetUsers(withV)
		}
	}
	reg.SetUsers(withoutV) // the final, completed reload removes the victim
	stop.Store(true)
	wg.Wait()
	c.Note("C07 concurrent reload: %d accepted, %d rejected while reloading", accepted.Load(), rejected.Load())
	if w := wrong.Load(); w != nil {
		c.Violate("C07/reload/concurrent-misattribution", w.(string), map[string]string{"kind": "concurrent"})
	}
	for _, rc := range []bool{true, false} {
		if b, _, _, err := reg.Discover(seal(), serveruser.SourceFromAddr(c07Pool[0].addr), rc); err == nil {
			c.Violate("C07/reload/removed-credential-accepted", fmt.Sprintf("after the completed reload the removed user's credential authenticated as %q (requireCurrent=%v)", b.BlockContext().UserName, rc), map[string]string{"kind": "concurrent"})
		}
	}
}

func c07LoadCorpus(c *core.Ctx) []c07Case {
	var out []c07Case
	files, _ := filepath.Glob(filepath.Join(c.Corpus, "*.json"))
	sort.Strings(files)
	for _, f := range files {
		raw, err := os.ReadFile(f)
		if err != nil {
			continue
		}
		var wrap struct {
			Input json.RawMessage `json:"input"`
		}
		if json.Unmarshal(raw, &wrap) == nil && len(wrap.Input) > 0 {
			raw = wrap.Input
		}
		var k c07Case
		if json.Unmarshal(raw, &k) == nil && k.Kind != "" {
			out = append(out, k)
		} else {
			c.Note("C07: corpus file %s not understood", filepath.Base(f))
		}
	}
	return out
}

func init() {
	core.AddConsts(serveruser.VerifConstsC07)
	core.Register("C07", &core.Scenario{
		Run: func(c *core.Ctx) {
			c.Res.Rule = "histories of first segments against one registry: user sets of 2–24 users (distinct credentials; 2–3 users sharing one hashed credential; two names colliding on the 4-byte hint for the case's nonce prefix, found by birthday search), sealed by a registered / removed / never-registered credential or garbage, hint naming the sealing user / another user / an unregistered name / both colliding names / nobody, hints mandatory or optional, from 12 source addresses (6 sharing one cache bucket, equal keys via IPv4-mapped and TCP/UDP forms, one without a usable key), ticks advancing by 0..1200 incl. the 599/600/601 expiry edge and 32-bit wrap, arbitrary cache contents injected through the hook (zero, duplicate, out-of-range ids), reloads between and during discoveries, records on retired generations. Distinct = distinct (n, hint ids, auth ids, mandatory, cached ids) tuple; nontrivial = accepted."
			c.Correspondence("disc-try: serveruser.Registry discovery (tryState/tryUser/discoverUser) vs Mieru.Model.Discovery.tryState")
			c.Correspondence("srccache-lookup/record/selectway/age: source_user_cache.go vs Mieru.Model.SrcCache")
			c07BuildPool(c)
			for _, k := range c07LoadCorpus(c) {
				c07RunCase(c, k)
			}
			for _, k := range c07BoundaryHistories(c) {
				c07RunCase(c, k)
				if c07Violated(c) {
					break
				}
			}
			fams := []string{"distinct", "distinct", "shared", "collide", "many", "distinct", "shared"}
			for i := 0; i < c.N(60, 900); i++ {
				k := c07GenHistory(c, fams[i%len(fams)])
				if i < 2 {
					c.Sample(map[string]interface{}{"users": len(k.Users), "mandatory": k.Mandatory, "ops": len(k.Ops), "family": fams[i%len(fams)], "first_ops": k.Ops[:c07Min(3, len(k.Ops))]})
				}
				c.Hist("family", fams[i%len(fams)])
				c07RunCase(c, k)
				if c07Violated(c) {
					break
				}
			}
			// deterministic boundaries on every run: every nil pattern; expiry edge 599/600/601 in each way;
			// ties and strict maxima of the age in each position; now at 0, at the 32-bit wrap
			for _, now := range []uint32{0, 1, 599, 600, 601, 1200, 4294967295, 4294967294, 2147483648} {
				for mask := 0; mask < 16; mask++ {
					k := c07Case{Kind: "selectway", Now: now}
					for j := 0; j < 4; j++ {
						if mask&(1<<j) != 0 {
							k.Ticks = append(k.Ticks, -1)
						} else {
							k.Ticks = append(k.Ticks, int64(now-uint32(10*j)))
						}
					}
					c07RunCase(c, k)
				}
				for pos := 0; pos < 4; pos++ {
					for _, d := range []uint32{0, 1, 598, 599, 600, 601, 4294967295} {
						for _, base := range []uint32{5, 300, 599} {
							k := c07Case{Kind: "selectway", Now: now, Ticks: []int64{int64(now - base), int64(now - base), int64(now - base), int64(now - base)}}
							k.Ticks[pos] = int64(now - d)
							c07RunCase(c, k)
						}
					}
				}
				c07RunCase(c, c07Case{Kind: "age", Now: now, Ticks: []int64{int64(now), int64(now - 1), int64(now - 599), int64(now - 600), int64(now - 601), int64(now - 1200), int64(now + 1), 0, 1, 4294967295}})
				c.Hist("boundary_now", strconv.FormatUint(uint64(now), 10))
			}
			for i := 0; i < c.N(300, 5000); i++ {
				k := c07Case{Kind: "selectway", Now: c.Rand.Uint32()}
				if c.Rand.Intn(3) == 0 {
					k.Now = uint32(c.Rand.Intn(2000))
				}
				for j := 0; j < 4; j++ {
					switch c.Rand.Intn(6) {
					case 0:
						k.Ticks = append(k.Ticks, -1)
					case 1:
						k.Ticks = append(k.Ticks, int64(k.Now-uint32(599+c.Rand.Intn(3))))
					case 2:
						k.Ticks = append(k.Ticks, int64(c.Rand.Uint32()))
					default:
						k.Ticks = append(k.Ticks, int64(k.Now-uint32(c.Rand.Intn(600))))
					}
				}
				c07RunCase(c, k)
			}
			for i := 0; i < c.N(50, 500); i++ {
				now := c.Rand.Uint32()
				k := c07Case{Kind: "age", Now: now, Ticks: []int64{int64(now), int64(now - 599), int64(now - 600), int64(now - 601), int64(now + 1), int64(c.Rand.Uint32()), 0, 4294967295}}
				c07RunCase(c, k)
			}
			if c.Thorough() && !c.Failed() {
				c07Concurrent(c)
			}
		},
		Replay: func(c *core.Ctx, raw json.RawMessage) {
			var k c07Case
			if json.Unmarshal(raw, &k) == nil {
				if k.Kind == "concurrent" {
					c07BuildPool(c)
					c07Concurrent(c)
					return
				}
				c07RunCase(c, k)
			}
		},
	})
}
