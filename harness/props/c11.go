package props

import (
	"bytes"
	"context"
	"encoding/json"
	"fmt"
	"go/ast"
	"go/parser"
	"go/token"
	"net"
	"path/filepath"
	"strings"
	"sync/atomic"
	"time"

	"github.com/enfein/mieru/v3/pkg/socks5"
	"verifharness/core"
)

// C11 — with SOCKS5 credentials configured, nothing is proxied without them.
//
// Correspondence: the real socks5.Server.ServeConn (exported API only; it contains
// handleAuthentication and the decision to dial the proxy / read the request) over an in-memory
// scripted conn with a stub ProxyDialer, against Mieru.SocksAuth.serveConn: every byte written back,
// whether DialContext was reached, how many transcript bytes were consumed, and what the request
// reader / the proxy connection received.
// Direct oracle (independent of the model, parser written from RFC 1928/1929): with credentials
// configured the dialer / request reader is reached only if the transcript presents a configured
// pair, and `05 00` is never sent; without credentials no-auth is accepted when offered, user/pass
// is never selected.

type c11Cred struct {
	User string `json:"user"` // hex
	Pass string `json:"pass"` // hex
}

type c11Case struct {
	Kind           string    `json:"kind"`     // generator label (offer / supplied class), informational
	Supplied       string    `json:"supplied"` // label of what follows the method list
	UseProxy       bool      `json:"use_proxy"`
	ClientSideAuth bool      `json:"client_side_auth"`
	Creds          []c11Cred `json:"creds"`
	Transcript     string    `json:"transcript"` // hex, everything the application sends before end-of-stream
	Chunk          int       `json:"chunk"`      // read segmentation (0 = none)
}

type c11Dialer struct {
	calls atomic.Int32
	conn  *socksScriptConn
}

func (d *c11Dialer) DialContext(ctx context.Context) (net.Conn, error) {
	d.calls.Add(1)
	return d.conn, nil
}

var (
	c11BindReq     = []byte{5, 2, 0, 1, 127, 0, 0, 1, 0, 80} // BIND: answered "command not supported", no network
	c11BadAtypReq  = []byte{5, 2, 0, 9, 1, 2}                // unknown address type: answered 08
	c11ConnectReq  = []byte{5, 1, 0, 1, 1, 2, 3, 4, 0, 80}   // client placement only (relayed to the stub)
	c11ProxyResp   = []byte{5, 0, 0, 1, 0, 0, 0, 0, 0, 0}
	c11BindReply   = []byte{5, 7, 0, 1, 0, 0, 0, 0, 0, 0}
	c11AtypReply   = []byte{5, 8, 0, 1, 0, 0, 0, 0, 0, 0}
	c11MethodAlpha = []byte{0x00, 0x01, 0x02, 0x80, 0xFF}
)

// socksReqLen: length of the SOCKS5 request at the head of b (RFC 1928 §4), ok=false if incomplete/invalid.
func socksReqLen(b []byte) (int, bool) {
	if len(b) < 4 {
		return 0, false
	}
	n := 0
	switch b[3] {
	case 1:
		n = 4 + 4 + 2
	case 4:
		n = 4 + 16 + 2
	case 3:
		if len(b) < 5 {
			return 0, false
		}
		n = 4 + 1 + int(b[4]) + 2
	default:
		return 0, false
	}
	if len(b) < n {
		return 0, false
	}
	return n, true
}

// c11Presents is the property's own reading of RFC 1928 §3 + RFC 1929 §2: the transcript is a
// version-5 method offer containing user/password (0x02), followed by a version-1 message whose
// user and password are one of the configured pairs. end = index just after the password.
func c11Presents(creds []c11Cred, t []byte) (bool, int) {
	if len(t) < 2 || t[0] != 5 || t[1] == 0 {
		return false, 0
	}
	n := int(t[1])
	if len(t) < 2+n {
		return false, 0
	}
	if !bytes.Contains(t[2:2+n], []byte{2}) {
		return false, 0
	}
	p := 2 + n
	if len(t) < p+2 || t[p] != 1 {
		return false, 0
	}
	ul := int(t[p+1])
	if len(t) < p+2+ul+1 {
		return false, 0
	}
	user := t[p+2 : p+2+ul]
	q := p + 2 + ul
	pl := int(t[q])
	if len(t) < q+1+pl {
		return false, 0
	}
	pass := t[q+1 : q+1+pl]
	for _, c := range creds {
		if bytes.Equal(core.UnHex(c.User), user) && bytes.Equal(core.UnHex(c.Pass), pass) {
			return true, q + 1 + pl
		}
	}
	return false, 0
}

func c11OfferClass(t []byte) string {
	if len(t) < 2 || t[0] != 5 {
		return "not-socks5"
	}
	n := int(t[1])
	if n == 0 || len(t) < 2+n {
		return "misframed"
	}
	m := t[2 : 2+n]
	has0, has2 := bytes.IndexByte(m, 0) >= 0, bytes.IndexByte(m, 2) >= 0
	switch {
	case has0 && has2:
		return "noauth+userpass"
	case has0:
		return "noauth"
	case has2:
		return "userpass"
	}
	return "other"
}

func c11CredsArg(cs []c11Cred) string {
	if len(cs) == 0 {
		return "-"
	}
	var parts []string
	for _, c := range cs {
		parts = append(parts, c.User+":"+c.Pass)
	}
	return strings.Join(parts, ",")
}

type c11Obs struct {
	written      []byte
	consumed     int
	dialed       int
	proxyWritten []byte
	returned     bool
	panicked     string
}

func c11RunImpl(k c11Case) c11Obs {
	t := core.UnHex(k.Transcript)
	var creds []socks5.Credential
	for _, c := range k.Creds {
		creds = append(creds, socks5.Credential{User: string(core.UnHex(c.User)), Password: string(core.UnHex(c.Pass))})
	}
	d := &c11Dialer{conn: newSocksScriptConn(c11ProxyResp, 0, "")}
	cfg := &socks5.Config{
		UseProxy: k.UseProxy,
		AuthOpts: socks5.Auth{ClientSideAuthentication: k.ClientSideAuth, IngressCredentials: creds},
		// a real deadline is armed and ignored by the scripted conn; keeps the code path of production
		HandshakeTimeout: 10 * time.Second,
	}
	if k.UseProxy {
		cfg.ProxyDialer = d
	}
	var o c11Obs
	srv, err := socks5.New(cfg)
	if err != nil {
		o.panicked = "socks5.New: " + err.Error()
		return o
	}
	conn := newSocksScriptConn(t, k.Chunk, "")
	done := make(chan struct{})
	go func() {
		defer close(done)
		defer func() {
			if r := recover(); r != nil {
				o.panicked = fmt.Sprint(r)
			}
		}()
		srv.ServeConn(conn)
	}()
	select {
	case <-done:
		o.returned = true
	case <-time.After(20 * time.Second):
	}
	o.written = conn.Written()
	o.consumed = conn.Consumed()
	o.dialed = int(d.calls.Load())
	o.proxyWritten = d.conn.Written()
	return o
}

// c11ServerGate: on the server placement the stream handed to the request reader must be one the
// harness can predict without touching the network: nothing, something that is not version 5, or a
// prefix of the two marker requests (BIND, unknown address type).
func c11ServerGate(rest []byte) bool {
	return len(rest) == 0 || rest[0] != 5 || bytes.HasPrefix(c11BindReq, rest) || bytes.HasPrefix(c11BadAtypReq, rest) ||
		bytes.HasPrefix(rest, c11BindReq) || bytes.HasPrefix(rest, c11BadAtypReq)
}

// c11ServerReply: what serverServeConn answers to such a stream (readRequest: 3-byte header, version
// check, address type, address, port; BIND → 07; unknown address type → 08).
func c11ServerReply(rest []byte) []byte {
	if len(rest) < 4 || rest[0] != 5 {
		return nil
	}
	if rest[3] == 9 {
		return c11AtypReply
	}
	if bytes.HasPrefix(rest, c11BindReq) {
		return c11BindReply
	}
	return nil
}

func c11Placement(k c11Case) string {
	if k.UseProxy {
		return "client"
	}
	return "server"
}

func c11Run(c *core.Ctx, k c11Case) {
	t := core.UnHex(k.Transcript)
	authHere := k.UseProxy == k.ClientSideAuth
	place := c11Placement(k)
	b2i := func(b bool) int {
		if b {
			return 1
		}
		return 0
	}
	m := c.Model.Ask("socks-serve %d %d %s %s", b2i(k.UseProxy), b2i(k.ClientSideAuth), c11CredsArg(k.Creds), core.Hex(t))
	var mRepl, mReq string
	var mDial, mCons int
	if _, err := fmt.Sscanf(m, "ok %s dialed=%d req=%s consumed=%d", &mRepl, &mDial, &mReq, &mCons); err != nil {
		c.Disagree("C11/corr/model-reply", "model did not answer socks-serve: "+m, k)
		return
	}
	mReplies := core.UnHex(mRepl)
	var mRest []byte
	reached := mReq != "none"
	if reached {
		mRest = core.UnHex(mReq)
	}
	// never let the real server dial the network from the harness
	if !k.UseProxy && reached && !c11ServerGate(mRest) {
		c.Res.Discarded++
		return
	}
	o := c11RunImpl(k)
	presented, _ := c11Presents(k.Creds, t)
	c.Eval(fmt.Sprintf("%s/%v/%s/%s", place, k.ClientSideAuth, c11CredsArg(k.Creds), k.Transcript), reached)
	c.Hist("placement", fmt.Sprintf("%s/authHere=%v", place, authHere))
	c.Hist("credentials", fmt.Sprint(len(k.Creds)))
	c.Hist("offer", c11OfferClass(t))
	c.Hist("supplied", k.Supplied)
	c.Hist("transcript_size", core.SizeBucket(len(t)))
	if reached {
		c.Hist("branch", "model:served")
	} else {
		c.Hist("branch", "model:refused/"+fmt.Sprint(len(mReplies))+"-reply-bytes")
	}
	if o.panicked != "" || !o.returned {
		c.Disagree("C11/corr/servecon-did-not-return", fmt.Sprintf("ServeConn panicked or hung: %q returned=%v", o.panicked, o.returned), k)
		return
	}

	// ---- correspondence ------------------------------------------------------------------
	c.Compared()
	// what the code does after the negotiation, computed here from the stream the model says the
	// request reader gets (client: request relayed to the stub proxy and its canned response
	// relayed back; server: BIND → 07, unknown address type → 08)
	expWritten := append([]byte(nil), mReplies...)
	var expProxy []byte
	proxyOK := len(o.proxyWritten) == 0
	if reached && k.UseProxy {
		if n, ok := socksReqLen(mRest); ok {
			// the request is relayed, then the stub's canned response is relayed back; bytes after
			// the request are copied by BidiCopy (racing with the close): any prefix may arrive
			expProxy = mRest[:n]
			expWritten = append(expWritten, c11ProxyResp...)
			proxyOK = bytes.HasPrefix(o.proxyWritten, expProxy) && bytes.HasPrefix(mRest, o.proxyWritten)
		}
	} else if reached {
		expWritten = append(expWritten, c11ServerReply(mRest)...)
	}
	if authHere {
		if !bytes.Equal(o.written, expWritten) {
			c.Disagree("C11/corr/"+place+"/replies", fmt.Sprintf("bytes written to the application: model %x impl %x", expWritten, o.written), k)
		}
		if (o.dialed > 0) != (mDial == 1) || o.dialed > 1 {
			c.Disagree("C11/corr/"+place+"/dialed", fmt.Sprintf("DialContext calls: model %d impl %d", mDial, o.dialed), k)
		}
		if !proxyOK {
			c.Disagree("C11/corr/"+place+"/forwarded", fmt.Sprintf("bytes sent to the proxy connection: model %x impl %x", expProxy, o.proxyWritten), k)
		}
		if !reached && o.consumed != mCons {
			c.Disagree("C11/corr/"+place+"/consumed", fmt.Sprintf("transcript bytes consumed by a refused negotiation: model %d impl %d", mCons, o.consumed), k)
		}
		if reached && o.consumed < mCons {
			c.Disagree("C11/corr/"+place+"/consumed", fmt.Sprintf("transcript bytes consumed: model ≥%d impl %d", mCons, o.consumed), k)
		}
	} else {
		// this endpoint does not authenticate: the configured credentials must have no influence
		if k.UseProxy && (o.dialed > 0) != (mDial == 1) {
			c.Disagree("C11/corr/client-relay/dialed", fmt.Sprintf("DialContext calls: model %d impl %d", mDial, o.dialed), k)
		}
		if !k.UseProxy && !bytes.Equal(o.written, expWritten) {
			c.Disagree("C11/corr/server-noauth/replies", fmt.Sprintf("model %x impl %x", expWritten, o.written), k)
		}
		return
	}

	// ---- direct oracle ---------------------------------------------------------------------
	// request reached, as observable on the real code alone
	implReached := o.dialed > 0 || len(o.proxyWritten) > 0 ||
		bytes.HasSuffix(o.written, c11BindReply) || bytes.HasSuffix(o.written, c11AtypReply)
	offer := c11OfferClass(t)
	if len(k.Creds) > 0 {
		if bytes.HasPrefix(o.written, []byte{5, 0}) {
			c.Violate(fmt.Sprintf("C11/%s/offer=%s/noauth-selected-with-credentials", place, offer),
				fmt.Sprintf("credentials are configured but the method reply is 05 00 (written %x)", o.written), k)
		}
		if implReached && !presented {
			c.Violate(fmt.Sprintf("C11/%s/offer=%s/served-without-credentials", place, offer),
				fmt.Sprintf("credentials configured, transcript presents none of them, yet dialed=%d proxy got %x replies %x", o.dialed, o.proxyWritten, o.written), k)
		}
		if bytes.HasPrefix(o.written, []byte{5, 2, 1, 0}) && !presented {
			c.Violate(fmt.Sprintf("C11/%s/offer=%s/success-status-without-credentials", place, offer),
				fmt.Sprintf("status 01 00 sent for a transcript that presents no configured pair (written %x)", o.written), k)
		}
		if presented && !bytes.HasPrefix(o.written, []byte{5, 2, 1, 0}) {
			c.Violate(fmt.Sprintf("C11/%s/offer=%s/valid-credentials-refused", place, offer),
				fmt.Sprintf("a configured pair was presented but the replies are %x", o.written), k)
		}
	} else {
		if bytes.HasPrefix(o.written, []byte{5, 2}) {
			c.Violate(fmt.Sprintf("C11/%s/offer=%s/userpass-selected-without-credentials", place, offer),
				fmt.Sprintf("no credentials configured but user/password was selected (written %x)", o.written), k)
		}
		switch offer {
		case "noauth", "noauth+userpass":
			if !bytes.HasPrefix(o.written, []byte{5, 0}) {
				c.Violate(fmt.Sprintf("C11/%s/offer=%s/noauth-not-accepted", place, offer),
					fmt.Sprintf("no credentials configured, no-auth offered, replies %x", o.written), k)
			}
		default:
			if implReached || bytes.HasPrefix(o.written, []byte{5, 0}) {
				c.Violate(fmt.Sprintf("C11/%s/offer=%s/served-without-noauth-offer", place, offer),
					fmt.Sprintf("no-auth was not offered, yet dialed=%d replies %x", o.dialed, o.written), k)
			}
		}
	}
}

// ---- generators ------------------------------------------------------------------------------

func c11Hex(s string) string { return core.Hex([]byte(s)) }

func c11CredSets(c *core.Ctx) map[string][]c11Cred {
	long := bytes.Repeat([]byte("u"), 255)
	longp := bytes.Repeat([]byte("p"), 255)
	return map[string][]c11Cred{
		"none": nil,
		"one":  {{c11Hex("alice"), c11Hex("wonderland")}},
		"several": {
			{c11Hex("alice"), c11Hex("wonderland")},
			{c11Hex("bob"), c11Hex("builder")},
			{c11Hex("alice"), c11Hex("second")}, // same user, another password
			{core.Hex(long), core.Hex(longp)},   // 255-byte pair
		},
	}
}

func c11SubNeg(ver byte, user, pass []byte) []byte {
	b := []byte{ver, byte(len(user))}
	b = append(b, user...)
	b = append(b, byte(len(pass)))
	return append(b, pass...)
}

// c11Supplied returns what follows the method list, by label.
func c11Supplied(label string, creds []c11Cred) []byte {
	u, p := []byte("alice"), []byte("wonderland")
	if len(creds) > 0 {
		last := creds[len(creds)-1]
		if len(creds) > 1 {
			last = creds[1]
		}
		u, p = core.UnHex(last.User), core.UnHex(last.Pass)
	}
	switch label {
	case "nothing":
		return nil
	case "matching":
		return c11SubNeg(1, u, p)
	case "wrong-user":
		return c11SubNeg(1, append([]byte("x"), u...), p)
	case "wrong-pass":
		return c11SubNeg(1, u, append(append([]byte(nil), p...), 'x'))
	case "cross-pair": // user of one configured pair with the password of another
		return c11SubNeg(1, []byte("alice"), []byte("builder"))
	case "empty":
		return c11SubNeg(1, nil, nil)
	case "255-byte":
		return c11SubNeg(1, bytes.Repeat([]byte("u"), 255), bytes.Repeat([]byte("p"), 255))
	case "255-byte-wrong":
		return c11SubNeg(1, bytes.Repeat([]byte("u"), 255), bytes.Repeat([]byte("q"), 255))
	case "wrong-subversion":
		return c11SubNeg(2, u, p) // version 2 instead of 1
	case "subversion-0":
		return c11SubNeg(0, u, p)
	}
	return nil
}

var c11SuppliedLabels = []string{"nothing", "matching", "wrong-user", "wrong-pass", "cross-pair", "empty", "255-byte", "255-byte-wrong", "wrong-subversion", "subversion-0"}

func c11Marker(useProxy bool) []byte {
	if useProxy {
		return c11ConnectReq
	}
	return c11BindReq
}

func c11Build(useProxy bool, methods []byte, supplied []byte, withRequest bool) []byte {
	t := []byte{5, byte(len(methods))}
	t = append(t, methods...)
	t = append(t, supplied...)
	if withRequest {
		t = append(t, c11Marker(useProxy)...)
	}
	return t
}

func c11Wiring(c *core.Ctx) {
	// pkg/cli/client.go RunClient: the daemon's listener authenticates on the client side with the
	// configured socks5Authentication entries, and refuses to combine them with the HTTP proxy.
	path := filepath.Join(c.Repo, "pkg/cli/client.go")
	fset := token.NewFileSet()
	f, err := parser.ParseFile(fset, path, nil, 0)
	if err != nil {
		c.Disagree("C11/wiring/parse", "cannot parse pkg/cli/client.go: "+err.Error(), nil)
		return
	}
	var csaTrue, credsWired, credsFromConfig, httpGuard bool
	var credsIdent string
	ast.Inspect(f, func(n ast.Node) bool {
		switch x := n.(type) {
		case *ast.CompositeLit:
			if se, ok := x.Type.(*ast.SelectorExpr); ok && se.Sel.Name == "Auth" {
				for _, e := range x.Elts {
					kv, ok := e.(*ast.KeyValueExpr)
					if !ok {
						continue
					}
					key, _ := kv.Key.(*ast.Ident)
					if key == nil {
						continue
					}
					if key.Name == "ClientSideAuthentication" {
						if v, ok := kv.Value.(*ast.Ident); ok && v.Name == "true" {
							csaTrue = true
						}
					}
					if key.Name == "IngressCredentials" {
						if v, ok := kv.Value.(*ast.Ident); ok {
							credsWired = true
							credsIdent = v.Name
						}
					}
				}
			}
		case *ast.RangeStmt:
			// for _, auth := range config.GetSocks5Authentication() { X = append(X, socks5.Credential{…}) }
			if call, ok := x.X.(*ast.CallExpr); ok {
				if se, ok := call.Fun.(*ast.SelectorExpr); ok && se.Sel.Name == "GetSocks5Authentication" {
					ast.Inspect(x.Body, func(m ast.Node) bool {
						if as, ok := m.(*ast.AssignStmt); ok && len(as.Lhs) == 1 {
							if id, ok := as.Lhs[0].(*ast.Ident); ok {
								if call, ok := as.Rhs[0].(*ast.CallExpr); ok {
									if fn, ok := call.Fun.(*ast.Ident); ok && fn.Name == "append" {
										credsFromConfig = credsFromConfig || id.Name != ""
										if credsIdent == "" {
											credsIdent = id.Name
										} else if credsIdent != id.Name {
											credsFromConfig = false
										}
									}
								}
							}
						}
						return true
					})
				}
			}
		case *ast.IfStmt:
			// if len(config.GetSocks5Authentication()) > 0 { log.Fatalf(…HTTP…) }
			var sb strings.Builder
			ast.Inspect(x.Cond, func(m ast.Node) bool {
				if id, ok := m.(*ast.Ident); ok {
					sb.WriteString(id.Name + " ")
				}
				return true
			})
			if strings.Contains(sb.String(), "GetSocks5Authentication") {
				ast.Inspect(x.Body, func(m ast.Node) bool {
					if call, ok := m.(*ast.CallExpr); ok {
						if se, ok := call.Fun.(*ast.SelectorExpr); ok && strings.HasPrefix(se.Sel.Name, "Fatal") {
							for _, a := range call.Args {
								if bl, ok := a.(*ast.BasicLit); ok && strings.Contains(bl.Value, "HTTP") {
									httpGuard = true
								}
							}
						}
					}
					return true
				})
			}
		}
		return true
	})
	c.Compared()
	if !csaTrue || !credsWired || !credsFromConfig {
		c.Disagree("C11/wiring/client-daemon-auth", fmt.Sprintf("pkg/cli/client.go no longer wires socks5Authentication into a client-side authenticating listener (ClientSideAuthentication:true=%v IngressCredentials wired=%v filled from config=%v)", csaTrue, credsWired, credsFromConfig), nil)
	}
	if !httpGuard {
		c.Disagree("C11/wiring/http-proxy-guard", "pkg/cli/client.go no longer refuses to run the HTTP proxy together with socks5 user/password authentication", nil)
	}
	c.Note("wiring facts read from pkg/cli/client.go: ClientSideAuthentication:true=%v IngressCredentials=%s filledFromConfig=%v httpProxyGuard=%v", csaTrue, credsIdent, credsFromConfig, httpGuard)
}

func init() {
	core.Register("C11", &core.Scenario{
		Run: func(c *core.Ctx) {
			c.Res.Rule = "transcript = 05 n methods ‖ what is supplied ‖ request; exhaustive: all method lists of length ≤3 over {00,01,02,80,FF} × credentials {none,one,several} × supplied {nothing, matching, wrong user, wrong password, cross pair, empty, 255-byte, wrong sub-negotiation version} × placement {client,server}; every prefix (truncation at every byte) of representative transcripts; random lists up to 255 methods with duplicates, mis-declared counts, wrong protocol version, random read segmentation. Distinct = distinct (placement, credentials, transcript); non-trivial = the model reaches the request reader."
			c.Correspondence("socks-serve: socks5.Server.ServeConn (handleAuthentication + placement before DialContext/readRequest) vs Mieru.SocksAuth.serveConn")
			c.Correspondence("wiring: pkg/cli/client.go RunClient socks5 listener configuration (AST facts)")
			c.Res.Exhaustive = true
			n := socksCorpus(c, func(raw json.RawMessage) {
				var k c11Case
				if json.Unmarshal(raw, &k) == nil {
					c11Run(c, k)
				}
			})
			c.Note("corpus cases run first: %d", n)
			c11Wiring(c)
			c11DaemonStage(c)
			c11Sequences(c)
			sets := c11CredSets(c)
			setNames := []string{"none", "one", "several"}
			// all method lists of length ≤ 3 over the alphabet
			var lists [][]byte
			lists = append(lists, []byte{})
			for _, a := range c11MethodAlpha {
				lists = append(lists, []byte{a})
				for _, b := range c11MethodAlpha {
					lists = append(lists, []byte{a, b})
					for _, d := range c11MethodAlpha {
						lists = append(lists, []byte{a, b, d})
					}
				}
			}
			sampled := 0
			for _, useProxy := range []bool{true, false} {
				for _, sn := range setNames {
					for _, ms := range lists {
						for _, lab := range c11SuppliedLabels {
							t := c11Build(useProxy, ms, c11Supplied(lab, sets[sn]), true)
							k := c11Case{Kind: "exhaustive", Supplied: lab, UseProxy: useProxy, ClientSideAuth: useProxy, Creds: sets[sn], Transcript: core.Hex(t), Chunk: 0}
							if sampled < 3 && lab == "matching" && len(ms) == 2 {
								c.Sample(k)
								sampled++
							}
							c11Run(c, k)
						}
					}
				}
			}
			// truncation at every byte
			bases := [][]byte{{2}, {0, 2}, {2, 0}, {0}, {1, 2, 0x80}}
			for _, useProxy := range []bool{true, false} {
				for _, sn := range setNames {
					for _, ms := range bases {
						for _, lab := range []string{"matching", "wrong-pass", "empty"} {
							full := c11Build(useProxy, ms, c11Supplied(lab, sets[sn]), true)
							for cut := 0; cut < len(full); cut++ {
								if sn == "several" && cut > 60 && cut < len(full)-12 && !c.Thorough() && cut%16 != 0 {
									continue // 255-byte strings: sample the interior in the quick tier
								}
								c11Run(c, c11Case{Kind: "truncated", Supplied: lab + "/cut", UseProxy: useProxy, ClientSideAuth: useProxy, Creds: sets[sn], Transcript: core.Hex(full[:cut]), Chunk: 1 + c.Rand.Intn(4)})
							}
						}
					}
				}
			}
			// random lists up to 255 methods, duplicates, mis-declared counts, wrong version, chunked reads
			for i := 0; i < c.N(1500, 30000); i++ {
				useProxy := c.Rand.Intn(2) == 0
				sn := setNames[c.Rand.Intn(3)]
				var n int
				switch c.Rand.Intn(6) {
				case 0:
					n = 255
				case 1:
					n = 254
				case 2:
					n = 1 + c.Rand.Intn(8)
				default:
					n = 1 + c.Rand.Intn(255)
				}
				ms := make([]byte, n)
				style := c.Rand.Intn(6)
				for j := range ms {
					switch style {
					case 0: // mostly unsupported, 0 and 2 rare
						ms[j] = []byte{1, 0x80, 0xFF, 1, 0x80, 0xFF, 1, 0x80, 0xFF, 0, 2}[c.Rand.Intn(11)]
					case 1: // only unsupported
						ms[j] = []byte{1, 0x80, 0xFF}[c.Rand.Intn(3)]
					case 2: // one repeated method
						ms[j] = c11MethodAlpha[i%5]
					default:
						ms[j] = c11MethodAlpha[c.Rand.Intn(5)]
					}
				}
				if style == 4 { // the interesting method only in the last position
					ms[n-1] = []byte{0, 2}[c.Rand.Intn(2)]
				}
				if style == 5 && n >= 2 { // both, far apart
					ms[0], ms[n-1] = 2, 0
				}
				lab := c11SuppliedLabels[c.Rand.Intn(len(c11SuppliedLabels))]
				t := c11Build(useProxy, ms, c11Supplied(lab, sets[sn]), c.Rand.Intn(8) != 0)
				kind := "random"
				switch c.Rand.Intn(12) {
				case 0: // declared count differs from the list
					t[1] = byte(int(t[1]) + []int{-1, 1, 3}[c.Rand.Intn(3)])
					kind = "misdeclared-count"
				case 1:
					t[0] = []byte{4, 0, 6, 1}[c.Rand.Intn(4)]
					kind = "wrong-version"
				case 2:
					t = t[:c.Rand.Intn(len(t)+1)]
					kind = "random-cut"
				}
				k := c11Case{Kind: kind, Supplied: lab, UseProxy: useProxy, ClientSideAuth: useProxy, Creds: sets[sn], Transcript: core.Hex(t), Chunk: []int{0, 1, 2, 3, 7, 64}[c.Rand.Intn(6)]}
				if i == 0 {
					c.Sample(k)
				}
				c11Run(c, k)
			}
			// endpoints that do not authenticate themselves: the local credentials play no role
			for _, sn := range setNames {
				for _, req := range [][]byte{c11BindReq, c11BadAtypReq} {
					c11Run(c, c11Case{Kind: "server-client-side-auth", Supplied: "request-only", UseProxy: false, ClientSideAuth: true, Creds: sets[sn], Transcript: core.Hex(req)})
				}
				for _, ms := range [][]byte{{0}, {2}, {0, 2}} {
					c11Run(c, c11Case{Kind: "client-relay", Supplied: "nothing", UseProxy: true, ClientSideAuth: false, Creds: sets[sn], Transcript: core.Hex(c11Build(true, ms, nil, false))})
				}
			}
		},
		Replay: func(c *core.Ctx, raw json.RawMessage) {
			var probe struct {
				Kind string `json:"kind"`
			}
			if json.Unmarshal(raw, &probe) == nil && (probe.Kind == "daemon" || probe.Kind == "sequence") {
				// daemon wiring / negotiation sequences on one listener: the stages are deterministic, re-run them whole
				if probe.Kind == "daemon" {
					c11DaemonStage(c)
				} else {
					c11Sequences(c)
				}
				return
			}
			var k c11Case
			if json.Unmarshal(raw, &k) == nil && k.Transcript != "" {
				c11Run(c, k)
			}
		},
	})
}
