package props

import (
	"fmt"
	"time"

	"github.com/enfein/mieru/v3/pkg/protocol"
	"verifharness/core"
	"verifharness/sim"
)

// C14, wire stage on both transports: every emitted segment respects the documented limits —
// session payload ≤ 1024, fragment ≤ 32768 (≤ maxFragmentSize of its transport/MTU/mode), the
// on-wire payload length fits 16 bits, fragment numbers count down to 0 within a chunk.
func c14CheckSegs(c *core.Ctx, w *sim.World, udp bool, mtu int, replay interface{}) {
	check := func(proto uint8, payload int, wireLen int, isSession bool, isLE bool, leMode uint8, where string) {
		if isSession && payload > 1024 {
			c.Violate("C14/wire/session-payload-exceeds-1024", fmt.Sprintf("%s: session segment (type %d) carries %d bytes", where, proto, payload), replay)
		}
		if payload > 32768 {
			c.Violate("C14/wire/fragment-exceeds-32768", fmt.Sprintf("%s: fragment of %d bytes", where, payload), replay)
		}
		if !isSession && payload > 0 {
			tr := 1
			if udp {
				tr = 2
			}
			mode := 0
			if isLE {
				mode = int(leMode)
			}
			if lim, err := protocol.VerifMaxFragmentSize(mtu, tr, mode); err == nil && payload > lim {
				c.Violate("C14/wire/fragment-exceeds-max-fragment-size", fmt.Sprintf("%s: fragment of %d bytes, maxFragmentSize(mtu %d, transport %d, mode %d) = %d", where, payload, mtu, tr, mode, lim), replay)
			}
		}
	}
	if udp {
		for _, d := range w.DecodeDatagrams() {
			if d.Err != nil {
				continue
			}
			c.Hist("c14_wire", "udp-segment")
			check(d.Seg.Proto, len(d.Seg.Payload), len(d.Data), d.Seg.IsSession(), d.Seg.IsLE(), d.Seg.Byte1, fmt.Sprintf("datagram #%d", d.Index))
			if len(d.Data) > mtu {
				c.Violate("C14/wire/datagram-exceeds-mtu", fmt.Sprintf("datagram #%d type %d: %d bytes > MTU %d", d.Index, d.Seg.Proto, len(d.Data), mtu), replay)
			}
		}
		return
	}
	for _, ds := range w.DecodeStreams() {
		for i, s := range ds.Segs {
			c.Hist("c14_wire", "tcp-segment")
			check(s.Proto, len(s.Payload), s.WireLen, s.IsSession(), s.IsLE(), s.Byte1, fmt.Sprintf("conn %d segment %d", ds.ConnID, i))
		}
	}
}

func init() {
	core.RegisterExtra("C14", func(c *core.Ctx) {
		if !stageOn("wire") {
			return
		}
		c.Correspondence("wire stage: payload sizes of every emitted segment (TCP and UDP sessions, boundary write sizes 1019..1025 / 32759..32769 / 65536) vs documented limits and the real maxFragmentSize")
		n := c.N(8, 80)
		cases := make([]c01Case, n)
		for i := range cases {
			cases[i] = genC01(c.Rand, false)
			cases[i].MaxChunk = 0
			// make sure the boundary sizes are hit in every case
			if len(cases[i].Scripts) > 0 {
				cases[i].Scripts[0].ClientWrites = append([]int{[]int{1023, 1024, 1025, 1280, 2048}[i%5]}, cases[i].Scripts[0].ClientWrites...)
				cases[i].Scripts[0].ServerWrites = append(cases[i].Scripts[0].ServerWrites, []int{32764, 32765, 32768, 32769, 65536}[i%5])
			}
		}
		core.Parallel(n, 6, func(i int) {
			k := cases[i]
			udp := i%2 == 1
			mtu := 1400
			if udp {
				mtu = []int{1280, 1340, 1500, 1281}[i/2%4]
			}
			w, err := sim.NewWorld(sim.Config{UDP: udp, MTU: mtu, Seed: k.Seed, Multiplex: k.Multiplex, ClientPattern: patFromJSON(k.ClientPattern), ServerPattern: patFromJSON(k.ServerPattern)})
			if err != nil {
				return
			}
			defer bgClose.Go(w.Close)
			sim.RunTransfer(w, k.Scripts, k.Seed, 90*time.Second)
			c.Eval(fmt.Sprintf("c14-wire/%v/%d/%d", udp, mtu, k.Seed), true)
			c14CheckSegs(c, w, udp, mtu, map[string]interface{}{"udp": udp, "mtu": mtu, "case": k})
		})
		bgClose.Wait(30 * time.Second)
	})
}
