package props

import (
	"encoding/base64"
	"encoding/hex"
	"fmt"
	"strings"

	pb "github.com/enfein/mieru/v3/pkg/appctl/appctlpb"
	"google.golang.org/protobuf/proto"
	"verifharness/core"
)

// ---- generators of valid configurations from the proto types ----------------------------------

var c20Strings = []string{
	"alice", "bob@example.com", "a:b", "p@ss/w?rd#1%2+3", "with space", " lead", "trail ", "ü-ñ-漢字-🙂", "%41%zz", "a+b c",
	"100%", "x&y=z;w", "quote\"back\\slash", "<tag>", "tab\there", "new\nline", "😀😀😀😀", "Z", "0", "dash-dot.under_tilde~",
	strings.Repeat("k", 64), strings.Repeat("é", 32), "'single'", "{}[]|^`", " nbsp", "://", "??", "##", "@@", "::",
}

func c20Str(c *core.Ctx) string {
	if c.Rand.Intn(5) == 0 {
		// random printable + a few multi-byte runes, at most 64 bytes
		n := 1 + c.Rand.Intn(20)
		var sb strings.Builder
		for i := 0; i < n; i++ {
			switch c.Rand.Intn(8) {
			case 0:
				sb.WriteString([]string{"é", "漢", "🙂", "ß", "Ω"}[c.Rand.Intn(5)])
			case 1:
				sb.WriteByte(": @/?#%+&=;"[c.Rand.Intn(11)])
			default:
				sb.WriteByte(byte(0x21 + c.Rand.Intn(0x5e)))
			}
		}
		s := sb.String()
		for len(s) > 64 {
			s = s[:len(s)-1]
		}
		for !c20isValidUTF8(s) {
			s = s[:len(s)-1]
		}
		if s != "" {
			return s
		}
	}
	return c20Strings[c.Rand.Intn(len(c20Strings))]
}

func c20isValidUTF8(s string) bool { return strings.ToValidUTF8(s, "\x00") == s }

func c20Binding(c *core.Ctx) *pb.PortBinding {
	b := &pb.PortBinding{Protocol: []pb.TransportProtocol{pb.TransportProtocol_TCP, pb.TransportProtocol_UDP}[c.Rand.Intn(2)].Enum()}
	switch c.Rand.Intn(4) {
	case 0:
		lo := 1 + c.Rand.Intn(65000)
		hi := lo + c.Rand.Intn(20)
		if c.Rand.Intn(4) == 0 {
			lo, hi = []int{1, 65535, 65530}[c.Rand.Intn(3)], 65535
		}
		b.PortRange = proto.String(fmt.Sprintf("%d-%d", lo, hi))
	default:
		b.Port = proto.Int32([]int32{1, 80, 443, 8964, 65535, int32(1 + c.Rand.Intn(65535))}[c.Rand.Intn(6)])
	}
	return b
}

func c20User(c *core.Ctx, server bool) *pb.User {
	u := &pb.User{Name: proto.String(c20Str(c))}
	switch c.Rand.Intn(6) {
	case 0:
		u.HashedPassword = proto.String(c20HashHex(c20Str(c), u.GetName()))
	case 1: // both, consistent
		pw := c20Str(c)
		u.Password, u.HashedPassword = proto.String(pw), proto.String(c20HashHex(pw, u.GetName()))
	default:
		u.Password = proto.String(c20Str(c))
	}
	if u.Password != nil && c.Rand.Intn(2) == 0 && len(u.GetPassword()) <= 50 && u.HashedPassword == nil {
		// a distinctive password, so that scanning the stored bytes for it is informative
		const al = "ghijklmnopqrstuvwxyzGHIJKLMNOPQRSTUVWXYZ"
		sfx := make([]byte, 10)
		for i := range sfx {
			sfx[i] = al[c.Rand.Intn(len(al))]
		}
		u.Password = proto.String(u.GetPassword() + "#" + string(sfx))
	}
	if server {
		for i := c.Rand.Intn(3); i > 0; i-- {
			u.Quotas = append(u.Quotas, &pb.Quota{Days: proto.Int32(int32(1 + c.Rand.Intn(30))), Megabytes: proto.Int32(int32(1 + c.Rand.Intn(100000)))})
		}
		if c.Rand.Intn(3) == 0 {
			u.AllowPrivateIP = proto.Bool(c.Rand.Intn(2) == 0)
		}
		if c.Rand.Intn(3) == 0 {
			u.AllowLoopbackIP = proto.Bool(c.Rand.Intn(2) == 0)
		}
	}
	return u
}

func c20Pattern(c *core.Ctx) *pb.TrafficPattern {
	return c16Subset(c, c.Rand.Intn(1<<13)).toProto()
}

// c20ServerConfig builds a valid server configuration or patch; each optional field is set with
// probability pSet (patches use a low one).
func c20ServerConfig(c *core.Ctx, pSet float64, full bool) *pb.ServerConfig {
	set := func() bool { return c.Rand.Float64() < pSet }
	s := &pb.ServerConfig{}
	if full || set() {
		for i := 1 + c.Rand.Intn(3); i > 0; i-- {
			s.PortBindings = append(s.PortBindings, c20Binding(c))
		}
	}
	if set() {
		for i := c.Rand.Intn(5); i > 0; i-- {
			s.Users = append(s.Users, c20User(c, true))
		}
		if len(s.Users) > 1 && c.Rand.Intn(4) == 0 { // the same name twice: the later one wins
			d := c20User(c, true)
			d.Name = proto.String(s.Users[0].GetName())
			s.Users = append(s.Users, d)
		}
	}
	if set() {
		s.AdvancedSettings = &pb.ServerAdvancedSettings{}
		if c.Rand.Intn(2) == 0 {
			s.AdvancedSettings.MetricsLoggingInterval = proto.String([]string{"30s", "5m", "2h", "1s", ""}[c.Rand.Intn(5)])
		}
		if c.Rand.Intn(2) == 0 {
			s.AdvancedSettings.UserHintIsMandatory = proto.Bool(c.Rand.Intn(2) == 0)
		}
	}
	if set() {
		s.LoggingLevel = pb.LoggingLevel(c.Rand.Intn(7)).Enum()
	}
	if set() {
		s.Mtu = proto.Int32([]int32{0, 1280, 1400, 1500, int32(1280 + c.Rand.Intn(221))}[c.Rand.Intn(5)])
	}
	if set() {
		e := &pb.Egress{}
		np := c.Rand.Intn(3)
		for i := 0; i < np; i++ {
			p := &pb.EgressProxy{Name: proto.String(fmt.Sprintf("proxy%d-%s", i, c20Str(c))), Protocol: pb.ProxyProtocol_SOCKS5_PROXY_PROTOCOL.Enum(),
				Host: proto.String([]string{"127.0.0.1", "proxy.example.com", "::1"}[c.Rand.Intn(3)]), Port: proto.Int32(int32(1 + c.Rand.Intn(65535)))}
			if c.Rand.Intn(2) == 0 {
				p.Socks5Authentication = &pb.Auth{User: proto.String(c20Str(c)), Password: proto.String(c20Str(c))}
			}
			e.Proxies = append(e.Proxies, p)
		}
		for i := c.Rand.Intn(3); i > 0; i-- {
			r := &pb.EgressRule{}
			for j := c.Rand.Intn(3); j > 0; j-- {
				r.IpRanges = append(r.IpRanges, []string{"*", "10.0.0.0/8", "::/0", "192.168.1.0/24", "8.8.8.8/32"}[c.Rand.Intn(5)])
			}
			for j := c.Rand.Intn(3); j > 0; j-- {
				r.DomainNames = append(r.DomainNames, []string{"*", "example.com", "a.b.c", "xn--fiq228c.com", "EXAMPLE.org"}[c.Rand.Intn(5)])
			}
			if np > 0 && c.Rand.Intn(2) == 0 {
				r.Action = pb.EgressAction_PROXY.Enum()
				r.ProxyNames = []string{e.Proxies[c.Rand.Intn(np)].GetName()}
			} else {
				r.Action = []pb.EgressAction{pb.EgressAction_DIRECT, pb.EgressAction_REJECT}[c.Rand.Intn(2)].Enum()
			}
			e.Rules = append(e.Rules, r)
		}
		s.Egress = e
	}
	if set() {
		d := &pb.DNS{}
		if c.Rand.Intn(2) == 0 {
			d.DualStack = pb.DualStack(c.Rand.Intn(5)).Enum()
		}
		for i := c.Rand.Intn(4); i > 0; i-- {
			if d.Hosts == nil {
				d.Hosts = map[string]string{}
			}
			d.Hosts[fmt.Sprintf("host%d.example.com", c.Rand.Intn(100))] = []string{"10.1.2.3", "2001:db8::1", "127.0.0.1"}[c.Rand.Intn(3)]
		}
		s.Dns = d
	}
	if set() {
		s.TrafficPattern = c20Pattern(c)
	}
	return s
}

var c20Hosts = []string{"example.com", "a.b-c.example.org", "xn--fiq228c.com", "localhost", "UPPER.Example.COM", "host_1.lan", "1.2.3.4", "::1", "2001:db8::2", "0:0:0:0:0:0:0:1", "255.255.255.255"}

func c20Profile(c *core.Ctx, name string) *pb.ClientProfile {
	p := &pb.ClientProfile{ProfileName: proto.String(name), User: c20User(c, false)}
	if p.User.GetPassword() == "" { // links need the plaintext password
		p.User.Password = proto.String(c20Str(c))
		p.User.HashedPassword = nil
	}
	for i := 1 + c.Rand.Intn(3); i > 0; i-- {
		s := &pb.ServerEndpoint{}
		h := c20Hosts[c.Rand.Intn(len(c20Hosts))]
		if strings.ContainsAny(h, ":") || strings.Trim(h, "0123456789.") == "" {
			s.IpAddress = proto.String(h)
		} else {
			s.DomainName = proto.String(h)
		}
		for j := 1 + c.Rand.Intn(3); j > 0; j-- {
			s.PortBindings = append(s.PortBindings, c20Binding(c))
		}
		p.Servers = append(p.Servers, s)
	}
	if c.Rand.Intn(2) == 0 {
		p.Mtu = proto.Int32([]int32{0, 1280, 1400, 1500}[c.Rand.Intn(4)])
	}
	switch c.Rand.Intn(3) {
	case 0:
		p.Multiplexing = &pb.MultiplexingConfig{Level: pb.MultiplexingLevel(c.Rand.Intn(5)).Enum()}
	case 1:
		if c.Rand.Intn(3) == 0 {
			p.Multiplexing = &pb.MultiplexingConfig{}
		}
	}
	if c.Rand.Intn(2) == 0 {
		p.HandshakeMode = pb.HandshakeMode(c.Rand.Intn(3)).Enum()
	}
	switch c.Rand.Intn(4) {
	case 0:
		p.TrafficPattern = c20Pattern(c)
	case 1:
		p.TrafficPattern = &pb.TrafficPattern{}
	}
	return p
}

// c20ClientConfig builds a valid client configuration (full) or a patch.
func c20ClientConfig(c *core.Ctx, pSet float64, full bool) *pb.ClientConfig {
	set := func() bool { return c.Rand.Float64() < pSet }
	cfg := &pb.ClientConfig{}
	if full || set() {
		for i := 1 + c.Rand.Intn(3); i > 0; i-- {
			name := []string{"default", "work", "home", "p:1", "ü profile", "a/b?c#d"}[c.Rand.Intn(6)]
			if c.Rand.Intn(3) == 0 {
				name = c20Str(c)
			}
			cfg.Profiles = append(cfg.Profiles, c20Profile(c, name))
		}
	}
	if full {
		cfg.ActiveProfile = proto.String(cfg.Profiles[c.Rand.Intn(len(cfg.Profiles))].GetProfileName())
		cfg.Socks5Port = proto.Int32(int32(1024 + c.Rand.Intn(60000)))
	} else {
		if set() && len(cfg.Profiles) > 0 {
			cfg.ActiveProfile = proto.String(cfg.Profiles[0].GetProfileName())
		}
		if set() {
			cfg.Socks5Port = proto.Int32(int32(1024 + c.Rand.Intn(60000)))
		}
	}
	if set() {
		cfg.RpcPort = proto.Int32(int32(c.Rand.Intn(1000)))
	}
	if set() {
		cfg.AdvancedSettings = &pb.ClientAdvancedSettings{}
		if c.Rand.Intn(2) == 0 {
			cfg.AdvancedSettings.NoCheckUpdate = proto.Bool(c.Rand.Intn(2) == 0)
		}
		if c.Rand.Intn(2) == 0 {
			cfg.AdvancedSettings.MetricsLoggingInterval = proto.String([]string{"30s", "5m", ""}[c.Rand.Intn(3)])
		}
	}
	if set() {
		cfg.LoggingLevel = pb.LoggingLevel(c.Rand.Intn(7)).Enum()
	}
	if set() {
		cfg.Socks5ListenLAN = proto.Bool(c.Rand.Intn(2) == 0)
	}
	if set() {
		cfg.HttpProxyPort = proto.Int32(int32(61000 + c.Rand.Intn(4000)))
	}
	if set() {
		cfg.HttpProxyListenLAN = proto.Bool(c.Rand.Intn(2) == 0)
	}
	if set() {
		for i := 1 + c.Rand.Intn(2); i > 0; i-- {
			cfg.Socks5Authentication = append(cfg.Socks5Authentication, &pb.Auth{User: proto.String(c20Str(c)), Password: proto.String(c20Str(c))})
		}
	}
	return cfg
}

func c20PB(m proto.Message) string { return base64.StdEncoding.EncodeToString(c20Det(m)) }

func c20Hex(s string) string { return hex.EncodeToString([]byte(s)) }

func c20stdEnc(b []byte) string { return base64.StdEncoding.EncodeToString(b) }
