package props

import (
	"context"
	"fmt"
	"net"
	"strings"
	"sync"
	"sync/atomic"
	"time"

	apicommon "github.com/enfein/mieru/v3/apis/common"
	"github.com/enfein/mieru/v3/pkg/appctl/appctlpb"
	"github.com/enfein/mieru/v3/pkg/cipher"
	"github.com/enfein/mieru/v3/pkg/common"
	"github.com/enfein/mieru/v3/pkg/protocol"
	"google.golang.org/protobuf/proto"
	"verifharness/core"
	"verifharness/sim"
	"verifharness/simnet"
)

// C15, kind "gate": the interleaving "the event loop is about to arm a read timeout — Close runs to
// completion — the event loop goes on" made deterministic.
//
// The event loop of an underlay arms a read timeout of tens of seconds before every blocking read
// (readOneSegment on both transports; drainAfterError after a cryptographic error on the stream
// transport). Close wakes a parked read by moving the read deadline into the past — once before it
// closes the sessions and once after it has closed `done`. A goroutine that is descheduled just before
// its SetReadDeadline call arms its timeout AFTER both wake-ups; unless it looks at `done` again it then
// parks for the whole timeout: the goroutine and the socket outlive Close, and a server's Mux.Close
// (which waits for its event loops) does not return.
//
// The connection handed to the endpoint under test is the in-memory one wrapped in a gate that can
// hold ONE SetReadDeadline call whose deadline is in the future — nothing is dropped, failed or
// reordered; it is what the scheduler may do to that goroutine. The case arms the gate, makes the loop
// go round once (one byte of traffic, or one junk datagram / junk stream), waits until the call is
// held, calls Mux.Close of that side, waits until both wake-ups of the underlay's Close have been
// executed, and lets the held call go. Oracle: the event loop then leaves (its deferred conn.Close()
// is seen by the wrapper) and, on a server, Mux.Close returns — within c15BoundMs; a read that is
// still parked on the connection c15GateParkMs later, under a deadline armed after the wake-ups, is
// the violation.
//
// This is the runtime witness of the model's interleaving (Mieru.UClose: `arm` after `poke2`), see
// Props/C15 `loop_never_parks_after_close` and `drain_unchecked_counterexample`.

const c15GateParkMs = 800

type c15GateCtl struct {
	mu       sync.Mutex
	armed    bool
	reached  chan struct{}
	release  chan struct{}
	heldMs   int64 // how far ahead the held deadline was
	future   atomic.Int32
	past     atomic.Int32 // wake-ups (deadline not in the future) after the gate was reached
	inRead   atomic.Int32
	lastArm  atomic.Int64 // unix ms of the latest future deadline applied after the gate was reached
	closed   chan struct{}
	closeOne sync.Once
}

func newC15GateCtl() *c15GateCtl {
	return &c15GateCtl{reached: make(chan struct{}), release: make(chan struct{}), closed: make(chan struct{})}
}

func (g *c15GateCtl) arm() {
	g.mu.Lock()
	g.armed = true
	g.mu.Unlock()
}

func (g *c15GateCtl) isReached() bool {
	select {
	case <-g.reached:
		return true
	default:
		return false
	}
}

// setRead is called for SetReadDeadline / SetDeadline of a gated connection.
func (g *c15GateCtl) setRead(t time.Time, apply func(time.Time) error) error {
	if g == nil {
		return apply(t)
	}
	if !t.IsZero() && time.Until(t) > 500*time.Millisecond {
		g.future.Add(1)
		g.mu.Lock()
		hold := g.armed
		g.armed = false
		g.mu.Unlock()
		if hold {
			g.heldMs = time.Until(t).Milliseconds()
			close(g.reached)
			<-g.release
		}
		if g.isReached() {
			g.lastArm.Store(t.UnixMilli())
		}
		return apply(t)
	}
	err := apply(t)
	if !t.IsZero() && g.isReached() {
		g.past.Add(1)
		g.lastArm.Store(0)
	}
	return err
}

func (g *c15GateCtl) onClose() {
	if g != nil {
		g.closeOne.Do(func() { close(g.closed) })
	}
}

type c15GateConn struct {
	net.Conn
	g *c15GateCtl
}

func (c *c15GateConn) Read(p []byte) (int, error) {
	c.g.inRead.Add(1)
	defer c.g.inRead.Add(-1)
	return c.Conn.Read(p)
}
func (c *c15GateConn) SetReadDeadline(t time.Time) error {
	return c.g.setRead(t, c.Conn.SetReadDeadline)
}
func (c *c15GateConn) SetDeadline(t time.Time) error { return c.g.setRead(t, c.Conn.SetDeadline) }
func (c *c15GateConn) Close() error {
	c.g.onClose()
	return c.Conn.Close()
}

type c15GatePacketConn struct {
	net.PacketConn
	g *c15GateCtl
}

func (c *c15GatePacketConn) ReadFrom(p []byte) (int, net.Addr, error) {
	c.g.inRead.Add(1)
	defer c.g.inRead.Add(-1)
	return c.PacketConn.ReadFrom(p)
}
func (c *c15GatePacketConn) SetReadDeadline(t time.Time) error {
	return c.g.setRead(t, c.PacketConn.SetReadDeadline)
}
func (c *c15GatePacketConn) SetDeadline(t time.Time) error {
	return c.g.setRead(t, c.PacketConn.SetDeadline)
}
func (c *c15GatePacketConn) Close() error {
	c.g.onClose()
	return c.PacketConn.Close()
}

type c15GateListener struct {
	net.Listener
	g *c15GateCtl
}

func (l *c15GateListener) Accept() (net.Conn, error) {
	c, err := l.Listener.Accept()
	if err != nil {
		return nil, err
	}
	return &c15GateConn{c, l.g}, nil
}

// c15GateNet wraps the factories of the in-memory network; a nil ctl leaves the connections alone.
type c15GateNet struct {
	n *simnet.Net
	g *c15GateCtl
}

func (f c15GateNet) Listen(ctx context.Context, network, address string) (net.Listener, error) {
	l, err := f.n.Listen(ctx, network, address)
	if err != nil || f.g == nil {
		return l, err
	}
	return &c15GateListener{l, f.g}, nil
}

func (f c15GateNet) DialContext(ctx context.Context, network, address string) (net.Conn, error) {
	c, err := f.n.DialContext(ctx, network, address)
	if err != nil || f.g == nil {
		return c, err
	}
	return &c15GateConn{c, f.g}, nil
}

type c15GatePacketDialer struct {
	n *simnet.Net
	g *c15GateCtl
}

func (f c15GatePacketDialer) ListenPacket(ctx context.Context, network, laddr, raddr string) (net.PacketConn, error) {
	c, err := f.n.ListenPacket(ctx, network, laddr, raddr)
	if err != nil || f.g == nil {
		return c, err
	}
	return &c15GatePacketConn{c, f.g}, nil
}

type c15GatePacketListener struct {
	n *simnet.Net
	g *c15GateCtl
}

func (f c15GatePacketListener) ListenPacket(ctx context.Context, network, address string) (net.PacketConn, error) {
	c, err := simnet.PacketListener{N: f.n}.ListenPacket(ctx, network, address)
	if err != nil || f.g == nil {
		return c, err
	}
	return &c15GatePacketConn{c, f.g}, nil
}

// c15GateWorld is sim.NewWorld with the connections of one side behind a gate.
func c15GateWorld(k c15Case, g *c15GateCtl) (*sim.World, error) {
	cfg := sim.Config{UDP: k.UDP, Seed: k.Seed, Multiplex: 20, MTU: 1400, Port: 8964, Users: []sim.User{{Name: "alice", Password: "alice-secret"}}}
	n := simnet.New(k.Seed)
	var sg, cg *c15GateCtl
	if k.End == "s" {
		sg = g
	} else {
		cg = g
	}
	var addr net.Addr = &net.TCPAddr{IP: net.IPv4(10, 8, 0, 1), Port: cfg.Port}
	tp := common.StreamTransport
	if k.UDP {
		addr, tp = &net.UDPAddr{IP: net.IPv4(10, 8, 0, 1), Port: cfg.Port}, common.PacketTransport
	}
	srv := protocol.NewMux(false)
	srv.SetStreamListenerFactory(c15GateNet{n, sg})
	srv.SetPacketListenerFactory(c15GatePacketListener{n, sg})
	srv.SetResolver(apicommon.NilDNSResolver{})
	srv.SetServerUsers(map[string]*appctlpb.User{"alice": {Name: proto.String("alice"), Password: proto.String("alice-secret")}})
	srv.SetEndpoints([]protocol.UnderlayProperties{protocol.NewUnderlayProperties(cfg.MTU, tp, addr, nil)})
	if err := srv.Start(); err != nil {
		return nil, fmt.Errorf("server start: %w", err)
	}
	cl := protocol.NewMux(true)
	cl.SetDialer(c15GateNet{n, cg})
	cl.SetPacketDialer(c15GatePacketDialer{n, cg})
	cl.SetResolver(apicommon.NilDNSResolver{})
	cl.SetClientUserNamePassword("alice", cipher.HashPassword([]byte("alice-secret"), []byte("alice")))
	cl.SetClientMultiplexFactor(cfg.Multiplex)
	cl.SetEndpoints([]protocol.UnderlayProperties{protocol.NewUnderlayProperties(cfg.MTU, tp, nil, addr)})
	return &sim.World{Cfg: cfg, Net: n, Server: srv, Client: cl, Start: time.Now()}, nil
}

func c15RunGate(c *core.Ctx, k c15Case) *c15Out {
	o := &c15Out{hist: map[string]string{}}
	g := newC15GateCtl()
	w, err := c15GateWorld(k, g)
	if err != nil {
		o.setupErr = err
		return o
	}
	closedAll := false
	defer func() {
		select {
		case <-g.release:
		default:
			close(g.release)
		}
		if !closedAll {
			bgClose.Go(func() { w.Client.Close(); w.Server.Close() })
		}
	}()
	tr := c15Transport(k.UDP)
	site := k.Ender
	side := map[string]string{"c": "client", "s": "server"}[k.End]
	var cls, svs []net.Conn
	ns := k.Sessions
	if site != "drain" && ns < 1 && !(k.UDP && k.End == "s") {
		ns = 1 // a client underlay, and a server's stream underlay, exist only with a connection on them
	}
	for i := 0; i < ns; i++ {
		cl, sv, err := w.Pair(uint32(i+1), 20*time.Second)
		if err != nil {
			o.setupErr = err
			return o
		}
		cls, svs = append(cls, cl), append(svs, sv)
	}
	time.Sleep(100 * time.Millisecond)
	// hold the next call that arms a read timeout, and make the event loop go round once
	switch {
	case site == "drain":
		// a stranger sends bytes that do not decrypt: the server's loop arms its first read timeout
		// (let through), fails, and arms the one of drainAfterError (held)
		raw, err := w.Net.DialContext(context.Background(), "tcp", "10.8.0.1:8964")
		if err != nil {
			o.setupErr = fmt.Errorf("raw dial: %w", err)
			return o
		}
		defer raw.Close()
		before := g.future.Load()
		for i := 0; i < 100 && g.future.Load() == before; i++ {
			time.Sleep(20 * time.Millisecond)
		}
		g.arm()
		// exactly the first read of a stream underlay (nonce 24 + metadata 32 + tag 16): nothing is left
		// over for drainAfterError's own read
		junk := make([]byte, 72)
		for i := range junk {
			junk[i] = byte(37*i + 11)
		}
		raw.Write(junk)
	case k.UDP && k.End == "s" && ns == 0:
		g.arm()
		w.Net.Endpoint(w.Cfg.Port).InjectFrom([]byte{1, 2, 3}, &net.UDPAddr{IP: net.IPv4(10, 9, 9, 9), Port: 4000})
	default:
		g.arm()
		peer := svs[0]
		local := cls[0]
		if k.End == "s" {
			peer, local = cls[0], svs[0]
		}
		go func() {
			peer.Write([]byte{7})
			local.SetReadDeadline(time.Now().Add(5 * time.Second))
			local.Read(make([]byte, 8))
		}()
	}
	select {
	case <-g.reached:
	case <-time.After(10 * time.Second):
		o.setupErr = fmt.Errorf("gate (%s %s %s): the event loop did not arm a read timeout within 10 s", side, tr, site)
		return o
	}
	o.hist[fmt.Sprintf("gate_%s_%s_%s_held", site, side, tr)] = ""
	// Close of that side, while the loop's goroutine is held before its SetReadDeadline call
	m := w.Client
	if k.End == "s" {
		m = w.Server
	}
	t0 := time.Now()
	muxDone := make(chan struct{})
	go func() { m.Close(); close(muxDone) }()
	// both wake-ups of the underlay's Close (with open connections on TCP the sessions are closed in
	// between, ~1.1 s each)
	for i := 0; g.past.Load() < 2; i++ {
		select {
		case <-muxDone:
			// (a client's Mux.Close returns as soon as the underlay is closed)
		default:
		}
		if time.Since(t0) > c15BoundMs*time.Millisecond {
			o.violate(fmt.Sprintf("C15/gate/close-did-not-wake-%s-%s-%s", site, side, tr), "%s Mux.Close: only %d of the 2 wake-ups of the underlay's Close were executed within %d ms while the event loop was held before arming its read timeout", side, g.past.Load(), c15BoundMs)
			return o
		}
		time.Sleep(5 * time.Millisecond)
	}
	released := time.Now()
	close(g.release)
	// the loop goes on: it must leave without parking
	parked := false
	select {
	case <-g.closed:
	case <-time.After(c15GateParkMs * time.Millisecond):
		if g.inRead.Load() > 0 && g.lastArm.Load() > time.Now().UnixMilli()+200 {
			parked = true
		}
	}
	if parked {
		detail := fmt.Sprintf("the %s's %s event loop armed a read timeout of %d ms after Close had closed `done` and executed its last wake-up, and %d ms later a read on the connection was still parked under it", side, tr, g.heldMs, c15GateParkMs)
		left := "the event loop goroutine and the socket outlive Close by that long"
		select {
		case <-muxDone:
		case <-time.After(c15BoundMs*time.Millisecond - time.Since(released)):
		}
		select {
		case <-muxDone:
			if k.End == "s" {
				left = fmt.Sprintf("server Mux.Close returned only after %d ms", time.Since(t0).Milliseconds())
			}
		default:
			left = fmt.Sprintf("Mux.Close had not returned after %d ms", c15BoundMs)
		}
		key := fmt.Sprintf("C15/gate/loop-parks-after-close-%s-%s-%s", site, side, tr)
		o.violate(key, "%s; %s", detail, left)
		// let the goroutine go so that the process can finish
		for _, p := range w.Net.StreamConns() {
			p.Reset()
		}
	} else {
		select {
		case <-g.closed:
		case <-time.After(c15BoundMs * time.Millisecond):
			o.violate(fmt.Sprintf("C15/gate/loop-does-not-exit-%s-%s-%s", site, side, tr), "the %s's %s event loop had not closed its connection %d ms after Close and the release of the held SetReadDeadline call (reads in progress: %d)", side, tr, c15BoundMs, g.inRead.Load())
		}
	}
	select {
	case <-muxDone:
	case <-time.After(c15BoundMs * time.Millisecond):
		if !parked {
			o.violate(fmt.Sprintf("C15/gate/mux-close-does-not-return-%s-%s-%s", site, side, tr), "%s Mux.Close had not returned %d ms after the held SetReadDeadline call was released", side, c15BoundMs)
		}
	}
	for _, cn := range append(cls, svs...) {
		cn.Close()
	}
	// the underlay transition system (Mieru.UClose, shape of the current source) on the same interleaving:
	// loop held before arming, Close runs to completion, then a seeded schedule to quiescence
	if c.Model != nil {
		b := map[bool]int{false: 0, true: 1}
		reply := c.Model.Ask("c15-uclose 111 %d %d %d %s %d %d %d", b[!k.UDP], b[k.End == "s"], ns, site, k.Seed%7, k.Seed%5, k.Seed%3)
		c.Compared()
		want := "parked=0"
		if parked {
			want = "parked=1"
		}
		if !strings.HasPrefix(reply, "ok ") || !strings.Contains(reply, want) || (!parked && !strings.Contains(reply, "loop=exited")) {
			o.disagree(fmt.Sprintf("C15/uclose-model/%s-%s-%s", site, side, tr), "event loop held before arming its read timeout (%s) while %s Close completes: the real loop parked=%v; the model of the current source replied %q", site, side, parked, reply)
		}
	}
	o.calls = 1
	return o
}

// c15GateCases: every arming site x side x transport, on every run.
func c15GateCases() []c15Case {
	var out []c15Case
	seed := int64(1700)
	for _, udp := range []bool{false, true} {
		for _, end := range []string{"c", "s"} {
			for _, ns := range []int{1, 2} {
				if ns == 2 && (udp || end == "c") {
					continue
				}
				seed++
				out = append(out, c15Case{Kind: "gate", Seed: seed, UDP: udp, End: end, Ender: "read", Sessions: ns})
			}
		}
	}
	seed++
	out = append(out, c15Case{Kind: "gate", Seed: seed, UDP: true, End: "s", Ender: "read", Sessions: 0})
	seed++
	out = append(out, c15Case{Kind: "gate", Seed: seed, UDP: false, End: "s", Ender: "drain", Sessions: 0})
	return out
}
