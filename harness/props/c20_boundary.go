package props

import (
	"fmt"

	pb "github.com/enfein/mieru/v3/pkg/appctl/appctlpb"
	"google.golang.org/protobuf/proto"
	"verifharness/core"
)

// Deterministic boundary profiles for the mierus:// export → import oracle, generated on EVERY run
// before the random stream (round 3): every textual form of an IP literal a validated profile can
// carry (IPv4, ::1, ::, compressed and full IPv6, IPv4-mapped IPv6 in dotted and in hex notation,
// upper case), single ports at both ends of the range, degenerate and full port ranges, names and
// passwords at the boundaries of what the exporter accepts, one / several servers, MTU at its limits.
func c20BoundaryProfiles(c *core.Ctx) []*pb.ClientProfile {
	var out []*pb.ClientProfile
	mk := func(name, user, pw string, servers ...*pb.ServerEndpoint) *pb.ClientProfile {
		return &pb.ClientProfile{ProfileName: proto.String(name), User: &pb.User{Name: proto.String(user), Password: proto.String(pw)}, Servers: servers}
	}
	port := func(p int32) *pb.PortBinding {
		return &pb.PortBinding{Port: proto.Int32(p), Protocol: pb.TransportProtocol_TCP.Enum()}
	}
	rng := func(r string) *pb.PortBinding {
		return &pb.PortBinding{PortRange: proto.String(r), Protocol: pb.TransportProtocol_UDP.Enum()}
	}
	ips := []string{"1.2.3.4", "0.0.0.0", "255.255.255.255", "::1", "::", "2001:db8::1", "2001:db8:0:0:0:0:0:1", "2001:DB8::A",
		"::ffff:1.2.3.4", "::ffff:102:304", "0:0:0:0:0:ffff:1.2.3.4", "64:ff9b::1.2.3.4", "fe80::1"}
	for _, ip := range ips {
		c.Hist("boundary_host", "ip:"+ip)
		out = append(out, mk("b-ip", "u", "pw", &pb.ServerEndpoint{IpAddress: proto.String(ip), PortBindings: []*pb.PortBinding{port(443)}}))
	}
	for _, d := range []string{"a", "example.com", "xn--fiq228c.com", "UPPER.Example.COM", "host_1.lan", "a-b.c-d.e", "localhost"} {
		c.Hist("boundary_host", "domain")
		out = append(out, mk("b-dom", "u", "pw", &pb.ServerEndpoint{DomainName: proto.String(d), PortBindings: []*pb.PortBinding{port(443)}}))
	}
	for _, b := range []*pb.PortBinding{port(1), port(65535), rng("1-1"), rng("65535-65535"), rng("1-65535"), rng("8443-8443"), rng("100-200")} {
		c.Hist("boundary_binding", fmt.Sprintf("port=%d range=%q", b.GetPort(), b.GetPortRange()))
		out = append(out, mk("b-port", "u", "pw", &pb.ServerEndpoint{DomainName: proto.String("example.com"), PortBindings: []*pb.PortBinding{b}}))
	}
	long := func(n int) string {
		b := make([]byte, n)
		for i := range b {
			b[i] = "abc:@/?#%+ &="[i%13]
		}
		return string(b)
	}
	for _, n := range []int{1, 2, 63, 64, 65} {
		c.Hist("boundary_name_len", fmt.Sprint(n))
		out = append(out, mk(long(n), long(n), long(n), &pb.ServerEndpoint{DomainName: proto.String("example.com"), PortBindings: []*pb.PortBinding{port(443)}}))
	}
	for _, m := range []int32{1279, 1280, 1400, 1500, 1501} {
		c.Hist("boundary_mtu", fmt.Sprint(m))
		p := mk("b-mtu", "u", "pw", &pb.ServerEndpoint{DomainName: proto.String("example.com"), PortBindings: []*pb.PortBinding{port(443)}})
		p.Mtu = proto.Int32(m)
		out = append(out, p)
	}
	// several servers (one link each), IPv6 next to a domain name
	out = append(out, mk("b-multi", "u", "pw",
		&pb.ServerEndpoint{IpAddress: proto.String("::ffff:10.0.0.1"), PortBindings: []*pb.PortBinding{port(1), rng("2-3")}},
		&pb.ServerEndpoint{DomainName: proto.String("example.com"), PortBindings: []*pb.PortBinding{port(65535)}},
		&pb.ServerEndpoint{IpAddress: proto.String("2001:db8::2"), PortBindings: []*pb.PortBinding{rng("65534-65535")}}))
	return out
}
