package props

import (
	"context"
	"encoding/hex"
	"encoding/json"
	"fmt"
	"io"
	"net"
	"sync"
	"time"

	"github.com/enfein/mieru/v3/pkg/protocol"
	"verifharness/core"
	"verifharness/sim"
	"verifharness/wire"
)

// C07, whole-session stage: the property's observation point is UserContext.UserName() of the
// sessions a server accepts. Several users (distinct credentials, plus one pair sharing a
// credential) open sessions from fresh and from re-used source addresses, in an order that warms the
// source-address cache with OTHER users first; every accepted session must be attributed to the
// user that dialled it (distinct credentials), resp. to the hinted user of the sharing pair.

type c07EPCase struct {
	Seed  int64 `json:"seed"`
	UDP   bool  `json:"udp"`
	Order []int `json:"order"` // user index of each successive session
	NAT   bool  `json:"nat"`   // all clients share one source IP (different ports)
	EP    bool  `json:"c07_endpoint"`
}

func c07EndpointRun(c *core.Ctx, k c07EPCase) {
	shared := hex.EncodeToString(wire.HashedPassword("shared-a", "same-secret"))
	users := []sim.User{
		{Name: "u-alice", Password: "pw-alice"},
		{Name: "u-bob", Password: "pw-bob"},
		{Name: "u-carol", Password: "pw-carol"},
		{Name: "shared-a", HashedHex: shared},
		{Name: "shared-b", HashedHex: shared},
		{Name: "hashed-c", HashedHex: hex.EncodeToString(wire.HashedPassword("hashed-c", "secret-c"))},
	}
	w, err := sim.NewWorld(sim.Config{UDP: k.UDP, Seed: k.Seed, Users: users})
	if err != nil {
		c.Violate("C07/endpoint/setup", err.Error(), k)
		return
	}
	defer bgClose.Go(w.Close)
	if k.NAT {
		w.Net.ClientIP = net.IPv4(10, 9, 7, 7)
	}
	clients := make([]*protocol.Mux, len(users))
	clients[0] = w.Client
	for i := 1; i < len(users); i++ {
		cl, err := w.NewClient(i, nil)
		if err != nil {
			c.Violate("C07/endpoint/setup", err.Error(), k)
			return
		}
		clients[i] = cl
	}
	type acc struct {
		user string
		tag  byte
	}
	var mu sync.Mutex
	got := map[byte]string{}
	go func() {
		for {
			conn, err := w.Server.Accept()
			if err != nil {
				return
			}
			go func(conn net.Conn) {
				b := make([]byte, 1)
				conn.SetReadDeadline(time.Now().Add(20 * time.Second))
				if _, err := io.ReadFull(conn, b); err != nil {
					return
				}
				name := ""
				if u, ok := conn.(userNamer); ok {
					name = u.UserName()
				}
				mu.Lock()
				got[b[0]] = name
				mu.Unlock()
				conn.Write([]byte{b[0]})
			}(conn)
		}
	}()
	var open []net.Conn
	defer func() {
		for _, x := range open {
			x.Close()
		}
	}()
	for i, ui := range k.Order {
		ctx, cancel := context.WithTimeout(context.Background(), 20*time.Second)
		conn, err := clients[ui].DialContext(ctx)
		cancel()
		if err != nil {
			c.Violate("C07/endpoint/registered-user-rejected", fmt.Sprintf("session %d of registered user %s could not be dialled: %v", i, users[ui].Name, err), k)
			continue
		}
		conn.Write([]byte{byte(i)})
		b := make([]byte, 1)
		conn.SetReadDeadline(time.Now().Add(20 * time.Second))
		_, rerr := io.ReadFull(conn, b)
		open = append(open, conn) // stays open: later datagrams from the same IP meet an existing session
		mu.Lock()
		name, ok := got[byte(i)]
		mu.Unlock()
		c.Compared()
		c.Hist("c07_endpoint_user", users[ui].Name)
		if rerr != nil || !ok {
			c.Violate("C07/endpoint/registered-user-rejected", fmt.Sprintf("session %d of registered user %s was not accepted (read err %v)", i, users[ui].Name, rerr), k)
			continue
		}
		if name != users[ui].Name {
			key := "C07/endpoint/attributed-to-other-user"
			if ui >= 3 {
				key = "C07/endpoint/shared-credential-hint-ignored"
			}
			c.Violate(key, fmt.Sprintf("session %d was opened by %s (hint names it, its credential authenticates) but the server attributed it to %q", i, users[ui].Name, name), k)
		}
	}
	// --- reload: once SetUsers has returned, retired credentials authenticate nothing new
	newHashed := hex.EncodeToString(wire.HashedPassword("hashed-c", "rotated-secret-c"))
	reloaded := []sim.User{
		{Name: "u-alice", Password: "pw-alice"},     // unchanged
		{Name: "u-carol", Password: "pw-carol-new"}, // password changed
		{Name: "shared-a", HashedHex: shared},       // unchanged
		{Name: "shared-b", HashedHex: shared},       // unchanged
		{Name: "hashed-c", HashedHex: newHashed},    // only the hashed credential changed
	} // u-bob removed
	w.Server.SetServerUsers(sim.PBUsers(reloaded))
	try := func(cl *protocol.Mux, tag byte, wait time.Duration) bool {
		ctx, cancel := context.WithTimeout(context.Background(), wait)
		defer cancel()
		conn, err := cl.DialContext(ctx)
		if err != nil {
			return false
		}
		defer conn.Close()
		conn.Write([]byte{tag})
		b := make([]byte, 1)
		conn.SetReadDeadline(time.Now().Add(wait))
		_, rerr := io.ReadFull(conn, b)
		return rerr == nil
	}
	// retired credentials: u-bob (removed), u-carol's old password, hashed-c's old hash
	for j, ui := range []int{1, 2, 5} {
		c.Compared()
		if try(clients[ui], byte(100+j), 1500*time.Millisecond) {
			c.Violate("C07/reload/retired-credential-accepted", fmt.Sprintf("after the user list was reloaded, a new connection with the retired credential of %s was still accepted", users[ui].Name), k)
		}
	}
	// current credentials keep working
	w.Cfg.Users = append(w.Cfg.Users, sim.User{Name: "u-carol", Password: "pw-carol-new"}, sim.User{Name: "hashed-c", HashedHex: newHashed})
	for j, ui := range []int{0, 4, len(w.Cfg.Users) - 2, len(w.Cfg.Users) - 1} {
		cl := clients[0]
		if ui < len(clients) {
			cl = clients[ui]
		} else {
			ncl, err := w.NewClient(ui, nil)
			if err != nil {
				continue
			}
			cl = ncl
		}
		c.Compared()
		if !try(cl, byte(110+j), 20*time.Second) {
			c.Violate("C07/reload/current-credential-rejected", fmt.Sprintf("after the reload a connection with the current credential of %s was not accepted", w.Cfg.Users[ui].Name), k)
		}
	}
}

func init() {
	core.RegisterExtra("C07", func(c *core.Ctx) {
		c.Correspondence("whole sessions: UserContext.UserName() of every accepted session vs the dialling user (distinct credentials and a credential-sharing pair, warm source caches), TCP and UDP")
		n := c.N(6, 40)
		cases := make([]c07EPCase, n)
		for i := range cases {
			k := c07EPCase{Seed: c.Rand.Int63(), UDP: i%2 == 1, EP: true, NAT: i%4 < 2}
			for j := 0; j < 12; j++ {
				k.Order = append(k.Order, c.Rand.Intn(6))
			}
			// always include: shared-a then shared-b (and back) so the other holder's session exists / is cached
			k.Order = append(k.Order, 3, 4, 3, 4, 0, 4)
			cases[i] = k
		}
		c.Sample(cases[0])
		core.Parallel(n, 6, func(i int) {
			c.Eval(fmt.Sprintf("c07-endpoint/%v/%d", cases[i].UDP, cases[i].Seed), true)
			c07EndpointRun(c, cases[i])
		})
		bgClose.Wait(30 * time.Second)
	})
	core.RegisterReplay("C07", func(c *core.Ctx, raw json.RawMessage) bool {
		var k c07EPCase
		if json.Unmarshal(raw, &k) != nil || !k.EP {
			return false
		}
		c07EndpointRun(c, k)
		bgClose.Wait(30 * time.Second)
		return true
	})
}
