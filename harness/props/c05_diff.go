package props

import (
	"sync/atomic"
	"context"
	"fmt"
	"io"
	"math/rand"
	"net"
	"strings"
	"time"

	appctlpb "github.com/enfein/mieru/v3/pkg/appctl/appctlpb"
	"github.com/enfein/mieru/v3/pkg/cipher"
	"github.com/enfein/mieru/v3/pkg/protocol"
	"github.com/enfein/mieru/v3/pkg/replay"
	"google.golang.org/protobuf/proto"

	"verifharness/core"
	"verifharness/sim"
	"verifharness/simnet"
	"verifharness/wire"
)

// C05, differential stage. One world at a time, one probe at a time, nothing else running in the
// process: the branch the REAL server took for the probe is read from the server's own counters
// (cipher.ServerIterateDecrypt / ServerFailedIterateDecrypt: header long enough, discovery found a
// user; replay.NewSession / NewSessionDecrypted: the replay cache reported the header;
// UnderlayMalformedUDP: datagram shorter than a header) and compared with the unit token the probe was
// built to present; the model's WHOLE reply for that token (outputs yes/no, close requests, sessions
// accepted, connection closed at once) is compared with what was measured on the wire and at Accept.
// Positive controls (authenticated, well-formed streams of several segments; valid datagrams) are part
// of the probe set, so the comparison covers later iterations of the event loop and can fail in both
// directions. Server-emitted units re-sent to the server by a third party (reflection) and probes
// under a credential revoked by a reload close the set.

type srvCounters struct {
	iter, failedIter, direct, failedDirect, newSession, newSessionDecrypted, known, malformed int64
}

func readCounters() srvCounters {
	return srvCounters{
		iter: cipher.ServerIterateDecrypt.Load(), failedIter: cipher.ServerFailedIterateDecrypt.Load(),
		direct: cipher.ServerDirectDecrypt.Load(), failedDirect: cipher.ServerFailedDirectDecrypt.Load(),
		newSession: replay.NewSession.Load(), newSessionDecrypted: replay.NewSessionDecrypted.Load(),
		known: replay.KnownSession.Load(), malformed: protocol.UnderlayMalformedUDP.Load(),
	}
}

func (a srvCounters) sub(b srvCounters) srvCounters {
	return srvCounters{a.iter - b.iter, a.failedIter - b.failedIter, a.direct - b.direct, a.failedDirect - b.failedDirect,
		a.newSession - b.newSession, a.newSessionDecrypted - b.newSessionDecrypted, a.known - b.known, a.malformed - b.malformed}
}

// waitFor polls a condition (a positive completion signal) for at most maxWait.
func waitFor(maxWait time.Duration, cond func() bool) bool {
	deadline := time.Now().Add(maxWait)
	for {
		if cond() {
			return true
		}
		if time.Now().After(deadline) {
			return false
		}
		time.Sleep(5 * time.Millisecond)
	}
}

// waitQuiet returns once the server's counters have not moved for 50 ms (at most maxWait).
func waitQuiet(maxWait time.Duration) srvCounters {
	deadline := time.Now().Add(maxWait)
	last := readCounters()
	stable := time.Now()
	for time.Now().Before(deadline) {
		time.Sleep(10 * time.Millisecond)
		cur := readCounters()
		if cur != last {
			last, stable = cur, time.Now()
			continue
		}
		if time.Since(stable) >= 50*time.Millisecond {
			break
		}
	}
	return last
}

// ---- authenticated streams (positive and negative controls under a registered credential) ----------

type c05Seg struct {
	Proto   uint8
	Sid     uint32
	Payload int
	Pad     int
	TSDelta int
	Garbage int // > 0: this many random bytes instead of a segment
}

func buildStreamTCP(r *rand.Rand, hashed []byte, user string, specs []c05Seg) (data []byte, toks []tcpTok, key []byte) {
	key = wire.KeyForSlot(hashed, wire.RoundTo2Min(time.Now().Unix()))
	enc := &wire.StreamEncoder{Key: key, Nonce: newNonce(r, "alice")}
	for i, sp := range specs {
		if sp.Garbage > 0 {
			g := make([]byte, sp.Garbage)
			r.Read(g)
			data = append(data, g...)
			av := sp.Garbage
			if av > 48 {
				av = 48
			}
			toks = append(toks, tcpTok{Avail: av, EOF: true})
			continue
		}
		payload := make([]byte, sp.Payload)
		r.Read(payload)
		pad := make([]byte, sp.Pad)
		r.Read(pad)
		m := wire.Meta{Proto: sp.Proto, Timestamp: uint32(time.Now().Unix()/60 + int64(sp.TSDelta)), SessionID: sp.Sid, Seq: 0}
		data = append(data, enc.Seal(m, payload, nil, pad, 0)...)
		av := 48
		if i == 0 {
			av = 72
		}
		need := sp.Pad
		if sp.Payload > 0 {
			need += sp.Payload + 16
		}
		toks = append(toks, tcpTok{Avail: av, Opens: user, Proto: int(sp.Proto), Sid: sp.Sid, PL: sp.Payload, Suf: sp.Pad, Body: need,
			TSBad: sp.TSDelta >= 2 || sp.TSDelta <= -2})
	}
	return
}

func joinToks(ts []tcpTok) string {
	s := make([]string, len(ts))
	for i, t := range ts {
		s[i] = t.String()
	}
	return strings.Join(s, " ")
}

func authStreamsTCP(r *rand.Rand) []probe {
	h := hashedOf("alice", "alice-secret")
	var ps []probe
	add := func(class string, specs []c05Seg, eof bool) {
		data, toks, key := buildStreamTCP(r, h, aliceID, specs)
		ps = append(ps, probe{Class: class, Data: core.Hex(data), Model: joinToks(toks), Key: core.Hex(key), EOF: eof})
	}
	sid := func() uint32 { return 1000 + r.Uint32()%1000000 }
	a, b := sid(), sid()
	add("auth/open", []c05Seg{{Proto: 2, Sid: a, Payload: 50, Pad: 9}}, false)
	add("auth/open-empty-payload", []c05Seg{{Proto: 2, Sid: sid(), Payload: 0, Pad: 0}}, false)
	add("auth/open+data-unknown-session", []c05Seg{{Proto: 2, Sid: a, Payload: 10, Pad: 3}, {Proto: 6, Sid: b, Payload: 20, Pad: 5}}, false)
	add("auth/open+ack-unknown-session", []c05Seg{{Proto: 2, Sid: a, Payload: 10, Pad: 3}, {Proto: 8, Sid: b, Payload: 0, Pad: 2}}, false)
	add("auth/open+open-response", []c05Seg{{Proto: 2, Sid: a, Payload: 10, Pad: 3}, {Proto: 3, Sid: a, Payload: 0, Pad: 4}}, false)
	add("auth/open-session-id-0", []c05Seg{{Proto: 2, Sid: 0, Payload: 10, Pad: 3}}, false)
	add("auth/data-first", []c05Seg{{Proto: 6, Sid: a, Payload: 10, Pad: 3}}, false)
	add("auth/close-request-first", []c05Seg{{Proto: 4, Sid: a, Payload: 0, Pad: 3}}, false)
	add("auth/open-response-first", []c05Seg{{Proto: 3, Sid: a, Payload: 0, Pad: 3}}, false)
	add("auth/server-data-first", []c05Seg{{Proto: 7, Sid: a, Payload: 10, Pad: 3}}, false)
	add("auth/open+same-open-again", []c05Seg{{Proto: 2, Sid: a, Payload: 10, Pad: 3}, {Proto: 2, Sid: a, Payload: 10, Pad: 3}}, false)
	add("auth/open+second-open", []c05Seg{{Proto: 2, Sid: a, Payload: 10, Pad: 3}, {Proto: 2, Sid: b, Payload: 10, Pad: 3}}, false)
	add("auth/open+open-session-id-0", []c05Seg{{Proto: 2, Sid: a, Payload: 10, Pad: 3}, {Proto: 2, Sid: 0, Payload: 0, Pad: 3}}, false)
	add("auth/open+unknown-protocol", []c05Seg{{Proto: 2, Sid: a, Payload: 10, Pad: 3}, {Proto: 12, Sid: a, Payload: 0, Pad: 0}}, false)
	add("auth/open+close-unknown-session", []c05Seg{{Proto: 2, Sid: a, Payload: 10, Pad: 3}, {Proto: 4, Sid: b, Payload: 0, Pad: 3}}, false)
	add("auth/open+garbage", []c05Seg{{Proto: 2, Sid: a, Payload: 10, Pad: 3}, {Garbage: 48}}, true)
	add("auth/open+short-garbage", []c05Seg{{Proto: 2, Sid: a, Payload: 10, Pad: 3}, {Garbage: 47}}, true)
	add("auth/open-payload-1024", []c05Seg{{Proto: 2, Sid: sid(), Payload: 1024, Pad: 1}}, false)
	add("auth/open-payload-1025", []c05Seg{{Proto: 2, Sid: sid(), Payload: 1025, Pad: 1}}, false)
	return ps
}

// stampProbe builds, right before it is sent, an authenticated open request stamped d minutes away.
func stampProbe(r *rand.Rand, udp bool, d int) probe {
	stableMinute(5 * time.Second)
	h := hashedOf("alice", "alice-secret")
	sid := 1000 + r.Uint32()%1000000
	class := fmt.Sprintf("auth/open-stamp%+dmin", d)
	if udp {
		data, tok, key := buildDatagram(r, h, 2, sid, 5, 0, 1, d, 0)
		return probe{Class: class, Data: core.Hex(data), Model: tok.String(), Key: core.Hex(key)}
	}
	data, toks, key := buildStreamTCP(r, h, aliceID, []c05Seg{{Proto: 2, Sid: sid, Payload: 5, Pad: 1, TSDelta: d}})
	return probe{Class: class, Data: core.Hex(data), Model: joinToks(toks), Key: core.Hex(key)}
}

// ---- authenticated datagrams -------------------------------------------------------------------------

func leMask(r *rand.Rand, ones int) uint32 {
	perm := r.Perm(32)
	var m uint32
	for i := 0; i < ones; i++ {
		m |= 1 << uint(perm[i])
	}
	return m
}

func buildDatagram(r *rand.Rand, hashed []byte, proto uint8, sid uint32, payload, pad1, pad2, tsDelta int, extra int) (data []byte, tok udpTok, key []byte) {
	key = wire.KeyForSlot(hashed, wire.RoundTo2Min(time.Now().Unix()))
	pl := make([]byte, payload)
	r.Read(pl)
	p1 := make([]byte, pad1)
	r.Read(p1)
	p2 := make([]byte, pad2)
	r.Read(p2)
	m := wire.Meta{Proto: proto, Timestamp: uint32(time.Now().Unix()/60 + int64(tsDelta)), SessionID: sid}
	if m.IsLE() {
		m.Byte1 = 2 // LOW_ENTROPY_MODE_40: 20 ones in the half mask
		m.LEMask = leMask(r, 20)
	}
	if m.IsSession() {
		p1 = nil
	}
	data = wire.SealUDP(key, newNonce(r, "alice"), m, pl, p1, p2, 0)
	seg, err := wire.OpenUDP(data, [][]byte{key})
	wpl := payload
	if err == nil {
		wpl = int(seg.PayloadLen)
	}
	for i := 0; i < extra; i++ {
		data = append(data, byte(i))
	}
	if extra < 0 {
		data = data[:len(data)+extra]
	}
	tok = udpTok{Len: len(data), Discover: aliceID, Proto: int(proto), Sid: sid, PL: wpl, Pre: len(p1), Suf: pad2, TSBad: tsDelta >= 2 || tsDelta <= -2}
	if len(data) < 72 {
		tok = udpTok{Len: len(data)}
	}
	return
}

func authDatagrams(r *rand.Rand) []probe {
	h := hashedOf("alice", "alice-secret")
	var ps []probe
	add := func(class string, proto uint8, sid uint32, payload, pad1, pad2, ts, extra int) {
		data, tok, key := buildDatagram(r, h, proto, sid, payload, pad1, pad2, ts, extra)
		ps = append(ps, probe{Class: class, Data: core.Hex(data), Model: tok.String(), Key: core.Hex(key)})
	}
	sid := func() uint32 { return 1000 + r.Uint32()%1000000 }
	add("auth/open", 2, sid(), 50, 0, 9, 0, 0)
	add("auth/open-empty-payload", 2, sid(), 0, 0, 0, 0, 0)
	add("auth/open-one-byte-longer", 2, sid(), 50, 0, 9, 0, 1)
	add("auth/open-one-byte-shorter", 2, sid(), 50, 0, 9, 0, -1)
	add("auth/open-empty-one-byte-longer", 2, sid(), 0, 0, 5, 0, 1)
	add("auth/open-session-id-0", 2, 0, 10, 0, 3, 0, 0)
	add("auth/data-unknown-session", 6, sid(), 20, 4, 5, 0, 0)
	add("auth/data-unknown-session-one-byte-longer", 6, sid(), 20, 4, 5, 0, 1)
	add("auth/ack-unknown-session", 8, sid(), 0, 2, 2, 0, 0)
	add("auth/le-data-unknown-session", 10, sid(), 20, 4, 5, 0, 0)
	add("auth/server-data", 7, sid(), 20, 4, 5, 0, 0)
	add("auth/server-ack", 9, sid(), 0, 2, 2, 0, 0)
	add("auth/server-le-data", 11, sid(), 20, 4, 5, 0, 0)
	add("auth/open-response", 3, sid(), 0, 0, 3, 0, 0)
	add("auth/close-request-unknown-session", 4, sid(), 0, 0, 3, 0, 0)
	add("auth/close-response-unknown-session", 5, sid(), 0, 0, 3, 0, 0)
	add("auth/unknown-protocol", 12, sid(), 0, 0, 0, 0, 0)
	add("auth/open-payload-1024", 2, sid(), 1024, 0, 1, 0, 0)
	add("auth/open-payload-1025", 2, sid(), 1025, 0, 1, 0, 0)
	return ps
}

// ---- one probe, measured ----------------------------------------------------------------------------------

type measured struct {
	out       int  // bytes / datagrams the server sent to the prober
	closeReqs int  // close-session requests among them (decoded with the probe's key), -1 = not decoded
	accepts   int  // sessions handed to the application
	closed    bool // TCP: the server closed the connection within the observation time
	d         srvCounters
}

// openedSids: the session ids of the open requests among a probe's unit tokens.
func openedSids(model string) map[uint32]bool {
	res := map[uint32]bool{}
	for _, tok := range strings.Fields(model) {
		f := strings.Split(tok, "/")
		if len(f) == 13 && f[4] == "2" {
			var sid uint32
			fmt.Sscanf(f[5], "%d", &sid)
			res[sid] = true
		}
	}
	return res
}

// countCloseReqs counts the close-session requests the EVENT LOOP sent (for sessions it does not know);
// a close request a session sends for itself is session traffic.
func countCloseReqs(p probe, s2c []byte) int {
	dec := &wire.StreamDecoder{Keys: [][]byte{core.UnHex(p.Key)}}
	opened := openedSids(p.Model)
	n := 0
	for _, s := range dec.Feed(s2c) {
		if s.Proto == wire.CloseSessionRequest && !opened[s.SessionID] {
			n++
		}
	}
	return n
}

// c05WriteSplit writes a probe's bytes to a fresh connection. Two of three probes longer than 16 bytes are
// written in two pieces with a pause, the cut cycling through every position 1..15 INSIDE the first 16 bytes
// (the replay signature): a server that consults its replay record before it has read the whole header sees a
// short first read (seeded C06-6). With io.ReadFull on the server side the split is invisible.
var c05SplitCounter atomic.Int32

func c05WriteSplit(cc io.Writer, data []byte) {
	n := int(c05SplitCounter.Add(1))
	if len(data) <= 16 || n%3 == 0 {
		cc.Write(data)
		return
	}
	k := 1 + n%15
	cc.Write(data[:k])
	time.Sleep(15 * time.Millisecond)
	cc.Write(data[k:])
}

// probeTCP sends one probe on a fresh connection and measures the server's reaction. `want` is the
// model's prediction, used ONLY to know which positive completion signals to wait for (a prediction the
// server does not fulfil within the time-out is measured as it is, and reported as a disagreement).
func (pw *probeWorld) probeTCP(p probe, want modelReply) measured {
	w := pw.w
	c0 := waitQuiet(2 * time.Second)
	a0 := pw.accepts()
	cc, _, err := w.Net.DialPair("10.8.0.1:8964")
	if err != nil {
		return measured{closeReqs: -1}
	}
	data := core.UnHex(p.Data)
	if len(data) > 0 {
		c05WriteSplit(cc, data)
	}
	if p.EOF {
		cc.CloseWrite()
	}
	// completion signal known from the probe itself: a full header makes the server run discovery
	if len(data) >= 72 {
		waitFor(3*time.Second, func() bool { return readCounters().iter-c0.iter >= 1 })
	}
	if want.Accepted > 0 {
		waitFor(3*time.Second, func() bool { return pw.accepts()-a0 >= want.Accepted })
	}
	if want.Out > 0 || want.CloseReq > 0 {
		waitFor(3*time.Second, func() bool {
			_, s2c, _, _ := cc.Capture().Snapshot()
			if len(s2c) == 0 {
				return false
			}
			return want.CloseReq == 0 || p.Key == "" || countCloseReqs(p, s2c) >= want.CloseReq
		})
	}
	c1 := waitQuiet(time.Second)
	m := measured{d: c1.sub(c0), closeReqs: -1}
	// did the server close? read what it sent until EOF or a time-out
	window := 150 * time.Millisecond
	if want.Closed == 1 && want.Drain == 0 {
		window = 3 * time.Second
	}
	buf := make([]byte, 65536)
	cc.SetReadDeadline(time.Now().Add(window))
	for {
		_, err := cc.Read(buf)
		if err == io.EOF {
			m.closed = true
		}
		if err != nil {
			break
		}
	}
	m.accepts = pw.accepts() - a0
	_, s2c, _, _ := cc.Capture().Snapshot()
	m.out = len(s2c)
	if p.Key != "" {
		m.closeReqs = countCloseReqs(p, s2c)
	}
	cc.Close()
	return m
}

func (pw *probeWorld) probeUDP(p probe, want modelReply) measured {
	w := pw.w
	c0 := waitQuiet(2 * time.Second)
	a0 := pw.accepts()
	w.Net.Lock()
	dg0 := len(w.Net.Datagrams)
	w.Net.Unlock()
	laddr := ""
	if p.From != "" {
		laddr = p.From + ":0"
	}
	pc, err := w.Net.ListenPacket(context.Background(), "udp", laddr, "")
	if err != nil {
		return measured{closeReqs: -1}
	}
	defer pc.Close()
	data := core.UnHex(p.Data)
	pc.WriteTo(data, &net.UDPAddr{IP: net.IPv4(10, 8, 0, 1), Port: 8964})
	paddr := pc.LocalAddr().String()
	replies := func() (n, closeReqs int) {
		w.Net.Lock()
		defer w.Net.Unlock()
		for _, d := range w.Net.Datagrams[dg0:] {
			if d.From == "10.8.0.1:8964" && d.To == paddr {
				n++
				if p.Key != "" {
					if seg, err := wire.OpenUDP(d.Data, [][]byte{core.UnHex(p.Key)}); err == nil && seg.Proto == wire.CloseSessionRequest {
						closeReqs++
					}
				}
			}
		}
		return
	}
	// completion signal known from the probe itself: the datagram is counted as malformed, or discovery runs
	if len(data) < 72 {
		waitFor(3*time.Second, func() bool { return readCounters().malformed-c0.malformed >= 1 })
	} else {
		waitFor(3*time.Second, func() bool { return readCounters().iter-c0.iter >= 1 })
	}
	if want.Accepted > 0 {
		waitFor(3*time.Second, func() bool { return pw.accepts()-a0 >= want.Accepted })
	}
	if want.Out > 0 {
		waitFor(3*time.Second, func() bool { n, cr := replies(); return n > 0 && cr >= want.CloseReq })
	}
	c1 := waitQuiet(time.Second)
	time.Sleep(30 * time.Millisecond)
	m := measured{d: c1.sub(c0), accepts: pw.accepts() - a0, closeReqs: -1}
	n, cr := replies()
	m.out = n
	if p.Key != "" {
		m.closeReqs = cr
	}
	return m
}

// firstTok parses the fields of the first unit token the differential comparison needs.
func firstTokTCP(model string) (avail int, opens bool, dup bool) {
	f := strings.Split(strings.Fields(model)[0], "/")
	fmt.Sscanf(f[0], "%d", &avail)
	return avail, f[2] != "none", f[3] == "1"
}

func firstTokUDP(model string) (ln int, opens bool, dup bool) {
	f := strings.Split(strings.Fields(model)[0], "/")
	fmt.Sscanf(f[0], "%d", &ln)
	return ln, f[1] != "none" || f[2] != "none", f[3] == "1"
}

func c05Compare(c *core.Ctx, k probeCase, p probe, m measured, mr modelReply) {
	tr := map[bool]string{true: "udp", false: "tcp"}[k.UDP]
	single := probeCase{Seed: k.Seed, UDP: k.UDP, Stage: k.Stage, LE: k.LE, Reload: k.Reload, Probes: []probe{p}}
	c.Eval(fmt.Sprintf("diff/%s/%s/%s", tr, p.Class, p.Data), true)
	c.Hist("diff_class", tr+":"+p.Class)
	// (1) the branch the real server took vs the unit token
	c.Compared()
	if k.UDP {
		ln, opens, dup := firstTokUDP(p.Model)
		wantShort := int64(0)
		if ln < 72 {
			wantShort = 1
		}
		gotOpens := ln >= 72 && m.d.failedIter == 0
		gotDup := m.d.newSession >= 1
		c.Hist("diff_branch", fmt.Sprintf("udp short=%d opens=%v dup=%v", m.d.malformed, gotOpens, gotDup))
		if m.d.malformed != wantShort || (ln >= 72 && (gotOpens != opens || gotDup != dup || (m.d.newSessionDecrypted >= 1) != (opens && dup))) {
			c.Disagree("C05/corr/branch-taken/udp/"+p.Class, fmt.Sprintf("unit %s but the server's counters say: too-short=%d discovery=%d failed=%d replay=%d replay-decrypted=%d", p.Model, m.d.malformed, m.d.iter, m.d.failedIter, m.d.newSession, m.d.newSessionDecrypted), single)
		}
	} else {
		avail, opens, dup := firstTokTCP(p.Model)
		gotEnough := m.d.iter >= 1
		gotOpens := gotEnough && m.d.failedIter == 0
		gotDup := m.d.newSession >= 1
		c.Hist("diff_branch", fmt.Sprintf("tcp header=%v opens=%v dup=%v", gotEnough, gotOpens, gotDup))
		if gotEnough != (avail >= 72) || (gotEnough && (gotOpens != opens || gotDup != dup || (m.d.newSessionDecrypted >= 1) != (opens && dup))) {
			c.Disagree("C05/corr/branch-taken/tcp/"+p.Class, fmt.Sprintf("unit %s but the server's counters say: discovery=%d failed=%d replay=%d replay-decrypted=%d", p.Model, m.d.iter, m.d.failedIter, m.d.newSession, m.d.newSessionDecrypted), single)
		}
	}
	// (2) the model's reply vs what was measured
	c.Compared()
	if !mr.OK {
		c.Disagree("C05/corr/model-reply", fmt.Sprintf("class %s: model %q for %q", p.Class, mr.Raw, p.Model), single)
		return
	}
	// `out` of the model: close requests are written by the event loop itself before it goes on; a
	// session's traffic is written by the session's own loop, provided the underlay is still there
	bad := ""
	if m.out > 0 && mr.Out == 0 {
		bad = "outputs"
	} else if mr.Out > 0 && m.out == 0 && (mr.Closed == 0 || mr.CloseReq > 0) {
		bad = "outputs"
	} else if mr.Accepted != m.accepts {
		bad = "sessions accepted"
	} else if m.closeReqs >= 0 && mr.CloseReq != m.closeReqs {
		bad = "close requests"
	} else if !k.UDP && mr.Closed == 1 && mr.Drain == 0 && !m.closed {
		bad = "connection still open"
	} else if !k.UDP && mr.Closed == 0 && m.closed {
		bad = "connection closed"
	}
	if bad != "" {
		c.Disagree("C05/corr/model-vs-server/"+tr+"/"+p.Class, fmt.Sprintf("%s differ: model %s; server: sent %d (close requests %d), accepted %d, closed %v", bad, mr.Raw, m.out, m.closeReqs, m.accepts, m.closed), single)
	}
	// (3) the property itself: whatever is short of a valid open request under a registered credential
	// is neither answered nor accepted. A probe is credential-less unless its class says auth/.
	if !strings.HasPrefix(p.Class, "auth/") && !strings.HasPrefix(p.Class, "revoked/control") && (m.out > 0 || m.accepts > 0) {
		c.Violate(fmt.Sprintf("C05/%s/server-replied/%s", tr, p.Class), fmt.Sprintf("server sent %d %s and accepted %d session(s) for a peer that presented no registered credential (%s %s)", m.out, map[bool]string{true: "datagram(s)", false: "bytes"}[k.UDP], m.accepts, p.Class, p.Note), single)
	}
}

func (pw *probeWorld) runDiffProbes(c *core.Ctx, k probeCase, probes []probe) {
	for _, p := range probes {
		op := "srv-tcp"
		if k.UDP {
			op = "srv-udp"
		}
		tokReply := c.Model.Ask("%s %s", op, p.Model)
		mr := parseModelReply(tokReply)
		// round 4: the reaction compared with the server is the one the LEAN byte-level function computes
		// from the raw bytes + credentials + clock (c05_bytes.go); the by-construction tokens are a cross-check
		if br, units, ok := c05BytesModel(c, k, p); ok {
			c05BytesCompare(c, k, p, tokReply, br, units)
			if bm := parseModelReply(br); bm.OK {
				mr = bm
			}
		}
		var m measured
		if k.UDP {
			m = pw.probeUDP(p, mr)
		} else {
			m = pw.probeTCP(p, mr)
		}
		c05Compare(c, k, p, m, mr)
	}
}

func lePattern() *appctlpb.TrafficPattern {
	m := appctlpb.LowEntropyMode_LOW_ENTROPY_MODE_40
	return &appctlpb.TrafficPattern{LowEntropy: &appctlpb.LowEntropyPattern{Mode: &m}}
}

// eofShort ends the stream after every TCP probe whose (single) unit is PARTIAL — fewer bytes than the
// header, or a body that stops short — so that "closed" is observable at once: the code waits up to two
// minutes for the rest of a partial segment before it gives up, the model's step is that final outcome.
func eofShort(ps []probe) []probe {
	for i := range ps {
		f := strings.Fields(ps[i].Model)
		if len(f) != 1 {
			continue
		}
		t := strings.Split(f[0], "/")
		n := func(j int) int { v := 0; fmt.Sscanf(t[j], "%d", &v); return v }
		avail, proto, pl, pre, suf, body := n(0), n(4), n(6), n(7), n(8), n(11)
		need := suf
		if proto < 2 || proto > 5 {
			need += pre
		}
		if pl > 0 {
			need += pl + 16
		}
		partial := (avail > 0 && avail < 72) || (avail >= 72 && t[2] != "none" && t[3] == "0" && body < need)
		if partial {
			ps[i].EOF = true
			t[1] = "1"
			ps[i].Model = strings.Join(t, "/")
		}
	}
	return ps
}

func c05DiffCase(c *core.Ctx, k probeCase) {
	cfg := sim.Config{UDP: k.UDP, Seed: k.Seed, Users: probeUsers}
	if k.LE {
		cfg.ClientPattern, cfg.ServerPattern = lePattern(), lePattern()
	}
	restore := protocol.VerifSetReplayCaches(4*1024*1024, 6*time.Minute, 4*1024*1024, 6*time.Minute)
	defer restore()
	pw, err := newProbeWorldCfg(cfg)
	if err != nil {
		c.Violate("C05/setup", err.Error(), nil)
		return
	}
	defer bgClose.Go(pw.w.Close)
	w := pw.w
	r := rand.New(rand.NewSource(k.Seed))
	if k.Probes != nil { // replay of a single probe
		msg := make([]byte, 600)
		r.Read(msg)
		pw.genuine(msg)
		pw.runDiffProbes(c, k, k.Probes)
		return
	}
	msg := make([]byte, 3000)
	r.Read(msg)
	if !pw.genuine(msg) {
		c.Violate("C05/genuine-session-failed", "a genuine session did not echo on the probe world (before any probe)", k)
		return
	}
	stableMinute(25 * time.Second)
	var probes []probe
	if k.UDP {
		dg := clientDatagrams(w)
		if len(dg) == 0 {
			c.Disagree("C05/corr/no-genuine-material", "no genuine client datagram captured", k)
			return
		}
		probes = genProbesUDP(r, dg, 50, "C05")
		probes = append(probes, authDatagrams(r)...)
	} else {
		mat := pw.tcpMaterial()
		if len(mat.ends) == 0 {
			c.Disagree("C05/corr/no-genuine-material", "no genuine client stream captured", k)
			return
		}
		probes = eofShort(genProbesTCP(r, mat, 52, "C05"))
		probes = append(probes, probe{Class: "idle-connection", Data: "-", Model: tcpNoKey(0, false).String()},
			probe{Class: "empty-stream", Data: "-", Model: tcpNoKey(0, true).String(), EOF: true})
		probes = append(probes, authStreamsTCP(r)...)
	}
	pw.runDiffProbes(c, k, probes)
	for _, d := range []int{-2, -1, 0, 1, 2} {
		pw.runDiffProbes(c, k, []probe{stampProbe(r, k.UDP, d)})
	}

	// ---- reflection: everything the SERVER emitted, sent back to the server by a third party --------
	// In a deployment the server has never seen its own output; in this process the client shares the
	// replay caches with the server, so they are replaced by empty ones first.
	restore2 := protocol.VerifSetReplayCaches(4*1024*1024, 6*time.Minute, 4*1024*1024, 6*time.Minute)
	defer restore2()
	var refl []probe
	if k.UDP {
		// a session kept open while the first half is reflected ("during the session")
		ctx, cancel := context.WithTimeout(context.Background(), 20*time.Second)
		conn, err := w.Dial(ctx)
		cancel()
		if err == nil {
			conn.Write(msg[:1200])
			buf := make([]byte, 4096)
			conn.SetReadDeadline(time.Now().Add(10 * time.Second))
			for got := 0; got < 1200; {
				n, err := conn.Read(buf)
				got += n
				if err != nil {
					break
				}
			}
		}
		seen := map[string]bool{}
		for _, d := range w.DecodeDatagrams() {
			if d.Err != nil || d.From != "10.8.0.1:8964" {
				continue
			}
			cls := fmt.Sprintf("reflected/type-%d", d.Seg.Proto)
			if seen[cls] && len(refl) >= 24 {
				continue
			}
			seen[cls] = true
			t := udpTokOfSeg(d.Seg.Meta, aliceID, len(d.Data), false)
			refl = append(refl, probe{Class: cls, Data: core.Hex(d.Data), Model: t.String(), Note: "server-emitted datagram re-sent from a third address"})
		}
		half := len(refl) / 2
		for i := range refl[:half] {
			refl[i].Note += ", session alive"
		}
		pw.runDiffProbes(c, k, refl[:half])
		if conn != nil {
			conn.Close()
		}
		for i := 0; i < 100 && len(w.Server.ExportSessionInfoList().GetItems()) > 0; i++ {
			time.Sleep(100 * time.Millisecond)
		}
		for i := range refl[half:] {
			refl[half+i].Note += ", after the session ended"
		}
		pw.runDiffProbes(c, k, refl[half:])
	} else {
		// a few more genuine connections: each server→client stream is a distinct unit
		for i := 0; i < 2; i++ {
			pw.genuine(msg[:700])
		}
		w.Net.Lock()
		caps := append([]*simnet.StreamCapture(nil), w.Net.Streams...)
		w.Net.Unlock()
		nstreams := 0
		for _, cp := range caps {
			_, s2c, _, _ := cp.Snapshot()
			if len(s2c) < 72 || nstreams >= 3 {
				continue
			}
			dec := &wire.StreamDecoder{Keys: w.AllKeys()}
			segs := dec.Feed(s2c)
			if len(segs) == 0 {
				continue
			}
			nstreams++
			fm := segs[0].Meta
			// first presentation of this stream's header: never seen by the server; every later one: reported
			switch nstreams {
			case 1:
				refl = append(refl, probe{Class: "reflected/whole-stream", Data: core.Hex(s2c), Model: tokOfSeg(fm, aliceID, len(s2c), false, false).String(), Note: "server-emitted stream re-sent as a new connection"})
			case 2:
				refl = append(refl, probe{Class: "reflected/header-only", Data: core.Hex(s2c[:72]), Model: tokOfSeg(fm, aliceID, 72, false, false).String()})
			default:
				refl = append(refl, probe{Class: "reflected/first-segment", Data: core.Hex(s2c[:segs[0].WireLen]), Model: tokOfSeg(fm, aliceID, segs[0].WireLen, false, false).String()})
			}
			off := 0
			for i, sg := range segs {
				off += sg.WireLen
				if i < 3 {
					refl = append(refl, probe{Class: fmt.Sprintf("reflected-again/prefix-%d-segments", i+1), Data: core.Hex(s2c[:off]), Model: tokOfSeg(fm, aliceID, off, true, false).String(), Note: "the same server-emitted stream presented once more"})
				}
			}
		}
		pw.runDiffProbes(c, k, eofShort(refl))
	}
	if len(refl) == 0 {
		c.Note("C05 reflection: no server-emitted unit captured (%+v)", k)
	}
}

func c05DiffReplay(c *core.Ctx, k probeCase) {
	c05DiffCase(c, k)
	bgClose.Wait(30 * time.Second)
}

// ---- reload: a credential revoked by a reload is no credential ------------------------------------------

type reloadCase struct {
	Seed    int64  `json:"seed"`
	UDP     bool   `json:"udp"`
	Stage   string `json:"stage"`
	Variant string `json:"variant"`
}

func hashedHex(user, pass string) string { return core.Hex(wire.HashedPassword(user, pass)) }

func c05ReloadCase(c *core.Ctx, k reloadCase) {
	restore := protocol.VerifSetReplayCaches(4*1024*1024, 6*time.Minute, 4*1024*1024, 6*time.Minute)
	defer restore()
	// the server stores hashed passwords only (as mita does)
	u1 := []sim.User{{Name: "alice", HashedHex: hashedHex("alice", "old-secret")}, {Name: "bob", HashedHex: hashedHex("bob", "bob-secret")}}
	pw, err := newProbeWorldCfg(sim.Config{UDP: k.UDP, Seed: k.Seed, Users: u1})
	if err != nil {
		c.Violate("C05/setup", err.Error(), nil)
		return
	}
	defer bgClose.Go(pw.w.Close)
	r := rand.New(rand.NewSource(k.Seed))
	msg := make([]byte, 500)
	r.Read(msg)
	if !pw.genuine(msg) {
		c.Violate("C05/genuine-session-failed", "a genuine session did not echo before the reload", k)
		return
	}
	oldH, newH := wire.HashedPassword("alice", "old-secret"), wire.HashedPassword("alice", "new-secret")
	mb := int32(1000)
	days := int32(1)
	var u2 []sim.User
	oldValid, newValid := false, false
	switch k.Variant {
	case "hashed-password-only":
		u2 = []sim.User{{Name: "alice", HashedHex: core.Hex(newH)}, u1[1]}
		newValid = true
	case "quota-only":
		u2 = []sim.User{{Name: "alice", HashedHex: core.Hex(oldH), Quotas: []*appctlpb.Quota{{Days: proto.Int32(days), Megabytes: proto.Int32(mb)}}}, u1[1]}
		oldValid = true
	case "user-removed":
		u2 = []sim.User{u1[1]}
	case "user-removed-then-re-added":
		pw.w.Server.SetServerUsers(sim.PBUsers([]sim.User{u1[1]}))
		u2 = []sim.User{{Name: "alice", HashedHex: core.Hex(newH)}, u1[1]}
		newValid = true
	case "same-settings":
		u2 = u1
		oldValid = true
	case "other-user-changed":
		u2 = []sim.User{u1[0], {Name: "bob", HashedHex: hashedHex("bob", "bob-new")}}
		oldValid = true
	}
	pw.w.Server.SetServerUsers(sim.PBUsers(u2))
	stableMinute(10 * time.Second)
	pk := probeCase{Seed: k.Seed, UDP: k.UDP, Stage: "C05-reload", Reload: k.Variant}
	one := func(class string, h []byte, valid bool) {
		sid := 1000 + r.Uint32()%1000000
		var p probe
		if k.UDP {
			data, tok, key := buildDatagram(r, h, 2, sid, 30, 0, 5, 0, 0)
			if !valid {
				tok = udpNoKey(len(data))
			}
			p = probe{Class: class, Data: core.Hex(data), Model: tok.String(), Key: core.Hex(key), Note: "reload variant " + k.Variant}
		} else {
			data, toks, key := buildStreamTCP(r, h, aliceID, []c05Seg{{Proto: 2, Sid: sid, Payload: 30, Pad: 5}})
			if !valid {
				toks = []tcpTok{tcpNoKey(72, false)}
			}
			p = probe{Class: class, Data: core.Hex(data), Model: joinToks(toks), Key: core.Hex(key), Note: "reload variant " + k.Variant}
		}
		c.Hist("reload_variant", k.Variant+"/"+class)
		pw.runDiffProbes(c, pk, []probe{p})
	}
	if oldValid {
		one("revoked/control-unchanged-credential", oldH, true)
	} else {
		one("revoked-credential-after-reload", oldH, false)
	}
	if newValid {
		one("revoked/control-new-credential", newH, true)
	} else if k.Variant != "quota-only" && k.Variant != "same-settings" && k.Variant != "other-user-changed" {
		one("never-registered-credential-after-reload", newH, false)
	}
}

func c05Differential(c *core.Ctx) {
	c.Correspondence("differential: per probe, the branch the real server took (its own discovery / replay / malformed counters) vs the unit token, and the model's whole reply (outputs, close requests, sessions accepted, closed at once) vs the wire and Accept — credential-less probes, authenticated multi-segment streams and datagrams (positive and negative controls), server-emitted units reflected by a third party (plain and low-entropy worlds), probes under credentials revoked by a reload")
	cases := []probeCase{
		{Seed: c.Rand.Int63(), UDP: false, Stage: "C05-diff"},
		{Seed: c.Rand.Int63(), UDP: true, Stage: "C05-diff"},
		{Seed: c.Rand.Int63(), UDP: true, Stage: "C05-diff", LE: true},
		{Seed: c.Rand.Int63(), UDP: false, Stage: "C05-diff", LE: true},
	}
	if !c.Thorough() {
		cases = cases[:3]
	}
	for _, k := range cases {
		c05DiffCase(c, k)
	}
	variants := []string{"hashed-password-only", "quota-only", "user-removed", "user-removed-then-re-added", "same-settings", "other-user-changed"}
	for i, v := range variants {
		c05ReloadCase(c, reloadCase{Seed: c.Rand.Int63(), UDP: i%2 == 0, Stage: "C05-reload", Variant: v})
		if c.Thorough() {
			c05ReloadCase(c, reloadCase{Seed: c.Rand.Int63(), UDP: i%2 == 1, Stage: "C05-reload", Variant: v})
		}
	}
	bgClose.Wait(30 * time.Second)
	_ = simnet.New
}
