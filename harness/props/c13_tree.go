package props

import (
	"encoding/json"
	"fmt"
	"math/rand"
	"strconv"
	"strings"

	"github.com/enfein/mieru/v3/pkg/protocol"
	"verifharness/core"
)

// C13, container stage: the functional model of segmentTree (Mieru.SegTree: sorted association list
// with a capacity; the theorems about "discard only what was acknowledged" and "release only the segment
// numbered nextRecv" are stated over it) against the REAL segmentTree, op sequence by op sequence.

type treeCase struct {
	Kind string   `json:"kind"` // "segtree"
	Name string   `json:"name"`
	Cap  int      `json:"cap"`
	Ops  []string `json:"ops"`
}

func treeRun(c *core.Ctx, k treeCase) {
	c.Eval(fmt.Sprintf("segtree/%s/%d/%d", k.Name, k.Cap, len(k.Ops)), true)
	c.Hist("segtree_case", strings.SplitN(k.Name, "#", 2)[0]+fmt.Sprintf(" cap=%d", k.Cap))
	t := protocol.VerifNewSegTree(k.Cap)
	ent := func(e protocol.VerifEntry) string { return fmt.Sprintf("%d.%d", e.Seq, e.Tag) }
	kindOf := map[byte]int{'l': 0, 'e': 1, 't': 2, 'f': 3}
	var real []string
	for _, op := range k.Ops {
		f := strings.Split(op, ":")
		res := "-"
		switch {
		case f[0] == "i":
			seq, _ := strconv.ParseUint(f[1], 10, 32)
			tag, _ := strconv.ParseUint(f[2], 10, 8)
			if t.Insert(uint32(seq), byte(tag)) {
				res = "1"
			} else {
				res = "0"
			}
		case f[0] == "m":
			if e, ok := t.DeleteMin(); ok {
				res = ent(e)
			}
		case f[0] == "x":
			t.DeleteAll()
		case len(f[0]) == 2 && (f[0][0] == 'd' || f[0][0] == 'a'):
			var a uint64
			if len(f) > 1 {
				a, _ = strconv.ParseUint(f[1], 10, 32)
			}
			kind := kindOf[f[0][1]]
			if f[0][0] == 'd' {
				if e, has, del := t.DeleteMinIf(kind, uint32(a)); has {
					d := 0
					if del {
						d = 1
					}
					res = fmt.Sprintf("%s.%d", ent(e), d)
				}
			} else {
				var es []string
				for _, e := range t.Ascend(kind, uint32(a)) {
					es = append(es, ent(e))
				}
				if len(es) > 0 {
					res = strings.Join(es, "+")
				}
			}
		default:
			return
		}
		mn, mx := "-", "-"
		if s, ok := t.MinSeq(); ok {
			mn = fmt.Sprint(s)
		}
		if s, ok := t.MaxSeq(); ok {
			mx = fmt.Sprint(s)
		}
		real = append(real, fmt.Sprintf("%s/%d/%d/%s/%s", res, t.Len(), t.Remaining(), mn, mx))
		if t.Len() > k.Cap {
			c.Violate("C13/segment-tree-exceeds-capacity", fmt.Sprintf("%s: %d entries in a tree of capacity %d after %q", k.Name, t.Len(), k.Cap, op), k)
		}
	}
	c.Compared()
	reply := c.Model.Ask("segtree %d %s", k.Cap, strings.Join(k.Ops, " "))
	want := strings.Fields(reply)
	if len(want) == 0 || want[0] != "ok" || len(want)-1 != len(real) {
		c.Disagree("C13/corr/segtree", fmt.Sprintf("%s: model reply %.80q for %d ops", k.Name, reply, len(real)), k)
		return
	}
	for i := range real {
		if real[i] != want[i+1] {
			c.Disagree("C13/corr/segtree", fmt.Sprintf("%s (cap %d): after op #%d %q the real tree gives result/Len/Remaining/MinSeq/MaxSeq = %.120s, the model %.120s", k.Name, k.Cap, i, k.Ops[i], real[i], want[i+1]), k)
			return
		}
	}
}

func treeBoundaryCases() []treeCase {
	var cs []treeCase
	add := func(name string, cap int, ops ...string) { cs = append(cs, treeCase{Kind: "segtree", Name: name, Cap: cap, Ops: ops}) }
	add("empty-tree-ops", 3, "m", "dl:5", "dt", "df", "at", "al:3", "x", "m")
	add("fill-to-capacity-then-replace", 3, "i:5:1", "i:3:2", "i:9:3", "i:3:7", "i:4:4", "at", "m", "i:9:8", "at", "i:1:1", "i:2:2", "at")
	add("capacity-one", 1, "i:7:1", "i:7:2", "i:8:3", "m", "i:8:3", "de:8", "i:0:0", "dl:0", "de:0")
	add("replace-keeps-order-and-size", 8, "i:2:1", "i:1:1", "i:3:1", "i:2:9", "i:1:8", "i:3:7", "at", "al:2", "ae:2", "af")
	add("delete-min-if-boundaries", 8, "i:10:1", "i:11:2", "i:12:3", "dl:10", "de:9", "de:10", "dl:12", "dl:12", "de:12", "m")
	add("discard-loop", 16, "i:4:0", "i:5:0", "i:6:0", "i:7:0", "i:8:0", "dl:6", "dl:6", "dl:6", "at", "dl:100", "dl:100", "dl:100", "dl:100")
	add("release-loop-with-stale-entries", 16, "i:2:0", "i:3:0", "i:5:0", "i:6:0", "de:4", "de:4", "de:4", "i:4:9", "de:4", "de:5", "de:6", "de:7")
	add("uint32-extremes", 4, "i:4294967295:1", "i:0:2", "i:2147483648:3", "i:2147483647:4", "i:1:5", "at", "m", "dl:4294967295", "de:4294967295", "de:4294967295", "m")
	var fill []string
	for i := 0; i < 4097; i++ {
		fill = append(fill, fmt.Sprintf("i:%d:%d", (i*37)%5003, i%251))
	}
	fill = append(fill, "i:1:1", "m", "i:1:1", "i:0:0", "dl:2000", "dl:2000")
	add("session-capacity-4096", 4096, fill...)
	return cs
}

func treeRandom(r *rand.Rand, name string) treeCase {
	k := treeCase{Kind: "segtree", Name: name, Cap: []int{1, 2, 3, 5, 8, 16}[r.Intn(6)]}
	span := uint32(2 + r.Intn(3*k.Cap+3))
	base := []uint32{0, 0, 100, 4294967280}[r.Intn(4)]
	seq := func() uint32 { return base + uint32(r.Intn(int(span))) }
	for i := 0; i < 40+r.Intn(200); i++ {
		switch r.Intn(10) {
		case 0, 1, 2, 3:
			k.Ops = append(k.Ops, fmt.Sprintf("i:%d:%d", seq(), r.Intn(250)))
		case 4:
			k.Ops = append(k.Ops, "m")
		case 5:
			k.Ops = append(k.Ops, fmt.Sprintf("dl:%d", seq()))
		case 6:
			k.Ops = append(k.Ops, fmt.Sprintf("de:%d", seq()))
		case 7:
			k.Ops = append(k.Ops, []string{"dt", "df", "at", "af"}[r.Intn(4)])
		case 8:
			k.Ops = append(k.Ops, fmt.Sprintf("a%s:%d", []string{"l", "e"}[r.Intn(2)], seq()))
		default:
			if r.Intn(6) == 0 {
				k.Ops = append(k.Ops, "x")
			} else {
				k.Ops = append(k.Ops, fmt.Sprintf("i:%d:%d", seq(), r.Intn(250)))
			}
		}
	}
	return k
}

func init() {
	core.RegisterExtra("C13", func(c *core.Ctx) {
		if !stageOn("tree") {
			return
		}
		c.Correspondence("segmentTree (Insert / DeleteMin / DeleteMinIf / Ascend / DeleteAll / Len / Remaining / MinSeq / MaxSeq) vs Mieru.SegTree on boundary and random op sequences, capacities 1..16 and 4096, sequence numbers up to 2^32-1")
		cases := treeBoundaryCases()
		n := c.N(200, 4000)
		for i := 0; i < n; i++ {
			cases = append(cases, treeRandom(c.Rand, fmt.Sprintf("random#%d", i)))
		}
		c.Sample(cases[1])
		core.Parallel(len(cases), 8, func(i int) { treeRun(c, cases[i]) })
	})
	core.RegisterReplay("C13", func(c *core.Ctx, raw json.RawMessage) bool {
		var k treeCase
		if json.Unmarshal(raw, &k) != nil || k.Kind != "segtree" {
			return false
		}
		treeRun(c, k)
		return true
	})
}
