package props

import (
	"context"
	"encoding/json"
	"fmt"
	"io"
	"math/rand"
	"net"
	"os"
	"path/filepath"
	"sort"
	"strings"
	"time"

	"github.com/enfein/mieru/v3/pkg/appctl/appctlpb"
	"google.golang.org/protobuf/proto"
	"verifharness/core"
	"verifharness/sim"
	"verifharness/simnet"
	"verifharness/wire"
)

// C04 — tampering with bytes on the wire never changes what the application reads.
//
// Mutation campaign on real multi-segment traffic in both directions. Byte-position classes are
// computed by decoding the genuine traffic with harness/wire while it flows; TCP is mutated by a
// stateful simnet.StreamFilter, UDP by the Plan (Delivery.Data).
//
// Direct oracle: TCP — what the receiving application read is a prefix of what was written (the
// connection may end early); UDP — read = written and the transfer completes (the mutated datagram
// behaves as lost).
// Correspondence: the mutated unit is replayed through the model receiver with an ideal AEAD keyed
// by the honest (nonce, plaintext, ciphertext) triples the harness saw (driver ops c04-tcp, c04-udp);
// the model's accept/reject verdict is compared with what the real endpoint did.

type c04Case struct {
	Seed          int64           `json:"seed"`
	UDP           bool            `json:"udp"`
	MTU           int             `json:"mtu"`
	ClientPattern json.RawMessage `json:"client_pattern"`
	ServerPattern json.RawMessage `json:"server_pattern"`
	PatternName   string          `json:"pattern_name"`
	C2S           bool            `json:"c2s"` // direction whose traffic is mutated
	Mut           c04Mut          `json:"mut"`
	ClientWrites  []int           `json:"client_writes"`
	ServerWrites  []int           `json:"server_writes"`
	Special       string          `json:"special,omitempty"` // swap32 | copy32 (crafted application chunks)
	TimeoutS      int             `json:"timeout_s"`
}

var c04Classes = []string{"nonce", "meta-ct", "meta-tag", "pad1", "payload-ct", "payload-tag", "pad2", "boundary"}

func c04Pattern(name string) *appctlpb.TrafficPattern {
	off := appctlpb.LowEntropyMode_LOW_ENTROPY_MODE_OFF
	p := &appctlpb.TrafficPattern{
		TcpFragment: &appctlpb.TCPFragment{Enable: proto.Bool(false)},
		LowEntropy:  &appctlpb.LowEntropyPattern{Mode: &off},
		Padding:     &appctlpb.PaddingPattern{MaxMiddlePaddingLen: proto.Int32(0), MaxEndPaddingLen: proto.Int32(0)},
	}
	switch name {
	case "plain":
	case "maxpad":
		p.Padding = &appctlpb.PaddingPattern{MaxMiddlePaddingLen: proto.Int32(255), MaxEndPaddingLen: proto.Int32(255)}
	case "le":
		m := appctlpb.LowEntropyMode(2)
		rot := appctlpb.LowEntropyMaskRotation(3)
		p.LowEntropy = &appctlpb.LowEntropyPattern{Mode: &m, MaskRotation: &rot}
		p.Padding = &appctlpb.PaddingPattern{MaxMiddlePaddingLen: proto.Int32(17), MaxEndPaddingLen: proto.Int32(17)}
	case "le4":
		m := appctlpb.LowEntropyMode(4)
		p.LowEntropy = &appctlpb.LowEntropyPattern{Mode: &m}
	case "tcpfrag":
		p.TcpFragment = &appctlpb.TCPFragment{Enable: proto.Bool(true), MaxSleepMs: proto.Int32(1)}
		p.Padding = &appctlpb.PaddingPattern{MaxMiddlePaddingLen: proto.Int32(100), MaxEndPaddingLen: proto.Int32(100)}
	}
	return p
}

type c04Outcome struct {
	setup string
	tr    *sim.TransferResult
	world *sim.World
	tcp   *c04TCP
	udp   *c04UDP
}

func c04Exec(k c04Case) *c04Outcome {
	o := &c04Outcome{}
	cfg := sim.Config{UDP: k.UDP, MTU: k.MTU, Seed: k.Seed,
		ClientPattern: patFromJSON(k.ClientPattern), ServerPattern: patFromJSON(k.ServerPattern)}
	w, err := sim.NewWorld(cfg)
	if err != nil {
		o.setup = err.Error()
		return o
	}
	o.world = w
	keys := w.AllKeys()
	if k.UDP {
		o.udp = &c04UDP{k: k, keys: keys, server: c03ServerAddr}
		w.Net.Plan = o.udp.plan
	} else {
		o.tcp = &c04TCP{k: k, keys: keys, dirs: map[[2]int]*c04StreamDir{}}
		w.Net.StreamFilter = o.tcp.filter
	}
	scripts := []sim.Script{{ClientWrites: k.ClientWrites, ServerWrites: k.ServerWrites, MaxRead: 65536}}
	to := time.Duration(k.TimeoutS) * time.Second
	if to <= 0 {
		to = 60 * time.Second
	}
	o.tr = sim.RunTransfer(w, scripts, k.Seed, to)
	return o
}

func c04Key(k c04Case, what string) string {
	tr := "tcp"
	if k.UDP {
		tr = "udp"
	}
	if k.UDP && k.Mut.Kind == "reflect" {
		return "C04/udp/reflection-closes-session"
	}
	if k.UDP && k.Mut.Kind == "meta-payload-swap" {
		return "C04/udp/meta-payload-swap-shared-nonce"
	}
	if k.UDP && k.Mut.Kind == "meta-over-payload" {
		return "C04/udp/meta-copied-over-payload-shared-nonce"
	}
	if !k.UDP && k.Mut.Kind == "nonce-advance-cut" {
		return "C04/tcp/initial-nonce-advanced-stream-prefix-removed"
	}
	return fmt.Sprintf("C04/%s/%s/%s/%s", tr, k.Mut.Kind, k.Mut.Class, what)
}

func c04Run(c *core.Ctx, k c04Case) {
	if strings.HasPrefix(k.Special, "tcp-") {
		c04RunAlign(c, k) // c04_align.go: receivers aligned to a payload nonce / the reverse direction / another connection
		return
	}
	if k.Special != "" {
		c04RunSpecial(c, k)
		return
	}
	key, _ := json.Marshal(k)
	o := c04Exec(k)
	if o.world != nil {
		defer bgClose.Go(o.world.Close)
	}
	if o.setup != "" {
		c.Eval(string(key), false)
		c.Violate("C04/setup", "endpoints failed before the scenario could run: "+o.setup, k)
		return
	}
	tr := "tcp"
	if k.UDP {
		tr = "udp"
	}
	applied := (k.UDP && o.udp.applied) || (!k.UDP && o.tcp.applied)
	c.Eval(string(key), applied)
	c.Res.TracesValidated++
	c.Hist("transport", tr)
	c.Hist("kind", k.Mut.Kind)
	c.Hist("class", k.Mut.Class)
	c.Hist("pattern", k.PatternName)
	dirName := "s2c"
	if k.C2S {
		dirName = "c2s"
	}
	c.Hist("direction", dirName)
	if !applied && k.Mut.Kind != "none" {
		c.Hist("branch", "mutation-not-applicable")
	}
	s := o.tr.Sessions[0]
	if os.Getenv("VH_DEBUG") != "" {
		fmt.Fprintf(os.Stderr, "c04 %s %s %s mut=%+v applied=%v c2s{got %d/%d mm %d err %q} s2c{got %d/%d mm %d err %q} stalled=%v elapsed=%v\n",
			tr, k.PatternName, dirName, k.Mut, applied, s.C2S.Got, s.C2S.Want, s.C2S.MismatchAt, s.C2S.Err, s.S2C.Got, s.S2C.Want, s.S2C.MismatchAt, s.S2C.Err, o.tr.Stalled, o.tr.Elapsed)
	}
	// direct oracle
	for _, d := range []struct {
		name string
		r    sim.DirResult
	}{{"client→server", s.C2S}, {"server→client", s.S2C}} {
		if d.r.MismatchAt >= 0 {
			c.Violate(c04Key(k, "content-differs"), fmt.Sprintf("%s %s, %s/%s mutation of the %s traffic: byte %d read by the %s reader differs from what was written at that position (read %d of %d)", tr, k.PatternName, k.Mut.Kind, k.Mut.Class, dirName, d.r.MismatchAt, d.name, d.r.Got, d.r.Want), k)
		}
		if d.r.Got > d.r.Want {
			c.Violate(c04Key(k, "content-differs"), fmt.Sprintf("%s: %s reader read %d bytes, only %d written", tr, d.name, d.r.Got, d.r.Want), k)
		}
		if k.UDP && (d.r.Got < d.r.Want || o.tr.Stalled) {
			c.Violate(c04Key(k, "transfer-incomplete"), fmt.Sprintf("udp %s, %s/%s mutation of one %s datagram: the %s reader got %d of %d bytes (final %q, writer %q, stalled=%v): a modified datagram must behave as a lost one and the stream must still complete", k.PatternName, k.Mut.Kind, k.Mut.Class, dirName, d.name, d.r.Got, d.r.Want, d.r.Err, d.r.WriteErr, o.tr.Stalled), k)
		}
	}
	if !applied || c.Model == nil {
		return
	}
	if k.UDP {
		c04CompareUDP(c, k, o)
	} else {
		c04CompareTCP(c, k, o)
		c04CompareTCPK(c, k, o) // c04_align.go: the same stream against the key-history model (c04-tcpk, c04-feedeq, c04-leopen)
	}
}

// ------------------------------------------------------------------------------------------------
// model prediction, TCP: the whole mutated direction is replayed through the model receiver

func c04HonestTCP(units []*c04Unit) []string {
	var ent []string
	for _, u := range units {
		l := u.layout()
		ent = append(ent, core.Hex(u.Seg.Meta.Bytes()), core.Hex(u.Raw[l["meta-ct"].lo:l["meta-tag"].hi]))
		if u.Seg.PayloadLen > 0 {
			w := u.Raw[l["payload-ct"].lo:l["payload-tag"].hi]
			alt := w
			if u.Seg.IsLE() {
				alt = c04OtherPolarity(u.Seg, w)
			}
			ent = append(ent, core.Hex(u.Seg.Payload), core.Hex(w), core.Hex(alt))
		}
	}
	return ent
}

// c04OtherPolarity re-encodes a low-entropy body with the opposite padding polarity (the decoder
// accepts exactly the two canonical encodings of one ciphertext: Props/C17 le_canonical).
func c04OtherPolarity(s *wire.Segment, wireBody []byte) []byte {
	n := int(s.PayloadLen)
	body, tag := wireBody[:n], wireBody[n:]
	dec, err := wire.LEDecode(body, int(s.ExtractedLen), s.Byte1, s.LEMask, s.LERot)
	if err != nil {
		return wireBody
	}
	for _, pad := range []int{0, 1} {
		enc := wire.LEEncode(dec, s.Byte1, s.LEMask, s.LERot, pad)
		if string(enc) != string(body) {
			return append(append([]byte(nil), enc...), tag...)
		}
	}
	return wireBody
}

func c04CompareTCP(c *core.Ctx, k c04Case, o *c04Outcome) {
	t := o.tcp
	t.mu.Lock()
	d := t.dir(0, k.C2S)
	units := append([]*c04Unit(nil), d.units...)
	nonce0 := t.nonce0
	broken := t.broken
	t.mu.Unlock()
	if broken != "" {
		c.Disagree("C04/corr/wire-undecodable", "reference codec lost track of the genuine stream: "+broken, k)
		return
	}
	if len(units) == 0 || nonce0 == nil {
		return
	}
	// what actually went over the wire in the mutated direction
	var mutated []byte
	o.world.Net.Lock()
	caps := o.world.Net.Streams
	o.world.Net.Unlock()
	if len(caps) == 0 {
		return
	}
	c2s, s2c, _, _ := caps[0].Snapshot()
	mutated = s2c
	if k.C2S {
		mutated = c2s
	}
	if len(mutated) < 24 {
		return
	}
	delta := nonceDelta(nonce0, mutated[:24])
	ent := c04HonestTCP(units)
	c.Compared()
	reply := c.Model.Ask("c04-tcp %d %s %s", delta, core.Hex(mutated[24:]), strings.Join(ent, " "))
	f := strings.Fields(reply)
	if len(f) < 4 || f[0] != "ok" {
		c.Disagree("C04/corr/tcp-model-error", "model reply: "+reply, k)
		return
	}
	var predicted int
	fmt.Sscanf(f[3], "%d", &predicted)
	r := o.tr.Sessions[0].S2C
	got := r.Got
	if k.C2S {
		r = o.tr.Sessions[0].C2S
		got = r.Got
		predicted -= 4 // the session tag the harness prepends
		if predicted < 0 {
			predicted = 0
		}
	}
	c.Hist("model_tcp_dead", f[1])
	// Whatever the model receiver accepts has been handed to the session; whether the application
	// gets all of it still depends on a race between its Accept / Read and the teardown of the
	// underlay after the failed open (delivered-but-unprocessed segments are dropped with the
	// session). More than the model accepts can never be delivered.
	if got > predicted {
		c.Disagree("C04/corr/tcp-delivered-bytes", fmt.Sprintf("%s/%s on %s: the model receiver accepts %d application bytes of the mutated stream, the real endpoint delivered %d (%s)", k.Mut.Kind, k.Mut.Class, k.PatternName, predicted, got, reply), k)
	} else if got == predicted {
		c.Hist("tcp_delivered_vs_model", "equal")
	} else {
		c.Hist("tcp_delivered_vs_model", "fewer (teardown race)")
	}
}

// ------------------------------------------------------------------------------------------------
// model prediction, UDP: the one mutated datagram

// c04HonestUDP lists the (plaintext, ciphertext) pairs the honest sender produced under u's nonce
// (ciphertext of a low-entropy payload = the decoded body + tag, i.e. what the AEAD produced).
func c04HonestUDP(u *c04Unit) []string {
	l := u.layout()
	ent := []string{core.Hex(u.Seg.Meta.Bytes()), core.Hex(u.Raw[l["meta-ct"].lo:l["meta-tag"].hi])}
	if u.Seg.PayloadLen > 0 {
		w := u.Raw[l["payload-ct"].lo:l["payload-tag"].hi]
		ct := w
		if u.Seg.IsLE() {
			n := int(u.Seg.PayloadLen)
			if dec, err := wire.LEDecode(w[:n], int(u.Seg.ExtractedLen), u.Seg.Byte1, u.Seg.LEMask, u.Seg.LERot); err == nil {
				ct = append(append([]byte(nil), dec...), w[n:]...)
			}
		}
		ent = append(ent, core.Hex(u.Seg.Payload), core.Hex(ct))
	}
	return ent
}

// c04ObservedUDP decides from the captured wire what the receiver did with the mutated datagram
// (sequence number seq). Genuine retransmissions of seq were held back for c04ObserveWindow, so:
//
//	accepted — it emitted a cumulative ack above seq before any genuine copy of seq reached it
//	rejected — the first genuine copy reached it at least 250 ms after the mutated one and until then
//	           it never acknowledged seq
//	unknown  — anything else
func c04ObservedUDP(k c04Case, o *c04Outcome, mutated []byte, seq uint32, sid uint32) string {
	w := o.world
	w.Net.Lock()
	ds := append([]*simnet.Datagram(nil), w.Net.Datagrams...)
	evs := append([]simnet.Event(nil), w.Net.Events...)
	w.Net.Unlock()
	keys := w.AllKeys()
	recvEnd := func(to string) bool { return (to == c03ServerAddr) == k.C2S }
	mutAt, genuineAt := -1, -1
	var mutT, genuineT time.Duration
	for _, e := range evs {
		if !recvEnd(e.To) {
			continue
		}
		if string(e.Data) == string(mutated) {
			if mutAt < 0 {
				mutAt, mutT = e.DatagramsSoFar, e.At
			}
			continue
		}
		seg, err := wire.OpenUDP(e.Data, keys)
		if err != nil || seg.SessionID != sid || !seg.IsData() {
			continue
		}
		if seg.Seq == seq && mutAt < 0 {
			return "unknown" // the receiver already had this sequence number
		}
		if seg.Seq == seq && genuineAt < 0 {
			genuineAt, genuineT = e.DatagramsSoFar, e.At
		}
	}
	if mutAt < 0 {
		return "unknown"
	}
	for i, d := range ds {
		if recvEnd(d.To) || i < mutAt { // emitted by the receiver of the mutated direction, after the mutated delivery
			continue
		}
		if genuineAt >= 0 && i >= genuineAt {
			break
		}
		seg, err := wire.OpenUDP(d.Data, keys)
		if err != nil || seg.SessionID != sid || !(seg.IsData() || seg.IsAck()) {
			continue
		}
		if seg.UnAck > seq {
			return "accepted"
		}
	}
	if genuineAt >= 0 && genuineT-mutT >= 250*time.Millisecond {
		return "rejected"
	}
	return "unknown"
}

func c04CompareUDP(c *core.Ctx, k c04Case, o *c04Outcome) {
	p := o.udp
	p.mu.Lock()
	u, mutated := p.target, p.mutated
	p.mu.Unlock()
	if u == nil || mutated == nil {
		return // reordering / duplication / reflection: the datagram itself is genuine
	}
	ent := c04HonestUDP(u)
	c.Compared()
	seen := mutated
	if len(seen) > 1500 {
		seen = seen[:1500] // readOneSegment reads into a 1500-byte buffer: the socket truncates
	}
	reply := c.Model.Ask("c04-udp %s %s %s", core.Hex(u.Raw[:24]), core.Hex(seen), strings.Join(ent, " "))
	f := strings.Fields(reply)
	if len(f) < 2 || f[0] != "ok" {
		c.Disagree("C04/corr/udp-model-error", "model reply: "+reply, k)
		return
	}
	modelAccepts := f[1] == "accept"
	c.Hist("model_udp", f[1])
	obs := c04ObservedUDP(k, o, mutated, u.Seg.Seq, u.Seg.SessionID)
	c.Hist("observed_udp", obs)
	if (obs == "accepted" && !modelAccepts) || (obs == "rejected" && modelAccepts) {
		c.Disagree("C04/corr/udp-accept-reject", fmt.Sprintf("%s/%s on %s: model says %q, the real endpoint %s the mutated datagram (seq %d; judged from the cumulative acks it emitted before any genuine copy arrived)", k.Mut.Kind, k.Mut.Class, k.PatternName, reply, obs, u.Seg.Seq), k)
	}
	if modelAccepts && len(f) >= 3 && f[2] != "genuine" {
		// the model itself says a non-genuine (metadata, payload) pair is accepted: the excluded
		// point of DomSep — the direct oracle must have seen wrong content
		c.Hist("model_udp_nongenuine", k.Mut.Kind)
	}
}

// ------------------------------------------------------------------------------------------------
// crafted application chunks: the two shared-nonce witnesses

// c04RunSpecial: the client writes a first chunk, learns (as the harness, from the wire) the session
// id and the next sequence number, then writes a 32-byte chunk:
//
//	swap32: 32 bytes that parse as data metadata (own session id, next seq, payloadLen 32); the
//	        network re-orders the two ciphertexts of that datagram: [nonce ‖ ct(payload) ‖ ct(meta)]
//	copy32: any 32 bytes; the network overwrites the payload ciphertext with the metadata ciphertext
//
// then a third chunk. The server application must read the three chunks as written.
func c04RunSpecial(c *core.Ctx, k c04Case) {
	key, _ := json.Marshal(k)
	cfg := sim.Config{UDP: true, MTU: k.MTU, Seed: k.Seed, ClientPattern: patFromJSON(k.ClientPattern), ServerPattern: patFromJSON(k.ServerPattern)}
	w, err := sim.NewWorld(cfg)
	if err != nil {
		c.Eval(string(key), false)
		c.Violate("C04/setup", "endpoints failed before the scenario could run: "+err.Error(), k)
		return
	}
	defer bgClose.Go(w.Close)
	c.Eval(string(key), true)
	c.Res.TracesValidated++
	c.Hist("transport", "udp")
	c.Hist("kind", k.Mut.Kind)
	c.Hist("class", k.Mut.Class)
	c.Hist("pattern", k.PatternName)
	keys := w.AllKeys()
	bound := 20 * time.Second
	type acc struct {
		conn net.Conn
		err  error
	}
	ch := make(chan acc, 1)
	go func() { cn, err := w.Server.Accept(); ch <- acc{cn, err} }()
	ctx, cancel := context.WithTimeout(context.Background(), bound)
	cconn, err := w.Dial(ctx)
	cancel()
	if err != nil {
		c.Violate("C04/setup", "dial: "+err.Error(), k)
		return
	}
	first := make([]byte, 1500) // > 1024: travels in data segments, the open request carries nothing
	sim.FillStream(first, k.Seed, 0, 0, 0)
	if _, err := cconn.Write(first); err != nil {
		c.Violate("C04/setup", "first write: "+err.Error(), k)
		return
	}
	var sconn net.Conn
	select {
	case a := <-ch:
		if a.err != nil {
			c.Violate("C04/setup", "accept: "+a.err.Error(), k)
			return
		}
		sconn = a.conn
	case <-time.After(bound):
		c.Violate("C04/setup", "server never accepted the session", k)
		return
	}
	buf := make([]byte, len(first))
	sconn.SetReadDeadline(time.Now().Add(bound))
	if _, err := io.ReadFull(sconn, buf); err != nil || string(buf) != string(first) {
		c.Violate("C04/setup", fmt.Sprintf("first chunk not delivered: %v", err), k)
		return
	}
	// learn session id and highest sequence number from the wire
	var sid, maxSeq uint32
	for _, d := range w.DecodeDatagrams() {
		if d.Seg != nil && d.To == c03ServerAddr && (d.Seg.IsData() || d.Seg.Proto == wire.OpenSessionRequest) {
			sid = d.Seg.SessionID
			if d.Seg.Seq > maxSeq {
				maxSeq = d.Seg.Seq
			}
		}
	}
	chunk := make([]byte, 32)
	sim.FillStream(chunk, k.Seed, 1, 0, 0)
	if k.Special == "swap32" {
		m := wire.Meta{Proto: wire.DataClientToServer, Timestamp: uint32(time.Now().Unix() / 60), SessionID: sid, Seq: maxSeq + 1, UnAck: 0, Window: 4096, PayloadLen: 32}
		chunk = m.Bytes()
	}
	pl := &c04UDP{k: k, keys: keys, server: c03ServerAddr}
	pl.k.C2S = true
	pl.k.Mut.Unit = 0
	w.Net.Lock()
	w.Net.Plan = func(d *simnet.Datagram) []simnet.Delivery {
		// only the datagram that carries the 32-byte chunk is touched
		if d.To == c03ServerAddr {
			if seg, err := wire.OpenUDP(d.Data, keys); err == nil && seg.IsData() && string(seg.Payload) == string(chunk) {
				return pl.plan(d)
			}
		}
		return []simnet.Delivery{{}}
	}
	w.Net.Unlock()
	third := make([]byte, 700)
	sim.FillStream(third, k.Seed, 2, 0, 0)
	go func() {
		cconn.Write(chunk)
		time.Sleep(50 * time.Millisecond)
		cconn.Write(third)
	}()
	want := append(append([]byte(nil), chunk...), third...)
	got := make([]byte, len(want))
	sconn.SetReadDeadline(time.Now().Add(bound))
	n, rerr := io.ReadFull(sconn, got)
	got = got[:n]
	if os.Getenv("VH_DEBUG") != "" {
		fmt.Fprintf(os.Stderr, "c04 special %s applied=%v read %d/%d err=%v chunkOK=%v\n", k.Special, pl.applied, n, len(want), rerr, n >= 32 && string(got[:32]) == string(chunk))
	}
	mismatch := -1
	for i := range got {
		if got[i] != want[i] {
			mismatch = i
			break
		}
	}
	if mismatch >= 0 {
		what := fmt.Sprintf("udp: the client wrote a 32-byte chunk %x; the network delivered the datagram that carried it as %s; the server application read %x at that position (byte %d differs)", chunk, map[string]string{"swap32": "[nonce ‖ ciphertext(payload) ‖ ciphertext(metadata)]", "copy32": "[nonce ‖ ciphertext(metadata) ‖ ciphertext(metadata)]"}[k.Special], got[:min(32, len(got))], mismatch)
		if pl.target != nil && len(got) >= 32 && string(got[:32]) == string(pl.target.Seg.Meta.Bytes()) {
			what += " — exactly the 32 bytes of the datagram's genuine metadata plaintext (metadata and payload of one datagram are sealed under the same nonce)"
		}
		c.Violate(c04Key(k, "content-differs"), what, k)
	} else if n < len(want) {
		c.Violate(c04Key(k, "transfer-incomplete"), fmt.Sprintf("udp %s: server read %d of %d bytes: %v", k.Special, n, len(want), rerr), k)
	}
	if c.Model != nil && pl.target != nil && pl.mutated != nil {
		c.Compared()
		reply := c.Model.Ask("c04-udp %s %s %s", core.Hex(pl.target.Raw[:24]), core.Hex(pl.mutated), strings.Join(c04HonestUDP(pl.target), " "))
		f := strings.Fields(reply)
		// the model (which includes the shared nonce) must predict the acceptance and the swap
		if len(f) < 3 || f[0] != "ok" || f[1] != "accept" || f[2] == "genuine" {
			if mismatch >= 0 {
				c.Disagree("C04/corr/udp-swap-not-predicted", "the implementation delivered the metadata plaintext as data; model reply: "+reply, k)
			}
		} else if mismatch < 0 {
			c.Note("MODEL-STALE: the model accepts the %s datagram as a non-genuine pair, the implementation did not deliver it", k.Special)
		}
	}
}

func min(a, b int) int {
	if a < b {
		return a
	}
	return b
}

// ------------------------------------------------------------------------------------------------
// generator

func genC04(r *rand.Rand, thorough bool) []c04Case {
	var cases []c04Case
	mk := func(udp bool, pat string, c2s bool, m c04Mut) {
		k := c04Case{Seed: r.Int63(), UDP: udp, MTU: 1400, PatternName: pat, C2S: c2s, Mut: m, TimeoutS: 5}
		p := patJSON(c04Pattern(pat))
		k.ClientPattern, k.ServerPattern = p, p
		if udp {
			k.MTU = udpMTUs[r.Intn(len(udpMTUs))]
			k.TimeoutS = 90
		}
		// a dozen writes per side: small ones (one unit each, with room for padding) and a few large
		ws := func(big int) []int {
			var x []int
			for i := 0; i < 12; i++ {
				x = append(x, 40+r.Intn(900))
			}
			x[3+r.Intn(3)] = 2500 + r.Intn(2500)
			x[8+r.Intn(3)] = big
			return x
		}
		k.ClientWrites, k.ServerWrites = ws(9000+r.Intn(5000)), ws(20000+r.Intn(13000))
		if pat == "le" || pat == "le4" {
			k.ClientWrites, k.ServerWrites = ws(5000), ws(7000)
		}
		if m.Class == "nonce" && m.Kind != "nonce-advance-cut" && !udp {
			k.Mut.Unit = 0 // only the first unit of a stream carries the nonce
		}
		cases = append(cases, k)
	}
	inUnit := []string{"bitflip", "subst", "insert", "delete", "truncate"}
	pats := []string{"plain", "maxpad", "le"}
	reps := 1
	if thorough {
		reps = 4
		pats = append(pats, "le4", "tcpfrag")
	}
	for rep := 0; rep < reps; rep++ {
		for _, udp := range []bool{false, true} {
			for _, pat := range pats {
				if udp && pat == "tcpfrag" {
					continue
				}
				for _, class := range c04Classes {
					if (class == "pad1" || class == "pad2") && (pat == "plain" || pat == "le4") {
						continue
					}
					kinds := inUnit
					if !thorough {
						// quick: two kinds per (transport, pattern, class), rotating
						i := r.Intn(len(inUnit))
						kinds = []string{inUnit[i], inUnit[(i+1+r.Intn(len(inUnit)-1))%len(inUnit)]}
					}
					for _, kind := range kinds {
						if class == "boundary" && (kind == "bitflip" || kind == "subst" || kind == "truncate") {
							continue
						}
						mk(udp, pat, r.Intn(2) == 0, c04Mut{Kind: kind, Class: class, Unit: 1 + r.Intn(6), Rel: r.Float64(), Param: 1 + r.Intn(7)})
					}
				}
				for _, kind := range []string{"swap-next", "replay-prev", "reflect", "splice"} {
					mk(udp, pat, r.Intn(2) == 0, c04Mut{Kind: kind, Class: "meta-ct", Unit: 1 + r.Intn(5)})
				}
				if !udp {
					mk(false, pat, false, c04Mut{Kind: "nonce-advance-cut", Class: "nonce", Param: 1 + r.Intn(3)})
					mk(false, pat, true, c04Mut{Kind: "nonce-advance-cut", Class: "nonce", Param: 1 + r.Intn(2)})
				}
			}
			mk(udp, "maxpad", r.Intn(2) == 0, c04Mut{Kind: "none", Class: "meta-ct"})
		}
		// the shared-nonce witnesses (crafted 32-byte application chunks)
		for _, sp := range []string{"swap32", "copy32"} {
			k := c04Case{Seed: r.Int63(), UDP: true, MTU: 1400, PatternName: "plain", C2S: true, Special: sp, TimeoutS: 30}
			k.Mut = c04Mut{Kind: map[string]string{"swap32": "meta-payload-swap", "copy32": "meta-over-payload"}[sp], Class: "payload-ct"}
			p := patJSON(c04Pattern("plain"))
			k.ClientPattern, k.ServerPattern = p, p
			cases = append(cases, k)
		}
	}
	return cases
}

func c04LoadCorpus(c *core.Ctx) []c04Case {
	var out []c04Case
	files, _ := filepath.Glob(filepath.Join(c.Corpus, "*.json"))
	sort.Strings(files)
	for _, f := range files {
		raw, err := os.ReadFile(f)
		if err != nil {
			continue
		}
		var rp struct {
			Input json.RawMessage `json:"input"`
		}
		if json.Unmarshal(raw, &rp) != nil || len(rp.Input) == 0 {
			continue
		}
		var k c04Case
		if json.Unmarshal(rp.Input, &k) == nil && k.Mut.Kind != "" {
			out = append(out, k)
		}
	}
	return out
}

func init() {
	core.Register("C04", &core.Scenario{
		Run: func(c *core.Ctx) {
			c.Res.Rule = "each case: real protocol.Mux client and server exchange multi-segment traffic in both directions (4 writes per side, 100 B – 33 KB) on TCP or UDP under one traffic pattern (plain / maximal padding / low entropy mode 2 with rotation / mode 4 / TCP fragmentation); ONE unit (stream segment or datagram) of one direction is mutated in flight: byte-position class {nonce, encrypted metadata, metadata tag, middle padding, payload ciphertext incl. low-entropy encoded body, payload tag, end padding, unit boundary} x kind {bit flip, byte substitution, insertion, deletion, truncation} at a random relative offset, plus swap of two units, replay of the previous unit, reflection to the sender, splice of another unit's payload part, removal of a stream prefix with the clear-text initial nonce advanced (TCP), metadata/payload ciphertext swap and metadata-over-payload copy inside one datagram (UDP, crafted 32-byte application chunk). Oracle: TCP — bytes read are a prefix of bytes written; UDP — read = written and the transfer completes. Distinct = distinct case JSON with the mutation applied."
			c.Correspondence("mutated unit replayed through the model receiver (StreamWire.drain / PacketWire.parse) with the ideal AEAD keyed by the honest triples seen on the wire; TCP: delivered byte count, UDP: accept/reject (acknowledged before any genuine copy arrived)")
			var cases []c04Case
			cases = append(cases, c04LoadCorpus(c)...)
			cases = append(cases, c04AlignCases(c.Rand, c.Thorough() || c.Search)...) // c04_align.go: deterministic, every run
			cases = append(cases, genC04(c.Rand, c.Thorough() || c.Search)...)        // a broken obligation widens the search
			for i := 0; i < 3 && i < len(cases); i++ {
				c.Sample(cases[i])
			}
			core.Parallel(len(cases), 16, func(i int) { c04Run(c, cases[i]) })
			bgClose.Wait(30 * time.Second)
		},
		Replay: func(c *core.Ctx, raw json.RawMessage) {
			var k c04Case
			if json.Unmarshal(raw, &k) == nil {
				c04Run(c, k)
				bgClose.Wait(30 * time.Second)
			}
		},
	})
}
