package props

import (
	"context"
	"encoding/json"
	"fmt"
	"io"
	"math/rand"
	"net"
	"os"
	"path/filepath"
	"sort"
	"strings"
	"sync"
	"time"

	"github.com/enfein/mieru/v3/pkg/appctl/appctlpb"
	"github.com/enfein/mieru/v3/pkg/protocol"
	"google.golang.org/protobuf/proto"
	"verifharness/core"
	"verifharness/sim"
	"verifharness/simnet"
	"verifharness/wire"
)

// C04 — tampering with bytes on the wire never changes what the application reads.
//
// Mutation campaign on real multi-segment traffic in both directions. Byte-position classes are
// computed by decoding the genuine traffic with harness/wire while it flows; TCP is mutated by a
// stateful simnet.StreamFilter, UDP by the Plan (Delivery.Data).
//
// Direct oracle: TCP — what the receiving application read is a prefix of what was written (the
// connection may end early); UDP — read = written and the transfer completes (the mutated datagram
// behaves as lost).
// Correspondence: the mutated unit is replayed through the model receiver with an ideal AEAD keyed
// by the honest (nonce, plaintext, ciphertext) triples the harness saw (driver ops c04-tcp, c04-udp);
// the model's accept/reject verdict is compared with what the real endpoint did.

type c04Case struct {
	Seed          int64           `json:"seed"`
	UDP           bool            `json:"udp"`
	MTU           int             `json:"mtu"`
	ClientPattern json.RawMessage `json:"client_pattern"`
	ServerPattern json.RawMessage `json:"server_pattern"`
	PatternName   string          `json:"pattern_name"`
	C2S           bool            `json:"c2s"` // direction whose traffic is mutated
	Mut           c04Mut          `json:"mut"`
	ClientWrites  []int           `json:"client_writes"`
	ServerWrites  []int           `json:"server_writes"`
	Special       string          `json:"special,omitempty"` // swap32 | copy32 (crafted application chunks)
	Label         string          `json:"label,omitempty"`   // name of the deterministic boundary this case stands for
	GapUs         int             `json:"gap_us,omitempty"`  // pause between consecutive writes of both writers
	Rerun         bool            `json:"rerun,omitempty"`   // second execution of a case whose first one hit the time limit
	TimeoutS      int             `json:"timeout_s"`
}

var c04Classes = []string{"nonce", "meta-ct", "meta-tag", "pad1", "payload-ct", "payload-tag", "pad2", "boundary"}

func c04Pattern(name string) *appctlpb.TrafficPattern {
	off := appctlpb.LowEntropyMode_LOW_ENTROPY_MODE_OFF
	p := &appctlpb.TrafficPattern{
		TcpFragment: &appctlpb.TCPFragment{Enable: proto.Bool(false)},
		LowEntropy:  &appctlpb.LowEntropyPattern{Mode: &off},
		Padding:     &appctlpb.PaddingPattern{MaxMiddlePaddingLen: proto.Int32(0), MaxEndPaddingLen: proto.Int32(0)},
	}
	switch name {
	case "plain":
	case "maxpad":
		p.Padding = &appctlpb.PaddingPattern{MaxMiddlePaddingLen: proto.Int32(255), MaxEndPaddingLen: proto.Int32(255)}
	case "le":
		m := appctlpb.LowEntropyMode(2)
		rot := appctlpb.LowEntropyMaskRotation(3)
		p.LowEntropy = &appctlpb.LowEntropyPattern{Mode: &m, MaskRotation: &rot}
		p.Padding = &appctlpb.PaddingPattern{MaxMiddlePaddingLen: proto.Int32(17), MaxEndPaddingLen: proto.Int32(17)}
	case "le4":
		m := appctlpb.LowEntropyMode(4)
		p.LowEntropy = &appctlpb.LowEntropyPattern{Mode: &m}
	case "tcpfrag":
		p.TcpFragment = &appctlpb.TCPFragment{Enable: proto.Bool(true), MaxSleepMs: proto.Int32(1)}
		p.Padding = &appctlpb.PaddingPattern{MaxMiddlePaddingLen: proto.Int32(100), MaxEndPaddingLen: proto.Int32(100)}
	}
	return p
}

type c04Outcome struct {
	setup string
	tr    *sim.TransferResult
	world *sim.World
	tcp   *c04TCP
	udp   *c04UDP
	ends  *c04Ends
}

func c04Exec(k c04Case) *c04Outcome {
	o := &c04Outcome{}
	cfg := sim.Config{UDP: k.UDP, MTU: k.MTU, Seed: k.Seed,
		ClientPattern: patFromJSON(k.ClientPattern), ServerPattern: patFromJSON(k.ServerPattern)}
	w, err := sim.NewWorld(cfg)
	if err != nil {
		o.setup = err.Error()
		return o
	}
	o.world = w
	keys := w.AllKeys()
	if k.UDP {
		o.udp = &c04UDP{k: k, keys: keys, server: c03ServerAddr}
		w.Net.Plan = o.udp.plan
	} else {
		o.tcp = &c04TCP{k: k, keys: keys, dirs: map[[2]int]*c04StreamDir{}}
		w.Net.StreamFilter = o.tcp.filter
		if k.Mut.Ext {
			w.Net.StreamFilter = (&c04TCPX{c04TCP: o.tcp}).filter // class-aware kinds: c04_ext.go
		}
	}
	scripts := []sim.Script{{ClientWrites: k.ClientWrites, ServerWrites: k.ServerWrites, MaxRead: 65536, WriteGapUs: k.GapUs}}
	to := time.Duration(k.TimeoutS) * time.Second
	if to <= 0 {
		to = 60 * time.Second
	}
	o.ends = &c04Ends{World: w}
	o.tr = sim.RunTransfer(o.ends, scripts, k.Seed, to)
	return o
}

func c04Key(k c04Case, what string) string {
	tr := "tcp"
	if k.UDP {
		tr = "udp"
	}
	if k.UDP && k.Mut.Kind == "reflect" && (!k.Mut.Ext || k.Mut.Class == "boundary") {
		// a whole datagram delivered back to its sender
		if what == "content-differs" {
			return "C04/udp/reflection-delivered-to-application"
		}
		return "C04/udp/reflection-closes-session"
	}
	if k.UDP && k.Mut.Kind == "meta-payload-swap" {
		return "C04/udp/meta-payload-swap-shared-nonce"
	}
	if k.UDP && k.Mut.Kind == "meta-over-payload" {
		return "C04/udp/meta-copied-over-payload-shared-nonce"
	}
	if !k.UDP && k.Mut.Kind == "nonce-advance-cut" {
		return "C04/tcp/initial-nonce-advanced-stream-prefix-removed"
	}
	return fmt.Sprintf("C04/%s/%s/%s/%s", tr, k.Mut.Kind, k.Mut.Class, what)
}

func c04Run(c *core.Ctx, k c04Case) {
	if strings.HasPrefix(k.Special, "tcp-") {
		c04RunAlign(c, k) // c04_align.go: receivers aligned to a payload nonce / the reverse direction / another connection
		return
	}
	if k.Special != "" {
		c04RunSpecial(c, k)
		return
	}
	key, _ := json.Marshal(k)
	t0 := time.Now()
	o := c04Exec(k)
	if o.world != nil {
		defer bgClose.Go(o.world.Close)
	}
	defer func() {
		tr := "tcp"
		if k.UDP {
			tr = "udp"
		}
		c.Hist("case seconds "+tr, fmt.Sprintf("%2d", int(time.Since(t0).Seconds())))
		if os.Getenv("VH_SLOW") != "" && time.Since(t0) > 12*time.Second {
			el := time.Duration(0)
			if o.tr != nil {
				el = o.tr.Elapsed
			}
			c.Hist("slow", fmt.Sprintf("%s %s %s/%s t=%s c2s=%v total=%ds transfer=%ds", tr, k.PatternName, k.Mut.Kind, k.Mut.Class, k.Mut.Target, k.C2S, int(time.Since(t0).Seconds()), int(el.Seconds())))
		}
	}()
	if o.setup != "" {
		c.Eval(string(key), false)
		c.Violate("C04/setup", "endpoints failed before the scenario could run: "+o.setup, k)
		return
	}
	tr := "tcp"
	if k.UDP {
		tr = "udp"
	}
	applied := (k.UDP && o.udp.applied) || (!k.UDP && o.tcp.applied)
	c.Eval(string(key), applied)
	c.Res.TracesValidated++
	c.Hist("transport", tr)
	c.Hist("kind", k.Mut.Kind)
	c.Hist("class", k.Mut.Class)
	c.Hist("pattern", k.PatternName)
	dirName := "s2c"
	if k.C2S {
		dirName = "c2s"
	}
	c.Hist("direction", dirName)
	if !applied && k.Mut.Kind != "none" {
		c.Hist("branch", "mutation-not-applicable")
		extra := ""
		if !k.UDP && o.tcp != nil {
			o.tcp.mu.Lock()
			for _, c2s := range []bool{true, false} {
				d := o.tcp.dir(0, c2s)
				n := 0
				for _, u := range d.units {
					if u.has(k.Mut.Class) {
						n++
					}
				}
				extra += fmt.Sprintf(" c2s=%v:units=%d,with-class=%d", c2s, len(d.units), n)
			}
			o.tcp.mu.Unlock()
		}
		c.Hist("not-applied", fmt.Sprintf("%s %s %s/%s target=%q mutated-c2s=%v%s", tr, k.PatternName, k.Mut.Kind, k.Mut.Class, k.Mut.Target, k.C2S, extra))
	}
	if applied {
		c04Cells.add(k)
		if k.UDP {
			c04Lens(c, tr, o.udp.target)
		} else {
			c04Lens(c, tr, o.tcp.target)
		}
		if k.Mut.Target != "" {
			c.Hist("udp target", k.Mut.Target)
		}
		if k.Label != "" {
			c.Hist("deterministic boundary", k.Label)
		}
	}
	s := o.tr.Sessions[0]
	// the first four bytes of the client→server stream (the session tag, written as 00 00 00 00) are read
	// by the accepting side before the reader starts: they are content like any other
	o.ends.mu.Lock()
	tagGot := append([]byte(nil), o.ends.tagGot...)
	o.ends.mu.Unlock()
	for i, b := range tagGot {
		if b != 0 {
			c.Violate(c04Key(k, "content-differs"), fmt.Sprintf("%s %s, %s/%s mutation of the %s traffic: byte %d read by the client→server reader (the server application) is %#02x, the client application wrote 0x00 at that position (first bytes read: %x)", tr, k.PatternName, k.Mut.Kind, k.Mut.Class, dirName, i, b, tagGot), k)
			break
		}
	}
	if os.Getenv("VH_DEBUG") != "" {
		fmt.Fprintf(os.Stderr, "c04 %s %s %s mut=%+v applied=%v c2s{got %d/%d mm %d err %q} s2c{got %d/%d mm %d err %q} stalled=%v elapsed=%v\n",
			tr, k.PatternName, dirName, k.Mut, applied, s.C2S.Got, s.C2S.Want, s.C2S.MismatchAt, s.C2S.Err, s.S2C.Got, s.S2C.Want, s.S2C.MismatchAt, s.S2C.Err, o.tr.Stalled, o.tr.Elapsed)
	}
	// direct oracle
	for _, d := range []struct {
		name string
		r    sim.DirResult
	}{{"client→server", s.C2S}, {"server→client", s.S2C}} {
		if d.r.MismatchAt >= 0 {
			c.Violate(c04Key(k, "content-differs"), fmt.Sprintf("%s %s, %s/%s mutation of the %s traffic: byte %d read by the %s reader differs from what was written at that position (read %d of %d)", tr, k.PatternName, k.Mut.Kind, k.Mut.Class, dirName, d.r.MismatchAt, d.name, d.r.Got, d.r.Want), k)
		}
		if d.r.Got > d.r.Want {
			c.Violate(c04Key(k, "content-differs"), fmt.Sprintf("%s: %s reader read %d bytes, only %d written", tr, d.name, d.r.Got, d.r.Want), k)
		}
		if k.UDP && (d.r.Got < d.r.Want || o.tr.Stalled) {
			c.Violate(c04Key(k, "transfer-incomplete"), fmt.Sprintf("udp %s, %s/%s mutation of one %s datagram: the %s reader got %d of %d bytes (final %q, writer %q, stalled=%v): a modified datagram must behave as a lost one and the stream must still complete", k.PatternName, k.Mut.Kind, k.Mut.Class, dirName, d.name, d.r.Got, d.r.Want, d.r.Err, d.r.WriteErr, o.tr.Stalled), k)
		}
	}
	if c.Model == nil {
		return
	}
	if k.UDP {
		// the whole run through the end-to-end model of the receive path, applied or not
		t1 := time.Now()
		c04CompareUDPSeq(c, k, o)
		if os.Getenv("VH_SLOW") != "" {
			c.Hist("seq compare seconds", fmt.Sprintf("%2d (exec %2d)", int(time.Since(t1).Seconds()), int(t1.Sub(t0).Seconds())))
		}
	}
	if !applied {
		return
	}
	if k.UDP {
		c04CompareUDP(c, k, o)
	} else {
		c04CompareTCP(c, k, o)
		c04CompareTCPK(c, k, o) // c04_align.go: the same stream against the key-history model (c04-tcpk, c04-feedeq, c04-leopen)
	}
}

var c04Cells = &c04Matrix{}

// c04Again collects cases to be executed once more after the parallel phase.
type c04Retry struct {
	mu    sync.Mutex
	cases []c04Case
}

func (r *c04Retry) add(k c04Case) {
	k.Rerun = true
	if k.TimeoutS < 20 {
		k.TimeoutS = 20
	}
	r.mu.Lock()
	r.cases = append(r.cases, k)
	r.mu.Unlock()
}

var c04Again = &c04Retry{}

// ------------------------------------------------------------------------------------------------
// model prediction, TCP: the whole mutated direction is replayed through the model receiver

func c04HonestTCP(units []*c04Unit) []string {
	var ent []string
	for _, u := range units {
		l := u.layout()
		ent = append(ent, core.Hex(u.Seg.Meta.Bytes()), core.Hex(u.Raw[l["meta-ct"].lo:l["meta-tag"].hi]))
		if u.Seg.PayloadLen > 0 {
			w := u.Raw[l["payload-ct"].lo:l["payload-tag"].hi]
			alt := w
			if u.Seg.IsLE() {
				alt = c04OtherPolarity(u.Seg, w)
			}
			ent = append(ent, core.Hex(u.Seg.Payload), core.Hex(w), core.Hex(alt))
		}
	}
	return ent
}

// c04OtherPolarity re-encodes a low-entropy body with the opposite padding polarity (the decoder
// accepts exactly the two canonical encodings of one ciphertext: Props/C17 le_canonical).
func c04OtherPolarity(s *wire.Segment, wireBody []byte) []byte {
	n := int(s.PayloadLen)
	body, tag := wireBody[:n], wireBody[n:]
	dec, err := wire.LEDecode(body, int(s.ExtractedLen), s.Byte1, s.LEMask, s.LERot)
	if err != nil {
		return wireBody
	}
	for _, pad := range []int{0, 1} {
		enc := wire.LEEncode(dec, s.Byte1, s.LEMask, s.LERot, pad)
		if string(enc) != string(body) {
			return append(append([]byte(nil), enc...), tag...)
		}
	}
	return wireBody
}

func c04CompareTCP(c *core.Ctx, k c04Case, o *c04Outcome) {
	t := o.tcp
	t.mu.Lock()
	d := t.dir(0, k.C2S)
	units := append([]*c04Unit(nil), d.units...)
	nonce0 := t.nonce0
	broken := t.broken
	t.mu.Unlock()
	if broken != "" {
		c.Disagree("C04/corr/wire-undecodable", "reference codec lost track of the genuine stream: "+broken, k)
		return
	}
	if len(units) == 0 || nonce0 == nil {
		return
	}
	// what actually went over the wire in the mutated direction
	var mutated []byte
	o.world.Net.Lock()
	caps := o.world.Net.Streams
	o.world.Net.Unlock()
	if len(caps) == 0 {
		return
	}
	c2s, s2c, _, _ := caps[0].Snapshot()
	mutated = s2c
	if k.C2S {
		mutated = c2s
	}
	if len(mutated) < 24 {
		return
	}
	delta := nonceDelta(nonce0, mutated[:24])
	ent := c04HonestTCP(units)
	c.Compared()
	reply := c04Procs.ask(c, fmt.Sprintf("c04-tcp %d %s %s", delta, core.Hex(mutated[24:]), strings.Join(ent, " ")))
	f := strings.Fields(reply)
	if len(f) < 4 || f[0] != "ok" {
		c.Disagree("C04/corr/tcp-model-error", "model reply: "+reply, k)
		return
	}
	var predicted int
	fmt.Sscanf(f[3], "%d", &predicted)
	r := o.tr.Sessions[0].S2C
	got := r.Got
	if k.C2S {
		r = o.tr.Sessions[0].C2S
		got = r.Got
		predicted -= 4 // the session tag the harness prepends
		if predicted < 0 {
			predicted = 0
		}
	}
	c.Hist("model_tcp_dead", f[1])
	// Whatever the model receiver accepts has been handed to the session; whether the application
	// gets all of it still depends on a race between its Accept / Read and the teardown of the
	// underlay after the failed open (delivered-but-unprocessed segments are dropped with the
	// session). More than the model accepts can never be delivered.
	// Fewer than the model is legitimate in exactly that situation, i.e. only when the model receiver
	// ended DEAD (an open failed: the real underlay is torn down). A model receiver that is still alive —
	// everything decoded, or waiting for bytes that never come — stands for an endpoint that keeps its
	// sessions, so the application must get every byte the model accepts.
	dead := f[1] == "1"
	if got > predicted {
		c.Disagree("C04/corr/tcp-delivered-bytes", fmt.Sprintf("%s/%s on %s: the model receiver accepts %d application bytes of the mutated stream, the real endpoint delivered %d (%s)", k.Mut.Kind, k.Mut.Class, k.PatternName, predicted, got, reply), k)
	} else if got == predicted {
		c.Hist("tcp_delivered_vs_model", "equal")
	} else if dead {
		c.Hist("tcp_delivered_vs_model", "fewer (teardown race after a failed open)")
	} else if o.tr.Stalled && !k.Rerun {
		// the transfer hit its time limit: a cut stream (the endpoint waits, as the model does) or merely a
		// slow machine — decided by running the case once more, alone and with a longer limit
		c.Hist("tcp_delivered_vs_model", "fewer at the time limit (run again)")
		c04Again.add(k)
	} else {
		c.Disagree("C04/corr/tcp-delivered-fewer-than-model", fmt.Sprintf("%s/%s on %s: the model receiver accepts %d application bytes of the mutated stream and no open fails, the real application read only %d (%s; reader ended with %q)", k.Mut.Kind, k.Mut.Class, k.PatternName, predicted, got, reply, r.Err), k)
	}
}

// ------------------------------------------------------------------------------------------------
// model prediction, UDP: the one mutated datagram

// c04HonestUDP lists the (plaintext, ciphertext) pairs the honest sender produced under u's nonce
// (ciphertext of a low-entropy payload = the decoded body + tag, i.e. what the AEAD produced).
func c04HonestUDP(u *c04Unit) []string {
	l := u.layout()
	ent := []string{core.Hex(u.Seg.Meta.Bytes()), core.Hex(u.Raw[l["meta-ct"].lo:l["meta-tag"].hi])}
	if u.Seg.PayloadLen > 0 {
		w := u.Raw[l["payload-ct"].lo:l["payload-tag"].hi]
		ct := w
		if u.Seg.IsLE() {
			n := int(u.Seg.PayloadLen)
			if dec, err := wire.LEDecode(w[:n], int(u.Seg.ExtractedLen), u.Seg.Byte1, u.Seg.LEMask, u.Seg.LERot); err == nil {
				ct = append(append([]byte(nil), dec...), w[n:]...)
			}
		}
		ent = append(ent, core.Hex(u.Seg.Payload), core.Hex(ct))
	}
	return ent
}

// c04ObservedUDP decides from the captured wire what the receiver did with the mutated datagram
// (sequence number seq). Genuine retransmissions of seq were held back for c04ObserveWindow, so:
//
//	accepted — it emitted a cumulative ack above seq before any genuine copy of seq reached it
//	rejected — the first genuine copy reached it at least 250 ms after the mutated one and until then
//	           it never acknowledged seq
//	unknown  — anything else
func c04ObservedUDP(k c04Case, o *c04Outcome, mutated []byte, seq uint32, sid uint32) string {
	w := o.world
	w.Net.Lock()
	ds := append([]*simnet.Datagram(nil), w.Net.Datagrams...)
	evs := append([]simnet.Event(nil), w.Net.Events...)
	w.Net.Unlock()
	keys := w.AllKeys()
	recvEnd := func(to string) bool { return (to == c03ServerAddr) == k.C2S }
	mutAt, genuineAt := -1, -1
	var mutT, genuineT time.Duration
	for _, e := range evs {
		if !recvEnd(e.To) {
			continue
		}
		if string(e.Data) == string(mutated) {
			if mutAt < 0 {
				mutAt, mutT = e.DatagramsSoFar, e.At
			}
			continue
		}
		seg, err := wire.OpenUDP(e.Data, keys)
		if err != nil || seg.SessionID != sid || !(seg.IsData() || seg.Proto == wire.OpenSessionRequest || seg.Proto == wire.OpenSessionResponse) {
			continue // only open request / open response / data segments are numbered and acknowledged
		}
		if seg.Seq == seq && mutAt < 0 {
			return "unknown" // the receiver already had this sequence number
		}
		if seg.Seq == seq && genuineAt < 0 {
			genuineAt, genuineT = e.DatagramsSoFar, e.At
		}
	}
	if mutAt < 0 {
		return "unknown"
	}
	for i, d := range ds {
		if recvEnd(d.To) || i < mutAt { // emitted by the receiver of the mutated direction, after the mutated delivery
			continue
		}
		if genuineAt >= 0 && i >= genuineAt {
			break
		}
		seg, err := wire.OpenUDP(d.Data, keys)
		if err != nil || seg.SessionID != sid || !(seg.IsData() || seg.IsAck()) {
			continue
		}
		if seg.UnAck > seq {
			return "accepted"
		}
	}
	if genuineAt >= 0 && genuineT-mutT >= 250*time.Millisecond {
		return "rejected"
	}
	return "unknown"
}

func c04CompareUDP(c *core.Ctx, k c04Case, o *c04Outcome) {
	p := o.udp
	p.mu.Lock()
	u, mutated := p.target, p.mutated
	p.mu.Unlock()
	if u == nil || mutated == nil {
		return // reordering / duplication / reflection: the datagram itself is genuine
	}
	seen := mutated
	if len(seen) > 1500 {
		seen = seen[:1500] // readOneSegment reads into a 1500-byte buffer: the socket truncates
	}
	// the honest pairs sealed under the nonce the mutated datagram CARRIES (it may be another
	// datagram's: byte-range replay / reflection / splice)
	ent := c04HonestUDP(u)
	nonce := u.Raw[:24]
	if len(seen) >= 24 && string(seen[:24]) != string(nonce) {
		o.world.Net.Lock()
		ds := append([]*simnet.Datagram(nil), o.world.Net.Datagrams...)
		o.world.Net.Unlock()
		tab, _ := c04HonestByNonce(ds, o.world.AllKeys())
		if e, ok := tab[string(seen[:24])]; ok {
			ent, nonce = e, seen[:24]
		}
	}
	for _, d := range func() []*simnet.Datagram {
		o.world.Net.Lock()
		defer o.world.Net.Unlock()
		return append([]*simnet.Datagram(nil), o.world.Net.Datagrams...)
	}() {
		if string(d.Data) == string(mutated) {
			return // the "mutated" datagram is byte-identical to a genuine one: a duplicate, nothing to decide
		}
	}
	c.Compared()
	reply := c.Model.Ask("c04-udp %s %s %s", core.Hex(nonce), core.Hex(seen), strings.Join(ent, " "))
	f := strings.Fields(reply)
	if len(f) < 2 || f[0] != "ok" {
		c.Disagree("C04/corr/udp-model-error", "model reply: "+reply, k)
		return
	}
	modelAccepts := f[1] == "accept"
	c.Hist("model_udp", f[1])
	obs := "n/a (pure ack: nothing acknowledges an ack)"
	if !u.Seg.IsAck() {
		obs = c04ObservedUDP(k, o, mutated, u.Seg.Seq, u.Seg.SessionID)
	}
	c.Hist("observed_udp", obs)
	if (obs == "accepted" && !modelAccepts) || (obs == "rejected" && modelAccepts) {
		c.Disagree("C04/corr/udp-accept-reject", fmt.Sprintf("%s/%s on %s: model says %q, the real endpoint %s the mutated datagram (seq %d; judged from the cumulative acks it emitted before any genuine copy arrived)", k.Mut.Kind, k.Mut.Class, k.PatternName, reply, obs, u.Seg.Seq), k)
	}
	if modelAccepts && len(f) >= 3 && f[2] != "genuine" {
		// the model itself says a non-genuine (metadata, payload) pair is accepted: the excluded
		// point of DomSep — the direct oracle must have seen wrong content
		c.Hist("model_udp_nongenuine", k.Mut.Kind)
	}
}

// ------------------------------------------------------------------------------------------------
// crafted application chunks: the two shared-nonce witnesses

// c04RunSpecial: the client writes a first chunk, learns (as the harness, from the wire) the session
// id and the next sequence number, then writes a 32-byte chunk:
//
//	swap32: 32 bytes that parse as data metadata (own session id, next seq, payloadLen 32); the
//	        network re-orders the two ciphertexts of that datagram: [nonce ‖ ct(payload) ‖ ct(meta)]
//	copy32: any 32 bytes; the network overwrites the payload ciphertext with the metadata ciphertext
//
// then a third chunk. The server application must read the three chunks as written.
func c04RunSpecial(c *core.Ctx, k c04Case) {
	key, _ := json.Marshal(k)
	cfg := sim.Config{UDP: true, MTU: k.MTU, Seed: k.Seed, ClientPattern: patFromJSON(k.ClientPattern), ServerPattern: patFromJSON(k.ServerPattern)}
	w, err := sim.NewWorld(cfg)
	if err != nil {
		c.Eval(string(key), false)
		c.Violate("C04/setup", "endpoints failed before the scenario could run: "+err.Error(), k)
		return
	}
	defer bgClose.Go(w.Close)
	c.Eval(string(key), true)
	c.Res.TracesValidated++
	c.Hist("transport", "udp")
	c.Hist("kind", k.Mut.Kind)
	c.Hist("class", k.Mut.Class)
	c.Hist("pattern", k.PatternName)
	keys := w.AllKeys()
	bound := 20 * time.Second
	type acc struct {
		conn net.Conn
		err  error
	}
	ch := make(chan acc, 1)
	go func() { cn, err := w.Server.Accept(); ch <- acc{cn, err} }()
	ctx, cancel := context.WithTimeout(context.Background(), bound)
	cconn, err := w.Dial(ctx)
	cancel()
	if err != nil {
		c.Violate("C04/setup", "dial: "+err.Error(), k)
		return
	}
	first := make([]byte, 1500) // > 1024: travels in data segments, the open request carries nothing
	sim.FillStream(first, k.Seed, 0, 0, 0)
	if _, err := cconn.Write(first); err != nil {
		c.Violate("C04/setup", "first write: "+err.Error(), k)
		return
	}
	var sconn net.Conn
	select {
	case a := <-ch:
		if a.err != nil {
			c.Violate("C04/setup", "accept: "+a.err.Error(), k)
			return
		}
		sconn = a.conn
	case <-time.After(bound):
		c.Violate("C04/setup", "server never accepted the session", k)
		return
	}
	buf := make([]byte, len(first))
	sconn.SetReadDeadline(time.Now().Add(bound))
	if _, err := io.ReadFull(sconn, buf); err != nil || string(buf) != string(first) {
		c.Violate("C04/setup", fmt.Sprintf("first chunk not delivered: %v", err), k)
		return
	}
	// learn session id and highest sequence number from the wire
	var sid, maxSeq uint32
	for _, d := range w.DecodeDatagrams() {
		if d.Seg != nil && d.To == c03ServerAddr && (d.Seg.IsData() || d.Seg.Proto == wire.OpenSessionRequest) {
			sid = d.Seg.SessionID
			if d.Seg.Seq > maxSeq {
				maxSeq = d.Seg.Seq
			}
		}
	}
	chunk := make([]byte, 32)
	sim.FillStream(chunk, k.Seed, 1, 0, 0)
	if k.Special == "swap32" {
		m := wire.Meta{Proto: wire.DataClientToServer, Timestamp: uint32(time.Now().Unix() / 60), SessionID: sid, Seq: maxSeq + 1, UnAck: 0, Window: 4096, PayloadLen: 32}
		chunk = m.Bytes()
	}
	pl := &c04UDP{k: k, keys: keys, server: c03ServerAddr}
	pl.k.C2S = true
	pl.k.Mut.Unit = 0
	w.Net.Lock()
	w.Net.Plan = func(d *simnet.Datagram) []simnet.Delivery {
		// only the datagram that carries the 32-byte chunk is touched
		if d.To == c03ServerAddr {
			if seg, err := wire.OpenUDP(d.Data, keys); err == nil && seg.IsData() && string(seg.Payload) == string(chunk) {
				return pl.plan(d)
			}
		}
		return []simnet.Delivery{{}}
	}
	w.Net.Unlock()
	third := make([]byte, 700)
	sim.FillStream(third, k.Seed, 2, 0, 0)
	go func() {
		cconn.Write(chunk)
		time.Sleep(50 * time.Millisecond)
		cconn.Write(third)
	}()
	want := append(append([]byte(nil), chunk...), third...)
	got := make([]byte, len(want))
	sconn.SetReadDeadline(time.Now().Add(bound))
	n, rerr := io.ReadFull(sconn, got)
	got = got[:n]
	if os.Getenv("VH_DEBUG") != "" {
		fmt.Fprintf(os.Stderr, "c04 special %s applied=%v read %d/%d err=%v chunkOK=%v\n", k.Special, pl.applied, n, len(want), rerr, n >= 32 && string(got[:32]) == string(chunk))
	}
	mismatch := -1
	for i := range got {
		if got[i] != want[i] {
			mismatch = i
			break
		}
	}
	if mismatch >= 0 {
		what := fmt.Sprintf("udp: the client wrote a 32-byte chunk %x; the network delivered the datagram that carried it as %s; the server application read %x at that position (byte %d differs)", chunk, map[string]string{"swap32": "[nonce ‖ ciphertext(payload) ‖ ciphertext(metadata)]", "copy32": "[nonce ‖ ciphertext(metadata) ‖ ciphertext(metadata)]"}[k.Special], got[:min(32, len(got))], mismatch)
		if pl.target != nil && len(got) >= 32 && string(got[:32]) == string(pl.target.Seg.Meta.Bytes()) {
			what += " — exactly the 32 bytes of the datagram's genuine metadata plaintext (metadata and payload of one datagram are sealed under the same nonce)"
		}
		c.Violate(c04Key(k, "content-differs"), what, k)
	} else if n < len(want) {
		c.Violate(c04Key(k, "transfer-incomplete"), fmt.Sprintf("udp %s: server read %d of %d bytes: %v", k.Special, n, len(want), rerr), k)
	}
	if c.Model != nil && pl.target != nil && pl.mutated != nil {
		c.Compared()
		reply := c.Model.Ask("c04-udp %s %s %s", core.Hex(pl.target.Raw[:24]), core.Hex(pl.mutated), strings.Join(c04HonestUDP(pl.target), " "))
		f := strings.Fields(reply)
		// the model (which includes the shared nonce) must predict the acceptance and the swap
		if len(f) < 3 || f[0] != "ok" || f[1] != "accept" || f[2] == "genuine" {
			if mismatch >= 0 {
				c.Disagree("C04/corr/udp-swap-not-predicted", "the implementation delivered the metadata plaintext as data; model reply: "+reply, k)
			}
		} else if mismatch < 0 {
			c.Note("MODEL-STALE: the model accepts the %s datagram as a non-genuine pair, the implementation did not deliver it", k.Special)
		}
	}
}

func min(a, b int) int {
	if a < b {
		return a
	}
	return b
}

// ------------------------------------------------------------------------------------------------
// generator

// c04Writes: a dozen writes per side — small ones (one unit each, with room for padding) and a few
// large ones.
func c04Writes(r *rand.Rand, big int) []int {
	var x []int
	for i := 0; i < 12; i++ {
		x = append(x, 40+r.Intn(900))
	}
	x[3+r.Intn(3)] = 2500 + r.Intn(2500)
	x[8+r.Intn(3)] = big
	return x
}

func c04MkCase(r *rand.Rand, udp bool, pat string, c2s bool, m c04Mut) c04Case {
	k := c04Case{Seed: r.Int63(), UDP: udp, MTU: 1400, PatternName: pat, C2S: c2s, Mut: m, TimeoutS: 5}
	p := patJSON(c04Pattern(pat))
	k.ClientPattern, k.ServerPattern = p, p
	if udp {
		k.MTU = udpMTUs[r.Intn(len(udpMTUs))]
		k.TimeoutS = 90
	}
	k.ClientWrites, k.ServerWrites = c04Writes(r, 9000+r.Intn(5000)), c04Writes(r, 20000+r.Intn(13000))
	if pat == "le" || pat == "le4" {
		k.ClientWrites, k.ServerWrites = c04Writes(r, 5000), c04Writes(r, 7000)
	}
	if m.Class == "nonce" && m.Kind != "nonce-advance-cut" && !udp {
		k.Mut.Unit = 0 // only the first unit of a stream carries the nonce
	}
	mine, theirs := &k.ClientWrites, &k.ServerWrites
	if !c2s {
		mine, theirs = theirs, mine
	}
	if m.Kind == "reflect" && udp && m.Ext {
		// the mutated direction's sender runs ahead of its peer's numbering (a reflected datagram can only
		// be mistaken for the peer's data while its sequence number is still to come from the peer)
		(*mine)[0] = 900
		(*mine)[1] = 12000
		for i := range *theirs {
			if (*theirs)[i] > 1200 {
				(*theirs)[i] = 1200
			}
		}
	}
	if m.Kind == "reflect" && !udp && m.Ext {
		k.GapUs = 20000 // both directions must be under way when the target passes: pace the writers
	}
	if m.Target == "ack" {
		// pure acks travel against the data: the mutated direction's sender writes one small chunk
		*mine = []int{60}
	}
	return k
}

// genC04Boundaries: the deterministic part of every run (quick and thorough), generated BEFORE the random
// stream. (1) the complete matrix byte-position class x mutation kind on both transports, first / last
// byte of each class as offsets; (2) the low-entropy encoded body under every kind; (3) UDP datagrams of
// the other parse path (open session request / response) and pure acks; (4) the boundaries of every
// length the parsers look at; (5) reflection of data datagrams under every low-entropy pattern in both
// directions; (6) the specials.
func genC04Boundaries(r *rand.Rand) []c04Case {
	var cases []c04Case
	n := 0
	add := func(label string, udp bool, pat string, m c04Mut, opt func(*c04Case)) {
		m.Ext = true
		k := c04MkCase(r, udp, pat, n%2 == 0, m)
		n++
		k.Label = label
		c04Shrink(&k)
		if opt != nil {
			opt(&k)
		}
		cases = append(cases, k)
	}
	// offsets: first byte of the class for bitflip / insert / truncate, last byte for subst / delete
	rel := map[string]float64{"bitflip": 0, "insert": 0, "truncate": 0, "subst": 1, "delete": 1}
	for _, udp := range []bool{false, true} {
		for _, class := range c04Classes {
			for _, kind := range c04MatrixKinds {
				m := c04Mut{Kind: kind, Class: class, Rel: rel[kind], Param: 1}
				if class == "boundary" && kind == "truncate" && udp {
					m.ToLen = 72 // the datagram cut at the header boundary (n == packetNonHeaderPosition)
				}
				pats := []string{"maxpad"}
				if class == "payload-ct" || class == "payload-tag" {
					pats = append(pats, "le") // the low-entropy encoded body
				}
				for _, pat := range pats {
					add("matrix", udp, pat, m, nil)
				}
			}
		}
	}
	// (3) the session parse path and pure acks on UDP
	for _, t := range []struct {
		target, pat string
		c2s         bool
		m           c04Mut
	}{
		{"open", "plain", true, c04Mut{Kind: "bitflip", Class: "nonce", Rel: 1}},
		{"open", "plain", true, c04Mut{Kind: "bitflip", Class: "meta-ct"}},
		{"open", "plain", true, c04Mut{Kind: "subst", Class: "payload-ct", Rel: 1}}, // piggybacked first write
		{"open", "plain", true, c04Mut{Kind: "delete", Class: "payload-tag", Rel: 1, Param: 1}},
		{"open", "plain", true, c04Mut{Kind: "truncate", Class: "payload-ct", Rel: 0.5}},
		{"open", "plain", true, c04Mut{Kind: "insert", Class: "boundary", Param: 1}},
		{"open", "maxpad", true, c04Mut{Kind: "insert", Class: "pad2", Param: 1}},
		{"open", "maxpad", true, c04Mut{Kind: "delete", Class: "pad2", Rel: 1, Param: 1}},
		{"open", "plain", false, c04Mut{Kind: "bitflip", Class: "meta-tag", Rel: 1}}, // open response
		{"open", "plain", false, c04Mut{Kind: "insert", Class: "boundary", Param: 1}},
		{"open", "plain", false, c04Mut{Kind: "truncate", Class: "boundary", ToLen: 71}},
		{"ack", "plain", true, c04Mut{Kind: "bitflip", Class: "meta-ct", Rel: 0.5}},
		{"ack", "plain", false, c04Mut{Kind: "subst", Class: "meta-tag"}},
		{"ack", "plain", true, c04Mut{Kind: "insert", Class: "boundary", Param: 1}},
		{"ack", "plain", false, c04Mut{Kind: "truncate", Class: "boundary", ToLen: 72}},
		{"ack", "maxpad", true, c04Mut{Kind: "delete", Class: "boundary", Param: 1}},
		{"ack", "maxpad", false, c04Mut{Kind: "bitflip", Class: "nonce"}},
	} {
		m := t.m
		m.Target = t.target
		m.Ext = true
		k := c04MkCase(r, true, t.pat, t.c2s, m)
		k.Label = "udp " + t.target
		cases = append(cases, k)
	}
	// (4) lengths. Datagram sizes: 71 / 72 bytes, the 1500-byte socket buffer (grown to exactly 1500 and
	// 1501 bytes), last byte removed; payload lengths 1, max-1, max of the MTU; paddings of length 0
	// (insertion exactly where the padding would be)
	for _, t := range []struct {
		label string
		udp   bool
		pat   string
		m     c04Mut
		w     func(k *c04Case)
	}{
		{"datagram cut to 71 bytes", true, "maxpad", c04Mut{Kind: "truncate", Class: "boundary", ToLen: 71}, nil},
		{"datagram cut to 72 bytes", true, "plain", c04Mut{Kind: "truncate", Class: "boundary", ToLen: 72}, nil},
		{"datagram grown to 1500 bytes", true, "plain", c04Mut{Kind: "insert", Class: "boundary", ToLen: 1500}, nil},
		{"datagram grown to 1501 bytes", true, "maxpad", c04Mut{Kind: "insert", Class: "boundary", ToLen: 1501}, nil},
		{"datagram grown to 1501 bytes inside pad2", true, "maxpad", c04Mut{Kind: "insert", Class: "pad2", ToLen: 1501}, nil},
		{"prefix padding 0: insertion behind the header", true, "plain", c04Mut{Kind: "insert", Class: "payload-ct", Param: 1}, nil},
		{"prefix padding 0: insertion behind the header", false, "plain", c04Mut{Kind: "insert", Class: "payload-ct", Param: 1}, nil},
		{"suffix padding 0: insertion behind the tag", true, "plain", c04Mut{Kind: "insert", Class: "boundary", Param: 1}, nil},
		{"suffix padding 0: insertion behind the tag", false, "plain", c04Mut{Kind: "insert", Class: "boundary", Param: 1}, nil},
		{"prefix padding cut to one byte less", true, "maxpad", c04Mut{Kind: "delete", Class: "pad1", Rel: 1, Param: 1}, nil},
		{"payloadLen 1", true, "plain", c04Mut{Kind: "bitflip", Class: "payload-ct", PayloadLen: 1}, func(k *c04Case) { c04LenWrites(k, 1) }},
		{"payloadLen 1", false, "plain", c04Mut{Kind: "bitflip", Class: "payload-ct", PayloadLen: 1}, func(k *c04Case) { c04LenWrites(k, 1) }},
		{"payloadLen max-1", true, "plain", c04Mut{Kind: "subst", Class: "payload-ct", Rel: 1}, func(k *c04Case) { c04LenWrites(k, -2) }},
		{"payloadLen max", true, "plain", c04Mut{Kind: "delete", Class: "payload-tag", Rel: 1, Param: 1}, func(k *c04Case) { c04LenWrites(k, -1) }},
		{"payloadLen max", true, "maxpad", c04Mut{Kind: "insert", Class: "payload-ct", Rel: 1, Param: 1}, func(k *c04Case) { c04LenWrites(k, -1) }},
	} {
		add(t.label, t.udp, t.pat, t.m, t.w)
	}
	// (5) a data datagram reflected to its sender, whole: every low-entropy pattern, both directions
	for _, pat := range []string{"le", "le4", "plain", "maxpad"} {
		for _, c2s := range []bool{true, false} {
			k := c04MkCase(r, true, pat, c2s, c04Mut{Kind: "reflect", Class: "boundary", Ext: true})
			k.Label = "udp reflection of a data datagram, " + pat
			cases = append(cases, k)
		}
	}
	// (6) specials
	for _, pat := range []string{"plain", "maxpad", "le"} {
		cases = append(cases, c04MkCase(r, false, pat, false, c04Mut{Kind: "nonce-advance-cut", Class: "nonce", Param: 1 + r.Intn(3)}))
		cases = append(cases, c04MkCase(r, false, pat, true, c04Mut{Kind: "nonce-advance-cut", Class: "nonce", Param: 1 + r.Intn(2)}))
	}
	for _, udp := range []bool{false, true} {
		cases = append(cases, c04MkCase(r, udp, "maxpad", r.Intn(2) == 0, c04Mut{Kind: "none", Class: "meta-ct"}))
	}
	cases = append(cases, c04Specials(r)...)
	return cases
}

// c04Shrink: the deterministic cells need multi-segment traffic in both directions, not volume: eight writes
// per side, the largest a few segments long.
func c04Shrink(k *c04Case) {
	for _, w := range []*[]int{&k.ClientWrites, &k.ServerWrites} {
		if len(*w) > 8 {
			*w = (*w)[:8]
		}
		for i := range *w {
			if (*w)[i] > 6000 {
				(*w)[i] = 4000 + (*w)[i]%2000
			}
		}
	}
}

// c04Specials: the shared-nonce witnesses (crafted 32-byte application chunks)
func c04Specials(r *rand.Rand) []c04Case {
	var cases []c04Case
	for _, sp := range []string{"swap32", "copy32"} {
		k := c04Case{Seed: r.Int63(), UDP: true, MTU: 1400, PatternName: "plain", C2S: true, Special: sp, TimeoutS: 30}
		k.Mut = c04Mut{Kind: map[string]string{"swap32": "meta-payload-swap", "copy32": "meta-over-payload"}[sp], Class: "payload-ct"}
		p := patJSON(c04Pattern("plain"))
		k.ClientPattern, k.ServerPattern = p, p
		cases = append(cases, k)
	}
	return cases
}

// c04LenWrites makes the mutated direction's sender produce a segment whose payload has the wanted
// length: 1, or (negative) the maximum the MTU allows minus (-want - 1).
func c04LenWrites(k *c04Case, want int) {
	mine := &k.ClientWrites
	if !k.C2S {
		mine = &k.ServerWrites
	}
	n := want
	if want < 0 {
		transport := 1
		if k.UDP {
			transport = 2
		}
		max, err := protocol.VerifMaxFragmentSize(k.MTU, transport, 0)
		if err != nil || max <= 0 {
			return
		}
		n = max + want + 1
	}
	k.Mut.PayloadLen = n
	// an 1100-byte first write (not piggybacked on the open request), then the chunk of interest alone
	*mine = []int{1100, n, 300, n, 700}
}

// genC04Random: the random stream (class, kind, offset, unit, parameter, direction, pattern).
func genC04Random(r *rand.Rand, thorough bool) []c04Case {
	var cases []c04Case
	mk := func(udp bool, pat string, c2s bool, m c04Mut) { cases = append(cases, c04MkCase(r, udp, pat, c2s, m)) }
	inUnit := []string{"bitflip", "subst", "insert", "delete", "truncate"}
	unitKinds := []string{"swap-next", "replay-prev", "reflect", "splice"}
	pats := []string{"plain", "maxpad", "le"}
	reps := 1
	if thorough {
		reps = 4
		pats = append(pats, "le4", "tcpfrag")
	}
	for rep := 0; rep < reps; rep++ {
		for _, udp := range []bool{false, true} {
			for _, pat := range pats {
				if udp && pat == "tcpfrag" {
					continue
				}
				if !thorough {
					// quick: a handful of random cells per (transport, pattern); the deterministic part
					// already holds the whole matrix
					for i := 0; i < 5; i++ {
						class := c04Classes[r.Intn(len(c04Classes))]
						if (class == "pad1" || class == "pad2") && pat == "plain" {
							class = "payload-ct"
						}
						kinds := append(append([]string(nil), inUnit...), unitKinds...)
						kind := kinds[r.Intn(len(kinds))]
						mk(udp, pat, r.Intn(2) == 0, c04Mut{Kind: kind, Class: class, Unit: 1 + r.Intn(6), Rel: r.Float64(), Param: 1 + r.Intn(7), Ext: true})
					}
					mk(udp, pat, r.Intn(2) == 0, c04Mut{Kind: unitKinds[r.Intn(4)], Class: "meta-ct", Unit: 1 + r.Intn(5)})
					continue
				}
				for _, class := range c04Classes {
					if (class == "pad1" || class == "pad2") && (pat == "plain" || pat == "le4") {
						continue
					}
					for _, kind := range inUnit {
						ext := class == "boundary" && (kind == "bitflip" || kind == "subst" || kind == "truncate")
						if ext && kind == "truncate" && udp {
							continue
						}
						mk(udp, pat, r.Intn(2) == 0, c04Mut{Kind: kind, Class: class, Unit: 1 + r.Intn(6), Rel: r.Float64(), Param: 1 + r.Intn(7), Ext: ext})
					}
					mk(udp, pat, r.Intn(2) == 0, c04Mut{Kind: unitKinds[r.Intn(4)], Class: class, Unit: 1 + r.Intn(5), Ext: true})
				}
				for _, kind := range unitKinds {
					mk(udp, pat, r.Intn(2) == 0, c04Mut{Kind: kind, Class: "meta-ct", Unit: 1 + r.Intn(5)})
				}
				if !udp {
					mk(false, pat, false, c04Mut{Kind: "nonce-advance-cut", Class: "nonce", Param: 1 + r.Intn(3)})
					mk(false, pat, true, c04Mut{Kind: "nonce-advance-cut", Class: "nonce", Param: 1 + r.Intn(2)})
				}
			}
		}
		if thorough && rep > 0 {
			cases = append(cases, c04Specials(r)...)
		}
	}
	return cases
}

func c04LoadCorpus(c *core.Ctx) []c04Case {
	var out []c04Case
	files, _ := filepath.Glob(filepath.Join(c.Corpus, "*.json"))
	sort.Strings(files)
	for _, f := range files {
		raw, err := os.ReadFile(f)
		if err != nil {
			continue
		}
		var rp struct {
			Input json.RawMessage `json:"input"`
		}
		if json.Unmarshal(raw, &rp) != nil || len(rp.Input) == 0 {
			continue
		}
		var k c04Case
		if json.Unmarshal(rp.Input, &k) == nil && k.Mut.Kind != "" {
			out = append(out, k)
		}
	}
	return out
}

func init() {
	core.Register("C04", &core.Scenario{
		Run: func(c *core.Ctx) {
			c.Res.Rule = "each case: real protocol.Mux client and server exchange multi-segment traffic in both directions (8-12 writes per side, 40 B - 33 KB) on TCP or UDP under one traffic pattern (plain / maximal padding / low entropy mode 2 with rotation / mode 4 / TCP fragmentation); ONE unit (stream segment or datagram) of one direction is mutated in flight. EVERY run starts with the deterministic part: the full matrix byte-position class {nonce, encrypted metadata, metadata tag, middle padding, payload ciphertext incl. low-entropy encoded body, payload tag, end padding, unit boundary} x kind {bit flip, substitution, insertion, deletion, truncation, swap with the next unit, replay of the previous unit, reflection from the opposite direction, splice} on both transports (first / last byte of the class as offsets; the four unit-level kinds act on the byte range of the class, on the whole unit for class boundary), the low-entropy body under every kind, UDP open-session request / response and pure acks (the other parse path), the length boundaries (datagram of 71 / 72 / 1500 / 1501 bytes, payload length 1 / max-1 / max of the MTU, paddings of length 0), reflection of a data datagram that runs ahead of the peer's numbering under every pattern in both directions, removal of a stream prefix with the clear-text initial nonce advanced (TCP), metadata/payload ciphertext swap and metadata-over-payload copy inside one datagram (UDP, crafted 32-byte application chunk); then the random stream (class, kind, offset, unit, parameter, direction, pattern). The class x kind matrix of what was APPLIED is printed; an empty cell fails the run. Oracle: TCP - bytes read are a prefix of bytes written; UDP - read = written and the transfer completes; the session tag the server application reads first is content like any other. Distinct = distinct case JSON with the mutation applied."
			c.Correspondence("mutated unit replayed through the model receiver (StreamWire.drain / Tamper.parseD) with the ideal AEAD keyed by the honest triples seen on the wire; TCP: delivered byte count, two-sided unless the model receiver is dead (teardown race); UDP: accept/reject (acknowledged before any genuine copy arrived)")
			c.Correspondence("UDP whole run: every datagram each real endpoint's ReadFrom returned, in order, through Tamper.rxStep (parseD + session dispatch + direction test + Arq.recv; driver op c04-udp-seq): the model's delivered stream is what the sender wrote (content per segment), its length equals what the real application read once the transfer completed, and no cumulative ack of the real endpoint is ahead of what the model had accepted by then")
			var cases []c04Case
			cases = append(cases, c04LoadCorpus(c)...)
			cases = append(cases, c04AlignCases(c.Rand, c.Thorough() || c.Search)...) // c04_align.go: deterministic, every run
			cases = append(cases, genC04Boundaries(c.Rand)...)                        // every run, before the random stream
			cases = append(cases, genC04Random(c.Rand, c.Thorough() || c.Search)...)  // a broken obligation widens the search
			for i := 0; i < 3 && i < len(cases); i++ {
				c.Sample(cases[i])
			}
			c04Cells = &c04Matrix{}
			c04Procs = newC04Pool(c, 6)
			defer func() { c04Procs.close(); c04Procs = nil }()
			core.Parallel(len(cases), 48, func(i int) { c04Run(c, cases[i]) })
			// the class x kind matrix of what was actually APPLIED; a cell the deterministic part could
			// not fill gets one more attempt, then it is a failure of the generator
			if empty := c04Cells.report(c, false); len(empty) > 0 {
				var again []c04Case
				for _, k := range genC04Boundaries(c.Rand) {
					tr := "tcp"
					if k.UDP {
						tr = "udp"
					}
					for _, e := range empty {
						if k.Label == "matrix" && e == tr+"/"+c04CellClass(k.Mut)+"/"+k.Mut.Kind {
							again = append(again, k)
						}
					}
				}
				c.Hist("matrix retry", strings.Join(empty, " "))
				core.Parallel(len(again), 16, func(i int) { c04Run(c, again[i]) })
			}
			c04Again.mu.Lock()
			again := c04Again.cases
			c04Again.cases = nil
			c04Again.mu.Unlock()
			for _, k := range again {
				c04Run(c, k)
			}
			for _, e := range c04Cells.report(c, true) {
				c.Disagree("C04/generator/empty-cell/"+e, "the case generator did not apply a single mutation of this byte-position class x kind on this transport in this run (two attempts): the campaign does not cover what the property quantifies over", nil)
			}
			bgClose.Wait(30 * time.Second)
		},
		Replay: func(c *core.Ctx, raw json.RawMessage) {
			var k c04Case
			if json.Unmarshal(raw, &k) == nil {
				c04Run(c, k)
				bgClose.Wait(30 * time.Second)
			}
		},
	})
}
