package props

import (
	"encoding/json"
	"errors"
	"fmt"
	"io"
	"math/rand"
	"net"
	"os"
	"os/exec"
	"path/filepath"
	"sort"
	"strings"
	"sync"
	"sync/atomic"
	"time"

	"github.com/enfein/mieru/v3/pkg/protocol"
	"github.com/enfein/mieru/v3/pkg/stderror"
	"verifharness/core"
	"verifharness/sim"
)

// C15 — Close always completes, unblocks everyone, and leaves nothing running; deadlines.
//
// The logic part is proved in lean/Mieru/Props/C15.lean. This file is the runtime part: it drives
// real protocol.Mux endpoints over the in-memory network through seeded interleavings of
// {Write, Read, Set*Deadline, Close} on both ends, Mux.Close on either side and abrupt underlay
// loss, records every call with its return kind and latency, has the Lean blocking / deadline model
// accept each observed history (c15-hist, c15-deadline, c15-closers) and evaluates the property's own
// predicates directly:
//   * every Close (session, client mux, server mux) returns within c15BoundMs and may be repeated;
//   * after a Close every Read/Write parked on an affected connection, at either end, returns;
//   * a deadline set before a call bounds it (every later call, until changed);
//   * after both ends are shut down no goroutine with frames of the project remains.
// Bounds are an order of magnitude above measured behaviour (Close <= 1.3 s, deadline overshoot
// ~1 ms), and a timing verdict is reported only if it reproduces in 2 of 3 re-runs of the case.

// c15KnownHOL is the key of the recorded known finding (known_findings.txt): a verdict under this key
// cannot fail a run, so it is reported on first sight, without the 2-of-3 re-runs (each costs ~25 s).
const c15KnownHOL = "C15/hang/behind-stalled-session-tcp"

const (
	c15BoundMs = 15000 // a Close, and any call a close wakes, is over within this
	c15PropMs  = 2000  // allowance for a close to reach the other end
	c15EpsMs   = 250   // clock tolerance for "a timeout is not reported before the deadline"
	c15SlackMs = 2000  // a call bounded by a deadline may overshoot by this
)

type c15Step struct {
	Op      string `json:"op"`                 // sr sw sb: Set{Read,Write,}Deadline(now+D ms; D==0 clears) | pw: peer writes N bytes | r: Read | w: Write N bytes | sleep: D ms
	D       int    `json:"d,omitempty"`        // milliseconds
	N       int    `json:"n,omitempty"`        // bytes
	WatchMs int    `json:"watch_ms,omitempty"` // how long a parked call without a deadline is watched (default 1500)
}

type c15Case struct {
	Kind      string `json:"kind"` // deadline | mixed | stall | leak | closers | api
	Seed      int64  `json:"seed"`
	UDP       bool   `json:"udp"`
	Multiplex int    `json:"multiplex"`
	Sessions  int    `json:"sessions"`

	// deadline: one end of one connection, calls issued one after another
	End   string    `json:"end,omitempty"` // c | s
	Steps []c15Step `json:"steps,omitempty"`

	// mixed / stall / leak
	Ender       string `json:"ender,omitempty"` // sclose-c | sclose-s | cmux | smux | fault | none
	EnderSess   int    `json:"ender_sess,omitempty"`
	Closers     int    `json:"closers,omitempty"`      // concurrent callers of the ending Close
	TrafficMs   int    `json:"traffic_ms,omitempty"`   // both directions transfer for this long
	IdleMs      int    `json:"idle_ms,omitempty"`      // then nothing is written for this long before the ender
	Chunk       int    `json:"chunk,omitempty"`        // largest Write
	Deadlines   bool   `json:"deadlines,omitempty"`    // deadlines are set concurrently with the traffic
	Heavy       bool   `json:"heavy,omitempty"`        // writers do not pause: a backlog builds up in the send queues
	ServerFirst bool   `json:"server_first,omitempty"` // final shutdown order
	KeepOpen    bool   `json:"keep_open,omitempty"`    // leak: sessions are still open when the muxes are closed
	// stall: the application at StallSide stops reading; the other side writes Writes pieces of Size
	// bytes (one segment each) so that every queue on the way fills up
	StallSide     string `json:"stall_side,omitempty"` // c | s
	Writes        int    `json:"writes,omitempty"`
	Size          int    `json:"size,omitempty"`
	WriteDeadline int    `json:"write_deadline_ms,omitempty"` // set before every Write of the stalled direction
}

type c15Call struct {
	Op    string `json:"op"`   // R W C M
	Side  string `json:"side"` // c s
	Sess  int    `json:"sess"`
	Start int64  `json:"start"`
	Ret   int64  `json:"ret"` // -1 while pending
	Kind  string `json:"kind"`
	N     int    `json:"n"`
}

type c15Dl struct {
	Side  string
	Sess  int
	Which string // r w rw
	When  int64
	Abs   int64 // 0 = cleared
}

// c15Rec records the calls of one case. Successful Reads and Writes are only counted (the models
// accept them unconditionally), except the first and the latest successful Write of each end, which
// explain a client's implicit read timeout.
type c15Rec struct {
	mu      sync.Mutex
	t0      time.Time
	calls   []*c15Call
	dls     []c15Dl
	okCalls int
	firstW  map[string]*c15Call
	lastW   map[string]*c15Call
}

func newC15Rec() *c15Rec {
	return &c15Rec{t0: time.Now(), firstW: map[string]*c15Call{}, lastW: map[string]*c15Call{}}
}

func (r *c15Rec) now() int64 { return time.Since(r.t0).Milliseconds() }

func (r *c15Rec) begin(op, side string, sess int) *c15Call {
	c := &c15Call{Op: op, Side: side, Sess: sess, Start: r.now(), Ret: -1}
	r.mu.Lock()
	r.calls = append(r.calls, c)
	r.mu.Unlock()
	return c
}

func (r *c15Rec) end(c *c15Call, kind string, n int) {
	ret := r.now()
	r.mu.Lock()
	defer r.mu.Unlock()
	c.Ret, c.Kind, c.N = ret, kind, n
	if (c.Op == "R" || c.Op == "W") && (kind == "data" || kind == "ok") {
		r.okCalls++
		// drop it from the list (it is the last pending entry of its goroutine; search from the end)
		for i := len(r.calls) - 1; i >= 0; i-- {
			if r.calls[i] == c {
				r.calls = append(r.calls[:i], r.calls[i+1:]...)
				break
			}
		}
		if c.Op == "W" {
			k := fmt.Sprintf("%s%d", c.Side, c.Sess)
			if r.firstW[k] == nil {
				r.firstW[k] = c
			}
			r.lastW[k] = c
		}
	}
}

func (r *c15Rec) setDl(conn net.Conn, side string, sess int, which string, deltaMs int) {
	var t time.Time
	var abs int64
	when := r.now()
	if deltaMs != 0 {
		t = time.Now().Add(time.Duration(deltaMs) * time.Millisecond)
		abs = t.Sub(r.t0).Milliseconds()
		if abs <= 0 {
			abs = 1
		}
	}
	switch which {
	case "r":
		conn.SetReadDeadline(t)
	case "w":
		conn.SetWriteDeadline(t)
	default:
		conn.SetDeadline(t)
	}
	r.mu.Lock()
	r.dls = append(r.dls, c15Dl{side, sess, which, when, abs})
	r.mu.Unlock()
}

// snapshot returns every recorded call; calls that have not returned are reported as blocked now.
func (r *c15Rec) snapshot() ([]c15Call, []c15Dl) {
	now := r.now()
	r.mu.Lock()
	defer r.mu.Unlock()
	var out []c15Call
	seen := map[*c15Call]bool{}
	add := func(c *c15Call) {
		if c == nil || seen[c] {
			return
		}
		seen[c] = true
		x := *c
		if x.Ret < 0 {
			x.Ret, x.Kind = now, "blocked"
		}
		out = append(out, x)
	}
	for _, c := range r.calls {
		add(c)
	}
	for _, c := range r.firstW {
		add(c)
	}
	for _, c := range r.lastW {
		add(c)
	}
	sort.SliceStable(out, func(i, j int) bool { return out[i].Start < out[j].Start })
	return out, append([]c15Dl(nil), r.dls...)
}

func c15Kind(err error, read bool) string {
	switch {
	case err == nil:
		if read {
			return "data"
		}
		return "ok"
	case errors.Is(err, io.EOF):
		return "eof"
	case errors.Is(err, io.ErrUnexpectedEOF):
		return "ueof"
	case errors.Is(err, io.ErrClosedPipe):
		return "closedpipe"
	case stderror.IsTimeout(err):
		return "timeout"
	}
	return "other"
}

// c15Finding is a candidate verdict of one run of one case.
type c15Finding struct {
	disagree bool
	key      string
	what     string
}

type c15Out struct {
	finds    []c15Finding
	setupErr error
	calls    int
	okCalls  int
	hist     map[string]string
}

func (o *c15Out) violate(key, format string, a ...interface{}) {
	o.finds = append(o.finds, c15Finding{false, key, fmt.Sprintf(format, a...)})
}
func (o *c15Out) disagree(key, format string, a ...interface{}) {
	o.finds = append(o.finds, c15Finding{true, key, fmt.Sprintf(format, a...)})
}

func c15Transport(udp bool) string {
	if udp {
		return "udp"
	}
	return "tcp"
}

func waitChans(chs []chan struct{}, d time.Duration) (left []int) {
	deadline := time.After(d)
	for i, ch := range chs {
		select {
		case <-ch:
		case <-deadline:
			// collect everything still open
			for j := i; j < len(chs); j++ {
				select {
				case <-chs[j]:
				default:
					left = append(left, j)
				}
			}
			return left
		}
	}
	return nil
}

// --------------------------------------------------------------------------------------------
// history acceptance by the Lean model

func c15HistTokens(calls []c15Call, dls []c15Dl) []string {
	var toks []string
	for _, x := range calls {
		toks = append(toks, fmt.Sprintf("%s:%s:%d:%d:%d:%s:%d", x.Op, x.Side, x.Sess, x.Start, x.Ret, x.Kind, x.N))
	}
	for _, d := range dls {
		toks = append(toks, fmt.Sprintf("D:%s:%d:%s:%d:%d", d.Side, d.Sess, d.Which, d.When, d.Abs))
	}
	return toks
}

func c15AskHist(c *core.Ctx, o *c15Out, k c15Case, calls []c15Call, dls []c15Dl, fault int64) {
	if c.Model == nil {
		return
	}
	f := "-"
	if fault >= 0 {
		f = fmt.Sprint(fault)
	}
	toks := c15HistTokens(calls, dls)
	stall := "-"
	if k.Kind == "stall" && !k.UDP && !(k.Ender == "sclose-"+k.StallSide && k.EnderSess%mathMax(1, k.Sessions) == 0) {
		// (once the stalled connection itself has been closed at the stalled side, the loop reads again)
		stall = k.StallSide
	}
	reply := c.Model.Ask("c15-hist %s %d %d %d %s %s %s", c15Transport(k.UDP), c15BoundMs, c15PropMs, c15EpsMs, f, stall, strings.Join(toks, " "))
	c.Compared()
	if reply == "ok accept" {
		return
	}
	what := reply
	var idx int
	if n, _ := fmt.Sscanf(reply, "ok reject %d", &idx); n == 1 && idx < len(calls) {
		x := calls[idx]
		what = fmt.Sprintf("the blocking model cannot explain call #%d: %s at %s end of session %d, started %d ms, %s at %d ms (n=%d)", idx, x.Op, x.Side, x.Sess, x.Start, x.Kind, x.Ret, x.N)
		o.disagree(fmt.Sprintf("C15/blocking-model/%s-%s-%s-%s", x.Op, x.Side, x.Kind, c15Transport(k.UDP)), "%s; history: %s", what, strings.Join(toks, " "))
		return
	}
	o.disagree("C15/blocking-model/driver", "c15-hist replied %q", what)
}

// --------------------------------------------------------------------------------------------
// kind "deadline": sequential calls on one end, the harness plays the peer

func c15RunDeadline(c *core.Ctx, k c15Case) *c15Out {
	o := &c15Out{hist: map[string]string{}}
	w, err := sim.NewWorld(sim.Config{UDP: k.UDP, Seed: k.Seed, Multiplex: k.Multiplex})
	if err != nil {
		o.setupErr = err
		return o
	}
	defer bgClose.Go(w.Close)
	cl, sv, err := w.Pair(1, 20*time.Second)
	if err != nil {
		o.setupErr = err
		return o
	}
	conn, peer := cl, sv
	if k.End == "s" {
		conn, peer = sv, cl
	}
	r := newC15Rec()
	type obs struct {
		tok   string
		op    string
		start int64
		ret   int64
		kind  string
	}
	var observed []obs
	var rdSpec, wdSpec int64 // the contract's bookkeeping (absolute ms, 0 = none)
	readsSinceSet, writesSinceSet, clientWriteSinceSetR := 0, 0, false
	buf := make([]byte, 65536)
	peerBuf := make([]byte, 65536)
	drain := func() { // the peer application consumes whatever has arrived so far
		for {
			peer.SetReadDeadline(time.Now().Add(30 * time.Millisecond))
			if _, err := peer.Read(peerBuf); err != nil {
				break
			}
		}
		peer.SetReadDeadline(time.Time{})
	}
	for si, st := range k.Steps {
		switch st.Op {
		case "sleep":
			time.Sleep(time.Duration(st.D) * time.Millisecond)
		case "pw":
			b := make([]byte, st.N)
			if _, err := peer.Write(b); err != nil {
				o.setupErr = fmt.Errorf("step %d: peer write: %v", si, err)
				return o
			}
			time.Sleep(60 * time.Millisecond) // let it arrive
		case "sr", "sw", "sb":
			which := map[string]string{"sr": "r", "sw": "w", "sb": "rw"}[st.Op]
			r.setDl(conn, k.End, 0, which, st.D)
			abs := r.dls[len(r.dls)-1].Abs
			if st.Op != "sw" {
				rdSpec, readsSinceSet, clientWriteSinceSetR = abs, 0, false
			}
			if st.Op != "sr" {
				wdSpec, writesSinceSet = abs, 0
			}
			observed = append(observed, obs{tok: fmt.Sprintf("%s:%d", st.Op, abs), op: st.Op})
		case "r", "w":
			isRead := st.Op == "r"
			spec := wdSpec
			if isRead {
				spec = rdSpec
			}
			type res struct {
				n   int
				err error
			}
			ch := make(chan res, 1)
			start := r.now()
			go func() {
				if isRead {
					n, err := conn.Read(buf[:mathMax(1, st.N)])
					ch <- res{n, err}
				} else {
					n, err := conn.Write(make([]byte, st.N))
					ch <- res{n, err}
				}
			}()
			watch := int64(st.WatchMs)
			if watch == 0 {
				watch = 1500
			}
			if spec != 0 {
				until := spec
				if start > until {
					until = start
				}
				watch = until - start + c15SlackMs + 500
			}
			var kind string
			var n int
			var ret int64
			select {
			case x := <-ch:
				ret, n, kind = r.now(), x.n, c15Kind(x.err, isRead)
			case <-time.After(time.Duration(watch) * time.Millisecond):
				ret, kind = r.now(), "blocked"
				// release it: a silent peer speaks, a stalled peer reads
				if isRead {
					peer.Write([]byte{0})
				} else {
					go drain()
				}
				select {
				case <-ch:
				case <-time.After(c15BoundMs * time.Millisecond):
					o.violate(fmt.Sprintf("C15/hang/%s-not-released-by-peer-%s", st.Op, c15Transport(k.UDP)), "step %d: the parked call did not return within %d ms after the peer acted", si, c15BoundMs)
					return o
				}
			}
			o.hist["deadline_"+st.Op+"_kind"] = kind
			if isRead {
				observed = append(observed, obs{fmt.Sprintf("r:%d:%d:%s:%d", start, ret, kind, n), "r", start, ret, kind})
			} else {
				chunk := 0
				if st.N > 0 {
					chunk = 1
				}
				observed = append(observed, obs{fmt.Sprintf("w:%d:%d:%s:%d:%d", start, ret, kind, n, chunk), "w", start, ret, kind})
				if k.End == "c" {
					clientWriteSinceSetR = true
				}
				drain()
			}
			// direct oracle: the net.Conn contract
			if spec != 0 {
				lim := spec
				if start > lim {
					lim = start
				}
				if ret > lim+c15SlackMs {
					key := "C15/deadline/" + map[bool]string{true: "read", false: "write"}[isRead] + "-not-bounded"
					switch {
					case isRead && readsSinceSet > 0:
						key = "C15/deadline/cleared-after-first-call"
					case isRead && clientWriteSinceSetR:
						key = "C15/deadline/client-write-replaces-read-deadline"
					case !isRead && writesSinceSet > 0:
						key = "C15/deadline/cleared-after-first-call"
					}
					o.violate(key, "%s end, %s: step %d (%s) started at %d ms with deadline %d ms in force and was %s at %d ms (limit %d ms); earlier calls since the deadline was set: %d",
						map[string]string{"c": "client", "s": "server"}[k.End], c15Transport(k.UDP), si, st.Op, start, spec, kind, ret, lim+c15SlackMs, map[bool]int{true: readsSinceSet, false: writesSinceSet}[isRead])
				}
			}
			if isRead {
				readsSinceSet++
			} else {
				writesSinceSet++
			}
		}
	}
	// the code model must accept the observed history
	if c.Model != nil {
		var toks []string
		for _, x := range observed {
			toks = append(toks, x.tok)
		}
		who := map[string]string{"c": "client", "s": "server"}[k.End]
		reply := c.Model.Ask("c15-deadline %s %d %d %s", who, c15EpsMs, c15SlackMs, strings.Join(toks, " "))
		c.Compared()
		if !strings.HasPrefix(reply, "ok accept") {
			var idx int
			key := "C15/deadline-model/driver"
			if n, _ := fmt.Sscanf(reply, "ok reject %d", &idx); n == 1 && idx < len(observed) {
				key = fmt.Sprintf("C15/deadline-model/%s-%s-%s", who, observed[idx].op, observed[idx].kind)
			}
			o.disagree(key, "the deadline model of the code replied %q to the observed history %s", reply, strings.Join(toks, " "))
		}
	}
	o.calls = len(observed)
	return o
}

// c15Bucket names the size class of a count for the histograms.
func c15Bucket(n int) string {
	switch {
	case n < 256:
		return "<256"
	case n < 4096:
		return "256..4095"
	case n < 4352:
		return "4096..4351"
	case n < 5000:
		return "4352..4999"
	}
	return ">=5000"
}

func mathMax(a, b int) int {
	if a > b {
		return a
	}
	return b
}

// --------------------------------------------------------------------------------------------
// kinds "mixed" and "stall": concurrent traffic on both ends of 1..4 connections, then an ender

type c15End struct {
	conn net.Conn
	side string
	sess int
}

func c15Closers(r *c15Rec, conn net.Conn, side string, sess, n int) []chan struct{} {
	var chs []chan struct{}
	var start sync.WaitGroup
	start.Add(1)
	for i := 0; i < n; i++ {
		ch := make(chan struct{})
		chs = append(chs, ch)
		go func() {
			defer close(ch)
			start.Wait()
			p := r.begin("C", side, sess)
			err := conn.Close()
			r.end(p, map[bool]string{true: "ok", false: "other"}[err == nil], 0)
		}()
	}
	start.Done()
	return chs
}

func c15MuxClose(r *c15Rec, m *protocol.Mux, side string, n int) []chan struct{} {
	var chs []chan struct{}
	for i := 0; i < n; i++ {
		ch := make(chan struct{})
		chs = append(chs, ch)
		go func() {
			defer close(ch)
			p := r.begin("M", side, 0)
			err := m.Close()
			r.end(p, map[bool]string{true: "ok", false: "other"}[err == nil], 0)
		}()
	}
	return chs
}

func c15RunMixed(c *core.Ctx, k c15Case) *c15Out {
	o := &c15Out{hist: map[string]string{}}
	w, err := sim.NewWorld(sim.Config{UDP: k.UDP, Seed: k.Seed, Multiplex: k.Multiplex})
	if err != nil {
		o.setupErr = err
		return o
	}
	defer bgClose.Go(w.Close)
	ns := k.Sessions
	if ns < 1 {
		ns = 1
	}
	var cls, svs []net.Conn
	for i := 0; i < ns; i++ {
		cl, sv, err := w.Pair(uint32(i+1), 20*time.Second)
		if err != nil {
			o.setupErr = err
			return o
		}
		cls, svs = append(cls, cl), append(svs, sv)
	}
	r := newC15Rec()
	rng := rand.New(rand.NewSource(k.Seed))
	var quiet atomic.Bool
	var stallWrites atomic.Int64 // Writes of the stalled direction that went through
	type worker struct {
		done chan struct{}
		end  c15End
		what string // R | W
	}
	var workers []worker
	ends := func(i int) []c15End { return []c15End{{cls[i], "c", i}, {svs[i], "s", i}} }
	chunk := k.Chunk
	if chunk <= 0 {
		chunk = 4096
	}
	stalled := func(e c15End) bool { return k.Kind == "stall" && e.sess == 0 && e.side == k.StallSide }
	for i := 0; i < ns; i++ {
		for _, e := range ends(i) {
			e := e
			if !stalled(e) {
				// reader: reads until the connection ends; a deadline that fires is cleared and reading goes on
				done := make(chan struct{})
				workers = append(workers, worker{done, e, "R"})
				go func() {
					defer close(done)
					buf := make([]byte, 32768)
					timeouts := 0
					for {
						p := r.begin("R", e.side, e.sess)
						n, err := e.conn.Read(buf)
						kind := c15Kind(err, true)
						r.end(p, kind, n)
						if err != nil {
							if kind == "timeout" && timeouts < 40 {
								timeouts++
								r.setDl(e.conn, e.side, e.sess, "r", 0)
								continue
							}
							return
						}
					}
				}()
			}
			// writer
			wseed := rng.Int63()
			done := make(chan struct{})
			workers = append(workers, worker{done, e, "W"})
			stallWriter := k.Kind == "stall" && e.sess == 0 && e.side != k.StallSide
			go func() {
				defer close(done)
				wr := rand.New(rand.NewSource(wseed))
				budget := 1 << 20
				if k.Heavy {
					budget = 6 << 20
				}
				if stallWriter {
					for j := 0; j < k.Writes; j++ {
						if k.WriteDeadline > 0 {
							r.setDl(e.conn, e.side, e.sess, "w", k.WriteDeadline)
						}
						p := r.begin("W", e.side, e.sess)
						n, err := e.conn.Write(make([]byte, mathMax(1, k.Size)))
						r.end(p, c15Kind(err, false), n)
						if err != nil && !stderror.IsTimeout(err) {
							return
						}
						if err == nil {
							stallWrites.Add(1)
						}
					}
					return
				}
				timeouts := 0
				for budget > 0 && !quiet.Load() {
					sz := 1 + wr.Intn(chunk)
					p := r.begin("W", e.side, e.sess)
					n, err := e.conn.Write(make([]byte, sz))
					kind := c15Kind(err, false)
					r.end(p, kind, n)
					if err != nil {
						if kind == "timeout" && timeouts < 40 {
							timeouts++
							r.setDl(e.conn, e.side, e.sess, "w", 0)
							continue
						}
						return
					}
					budget -= sz
					if !k.Heavy {
						time.Sleep(time.Duration(wr.Intn(3000)) * time.Microsecond)
					}
				}
			}()
			if k.Deadlines && !stalled(e) {
				dseed := rng.Int63()
				go func() {
					dr := rand.New(rand.NewSource(dseed))
					for j := 0; j < 12 && !quiet.Load(); j++ {
						time.Sleep(time.Duration(20+dr.Intn(120)) * time.Millisecond)
						which := []string{"r", "w", "rw"}[dr.Intn(3)]
						// mostly far away (exercises the stores concurrently with the calls), sometimes
						// short enough to fire while a reader is parked in a later call
						d := 30000 + dr.Intn(30000)
						if dr.Intn(4) == 0 {
							d = 150 + dr.Intn(300)
						}
						r.setDl(e.conn, e.side, e.sess, which, d)
					}
				}()
			}
		}
	}

	// traffic, then silence, then the ender
	if k.Kind == "stall" {
		// the ender lands when the stalled direction has been written completely (every queue on the way
		// is as full as it gets), or after TrafficMs if the writer is parked by back-pressure (UDP)
		// (UDP: window 0; with a write deadline every Write then ends in a timeout). "Parked" is observed,
		// not assumed: no Write of the stalled direction has completed for 700 ms (a Write that goes
		// through takes well under 10 ms), at the latest after TrafficMs.
		for _, wk := range workers {
			if wk.what == "W" && wk.end.sess == 0 && wk.end.side != k.StallSide {
				limit := time.After(time.Duration(k.TrafficMs) * time.Millisecond)
				last, lastAt := stallWrites.Load(), time.Now()
			waitFull:
				for {
					select {
					case <-wk.done:
						time.Sleep(200 * time.Millisecond)
						break waitFull
					case <-limit:
						break waitFull
					case <-time.After(50 * time.Millisecond):
						if n := stallWrites.Load(); n != last {
							last, lastAt = n, time.Now()
						} else if n > 0 && time.Since(lastAt) > 700*time.Millisecond {
							o.hist["stall_writer_parked_after_writes_"+c15Bucket(int(n))] = ""
							break waitFull
						}
					}
				}
			}
		}
	} else {
		time.Sleep(time.Duration(k.TrafficMs) * time.Millisecond)
	}
	if k.IdleMs > 0 {
		quiet.Store(true)
		time.Sleep(time.Duration(k.IdleMs) * time.Millisecond)
	}
	tr := c15Transport(k.UDP)
	var enderChs []chan struct{}
	fault := int64(-1)
	affected := func(e c15End) bool { return false }
	es := k.EnderSess % ns
	nclosers := mathMax(1, k.Closers)
	switch k.Ender {
	case "sclose-c":
		enderChs = c15Closers(r, cls[es], "c", es, nclosers)
		affected = func(e c15End) bool { return e.sess == es }
	case "sclose-s":
		enderChs = c15Closers(r, svs[es], "s", es, nclosers)
		affected = func(e c15End) bool { return e.sess == es }
	case "cmux":
		enderChs = c15MuxClose(r, w.Client, "c", mathMax(1, k.Closers%3))
		affected = func(e c15End) bool { return true }
	case "smux":
		enderChs = c15MuxClose(r, w.Server, "s", mathMax(1, k.Closers%3))
		affected = func(e c15End) bool { return true }
	case "fault":
		fault = r.now()
		w.Fault()
		if !k.UDP {
			affected = func(e c15End) bool { return true }
		}
	}
	quiet.Store(true)
	// stage 1: the ender returns, and every call parked on an affected connection returns
	if left := waitChans(enderChs, c15BoundMs*time.Millisecond); len(left) > 0 {
		o.violate(fmt.Sprintf("C15/close-does-not-return/%s-%s", k.Ender, tr), "%d of %d concurrent callers of the ending Close (%s) had not returned after %d ms", len(left), len(enderChs), k.Ender, c15BoundMs)
	}
	var chs []chan struct{}
	var idx []int
	for i, wk := range workers {
		if affected(wk.end) {
			chs = append(chs, wk.done)
			idx = append(idx, i)
		}
	}
	for _, j := range waitChans(chs, (c15BoundMs+c15PropMs)*time.Millisecond) {
		wk := workers[idx[j]]
		rel := "local"
		if (strings.HasSuffix(k.Ender, "-c") || k.Ender == "cmux") != (wk.end.side == "c") {
			rel = "peer"
		}
		if k.Ender == "fault" {
			rel = "either"
		}
		if k.Kind == "stall" && !k.UDP && wk.end.side == k.StallSide && rel != "local" {
			// known finding: the event loop of this side is parked in deliverSegmentToSession behind the
			// connection whose application stopped reading; it does not read the TCP connection, so
			// neither the peer's close nor the loss of the connection is noticed
			o.violate(c15KnownHOL, "%s at the %s end of connection %d had not returned %d ms after %s: the %s side's event loop is parked behind connection 0, whose application stopped reading; goroutines of the project: %s",
				wk.what, wk.end.side, wk.end.sess, c15BoundMs+c15PropMs, k.Ender, wk.end.side, c15SigSummary())
			continue
		}
		o.violate(fmt.Sprintf("C15/hang/%s-%s-end-after-%s-%s", map[string]string{"R": "read", "W": "write"}[wk.what], rel, k.Ender, tr),
			"%s at the %s end of connection %d had not returned %d ms after %s; goroutines of the project: %s", wk.what, wk.end.side, wk.end.sess, c15BoundMs+c15PropMs, k.Ender, c15SigSummary())
	}
	// closing the stalled connection itself frees the event loop (deliverSegmentToSession gives up when
	// the session is closed): a peer's close of a sibling connection must be noticed again
	shared := ns > 1 && cls[0].LocalAddr().String() == cls[1].LocalAddr().String() // connections 0 and 1 use one underlay
	if k.Kind == "stall" {
		o.hist[fmt.Sprintf("stall_shares_underlay_%v", shared)] = ""
	}
	if k.Kind == "stall" && !k.UDP && k.Ender == "sclose-"+k.StallSide && es == 0 && shared && len(o.finds) == 0 {
		other, oconns := "c", cls
		if k.StallSide == "c" {
			other, oconns = "s", svs
		}
		waitChans(c15Closers(r, oconns[1], other, 1, 1), c15BoundMs*time.Millisecond)
		chs, idx = nil, nil
		for i, wk := range workers {
			if wk.end.sess == 1 && wk.end.side == k.StallSide {
				chs = append(chs, wk.done)
				idx = append(idx, i)
			}
		}
		for _, j := range waitChans(chs, (c15BoundMs+c15PropMs)*time.Millisecond) {
			wk := workers[idx[j]]
			o.violate("C15/hang/loop-stays-parked-after-stalled-session-closed-tcp", "%s at the %s end of connection 1 had not returned %d ms after the peer closed that connection, although the stalled connection 0 had been closed at the %s end before; goroutines of the project: %s",
				wk.what, wk.end.side, c15BoundMs+c15PropMs, k.StallSide, c15SigSummary())
		}
	}
	// once the case has failed, later waits are cut short: the verdict is in, the rest is clean-up
	bound := func() time.Duration {
		if len(o.finds) > 0 {
			return 3 * time.Second
		}
		return c15BoundMs * time.Millisecond
	}
	// a Close may be repeated
	if strings.HasPrefix(k.Ender, "sclose") {
		conn, side := cls[es], "c"
		if k.Ender == "sclose-s" {
			conn, side = svs[es], "s"
		}
		if left := waitChans(c15Closers(r, conn, side, es, 1), bound()); len(left) > 0 {
			o.violate("C15/close-does-not-return/repeated-"+tr, "a second Close of the same connection had not returned after %d ms", c15BoundMs)
		}
	}
	// stage 2: shut everything down, every Close measured
	closeAll := func(side string) {
		conns := cls
		if side == "s" {
			conns = svs
		}
		for i, cn := range conns {
			if left := waitChans(c15Closers(r, cn, side, i, 1), bound()); len(left) > 0 {
				o.violate(fmt.Sprintf("C15/close-does-not-return/session-%s-after-%s-%s", side, k.Ender, tr), "Close of connection %d at the %s end had not returned after %d ms", i, side, c15BoundMs)
			}
		}
	}
	muxClose := func(side string) {
		m := w.Client
		if side == "s" {
			m = w.Server
		}
		if left := waitChans(c15MuxClose(r, m, side, 1), bound()); len(left) > 0 {
			o.violate(fmt.Sprintf("C15/close-does-not-return/mux-%s-after-%s-%s", side, k.Ender, tr), "Mux.Close at the %s side had not returned after %d ms", side, c15BoundMs)
		}
	}
	order := []string{"c", "s"}
	if k.ServerFirst {
		order = []string{"s", "c"}
	}
	if !k.KeepOpen {
		for _, s := range order {
			closeAll(s)
		}
	}
	for _, s := range order {
		muxClose(s)
	}
	// stage 3: nothing may stay parked
	chs, idx = nil, nil
	for i, wk := range workers {
		chs = append(chs, wk.done)
		idx = append(idx, i)
	}
	for _, j := range waitChans(chs, bound()) {
		wk := workers[idx[j]]
		o.violate(fmt.Sprintf("C15/hang/%s-%s-after-shutdown-%s", map[string]string{"R": "read", "W": "write"}[wk.what], wk.end.side, tr),
			"%s at the %s end of connection %d had not returned %d ms after both ends were closed (ender %s)", wk.what, wk.end.side, wk.end.sess, c15BoundMs, k.Ender)
	}
	calls, dls := r.snapshot()
	for _, x := range calls {
		o.hist["call_"+x.Op+"_"+x.Kind] = ""
		if (x.Op == "C" || x.Op == "M") && x.Kind == "ok" && x.Ret-x.Start > c15BoundMs {
			o.violate(fmt.Sprintf("C15/close-slow/%s-%s-%s", x.Op, x.Side, tr), "%s at the %s end took %d ms", x.Op, x.Side, x.Ret-x.Start)
		}
		if k.Kind == "stall" && k.WriteDeadline > 0 && x.Op == "W" && x.Ret-x.Start > int64(k.WriteDeadline)+c15SlackMs {
			o.violate("C15/deadline/write-not-bounded-under-back-pressure", "Write with a %d ms write deadline and a peer that stopped reading was %s after %d ms (%s)", k.WriteDeadline, x.Kind, x.Ret-x.Start, tr)
		}
	}
	c15AskHist(c, o, k, calls, dls, fault)
	o.calls, o.okCalls = len(calls), r.okCalls
	if os.Getenv("VH_DEBUG") != "" {
		fmt.Fprintf(os.Stderr, "C15 %s %s ender=%s fault=%d: %s\n", k.Kind, tr, k.Ender, fault, strings.Join(c15HistTokens(calls, dls), " "))
	}
	return o
}

// --------------------------------------------------------------------------------------------
// kind "leak": run alone; after both ends are shut down nothing of the project may be running

func c15RunLeak(c *core.Ctx, k c15Case) *c15Out {
	o := &c15Out{hist: map[string]string{}}
	before := map[string]int{}
	for _, s := range sim.GoroutineSigs() {
		before[s]++
	}
	w, err := sim.NewWorld(sim.Config{UDP: k.UDP, Seed: k.Seed, Multiplex: k.Multiplex})
	if err != nil {
		o.setupErr = err
		return o
	}
	ns := mathMax(1, k.Sessions)
	var cls, svs []net.Conn
	for i := 0; i < ns; i++ {
		cl, sv, err := w.Pair(uint32(i+1), 20*time.Second)
		if err != nil {
			o.setupErr = err
			w.Close()
			return o
		}
		cls, svs = append(cls, cl), append(svs, sv)
	}
	// a little traffic both ways
	for i := range cls {
		cls[i].Write(make([]byte, 3000))
		svs[i].Write(make([]byte, 3000))
	}
	time.Sleep(time.Duration(mathMax(50, k.TrafficMs)) * time.Millisecond)
	tr := c15Transport(k.UDP)
	if !k.KeepOpen {
		for i := range cls {
			cls[i].Close()
			svs[i].Close()
		}
	}
	timed := func(name string, f func()) {
		done := make(chan struct{})
		t0 := time.Now()
		go func() { f(); close(done) }()
		select {
		case <-done:
			if d := time.Since(t0); d > c15BoundMs*time.Millisecond {
				o.violate("C15/close-slow/"+name+"-"+tr, "%s took %v", name, d)
			}
		case <-time.After(2 * c15BoundMs * time.Millisecond):
			o.violate("C15/close-does-not-return/"+name+"-"+tr, "%s had not returned after %d ms", name, 2*c15BoundMs)
		}
	}
	closeClient := func() {
		timed("client-mux", func() { w.Client.Close() })
		if k.Ender == "client-only-linger" {
			// nothing that belongs to the closed client may keep running although the server is still up
			if left := c15WaitGone(before, 6*time.Second, "Mux.newUnderlay"); len(left) > 0 {
				o.violate("C15/leak/client-underlay-loop-after-client-close-"+tr, "%d goroutine(s) started by the client mux still run 6 s after Mux.Close returned (server still up): %s", len(left), strings.Join(left, " | "))
			}
		}
	}
	closeServer := func() {
		timed("server-mux", func() { w.Server.Close() })
		// Mux.Close waits for its maintenance loop and for the server event loops: none may be seen
		// running once it has returned
		cnt := map[string]int{}
		for _, s := range sim.GoroutineSigs() {
			cnt[s]++
			if cnt[s] > before[s] && (strings.Contains(s, "startServerUnderlayEventLoop") || strings.HasSuffix(s, "NewMux.func1") && !k.ServerFirst) {
				o.violate("C15/leak/server-loop-running-when-mux-close-returns-"+tr, "server Mux.Close returned while %s was still running", s)
			}
		}
	}
	if k.ServerFirst {
		closeServer()
		closeClient()
	} else {
		closeClient()
		closeServer()
	}
	if left := c15WaitGone(before, 8*time.Second, ""); len(left) > 0 {
		key := "C15/leak/" + tr + "-goroutine"
		for _, s := range left {
			if strings.Contains(s, "PacketUnderlay.RunEventLoop") && strings.Contains(s, "Mux.newUnderlay") {
				key = "C15/leak/udp-client-underlay-loop"
			} else if strings.Contains(s, "StreamUnderlay.RunEventLoop") && strings.Contains(s, "Mux.newUnderlay") {
				key = "C15/leak/tcp-client-underlay-loop"
			}
		}
		o.violate(key, "%d goroutine(s) with frames of the project still run 8 s after both muxes were closed: %s", len(left), strings.Join(left, " | "))
	}
	return o
}

// c15SigSummary lists the project's goroutines by signature with counts (diagnostics for hangs).
func c15SigSummary() string {
	cnt := map[string]int{}
	for _, s := range sim.GoroutineSigs() {
		cnt[s]++
	}
	var ks []string
	for s, n := range cnt {
		ks = append(ks, fmt.Sprintf("%dx %s", n, s))
	}
	sort.Strings(ks)
	out := strings.Join(ks, " | ")
	if len(out) > 3000 {
		out = out[:3000]
	}
	return out
}

// c15WaitGone polls the goroutine profile until no goroutine of the project beyond the `before`
// multiset (and matching `only`, if given) is left, or the time is up; it returns what is left.
func c15WaitGone(before map[string]int, d time.Duration, only string) []string {
	deadline := time.Now().Add(d)
	for {
		cnt := map[string]int{}
		var left []string
		for _, s := range sim.GoroutineSigs() {
			cnt[s]++
			if cnt[s] > before[s] && (only == "" || strings.Contains(s, only)) {
				left = append(left, s)
			}
		}
		if len(left) == 0 || time.Now().After(deadline) {
			return left
		}
		time.Sleep(250 * time.Millisecond)
	}
}

// --------------------------------------------------------------------------------------------
// kind "closers": n concurrent Close calls on one connection, compared with the CAS model

func c15RunClosers(c *core.Ctx, k c15Case) *c15Out {
	o := &c15Out{hist: map[string]string{}}
	w, err := sim.NewWorld(sim.Config{UDP: k.UDP, Seed: k.Seed})
	if err != nil {
		o.setupErr = err
		return o
	}
	defer bgClose.Go(w.Close)
	cl, sv, err := w.Pair(1, 20*time.Second)
	if err != nil {
		o.setupErr = err
		return o
	}
	conn, other, side := cl, sv, "c"
	if k.End == "s" {
		conn, other, side = sv, cl, "s"
	}
	r := newC15Rec()
	n := mathMax(2, k.Closers)
	// half of the closers at this end, and one at the other end at the same time
	chs := c15Closers(r, conn, side, 0, n)
	chs = append(chs, c15Closers(r, other, map[string]string{"c": "s", "s": "c"}[side], 0, 1)...)
	left := waitChans(chs, c15BoundMs*time.Millisecond)
	returned := n + 1 - len(left)
	if len(left) > 0 {
		o.violate("C15/close-does-not-return/concurrent-"+c15Transport(k.UDP), "%d of %d concurrent Close calls had not returned after %d ms", len(left), n+1, c15BoundMs)
	}
	// closed: a Read returns EOF at once, a Write fails
	conn.SetReadDeadline(time.Now().Add(5 * time.Second))
	_, rerr := conn.Read(make([]byte, 1))
	_, werr := conn.Write([]byte{1})
	if c15Kind(rerr, true) != "eof" || werr == nil {
		o.violate("C15/close/not-closed-after-close-"+c15Transport(k.UDP), "after %d concurrent Close calls returned, Read returned %v and Write returned %v", n, rerr, werr)
	}
	if c.Model != nil {
		var sched []string
		rng := rand.New(rand.NewSource(k.Seed))
		for i := 0; i < 40; i++ {
			sched = append(sched, fmt.Sprint(rng.Intn(n)))
		}
		reply := c.Model.Ask("c15-closers %d %s", n, strings.Join(sched, " "))
		c.Compared()
		want := fmt.Sprintf("ok closes=1 returned=%d requested=1", n)
		if reply != want {
			o.disagree("C15/closers-model", "model of %d concurrent closers replied %q, want %q", n, reply, want)
		} else if returned < n+1 && len(left) == 0 {
			o.disagree("C15/closers-model", "model: every closer returns; implementation: %d of %d returned", returned, n+1)
		}
	}
	calls, dls := r.snapshot()
	c15AskHist(c, o, k, calls, dls, -1)
	o.calls = len(calls)
	return o
}

// --------------------------------------------------------------------------------------------
// running, confirming, reporting

func c15RunOnce(c *core.Ctx, k c15Case) *c15Out {
	switch k.Kind {
	case "deadline":
		return c15RunDeadline(c, k)
	case "mixed", "stall":
		return c15RunMixed(c, k)
	case "leak":
		return c15RunLeak(c, k)
	case "closers":
		return c15RunClosers(c, k)
	case "api":
		return c15RunAPI(c, k)
	case "gate":
		return c15RunGate(c, k)
	}
	return &c15Out{setupErr: fmt.Errorf("unknown kind %q", k.Kind)}
}

var (
	c15ConfirmMu sync.Mutex // re-runs of suspicious cases happen one at a time
	c15Reported  = map[string]bool{}
	c15Confirms  int
	c15Skipped   int
	// the scenario stops starting new cases after this instant, so that a tree on which everything
	// hangs (each hang costs tens of seconds) still produces its concrete replays in time
	c15BudgetEnd = time.Now().Add(24 * time.Hour)
)

// per-case wall time, for the timing note of the run (and VH_DEBUG)
type c15Timing struct {
	kind string
	d    time.Duration
	desc string
}

var (
	c15TimesMu sync.Mutex
	c15Times   []c15Timing
)

// c15Check runs one case; a verdict is reported only if it reproduces in 2 of 3 re-runs.
func c15Check(c *core.Ctx, k c15Case) {
	key, _ := json.Marshal(k)
	t0 := time.Now()
	defer func() {
		c15TimesMu.Lock()
		c15Times = append(c15Times, c15Timing{k.Kind + "-" + c15Transport(k.UDP), time.Since(t0), string(key)})
		c15TimesMu.Unlock()
	}()
	if time.Now().After(c15BudgetEnd) {
		c15ConfirmMu.Lock()
		c15Skipped++
		c15ConfirmMu.Unlock()
		return
	}
	o := c15RunOnce(c, k)
	if o.setupErr != nil {
		c.Eval(string(key), false)
		c.Hist("branch", "setup-failed")
		c.Violate("C15/setup", "endpoints failed to start or to open a connection: "+o.setupErr.Error(), k)
		return
	}
	c.Eval(string(key), true)
	c.Res.TracesValidated++
	c.Hist("kind", k.Kind+"-"+c15Transport(k.UDP))
	if k.Ender != "" {
		c.Hist("ender", k.Ender)
	}
	c.Hist("sessions", fmt.Sprint(k.Sessions))
	for h := range o.hist {
		c.Hist("observed", h)
	}
	if len(o.finds) == 0 {
		return
	}
	c15ConfirmMu.Lock()
	defer c15ConfirmMu.Unlock()
	// the recorded known finding is reported as seen (it cannot fail the run); everything else in the
	// same case still goes through the re-runs
	var rest []c15Finding
	for _, f := range o.finds {
		if f.key == c15KnownHOL {
			if !c15Reported[f.key] {
				c15Reported[f.key] = true
				c.Violate(f.key, f.what, k)
			}
			continue
		}
		rest = append(rest, f)
	}
	o.finds = rest
	if len(o.finds) == 0 {
		return
	}
	// keys already reported need no second confirmation; and a tree that hangs everywhere must not
	// spend the whole budget on re-runs
	fresh := false
	for _, f := range o.finds {
		if !c15Reported[f.key] {
			fresh = true
		}
	}
	if !fresh {
		return
	}
	if c15Confirms >= 8 {
		c.Note("C15: further candidates not re-run (8 cases already confirmed): %s; case %s", o.finds[0].key, key)
		c.Res.Discarded++
		return
	}
	if time.Now().After(c15BudgetEnd) {
		c.Note("C15: candidate not re-run, the time budget of the run is used up: %s; case %s", o.finds[0].key, key)
		c.Res.Discarded++
		return
	}
	c15Confirms++
	again := map[string]int{}
	for i := 0; i < 3; i++ {
		// 2 of 3: the third re-run is needed only when the first two differ
		best := 0
		for _, f := range o.finds {
			if again[f.key] > best {
				best = again[f.key]
			}
		}
		if i == 2 && (best >= 2 || best == 0) {
			break
		}
		o2 := c15RunOnce(c, k)
		seen := map[string]bool{}
		for _, f := range o2.finds {
			if !seen[f.key] {
				seen[f.key] = true
				again[f.key]++
			}
		}
	}
	for _, f := range o.finds {
		if again[f.key] < 2 {
			c.Note("C15: %s seen once but in only %d of 3 re-runs of the same case (not reported): %s; case %s", f.key, again[f.key], f.what, key)
			c.Res.Discarded++
			continue
		}
		c15Reported[f.key] = true
		if f.disagree {
			c.Disagree(f.key, f.what, k)
		} else {
			c.Violate(f.key, f.what, k)
		}
	}
}

// c15TimingNote reports where the wall time of the run went (per kind: cases, total and slowest).
func c15TimingNote(c *core.Ctx, tRun, tBatch time.Time, dBatch time.Duration) {
	c15TimesMu.Lock()
	defer c15TimesMu.Unlock()
	type agg struct {
		n        int
		sum, max time.Duration
	}
	per := map[string]*agg{}
	for _, t := range c15Times {
		a := per[t.kind]
		if a == nil {
			a = &agg{}
			per[t.kind] = a
		}
		a.n++
		a.sum += t.d
		if t.d > a.max {
			a.max = t.d
		}
	}
	var ks []string
	for k := range per {
		ks = append(ks, k)
	}
	sort.Strings(ks)
	var parts []string
	for _, k := range ks {
		a := per[k]
		parts = append(parts, fmt.Sprintf("%s n=%d sum=%.0fs max=%.1fs", k, a.n, a.sum.Seconds(), a.max.Seconds()))
	}
	c.Note("C15 timing: serial phase (leak cases, run alone) %.0f s, parallel batch %.0f s, after the batch %.0f s; per kind: %s",
		tBatch.Sub(tRun).Seconds(), dBatch.Seconds(), time.Since(tBatch.Add(dBatch)).Seconds(), strings.Join(parts, "; "))
	if os.Getenv("VH_DEBUG") != "" {
		sort.Slice(c15Times, func(i, j int) bool { return c15Times[i].d > c15Times[j].d })
		for i, t := range c15Times {
			if i >= 25 {
				break
			}
			fmt.Fprintf(os.Stderr, "C15 slow case %.1fs %s\n", t.d.Seconds(), t.desc)
		}
	}
}

func c15LoadCorpus(c *core.Ctx) []c15Case {
	var out []c15Case
	files, _ := filepath.Glob(filepath.Join(c.Corpus, "*.json"))
	sort.Strings(files)
	for _, f := range files {
		raw, err := os.ReadFile(f)
		if err != nil {
			continue
		}
		var wrap struct {
			Input json.RawMessage `json:"input"`
		}
		var k c15Case
		if json.Unmarshal(raw, &wrap) == nil && len(wrap.Input) > 0 {
			raw = wrap.Input
		}
		if json.Unmarshal(raw, &k) == nil && k.Kind != "" {
			out = append(out, k)
		} else {
			c.Note("C15: corpus file %s not understood", filepath.Base(f))
		}
	}
	return out
}

// ---- generators

func c15GenDeadline(r *rand.Rand, thorough bool) c15Case {
	k := c15Case{Kind: "deadline", Seed: r.Int63(), UDP: r.Intn(2) == 0, Multiplex: r.Intn(3), Sessions: 1, End: []string{"c", "s"}[r.Intn(2)]}
	dl := func() int { return []int{300, 400, 600, 900}[r.Intn(4)] }
	n := 2 + r.Intn(4)
	for i := 0; i < n; i++ {
		switch r.Intn(9) {
		case 0, 1: // a deadline, then several reads: first fed, later ones starved
			k.Steps = append(k.Steps, c15Step{Op: []string{"sr", "sb"}[r.Intn(2)], D: dl()})
			for j, m := 0, 1+r.Intn(3); j < m; j++ {
				if r.Intn(2) == 0 {
					k.Steps = append(k.Steps, c15Step{Op: "pw", N: 1 + r.Intn(2000)})
				}
				k.Steps = append(k.Steps, c15Step{Op: "r", N: 1 + r.Intn(4096)})
			}
		case 2: // deadline, write, read (a client's write arms its own 10 s)
			k.Steps = append(k.Steps, c15Step{Op: "sr", D: dl()}, c15Step{Op: "w", N: 1 + r.Intn(5000)}, c15Step{Op: "r", N: 100})
		case 3: // cleared deadline: the next read parks until the peer speaks
			k.Steps = append(k.Steps, c15Step{Op: []string{"sr", "sb"}[r.Intn(2)], D: 0}, c15Step{Op: "r", N: 64, WatchMs: 800 + r.Intn(700)})
		case 4: // write deadlines: writes go through at once on an idle connection
			k.Steps = append(k.Steps, c15Step{Op: []string{"sw", "sb"}[r.Intn(2)], D: dl()}, c15Step{Op: "w", N: 1 + r.Intn(70000)}, c15Step{Op: "w", N: 1 + r.Intn(3000)})
		case 5: // a deadline that is already over
			k.Steps = append(k.Steps, c15Step{Op: "sr", D: -100}, c15Step{Op: "r", N: 10})
		case 6: // data first, deadline later
			k.Steps = append(k.Steps, c15Step{Op: "pw", N: 1 + r.Intn(3000)}, c15Step{Op: "sr", D: dl()}, c15Step{Op: "r", N: 1 + r.Intn(100)}, c15Step{Op: "r", N: 4096}, c15Step{Op: "r", N: 4096})
		case 7: // deadline changed before it fires
			k.Steps = append(k.Steps, c15Step{Op: "sr", D: 250}, c15Step{Op: "sr", D: 800}, c15Step{Op: "r", N: 16})
		case 8:
			k.Steps = append(k.Steps, c15Step{Op: "sleep", D: 100 + r.Intn(400)})
			if thorough && k.End == "c" && r.Intn(3) == 0 {
				// the implicit response timeout of a client: write, then a read with a silent server
				k.Steps = append(k.Steps, c15Step{Op: "sr", D: 0}, c15Step{Op: "w", N: 2000}, c15Step{Op: "r", N: 10, WatchMs: 11500})
			}
		}
	}
	return k
}

var c15Enders = []string{"sclose-c", "sclose-s", "cmux", "smux", "fault"}

func c15GenMixed(r *rand.Rand, thorough bool) c15Case {
	k := c15Case{Kind: "mixed", Seed: r.Int63(), UDP: r.Intn(2) == 0, Multiplex: r.Intn(4), Sessions: 1 + r.Intn(4)}
	k.Ender = c15Enders[r.Intn(len(c15Enders))]
	k.EnderSess = r.Intn(k.Sessions)
	k.Closers = 1 + r.Intn(4)
	k.TrafficMs = 100 + r.Intn(900)
	switch r.Intn(3) {
	case 0: // the ender lands in the middle of the transfer
	case 1:
		k.IdleMs = 100 + r.Intn(1200)
	case 2:
		k.IdleMs = 1 + r.Intn(50)
	}
	if thorough && r.Intn(4) == 0 {
		k.IdleMs = 5500 + r.Intn(2500) // beyond the 5 s housekeeping tick and heartbeat
	}
	k.Chunk = []int{1, 100, 1400, 4096, 40000}[r.Intn(5)]
	if r.Intn(3) == 0 {
		k.Heavy, k.Chunk = true, 65536
		if k.IdleMs > 50 {
			k.IdleMs = 0
		}
	}
	k.Deadlines = r.Intn(2) == 0
	k.ServerFirst = r.Intn(2) == 0
	return k
}

func c15GenStall(r *rand.Rand) c15Case {
	k := c15Case{Kind: "stall", Seed: r.Int63(), UDP: r.Intn(2) == 0, Multiplex: []int{0, 1, 3, 20}[r.Intn(4)], Sessions: 1 + r.Intn(3)}
	k.StallSide = []string{"c", "s"}[r.Intn(2)]
	k.Writes, k.Size = 5200+r.Intn(600), 1+r.Intn(200)
	k.Ender = c15Enders[r.Intn(len(c15Enders))]
	k.EnderSess = 0
	if r.Intn(3) == 0 {
		k.EnderSess = r.Intn(k.Sessions)
	}
	if r.Intn(4) == 0 {
		// the stalled application closes its connection: the event loop must come back
		k.Ender, k.EnderSess, k.Sessions, k.Multiplex = "sclose-"+k.StallSide, 0, 2+r.Intn(2), 20
	}
	k.Closers = 1 + r.Intn(3)
	k.TrafficMs = 6000 + r.Intn(2000)
	k.Chunk = 1400
	k.ServerFirst = r.Intn(2) == 0
	if k.UDP && r.Intn(2) == 0 {
		k.WriteDeadline = 300 + r.Intn(300)
	}
	return k
}

// c15BoundaryCases are generated on every run (quick and thorough), before the random stream: every
// boundary the property's quantifier names. Deadlines: already over, 1 ms, cleared, changed before
// firing, in force across a fed and then two starved Reads (multi-call), across a 70000-byte Write
// (many chunks) and across Write-then-Read on a client (implicit response deadline vs the user's), at
// both ends on both transports. Idle periods above the 5 s housekeeping tick before a client / server
// Mux.Close, a session Close and an underlay loss (below the tick: the random cases and the forced
// ender x transport grid). Closer counts 2 and 8.
func c15BoundaryCases(thorough bool) []c15Case {
	var out []c15Case
	seed := int64(1500)
	for _, udp := range []bool{false, true} {
		for _, end := range []string{"c", "s"} {
			seed++
			out = append(out, c15Case{Kind: "deadline", Seed: seed, UDP: udp, Sessions: 1, End: end, Steps: []c15Step{
				{Op: "sr", D: -100}, {Op: "r", N: 10}, // already over
				{Op: "sr", D: 1}, {Op: "r", N: 10}, // 1 ms
				{Op: "sr", D: 0}, {Op: "r", N: 64, WatchMs: 800}, // cleared: parks until the peer speaks
				{Op: "sr", D: 250}, {Op: "sr", D: 800}, {Op: "r", N: 16}, // changed before it fires
				{Op: "sr", D: 400}, {Op: "pw", N: 1}, {Op: "r", N: 1}, {Op: "r", N: 16}, {Op: "r", N: 16}, // multi-call: fed, starved, starved after the deadline
				{Op: "sw", D: 400}, {Op: "w", N: 70000}, {Op: "w", N: 1}, {Op: "w", N: 0}, // many chunks, one byte, nothing
				{Op: "sb", D: 300}, {Op: "pw", N: 100}, {Op: "r", N: 4096}, {Op: "w", N: 10}, {Op: "r", N: 10},
				{Op: "sr", D: 500}, {Op: "w", N: 2000}, {Op: "r", N: 100}, // a client's Write must not replace the user's deadline
				{Op: "sb", D: 0}, {Op: "w", N: 3000}, // cleared again: later calls are unbounded
			}})
		}
	}
	// the client's implicit response deadline: a Write, then a Read with a silent server and no user
	// deadline ends after 10 s (and not before, and not never)
	for _, udp := range []bool{false, true} {
		seed++
		out = append(out, c15Case{Kind: "deadline", Seed: seed, UDP: udp, Sessions: 1, End: "c", Steps: []c15Step{
			{Op: "sr", D: 0}, {Op: "w", N: 2000}, {Op: "r", N: 10, WatchMs: 11500}, {Op: "r", N: 10, WatchMs: 700}}})
	}
	idle := []struct {
		ender string
		udp   bool
	}{{"cmux", false}, {"smux", true}, {"sclose-s", false}, {"fault", true}}
	if thorough {
		idle = nil
		for _, e := range c15Enders {
			idle = append(idle, struct {
				ender string
				udp   bool
			}{e, false}, struct {
				ender string
				udp   bool
			}{e, true})
		}
	}
	for i, x := range idle {
		seed++
		out = append(out, c15Case{Kind: "mixed", Seed: seed, UDP: x.udp, Multiplex: i % 3, Sessions: 1 + i%3, Ender: x.ender, Closers: 1 + i%2,
			TrafficMs: 200, IdleMs: 5500 + 100*i, Chunk: 1400, ServerFirst: i%2 == 0})
	}
	for i, n := range []int{2, 8} {
		seed++
		out = append(out, c15Case{Kind: "closers", Seed: seed, UDP: i%2 == 0, End: []string{"c", "s"}[i%2], Closers: n, Sessions: 1})
	}
	return out
}

// c15Cost estimates the wall time of a case in seconds; the batch is dispatched longest first so that
// no long case starts when the others have finished.
func c15Cost(k c15Case) float64 {
	switch k.Kind {
	case "stall":
		if !k.UDP && k.Ender != "sclose-"+k.StallSide {
			return 30 // may reproduce the known finding: waits out the whole bound
		}
		return 10
	case "api":
		if k.Ender == "slowloris" {
			return 16
		}
		return 3
	case "mixed":
		c := float64(k.TrafficMs+k.IdleMs)/1000 + 1
		if !k.UDP {
			c += 1.2 * float64(mathMax(1, k.Sessions))
		}
		return c
	case "gate":
		if k.UDP {
			return 2
		}
		return 2 + 1.2*float64(k.Sessions)
	case "deadline":
		c := 0.5
		for _, st := range k.Steps {
			switch st.Op {
			case "r", "w":
				c += 0.3
			case "sleep":
				c += float64(st.D) / 1000
			}
			if st.WatchMs > 0 {
				c += float64(st.WatchMs) / 1000
			}
		}
		return c
	}
	return 0.5
}

func c15GenLeak(r *rand.Rand, i int) c15Case {
	k := c15Case{Kind: "leak", Seed: r.Int63(), UDP: i%2 == 0, Multiplex: r.Intn(3), Sessions: 1 + r.Intn(3)}
	k.KeepOpen = (i/2)%2 == 0
	k.ServerFirst = (i/4)%2 == 1
	k.TrafficMs = 50 + r.Intn(300)
	if !k.ServerFirst && r.Intn(2) == 0 {
		k.Ender = "client-only-linger"
	}
	return k
}

// c15Race builds the harness with the race detector and runs the mixed scenario in it (thorough).
func c15Race(c *core.Ctx) {
	harness := filepath.Join(c.WorkDir, "..", "..", "harness")
	if _, err := os.Stat(filepath.Join(harness, "main.go")); err != nil || c.WorkDir == "" {
		c.Note("C15 race variant: harness sources not found from %q; run it by hand (docs/notes/C15.md)", c.WorkDir)
		return
	}
	model := ""
	for i, a := range os.Args {
		if a == "-model" && i+1 < len(os.Args) {
			model = os.Args[i+1]
		}
	}
	bin := filepath.Join(c.WorkDir, "vh-race")
	args := []string{"build", "-race", "-tags", "verif", "-o", bin}
	if _, err := os.Stat(filepath.Join(c.WorkDir, "go.mod")); err == nil {
		args = append(args, "-modfile", filepath.Join(c.WorkDir, "go.mod"))
	}
	args = append(args, ".")
	cmd := exec.Command("go", args...)
	cmd.Dir = harness
	cmd.Env = append(os.Environ(), "CGO_ENABLED=1", "GOFLAGS=-mod=mod", "GOPROXY=off", "GOSUMDB=off", "GOTOOLCHAIN=local")
	if out, err := cmd.CombinedOutput(); err != nil {
		msg := strings.TrimSpace(string(out))
		c.Note("C15 race variant not built (%v): %s", err, msg[:minInt(300, len(msg))])
		return
	}
	out := filepath.Join(c.WorkDir, "race-result.json")
	run := exec.Command(bin, "run", "C15", "-tier", "quick", "-seed", fmt.Sprint(c.Seed), "-model", model, "-out", out, "-work", c.WorkDir, "-corpus", filepath.Join(c.WorkDir, "no-corpus"), "-repo", c.Repo)
	run.Env = append(os.Environ(), "VH_C15_RACE=1", "GORACE=halt_on_error=0 exitcode=66")
	b, err := run.CombinedOutput()
	text := string(b)
	own, foreign := c15RaceReports(text)
	if foreign > 0 {
		c.Note("C15 race variant: %d report(s) whose two accesses are both inside the in-memory network (harness/simnet Conn.closedSelf: read in Write under wmu, written in Close under in.mu) were ignored; they do not involve the project's memory", foreign)
	}
	if len(own) > 0 {
		rep := own[0]
		if len(rep) > 6000 {
			rep = rep[:6000]
		}
		c.Violate("C15/race/"+c15RaceKey(rep), fmt.Sprintf("the race detector reported %d data race(s) on the project's memory while readers, writers, deadline setters and closers used connections concurrently; the first:\n%s", len(own), rep), map[string]interface{}{"kind": "race", "seed": c.Seed, "how": "see docs/notes/C15.md, section Race variant"})
		return
	}
	if ee, ok := err.(*exec.ExitError); err != nil && !(ok && ee.ExitCode() == 66 && foreign > 0) {
		c.Note("C15 race variant exited with %v: %s", err, text[mathMax(0, len(text)-400):])
		return
	}
	var res core.Result
	if raw, err := os.ReadFile(out); err == nil && json.Unmarshal(raw, &res) == nil {
		c.Note("C15 race variant (go build -race): %d cases, %d calls traced, no data race reported, %d violations", res.Evaluations, res.TracesValidated, len(res.Violations))
		for _, v := range res.Violations {
			c.Violate(v.Key, "(race build) "+v.What, v.Replay)
		}
	}
}

// c15RaceReports splits the race detector's output into reports and keeps those in which at least
// one of the two conflicting accesses is made by code of the project (the innermost frame of the
// access is a function of github.com/enfein/mieru). Reports between two accesses of the harness's
// own network simulation are counted separately.
func c15RaceReports(text string) (own []string, foreign int) {
	for _, blk := range strings.Split(text, "==================") {
		if !strings.Contains(blk, "WARNING: DATA RACE") {
			continue
		}
		lines := strings.Split(blk, "\n")
		project := false
		for i, l := range lines {
			t := strings.TrimSpace(l)
			if (strings.HasPrefix(t, "Write at") || strings.HasPrefix(t, "Read at") || strings.HasPrefix(t, "Previous write at") || strings.HasPrefix(t, "Previous read at") ||
				strings.HasPrefix(t, "Atomic") || strings.HasPrefix(t, "Previous atomic")) && i+1 < len(lines) {
				if strings.HasPrefix(strings.TrimSpace(lines[i+1]), "github.com/enfein/mieru/") {
					project = true
				}
			}
		}
		if project {
			own = append(own, strings.TrimSpace(blk))
		} else {
			foreign++
		}
	}
	return own, foreign
}

// c15RaceKey names a race by the project function that makes the first conflicting access.
func c15RaceKey(rep string) string {
	for _, l := range strings.Split(rep, "\n") {
		l = strings.TrimSpace(l)
		if strings.HasPrefix(l, "github.com/enfein/mieru/v3/") {
			fn := strings.TrimPrefix(l, "github.com/enfein/mieru/v3/")
			if j := strings.LastIndex(fn, "("); j > 0 {
				fn = fn[:j]
			}
			return strings.NewReplacer("(", "", ")", "", "*", "").Replace(fn)
		}
	}
	return "unknown"
}

func minInt(a, b int) int {
	if a < b {
		return a
	}
	return b
}

func init() {
	core.Register("C15", &core.Scenario{
		Run: func(c *core.Ctx) {
			c.Res.Rule = "real protocol.Mux client/server over the in-memory network, TCP and UDP, multiplex factor 0..3. Kinds: deadline = random sequences of Set{,Read,Write}Deadline (future, past, cleared, changed), reads fed or starved by the peer, writes, on the client or the server end, each call's return kind and instants recorded; mixed = 1..4 connections with a reader and a writer at both ends (writes of 1..40000 bytes), optional concurrent deadline setters, ended in mid-transfer or after an idle period (below the 5 s tick in quick, also above it in thorough) by a session Close at either end issued by 1..4 concurrent callers and repeated, by client or server Mux.Close, or by abrupt underlay loss (TCP reset, UDP black hole), then full shutdown in either order with every Close timed; stall = one application stops reading while the other side writes 5200..5800 one-segment pieces so that recvQueue, recvChan and the window fill up (back-pressure, head-of-line blocking of the other connections of the underlay), optionally with a write deadline, then the same enders; closers = n concurrent Close calls on one connection plus one at the other end; leak = run alone: after both muxes are closed no goroutine with frames of the project may remain (checked for 8 s), and none of the server's loops when server Mux.Close returns. Oracles: Close returns within 15 s (measured <= 1.3 s) and may be repeated; every parked Read/Write of an affected connection returns within the bound; a deadline bounds every later call (slack 2 s); nothing is left running. Timing verdicts must reproduce in 2 of 3 re-runs. Distinct = distinct case JSON."
			c.Correspondence("c15-hist: every observed (call, return kind, instants) history of both ends vs Mieru.Blocking.acceptHist (wake events per wait site)")
			c.Correspondence("c15-deadline: observed sequential deadline histories vs Mieru.Deadline.acceptAll (the code's readDeadline/writeDeadline/respDeadline)")
			c.Correspondence("c15-closers: n concurrent Close calls vs the CAS-guarded closer model")
			race := os.Getenv("VH_C15_RACE") != ""
			tRun := time.Now()
			if c.Thorough() {
				c15BudgetEnd = time.Now().Add(45 * time.Minute)
			} else {
				c15BudgetEnd = time.Now().Add(6 * time.Minute)
			}
			var cases []c15Case
			if !race {
				// corpus first: its leak cases alone (nothing else may be alive in this process), the
				// others at the head of the parallel batch
				for _, k := range c15LoadCorpus(c) {
					if k.Kind == "leak" {
						c15Check(c, k)
					} else {
						cases = append(cases, k)
					}
				}
				bgClose.Wait(30 * time.Second)
				nl := c.N(2, 16)
				for i := 0; i < nl; i++ {
					k := c15GenLeak(c.Rand, i)
					if i == 0 {
						c.Sample(k)
					}
					c15Check(c, k)
				}
			}
			if !race {
				// the boundaries the quantifier names: on every run, before the random stream
				for _, k := range c15BoundaryCases(c.Thorough()) {
					c.Hist("boundary", k.Kind+"-"+c15Transport(k.UDP)+"-"+k.End+k.Ender)
					cases = append(cases, k)
				}
				// every place where an event loop arms a read timeout, raced deterministically with Close
				for _, k := range c15GateCases() {
					c.Hist("boundary", fmt.Sprintf("gate-%s-%s-%s-%d", k.Ender, k.End, c15Transport(k.UDP), k.Sessions))
					cases = append(cases, k)
				}
			}
			ncorpus := len(cases)
			nd, nm, nst, ncl := c.N(20, 240), c.N(20, 200), c.N(6, 48), c.N(4, 40)
			if race {
				nd, nm, nst, ncl = 4, 10, 2, 4
			}
			for i := 0; i < nd; i++ {
				cases = append(cases, c15GenDeadline(c.Rand, c.Thorough()))
			}
			for i := 0; i < nm; i++ {
				k := c15GenMixed(c.Rand, c.Thorough())
				if i < 2*len(c15Enders) {
					// every ender on both transports on every run; connection counts 1 and 4 (the extremes) alternate
					k.Ender, k.UDP = c15Enders[i%len(c15Enders)], i >= len(c15Enders)
					if i%2 == 0 {
						k.Sessions = []int{1, 4}[(i/2)%2]
						k.EnderSess %= k.Sessions
					}
				}
				cases = append(cases, k)
			}
			for i := 0; i < nst; i++ {
				k := c15GenStall(c.Rand)
				if i < 4 {
					// both transports x both sides stalled on every run
					k.UDP, k.StallSide = i%2 == 1, []string{"c", "s"}[i/2]
					if strings.HasPrefix(k.Ender, "sclose-") && k.EnderSess == 0 && k.Multiplex == 20 && k.Sessions >= 2 {
						k.Ender = "sclose-" + k.StallSide // keep the "stalled application closes its own connection" variant consistent
					}
					if !k.UDP {
						k.WriteDeadline = 0
					}
				}
				cases = append(cases, k)
			}
			for i := 0; i < ncl; i++ {
				cases = append(cases, c15Case{Kind: "closers", Seed: c.Rand.Int63(), UDP: i%2 == 0, End: []string{"c", "s"}[c.Rand.Intn(2)], Closers: 2 + c.Rand.Intn(7), Sessions: 1})
			}
			if !race {
				for i, na := 0, c.N(4, 24); i < na; i++ {
					// transport x handshake mode (standard / no-wait) grid on every run
					k := c15Case{Kind: "api", Seed: c.Rand.Int63(), UDP: i%2 == 1, Multiplex: (i / 2) % 2, Sessions: 1, ServerFirst: c.Rand.Intn(2) == 0, TrafficMs: 50 + c.Rand.Intn(400)}
					if c.Thorough() && i%6 == 0 {
						k.Ender = "slowloris"
					}
					cases = append(cases, k)
				}
			}
			c.Sample(cases[ncorpus])
			c.Sample(cases[ncorpus+nd])
			c.Sample(cases[ncorpus+nd+nm])
			// dispatch longest first (the cases themselves were generated above, in a fixed order)
			sort.SliceStable(cases, func(i, j int) bool { return c15Cost(cases[i]) > c15Cost(cases[j]) })
			workers := 8
			if race {
				workers = 4
			}
			tBatch := time.Now()
			core.Parallel(len(cases), workers, func(i int) { c15Check(c, cases[i]) })
			dBatch := time.Since(tBatch)
			bgClose.Wait(60 * time.Second)
			c15TimingNote(c, tRun, tBatch, dBatch)
			if c15Skipped > 0 {
				c.Note("C15: %d generated cases were not run: the time budget of the run was used up by cases that hang", c15Skipped)
				c.Res.Discarded += c15Skipped
			}
			if !race {
				// everything this run started is shut down: nothing of the project may be left
				if left := c15WaitGone(map[string]int{}, 10*time.Second, ""); len(left) > 0 {
					c.Violate("C15/leak/after-all-cases", fmt.Sprintf("%d goroutine(s) with frames of the project still run 10 s after every endpoint of the run was closed: %s", len(left), strings.Join(left, " | ")), map[string]interface{}{"kind": "all", "seed": c.Seed})
				}
				if c.Thorough() {
					c15Race(c)
				} else {
					c.Note("C15: the race-detector variant runs in the thorough tier (or by hand, see docs/notes/C15.md)")
				}
			}
		},
		Replay: func(c *core.Ctx, raw json.RawMessage) {
			var k c15Case
			if json.Unmarshal(raw, &k) == nil && k.Kind != "" {
				c15Check(c, k)
				bgClose.Wait(60 * time.Second)
			}
		},
	})
}
