package props

import (
	"bytes"
	"crypto/hmac"
	"crypto/sha256"
	"encoding/binary"
	"encoding/json"
	"fmt"
	"math/big"
	"math/bits"
	"math/rand"
	"strings"
	"time"

	apicommon "github.com/enfein/mieru/v3/apis/common"
	"github.com/enfein/mieru/v3/pkg/cipher"
	"github.com/enfein/mieru/v3/pkg/protocol"
	"golang.org/x/crypto/chacha20"
	"golang.org/x/crypto/chacha20poly1305"
	"golang.org/x/crypto/pbkdf2"
	"golang.org/x/crypto/poly1305"
	"verifharness/core"
)

// C09 — what goes on the wire is exactly the documented protocol.
//
// The Lean reference codec (Mieru.Model.Spec / SpecCrypto, written only from docs/protocol.md, run
// through the driver's spec-* ops) is the "independent implementation" of the property. This
// scenario (codec level):
//   0. validates the executable cryptography the reference needs (trusted base): crypto-selftest and
//      differential tests against Go's standard library / x/crypto;
//   1. key derivation, user hint, metadata layouts, field offsets, nonce increment: real functions vs
//      the reference, triangulated with a few-line Go transcription of the document so that a
//      mismatch is attributed (code deviates from the document = violation; reference deviates =
//      disagreement);
//   2. real -> reference: the REAL StreamUnderlay.writeOneSegment / PacketUnderlay.writeOneSegment
//      (client-mode underlays over in-memory connections) emit segments of every kind; the reference
//      decoder, given only (username, password, clock), must return exactly the fields and payloads
//      that were written — for the stream under arbitrary re-chunking;
//   3. reference -> real: segments sealed by the reference (any padding 0..255, any valid
//      mask/rotation/mode, maximal payloads) are read by the REAL readOneSegment of both underlays,
//      which must return exactly the reference's fields and payloads;
//   4. UDP-associate encapsulation: apis/common.PacketOverStreamTunnel vs the reference.

type c09Seg struct {
	Layout      string `json:"layout"` // s | d | l
	Proto       int    `json:"proto"`
	SID         uint32 `json:"sid"`
	Seq         uint32 `json:"seq"`
	UnAck       uint32 `json:"unack,omitempty"`
	Status      int    `json:"status,omitempty"`
	Window      int    `json:"window,omitempty"`
	Frag        int    `json:"frag,omitempty"`
	Mode        int    `json:"mode,omitempty"`
	Rot         int    `json:"rot,omitempty"`
	Mask        uint32 `json:"mask,omitempty"`
	PayloadLen  int    `json:"payload_len"`
	PayloadSeed int64  `json:"payload_seed"`
	Pad1        int    `json:"pad1,omitempty"`
	Pad2        int    `json:"pad2,omitempty"`
	LEPad       int    `json:"le_pad,omitempty"`
}

type c09Case struct {
	Kind      string   `json:"kind"`
	User      string   `json:"user,omitempty"`
	Pass      string   `json:"pass,omitempty"`
	UnixNs    int64    `json:"unix_ns,omitempty"`
	Key       string   `json:"key,omitempty"`
	Nonce     string   `json:"nonce,omitempty"`
	Data      string   `json:"data,omitempty"`
	Aad       string   `json:"aad,omitempty"`
	Iter      int      `json:"iter,omitempty"`
	Len       int      `json:"len,omitempty"`
	Ctr       uint32   `json:"ctr,omitempty"`
	Tamper    int      `json:"tamper,omitempty"`
	Fields    []uint32 `json:"fields,omitempty"`
	Layout    string   `json:"layout,omitempty"`
	TsDelta   int      `json:"ts_delta,omitempty"`
	Segs      []c09Seg `json:"segs,omitempty"`
	ChunkSeed int64    `json:"chunk_seed,omitempty"`
	SkewSlots int      `json:"skew_slots,omitempty"`
	Sizes     []int    `json:"sizes,omitempty"`
}

func seededBytes(seed int64, n int) []byte {
	b := make([]byte, n)
	rand.New(rand.NewSource(seed)).Read(b)
	return b
}

func c09Trunc(s string) string {
	if len(s) > 160 {
		return s[:160] + "…"
	}
	return s
}

// ---------------------------------------------------------------------------------------------
// 0. cryptography (trusted base of the reference codec)

func c09Crypto(c *core.Ctx, k c09Case) {
	key, nonce, data, aad := core.UnHex(k.Key), core.UnHex(k.Nonce), core.UnHex(k.Data), core.UnHex(k.Aad)
	var want, got string
	switch k.Kind {
	case "crypto-sha256":
		h := sha256.Sum256(data)
		want = "ok " + core.Hex(h[:])
		got = c.Model.Ask("crypto-sha256 %s", core.Hex(data))
	case "crypto-hmac":
		m := hmac.New(sha256.New, key)
		m.Write(data)
		want = "ok " + core.Hex(m.Sum(nil))
		got = c.Model.Ask("crypto-hmac %s %s", core.Hex(key), core.Hex(data))
	case "crypto-pbkdf2":
		want = "ok " + core.Hex(pbkdf2.Key(key, data, k.Iter, k.Len, sha256.New))
		got = c.Model.Ask("crypto-pbkdf2 %s %s %d %d", core.Hex(key), core.Hex(data), k.Iter, k.Len)
	case "crypto-hchacha20":
		o, err := chacha20.HChaCha20(key, nonce)
		if err != nil {
			return
		}
		want = "ok " + core.Hex(o)
		got = c.Model.Ask("crypto-hchacha20 %s %s", core.Hex(key), core.Hex(nonce))
	case "crypto-chacha20":
		s, err := chacha20.NewUnauthenticatedCipher(key, nonce)
		if err != nil {
			return
		}
		s.SetCounter(k.Ctr)
		// stay below the 32-bit block counter overflow, which x/crypto treats as a panic
		if uint64(k.Ctr)+uint64(len(data)+63)/64 > 1<<32 {
			return
		}
		o := make([]byte, len(data))
		s.XORKeyStream(o, data)
		want = "ok " + core.Hex(o)
		got = c.Model.Ask("crypto-chacha20 %s %s %d %s", core.Hex(key), core.Hex(nonce), k.Ctr, core.Hex(data))
	case "crypto-poly1305":
		var pk [32]byte
		copy(pk[:], key)
		var tag [16]byte
		poly1305.Sum(&tag, data, &pk)
		want = "ok " + core.Hex(tag[:])
		got = c.Model.Ask("crypto-poly1305 %s %s", core.Hex(key), core.Hex(data))
	case "crypto-xaead":
		a, err := chacha20poly1305.NewX(key)
		if err != nil {
			return
		}
		sealed := a.Seal(nil, nonce, data, aad)
		want = "ok " + core.Hex(sealed)
		got = c.Model.Ask("crypto-xseal %s %s %s %s", core.Hex(key), core.Hex(nonce), core.Hex(data), core.Hex(aad))
		if got == want {
			// open in the other direction, then a tampered copy (ciphertext, tag, nonce or key)
			if o := c.Model.Ask("crypto-xopen %s %s %s %s", core.Hex(key), core.Hex(nonce), core.Hex(sealed), core.Hex(aad)); o != "ok "+core.Hex(data) {
				c.Disagree("C09/crypto/xopen", "reference does not open what x/crypto sealed: "+c09Trunc(o), k)
			}
			t := append([]byte(nil), sealed...)
			kk, nn := append([]byte(nil), key...), append([]byte(nil), nonce...)
			switch k.Tamper % 4 {
			case 0:
				t[(k.Tamper/4)%len(t)] ^= 1 << uint(k.Tamper%8)
			case 1:
				t[len(t)-1-(k.Tamper/4)%16] ^= 0x80
			case 2:
				nn[(k.Tamper/4)%24] ^= 1
			case 3:
				kk[(k.Tamper/4)%32] ^= 1
			}
			_, err := func() ([]byte, error) {
				a2, _ := chacha20poly1305.NewX(kk)
				return a2.Open(nil, nn, t, aad)
			}()
			o := c.Model.Ask("crypto-xopen %s %s %s %s", core.Hex(kk), core.Hex(nn), core.Hex(t), core.Hex(aad))
			if (err == nil) != strings.HasPrefix(o, "ok") {
				c.Disagree("C09/crypto/xopen-tampered", fmt.Sprintf("tampered input: x/crypto err=%v reference %s", err, c09Trunc(o)), k)
			}
		}
	default:
		return
	}
	c.Eval(k.Kind+"/"+k.Key+"/"+k.Nonce+"/"+k.Data, true)
	c.Compared()
	c.Hist("crypto", k.Kind)
	c.Hist("crypto_size", core.SizeBucket(len(data)))
	if got != want {
		c.Disagree("C09/crypto/"+strings.TrimPrefix(k.Kind, "crypto-"), fmt.Sprintf("reference %s, Go %s", c09Trunc(got), c09Trunc(want)), k)
	}
}

// ---------------------------------------------------------------------------------------------
// 1. key derivation, hint, metadata, nonce increment

// docKeys is the document's key derivation transcribed in Go (used only to attribute a mismatch).
func docKeys(user, pass []byte, unix int64) (hp []byte, keys [][]byte) {
	h := sha256.Sum256(append(append(append([]byte{}, pass...), 0), user...))
	hp = h[:]
	// round to the nearest 2 minutes (ties up); floor division
	q := unix + 60
	r := q / 120
	if q%120 != 0 && q < 0 {
		r--
	}
	rounded := r * 120
	for _, d := range []int64{-120, 0, 120} {
		var b [8]byte
		binary.BigEndian.PutUint64(b[:], uint64(rounded+d))
		salt := sha256.Sum256(b[:])
		keys = append(keys, pbkdf2.Key(hp, salt[:], 64, 32, sha256.New))
	}
	return
}

func c09Keys(c *core.Ctx, k c09Case) {
	user, pass := core.UnHex(k.User), core.UnHex(k.Pass)
	t := time.Unix(0, k.UnixNs)
	if k.Kind == "keys-sec" {
		t = time.Unix(k.UnixNs, 0)
	}
	realHP := cipher.HashPassword(append([]byte{}, pass...), append([]byte{}, user...))
	realKeys, err := cipher.VerifKeysAt(realHP, t)
	c.Eval(fmt.Sprintf("keys/%s/%s/%d/%s", k.User, k.Pass, k.UnixNs, k.Kind), err == nil)
	if err != nil {
		c.Violate("C09/keys/derivation-error", fmt.Sprintf("VerifKeysAt failed: %v", err), k)
		return
	}
	docHP, dk := docKeys(user, pass, t.Unix())
	specHP := c.Model.Ask("spec-hashpw %s %s", core.Hex(user), core.Hex(pass))
	specKeys := c.Model.Ask("spec-keys %s %s %d", core.Hex(user), core.Hex(pass), t.Unix())
	c.Compared()
	realS := fmt.Sprintf("ok %s %s %s", core.Hex(realKeys[0]), core.Hex(realKeys[1]), core.Hex(realKeys[2]))
	docS := fmt.Sprintf("ok %s %s %s", core.Hex(dk[0]), core.Hex(dk[1]), core.Hex(dk[2]))
	if specHP != "ok "+core.Hex(realHP) {
		if !bytes.Equal(docHP, realHP) {
			c.Violate("C09/keys/hashed-password", "HashPassword is not SHA-256(password || 0x00 || username)", k)
		} else {
			c.Disagree("C09/corr/spec-hashpw", "reference hashedPassword differs from the document transcription: "+specHP, k)
		}
	}
	if specKeys != realS {
		if docS != realS {
			c.Violate("C09/keys/derived-keys", fmt.Sprintf("keys derived by the code for unix=%d differ from PBKDF2(hashedPassword, SHA256(be64(round2min ± 120)), 64, 32): an independent implementation cannot decrypt", t.Unix()), k)
		} else {
			c.Disagree("C09/corr/spec-keys", "reference keys differ from the document transcription: "+c09Trunc(specKeys), k)
		}
	}
	// salts, as a finer-grained observation
	salts := cipher.VerifSaltFromTime(t)
	sm := c.Model.Ask("spec-salt %d", t.Unix())
	if f := strings.Fields(sm); len(f) == 3 && len(salts) == 3 {
		if f[2] != core.Hex(salts[1]) {
			c.Violate("C09/keys/time-salt", fmt.Sprintf("time salt for unix=%d is not SHA256(be64(%s))", t.Unix(), f[1]), k)
		}
	}
}

func c09Hint(c *core.Ctx, k c09Case) {
	user, nonce := core.UnHex(k.User), core.UnHex(k.Nonce)
	c.Eval("hint/"+k.User+"/"+k.Nonce, true)
	real := cipher.VerifAddUserHint(string(user), nonce)
	h := sha256.Sum256(append(append([]byte{}, user...), nonce[:16]...))
	doc := append(append([]byte{}, nonce[:len(nonce)-4]...), h[:4]...)
	spec := c.Model.Ask("spec-hint %s %s", core.Hex(user), core.Hex(nonce))
	c.Compared()
	if spec != "ok "+core.Hex(real) {
		if !bytes.Equal(doc, real) {
			c.Violate("C09/hint/construction", "user hint is not the first 4 bytes of SHA-256(username || nonce[:16]) in the last 4 nonce bytes", k)
		} else {
			c.Disagree("C09/corr/spec-hint", "reference hint differs from the document transcription: "+spec, k)
		}
		return
	}
	// each side recognises the other's hint
	if !cipher.CheckUserFromHint(user, core.UnHex(strings.TrimPrefix(spec, "ok "))) {
		c.Violate("C09/hint/check", "CheckUserFromHint rejects a hint built per the document", k)
	}
	if m := c.Model.Ask("spec-hint-check %s %s", core.Hex(user), core.Hex(real)); m != "ok true" {
		c.Disagree("C09/corr/spec-hint-check", "reference rejects the code's hint: "+m, k)
	}
	other := append([]byte{}, user...)
	other[0] ^= 1
	if cipher.CheckUserFromHint(other, real) != (c.Model.Ask("spec-hint-check %s %s", core.Hex(other), core.Hex(real)) == "ok true") {
		c.Disagree("C09/corr/spec-hint-check-other", "hint check for a different user differs", k)
	}
}

// metadata field order of c09Case.Fields, per layout:
//
//	s: proto ts sid seq status plen slen
//	d: proto ts sid seq unack win frag pre plen slen
//	l: proto mode ts sid seq unack win frag pre plen slen mask elen rot
func metaSpecOf(layout string, f []uint32) string {
	s := make([]string, len(f))
	for i, v := range f {
		s[i] = fmt.Sprint(v)
	}
	return layout + "/" + strings.Join(s, "/")
}

func sessionOf(f []uint32) protocol.VerifSession {
	return protocol.VerifSession{Protocol: uint8(f[0]), Timestamp: f[1], SessionID: f[2], Seq: f[3], StatusCode: uint8(f[4]), PayloadLen: uint16(f[5]), SuffixLen: uint8(f[6])}
}

func sessionFields(v protocol.VerifSession) []uint32 {
	return []uint32{uint32(v.Protocol), v.Timestamp, v.SessionID, v.Seq, uint32(v.StatusCode), uint32(v.PayloadLen), uint32(v.SuffixLen)}
}

func dataOf(f []uint32) protocol.VerifDataAck {
	return protocol.VerifDataAck{Protocol: uint8(f[0]), Timestamp: f[1], SessionID: f[2], Seq: f[3], UnAckSeq: f[4], WindowSize: uint16(f[5]), Fragment: uint8(f[6]), PrefixLen: uint8(f[7]), PayloadLen: uint16(f[8]), SuffixLen: uint8(f[9])}
}

func leOf(f []uint32) protocol.VerifDataAck {
	return protocol.VerifDataAck{Protocol: uint8(f[0]), LowEntropyMode: uint8(f[1]), Timestamp: f[2], SessionID: f[3], Seq: f[4], UnAckSeq: f[5], WindowSize: uint16(f[6]), Fragment: uint8(f[7]), PrefixLen: uint8(f[8]), PayloadLen: uint16(f[9]), SuffixLen: uint8(f[10]), LowEntropyMask: f[11], ExtractedPayloadLen: uint16(f[12]), LowEntropyMaskRotation: uint8(f[13])}
}

func dataAckFields(v protocol.VerifDataAck) (string, []uint32) {
	if v.Protocol == 10 || v.Protocol == 11 {
		return "l", []uint32{uint32(v.Protocol), uint32(v.LowEntropyMode), v.Timestamp, v.SessionID, v.Seq, v.UnAckSeq, uint32(v.WindowSize), uint32(v.Fragment), uint32(v.PrefixLen), uint32(v.PayloadLen), uint32(v.SuffixLen), v.LowEntropyMask, uint32(v.ExtractedPayloadLen), uint32(v.LowEntropyMaskRotation)}
	}
	return "d", []uint32{uint32(v.Protocol), v.Timestamp, v.SessionID, v.Seq, v.UnAckSeq, uint32(v.WindowSize), uint32(v.Fragment), uint32(v.PrefixLen), uint32(v.PayloadLen), uint32(v.SuffixLen)}
}

func tsIndex(layout string) int {
	if layout == "l" {
		return 2
	}
	return 1
}

// docMeta: the document's tables transcribed as (offset,width) per field, in Fields order.
var docMeta = map[string][][2]int{
	"s": {{0, 1}, {2, 4}, {6, 4}, {10, 4}, {14, 1}, {15, 2}, {17, 1}},
	"d": {{0, 1}, {2, 4}, {6, 4}, {10, 4}, {14, 4}, {18, 2}, {20, 1}, {21, 1}, {22, 2}, {24, 1}},
	"l": {{0, 1}, {1, 1}, {2, 4}, {6, 4}, {10, 4}, {14, 4}, {18, 2}, {20, 1}, {21, 1}, {22, 2}, {24, 1}, {25, 4}, {29, 2}, {31, 1}},
}

func docMetaEncode(layout string, f []uint32) []byte {
	b := make([]byte, 32)
	for i, ow := range docMeta[layout] {
		v := f[i]
		for j := ow[1] - 1; j >= 0; j-- {
			b[ow[0]+j] = byte(v)
			v >>= 8
		}
	}
	return b
}

func realMarshal(layout string, f []uint32) ([]byte, uint32) {
	switch layout {
	case "s":
		return protocol.VerifMarshalSession(sessionOf(f))
	case "d":
		return protocol.VerifMarshalDataAck(dataOf(f))
	default:
		return protocol.VerifMarshalDataAck(leOf(f))
	}
}

func realUnmarshal(layout string, b []byte) (string, []uint32, error) {
	if layout == "s" {
		v, err := protocol.VerifUnmarshalSession(b)
		if err != nil {
			return "", nil, err
		}
		return "s", sessionFields(v), nil
	}
	v, err := protocol.VerifUnmarshalDataAck(b)
	if err != nil {
		return "", nil, err
	}
	l, f := dataAckFields(v)
	return l, f, nil
}

func nowMinute() (uint32, bool) {
	// stable = not within 2 s of a minute tick (the code reads its own clock a little later).
	// Rather than skipping the comparison, wait for the tick to pass (at most ~5 s per run).
	for i := 0; i < 80; i++ {
		t := time.Now()
		if s := t.Unix() % 60; s >= 2 && s <= 57 {
			return uint32(t.Unix() / 60), true
		}
		time.Sleep(100 * time.Millisecond)
	}
	return uint32(time.Now().Unix() / 60), false
}

func c09Meta(c *core.Ctx, k c09Case) {
	f := append([]uint32(nil), k.Fields...)
	ti := tsIndex(k.Layout)
	c.Hist("meta", k.Kind+"/"+k.Layout)
	switch k.Kind {
	case "meta-marshal":
		// real Marshal (stamps its own minute) vs reference encoder given the same timestamp
		b, stamp := realMarshal(k.Layout, f)
		f[ti] = stamp
		c.Eval("meta-marshal/"+metaSpecOf(k.Layout, k.Fields), true)
		spec := c.Model.Ask("spec-meta-enc %s", metaSpecOf(k.Layout, f))
		c.Compared()
		if spec != "ok "+core.Hex(b) {
			if !bytes.Equal(docMetaEncode(k.Layout, f), b) {
				c.Violate("C09/meta/marshal/layout="+k.Layout, fmt.Sprintf("Marshal output %s differs from the documented layout %s", core.Hex(b), core.Hex(docMetaEncode(k.Layout, f))), k)
			} else {
				c.Disagree("C09/corr/spec-meta-enc", "reference encoding differs from the document transcription: "+spec, k)
			}
			return
		}
		// the reference decoder reads the code's bytes back to the same fields
		dec := c.Model.Ask("spec-meta-dec %s", core.Hex(b))
		if !strings.HasPrefix(dec, "ok "+metaSpecOf(k.Layout, f)+" ") {
			c.Violate("C09/meta/real-to-spec/layout="+k.Layout, fmt.Sprintf("reference decodes the code's metadata as %s, sent %s", dec, metaSpecOf(k.Layout, f)), k)
		}
		if now, stable := nowMinute(); stable && stamp != now {
			c.Violate("C09/meta/timestamp-not-minutes", fmt.Sprintf("stamped timestamp %d, minutes since epoch %d", stamp, now), k)
		}
	case "meta-unmarshal":
		// reference encoder (timestamp = now + delta minutes) vs real Unmarshal
		now, stable := nowMinute()
		if !stable && k.TsDelta != 0 {
			c.Res.Discarded++
			return
		}
		f[ti] = uint32(int64(now) + int64(k.TsDelta))
		spec := c.Model.Ask("spec-meta-enc %s", metaSpecOf(k.Layout, f))
		if !strings.HasPrefix(spec, "ok ") {
			c.Disagree("C09/corr/spec-meta-enc-range", "reference refuses in-range fields: "+spec, k)
			return
		}
		b := core.UnHex(strings.TrimPrefix(spec, "ok "))
		dec := c.Model.Ask("spec-meta-dec %s", core.Hex(b))
		specValid := strings.HasSuffix(dec, "valid=true")
		l, rf, err := realUnmarshal(k.Layout, b)
		c.Eval("meta-unmarshal/"+metaSpecOf(k.Layout, k.Fields), err == nil)
		c.Compared()
		if specValid {
			c.Hist("meta_valid", "valid")
			if err != nil {
				c.Violate("C09/meta/spec-to-real/rejected/layout="+k.Layout, fmt.Sprintf("Unmarshal rejects well-formed metadata %s built per the document: %v", metaSpecOf(k.Layout, f), err), k)
			} else if metaSpecOf(l, rf) != metaSpecOf(k.Layout, f) {
				c.Violate("C09/meta/spec-to-real/fields/layout="+k.Layout, fmt.Sprintf("Unmarshal understood %s, reference sent %s", metaSpecOf(l, rf), metaSpecOf(k.Layout, f)), k)
			}
		} else {
			c.Hist("meta_valid", "invalid")
			if err == nil {
				// not an interoperability failure (the document calls these invalid; the code is more liberal)
				c.Disagree("C09/corr/meta-valid", fmt.Sprintf("the code accepts metadata the reference calls invalid: %s", metaSpecOf(k.Layout, f)), k)
			}
		}
	}
}

func c09Offsets(c *core.Ctx) {
	// reference table
	rep := c.Model.Ask("spec-offsets")
	table := map[string]map[string][2]int{}
	for _, part := range strings.Fields(strings.TrimPrefix(rep, "ok ")) {
		lf := strings.SplitN(part, ":", 2)
		if len(lf) != 2 {
			continue
		}
		table[lf[0]] = map[string][2]int{}
		for _, e := range strings.Split(lf[1], ",") {
			var name string
			var o, w int
			e = strings.NewReplacer("@", " ", "+", " ").Replace(e)
			fmt.Sscan(e, &name, &o, &w)
			table[lf[0]][name] = [2]int{o, w}
		}
	}
	names := map[string][]string{
		"s": {"protocol", "timestamp", "sessionID", "seq", "status", "payloadLen", "suffixLen"},
		"d": {"protocol", "timestamp", "sessionID", "seq", "unAckSeq", "windowSize", "fragment", "prefixLen", "payloadLen", "suffixLen"},
		"l": {"protocol", "mode", "timestamp", "sessionID", "seq", "unAckSeq", "windowSize", "fragment", "prefixLen", "payloadLen", "suffixLen", "mask", "extractedLen", "rotation"},
	}
	long := map[string]string{"s": "session", "d": "data", "l": "le"}
	protoOf := map[string]uint32{"s": 2, "d": 6, "l": 10}
	for _, layout := range []string{"s", "d", "l"} {
		base := make([]uint32, len(names[layout]))
		base[0] = protoOf[layout]
		b0, _ := realMarshal(layout, base)
		for i, name := range names[layout] {
			if i == 0 || name == "timestamp" {
				continue // the type byte selects the layout; the timestamp is stamped by Marshal itself
			}
			f := append([]uint32(nil), base...)
			f[i] = 0xffffffff
			b1, _ := realMarshal(layout, f)
			lo, hi := -1, -1
			for j := range b0 {
				if j >= 2 && j < 6 {
					continue
				}
				if b0[j] != b1[j] {
					if lo < 0 {
						lo = j
					}
					hi = j
				}
			}
			c.Eval("offsets/"+layout+"/"+name, true)
			c.Compared()
			want := table[long[layout]][name]
			doc := docMeta[layout][i]
			if lo != want[0] || hi-lo+1 != want[1] {
				if lo != doc[0] || hi-lo+1 != doc[1] {
					c.Violate(fmt.Sprintf("C09/meta/offset/%s.%s", long[layout], name), fmt.Sprintf("Marshal writes field %s at bytes [%d,%d], document says offset %d width %d", name, lo, hi, doc[0], doc[1]), c09Case{Kind: "offsets"})
				} else {
					c.Disagree("C09/corr/spec-offsets", fmt.Sprintf("reference table has %s.%s at %v, code and document at [%d,%d]", layout, name, want, lo, hi), c09Case{Kind: "offsets"})
				}
			}
		}
		// timestamp and type byte positions
		b, stamp := realMarshal(layout, base)
		if binary.BigEndian.Uint32(b[2:6]) != stamp || b[0] != byte(protoOf[layout]) {
			c.Violate(fmt.Sprintf("C09/meta/offset/%s.header", long[layout]), "type byte / big-endian timestamp not at bytes 0 and 2..5", c09Case{Kind: "offsets"})
		}
	}
}

func c09Incr(c *core.Ctx, k c09Case) {
	n := core.UnHex(k.Nonce)
	c.Eval("incr/"+k.Nonce, true)
	real := cipher.VerifIncreaseNonce(n)
	x := new(big.Int).SetBytes(n)
	x.Add(x, big.NewInt(1))
	x.Mod(x, new(big.Int).Lsh(big.NewInt(1), uint(8*len(n))))
	doc := x.FillBytes(make([]byte, len(n)))
	spec := c.Model.Ask("spec-incr %s", core.Hex(n))
	c.Compared()
	if spec != "ok "+core.Hex(real) {
		if !bytes.Equal(doc, real) {
			c.Violate("C09/nonce/increment", fmt.Sprintf("increaseNonce(%s) = %s, big-endian +1 is %s", k.Nonce, core.Hex(real), core.Hex(doc)), k)
		} else {
			c.Disagree("C09/corr/spec-incr", "reference increment differs from big-endian +1: "+spec, k)
		}
	}
	if m := c.Model.Ask("c09-incr-go %s", core.Hex(n)); m != "ok "+core.Hex(real) {
		c.Disagree("C09/corr/incr-go-model", fmt.Sprintf("model of increaseNonce gives %s, code %s", m, core.Hex(real)), k)
	}
}

// ---------------------------------------------------------------------------------------------
// 2./3. segments

func segToken(v protocol.VerifSegment) string {
	var ms string
	if v.Session != nil {
		ms = metaSpecOf("s", sessionFields(*v.Session))
	} else if v.DataAck != nil {
		l, f := dataAckFields(*v.DataAck)
		ms = metaSpecOf(l, f)
	}
	return ms + ":" + core.Hex(v.Payload)
}

func leEncodedLen(n, mode int) int {
	C := []int{0, 4, 5, 6, 7}[mode]
	return (n + C - 1) / C * 8
}

// toVerifSegment builds what the session layer hands to writeOneSegment.
func (s c09Seg) toVerifSegment() protocol.VerifSegment {
	payload := seededBytes(s.PayloadSeed, s.PayloadLen)
	switch s.Layout {
	case "s":
		return protocol.VerifSegment{Session: &protocol.VerifSession{Protocol: uint8(s.Proto), SessionID: s.SID, Seq: s.Seq, StatusCode: uint8(s.Status), PayloadLen: uint16(s.PayloadLen)}, Payload: payload}
	case "d":
		return protocol.VerifSegment{DataAck: &protocol.VerifDataAck{Protocol: uint8(s.Proto), SessionID: s.SID, Seq: s.Seq, UnAckSeq: s.UnAck, WindowSize: uint16(s.Window), Fragment: uint8(s.Frag), PayloadLen: uint16(s.PayloadLen)}, Payload: payload}
	default:
		return protocol.VerifSegment{DataAck: &protocol.VerifDataAck{Protocol: uint8(s.Proto), LowEntropyMode: uint8(s.Mode), SessionID: s.SID, Seq: s.Seq, UnAckSeq: s.UnAck, WindowSize: uint16(s.Window), Fragment: uint8(s.Frag),
			PayloadLen: uint16(leEncodedLen(s.PayloadLen, s.Mode)), ExtractedPayloadLen: uint16(s.PayloadLen), LowEntropyMaskRotation: uint8(s.Rot)}, Payload: payload}
	}
}

// specMeta is the metaspec the reference encoder is given (explicit paddings and timestamp).
func (s c09Seg) specMeta(ts uint32) string {
	switch s.Layout {
	case "s":
		return metaSpecOf("s", []uint32{uint32(s.Proto), ts, s.SID, s.Seq, uint32(s.Status), uint32(s.PayloadLen), uint32(s.Pad2)})
	case "d":
		return metaSpecOf("d", []uint32{uint32(s.Proto), ts, s.SID, s.Seq, s.UnAck, uint32(s.Window), uint32(s.Frag), uint32(s.Pad1), uint32(s.PayloadLen), uint32(s.Pad2)})
	default:
		el := 0
		if s.PayloadLen > 0 {
			el = leEncodedLen(s.PayloadLen, s.Mode)
		}
		return metaSpecOf("l", []uint32{uint32(s.Proto), uint32(s.Mode), ts, s.SID, s.Seq, s.UnAck, uint32(s.Window), uint32(s.Frag), uint32(s.Pad1), uint32(el), uint32(s.Pad2), s.Mask, uint32(s.PayloadLen), uint32(s.Rot)})
	}
}

type c09Cred struct {
	user, pass, hp []byte
}

func credOf(k c09Case) c09Cred {
	user, pass := core.UnHex(k.User), core.UnHex(k.Pass)
	return c09Cred{user, pass, cipher.HashPassword(append([]byte{}, pass...), append([]byte{}, user...))}
}

func (cr c09Cred) block(now time.Time, stateless bool) (cipher.BlockCipher, error) {
	blocks, err := cipher.VerifBlockCipherListAt(cr.hp, now, stateless)
	if err != nil {
		return nil, err
	}
	b := blocks[1]
	b.SetBlockContext(cipher.BlockContext{UserName: string(cr.user)})
	return b, nil
}

func c09SegHist(c *core.Ctx, dir string, s c09Seg) {
	c.Hist("segment_kind", fmt.Sprintf("%s/%s/proto=%d", dir, s.Layout, s.Proto))
	c.Hist("payload_size", core.SizeBucket(s.PayloadLen))
	if s.Layout == "l" {
		c.Hist("le_mode", fmt.Sprint(s.Mode))
	}
}

// real writer -> reference decoder, TCP stream
func c09StreamR2S(c *core.Ctx, k c09Case) {
	cr := credOf(k)
	now := time.Now()
	block, err := cr.block(now, false)
	if err != nil {
		c.Violate("C09/stream/cipher-setup", err.Error(), k)
		return
	}
	conn := &memConn{}
	end := protocol.VerifNewStreamEnd(conn, block, 1400, nil)
	var want []string
	for _, s := range k.Segs {
		c09SegHist(c, "stream-r2s", s)
		sent, err := end.WriteSegment(s.toVerifSegment())
		if err != nil {
			c.Violate("C09/stream/real-write-failed", fmt.Sprintf("writeOneSegment(%+v): %v", s, err), k)
			return
		}
		want = append(want, segToken(sent))
	}
	wire := conn.Bytes()
	c.Eval(fmt.Sprintf("stream-r2s/%v/%d", k.Segs, k.ChunkSeed), true)
	// the receiver's clock may sit in a neighbouring slot: keys for now + skew*120 s
	keys := c.Model.Ask("spec-keys %s %s %d", k.User, k.Pass, now.Unix()+int64(120*k.SkewSlots))
	if !strings.HasPrefix(keys, "ok ") {
		c.Disagree("C09/corr/spec-keys", keys, k)
		return
	}
	h := strings.TrimPrefix(c.Model.Ask("spec-tcp-new %s", strings.TrimPrefix(keys, "ok ")), "ok ")
	defer c.Model.Ask("spec-tcp-free %s", h)
	rng := rand.New(rand.NewSource(k.ChunkSeed))
	var got []string
	dead := ""
	for off := 0; off < len(wire); {
		n := 1 + rng.Intn(97)
		switch rng.Intn(6) {
		case 0:
			n = 1
		case 1:
			n = 1 + rng.Intn(4000)
		case 2:
			n = len(wire)
		}
		if off+n > len(wire) {
			n = len(wire) - off
		}
		r := c.Model.Ask("spec-tcp-feed %s %s", h, core.Hex(wire[off:off+n]))
		off += n
		f := strings.Fields(r)
		if len(f) < 2 || f[0] != "ok" {
			dead = r
			break
		}
		for _, t := range f[2:] {
			if strings.HasPrefix(t, "dead=") {
				dead = t
			} else {
				got = append(got, t)
			}
		}
		if dead != "" {
			break
		}
	}
	c.Compared()
	c.Res.TracesValidated++
	info := c.Model.Ask("spec-tcp-info %s", h)
	if dead != "" || len(got) != len(want) {
		c.Violate("C09/stream/real-to-spec/undecodable", fmt.Sprintf("the reference decoder (credentials + clock only) decoded %d of %d emitted segments: %s; %s", len(got), len(want), dead, info), k)
		return
	}
	for i := range want {
		if got[i] != want[i] {
			c.Violate("C09/stream/real-to-spec/fields", fmt.Sprintf("segment %d: reference decoded %s, code sent %s", i, c09Trunc(got[i]), c09Trunc(want[i])), k)
			return
		}
	}
	if !strings.Contains(info, fmt.Sprintf("key=%d ", 1-k.SkewSlots)) || !strings.Contains(info, "buffered=0 ") {
		c.Violate("C09/stream/real-to-spec/state", fmt.Sprintf("after the stream: %s (expected key index %d, nothing buffered)", info, 1-k.SkewSlots), k)
	}
	if len(wire) >= 24 {
		if m := c.Model.Ask("spec-hint-check %s %s", k.User, core.Hex(wire[:24])); m != "ok true" {
			c.Violate("C09/stream/hint", "the stream's nonce does not carry the documented user hint", k)
		}
	}
	// the timestamps the code stamped are minutes since the epoch
	if nm, stable := nowMinute(); stable {
		for _, t := range got {
			f := strings.Split(strings.SplitN(t, ":", 2)[0], "/")
			ti := 2
			if f[0] == "l" {
				ti = 3
			}
			if f[ti] != fmt.Sprint(nm) {
				c.Violate("C09/meta/timestamp-not-minutes", fmt.Sprintf("stamped %s, minutes since epoch %d", f[ti], nm), k)
			}
		}
	}
}

// reference encoder -> real reader, TCP stream
func c09StreamS2R(c *core.Ctx, k c09Case) {
	cr := credOf(k)
	now := time.Now()
	block, err := cr.block(now, false)
	if err != nil {
		c.Violate("C09/stream/cipher-setup", err.Error(), k)
		return
	}
	keys := strings.Fields(c.Model.Ask("spec-keys %s %s %d", k.User, k.Pass, now.Unix()))
	if len(keys) != 4 {
		c.Disagree("C09/corr/spec-keys", strings.Join(keys, " "), k)
		return
	}
	nonce := c.Model.Ask("spec-hint %s %s", k.User, k.Nonce)
	sender := strings.TrimPrefix(c.Model.Ask("spec-tcp-sender %s %s", keys[2], strings.TrimPrefix(nonce, "ok ")), "ok ")
	ts := uint32(now.Unix() / 60)
	conn := &memConn{}
	var want []string
	for _, s := range k.Segs {
		c09SegHist(c, "stream-s2r", s)
		payload := seededBytes(s.PayloadSeed, s.PayloadLen)
		r := c.Model.Ask("spec-tcp-seal %s %s %s %s %s %d", sender, s.specMeta(ts), core.Hex(payload), core.Hex(seededBytes(s.PayloadSeed+1, s.Pad1)), core.Hex(seededBytes(s.PayloadSeed+2, s.Pad2)), s.LEPad)
		if !strings.HasPrefix(r, "ok ") {
			c.Disagree("C09/corr/spec-tcp-seal", fmt.Sprintf("reference encoder refused %s: %s", s.specMeta(ts), r), k)
			return
		}
		conn.Write(core.UnHex(strings.TrimPrefix(r, "ok ")))
		want = append(want, s.specMeta(ts)+":"+core.Hex(payload))
	}
	c.Eval(fmt.Sprintf("stream-s2r/%v", k.Segs), true)
	end := protocol.VerifNewStreamEnd(conn, block, 1400, nil)
	for i := range want {
		got, err := end.ReadSegment()
		c.Compared()
		if err != nil {
			c.Violate("C09/stream/spec-to-real/rejected", fmt.Sprintf("readOneSegment rejects segment %d (%s) produced per the document: %v", i, strings.SplitN(want[i], ":", 2)[0], err), k)
			return
		}
		if segToken(got) != want[i] {
			c.Violate("C09/stream/spec-to-real/fields", fmt.Sprintf("segment %d: code understood %s, reference sent %s", i, c09Trunc(segToken(got)), c09Trunc(want[i])), k)
			return
		}
	}
	c.Res.TracesValidated++
	if rest := conn.Bytes(); len(rest) != 0 {
		c.Violate("C09/stream/spec-to-real/leftover", fmt.Sprintf("%d bytes left unread after the last segment", len(rest)), k)
	}
}

// real writer -> reference decoder, UDP datagrams
func c09PacketR2S(c *core.Ctx, k c09Case) {
	cr := credOf(k)
	now := time.Now()
	block, err := cr.block(now, true)
	if err != nil {
		c.Violate("C09/packet/cipher-setup", err.Error(), k)
		return
	}
	pc := &memPacketConn{Peer: memAddr("server")}
	end := protocol.VerifNewPacketEnd(pc, memAddr("server"), block, 1400, nil)
	keys := c.Model.Ask("spec-keys %s %s %d", k.User, k.Pass, now.Unix()+int64(120*k.SkewSlots))
	if !strings.HasPrefix(keys, "ok ") {
		c.Disagree("C09/corr/spec-keys", keys, k)
		return
	}
	for i, s := range k.Segs {
		c09SegHist(c, "packet-r2s", s)
		sent, err := end.WriteSegment(s.toVerifSegment())
		if err != nil {
			c.Violate("C09/packet/real-write-failed", fmt.Sprintf("writeOneSegment(%+v): %v", s, err), k)
			return
		}
		if len(pc.Queue) != 1 {
			c.Violate("C09/packet/one-datagram-per-segment", fmt.Sprintf("segment %d produced %d datagrams", i, len(pc.Queue)), k)
			return
		}
		d := pc.Queue[0]
		pc.Queue = nil
		c.Eval(fmt.Sprintf("packet-r2s/%+v", s), true)
		got := c.Model.Ask("spec-udp-open %s %s", core.Hex(d), strings.TrimPrefix(keys, "ok "))
		c.Compared()
		want := fmt.Sprintf("ok %d %s", 1-k.SkewSlots, segToken(sent))
		if got != want {
			key := "C09/packet/real-to-spec/fields"
			if strings.HasPrefix(got, "err") {
				key = "C09/packet/real-to-spec/undecodable/" + strings.TrimPrefix(got, "err ")
			}
			c.Violate(key, fmt.Sprintf("datagram %d: reference (credentials + clock only) gives %s, code sent %s", i, c09Trunc(got), c09Trunc(want)), k)
			return
		}
		if m := c.Model.Ask("spec-hint-check %s %s", k.User, core.Hex(d[:24])); m != "ok true" {
			c.Violate("C09/packet/hint", "the datagram's nonce does not carry the documented user hint", k)
		}
	}
	c.Res.TracesValidated++
}

// reference encoder -> real reader, UDP datagrams
func c09PacketS2R(c *core.Ctx, k c09Case) {
	cr := credOf(k)
	now := time.Now()
	block, err := cr.block(now, true)
	if err != nil {
		c.Violate("C09/packet/cipher-setup", err.Error(), k)
		return
	}
	keys := strings.Fields(c.Model.Ask("spec-keys %s %s %d", k.User, k.Pass, now.Unix()))
	if len(keys) != 4 {
		c.Disagree("C09/corr/spec-keys", strings.Join(keys, " "), k)
		return
	}
	ts := uint32(now.Unix() / 60)
	pc := &memPacketConn{Peer: memAddr("server")}
	end := protocol.VerifNewPacketEnd(pc, memAddr("server"), block, 1400, nil)
	for i, s := range k.Segs {
		c09SegHist(c, "packet-s2r", s)
		payload := seededBytes(s.PayloadSeed, s.PayloadLen)
		nonce := strings.TrimPrefix(c.Model.Ask("spec-hint %s %s", k.User, core.Hex(seededBytes(s.PayloadSeed+3, 24))), "ok ")
		r := c.Model.Ask("spec-udp-seal %s %s %s %s %s %s %d", keys[2], nonce, s.specMeta(ts), core.Hex(payload), core.Hex(seededBytes(s.PayloadSeed+1, s.Pad1)), core.Hex(seededBytes(s.PayloadSeed+2, s.Pad2)), s.LEPad)
		if !strings.HasPrefix(r, "ok ") {
			c.Disagree("C09/corr/spec-udp-seal", fmt.Sprintf("reference encoder refused %s: %s", s.specMeta(ts), r), k)
			return
		}
		d := core.UnHex(strings.TrimPrefix(r, "ok "))
		c.Hist("datagram_size", fmt.Sprint(len(d)/250*250))
		pc.Queue = [][]byte{d}
		c.Eval(fmt.Sprintf("packet-s2r/%+v", s), true)
		got, err := end.ReadSegment()
		c.Compared()
		want := s.specMeta(ts) + ":" + core.Hex(payload)
		if err != nil {
			c.Violate("C09/packet/spec-to-real/rejected", fmt.Sprintf("readOneSegment drops datagram %d (%s, %d bytes) produced per the document: %v", i, s.specMeta(ts), len(d), err), k)
			return
		}
		if segToken(got) != want {
			c.Violate("C09/packet/spec-to-real/fields", fmt.Sprintf("datagram %d: code understood %s, reference sent %s", i, c09Trunc(segToken(got)), c09Trunc(want)), k)
			return
		}
	}
	c.Res.TracesValidated++
}

// cipher level, arbitrary instants: the real stateful (implicit nonce) cipher of the slot of an
// arbitrary instant seals a sequence of messages; the reference opens message i with nonce0 + i
// and the key it derives for that instant — and the other way round.
func c09CipherSeq(c *core.Ctx, k c09Case) {
	cr := credOf(k)
	t := time.Unix(0, k.UnixNs)
	blocks, err := cipher.VerifBlockCipherListAt(cr.hp, t, false)
	if err != nil {
		c.Violate("C09/cipher/setup", err.Error(), k)
		return
	}
	enc := blocks[1]
	enc.SetBlockContext(cipher.BlockContext{UserName: string(cr.user)})
	keys := strings.Fields(c.Model.Ask("spec-keys %s %s %d", k.User, k.Pass, t.Unix()))
	if len(keys) != 4 {
		c.Disagree("C09/corr/spec-keys", strings.Join(keys, " "), k)
		return
	}
	c.Eval(fmt.Sprintf("cipher-seq/%s/%s/%d/%v", k.User, k.Pass, k.UnixNs, k.Sizes), true)
	var nonce0 []byte
	for i, n := range k.Sizes {
		pt := seededBytes(k.ChunkSeed+int64(i), n)
		dst := make([]byte, 0, n+40)
		if err := enc.Encrypt(dst, pt); err != nil {
			c.Violate("C09/cipher/encrypt-error", err.Error(), k)
			return
		}
		out := dst[:cap(dst)]
		if i == 0 {
			out = out[:24+n+16]
			nonce0 = append([]byte(nil), out[:24]...)
			out = out[24:]
			if m := c.Model.Ask("spec-hint-check %s %s", k.User, core.Hex(nonce0)); m != "ok true" {
				c.Violate("C09/cipher/hint", "the first nonce of a stateful cipher does not carry the documented user hint", k)
			}
		} else {
			out = out[:n+16]
		}
		ni := strings.TrimPrefix(c.Model.Ask("spec-nth-nonce %s %d", core.Hex(nonce0), i), "ok ")
		got := c.Model.Ask("crypto-xopen %s %s %s -", keys[2], ni, core.Hex(out))
		c.Compared()
		if got != "ok "+core.Hex(pt) {
			c.Violate("C09/cipher/real-to-spec", fmt.Sprintf("encryption %d of a stateful cipher (instant %d ns) does not open under (key of the slot, nonce0 + %d): %s", i, k.UnixNs, i, c09Trunc(got)), k)
			return
		}
	}
	// reference -> real stateful decryption
	dec := blocks[1].Clone()
	dec.SetImplicitNonceMode(false)
	dec.SetImplicitNonceMode(true)
	n0 := core.UnHex(k.Nonce)
	for i, n := range k.Sizes {
		pt := seededBytes(k.ChunkSeed+100+int64(i), n)
		ni := strings.TrimPrefix(c.Model.Ask("spec-nth-nonce %s %d", core.Hex(n0), i), "ok ")
		ct := core.UnHex(strings.TrimPrefix(c.Model.Ask("crypto-xseal %s %s %s -", keys[2], ni, core.Hex(pt)), "ok "))
		if i == 0 {
			ct = append(append([]byte(nil), n0...), ct...)
		}
		got, err := dec.Decrypt(ct)
		c.Compared()
		if err != nil || !bytes.Equal(got, pt) {
			c.Violate("C09/cipher/spec-to-real", fmt.Sprintf("message %d sealed per the document (instant %d ns, nonce0 + %d) is not decrypted by the stateful cipher: %v", i, k.UnixNs, i, err), k)
			return
		}
	}
}

// ---------------------------------------------------------------------------------------------
// 4. UDP associate encapsulation

func c09Assoc(c *core.Ctx, k c09Case) {
	// real writer -> reference
	conn := &memConn{}
	tun := apicommon.NewPacketOverStreamTunnel(conn)
	var pkts [][]byte
	for i, n := range k.Sizes {
		p := seededBytes(k.ChunkSeed+int64(i), n)
		pkts = append(pkts, p)
		if _, err := tun.Write(p); err != nil {
			c.Violate("C09/assoc/real-write-failed", err.Error(), k)
			return
		}
	}
	c.Eval(fmt.Sprintf("assoc/%v/%d", k.Sizes, k.ChunkSeed), true)
	wire := conn.Bytes()
	var want []string
	for _, p := range pkts {
		want = append(want, core.Hex(p))
	}
	r := c.Model.Ask("spec-assoc-unwrap %s", core.Hex(wire))
	c.Compared()
	exp := fmt.Sprintf("ok %d", len(pkts))
	if len(pkts) > 0 {
		exp += " " + strings.Join(want, " ")
	}
	exp += " rest=-"
	if r != exp {
		c.Violate("C09/assoc/real-to-spec", fmt.Sprintf("reference unwraps %s, code wrapped %d packets %v", c09Trunc(r), len(pkts), k.Sizes), k)
		return
	}
	// reference -> real reader
	conn2 := &memConn{}
	for _, p := range pkts {
		w := c.Model.Ask("spec-assoc-wrap %s", core.Hex(p))
		conn2.Write(core.UnHex(strings.TrimPrefix(w, "ok ")))
	}
	tun2 := apicommon.NewPacketOverStreamTunnel(conn2)
	buf := make([]byte, 65536)
	for i, p := range pkts {
		n, err := tun2.Read(buf)
		c.Compared()
		if err != nil || !bytes.Equal(buf[:n], p) {
			c.Violate("C09/assoc/spec-to-real", fmt.Sprintf("packet %d (%d bytes): code read %d bytes, err=%v", i, len(p), n, err), k)
			return
		}
	}
}

// ---------------------------------------------------------------------------------------------

func c09Run(c *core.Ctx, k c09Case) {
	switch {
	case strings.HasPrefix(k.Kind, "crypto-"):
		c09Crypto(c, k)
	case k.Kind == "keys" || k.Kind == "keys-sec":
		c09Keys(c, k)
	case k.Kind == "hint":
		c09Hint(c, k)
	case strings.HasPrefix(k.Kind, "meta-"):
		c09Meta(c, k)
	case k.Kind == "offsets":
		c09Offsets(c)
	case k.Kind == "incr":
		c09Incr(c, k)
	case k.Kind == "stream-r2s":
		c09StreamR2S(c, k)
	case k.Kind == "stream-s2r":
		c09StreamS2R(c, k)
	case k.Kind == "packet-r2s":
		c09PacketR2S(c, k)
	case k.Kind == "packet-s2r":
		c09PacketS2R(c, k)
	case k.Kind == "assoc":
		c09Assoc(c, k)
	case k.Kind == "cipher-seq":
		c09CipherSeq(c, k)
	}
}

func c09RandCred(c *core.Ctx) (string, string) {
	ul := 1 + c.Rand.Intn(20)
	switch c.Rand.Intn(8) {
	case 0:
		ul = 1
	case 1:
		ul = 64 // constant.MaxUserNameLen
	}
	user := make([]byte, ul)
	for i := range user {
		user[i] = "abcdefghijklmnopqrstuvwxyzABCDEFGHIJKLMNOPQRSTUVWXYZ0123456789_-."[c.Rand.Intn(65)]
	}
	if c.Rand.Intn(6) == 0 {
		c.Rand.Read(user) // arbitrary bytes (non-UTF-8 included)
		for i := range user {
			if user[i] == 0 {
				user[i] = 1
			}
		}
	}
	pass := make([]byte, 1+c.Rand.Intn(40))
	c.Rand.Read(pass)
	return core.Hex(user), core.Hex(pass)
}

func c09RandLE(c *core.Ctx, s *c09Seg) {
	s.Mode = 1 + c.Rand.Intn(4)
	rots := validRotations()
	s.Rot = rots[c.Rand.Intn(len(rots))]
	s.Mask = randHalfMask(c, leOnes[s.Mode])
	s.LEPad = c.Rand.Intn(2)
}

// a program of segments as a session would emit them; sizes bounded by what one datagram /
// one stream segment may carry
func c09RandSegs(c *core.Ctx, packet, explicitPads bool) []c09Seg {
	client := c.Rand.Intn(2) == 0
	sid := c.Rand.Uint32()
	var segs []c09Seg
	n := 1 + c.Rand.Intn(6)
	seq := uint32(0)
	if c.Rand.Intn(4) == 0 {
		seq = c.Rand.Uint32()
	}
	maxData := 32768
	if packet {
		maxData = 1400 - 88 // maxFragmentSize for MTU 1400 over IPv4 is smaller still; the reader only needs <= 1500
	}
	for i := 0; i < n; i++ {
		s := c09Seg{SID: sid, Seq: seq, PayloadSeed: c.Rand.Int63()}
		seq++
		r := c.Rand.Intn(10)
		switch {
		case i == 0 && r < 7: // open session request / response with piggybacked payload 0..1024
			s.Layout, s.Proto = "s", 3
			if client {
				s.Proto = 2
			}
			s.PayloadLen = []int{0, 1, 1023, 1024, c.Rand.Intn(1025), c.Rand.Intn(200)}[c.Rand.Intn(6)]
			s.Status = c.Rand.Intn(2)
		case i == n-1 && r < 4: // close
			s.Layout, s.Proto = "s", 4+c.Rand.Intn(2)
			s.Status = c.Rand.Intn(2)
		case r < 2: // ack
			s.Layout, s.Proto = "d", 9
			if client {
				s.Proto = 8
			}
			s.UnAck, s.Window = c.Rand.Uint32(), c.Rand.Intn(65536)
		case r < 6: // data
			s.Layout, s.Proto = "d", 7
			if client {
				s.Proto = 6
			}
			s.UnAck, s.Window, s.Frag = c.Rand.Uint32(), c.Rand.Intn(65536), c.Rand.Intn(256)
			s.PayloadLen = []int{1, 2, 15, 16, 17, 1 + c.Rand.Intn(300), 1 + c.Rand.Intn(maxData), maxData}[c.Rand.Intn(8)]
		default: // low-entropy data
			s.Layout, s.Proto = "l", 11
			if client {
				s.Proto = 10
			}
			s.UnAck, s.Window, s.Frag = c.Rand.Uint32(), c.Rand.Intn(65536), c.Rand.Intn(256)
			c09RandLE(c, &s)
			C := leC[s.Mode]
			maxLE := 8191 * C
			if maxLE > 32768 {
				maxLE = 32768
			}
			if packet {
				maxLE = (1400 - 88) / 8 * C
			}
			s.PayloadLen = []int{1, C - 1, C, C + 1, 1 + c.Rand.Intn(200), 1 + c.Rand.Intn(maxLE), maxLE}[c.Rand.Intn(7)]
			if !c.Thorough() && !packet && s.PayloadLen > 4000 && c.Rand.Intn(4) != 0 {
				s.PayloadLen = 1 + c.Rand.Intn(4000) // the bit-by-bit reference codec is slow on 32 KiB bodies
			}
		}
		if explicitPads {
			s.Pad2 = []int{0, 1, 255, c.Rand.Intn(256)}[c.Rand.Intn(4)]
			if s.Layout != "s" {
				s.Pad1 = []int{0, 1, 255, c.Rand.Intn(256)}[c.Rand.Intn(4)]
			}
			if packet {
				// keep the datagram within the reader's 1500-byte buffer
				wire := s.PayloadLen
				if s.Layout == "l" {
					wire = leEncodedLen(s.PayloadLen, s.Mode)
				}
				for 88+wire+s.Pad1+s.Pad2 > 1500 {
					if s.Pad1 > 0 {
						s.Pad1--
					} else if s.Pad2 > 0 {
						s.Pad2--
					} else {
						break
					}
				}
			}
		}
		segs = append(segs, s)
	}
	return segs
}

func c09Boundaries() []int64 {
	// instants (ns) on and around slot / minute boundaries
	var r []int64
	base := int64(1_700_000_040) // a multiple of 120
	for _, m := range []int64{0, 60, 120, 180} {
		for _, d := range []int64{0, 1, -1, 1e9, -1e9, 59e9, 60e9, 61e9, -59e9, -61e9, 500e6, -500e6} {
			r = append(r, (base+m)*1e9+d)
		}
	}
	return append(r, 0, 1, 59_999_999_999, 60_000_000_000, 60_000_000_001, 119_999_999_999, 120_000_000_000, -1, -60_000_000_000, -60_000_000_001, 4102444800e9, 1<<62)
}

func init() {
	core.Register("C09", &core.Scenario{
		Run: func(c *core.Ctx) {
			c.Res.Rule = "per kind: crypto differential (random key/nonce/message of boundary sizes vs Go stdlib / x/crypto); keys (random user/password x instants incl. slot boundaries) and hint; metadata of all three layouts (random in-range fields incl. 0 and max; valid and invalid low-entropy tuples) through the real Marshal/Unmarshal; probed field offsets; nonce increments incl. carries; programs of 1..6 segments (open with payload 0..1024, data, ack, low-entropy data of every mode / rotation / polarity, close) written by the real underlay writers and decoded by the reference under random re-chunking and slot skew, and sealed by the reference with paddings 0..255 and read by the real underlay readers; UDP-associate frames. Distinct = distinct canonical case; every counted case is non-trivial (reaches a successful encode/decode)."
			c.Correspondence("crypto-*: Mieru.Crypto vs crypto/sha256, crypto/hmac, x/crypto pbkdf2, chacha20, poly1305, chacha20poly1305")
			c.Correspondence("spec-hashpw/spec-keys/spec-salt/spec-hint: pkg/cipher HashPassword, newBlockCipherList, saltFromTime, addUserHintToNonce, CheckUserFromHint vs Mieru.Model.SpecCrypto")
			c.Correspondence("spec-meta-enc/dec, spec-offsets: pkg/protocol sessionStruct/dataAckStruct Marshal/Unmarshal vs Mieru.Spec.Meta")
			c.Correspondence("spec-incr, c09-incr-go: pkg/cipher increaseNonce vs Mieru.Spec.incr / incrGo")
			c.Correspondence("crypto-xopen/xseal + spec-nth-nonce + spec-keys: aeadBlockCipher.Encrypt/Decrypt in implicit-nonce mode at arbitrary instants vs the reference")
			c.Correspondence("spec-tcp-feed/spec-tcp-seal: StreamUnderlay.writeOneSegment/readOneSegment vs Mieru.Spec.feed/tcpSeal")
			c.Correspondence("spec-udp-open/spec-udp-seal: PacketUnderlay.writeOneSegment/readOneSegment vs Mieru.Spec.udpOpen/udpSeal")
			c.Correspondence("spec-assoc-wrap/unwrap: apis/common.PacketOverStreamTunnel vs Mieru.Spec.assocWrap/assocUnwrap")

			// corpus first
			runCorpus(c, func(raw json.RawMessage) {
				var k c09Case
				if json.Unmarshal(raw, &k) == nil {
					c09Run(c, k)
				}
			})

			// 0. crypto
			if st := c.Model.Ask("crypto-selftest"); !strings.HasPrefix(st, "ok ") {
				c.Disagree("C09/crypto/selftest", "RFC/NIST vectors fail in the executable crypto: "+st, c09Case{Kind: "crypto-selftest"})
			}
			sizes := []int{0, 1, 15, 16, 17, 31, 32, 33, 54, 55, 56, 57, 63, 64, 65, 119, 120, 127, 128, 129, 255, 256, 1000, 4096}
			rb := func(n int) string { b := make([]byte, n); c.Rand.Read(b); return core.Hex(b) }
			for i := 0; i < c.N(100, 1000); i++ {
				n := sizes[c.Rand.Intn(len(sizes))]
				if c.Rand.Intn(3) == 0 {
					n = c.Rand.Intn(3000)
				}
				if c.Thorough() && i%100 == 0 {
					n = 32768 + c.Rand.Intn(3)
				}
				kl := []int{0, 1, 20, 32, 63, 64, 65, 131}[c.Rand.Intn(8)]
				c09Run(c, c09Case{Kind: "crypto-sha256", Data: rb(n)})
				c09Run(c, c09Case{Kind: "crypto-hmac", Key: rb(kl), Data: rb(n)})
				c09Run(c, c09Case{Kind: "crypto-poly1305", Key: rb(32), Data: rb(n)})
				c09Run(c, c09Case{Kind: "crypto-hchacha20", Key: rb(32), Nonce: rb(16)})
				ctr := []uint32{0, 1, 0xfffffff0, c.Rand.Uint32()}[c.Rand.Intn(4)]
				if uint64(ctr)+uint64(n+63)/64 > 1<<32 {
					ctr = 1
				}
				c09Run(c, c09Case{Kind: "crypto-chacha20", Key: rb(32), Nonce: rb(12), Ctr: ctr, Data: rb(n)})
				c09Run(c, c09Case{Kind: "crypto-xaead", Key: rb(32), Nonce: rb(24), Data: rb(n), Aad: rb([]int{0, 0, 0, 12, 16, 17}[c.Rand.Intn(6)]), Tamper: c.Rand.Intn(1 << 20)})
				if i%4 == 0 {
					c09Run(c, c09Case{Kind: "crypto-pbkdf2", Key: rb(1 + kl), Data: rb([]int{0, 8, 32, 51, 52, 60}[c.Rand.Intn(6)]), Iter: []int{1, 2, 64, 100}[c.Rand.Intn(4)], Len: []int{1, 16, 32, 33, 64, 80}[c.Rand.Intn(6)]})
				}
			}

			// 1. keys, hint, metadata, offsets, nonce increment
			bounds := c09Boundaries()
			for i := 0; i < c.N(120, 1500); i++ {
				u, p := c09RandCred(c)
				var ns int64
				switch c.Rand.Intn(3) {
				case 0:
					ns = bounds[c.Rand.Intn(len(bounds))]
				case 1:
					ns = time.Now().UnixNano() + c.Rand.Int63n(86400e9)
				default:
					ns = c.Rand.Int63n(4e18)
				}
				k := c09Case{Kind: "keys", User: u, Pass: p, UnixNs: ns}
				if i == 0 {
					c.Sample(k)
				}
				c09Run(c, k)
			}
			for _, ns := range bounds {
				u, p := c09RandCred(c)
				c09Run(c, c09Case{Kind: "keys", User: u, Pass: p, UnixNs: ns})
			}
			for i := 0; i < c.N(100, 1000); i++ {
				u, _ := c09RandCred(c)
				c09Run(c, c09Case{Kind: "hint", User: u, Nonce: rb(24)})
			}
			c09Run(c, c09Case{Kind: "offsets"})
			lim := map[string][]uint64{
				"s": {0, 1 << 32, 1 << 32, 1 << 32, 256, 1 << 16, 256},
				"d": {0, 1 << 32, 1 << 32, 1 << 32, 1 << 32, 1 << 16, 256, 256, 1 << 16, 256},
				"l": {0, 256, 1 << 32, 1 << 32, 1 << 32, 1 << 32, 1 << 16, 256, 256, 1 << 16, 256, 1 << 32, 1 << 16, 256},
			}
			protos := map[string][]uint32{"s": {2, 3, 4, 5}, "d": {6, 7, 8, 9}, "l": {10, 11}}
			for i := 0; i < c.N(300, 4000); i++ {
				layout := []string{"s", "d", "l"}[c.Rand.Intn(3)]
				f := make([]uint32, len(lim[layout]))
				for j, m := range lim[layout] {
					if m == 0 {
						continue
					}
					switch c.Rand.Intn(4) {
					case 0:
						f[j] = 0
					case 1:
						f[j] = uint32(m - 1)
					default:
						f[j] = uint32(c.Rand.Int63n(int64(m)))
					}
				}
				f[0] = protos[layout][c.Rand.Intn(len(protos[layout]))]
				kind := []string{"meta-marshal", "meta-unmarshal"}[c.Rand.Intn(2)]
				if layout == "s" && c.Rand.Intn(3) != 0 {
					f[5] = uint32(c.Rand.Intn(1025)) // mostly valid session payload lengths
				}
				if layout == "l" && c.Rand.Intn(4) != 0 {
					// mostly valid low-entropy tuples
					s := c09Seg{}
					c09RandLE(c, &s)
					el := c.Rand.Intn(8191*leC[s.Mode] + 1)
					if el > 32768 {
						el = 32768
					}
					f[1], f[11], f[13], f[12] = uint32(s.Mode), s.Mask, uint32(s.Rot), uint32(el)
					f[9] = 0
					if el > 0 {
						f[9] = uint32(leEncodedLen(el, s.Mode))
					}
				}
				k := c09Case{Kind: kind, Layout: layout, Fields: f, TsDelta: []int{0, 0, 1, -1}[c.Rand.Intn(4)]}
				if i < 2 {
					c.Sample(k)
				}
				c09Run(c, k)
			}
			for i := 0; i < c.N(100, 1000); i++ {
				n := make([]byte, 24)
				c.Rand.Read(n)
				switch c.Rand.Intn(5) {
				case 0:
					for j := 24 - 1 - c.Rand.Intn(24); j < 24; j++ {
						n[j] = 0xff
					}
				case 1:
					for j := range n {
						n[j] = 0xff
					}
				case 2:
					n[23] = 0xff
				}
				c09Run(c, c09Case{Kind: "incr", Nonce: core.Hex(n)})
			}

			// 2./3. segments through the real underlay writers / readers
			nseg := c.N(240, 3000)
			for i := 0; i < nseg; i++ {
				u, p := c09RandCred(c)
				kinds := []string{"stream-r2s", "stream-s2r", "packet-r2s", "packet-s2r"}
				kind := kinds[i%4]
				packet := strings.HasPrefix(kind, "packet")
				k := c09Case{Kind: kind, User: u, Pass: p, Segs: c09RandSegs(c, packet, strings.HasSuffix(kind, "s2r")), ChunkSeed: c.Rand.Int63(), Nonce: rb(24)}
				if strings.HasSuffix(kind, "r2s") {
					k.SkewSlots = []int{0, 0, 1, -1}[c.Rand.Intn(4)]
				}
				if i < 4 {
					c.Sample(k)
				}
				c09Run(c, k)
			}
			// maximal sizes once per run
			u, p := c09RandCred(c)
			c09Run(c, c09Case{Kind: "stream-s2r", User: u, Pass: p, Nonce: rb(24), Segs: []c09Seg{
				{Layout: "s", Proto: 2, SID: 7, PayloadLen: 1024, PayloadSeed: 1, Pad2: 255},
				{Layout: "d", Proto: 6, SID: 7, Seq: 1, PayloadLen: 32768, PayloadSeed: 2, Pad1: 255, Pad2: 255},
				{Layout: "d", Proto: 8, SID: 7, Seq: 2, UnAck: 0xffffffff, Window: 65535, Frag: 255},
				{Layout: "s", Proto: 4, SID: 7, Seq: 3},
			}})
			c09Run(c, c09Case{Kind: "stream-r2s", User: u, Pass: p, ChunkSeed: 5, Segs: []c09Seg{
				{Layout: "s", Proto: 2, SID: 7, PayloadLen: 1024, PayloadSeed: 1},
				{Layout: "d", Proto: 6, SID: 7, Seq: 1, PayloadLen: 32768, PayloadSeed: 2},
				{Layout: "l", Proto: 10, SID: 7, Seq: 2, Mode: 4, Rot: 48, PayloadLen: 4096, PayloadSeed: 3},
				{Layout: "s", Proto: 4, SID: 7, Seq: 3},
			}})

			// cipher level at arbitrary instants (incl. slot boundaries), nonce carries included
			for i := 0; i < c.N(60, 800); i++ {
				u, p := c09RandCred(c)
				ns := bounds[c.Rand.Intn(len(bounds))]
				if c.Rand.Intn(2) == 0 {
					ns = c.Rand.Int63n(4e18)
				}
				var sz []int
				for j := 0; j < 2+c.Rand.Intn(5); j++ {
					sz = append(sz, []int{0, 1, 32, c.Rand.Intn(2000)}[c.Rand.Intn(4)])
				}
				n0 := make([]byte, 24)
				c.Rand.Read(n0)
				if c.Rand.Intn(3) == 0 {
					for j := 24 - 1 - c.Rand.Intn(10); j < 24; j++ {
						n0[j] = 0xff // the sequence crosses a carry
					}
				}
				c09Run(c, c09Case{Kind: "cipher-seq", User: u, Pass: p, UnixNs: ns, Sizes: sz, ChunkSeed: c.Rand.Int63(), Nonce: core.Hex(n0)})
			}

			// 4. UDP associate
			for i := 0; i < c.N(40, 400); i++ {
				var sz []int
				for j := 0; j < 1+c.Rand.Intn(4); j++ {
					sz = append(sz, []int{0, 1, 255, 256, 1400, c.Rand.Intn(3000), 65535}[c.Rand.Intn(7)])
				}
				if !c.Thorough() {
					for j := range sz {
						if sz[j] == 65535 && c.Rand.Intn(4) != 0 {
							sz[j] = 1472
						}
					}
				}
				c09Run(c, c09Case{Kind: "assoc", Sizes: sz, ChunkSeed: c.Rand.Int63()})
			}
		},
		Replay: func(c *core.Ctx, raw json.RawMessage) {
			var k c09Case
			if json.Unmarshal(raw, &k) == nil {
				c09Run(c, k)
			}
		},
	})
	_ = bits.OnesCount32
}
