package props

import (
	"bytes"
	"context"
	"encoding/json"
	"fmt"
	"io"
	"net"
	"net/netip"
	"sort"
	"strconv"
	"strings"
	"time"

	apicommon "github.com/enfein/mieru/v3/apis/common"
	"github.com/enfein/mieru/v3/pkg/appctl/appctlpb"
	"github.com/enfein/mieru/v3/pkg/common"
	"github.com/enfein/mieru/v3/pkg/egress"
	"github.com/enfein/mieru/v3/pkg/socks5"
	"google.golang.org/protobuf/proto"
	"verifharness/core"
)

// C12 — loopback and private destinations are refused unless the user is allowed.
//
// Correspondences (exported API only):
//   ip-class   net.IP.IsLoopback / IsPrivate / IsUnspecified / To4          vs Mieru.Ip
//   egress     socks5.Server.FindAction on generated requests               vs Mieru.Egress.findAction
//   socks-req  socks5.Server.ServeConn end to end (reply code, arrivals at
//              listeners on the host's loopback)                            vs Mieru.Egress.serveRequest
//   socks-udp  ServeConn + UDP ASSOCIATE in both relay modes, per-datagram
//              destinations (arrivals at UDP listeners)                     vs Mieru.Egress.relayDatagram
// Direct oracle (written from the RFC ranges and the property text, independent of model and of
// net.IP's methods): a destination that denotes the local machine / a private network is answered
// REJECT (reply 02) and nothing arrives at the listener, for every user without the flag; users with
// the flags and public destinations get the first matching rule's action.

// ---- case description (self-contained, also the replay format) ---------------------------------

type c12User struct {
	Name string `json:"name"`
	Priv bool   `json:"allow_private"`
	Loop bool   `json:"allow_loopback"`
}

type c12Rule struct {
	IPRanges   []string `json:"ip_ranges"`
	Domains    []string `json:"domains"`
	Action     string   `json:"action"` // PROXY | DIRECT | REJECT
	ProxyNames []string `json:"proxy_names"`
}

type c12Cfg struct {
	Users   []c12User `json:"users"`
	Rules   []c12Rule `json:"rules"`
	Proxies []string  `json:"proxies"` // names, in order
	ALD     bool      `json:"allow_loopback_destination"`
}

type c12Case struct {
	Kind string `json:"kind"` // ip | find | serve | udp
	// kind ip
	IP string `json:"ip,omitempty"` // hex
	// kinds find / serve / udp
	Cfg      *c12Cfg `json:"cfg,omitempty"`
	User     *string `json:"user"`            // nil: no "user" key in Env (find) / conn reports "" (serve, udp)
	Proto    int     `json:"proto,omitempty"` // find: egress.Input.Protocol (1 = SOCKS5)
	Data     string  `json:"data,omitempty"`  // hex request; serve: the port field is patched to the listener's
	Listener string  `json:"listener,omitempty"`
	// kind udp
	Mode      string   `json:"mode,omitempty"`      // stream | datagram
	Datagrams []string `json:"datagrams,omitempty"` // hex SOCKS5 UDP headers (RSV RSV FRAG ATYP ADDR PORT), port patched
	Listeners []string `json:"listeners,omitempty"` // per datagram: which local listener the port is taken from
	Label     string   `json:"label,omitempty"`
}

var c12Names4 = []string{"localhost", "localhost4", "localhost.localdomain", "localhost4.localdomain4"}
var c12Names6 = []string{"localhost6", "ip6-localhost", "ip6-loopback", "localhost6.localdomain6"}

func c12IsLocalName(lower string) (v4, v6 bool) {
	for _, n := range c12Names4 {
		if n == lower {
			return true, false
		}
	}
	for _, n := range c12Names6 {
		if n == lower {
			return false, true
		}
	}
	return false, false
}

func c12AsciiLower(s string) string {
	b := []byte(s)
	for i, c := range b {
		if 'A' <= c && c <= 'Z' {
			b[i] = c + 32
		}
	}
	return string(b)
}

// ---- the classes, from the RFCs (numeric ranges; deliberately not net.IP's methods) -------------

func c12V4(ip []byte) (uint32, bool) {
	if len(ip) == 4 {
		return uint32(ip[0])<<24 | uint32(ip[1])<<16 | uint32(ip[2])<<8 | uint32(ip[3]), true
	}
	if len(ip) == 16 && bytes.Equal(ip[:12], []byte{0, 0, 0, 0, 0, 0, 0, 0, 0, 0, 0xff, 0xff}) {
		return c12V4(ip[12:])
	}
	return 0, false
}

func c12SpecClass(ip []byte) (loop, priv, unspec bool) {
	if v, ok := c12V4(ip); ok {
		loop = 0x7f000000 <= v && v <= 0x7fffffff
		priv = (0x0a000000 <= v && v <= 0x0affffff) || (0xac100000 <= v && v <= 0xac1fffff) || (0xc0a80000 <= v && v <= 0xc0a8ffff)
		unspec = v == 0
		return
	}
	if len(ip) != 16 {
		return
	}
	one := make([]byte, 16)
	one[15] = 1
	lo := make([]byte, 16)
	lo[0] = 0xfc
	hi := bytes.Repeat([]byte{0xff}, 16)
	hi[0] = 0xfd
	loop = bytes.Equal(ip, one)
	unspec = bytes.Equal(ip, make([]byte, 16))
	priv = bytes.Compare(lo, ip) <= 0 && bytes.Compare(ip, hi) <= 0
	return
}

// ---- request parsing for the oracle (RFC 1928 §4/§5/§7) ----------------------------------------

type c12Dst struct {
	IP   []byte
	FQDN string
	Port int
	Form string // ipv4 | ipv6 | domain
}

func c12ParseAddr(b []byte) (c12Dst, int, bool) {
	if len(b) < 1 {
		return c12Dst{}, 0, false
	}
	switch b[0] {
	case 1:
		if len(b) < 7 {
			return c12Dst{}, 0, false
		}
		return c12Dst{IP: b[1:5], Port: int(b[5])<<8 | int(b[6]), Form: "ipv4"}, 7, true
	case 4:
		if len(b) < 19 {
			return c12Dst{}, 0, false
		}
		return c12Dst{IP: b[1:17], Port: int(b[17])<<8 | int(b[18]), Form: "ipv6"}, 19, true
	case 3:
		if len(b) < 2 || len(b) < 2+int(b[1])+2 {
			return c12Dst{}, 0, false
		}
		n := int(b[1])
		return c12Dst{FQDN: string(b[2 : 2+n]), Port: int(b[2+n])<<8 | int(b[3+n]), Form: "domain"}, 4 + n, true
	}
	return c12Dst{}, 0, false
}

// c12DstClass names the destination class for finding keys and decides what the property demands.
// local: denotes the local machine (CONNECT / datagram semantics); strictLoop: literal loopback or local
// name (also refused in an ASSOCIATE request); priv: private network; public: certainly none of these.
func c12DstClass(d c12Dst) (class string, local, strictLoop, priv, public bool) {
	ipClass := func(ip []byte, prefix string) (string, bool, bool, bool) {
		l, p, u := c12SpecClass(ip)
		form := "ipv6"
		if len(ip) == 4 {
			form = "ipv4"
		} else if _, ok := c12V4(ip); ok {
			form = "mapped"
		}
		switch {
		case l:
			return prefix + "loopback-" + form, true, true, false
		case u:
			return prefix + "unspecified-" + form, true, false, false
		case p:
			return prefix + "private-" + form, false, false, true
		}
		return prefix + "public-" + form, false, false, false
	}
	if d.Form != "domain" {
		c, lo, st, pr := ipClass(d.IP, "")
		return c, lo, st, pr, !lo && !pr
	}
	if d.FQDN == "" {
		return "empty-host", true, false, false, false
	}
	lower := c12AsciiLower(d.FQDN)
	if a, b := c12IsLocalName(lower); a || b {
		if lower == d.FQDN {
			return "local-name-lower", true, true, false, false
		}
		return "local-name-case", true, true, false, false
	}
	if ip := net.ParseIP(d.FQDN); ip != nil {
		c, lo, st, pr := ipClass(ip, "ip-literal-text-")
		return c, lo, st, pr, !lo && !pr
	}
	if strings.IndexByte(d.FQDN, '%') >= 0 {
		// an IPv6 literal with a zone is an address (the resolver drops the zone and returns it); any other
		// text with a '%' is neither an address nor a host name the property speaks about: no opinion
		if a, err := netip.ParseAddr(d.FQDN); err == nil {
			c, lo, st, pr := ipClass(a.WithZone("").AsSlice(), "ip-literal-zoned-")
			return c, lo, st, pr, false
		}
		return "name-with-percent", false, false, false, false
	}
	// an ordinary name; "public" only if it is plain ASCII (no exotic case folding can apply)
	ascii := true
	for i := 0; i < len(d.FQDN); i++ {
		if d.FQDN[i] >= 0x80 {
			ascii = false
		}
	}
	return "name", false, false, false, ascii
}

// ---- configuration plumbing ----------------------------------------------------------------------

func c12Action(s string) appctlpb.EgressAction {
	switch s {
	case "PROXY":
		return appctlpb.EgressAction_PROXY
	case "REJECT":
		return appctlpb.EgressAction_REJECT
	}
	return appctlpb.EgressAction_DIRECT
}

type c12Resolver struct{}

// LookupIP plays the operating system's resolver deterministically: well-known local names resolve
// to loopback in any letter case (as /etc/hosts lookups do), IP literals to themselves, *.test names
// to loopback (an ordinary name whose address is not checked by design), everything else fails.
func (c12Resolver) LookupIP(ctx context.Context, network, host string) ([]net.IP, error) {
	h := c12AsciiLower(strings.TrimSuffix(host, "."))
	if a, b := c12IsLocalName(h); a {
		return []net.IP{net.ParseIP("127.0.0.1")}, nil
	} else if b {
		return []net.IP{net.ParseIP("::1")}, nil
	}
	if _, err := netip.ParseAddr(host); err == nil {
		// an address literal (possibly with an IPv6 zone): what the production resolver (net.Resolver behind
		// HostMapResolver) answers — no network traffic is involved for literals
		return (&net.Resolver{}).LookupIP(ctx, network, host)
	}
	if strings.HasSuffix(h, ".test") {
		return []net.IP{net.ParseIP("127.0.0.1")}, nil
	}
	if strings.HasSuffix(h, ".test6") {
		return []net.IP{net.ParseIP("::1")}, nil
	}
	return nil, fmt.Errorf("c12 resolver: no such host %q", host)
}

func c12NewServer(cfg *c12Cfg, mode socks5.UDPAssociateMode, proxyPort int) (*socks5.Server, *appctlpb.Egress, error) {
	users := map[string]*appctlpb.User{}
	for _, u := range cfg.Users {
		users[u.Name] = &appctlpb.User{Name: proto.String(u.Name), AllowPrivateIP: proto.Bool(u.Priv), AllowLoopbackIP: proto.Bool(u.Loop)}
	}
	eg := &appctlpb.Egress{}
	for _, p := range cfg.Proxies {
		eg.Proxies = append(eg.Proxies, &appctlpb.EgressProxy{Name: proto.String(p), Protocol: appctlpb.ProxyProtocol_SOCKS5_PROXY_PROTOCOL.Enum(), Host: proto.String("127.0.0.1"), Port: proto.Int32(int32(proxyPort))})
	}
	for _, r := range cfg.Rules {
		eg.Rules = append(eg.Rules, &appctlpb.EgressRule{IpRanges: r.IPRanges, DomainNames: r.Domains, Action: c12Action(r.Action).Enum(), ProxyNames: r.ProxyNames})
	}
	srv, err := socks5.New(&socks5.Config{
		AuthOpts:                 socks5.Auth{ClientSideAuthentication: true},
		Users:                    users,
		Egress:                   eg,
		Resolver:                 c12Resolver{},
		HandshakeTimeout:         5 * time.Second,
		AllowLoopbackDestination: cfg.ALD,
		UDPAssociateMode:         mode,
	})
	return srv, eg, err
}

func c12HexList(items []string, f func(string) string, sep string) string {
	if len(items) == 0 {
		return "~"
	}
	var out []string
	for _, it := range items {
		out = append(out, f(it))
	}
	return strings.Join(out, sep)
}

// c12ModelCfg renders the configuration for the model; CIDR strings go through net.ParseCIDR here
// (library call, a parameter of the model).
func c12ModelCfg(cfg *c12Cfg) string {
	var users, rules []string
	for _, u := range cfg.Users {
		users = append(users, fmt.Sprintf("%s/%d/%d", core.Hex([]byte(u.Name)), b2i(u.Priv), b2i(u.Loop)))
	}
	for _, r := range cfg.Rules {
		ips := c12HexList(r.IPRanges, func(s string) string {
			if s == "*" {
				return "*"
			}
			_, n, err := net.ParseCIDR(s)
			if err != nil {
				return "x"
			}
			return core.Hex(n.IP) + "_" + core.Hex(n.Mask)
		}, ",")
		doms := c12HexList(r.Domains, func(s string) string {
			if s == "*" {
				return "*"
			}
			return "n" + core.Hex([]byte(s))
		}, ",")
		names := c12HexList(r.ProxyNames, func(s string) string { return core.Hex([]byte(s)) }, ",")
		rules = append(rules, fmt.Sprintf("%s/%s/%s/%s", ips, doms, strings.ToLower(r.Action[:1]), names))
	}
	us, rs := "~", "~"
	if len(users) > 0 {
		us = strings.Join(users, ";")
	}
	if len(rules) > 0 {
		rs = strings.Join(rules, ";")
	}
	return fmt.Sprintf("users=%s|rules=%s|proxies=%s|ald=%d", us, rs, c12HexList(cfg.Proxies, func(s string) string { return core.Hex([]byte(s)) }, ","), b2i(cfg.ALD))
}

func b2i(b bool) int {
	if b {
		return 1
	}
	return 0
}

func c12UserArg(u *string) string {
	if u == nil {
		return "none"
	}
	return "u" + core.Hex([]byte(*u))
}

// c12Literal is the `net.ParseIP` oracle handed to the model: Go's own answers for the destination text
// and for the text up to its first '%' (the model decides which of the two it asks about).
func c12Literal(fqdn string, isDomain bool) string {
	if !isDomain || fqdn == "" {
		return "none"
	}
	ans := func(s string) string {
		if ip := net.ParseIP(s); ip != nil {
			return core.Hex(ip)
		}
		return "none"
	}
	t := "T" + core.Hex([]byte(fqdn)) + "=" + ans(fqdn)
	if i := strings.IndexByte(fqdn, '%'); i >= 0 {
		t += "," + core.Hex([]byte(fqdn[:i])) + "=" + ans(fqdn[:i])
	}
	return t
}

func c12May(cfg *c12Cfg, u *string) (mayLoop, mayPriv, flaggedBoth bool) {
	mayLoop = cfg.ALD
	if u != nil && *u != "" {
		for _, x := range cfg.Users {
			if x.Name == *u {
				mayLoop = mayLoop || x.Loop
				mayPriv = x.Priv
				flaggedBoth = x.Priv && x.Loop
				break
			}
		}
	}
	return
}

// c12FirstMatch: the rule table read independently (library CIDR containment, plain string ops).
// A rule is a statement about a destination, not about its encoding (round 5, GAP-2):
//   - an IP address literal sent as a domain name (IPv4, IPv6, IPv4-mapped, with or without an IPv6 zone) is
//     matched by the IP ranges of a rule like the address it spells (netip.ParseAddr here, the matcher under test
//     uses net.ParseIP), and — being domain-typed — by the domain patterns as well;
//   - domain patterns are compared ASCII-case-insensitively on both sides (RFC 4343).
//
// "" = no opinion: a text with a '%' that is not an address literal (what it denotes is not defined).
func c12FirstMatch(cfg *c12Cfg, d c12Dst) string {
	if d.Form == "domain" && d.FQDN == "" {
		return "DIRECT"
	}
	var addr net.IP
	name := ""
	if d.Form != "domain" {
		addr = net.IP(d.IP)
	} else {
		name = c12AsciiLower(d.FQDN)
		if a, err := netip.ParseAddr(d.FQDN); err == nil {
			addr = net.IP(a.WithZone("").AsSlice())
		} else if strings.IndexByte(d.FQDN, '%') >= 0 {
			return ""
		}
	}
	for _, r := range cfg.Rules {
		if addr != nil {
			for _, s := range r.IPRanges {
				if s == "*" {
					return r.Action
				}
				if _, n, err := net.ParseCIDR(s); err == nil && n.Contains(addr) {
					return r.Action
				}
			}
		}
		if d.Form == "domain" {
			for _, s := range r.Domains {
				p := c12AsciiLower(s)
				if s == "*" || name == p || strings.HasSuffix(name, "."+p) {
					return r.Action
				}
			}
		}
	}
	return "DIRECT"
}

func c12CmdName(cmd byte) string {
	switch cmd {
	case 1:
		return "connect"
	case 3:
		return "udp-associate"
	}
	return "cmd" + strconv.Itoa(int(cmd))
}

// ---- kind ip ---------------------------------------------------------------------------------

func c12RunIP(c *core.Ctx, k c12Case) {
	ip := core.UnHex(k.IP)
	nip := net.IP(ip)
	to4 := "none"
	if x := nip.To4(); x != nil {
		to4 = core.Hex(x)
	}
	got := fmt.Sprintf("ok loop=%d priv=%d unspec=%d to4=%s", b2i(nip.IsLoopback()), b2i(nip.IsPrivate()), b2i(nip.IsUnspecified()), to4)
	m := c.Model.Ask("ip-class %s", core.Hex(ip))
	c.Eval("ip/"+k.IP, true)
	c.Compared()
	c.Hist("ip_len", strconv.Itoa(len(ip)))
	if m != got {
		c.Disagree("C12/corr/ip-class", fmt.Sprintf("address %x: model %s, net.IP %s", ip, m, got), k)
	}
	if len(ip) == 4 || len(ip) == 16 {
		l, p, u := c12SpecClass(ip)
		if l != nip.IsLoopback() || p != nip.IsPrivate() || u != nip.IsUnspecified() {
			c.Violate("C12/ip-class/library-vs-rfc", fmt.Sprintf("address %x: RFC ranges say loop=%v priv=%v unspec=%v, net.IP says %v %v %v", ip, l, p, u, nip.IsLoopback(), nip.IsPrivate(), nip.IsUnspecified()), k)
		}
	}
}

// ---- kind find --------------------------------------------------------------------------------

type c12Srv struct {
	cfg *c12Cfg
	srv *socks5.Server
	eg  *appctlpb.Egress
	key string
}

var c12SrvCache = map[string]*c12Srv{}
var c12ModelCfgCurrent string

func c12GetSrv(c *core.Ctx, cfg *c12Cfg) *c12Srv {
	key := c12ModelCfg(cfg)
	s := c12SrvCache[key]
	if s == nil {
		srv, eg, err := c12NewServer(cfg, socks5.UDPAssociateModePacketOverStream, 1)
		if err != nil {
			return nil
		}
		s = &c12Srv{cfg: cfg, srv: srv, eg: eg, key: key}
		if len(c12SrvCache) > 4096 {
			c12SrvCache = map[string]*c12Srv{}
		}
		c12SrvCache[key] = s
	}
	if c12ModelCfgCurrent != key {
		if r := c.Model.Ask("egress-cfg %s", key); r != "ok" {
			c.Disagree("C12/corr/model-config", "model refused configuration: "+r+" for "+key, cfg)
			return nil
		}
		c12ModelCfgCurrent = key
	}
	return s
}

func c12RunFind(c *core.Ctx, k c12Case) {
	s := c12GetSrv(c, k.Cfg)
	if s == nil {
		return
	}
	data := core.UnHex(k.Data)
	in := egress.Input{Protocol: appctlpb.ProxyProtocol(k.Proto), Data: data}
	if k.User != nil {
		in.Env = map[string]string{"user": *k.User}
	}
	a := s.srv.FindAction(context.Background(), in)
	impl := a.Action.String()
	proxyIdx := "nil"
	if a.Proxy != nil {
		proxyIdx = "?"
		for i, p := range s.eg.Proxies {
			if p == a.Proxy {
				proxyIdx = strconv.Itoa(i)
				break
			}
		}
	}
	// oracle-side parse
	var d c12Dst
	var cmd byte
	parsed := false
	if len(data) >= 4 && data[0] == 5 {
		if dd, _, ok := c12ParseAddr(data[3:]); ok {
			d, cmd, parsed = dd, data[1], true
		}
	}
	lit := "none"
	if parsed {
		lit = c12Literal(d.FQDN, d.Form == "domain")
	}
	m := c.Model.Ask("egress %d %s %s %s", b2i(k.Proto == 1), c12UserArg(k.User), lit, core.Hex(data))
	c.Eval(fmt.Sprintf("find/%s/%d/%s/%s", s.key, k.Proto, c12UserArg(k.User), k.Data), parsed)
	c.Compared()
	var mAct, mChoices string
	if _, err := fmt.Sscanf(m, "ok %s %s", &mAct, &mChoices); err != nil {
		c.Disagree("C12/corr/model-reply", "model did not answer egress: "+m, k)
		return
	}
	c.Hist("find_action", impl)
	if !parsed {
		c.Hist("find_request", "malformed")
	} else {
		class, _, _, _, _ := c12DstClass(d)
		c.Hist("find_request", c12CmdName(cmd)+"/"+class)
	}
	if mAct != impl {
		c.Disagree("C12/corr/egress/action", fmt.Sprintf("FindAction: model %s impl %s (request %x user %s)", mAct, impl, data, c12UserArg(k.User)), k)
	} else if impl == "PROXY" {
		ok := false
		for _, ch := range strings.Split(mChoices, ",") {
			if ch == proxyIdx {
				ok = true
			}
		}
		if !ok {
			c.Disagree("C12/corr/egress/proxy", fmt.Sprintf("FindAction selected proxy %s, model allows %s", proxyIdx, mChoices), k)
		}
	} else if a.Proxy != nil {
		c.Disagree("C12/corr/egress/proxy", "non-PROXY action carries a proxy", k)
	}
	// ---- direct oracle
	if !parsed || k.Proto != 1 || (cmd != 1 && cmd != 3) {
		return
	}
	class, local, strict, priv, public := c12DstClass(d)
	mayLoop, mayPriv, both := c12May(k.Cfg, k.User)
	mustReject := false
	if cmd == 1 && local && !mayLoop {
		mustReject = true
	}
	if cmd == 3 && strict && !mayLoop {
		mustReject = true
	}
	if priv && !mayPriv {
		mustReject = true
	}
	if mustReject && impl != "REJECT" {
		c.Violate(fmt.Sprintf("C12/%s/dst=%s", c12CmdName(cmd), class),
			fmt.Sprintf("%s request to %s destination (request %x) by user %s without the allow flag: FindAction says %s, must be REJECT", c12CmdName(cmd), class, data, c12UserArg(k.User), impl), k)
	}
	// the rest: public destinations for everybody, every destination for a user with both flags, and a private
	// destination for a user who may reach private networks (round 5)
	if !mustReject && (public || both || (priv && mayPriv && !local)) && !(cmd == 3 && local && !strict) {
		if want := c12FirstMatch(k.Cfg, d); want != "" && want != impl {
			c.Violate(fmt.Sprintf("C12/%s/unaffected/dst=%s", c12CmdName(cmd), class),
				fmt.Sprintf("destination %s, user %s: first matching rule says %s, FindAction says %s (request %x)", class, c12UserArg(k.User), want, impl, data), k)
		}
	}
}

// ---- end to end ---------------------------------------------------------------------------------

type c12Conn struct {
	net.Conn
	user string
}

func (c *c12Conn) UserName() string { return c.user }

type c12Net struct {
	tcp4, tcp6, proxy net.Listener
	udp4, udp6, sent  *net.UDPConn
}

func c12Listen(c *core.Ctx) *c12Net {
	n := &c12Net{}
	var err error
	if n.tcp4, err = net.Listen("tcp4", "127.0.0.1:0"); err != nil {
		c.Note("cannot listen on 127.0.0.1 (tcp): %v — end-to-end scenarios skipped", err)
		return nil
	}
	if n.proxy, err = net.Listen("tcp4", "127.0.0.1:0"); err != nil {
		return nil
	}
	if n.tcp6, err = net.Listen("tcp6", "[::1]:0"); err != nil {
		c.Note("no IPv6 loopback listener: %v", err)
		n.tcp6 = nil
	}
	if n.udp4, err = net.ListenUDP("udp4", &net.UDPAddr{IP: net.IPv4(127, 0, 0, 1)}); err != nil {
		return nil
	}
	if n.sent, err = net.ListenUDP("udp4", &net.UDPAddr{IP: net.IPv4(127, 0, 0, 1)}); err != nil {
		return nil
	}
	if n.udp6, err = net.ListenUDP("udp6", &net.UDPAddr{IP: net.IPv6loopback}); err != nil {
		n.udp6 = nil
	}
	return n
}

func (n *c12Net) Close() {
	for _, l := range []net.Listener{n.tcp4, n.tcp6, n.proxy} {
		if l != nil {
			l.Close()
		}
	}
	for _, u := range []*net.UDPConn{n.udp4, n.udp6, n.sent} {
		if u != nil {
			u.Close()
		}
	}
}

func (n *c12Net) port(label string) int {
	switch label {
	case "tcp4":
		return n.tcp4.Addr().(*net.TCPAddr).Port
	case "tcp6":
		if n.tcp6 != nil {
			return n.tcp6.Addr().(*net.TCPAddr).Port
		}
	case "udp4":
		return n.udp4.LocalAddr().(*net.UDPAddr).Port
	case "udp6":
		if n.udp6 != nil {
			return n.udp6.LocalAddr().(*net.UDPAddr).Port
		}
	case "sentinel":
		return n.sent.LocalAddr().(*net.UDPAddr).Port
	}
	return 0
}

// accepted: connections that arrived at the TCP listeners within d
func (n *c12Net) arrivals(d time.Duration) []string {
	var got []string
	for label, l := range map[string]net.Listener{"tcp4": n.tcp4, "tcp6": n.tcp6} {
		if l == nil {
			continue
		}
		l.(*net.TCPListener).SetDeadline(time.Now().Add(d))
		for {
			conn, err := l.Accept()
			if err != nil {
				break
			}
			got = append(got, label)
			conn.Close()
			l.(*net.TCPListener).SetDeadline(time.Now().Add(5 * time.Millisecond))
		}
	}
	sort.Strings(got)
	return got
}

// arrivalAt waits up to d for one connection at the named listener
func (n *c12Net) arrivalAt(label string, d time.Duration) []string {
	var l net.Listener
	switch label {
	case "tcp4":
		l = n.tcp4
	case "tcp6":
		l = n.tcp6
	}
	if l == nil {
		return nil
	}
	l.(*net.TCPListener).SetDeadline(time.Now().Add(d))
	conn, err := l.Accept()
	if err != nil {
		return nil
	}
	conn.Close()
	return []string{label}
}

func c12PatchPort(b []byte, port int) []byte {
	out := append([]byte(nil), b...)
	if len(out) >= 2 {
		out[len(out)-2], out[len(out)-1] = byte(port>>8), byte(port)
	}
	return out
}

// c12ReadReply reads one SOCKS5 reply (or reports that the server closed without one).
func c12ReadReply(conn net.Conn) (code int, raw []byte) {
	conn.SetReadDeadline(time.Now().Add(5 * time.Second))
	h := make([]byte, 4)
	if _, err := io.ReadFull(conn, h); err != nil {
		return -1, nil
	}
	n := 0
	switch h[3] {
	case 1:
		n = 6
	case 4:
		n = 18
	case 3:
		l := make([]byte, 1)
		if _, err := io.ReadFull(conn, l); err != nil {
			return -1, h
		}
		h = append(h, l...)
		n = int(l[0]) + 2
	}
	rest := make([]byte, n)
	if _, err := io.ReadFull(conn, rest); err != nil {
		return -1, h
	}
	return int(h[1]), append(h, rest...)
}

var c12E2E *c12Net

// scope boundary of the property (theorem Mieru.C12.resolved_name_reaches_loopback_witness): ordinary names that
// the resolver maps to a loopback address, dialled / relayed for users WITHOUT the loopback flag
var c12ScopeConnect, c12ScopeDatagram int

func c12RunServe(c *core.Ctx, k c12Case) {
	if c12E2E == nil {
		c.Res.Discarded++
		return
	}
	n := c12E2E
	port := n.port(k.Listener)
	if port == 0 {
		c.Res.Discarded++
		return
	}
	data := c12PatchPort(core.UnHex(k.Data), port)
	proxyPort := n.proxy.Addr().(*net.TCPAddr).Port
	srv, _, err := c12NewServer(k.Cfg, socks5.UDPAssociateModePacketOverStream, proxyPort)
	if err != nil {
		return
	}
	if r := c.Model.Ask("egress-cfg %s", c12ModelCfg(k.Cfg)); r != "ok" {
		c.Disagree("C12/corr/model-config", "model refused configuration: "+r, k)
		return
	}
	c12ModelCfgCurrent = ""
	var d c12Dst
	parsed := false
	var cmd byte
	if len(data) >= 4 && data[0] == 5 {
		if dd, _, ok := c12ParseAddr(data[3:]); ok {
			d, cmd, parsed = dd, data[1], true
		}
	}
	if !parsed {
		c.Res.Discarded++
		return
	}
	user := ""
	if k.User != nil {
		user = *k.User
	}
	// what the server's resolver followed by SelectIPFromList gives for the request's name (library calls,
	// handed to the model as data)
	resolved := "none"
	if d.Form == "domain" && d.FQDN != "" {
		if ips, err := (c12Resolver{}).LookupIP(context.Background(), "ip", d.FQDN); err == nil {
			if ip := common.SelectIPFromList(ips, common.USE_FIRST_IP); ip != nil {
				resolved = core.Hex(ip)
			}
		}
	}
	m := c.Model.Ask("socks-req-r %s %s %s %s", c12UserArg(&user), c12Literal(d.FQDN, d.Form == "domain"), resolved, core.Hex(data))
	if cmd != 1 {
		c12RunServeOther(c, k, srv, data, cmd, d, user, m)
		return
	}
	n.arrivals(time.Millisecond) // drain
	cl, sv := net.Pipe()
	done := make(chan struct{})
	go func() {
		defer close(done)
		defer func() { recover() }()
		srv.ServeConn(&c12Conn{Conn: sv, user: user})
	}()
	// a PROXY decision makes the server dial the stand-in egress proxy: play its SOCKS5 side
	proxyGot := make(chan []byte, 1)
	if strings.HasPrefix(m, "ok forward") {
		go func() {
			n.proxy.(*net.TCPListener).SetDeadline(time.Now().Add(3 * time.Second))
			pc, err := n.proxy.Accept()
			if err != nil {
				proxyGot <- nil
				return
			}
			defer pc.Close()
			pc.SetDeadline(time.Now().Add(3 * time.Second))
			hello := make([]byte, 3)
			io.ReadFull(pc, hello)
			pc.Write([]byte{5, 0})
			req := make([]byte, len(data))
			io.ReadFull(pc, req)
			pc.Write([]byte{5, 0, 0, 1, 0, 0, 0, 0, 0, 0})
			proxyGot <- req
		}()
	}
	cl.SetWriteDeadline(time.Now().Add(3 * time.Second))
	cl.Write(data)
	code, _ := c12ReadReply(cl)
	var arrived []string
	if code == 0 && strings.HasPrefix(m, "ok dial addr:") {
		// expected arrival: wait generously for it (a passing run returns at once)
		arrived = n.arrivalAt(k.Listener, 5*time.Second)
	}
	arrived = append(arrived, n.arrivals(60*time.Millisecond)...)
	sort.Strings(arrived)
	cl.Close()
	select {
	case <-done:
	case <-time.After(5 * time.Second):
		c.Disagree("C12/corr/serve/hang", "ServeConn did not return after the client closed", k)
	}
	var forwarded []byte
	if strings.HasPrefix(m, "ok forward") {
		forwarded = <-proxyGot
	}
	class, local, _, priv, _ := c12DstClass(d)
	c.Eval(fmt.Sprintf("serve/%s/%s/%s", c12ModelCfg(k.Cfg), user, k.Data+k.Listener), true)
	c.Compared()
	c.Res.TracesValidated++
	c.Hist("serve", fmt.Sprintf("connect/%s/reply=%d/arrived=%d", class, code, len(arrived)))
	// ---- correspondence
	switch {
	case m == "ok reply 2" || strings.HasPrefix(m, "ok reply "):
		want, _ := strconv.Atoi(strings.TrimPrefix(m, "ok reply "))
		if code != want || len(arrived) != 0 {
			c.Disagree("C12/corr/serve/reply", fmt.Sprintf("model: %s; impl: reply %d, arrivals %v (request %x user %q)", m, code, arrived, data, user), k)
		}
	case strings.HasPrefix(m, "ok dial addr:"):
		// every end-to-end destination is one of the listeners, so the dial succeeds: reply 00 + arrival at
		// the listener of the DIALLED address's family (the model names the address DialContext gets)
		want := k.Listener
		if f := strings.Split(strings.TrimPrefix(m, "ok dial addr:"), ":"); len(f) == 2 {
			ip := net.IP(core.UnHex(f[0]))
			if ip.To4() != nil {
				want = "tcp4"
			} else {
				want = "tcp6"
			}
			if d.Form == "domain" && d.FQDN != "" {
				if cls, _, _, _, _ := c12DstClass(d); cls == "name" {
					if mayLoop, _, _ := c12May(k.Cfg, k.User); !mayLoop && len(arrived) == 1 {
						c12ScopeConnect++
					}
				}
				_, lo, _, pr, _ := c12DstClass(c12Dst{IP: ip, Form: "ipv6"})
				c.Hist("serve_resolved", fmt.Sprintf("name->%s/local=%v/private=%v", map[bool]string{true: "v4", false: "v6"}[ip.To4() != nil], lo, pr))
			}
		}
		if code != 0 || len(arrived) != 1 || arrived[0] != want || want != k.Listener {
			c.Disagree("C12/corr/serve/connect", fmt.Sprintf("model: %s; impl: reply %d, arrivals %v, expected one arrival at %s (request %x user %q)", m, code, arrived, want, data, user), k)
		}
	case m == "ok dial unresolved" || strings.HasPrefix(m, "ok dial local:"):
		// ":port" reaches the local machine (operating system behaviour, observed): an arrival is expected but
		// where is not asserted; `unresolved` cannot be dialled (serveRequestR answers 04 first)
		if m == "ok dial unresolved" || code != 0 || len(arrived) != 1 {
			c.Disagree("C12/corr/serve/connect-local", fmt.Sprintf("model: %s; impl: reply %d, arrivals %v (request %x user %q)", m, code, arrived, data, user), k)
		}
	case strings.HasPrefix(m, "ok forward"):
		if !bytes.Equal(forwarded, data) || len(arrived) != 0 {
			c.Disagree("C12/corr/serve/forward", fmt.Sprintf("model: %s; the stand-in egress proxy received %x, arrivals at the destination %v", m, forwarded, arrived), k)
		}
	case m == "ok noreply":
		if code != -1 || len(arrived) != 0 {
			c.Disagree("C12/corr/serve/noreply", fmt.Sprintf("model: closed without reply; impl: reply %d arrivals %v", code, arrived), k)
		}
	default:
		c.Disagree("C12/corr/model-reply", "model did not answer socks-req: "+m, k)
	}
	// ---- direct oracle: refused destinations get 02 and nothing arrives
	mayLoop, mayPriv, _ := c12May(k.Cfg, k.User)
	if (local && !mayLoop) || (priv && !mayPriv) {
		if code != 2 || len(arrived) != 0 {
			c.Violate(fmt.Sprintf("C12/serve/connect/dst=%s", class),
				fmt.Sprintf("CONNECT to %s destination by a user without the allow flag: reply code %d, connections arrived at the local listener: %v (request %x, user %q)", class, code, arrived, data, user), k)
		}
	}
}

// c12RunServeOther: BIND, UDP ASSOCIATE and unknown commands through ServeConn — `handleRequest` resolves a
// domain-typed address before it looks at the command (reply 04 when that fails); only the reply is compared.
func c12RunServeOther(c *core.Ctx, k c12Case, srv *socks5.Server, data []byte, cmd byte, d c12Dst, user, m string) {
	cl, sv := net.Pipe()
	done := make(chan struct{})
	go func() {
		defer close(done)
		defer func() { recover() }()
		srv.ServeConn(&c12Conn{Conn: sv, user: user})
	}()
	cl.SetWriteDeadline(time.Now().Add(3 * time.Second))
	cl.Write(data)
	code, _ := c12ReadReply(cl)
	cl.Close()
	select {
	case <-done:
	case <-time.After(5 * time.Second):
		c.Disagree("C12/corr/serve/hang", "ServeConn did not return after the client closed", k)
	}
	class, _, strict, priv, _ := c12DstClass(d)
	c.Eval(fmt.Sprintf("serve-other/%s/%s/%s", c12ModelCfg(k.Cfg), user, k.Data), true)
	c.Compared()
	c.Res.TracesValidated++
	c.Hist("serve", fmt.Sprintf("%s/%s/reply=%d", c12CmdName(cmd), class, code))
	switch {
	case strings.HasPrefix(m, "ok reply "):
		want, _ := strconv.Atoi(strings.TrimPrefix(m, "ok reply "))
		if code != want {
			c.Disagree("C12/corr/serve/reply", fmt.Sprintf("model: %s; impl: reply %d (request %x user %q)", m, code, data, user), k)
		}
	case m == "ok associate":
		if code != 0 {
			c.Disagree("C12/corr/serve/associate", fmt.Sprintf("model: %s; impl: reply %d (request %x user %q)", m, code, data, user), k)
		}
	case m == "ok noreply":
		if code != -1 {
			c.Disagree("C12/corr/serve/noreply", fmt.Sprintf("model: closed without reply; impl: reply %d (request %x)", code, data), k)
		}
	case strings.HasPrefix(m, "ok forward"):
		// PROXY decision for a non-CONNECT command: the stand-in proxy is not played here; only "no success reply
		// from this server" is checked
		if code == 2 {
			c.Disagree("C12/corr/serve/forward", fmt.Sprintf("model: %s; impl: reply 2", m), k)
		}
	default:
		c.Disagree("C12/corr/model-reply", "model did not answer socks-req-r: "+m, k)
	}
	// direct oracle: a UDP ASSOCIATE whose address is a literal loopback / local name / private address is refused
	if cmd == 3 {
		mayLoop, mayPriv, _ := c12May(k.Cfg, k.User)
		if ((strict && !mayLoop) || (priv && !mayPriv)) && code != 2 {
			c.Violate(fmt.Sprintf("C12/serve/udp-associate/dst=%s", class),
				fmt.Sprintf("UDP ASSOCIATE naming a %s address by a user without the allow flag: reply code %d (request %x, user %q)", class, code, data, user), k)
		}
	}
}

// c12RunUDP plays one UDP association: ASSOCIATE with the usual all-zero address, then the given
// datagrams, then a sentinel datagram to an ordinary name (allowed for everybody); when the sentinel
// has arrived, every earlier datagram has been handled by the relay loop (it is sequential).
func c12RunUDP(c *core.Ctx, k c12Case) {
	if c12E2E == nil {
		c.Res.Discarded++
		return
	}
	n := c12E2E
	mode := socks5.UDPAssociateModePacketOverStream
	if k.Mode == "datagram" {
		mode = socks5.UDPAssociateModeDatagram
	}
	srv, _, err := c12NewServer(k.Cfg, mode, 1)
	if err != nil {
		return
	}
	if r := c.Model.Ask("egress-cfg %s", c12ModelCfg(k.Cfg)); r != "ok" {
		c.Disagree("C12/corr/model-config", "model refused configuration: "+r, k)
		return
	}
	c12ModelCfgCurrent = ""
	user := ""
	if k.User != nil {
		user = *k.User
	}
	drain := func(u *net.UDPConn, d time.Duration) [][]byte {
		var got [][]byte
		if u == nil {
			return nil
		}
		buf := make([]byte, 2048)
		u.SetReadDeadline(time.Now().Add(d))
		for {
			nn, _, err := u.ReadFromUDP(buf)
			if err != nil {
				break
			}
			got = append(got, append([]byte(nil), buf[:nn]...))
			u.SetReadDeadline(time.Now().Add(5 * time.Millisecond))
		}
		return got
	}
	drain(n.udp4, time.Millisecond)
	drain(n.udp6, time.Millisecond)
	drain(n.sent, time.Millisecond)
	cl, sv := net.Pipe()
	done := make(chan struct{})
	go func() {
		defer close(done)
		defer func() { recover() }()
		srv.ServeConn(&c12Conn{Conn: sv, user: user})
	}()
	defer func() {
		cl.Close()
		select {
		case <-done:
		case <-time.After(5 * time.Second):
			c.Disagree("C12/corr/udp/hang", "ServeConn did not return after the client closed", k)
		}
	}()
	assoc := []byte{5, 3, 0, 1, 0, 0, 0, 0, 0, 0}
	cl.SetWriteDeadline(time.Now().Add(3 * time.Second))
	cl.Write(assoc)
	code, raw := c12ReadReply(cl)
	mAssoc := c.Model.Ask("socks-req %s none %s", c12UserArg(&user), core.Hex(assoc))
	c.Compared()
	if (mAssoc == "ok associate") != (code == 0) {
		c.Disagree("C12/corr/udp/associate", fmt.Sprintf("UDP ASSOCIATE 0.0.0.0:0: model %s impl reply %d", mAssoc, code), k)
		return
	}
	if code != 0 {
		return
	}
	bindPort := int(raw[len(raw)-2])<<8 | int(raw[len(raw)-1])
	var send func(pkt []byte) error
	if k.Mode == "datagram" {
		uc, err := net.DialUDP("udp4", nil, &net.UDPAddr{IP: net.IPv4(127, 0, 0, 1), Port: bindPort})
		if err != nil {
			return
		}
		defer uc.Close()
		send = func(pkt []byte) error { _, err := uc.Write(pkt); return err }
	} else {
		tun := apicommon.NewPacketOverStreamTunnel(cl)
		send = func(pkt []byte) error { _, err := tun.Write(pkt); return err }
	}
	type sentPkt struct {
		hdr       []byte
		payload   []byte
		model     string
		dst       c12Dst
		lis       string
		opt       bool
		malformed bool
	}
	var pkts []sentPkt
	var runArgs []string
	for i, hx := range k.Datagrams {
		lis := "udp4"
		if i < len(k.Listeners) {
			lis = k.Listeners[i]
		}
		// a leading "?": when the relay sends it, whether the operating system delivers it locally is
		// not asserted (e.g. 0.0.0.0 from a dual-stack socket)
		optional := strings.HasPrefix(lis, "?")
		lis = strings.TrimPrefix(lis, "?")
		raw := core.UnHex(hx)
		port := n.port(lis)
		if port == 0 && !strings.HasPrefix(lis, "!") {
			continue
		}
		if strings.HasPrefix(lis, "!") {
			// a deliberately malformed datagram, sent as it is (no port patch, no payload appended)
			m := c.Model.Ask("socks-udp %s none %s", c12UserArg(&user), core.Hex(raw))
			pkts = append(pkts, sentPkt{hdr: raw, model: m, lis: lis, malformed: true})
			runArgs = append(runArgs, "none", core.Hex(raw))
			continue
		}
		hdr := c12PatchPort(raw, port)
		d, _, ok := c12ParseAddr(hdr[3:])
		if !ok || len(hdr) < 4 || hdr[0] != 0 || hdr[1] != 0 || hdr[2] != 0 {
			continue
		}
		payload := []byte(fmt.Sprintf("c12-%d-%d", c.Res.Evaluations, i))
		lit := c12Literal(d.FQDN, d.Form == "domain")
		m := c.Model.Ask("socks-udp %s %s %s", c12UserArg(&user), lit, core.Hex(append(append([]byte(nil), hdr...), payload...)))
		pkts = append(pkts, sentPkt{hdr: hdr, payload: payload, model: m, dst: d, lis: lis, opt: optional})
		runArgs = append(runArgs, lit, core.Hex(append(append([]byte(nil), hdr...), payload...)))
	}
	// the whole association through the model's relay loop: the i-th event must be the i-th datagram's own
	// decision, whatever was sent before it (seeded change C12-3: a cache filled before the filter)
	loopEnds := false
	sentinelLost := false
	if len(pkts) > 0 {
		run := c.Model.Ask("socks-udp-run %s %s %s", k.Mode, c12UserArg(&user), strings.Join(runArgs, " "))
		evs := strings.Fields(strings.TrimPrefix(run, "ok"))
		c.Compared()
		if !strings.HasPrefix(run, "ok") || len(evs) != len(pkts) {
			c.Disagree("C12/corr/model-reply", "model did not answer socks-udp-run: "+run, k)
			return
		}
		for i := range pkts {
			single := strings.Replace(strings.TrimPrefix(pkts[i].model, "ok "), " ", ":", 1)
			if evs[i] == "notread" {
				pkts[i].model = "ok notread"
				continue
			}
			if evs[i] != single {
				c.Disagree("C12/corr/udp/run-vs-single", fmt.Sprintf("datagram %d of the association: relay loop model says %s, the datagram alone %s", i, evs[i], single), k)
			}
			if evs[i] == "invalid" && k.Mode == "stream" {
				loopEnds = true
			}
		}
	}
	for _, p := range pkts {
		pkt := p.hdr
		if !p.malformed {
			pkt = append(append([]byte(nil), p.hdr...), p.payload...)
		}
		if err := send(pkt); err != nil {
			if loopEnds {
				break // the relay has returned and closed the tunnel under us: expected
			}
			c.Disagree("C12/corr/udp/send", "cannot hand a datagram to the relay: "+err.Error(), k)
			return
		}
	}
	// sentinels: one per listener, sent last and addressed by an ordinary name, so they queue behind
	// every earlier datagram for the same socket
	sentinel := func(name, lis string) []byte {
		h := append([]byte{0, 0, 0, 3, byte(len(name))}, name...)
		h = append(h, 0, 0)
		return c12PatchPort(h, n.port(lis))
	}
	send(append(sentinel("sentinel.test", "udp4"), []byte("sentinel4")...))
	if n.udp6 != nil {
		send(append(sentinel("sentinel.test6", "udp6"), []byte("sentinel6")...))
	}
	arrived := map[string]bool{}
	collect := func(u *net.UDPConn, d time.Duration) {
		for _, p := range drain(u, d) {
			arrived[string(p)] = true
		}
	}
	// wait (generously: a passing run returns at once) for the sentinels and for everything the model
	// says is relayed to a reachable listener; then a short grace period for anything else
	deadline := time.Now().Add(5 * time.Second)
	complete := func() bool {
		if loopEnds {
			select {
			case <-done:
			default:
				return false
			}
		} else if !arrived["sentinel4"] || (n.udp6 != nil && !arrived["sentinel6"]) {
			return false
		}
		for _, p := range pkts {
			if strings.HasPrefix(p.model, "ok send ") && !p.opt && !arrived[string(p.payload)] {
				return false
			}
		}
		return true
	}
	for !complete() && time.Now().Before(deadline) {
		collect(n.udp4, 20*time.Millisecond)
		collect(n.udp6, 20*time.Millisecond)
	}
	if loopEnds {
		// packet-over-stream mode stops at the first datagram it cannot parse: the sentinels are behind it and
		// must NOT arrive; ServeConn returns on its own
		if arrived["sentinel4"] {
			c.Disagree("C12/corr/udp/loop-end", "model: the relay loop returns at the malformed datagram; impl: a later datagram was still relayed", k)
		}
		select {
		case <-done:
		case <-time.After(5 * time.Second):
			c.Disagree("C12/corr/udp/loop-end", "model: the relay loop returns at the malformed datagram; impl: ServeConn is still running", k)
		}
	} else if !arrived["sentinel4"] {
		// round 4: no early return — what DID arrive is still judged by the direct oracle below (a change that
		// breaks the sentinel may at the same time let a forbidden datagram through)
		sentinelLost = true
		c.Disagree("C12/corr/udp/sentinel", "a datagram to an ordinary name (resolved to the local listener) was not relayed: the association is not working", k)
	}
	collect(n.udp4, 60*time.Millisecond)
	collect(n.udp6, 60*time.Millisecond)
	mayLoop, mayPriv, _ := c12May(k.Cfg, k.User)
	seen := map[string]int{}
	for _, p := range pkts {
		if p.malformed {
			c.Hist("udp", fmt.Sprintf("%s/malformed/%s", k.Mode, strings.TrimPrefix(p.model, "ok ")))
			if p.model != "ok invalid" && p.model != "ok notread" {
				c.Disagree("C12/corr/udp/"+k.Mode, fmt.Sprintf("malformed datagram %x: model %s", p.hdr, p.model), k)
			}
			continue
		}
		class, local, _, priv, _ := c12DstClass(p.dst)
		got := arrived[string(p.payload)]
		if class == "name" && got && !mayLoop {
			c12ScopeDatagram++
		}
		seen[string(p.hdr)]++
		if nth := seen[string(p.hdr)]; nth > 1 {
			c.Hist("udp_repeat", fmt.Sprintf("%s/%s/nth=%d/arrived=%v", k.Mode, class, nth, got))
		}
		c.Eval(fmt.Sprintf("udp/%s/%s/%s/%x", k.Mode, c12ModelCfg(k.Cfg), user, p.hdr), true)
		c.Compared()
		c.Res.TracesValidated++
		c.Hist("udp", fmt.Sprintf("%s/%s/arrived=%v", k.Mode, class, got))
		switch {
		case p.model == "ok dropped" || p.model == "ok unresolvable" || p.model == "ok notread":
			if got {
				c.Disagree("C12/corr/udp/"+k.Mode, fmt.Sprintf("datagram header %x user %q: model %s, but it arrived at the listener", p.hdr, user, p.model), k)
			}
		case strings.HasPrefix(p.model, "ok send "):
			if !got && !p.opt && !sentinelLost {
				c.Disagree("C12/corr/udp/"+k.Mode, fmt.Sprintf("datagram header %x user %q: model %s, but nothing arrived", p.hdr, user, p.model), k)
			}
		default:
			c.Disagree("C12/corr/model-reply", "model did not answer socks-udp: "+p.model, k)
		}
		if ((local && !mayLoop) || (priv && !mayPriv)) && got {
			c.Violate(fmt.Sprintf("C12/udp-datagram/%s/dst=%s", k.Mode, class),
				fmt.Sprintf("UDP association of user %q (no allow flag): a datagram whose SOCKS5 UDP header names the %s destination %x was relayed and arrived at the local listener", user, class, p.hdr), k)
		}
	}
}

func c12Run(c *core.Ctx, k c12Case) {
	switch k.Kind {
	case "ip":
		c12RunIP(c, k)
	case "find":
		if k.Cfg != nil {
			c12RunFind(c, k)
		}
	case "serve":
		if k.Cfg != nil {
			c12RunServe(c, k)
		}
	case "udp":
		if k.Cfg != nil {
			c12RunUDP(c, k)
		}
	}
}

// ---- generators -------------------------------------------------------------------------------

func c12Mapped(v4 []byte) []byte {
	return append([]byte{0, 0, 0, 0, 0, 0, 0, 0, 0, 0, 0xff, 0xff}, v4...)
}

func c12BoundaryIPs() [][]byte {
	var out [][]byte
	v4 := [][]byte{
		{0, 0, 0, 0}, {0, 0, 0, 1}, {9, 255, 255, 255}, {10, 0, 0, 0}, {10, 0, 0, 1}, {10, 255, 255, 255}, {11, 0, 0, 0},
		{126, 255, 255, 255}, {127, 0, 0, 0}, {127, 0, 0, 1}, {127, 255, 255, 255}, {128, 0, 0, 0},
		{172, 15, 255, 255}, {172, 16, 0, 0}, {172, 31, 255, 255}, {172, 32, 0, 0},
		{192, 167, 255, 255}, {192, 168, 0, 0}, {192, 168, 255, 255}, {192, 169, 0, 0},
		{8, 8, 8, 8}, {192, 0, 2, 1}, {169, 254, 1, 1}, {255, 255, 255, 255}, {100, 64, 0, 1},
	}
	for _, a := range v4 {
		out = append(out, a, c12Mapped(a))
		// IPv4-compatible (deprecated ::a.b.c.d) and NAT64 forms: not the same address
		out = append(out, append(make([]byte, 12), a...))
	}
	v6 := []string{"::", "::1", "::2", "fbff:ffff:ffff:ffff:ffff:ffff:ffff:ffff", "fc00::", "fc00::1", "fd00::2", "fdff:ffff:ffff:ffff:ffff:ffff:ffff:ffff", "fe00::", "fe80::1", "2001:db8::1", "64:ff9b::7f00:1", "::fffe:7f00:1", "1::", "::1:0:0:0"}
	for _, s := range v6 {
		out = append(out, []byte(net.ParseIP(s).To16()))
	}
	return out
}

func c12RandIP(c *core.Ctx) []byte {
	switch c.Rand.Intn(6) {
	case 0:
		b := make([]byte, 4)
		c.Rand.Read(b)
		return b
	case 1:
		b := make([]byte, 16)
		c.Rand.Read(b)
		return b
	case 2: // interesting first octets
		b := make([]byte, 4)
		c.Rand.Read(b)
		b[0] = []byte{10, 127, 172, 192, 0, 9, 11, 126, 128}[c.Rand.Intn(9)]
		if c.Rand.Intn(2) == 0 {
			b[1] = []byte{15, 16, 31, 32, 167, 168, 169}[c.Rand.Intn(7)]
		}
		if c.Rand.Intn(2) == 0 {
			return c12Mapped(b)
		}
		return b
	case 3: // fc00::/7 neighbourhood
		b := make([]byte, 16)
		c.Rand.Read(b)
		b[0] = []byte{0xfb, 0xfc, 0xfd, 0xfe, 0x00}[c.Rand.Intn(5)]
		return b
	case 4: // almost mapped
		b := c12Mapped([]byte{127, 0, 0, 1})
		b[c.Rand.Intn(12)] ^= 1 << uint(c.Rand.Intn(8))
		return b
	default: // sparse
		b := make([]byte, 16)
		b[c.Rand.Intn(16)] = byte(c.Rand.Intn(256))
		return b
	}
}

func c12Req(cmd byte, d c12Dst) []byte {
	b := []byte{5, cmd, 0}
	switch d.Form {
	case "ipv4":
		b = append(b, 1)
		b = append(b, d.IP...)
	case "ipv6":
		b = append(b, 4)
		b = append(b, d.IP...)
	default:
		b = append(b, 3, byte(len(d.FQDN)))
		b = append(b, d.FQDN...)
	}
	return append(b, byte(d.Port>>8), byte(d.Port))
}

func c12IPDst(ip []byte, port int) c12Dst {
	if len(ip) == 4 {
		return c12Dst{IP: ip, Port: port, Form: "ipv4"}
	}
	return c12Dst{IP: ip, Port: port, Form: "ipv6"}
}

func c12RandCase(c *core.Ctx, s string) string {
	b := []byte(s)
	for i, ch := range b {
		if 'a' <= ch && ch <= 'z' && c.Rand.Intn(2) == 0 {
			b[i] = ch - 32
		}
	}
	return string(b)
}

func c12NameDsts(c *core.Ctx) []c12Dst {
	var names []string
	for _, n := range append(append([]string{}, c12Names4...), c12Names6...) {
		names = append(names, n, strings.ToUpper(n), strings.ToUpper(n[:1])+n[1:], c12RandCase(c, n), n+".", "x"+n, n+"x", n+".example.com", "www."+n)
	}
	names = append(names,
		"", "localhoſt", "LOCALHOſT", "ip6-loopbacK", "localhost\xff", "löcalhost", "LOCALHOST4.localdomain4",
		"127.0.0.1", "127.255.255.254", "10.0.0.1", "172.16.0.1", "192.168.1.1", "0.0.0.0", "::1", "::", "::ffff:127.0.0.1", "::ffff:10.1.2.3", "fd00::2", "[::1]", "127.1", "2130706433", "0x7f.0.0.1", "127.0.0.1.", "8.8.8.8", "2001:db8::1", "1.2.3.4.5",
		// IPv6 zones: the resolver drops the zone and returns the address; net.ParseIP rejects the text (audit GAP-1)
		"::1%x", "::1%", "::%1", "::ffff:127.0.0.1%1", "::ffff:10.0.0.1%eth0", "fd00::2%eth0", "fe80::1%eth0", "2001:db8::1%x", "127.0.0.1%1", "10.0.0.1%x", "localhost%x", "%", "%::1", "::1%x%y", "a%b",
		"example.com", "www.example.com", "notexample.com", "com", "EXAMPLE.COM", "a.b.example.com.", strings.Repeat("a", 255), strings.Repeat("a", 254), "a", "sentinel.test")
	var out []c12Dst
	for _, n := range names {
		out = append(out, c12Dst{FQDN: n, Port: 80, Form: "domain"})
	}
	return out
}

func strp(s string) *string { return &s }

var c12BaseUsers = []c12User{{"u0", false, false}, {"uL", false, true}, {"uP", true, false}, {"uLP", true, true}}

func c12EnvUsers() []*string {
	return []*string{nil, strp(""), strp("ghost"), strp("u0"), strp("uL"), strp("uP"), strp("uLP")}
}

func c12RuleSets(c *core.Ctx) [][]c12Rule {
	ipPool := []string{"*", "10.0.0.0/8", "127.0.0.0/8", "0.0.0.0/0", "::/0", "fc00::/7", "::1/128", "192.168.1.0/24", "8.8.8.0/24", "::ffff:10.0.0.0/104", "bogus", "10.0.0.1", "8.8.8.8/32", "0.0.0.0/32", "2001:db8::/32", "172.16.0.0/12", "127.0.0.1/33"}
	domPool := []string{"*", "example.com", "com", "localhost", "www.example.com", "", "test", "EXAMPLE.COM", "ocalhost"}
	acts := []string{"PROXY", "DIRECT", "REJECT"}
	namesPool := [][]string{nil, {"p1"}, {"p1", "p2"}, {"missing"}, {"p1", "missing"}, {""}}
	sets := [][]c12Rule{
		nil,
		{{IPRanges: []string{"*"}, Domains: []string{"*"}, Action: "PROXY", ProxyNames: []string{"p1"}}},
		{{IPRanges: []string{"*"}, Domains: []string{"*"}, Action: "REJECT"}},
		// overlapping: the narrower rule first, then the wider with the opposite action
		{{IPRanges: []string{"8.8.8.8/32"}, Domains: []string{"www.example.com"}, Action: "DIRECT"}, {IPRanges: []string{"8.8.8.0/24", "::/0"}, Domains: []string{"example.com"}, Action: "REJECT"}, {IPRanges: []string{"*"}, Domains: []string{"*"}, Action: "PROXY", ProxyNames: []string{"p2"}}},
		// the wider first
		{{IPRanges: []string{"0.0.0.0/0"}, Domains: []string{"com"}, Action: "REJECT"}, {IPRanges: []string{"10.0.0.0/8", "127.0.0.0/8"}, Domains: []string{"example.com"}, Action: "DIRECT"}},
	}
	for i := 0; i < 12; i++ {
		var rs []c12Rule
		for j := 0; j < 1+c.Rand.Intn(4); j++ {
			var r c12Rule
			for x := 0; x < c.Rand.Intn(3); x++ {
				r.IPRanges = append(r.IPRanges, ipPool[c.Rand.Intn(len(ipPool))])
			}
			for x := 0; x < c.Rand.Intn(3); x++ {
				r.Domains = append(r.Domains, domPool[c.Rand.Intn(len(domPool))])
			}
			r.Action = acts[c.Rand.Intn(3)]
			r.ProxyNames = namesPool[c.Rand.Intn(len(namesPool))]
			rs = append(rs, r)
		}
		sets = append(sets, rs)
	}
	return sets
}

// ---- round 5: rule lists × destination encodings (deterministic) ----------------------------------

func c12AltCase(s string) string {
	b := []byte(s)
	up := true
	for i, ch := range b {
		if 'a' <= ch && ch <= 'z' {
			if up {
				b[i] = ch - 32
			}
			up = !up
		} else if 'A' <= ch && ch <= 'Z' {
			if !up {
				b[i] = ch + 32
			}
			up = !up
		}
	}
	return string(b)
}

// c12LiteralTexts spells one address as the domain-typed texts a client may send for it.
func c12LiteralTexts(ip net.IP) []string {
	var out []string
	if v4 := ip.To4(); v4 != nil {
		dotted := fmt.Sprintf("%d.%d.%d.%d", v4[0], v4[1], v4[2], v4[3])
		out = append(out, dotted, "::ffff:"+dotted, "::FFFF:"+dotted,
			fmt.Sprintf("::ffff:%x:%x", int(v4[0])<<8|int(v4[1]), int(v4[2])<<8|int(v4[3])),
			fmt.Sprintf("0:0:0:0:0:FFFF:%02X%02X:%02X%02X", v4[0], v4[1], v4[2], v4[3]),
			"::ffff:"+dotted+"%1")
		return out
	}
	ip = ip.To16()
	var groups []string
	for i := 0; i < 16; i += 2 {
		groups = append(groups, fmt.Sprintf("%02X%02X", ip[i], ip[i+1]))
	}
	return []string{ip.String(), strings.ToUpper(ip.String()), strings.Join(groups, ":"), ip.String() + "%eth0"}
}

// c12Around: first and last address of a CIDR block and the two addresses just outside it.
func c12Around(n *net.IPNet) []net.IP {
	first := append(net.IP{}, n.IP...)
	last := append(net.IP{}, n.IP...)
	for i := range last {
		last[i] |= ^n.Mask[i]
	}
	step := func(ip net.IP, up bool) net.IP {
		o := append(net.IP{}, ip...)
		for i := len(o) - 1; i >= 0; i-- {
			if up {
				o[i]++
				if o[i] != 0 {
					return o
				}
			} else {
				o[i]--
				if o[i] != 0xff {
					return o
				}
			}
		}
		return nil // wrapped around: no such neighbour
	}
	out := []net.IP{first, last}
	if b := step(first, false); b != nil {
		out = append(out, b)
	}
	if a := step(last, true); a != nil {
		out = append(out, a)
	}
	return out
}

func c12EncodingCases() []c12Case {
	ruleSets := map[string][]c12Rule{
		"cidr-reject": {
			{IPRanges: []string{"10.0.0.0/8"}, Action: "REJECT"},
			{IPRanges: []string{"203.0.113.0/24"}, Action: "REJECT"},
			{IPRanges: []string{"198.51.100.7/32", "2001:db8:1::/48"}, Action: "PROXY", ProxyNames: []string{"p1"}},
			{IPRanges: []string{"fd00::/8"}, Action: "REJECT"},
		},
		"cidr-narrow-then-wide": {
			{IPRanges: []string{"203.0.113.128/25"}, Action: "DIRECT"},
			{IPRanges: []string{"::ffff:203.0.113.0/120"}, Action: "REJECT"},
			{IPRanges: []string{"2001:db8::/33"}, Action: "DIRECT"},
			{IPRanges: []string{"2001:db8::/32"}, Action: "REJECT"},
			{IPRanges: []string{"*"}, Action: "PROXY", ProxyNames: []string{"p2"}},
		},
		"suffix-reject": {
			{Domains: []string{"example.test"}, Action: "REJECT"},
			{Domains: []string{"test"}, Action: "DIRECT"},
			{Domains: []string{"*"}, Action: "PROXY", ProxyNames: []string{"p2"}},
		},
		"suffix-narrow-then-wide-uppercase-rule": {
			{Domains: []string{"www.example.test"}, Action: "DIRECT"},
			{Domains: []string{"EXAMPLE.Test", "Sub.Example.ORG"}, Action: "REJECT"},
			{Domains: []string{"*"}, Action: "PROXY", ProxyNames: []string{"p1"}},
		},
		"mixed": {
			{IPRanges: []string{"203.0.113.0/24"}, Domains: []string{"example.test"}, Action: "REJECT"},
			{IPRanges: []string{"*"}, Action: "PROXY", ProxyNames: []string{"p1"}},
			{Domains: []string{"*"}, Action: "DIRECT"},
		},
		"star-only-ip":     {{IPRanges: []string{"*"}, Action: "REJECT"}},
		"star-only-domain": {{Domains: []string{"*"}, Action: "REJECT"}},
	}
	order := []string{"cidr-reject", "cidr-narrow-then-wide", "suffix-reject", "suffix-narrow-then-wide-uppercase-rule", "mixed", "star-only-ip", "star-only-domain"}
	// every CIDR block and every rule name of every list, probed against every list
	var texts []string
	seen := map[string]bool{}
	add := func(t string) {
		if !seen[t] && len(t) <= 255 {
			seen[t] = true
			texts = append(texts, t)
		}
	}
	for _, name := range order {
		for _, r := range ruleSets[name] {
			for _, s := range r.IPRanges {
				if _, n, err := net.ParseCIDR(s); err == nil {
					for _, ip := range c12Around(n) {
						for _, t := range c12LiteralTexts(ip) {
							add(t)
						}
					}
				}
			}
			for _, dn := range r.Domains {
				if dn == "*" {
					continue
				}
				lo := c12AsciiLower(dn)
				for _, v := range []string{lo, strings.ToUpper(lo), c12AltCase(lo), strings.ToUpper(lo[:1]) + lo[1:]} {
					add(v)
					add("www." + v)
					add("WWW." + v)
					add("a.B." + v)
					add("x" + v)  // not a suffix on a label boundary
					add(v + "x")  // not the name
					add(v + ".x") // the name is not the suffix
				}
			}
		}
	}
	for _, t := range []string{"8.8.8.8", "::ffff:8.8.8.8", "2001:4860:4860::8888", "OTHER.Example", "plain.example"} {
		add(t)
	}
	var out []c12Case
	for _, name := range order {
		cfg := &c12Cfg{Users: c12BaseUsers, Rules: ruleSets[name], Proxies: []string{"p1", "p2"}}
		for _, t := range texts {
			for _, cmd := range []byte{1, 3} {
				for _, u := range []*string{strp("u0"), strp("uP"), strp("uLP")} {
					if cmd == 3 && *u != "u0" {
						continue
					}
					out = append(out, c12Case{Kind: "find", Cfg: cfg, User: u, Proto: 1, Label: name,
						Data: core.Hex(c12Req(cmd, c12Dst{FQDN: t, Port: 443, Form: "domain"}))})
				}
			}
		}
		// the same addresses IP-typed: the binary and the textual encoding must get the same rule
		for _, r := range ruleSets[name] {
			for _, s := range r.IPRanges {
				if _, n, err := net.ParseCIDR(s); err == nil {
					for _, ip := range c12Around(n) {
						forms := [][]byte{ip}
						if len(ip) == 4 {
							forms = append(forms, c12Mapped(ip))
						}
						for _, f := range forms {
							for _, u := range []*string{strp("u0"), strp("uP"), strp("uLP")} {
								out = append(out, c12Case{Kind: "find", Cfg: cfg, User: u, Proto: 1, Label: name,
									Data: core.Hex(c12Req(1, c12IPDst(f, 443)))})
							}
						}
					}
				}
			}
		}
	}
	return out
}

func c12Corpus(c *core.Ctx) {
	n := socksCorpus(c, func(raw json.RawMessage) {
		var k c12Case
		if json.Unmarshal(raw, &k) == nil {
			c12Run(c, k)
		}
	})
	c.Note("corpus cases run first: %d", n)
}

func init() {
	core.Register("C12", &core.Scenario{
		Run: func(c *core.Ctx) {
			c.Res.Rule = "ip: boundary addresses of every class in 4-byte, IPv4-mapped, IPv4-compatible and 16-byte form + random addresses; find: (address forms: all boundary addresses, well-known names in every case variant, exotic case folding, IP literals as text, ordinary names, empty host) × commands {CONNECT, BIND, UDP ASSOCIATE, invalid} × users {no Env, empty, unknown, no flags, each flag, both} × rule lists (none, catch-all, overlapping CIDR/suffix rules, random lists incl. invalid CIDRs and missing proxies) × AllowLoopbackDestination, plus malformed / truncated / wrong-protocol inputs; serve, udp: end to end through ServeConn with listeners on the host's loopback. Distinct = distinct (configuration, user, input); non-trivial = the request parses."
			c.Correspondence("ip-class: net.IP.IsLoopback/IsPrivate/IsUnspecified/To4 vs Mieru.Ip")
			c.Correspondence("egress: socks5.Server.FindAction vs Mieru.Egress.findAction")
			c.Correspondence("socks-req: socks5.Server.ServeConn (reply code + arrivals at loopback listeners) vs Mieru.Egress.serveRequest")
			c.Correspondence("socks-udp: ServeConn + UDP ASSOCIATE, both relay modes, per-datagram arrivals vs Mieru.Egress.relayDatagram")
			c12E2E = c12Listen(c)
			if c12E2E != nil {
				defer func() { c12E2E.Close(); c12E2E = nil }()
			}
			if ips, err := net.DefaultResolver.LookupIP(context.Background(), "ip", "LOCALHOST"); err == nil {
				c.Note("operating system resolver: LOCALHOST -> %v (the end-to-end scenarios use a deterministic stand-in resolver with the same case-insensitive behaviour)", ips)
			} else {
				c.Note("operating system resolver: LOCALHOST -> error %v", err)
			}
			c12Corpus(c)
			// ---- ip classes
			for _, ip := range c12BoundaryIPs() {
				c12Run(c, c12Case{Kind: "ip", IP: core.Hex(ip)})
			}
			for i := 0; i < c.N(3000, 60000); i++ {
				k := c12Case{Kind: "ip", IP: core.Hex(c12RandIP(c))}
				if i == 0 {
					c.Sample(k)
				}
				c12Run(c, k)
			}
			// ---- FindAction
			var dsts []c12Dst
			for _, ip := range c12BoundaryIPs() {
				dsts = append(dsts, c12IPDst(ip, 443))
			}
			dsts = append(dsts, c12NameDsts(c)...)
			ruleSets := c12RuleSets(c)
			users := c12EnvUsers()
			sampled := 0
			for si, rules := range ruleSets {
				for _, ald := range []bool{false, true} {
					if ald && si > 3 && !c.Thorough() {
						continue
					}
					cfg := &c12Cfg{Users: c12BaseUsers, Rules: rules, Proxies: []string{"p1", "p2"}, ALD: ald}
					if si%5 == 4 {
						cfg.Proxies = []string{"p2", "", "p1", "p1"}
					}
					for di, d := range dsts {
						for _, cmd := range []byte{1, 3, 2, 0, 9} {
							if (cmd == 2 || cmd == 0 || cmd == 9) && (di+si)%7 != 0 {
								continue
							}
							for ui, u := range users {
								if !c.Thorough() && si >= 5 && (di+ui+si)%3 != 0 {
									continue // random rule sets: a third of the product in the quick tier
								}
								k := c12Case{Kind: "find", Cfg: cfg, User: u, Proto: 1, Data: core.Hex(c12Req(cmd, d))}
								if sampled < 2 && di == 9 && cmd == 1 && ui == 3 {
									c.Sample(k)
									sampled++
								}
								c12Run(c, k)
							}
						}
					}
				}
			}
			// round 5 (GAP-2, EVERY run, no randomness): a rule speaks about a destination, not about its encoding
			for _, k := range c12EncodingCases() {
				c.Hist("rule_encoding", k.Label)
				c12Run(c, k)
			}
			// random addresses through a few configurations
			for i := 0; i < c.N(2000, 40000); i++ {
				cfg := &c12Cfg{Users: c12BaseUsers, Rules: ruleSets[c.Rand.Intn(len(ruleSets))], Proxies: []string{"p1", "p2"}, ALD: c.Rand.Intn(8) == 0}
				d := c12IPDst(c12RandIP(c), c.Rand.Intn(65536))
				c12Run(c, c12Case{Kind: "find", Cfg: cfg, User: users[c.Rand.Intn(len(users))], Proto: 1, Data: core.Hex(c12Req([]byte{1, 3}[c.Rand.Intn(2)], d))})
			}
			// malformed inputs
			cfgM := &c12Cfg{Users: c12BaseUsers, Rules: ruleSets[2], Proxies: []string{"p1"}}
			for i := 0; i < c.N(600, 8000); i++ {
				d := dsts[c.Rand.Intn(len(dsts))]
				req := c12Req([]byte{1, 3}[c.Rand.Intn(2)], d)
				proto := 1
				switch c.Rand.Intn(8) {
				case 0:
					req = req[:c.Rand.Intn(len(req))]
				case 1:
					req[0] = byte(c.Rand.Intn(256))
				case 2:
					req[3] = byte(c.Rand.Intn(256))
				case 3:
					req = append(req, make([]byte, 1+c.Rand.Intn(20))...)
				case 4:
					proto = []int{0, 2, 7}[c.Rand.Intn(3)]
				case 5:
					req = make([]byte, c.Rand.Intn(30))
					c.Rand.Read(req)
				case 6:
					req[2] = byte(c.Rand.Intn(256)) // reserved byte is not checked
				case 7:
					if req[3] == 3 {
						req[4] = byte(int(req[4]) + 1 + c.Rand.Intn(3))
					}
				}
				c12Run(c, c12Case{Kind: "find", Cfg: cfgM, User: users[c.Rand.Intn(len(users))], Proto: proto, Data: core.Hex(req)})
			}
			// ---- end to end
			if c12E2E == nil {
				return
			}
			plain := &c12Cfg{Users: c12BaseUsers}
			proxied := &c12Cfg{Users: c12BaseUsers, Proxies: []string{"p1"}, Rules: []c12Rule{{IPRanges: []string{"127.0.0.0/8"}, Domains: []string{"sentinel.test"}, Action: "PROXY", ProxyNames: []string{"p1"}}}}
			rejecting := &c12Cfg{Users: c12BaseUsers, Rules: []c12Rule{{IPRanges: []string{"127.0.0.0/8", "::1/128"}, Domains: []string{"test"}, Action: "REJECT"}}}
			ald := &c12Cfg{Users: c12BaseUsers, ALD: true}
			type e2eDst struct {
				d   c12Dst
				lis string
			}
			e2e := []e2eDst{
				{c12IPDst([]byte{127, 0, 0, 1}, 0), "tcp4"},
				{c12IPDst(c12Mapped([]byte{127, 0, 0, 1}), 0), "tcp4"},
				{c12IPDst([]byte{0, 0, 0, 0}, 0), "tcp4"},
				{c12IPDst(c12Mapped([]byte{0, 0, 0, 0}), 0), "tcp4"},
				{c12IPDst(net.ParseIP("::1").To16(), 0), "tcp6"},
				{c12IPDst(net.ParseIP("::").To16(), 0), "tcp6"},
				{c12Dst{FQDN: "", Form: "domain"}, "tcp4"},
				{c12Dst{FQDN: "localhost", Form: "domain"}, "tcp4"},
				{c12Dst{FQDN: "LOCALHOST", Form: "domain"}, "tcp4"},
				{c12Dst{FQDN: "Localhost", Form: "domain"}, "tcp4"},
				{c12Dst{FQDN: "LocalHost4.LocalDomain4", Form: "domain"}, "tcp4"},
				{c12Dst{FQDN: "IP6-LOOPBACK", Form: "domain"}, "tcp6"},
				{c12Dst{FQDN: "ip6-localhost", Form: "domain"}, "tcp6"},
				{c12Dst{FQDN: "127.0.0.1", Form: "domain"}, "tcp4"},
				{c12Dst{FQDN: "0.0.0.0", Form: "domain"}, "tcp4"},
				{c12Dst{FQDN: "::1", Form: "domain"}, "tcp6"},
				{c12Dst{FQDN: "::ffff:127.0.0.1", Form: "domain"}, "tcp4"},
				{c12Dst{FQDN: "::1%x", Form: "domain"}, "tcp6"}, // zoned literals: the resolver drops the zone
				{c12Dst{FQDN: "::ffff:127.0.0.1%1", Form: "domain"}, "tcp4"},
				{c12Dst{FQDN: "::%1", Form: "domain"}, "tcp6"},
				{c12Dst{FQDN: "sentinel.test", Form: "domain"}, "tcp4"}, // an ordinary name: never refused by step 1
				{c12Dst{FQDN: "rebind.test6", Form: "domain"}, "tcp6"},
			}
			for _, cfg := range []*c12Cfg{plain, proxied, rejecting, ald} {
				for _, e := range e2e {
					for _, u := range []*string{nil, strp("ghost"), strp("u0"), strp("uL"), strp("uP")} {
						if cfg != plain && (u == nil || *u == "ghost" || *u == "uP") && !c.Thorough() {
							continue
						}
						k := c12Case{Kind: "serve", Cfg: cfg, User: u, Data: core.Hex(c12Req(1, e.d)), Listener: e.lis}
						c12Run(c, k)
					}
				}
			}
			// BIND / UDP ASSOCIATE / unknown commands through ServeConn: resolution happens before the dispatch on the
			// command (04 when it fails), a literal loopback / local name / private address in an ASSOCIATE is refused
			for _, cfg := range []*c12Cfg{plain, rejecting} {
				for _, cmd := range []byte{3, 2, 9} {
					for _, d := range []c12Dst{
						{FQDN: "nxdomain.invalid", Form: "domain"}, {FQDN: "sentinel.test", Form: "domain"}, {FQDN: "LOCALHOST", Form: "domain"},
						{FQDN: "::1%x", Form: "domain"}, {FQDN: "10.0.0.1", Form: "domain"}, {FQDN: "", Form: "domain"},
						c12IPDst([]byte{127, 0, 0, 1}, 7), c12IPDst([]byte{10, 0, 0, 1}, 7), c12IPDst([]byte{0, 0, 0, 0}, 0), c12IPDst([]byte{8, 8, 8, 8}, 7),
					} {
						for _, u := range []*string{strp("u0"), strp("uL"), strp("uP")} {
							if cmd != 3 && *u != "u0" && !c.Thorough() {
								continue
							}
							c12Run(c, c12Case{Kind: "serve", Cfg: cfg, User: u, Data: core.Hex(c12Req(cmd, d)), Listener: "tcp4", Label: "other-command"})
						}
					}
				}
			}
			// a CONNECT to a name the resolver cannot resolve: 04, nothing dialled
			c12Run(c, c12Case{Kind: "serve", Cfg: plain, User: strp("u0"), Data: core.Hex(c12Req(1, c12Dst{FQDN: "nxdomain.invalid", Form: "domain"})), Listener: "tcp4", Label: "unresolvable"})
			// UDP associations
			hdr := func(d c12Dst) string { return core.Hex(append([]byte{0, 0, 0}, c12Req(0, d)[3:]...)) }
			type udpDst struct {
				d   c12Dst
				lis string
			}
			udps := []udpDst{
				{c12IPDst([]byte{127, 0, 0, 1}, 0), "udp4"},
				{c12IPDst(c12Mapped([]byte{127, 0, 0, 1}), 0), "udp4"},
				{c12IPDst([]byte{0, 0, 0, 0}, 0), "?udp4"},
				{c12IPDst(net.ParseIP("::1").To16(), 0), "udp6"},
				{c12IPDst(net.ParseIP("::").To16(), 0), "?udp6"},
				{c12Dst{FQDN: "LOCALHOST", Form: "domain"}, "udp4"},
				{c12Dst{FQDN: "localhost", Form: "domain"}, "udp4"},
				{c12Dst{FQDN: "127.0.0.1", Form: "domain"}, "udp4"},
				{c12Dst{FQDN: "ip6-loopback", Form: "domain"}, "udp6"},
				{c12Dst{FQDN: "::1%x", Form: "domain"}, "udp6"},
				{c12Dst{FQDN: "::ffff:127.0.0.1%1", Form: "domain"}, "udp4"},
				{c12Dst{FQDN: "other.test", Form: "domain"}, "udp4"},
				{c12Dst{FQDN: "other.test6", Form: "domain"}, "udp6"},
			}
			// malformed datagrams inside an association: skipped in datagram mode, the end of the loop in
			// packet-over-stream mode (nothing behind them is relayed)
			for _, mode := range []string{"stream", "datagram"} {
				for _, bad := range []string{"000001", "00000101020304", "0100000108080808003561", "0000010108080808003561", "00000009080808080035", "000000037f", "-"} {
					okH := hdr(c12Dst{FQDN: "other.test", Form: "domain"})
					noH := hdr(c12IPDst([]byte{127, 0, 0, 1}, 0))
					c12Run(c, c12Case{Kind: "udp", Mode: mode, Cfg: plain, User: strp("u0"),
						Datagrams: []string{okH, noH, bad, okH, noH}, Listeners: []string{"udp4", "udp4", "!", "udp4", "udp4"}, Label: "malformed"})
				}
			}
			for _, mode := range []string{"stream", "datagram"} {
				for _, cfg := range []*c12Cfg{plain, ald} {
					for _, u := range []*string{nil, strp("u0"), strp("uL"), strp("uP"), strp("uLP")} {
						var hs, ls []string
						for _, x := range udps {
							hs = append(hs, hdr(x.d))
							ls = append(ls, x.lis)
						}
						// one association carrying all of them, then one association per datagram
						c12Run(c, c12Case{Kind: "udp", Mode: mode, Cfg: cfg, User: u, Datagrams: hs, Listeners: ls, Label: "all"})
						// EVERY quick run: one association in which every header is sent THREE times, refused and
						// allowed destinations interleaved (a refused destination must stay refused: seeded C12-3)
						if cfg == plain {
							var h3, l3 []string
							for r := 0; r < 3; r++ {
								h3 = append(h3, hs...)
								l3 = append(l3, ls...)
							}
							c12Run(c, c12Case{Kind: "udp", Mode: mode, Cfg: cfg, User: u, Datagrams: h3, Listeners: l3, Label: "thrice"})
						}
						if cfg == plain && (c.Thorough() || u != nil && *u == "u0") {
							for i := range hs {
								c12Run(c, c12Case{Kind: "udp", Mode: mode, Cfg: cfg, User: u, Datagrams: hs[i : i+1], Listeners: ls[i : i+1], Label: "single"})
							}
						}
					}
				}
			}
			// round 4 (seeded C12-6: a per-association verdict cache keyed by string(dst.IP) — every domain-typed
			// destination shares the key ""): EVERY run, within ONE association, an ordinary public name FIRST and only
			// then the forbidden names / literals-as-names, then the public name again and the forbidden ones once more;
			// also the mirror image (a forbidden name first, then the public name, which must still be relayed).
			{
				nm := func(s, lis string) udpDst { return udpDst{c12Dst{FQDN: s, Form: "domain"}, lis} }
				forbidden := []udpDst{
					nm("localhost", "udp4"), nm("LocalHost", "udp4"), nm("ip6-localhost", "udp6"), nm("127.0.0.1", "udp4"),
					nm("LOCALHOST4.localdomain4", "udp4"), nm("::1", "udp6"), nm("::ffff:127.0.0.1", "udp4"), nm("", "udp4"),
					{c12IPDst([]byte{127, 0, 0, 1}, 0), "udp4"}, {c12IPDst(net.ParseIP("::1").To16(), 0), "udp6"},
				}
				pub4, pub6 := nm("first.test", "udp4"), nm("first.test6", "udp6")
				orders := map[string][]udpDst{}
				orders["public-name-first"] = append(append(append([]udpDst{pub4}, forbidden...), pub6, pub4), forbidden...)
				orders["forbidden-name-first"] = append(append([]udpDst{forbidden[0], pub4, forbidden[3], pub6}, forbidden...), pub4)
				// an IP-typed allowed header first, then names (a cache keyed by the name alone: IP-typed headers share "")
				orders["public-name-then-ip"] = []udpDst{pub4, forbidden[8], forbidden[9], forbidden[0], pub6, forbidden[8]}
				for _, mode := range []string{"stream", "datagram"} {
					for _, u := range []*string{nil, strp("u0"), strp("uP"), strp("uL"), strp("uLP")} {
						for _, label := range []string{"public-name-first", "forbidden-name-first", "public-name-then-ip"} {
							var hs, ls []string
							for _, x := range orders[label] {
								hs = append(hs, hdr(x.d))
								ls = append(ls, x.lis)
							}
							c.Hist("udp_order", mode+"/"+label)
							c12Run(c, c12Case{Kind: "udp", Mode: mode, Cfg: plain, User: u, Datagrams: hs, Listeners: ls, Label: label})
						}
					}
				}
			}
			c.Note("scope boundary, NOT a violation (property text lists literal addresses, the empty/unspecified host and the well-known names; theorem resolved_name_reaches_loopback_witness): %d CONNECTs and %d relayed datagrams by users without the loopback flag to ordinary names (*.test) that the stand-in resolver maps to 127.0.0.1 / ::1 were dialled and arrived at the loopback listeners — the resolver's answer is not classified again", c12ScopeConnect, c12ScopeDatagram)
		},
		Replay: func(c *core.Ctx, raw json.RawMessage) {
			var k c12Case
			if json.Unmarshal(raw, &k) != nil {
				return
			}
			if k.Kind == "serve" || k.Kind == "udp" {
				c12E2E = c12Listen(c)
				if c12E2E != nil {
					defer func() { c12E2E.Close(); c12E2E = nil }()
				}
			}
			c12Run(c, k)
		},
	})
}
