package props

import (
	"bytes"
	"fmt"
	"io"
	"net"
	"strings"
	"sync"
	"time"

	apicommon "github.com/enfein/mieru/v3/apis/common"
	"github.com/enfein/mieru/v3/pkg/socks5"
	"verifharness/core"
)

// C18, real-socket part: RunUDPAssociateLoop and BidiCopyUDP between an in-memory re-chunking
// tunnel and UDP sockets on the sandbox loopback (ports chosen by the OS).
//
// Robustness rules: everything is lock-step (one datagram in flight, the sink is already blocked in
// ReadFromUDP), so loopback cannot drop or reorder; every wait has a 15 s ceiling (measured: well
// under 5 ms per datagram); nothing depends on goroutine timing except "no stray datagram", which
// is checked after a barrier datagram has passed through the same relay goroutine.

const c18Wait = 15 * time.Second

type c18SinkSpec struct {
	V6   bool `json:"v6,omitempty"`
	Echo bool `json:"echo,omitempty"`
	// Defer: the sink keeps its replies until a "release" step names it, so that datagrams for other
	// hosts pass through the relay between a datagram and its reply
	Defer bool `json:"defer,omitempty"`
}

type c18NetStep struct {
	// ip | mapped (IPv4 inside ATYP 4) | domain (injected resolver) | literal (IP text as FQDN) |
	// unresolvable | empty-domain | stranger (a host the relay never sent to writes to the relay) |
	// release (sink Dest, a deferring sink, now sends the oldest reply it kept)
	Form    string `json:"form"`
	Dest    int    `json:"dest"`
	Payload string `json:"payload"`
}

type c18NetCase struct {
	Sinks    []c18SinkSpec `json:"sinks,omitempty"`
	Steps    []c18NetStep  `json:"steps,omitempty"`
	CutsA    []int         `json:"cuts_relay,omitempty"`   // how the relay's reads of the tunnel are cut
	CutsB    []int         `json:"cuts_harness,omitempty"` // how the harness's reads are cut
	End      string        `json:"end,omitempty"`          // close | frag | short | rsv
	Up       []string      `json:"up,omitempty"`           // bidi: application → tunnel
	Down     []string      `json:"down,omitempty"`         // bidi: tunnel → application
	Intruder bool          `json:"intruder,omitempty"`     // bidi: a second endpoint writes to the socket
}

type c18Got struct {
	payload []byte
	from    *net.UDPAddr
}

type c18Sink struct {
	idx  int
	spec c18SinkSpec
	conn *net.UDPConn
	addr *net.UDPAddr
	ch   chan c18Got
	wg   sync.WaitGroup

	mu      sync.Mutex
	pending []c18Got // Defer: replies not yet sent (payload = the reply, from = where it goes)
}

func c18HasV6() bool {
	c, err := net.ListenUDP("udp6", &net.UDPAddr{IP: net.IPv6loopback})
	if err != nil {
		return false
	}
	c.Close()
	return true
}

func c18StartSink(idx int, spec c18SinkSpec) (*c18Sink, error) {
	network, ip := "udp4", net.IPv4(127, 0, 0, 1)
	if spec.V6 {
		network, ip = "udp6", net.IPv6loopback
	}
	conn, err := net.ListenUDP(network, &net.UDPAddr{IP: ip})
	if err != nil {
		return nil, err
	}
	conn.SetReadBuffer(1 << 20)
	s := &c18Sink{idx: idx, spec: spec, conn: conn, addr: conn.LocalAddr().(*net.UDPAddr), ch: make(chan c18Got, 256)}
	s.wg.Add(1)
	go func() {
		defer s.wg.Done()
		buf := make([]byte, 1<<16)
		for {
			n, from, err := conn.ReadFromUDP(buf)
			if err != nil {
				return
			}
			p := append([]byte(nil), buf[:n]...)
			s.ch <- c18Got{payload: p, from: from}
			if spec.Echo {
				conn.WriteToUDP(c18EchoReply(idx, p), from)
			} else if spec.Defer {
				s.mu.Lock()
				s.pending = append(s.pending, c18Got{payload: c18EchoReply(idx, p), from: from})
				s.mu.Unlock()
			}
		}
	}()
	return s, nil
}

func c18EchoReply(idx int, p []byte) []byte {
	r := make([]byte, 0, len(p)+1)
	r = append(r, byte(0xe0+idx))
	for i := len(p) - 1; i >= 0; i-- {
		r = append(r, p[i])
	}
	return r
}

func (s *c18Sink) stop() {
	s.conn.Close()
	s.wg.Wait()
}

// c18FrameReader decodes frames from the harness end of the tunnel with the harness's own decoder.
type c18FrameReader struct {
	conn *c18Conn
	ch   chan []byte
	raw  []byte
	err  error
	done chan struct{}
}

func c18StartFrameReader(conn *c18Conn) *c18FrameReader {
	fr := &c18FrameReader{conn: conn, ch: make(chan []byte, 1024), done: make(chan struct{})}
	go func() {
		defer close(fr.done)
		full := func(n int) ([]byte, error) {
			b := make([]byte, n)
			_, err := io.ReadFull(conn, b)
			fr.raw = append(fr.raw, b...)
			return b, err
		}
		for {
			h, err := full(3)
			if err != nil {
				fr.err = err
				return
			}
			if h[0] != 0 {
				fr.err = fmt.Errorf("relay wrote start marker 0x%02x", h[0])
				return
			}
			d, err := full(int(h[1])<<8 | int(h[2]))
			if err != nil {
				fr.err = err
				return
			}
			e, err := full(1)
			if err != nil || e[0] != 0xff {
				fr.err = fmt.Errorf("relay wrote end marker %x (%v)", e, err)
				return
			}
			fr.ch <- d
		}
	}()
	return fr
}

func (fr *c18FrameReader) next() ([]byte, error) {
	select {
	case d := <-fr.ch:
		return d, nil
	case <-fr.done:
		select {
		case d := <-fr.ch:
			return d, nil
		default:
		}
		return nil, fmt.Errorf("tunnel ended: %v", fr.err)
	case <-time.After(c18Wait):
		return nil, fmt.Errorf("no frame within %v", c18Wait)
	}
}

func c18IPHex(ip net.IP) string { return core.Hex(c18CanonIP(ip)) }

// c18Assoc drives one association through RunUDPAssociateLoop.
func c18Assoc(c *core.Ctx, k c18Case) {
	nc := k.Net
	if nc == nil {
		return
	}
	hasV6 := c18HasV6()
	for _, s := range nc.Sinks {
		if s.V6 && !hasV6 {
			c.Hist("assoc", "skipped-no-ipv6")
			return
		}
	}
	c.Eval(fmt.Sprintf("assoc/%+v", *nc), true)
	var sinks []*c18Sink
	defer func() {
		for _, s := range sinks {
			s.stop()
		}
	}()
	resolver := c18Resolver{}
	if m := c.Model.Ask("assoc-new"); m != "ok" {
		c.Disagree("C18/corr/assoc-new", m, k)
		return
	}
	byAddr := map[string]int{}
	for i, spec := range nc.Sinks {
		s, err := c18StartSink(i, spec)
		if err != nil {
			c.Note("C18 assoc: cannot open sink socket: %v (case skipped)", err)
			c.Res.Discarded++
			return
		}
		sinks = append(sinks, s)
		name := fmt.Sprintf("sink%d.test", i)
		resolver[name] = s.addr.IP
		c.Model.Ask("assoc-host %s %s", core.Hex([]byte(name)), c18IPHex(s.addr.IP))
		lit := s.addr.IP.String()
		c.Model.Ask("assoc-host %s %s", core.Hex([]byte(lit)), c18IPHex(s.addr.IP))
		byAddr[fmt.Sprintf("%s/%d", c18IPHex(s.addr.IP), s.addr.Port)] = i
	}
	listenIP := net.IPv4zero
	if hasV6 {
		listenIP = net.IPv6unspecified
	}
	udpConn, err := net.ListenUDP("udp", &net.UDPAddr{IP: listenIP})
	if err != nil {
		c.Note("C18 assoc: cannot open relay socket: %v (case skipped)", err)
		c.Res.Discarded++
		return
	}
	relayPort := udpConn.LocalAddr().(*net.UDPAddr).Port
	a, b := c18Pipe(nc.CutsA, nc.CutsB)
	done := make(chan error, 1)
	go func() {
		var err error
		defer func() {
			if p := recover(); p != nil {
				err = fmt.Errorf("panic:%v", p)
			}
			done <- err
		}()
		err = socks5.RunUDPAssociateLoop(udpConn, apicommon.NewPacketOverStreamTunnel(a), resolver)
	}()
	fr := c18StartFrameReader(b)
	stranger, _ := net.ListenUDP("udp4", &net.UDPAddr{IP: net.IPv4(127, 0, 0, 1)})
	if stranger != nil {
		defer stranger.Close()
	}
	finished := false
	defer func() {
		if !finished {
			b.Close()
			udpConn.Close()
			select {
			case <-done:
			case <-time.After(c18Wait):
			}
		}
	}()

	header := func(st c18NetStep) []byte {
		h := []byte{0, 0, 0}
		var s *c18Sink
		if st.Dest >= 0 && st.Dest < len(sinks) {
			s = sinks[st.Dest]
		}
		port := 9
		if s != nil {
			port = s.addr.Port
		}
		switch st.Form {
		case "ip":
			ip := c18CanonIP(s.addr.IP)
			if len(ip) == 4 {
				h = append(h, 1)
			} else {
				h = append(h, 4)
			}
			h = append(h, ip...)
		case "mapped":
			h = append(h, 4)
			h = append(h, s.addr.IP.To16()...)
		case "domain":
			n := fmt.Sprintf("sink%d.test", st.Dest)
			h = append(h, 3, byte(len(n)))
			h = append(h, n...)
		case "literal":
			n := s.addr.IP.String()
			h = append(h, 3, byte(len(n)))
			h = append(h, n...)
		case "unresolvable":
			n := "nowhere.invalid"
			h = append(h, 3, byte(len(n)))
			h = append(h, n...)
		case "empty-domain":
			h = append(h, 3, 0)
		}
		return append(h, byte(port>>8), byte(port))
	}

	sendUp := func(pkt []byte) bool {
		if _, err := b.Write(c18Frame(pkt)); err != nil {
			c.Violate("C18/assoc/tunnel-closed-early", fmt.Sprintf("tunnel write failed: %v", err), k)
			return false
		}
		return true
	}

	usedForms := map[int]map[string]bool{}
	for si, st := range nc.Steps {
		payload := core.UnHex(st.Payload)
		c.Hist("assoc_form", st.Form)
		c.Hist("assoc_payload_size", core.SizeBucket(len(payload)))
		if st.Form == "stranger" {
			if stranger == nil {
				continue
			}
			if _, err := stranger.WriteToUDP(payload, &net.UDPAddr{IP: net.IPv4(127, 0, 0, 1), Port: relayPort}); err != nil {
				c.Note("C18 assoc: stranger write failed: %v", err)
				continue
			}
			sa := stranger.LocalAddr().(*net.UDPAddr)
			got, err := fr.next()
			if err != nil {
				c.Violate("C18/assoc/reply-lost", fmt.Sprintf("step %d: datagram from a fresh host never reached the tunnel: %v", si, err), k)
				return
			}
			m := c.Model.Ask("assoc-down %s %d %s", c18IPHex(sa.IP), sa.Port, core.Hex(payload))
			c.Compared()
			if m != "ok "+core.Hex(got) {
				c.Disagree("C18/corr/assoc-down", fmt.Sprintf("step %d (stranger): model %s impl %s", si, c18Short(m), c18Short(core.Hex(got))), k)
			}
			want := append([]byte{0, 0, 0, 1, 127, 0, 0, 1, byte(sa.Port >> 8), byte(sa.Port)}, payload...)
			if !bytes.Equal(got, want) {
				c.Violate("C18/assoc/reply-header/fresh-host", fmt.Sprintf("step %d: reply from %v came out as %s", si, sa, c18Short(core.Hex(got))), k)
			}
			continue
		}
		if st.Form == "release" {
			s := sinks[st.Dest]
			s.mu.Lock()
			var rep *c18Got
			if len(s.pending) > 0 {
				r := s.pending[0]
				s.pending = s.pending[1:]
				rep = &r
			}
			s.mu.Unlock()
			if rep == nil {
				continue
			}
			if _, err := s.conn.WriteToUDP(rep.payload, rep.from); err != nil {
				c.Note("C18 assoc: deferred reply write failed: %v", err)
				continue
			}
			gotf, err := fr.next()
			if err != nil {
				c.Violate("C18/assoc/reply-lost", fmt.Sprintf("step %d: deferred reply of sink %d never reached the tunnel: %v", si, st.Dest, err), k)
				return
			}
			md := c.Model.Ask("assoc-down %s %d %s", c18IPHex(s.addr.IP), s.addr.Port, core.Hex(rep.payload))
			c.Compared()
			if md != "ok "+core.Hex(gotf) {
				c.Disagree("C18/corr/assoc-down", fmt.Sprintf("step %d (deferred): model %s impl %s", si, c18Short(md), c18Short(core.Hex(gotf))), k)
			}
			// direct: the reply names the replying host — in a form the client used for it, or as its
			// literal address — whatever went to other hosts in between
			ok := bytes.Equal(gotf, append(header(c18NetStep{Form: "ip", Dest: st.Dest}), rep.payload...))
			for f := range usedForms[st.Dest] {
				if bytes.Equal(gotf, append(header(c18NetStep{Form: f, Dest: st.Dest}), rep.payload...)) {
					ok = true
				}
			}
			if !ok {
				c.Violate("C18/assoc/reply-header/deferred", fmt.Sprintf("step %d: reply of sink %d (%v), sent after datagrams for other hosts, came out as %s", si, st.Dest, s.addr, c18Short(core.Hex(gotf))), k)
			}
			continue
		}
		pkt := append(header(st), payload...)
		m := c.Model.Ask("assoc-up %s", core.Hex(pkt))
		c.Compared()
		mf := strings.Fields(m)
		if !sendUp(pkt) {
			return
		}
		// what the property itself demands for this step
		wantSink := -1
		switch st.Form {
		case "ip", "mapped", "domain", "literal":
			wantSink = st.Dest
		}
		modelSink := -1
		if len(mf) == 5 && mf[1] == "send" {
			if i, ok := byAddr[mf[2]+"/"+mf[3]]; ok {
				modelSink = i
			} else {
				modelSink = -2
			}
		}
		if modelSink != wantSink || (wantSink >= 0 && mf[4] != core.Hex(payload)) {
			c.Disagree("C18/corr/assoc-up", fmt.Sprintf("step %d form %s: model action %s, header names sink %d", si, st.Form, c18Short(m), wantSink), k)
		}
		if wantSink < 0 {
			continue // nothing must arrive anywhere; checked after the barrier
		}
		if usedForms[wantSink] == nil {
			usedForms[wantSink] = map[string]bool{}
		}
		usedForms[wantSink][st.Form] = true
		s := sinks[wantSink]
		var got c18Got
		select {
		case got = <-s.ch:
		case <-time.After(c18Wait):
			c.Violate("C18/assoc/lost/"+st.Form, fmt.Sprintf("step %d: datagram (%d bytes) for sink %d (%v) did not arrive within %v", si, len(payload), wantSink, s.addr, c18Wait), k)
			return
		}
		if !bytes.Equal(got.payload, payload) {
			c.Violate("C18/assoc/content/"+st.Form, fmt.Sprintf("step %d: sink %d received %d bytes, %d were sent", si, wantSink, len(got.payload), len(payload)), k)
		}
		if got.from.Port != relayPort {
			c.Violate("C18/assoc/source", fmt.Sprintf("step %d: datagram came from port %d, relay socket is %d", si, got.from.Port, relayPort), k)
		}
		if s.spec.Echo {
			reply := c18EchoReply(s.idx, payload)
			gotf, err := fr.next()
			if err != nil {
				c.Violate("C18/assoc/reply-lost", fmt.Sprintf("step %d: reply of sink %d never reached the tunnel: %v", si, wantSink, err), k)
				return
			}
			md := c.Model.Ask("assoc-down %s %d %s", c18IPHex(s.addr.IP), s.addr.Port, core.Hex(reply))
			c.Compared()
			if md != "ok "+core.Hex(gotf) {
				c.Disagree("C18/corr/assoc-down", fmt.Sprintf("step %d: model %s impl %s", si, c18Short(md), c18Short(core.Hex(gotf))), k)
			}
			// direct: the reply carries the replying host's address — in the form the client used for
			// this host, or as its literal IP address — followed by exactly the reply bytes
			want := append(header(st), reply...)
			literal := append(header(c18NetStep{Form: "ip", Dest: wantSink}), reply...)
			if !bytes.Equal(gotf, want) && !bytes.Equal(gotf, literal) {
				c.Violate("C18/assoc/reply-header/"+st.Form, fmt.Sprintf("step %d: reply of sink %d came out as %s, want %s", si, wantSink, c18Short(core.Hex(gotf)), c18Short(core.Hex(want))), k)
			}
		}
	}
	// barrier: one more datagram through the same relay goroutine, then nothing may be pending
	if len(sinks) > 0 {
		bar := []byte("barrier")
		pkt := append(header(c18NetStep{Form: "ip", Dest: 0}), bar...)
		c.Model.Ask("assoc-up %s", core.Hex(pkt))
		if !sendUp(pkt) {
			return
		}
		select {
		case got := <-sinks[0].ch:
			if !bytes.Equal(got.payload, bar) {
				c.Violate("C18/assoc/misdelivered", fmt.Sprintf("sink 0 received an unexpected datagram of %d bytes", len(got.payload)), k)
			}
		case <-time.After(c18Wait):
			c.Violate("C18/assoc/lost/barrier", "relay stopped forwarding (barrier datagram lost)", k)
			return
		}
		if sinks[0].spec.Echo {
			if _, err := fr.next(); err != nil {
				c.Violate("C18/assoc/reply-lost", "barrier reply lost: "+err.Error(), k)
				return
			}
		}
		time.Sleep(20 * time.Millisecond)
		for i, s := range sinks {
			select {
			case got := <-s.ch:
				c.Violate("C18/assoc/misdelivered", fmt.Sprintf("sink %d received a datagram (%d bytes) no header named", i, len(got.payload)), k)
			default:
			}
		}
		select {
		case d := <-fr.ch:
			c.Violate("C18/assoc/stray-reply", fmt.Sprintf("an unexpected datagram of %d bytes was written to the tunnel", len(d)), k)
		default:
		}
	}
	// end of the association
	wantEnd := "eof"
	switch nc.End {
	case "frag", "short", "rsv":
		pkt := map[string][]byte{
			"frag":  {0, 0, 1, 1, 127, 0, 0, 1, 0, 9, 'x'},
			"short": {0, 0, 0, 1, 127, 0},
			"rsv":   {0, 7, 0, 1, 127, 0, 0, 1, 0, 9, 'x'},
		}[nc.End]
		m := c.Model.Ask("assoc-up %s", core.Hex(pkt))
		c.Compared()
		wantEnd = map[string]string{"frag": "unsupported", "short": "no-enough-data", "rsv": "invalid-argument"}[nc.End]
		if m != "ok stop "+wantEnd {
			c.Disagree("C18/corr/assoc-up", fmt.Sprintf("malformed datagram (%s): model %s", nc.End, m), k)
		}
		sendUp(pkt)
	default:
		b.w.close() // the harness stops writing: the relay reads EOF
	}
	select {
	case err := <-done:
		finished = true
		c.Hist("assoc_end", c18HdrErr(err)+"/"+c18PosErr(err))
		got := c18HdrErr(err)
		if wantEnd == "eof" {
			got = c18PosErr(err)
		}
		if got != wantEnd {
			c.Violate("C18/assoc/end/"+nc.End, fmt.Sprintf("RunUDPAssociateLoop returned %v, want %s", err, wantEnd), k)
		}
	case <-time.After(c18Wait):
		c.Violate("C18/assoc/no-return/"+nc.End, fmt.Sprintf("RunUDPAssociateLoop still running %v after the tunnel ended", c18Wait), k)
	}
	b.Close()
}

// c18Bidi drives BidiCopyUDP: application socket <-> tunnel.
func c18Bidi(c *core.Ctx, k c18Case) {
	nc := k.Net
	if nc == nil {
		return
	}
	c.Eval(fmt.Sprintf("bidi/%+v", *nc), true)
	udpConn, err := net.ListenUDP("udp4", &net.UDPAddr{IP: net.IPv4(127, 0, 0, 1)})
	if err != nil {
		c.Res.Discarded++
		return
	}
	app, err := net.ListenUDP("udp4", &net.UDPAddr{IP: net.IPv4(127, 0, 0, 1)})
	if err != nil {
		udpConn.Close()
		c.Res.Discarded++
		return
	}
	defer app.Close()
	app.SetReadBuffer(1 << 20)
	relayAddr := udpConn.LocalAddr().(*net.UDPAddr)
	a, b := c18Pipe(nc.CutsA, nc.CutsB)
	done := make(chan error, 1)
	go func() {
		var err error
		defer func() {
			if p := recover(); p != nil {
				err = fmt.Errorf("panic:%v", p)
			}
			done <- err
		}()
		err = socks5.BidiCopyUDP(udpConn, apicommon.NewPacketOverStreamTunnel(a))
	}()
	fr := c18StartFrameReader(b)
	finished := false
	defer func() {
		if !finished {
			b.Close()
			select {
			case <-done:
			case <-time.After(c18Wait):
			}
		}
	}()
	var ups [][]byte
	for i, h := range nc.Up {
		d := core.UnHex(h)
		c.Hist("bidi_up_size", core.SizeBucket(len(d)))
		if _, err := app.WriteToUDP(d, relayAddr); err != nil {
			c.Note("C18 bidi: application write failed: %v", err)
			c.Res.Discarded++
			return
		}
		got, err := fr.next()
		if err != nil {
			c.Violate("C18/bidi/up-lost", fmt.Sprintf("application datagram %d (%d bytes) never reached the tunnel: %v", i, len(d), err), k)
			return
		}
		if !bytes.Equal(got, d) {
			c.Violate("C18/bidi/up-content", fmt.Sprintf("application datagram %d: %d bytes sent, %d framed", i, len(d), len(got)), k)
		}
		ups = append(ups, d)
	}
	if len(ups) > 0 {
		args := make([]string, len(ups))
		for i, d := range ups {
			args[i] = core.Hex(d)
		}
		m := c.Model.Ask("pos-enc %s", strings.Join(args, " "))
		c.Compared()
		// fr.raw is written by the reader goroutine; every frame counted in `ups` was completely
		// appended before fr.ch delivered it, and nothing else is in flight (lock-step)
		if m != "ok "+core.Hex(fr.raw) {
			c.Disagree("C18/corr/bidi-up", fmt.Sprintf("bytes on the tunnel differ from posEncode: model %s impl %s", c18Short(m), c18Short(core.Hex(fr.raw))), k)
		}
	}
	buf := make([]byte, 1<<16)
	for i, h := range nc.Down {
		d := core.UnHex(h)
		c.Hist("bidi_down_size", core.SizeBucket(len(d)))
		if _, err := b.Write(c18Frame(d)); err != nil {
			c.Violate("C18/bidi/tunnel-closed-early", err.Error(), k)
			return
		}
		if len(ups) == 0 {
			break // no application endpoint known yet: the relay must stop, nothing can be delivered
		}
		app.SetReadDeadline(time.Now().Add(c18Wait))
		n, from, err := app.ReadFromUDP(buf)
		if err != nil {
			c.Violate("C18/bidi/down-lost", fmt.Sprintf("tunnel datagram %d (%d bytes) never reached the application: %v", i, len(d), err), k)
			return
		}
		if !bytes.Equal(buf[:n], d) || from.Port != relayAddr.Port {
			c.Violate("C18/bidi/down-content", fmt.Sprintf("tunnel datagram %d: %d bytes framed, %d received from %v", i, len(d), n, from), k)
		}
	}
	if nc.Intruder && len(ups) > 0 {
		in, err := net.ListenUDP("udp4", &net.UDPAddr{IP: net.IPv4(127, 0, 0, 1)})
		if err == nil {
			defer in.Close()
			in.WriteToUDP([]byte("intruder"), relayAddr)
			select {
			case err := <-done:
				finished = true
				_ = err
			case <-time.After(c18Wait):
				c.Violate("C18/bidi/second-endpoint-accepted", "a datagram from a second application endpoint did not end the association", k)
				return
			}
			<-fr.done
			select {
			case d := <-fr.ch:
				c.Violate("C18/bidi/second-endpoint-forwarded", fmt.Sprintf("a datagram of %d bytes from a second endpoint entered the tunnel", len(d)), k)
			default:
			}
			b.Close()
			return
		}
	}
	b.w.close()
	select {
	case <-done:
		finished = true
	case <-time.After(c18Wait):
		c.Violate("C18/bidi/no-return", fmt.Sprintf("BidiCopyUDP still running %v after the tunnel ended", c18Wait), k)
	}
	b.Close()
	if len(ups) == 0 && len(nc.Down) > 0 {
		app.SetReadDeadline(time.Now().Add(50 * time.Millisecond))
		if n, _, err := app.ReadFromUDP(buf); err == nil {
			c.Violate("C18/bidi/delivered-to-unknown", fmt.Sprintf("%d bytes delivered although no application endpoint was known", n), k)
		}
	}
}

func c18NetPayload(c *core.Ctx, echo bool) []byte {
	sizes := []int{0, 0, 1, 2, 3, 255, 256, 1400, 1472, 1473, 9000}
	if c.Rand.Intn(12) == 0 {
		if echo {
			sizes = []int{30000, 60000}
		} else {
			sizes = []int{65507, 65000}
		}
	}
	return c18Content(c, sizes[c.Rand.Intn(len(sizes))])
}

// c18NetRun generates the real-socket cases.
func c18NetRun(c *core.Ctx) {
	c18ReplySizes(c)
	hasV6 := c18HasV6()
	c.Note("C18 sockets: IPv6 loopback available: %v", hasV6)
	t0 := time.Now()
	for i := 0; i < c.N(10, 120); i++ {
		nsink := 2 + c.Rand.Intn(3)
		nc := &c18NetCase{CutsA: c18Cuts(c), CutsB: c18Cuts(c), End: []string{"close", "frag", "short", "rsv"}[c.Rand.Intn(4)]}
		for j := 0; j < nsink; j++ {
			spec := c18SinkSpec{V6: hasV6 && c.Rand.Intn(3) == 0, Echo: c.Rand.Intn(2) == 0}
			spec.Defer = !spec.Echo && c.Rand.Intn(2) == 0
			nc.Sinks = append(nc.Sinks, spec)
		}
		if i == 0 { // always: a reply that arrives after a datagram went to another host
			nc.Sinks[0] = c18SinkSpec{Defer: true}
			nc.Sinks[1] = c18SinkSpec{Echo: true}
			for _, d := range []int{0, 1, 0} {
				f := "ip"
				if d == 0 && len(nc.Steps) == 2 {
					f = "release"
				}
				nc.Steps = append(nc.Steps, c18NetStep{Form: f, Dest: d, Payload: core.Hex(c18Content(c, 40+d))})
			}
		}
		for j := 0; j < 6+c.Rand.Intn(c.N(10, 30)); j++ {
			st := c18NetStep{Dest: c.Rand.Intn(nsink)}
			spec := nc.Sinks[st.Dest]
			forms := []string{"ip", "ip", "domain", "domain", "literal", "unresolvable", "empty-domain", "stranger"}
			if !spec.V6 {
				forms = append(forms, "mapped", "mapped")
			}
			st.Form = forms[c.Rand.Intn(len(forms))]
			if spec.Defer && c.Rand.Intn(3) == 0 {
				st.Form = "release"
			}
			p := c18NetPayload(c, spec.Echo || spec.Defer)
			if spec.V6 && len(p) > 65000 {
				p = p[:1200]
			}
			if st.Form == "stranger" && len(p) > 9000 {
				p = p[:9000]
			}
			st.Payload = core.Hex(p)
			nc.Steps = append(nc.Steps, st)
		}
		k := c18Case{Kind: "assoc", Net: nc}
		if i == 0 {
			c.Sample(map[string]interface{}{"kind": "assoc", "sinks": nc.Sinks, "steps": len(nc.Steps), "end": nc.End})
		}
		c18RunCase(c, k)
		if c.Failed() {
			break
		}
	}
	for i := 0; i < c.N(10, 120); i++ {
		nc := &c18NetCase{CutsA: c18Cuts(c), CutsB: c18Cuts(c), Intruder: c.Rand.Intn(4) == 0}
		nup := 1 + c.Rand.Intn(8)
		if c.Rand.Intn(10) == 0 {
			nup = 0
		}
		for j := 0; j < nup; j++ {
			nc.Up = append(nc.Up, core.Hex(c18NetPayload(c, false)))
		}
		for j := 0; j < c.Rand.Intn(8); j++ {
			nc.Down = append(nc.Down, core.Hex(c18NetPayload(c, false)))
		}
		c18RunCase(c, c18Case{Kind: "bidi", Net: nc})
		if c.Failed() {
			break
		}
	}
	c.Note("C18 sockets: real-socket scenarios took %v", time.Since(t0).Round(time.Millisecond))
}
