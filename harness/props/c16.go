package props

import (
	"bytes"
	"crypto/sha256"
	"encoding/binary"
	"encoding/hex"
	"encoding/json"
	"fmt"
	"math"
	"net"
	"os"
	"path/filepath"
	"sort"
	"strings"
	"time"

	"github.com/enfein/mieru/v3/apis/trafficpattern"
	"github.com/enfein/mieru/v3/pkg/appctl/appctlpb"
	"github.com/enfein/mieru/v3/pkg/cipher"
	"github.com/enfein/mieru/v3/pkg/common"
	"github.com/enfein/mieru/v3/pkg/protocol"
	"github.com/enfein/mieru/v3/pkg/rng"
	"google.golang.org/protobuf/proto"
	"verifharness/core"
)

// C16 — traffic-pattern settings honoured; implicit ones stable and valid (configuration part).
//
// Correspondence: trafficpattern.NewConfig / Effective / Validate against Mieru.Model.Pattern for every
// subset of explicitly set fields x boundary values x seeds x unlockAll (rng.FixedInt's raw values are
// read from the real function and handed to the model, so the comparison is exact);
// maxPaddingSizeWithTrafficPattern against Mieru.Padding.maxPadTP; Session.lowEntropySendConfig against
// the model's decision function (hook); nonce rewriting of the real cipher (exported API) against the
// model's rewrite range and once-only flags. Direct oracles: explicit fields preserved, every field
// set, Validate(Effective()) passes, NewConfig deterministic and does not touch its input,
// Decode(Encode(p)) = p, padding cap, server never first with low entropy, nonce prefix class / length
// range / once-only for UDP, TCP fragmentation content-preserving and only when enabled.
//
// TODO(integrator): the on-the-wire monitors over whole sessions (decoded prefixLen/suffixLen,
// first-N nonce bytes, protocol type 10/11, Write boundaries on C01/C02 runs with the pattern known
// to the harness) need the in-memory network (simnet) and are not part of this file.

type c16Tcp struct {
	Enable     *bool  `json:"enable,omitempty"`
	MaxSleepMs *int32 `json:"max_sleep_ms,omitempty"`
}
type c16Nonce struct {
	Type     *int32   `json:"type,omitempty"`
	ApplyAll *bool    `json:"apply_all,omitempty"`
	MinLen   *int32   `json:"min_len,omitempty"`
	MaxLen   *int32   `json:"max_len,omitempty"`
	Hex      []string `json:"hex,omitempty"`
}
type c16Pad struct {
	Mid *int32 `json:"mid,omitempty"`
	End *int32 `json:"end,omitempty"`
}
type c16LE struct {
	Mode *int32 `json:"mode,omitempty"`
	Rot  *int32 `json:"rot,omitempty"`
}
type c16Pat struct {
	Seed      *int32    `json:"seed,omitempty"`
	UnlockAll *bool     `json:"unlock_all,omitempty"`
	Tcp       *c16Tcp   `json:"tcp,omitempty"`
	Nonce     *c16Nonce `json:"nonce,omitempty"`
	Padding   *c16Pad   `json:"padding,omitempty"`
	LE        *c16LE    `json:"low_entropy,omitempty"`
}

type c16Case struct {
	Kind string  `json:"kind"`
	Pat  *c16Pat `json:"pattern,omitempty"`
	Nil  bool    `json:"nil_pattern,omitempty"`
	// nonce
	Stateless bool `json:"stateless,omitempty"`
	N         int  `json:"n,omitempty"`
	// maxpad
	MTU       int  `json:"mtu,omitempty"`
	Transport int  `json:"transport,omitempty"`
	Frag      int  `json:"frag,omitempty"`
	Existing  int  `json:"existing,omitempty"`
	Position  int  `json:"position,omitempty"`
	NilPad    bool `json:"nil_padding,omitempty"`
	// lesend
	IsClient bool `json:"is_client,omitempty"`
	Used     bool `json:"client_used,omitempty"`
	// tcpfrag
	Size int `json:"size,omitempty"`
}

var c16HintNames = []string{"tcpFragment.enable", "tcpFragment.maxSleepMs", "nonce.type", "nonce.applyToAllUDPPacket",
	"nonce.minLen", "nonce.maxLen", "padding.maxMiddlePaddingLen", "padding.maxEndPaddingLen",
	"lowEntropy.mode", "lowEntropy.maskRotation"}

func (p *c16Pat) toProto() *appctlpb.TrafficPattern {
	if p == nil {
		return nil
	}
	tp := &appctlpb.TrafficPattern{Seed: p.Seed, UnlockAll: p.UnlockAll}
	if p.Tcp != nil {
		tp.TcpFragment = &appctlpb.TCPFragment{Enable: p.Tcp.Enable, MaxSleepMs: p.Tcp.MaxSleepMs}
	}
	if p.Nonce != nil {
		tp.Nonce = &appctlpb.NoncePattern{ApplyToAllUDPPacket: p.Nonce.ApplyAll, MinLen: p.Nonce.MinLen, MaxLen: p.Nonce.MaxLen}
		if p.Nonce.Type != nil {
			tp.Nonce.Type = appctlpb.NonceType(*p.Nonce.Type).Enum()
		}
		if len(p.Nonce.Hex) > 0 {
			tp.Nonce.CustomHexStrings = append([]string{}, p.Nonce.Hex...)
		}
	}
	if p.Padding != nil {
		tp.Padding = &appctlpb.PaddingPattern{MaxMiddlePaddingLen: p.Padding.Mid, MaxEndPaddingLen: p.Padding.End}
	}
	if p.LE != nil {
		tp.LowEntropy = &appctlpb.LowEntropyPattern{}
		if p.LE.Mode != nil {
			tp.LowEntropy.Mode = appctlpb.LowEntropyMode(*p.LE.Mode).Enum()
		}
		if p.LE.Rot != nil {
			tp.LowEntropy.MaskRotation = appctlpb.LowEntropyMaskRotation(*p.LE.Rot).Enum()
		}
	}
	return tp
}

func c16oi(v *int32) string {
	if v == nil {
		return "-"
	}
	return fmt.Sprint(*v)
}
func c16ob(v *bool) string {
	if v == nil {
		return "-"
	}
	if *v {
		return "1"
	}
	return "0"
}
func c16b01(v bool) string {
	if v {
		return "1"
	}
	return "0"
}

// c16Tokens renders a TrafficPattern message as the 17 tokens of the driver protocol.
func c16Tokens(tp *appctlpb.TrafficPattern) string {
	t := []string{c16oi(tp.Seed), c16ob(tp.UnlockAll)}
	if f := tp.TcpFragment; f != nil {
		t = append(t, "P", c16ob(f.Enable), c16oi(f.MaxSleepMs))
	} else {
		t = append(t, "-", "-", "-")
	}
	if n := tp.Nonce; n != nil {
		var ty *int32
		if n.Type != nil {
			v := int32(*n.Type)
			ty = &v
		}
		hx := "-"
		if len(n.CustomHexStrings) > 0 {
			var el []string
			for _, s := range n.CustomHexStrings {
				if s == "" {
					el = append(el, "e")
				} else {
					el = append(el, hex.EncodeToString([]byte(s)))
				}
			}
			hx = strings.Join(el, ",")
		}
		t = append(t, "P", c16oi(ty), c16ob(n.ApplyToAllUDPPacket), c16oi(n.MinLen), c16oi(n.MaxLen), hx)
	} else {
		t = append(t, "-", "-", "-", "-", "-", "-")
	}
	if p := tp.Padding; p != nil {
		t = append(t, "P", c16oi(p.MaxMiddlePaddingLen), c16oi(p.MaxEndPaddingLen))
	} else {
		t = append(t, "-", "-", "-")
	}
	if l := tp.LowEntropy; l != nil {
		var m, r *int32
		if l.Mode != nil {
			v := int32(*l.Mode)
			m = &v
		}
		if l.MaskRotation != nil {
			v := int32(*l.MaskRotation)
			r = &v
		}
		t = append(t, "P", c16oi(m), c16oi(r))
	} else {
		t = append(t, "-", "-", "-")
	}
	return strings.Join(t, " ")
}

// c16ErrEnum canonicalises a Validate error to the model's enum.
func c16ErrEnum(err error) string {
	if err == nil {
		return "ok"
	}
	s := err.Error()
	idx := func() string {
		i := strings.Index(s, "customHexStrings[")
		if i < 0 {
			return "?"
		}
		r := s[i+len("customHexStrings["):]
		if j := strings.Index(r, "]"); j >= 0 {
			return r[:j]
		}
		return "?"
	}
	has := strings.Contains
	switch {
	case has(s, "TCPFragment maxSleepMs") && has(s, "is negative"):
		return "tcp-sleep-negative"
	case has(s, "TCPFragment maxSleepMs") && has(s, "exceeds maximum"):
		return "tcp-sleep-too-big"
	case has(s, "NoncePattern minLen") && has(s, "is greater than maxLen"):
		return "nonce-min-gt-max"
	case has(s, "NoncePattern minLen") && has(s, "is negative"):
		return "nonce-min-negative"
	case has(s, "NoncePattern minLen") && has(s, "exceeds maximum"):
		return "nonce-min-too-big"
	case has(s, "NoncePattern maxLen") && has(s, "is negative"):
		return "nonce-max-negative"
	case has(s, "NoncePattern maxLen") && has(s, "exceeds maximum"):
		return "nonce-max-too-big"
	case has(s, "customHexStrings[") && has(s, "is not a valid hex string"):
		return "nonce-hex-invalid:" + idx()
	case has(s, "customHexStrings[") && has(s, "decoded length"):
		return "nonce-hex-too-long:" + idx()
	case has(s, "PaddingPattern maxMiddlePaddingLen") && has(s, "is negative"):
		return "pad-middle-negative"
	case has(s, "PaddingPattern maxMiddlePaddingLen") && has(s, "exceeds maximum"):
		return "pad-middle-too-big"
	case has(s, "PaddingPattern maxEndPaddingLen") && has(s, "is negative"):
		return "pad-end-negative"
	case has(s, "PaddingPattern maxEndPaddingLen") && has(s, "exceeds maximum"):
		return "pad-end-too-big"
	case has(s, "LowEntropyPattern mode"):
		return "le-mode-invalid"
	case has(s, "LowEntropyPattern maskRotation"):
		return "le-rotation-invalid"
	}
	return "unrecognised(" + s + ")"
}

// c16DocumentedInvalid restates the documented ranges (docs/traffic-pattern.md, base.proto comments)
// independently of Validate: "" if the pattern is inside all of them, else the offending field.
func c16DocumentedInvalid(tp *appctlpb.TrafficPattern) string {
	if f := tp.TcpFragment; f != nil && f.MaxSleepMs != nil && (*f.MaxSleepMs < 0 || *f.MaxSleepMs > 100) {
		return "tcpFragment.maxSleepMs"
	}
	if n := tp.Nonce; n != nil {
		if n.MinLen != nil && (*n.MinLen < 0 || *n.MinLen > 12) {
			return "nonce.minLen"
		}
		if n.MaxLen != nil && (*n.MaxLen < 0 || *n.MaxLen > 12) {
			return "nonce.maxLen"
		}
		if n.MinLen != nil && n.MaxLen != nil && *n.MinLen > *n.MaxLen {
			return "nonce.minLen>maxLen"
		}
		for _, h := range n.CustomHexStrings {
			if len(h)%2 != 0 || len(h) > 24 || strings.Trim(h, "0123456789abcdefABCDEF") != "" {
				return "nonce.customHexStrings"
			}
		}
	}
	if p := tp.Padding; p != nil {
		if p.MaxMiddlePaddingLen != nil && (*p.MaxMiddlePaddingLen < 0 || *p.MaxMiddlePaddingLen > 255) {
			return "padding.maxMiddlePaddingLen"
		}
		if p.MaxEndPaddingLen != nil && (*p.MaxEndPaddingLen < 0 || *p.MaxEndPaddingLen > 255) {
			return "padding.maxEndPaddingLen"
		}
	}
	if l := tp.LowEntropy; l != nil {
		if l.Mode != nil && (*l.Mode < 0 || *l.Mode > 4) {
			return "lowEntropy.mode"
		}
		if l.MaskRotation != nil {
			r := int32(*l.MaskRotation)
			if !(r >= 0 && r <= 15 || r >= 16 && r <= 240 && r%16 == 0) {
				return "lowEntropy.maskRotation"
			}
		}
	}
	return ""
}

func c16ExplicitCount(p *c16Pat) int {
	if p == nil {
		return 0
	}
	n := 0
	add := func(b bool) {
		if b {
			n++
		}
	}
	add(p.Seed != nil)
	add(p.UnlockAll != nil)
	if p.Tcp != nil {
		add(p.Tcp.Enable != nil)
		add(p.Tcp.MaxSleepMs != nil)
	}
	if p.Nonce != nil {
		add(p.Nonce.Type != nil)
		add(p.Nonce.ApplyAll != nil)
		add(p.Nonce.MinLen != nil)
		add(p.Nonce.MaxLen != nil)
		add(len(p.Nonce.Hex) > 0)
	}
	if p.Padding != nil {
		add(p.Padding.Mid != nil)
		add(p.Padding.End != nil)
	}
	if p.LE != nil {
		add(p.LE.Mode != nil)
		add(p.LE.Rot != nil)
	}
	return n
}

// c16RawFixedInt returns the 31-bit value rng.FixedInt derives from the hint (FixedInt(n,h) = raw % n),
// read from the real function and cross-checked against its documented construction.
func c16RawFixedInt(c *core.Ctx, hint string) int {
	raw := rng.FixedInt(1<<31, hint)
	b := sha256.Sum256([]byte(hint))
	b[0] &= 0x7f
	if want := int(binary.BigEndian.Uint32(b[:4])); want != raw {
		c.Disagree("C16/corr/fixedint-construction", fmt.Sprintf("rng.FixedInt(2^31,%q)=%d, SHA-256 construction gives %d", hint, raw, want), nil)
	}
	return raw
}

func c16Config(c *core.Ctx, k c16Case) {
	var tp *appctlpb.TrafficPattern
	if !k.Nil {
		if k.Pat == nil {
			k.Pat = &c16Pat{}
		}
		tp = k.Pat.toProto()
	}
	keyb, _ := json.Marshal(k)
	before := proto.Clone(tp)
	var cfg *trafficpattern.Config
	var err error
	panicked := func() (r interface{}) {
		defer func() { r = recover() }()
		cfg, err = trafficpattern.NewConfig(tp)
		return nil
	}()
	c.Eval(string(keyb), err == nil && panicked == nil)
	c.Hist("explicit_fields", fmt.Sprint(c16ExplicitCount(k.Pat)))
	if panicked != nil {
		c.Violate("C16/newconfig-panic", fmt.Sprintf("NewConfig panicked: %v", panicked), k)
		return
	}
	in := tp
	if in == nil {
		in = &appctlpb.TrafficPattern{}
	}
	hostSeed := rng.FixedIntVH(math.MaxInt32)
	seed := hostSeed
	if in.Seed != nil {
		seed = int(in.GetSeed())
	}
	raws := make([]string, len(c16HintNames))
	for i, n := range c16HintNames {
		raws[i] = fmt.Sprint(c16RawFixedInt(c, fmt.Sprintf("%d:%s", seed, n)))
	}
	m := c.Model.Ask("pat-eff %d %s %s", hostSeed, strings.Join(raws, ","), c16Tokens(in))
	c.Compared()
	// the same with rng.FixedInt modelled exactly (SHA-256 in the model, no raw values handed over)
	msha := c.Model.Ask("pat-eff-sha %d %s", hostSeed, c16Tokens(in))
	c.Compared()
	if msha != m {
		c.Disagree("C16/corr/effective-sha", fmt.Sprintf("model with the SHA-256 FixedInt %q, model with the raw values read from rng.FixedInt %q", msha, m), k)
	}
	if err != nil {
		c.Hist("branch", "rejected:"+strings.SplitN(c16ErrEnum(err), ":", 2)[0])
		if got := "err " + c16ErrEnum(err); m != got {
			c.Disagree("C16/corr/newconfig-error", fmt.Sprintf("model %q impl %q (%v)", m, got, err), k)
		}
		if verr := trafficpattern.Validate(tp); verr == nil {
			c.Violate("C16/newconfig-rejects-valid", fmt.Sprintf("Validate accepts the pattern but NewConfig fails: %v", err), k)
		}
		if c16DocumentedInvalid(in) == "" {
			c.Violate("C16/rejects-documented-valid/"+strings.SplitN(c16ErrEnum(err), ":", 2)[0], fmt.Sprintf("a pattern inside every documented range is rejected: %v", err), k)
		}
		return
	}
	if why := c16DocumentedInvalid(in); why != "" {
		c.Violate("C16/accepts-out-of-range/"+why, "NewConfig accepts a pattern outside the documented range: "+why, k)
	}
	c.Hist("branch", "accepted")
	eff := cfg.Effective()
	verr := trafficpattern.Validate(eff)
	got := "ok " + c16Tokens(eff) + " " + c16ErrEnum(verr)
	if m != got {
		c.Disagree("C16/corr/effective", fmt.Sprintf("model %q impl %q", m, got), k)
	}
	// ---- direct oracles on the real code
	if verr != nil {
		c.Violate("C16/effective-invalid/"+strings.SplitN(c16ErrEnum(verr), ":", 2)[0], fmt.Sprintf("Validate(Effective()) fails: %v", verr), k)
	}
	if tp != nil && !proto.Equal(before, tp) {
		c.Violate("C16/newconfig-mutates-input", "NewConfig changed the message it was given", k)
	}
	if !proto.Equal(cfg.Original(), in) {
		c.Violate("C16/original-differs", "Config.Original() differs from the input", k)
	}
	c16CheckExplicit(c, k, in, eff)
	// determinism: a second, independent NewConfig on an equal message gives an equal result
	cfg2, err2 := trafficpattern.NewConfig(proto.Clone(in).(*appctlpb.TrafficPattern))
	if err2 != nil || !proto.Equal(cfg2.Effective(), eff) {
		c.Violate("C16/not-deterministic", fmt.Sprintf("second NewConfig on an equal pattern differs (err=%v)", err2), k)
	}
	// an unset seed means the host-derived seed: setting that seed explicitly changes nothing else
	if in.Seed == nil {
		withSeed := proto.Clone(in).(*appctlpb.TrafficPattern)
		withSeed.Seed = proto.Int32(int32(hostSeed))
		if cfg4, err4 := trafficpattern.NewConfig(withSeed); err4 == nil {
			e4 := proto.Clone(cfg4.Effective()).(*appctlpb.TrafficPattern)
			e4.Seed = nil
			if !proto.Equal(e4, eff) {
				c.Violate("C16/unset-seed-not-host-derived", "with the seed unset the implicit values differ from those of the host-derived seed", k)
			}
		}
	}
	// sharing: Decode(Encode(p)) = p for the input and for the effective pattern
	for name, msg := range map[string]*appctlpb.TrafficPattern{"input": in, "effective": eff} {
		dec, derr := trafficpattern.Decode(trafficpattern.Encode(msg))
		if derr != nil || !proto.Equal(dec, msg) {
			c.Violate("C16/encode-decode/"+name, fmt.Sprintf("Decode(Encode(%s pattern)) differs (err=%v)", name, derr), k)
		}
	}
	// the runtime accepts the effective pattern: a second generation round is the identity
	cfg3, err3 := trafficpattern.NewConfig(proto.Clone(eff).(*appctlpb.TrafficPattern))
	if err3 != nil {
		c.Violate("C16/effective-not-reusable", fmt.Sprintf("NewConfig(Effective()) fails: %v", err3), k)
	} else if !proto.Equal(cfg3.Effective(), eff) {
		c.Violate("C16/effective-not-fixpoint", "NewConfig(Effective()).Effective() differs from Effective()", k)
	}
}

func c16CheckExplicit(c *core.Ctx, k c16Case, in, eff *appctlpb.TrafficPattern) {
	bad := func(field string) {
		c.Violate("C16/explicit-overridden/"+field, "explicitly set "+field+" differs in Effective()", k)
	}
	unset := func(field string) {
		c.Violate("C16/effective-unset/"+field, field+" is unset in Effective()", k)
	}
	if in.Seed != nil && (eff.Seed == nil || *eff.Seed != *in.Seed) {
		bad("seed")
	}
	if in.UnlockAll != nil && (eff.UnlockAll == nil || *eff.UnlockAll != *in.UnlockAll) {
		bad("unlockAll")
	}
	if (in.Seed == nil) != (eff.Seed == nil) || (in.UnlockAll == nil) != (eff.UnlockAll == nil) {
		bad("seed-or-unlockAll-presence")
	}
	if eff.TcpFragment == nil || eff.TcpFragment.Enable == nil {
		unset("tcpFragment.enable")
	} else if f := in.TcpFragment; f != nil && f.Enable != nil && *f.Enable != *eff.TcpFragment.Enable {
		bad("tcpFragment.enable")
	}
	if eff.TcpFragment == nil || eff.TcpFragment.MaxSleepMs == nil {
		unset("tcpFragment.maxSleepMs")
	} else if f := in.TcpFragment; f != nil && f.MaxSleepMs != nil && *f.MaxSleepMs != *eff.TcpFragment.MaxSleepMs {
		bad("tcpFragment.maxSleepMs")
	}
	if n := eff.Nonce; n == nil || n.Type == nil || n.ApplyToAllUDPPacket == nil || n.MinLen == nil || n.MaxLen == nil {
		unset("nonce.*")
	} else if i := in.Nonce; i != nil {
		if i.Type != nil && *i.Type != *n.Type {
			bad("nonce.type")
		}
		if i.ApplyToAllUDPPacket != nil && *i.ApplyToAllUDPPacket != *n.ApplyToAllUDPPacket {
			bad("nonce.applyToAllUDPPacket")
		}
		if i.MinLen != nil && *i.MinLen != *n.MinLen {
			bad("nonce.minLen")
		}
		if i.MaxLen != nil && *i.MaxLen != *n.MaxLen {
			bad("nonce.maxLen")
		}
		if fmt.Sprint(i.CustomHexStrings) != fmt.Sprint(n.CustomHexStrings) {
			bad("nonce.customHexStrings")
		}
	}
	if p := eff.Padding; p == nil || p.MaxMiddlePaddingLen == nil || p.MaxEndPaddingLen == nil {
		unset("padding.*")
	} else if i := in.Padding; i != nil {
		if i.MaxMiddlePaddingLen != nil && *i.MaxMiddlePaddingLen != *p.MaxMiddlePaddingLen {
			bad("padding.maxMiddlePaddingLen")
		}
		if i.MaxEndPaddingLen != nil && *i.MaxEndPaddingLen != *p.MaxEndPaddingLen {
			bad("padding.maxEndPaddingLen")
		}
	}
	if l := eff.LowEntropy; l == nil || l.Mode == nil || l.MaskRotation == nil {
		unset("lowEntropy.*")
	} else if i := in.LowEntropy; i != nil {
		if i.Mode != nil && *i.Mode != *l.Mode {
			bad("lowEntropy.mode")
		}
		if i.MaskRotation != nil && *i.MaskRotation != *l.MaskRotation {
			bad("lowEntropy.maskRotation")
		}
	}
}

// ---- nonce rewriting on the real cipher -----------------------------------------------------

var c16Password = []byte("c16-nonce-password")

func c16InClass(ty int32, b byte) bool {
	switch ty {
	case 1:
		return b >= common.PrintableCharSub && b <= common.PrintableCharSup
	case 2:
		return strings.IndexByte(common.Common64Set, b) >= 0
	}
	return false
}

// c16ClassProb is the probability that a uniformly random byte is in the class.
func c16ClassProb(ty int32) float64 {
	n := 0
	for b := 0; b < 256; b++ {
		if c16InClass(ty, byte(b)) {
			n++
		}
	}
	return float64(n) / 256
}

func c16ClassPrefixLen(ty int32, nonce []byte) int {
	n := 0
	for n < len(nonce) && c16InClass(ty, nonce[n]) {
		n++
	}
	return n
}

// c16Nonces produces n nonces the way the transports obtain them: stateless (UDP) = n successive
// Encrypt calls on one cipher; stateful (TCP) = the first Encrypt of n fresh ciphers.
func c16Nonces(c *core.Ctx, k c16Case, np *appctlpb.NoncePattern, n int) ([][]byte, bool) {
	var out [][]byte
	plaintext := []byte("traffic pattern")
	one := func(block cipher.BlockCipher) bool {
		dst := make([]byte, 0, 24+len(plaintext)+16)
		if err := block.Encrypt(dst, plaintext); err != nil {
			c.Violate("C16/nonce/encrypt-error", fmt.Sprintf("Encrypt failed: %v", err), k)
			return false
		}
		ct := dst[:24+len(plaintext)+16]
		out = append(out, append([]byte{}, ct[:24]...))
		// rewriting the nonce must not break decryption by the peer
		if k.Stateless {
			if _, pt, err := cipher.TryDecrypt(ct, c16Password, true); err != nil || !bytes.Equal(pt, plaintext) {
				c.Violate("C16/nonce/peer-cannot-decrypt", fmt.Sprintf("peer cannot decrypt a packet with a rewritten nonce: %v", err), k)
				return false
			}
		}
		return true
	}
	if k.Stateless {
		block, err := cipher.BlockCipherFromPassword(c16Password, true)
		if err != nil {
			c.Violate("C16/nonce/cipher-error", err.Error(), k)
			return nil, false
		}
		block.SetNoncePattern(np)
		for i := 0; i < n; i++ {
			if !one(block) {
				return nil, false
			}
		}
	} else {
		for i := 0; i < n; i++ {
			block, err := cipher.BlockCipherFromPassword(c16Password, false)
			if err != nil {
				c.Violate("C16/nonce/cipher-error", err.Error(), k)
				return nil, false
			}
			block.SetNoncePattern(np)
			if !one(block) {
				return nil, false
			}
		}
	}
	return out, true
}

func c16NonceCase(c *core.Ctx, k c16Case) {
	if k.Pat == nil || k.Pat.Nonce == nil || k.Pat.Nonce.Type == nil || k.Pat.Nonce.MinLen == nil || k.Pat.Nonce.MaxLen == nil || k.Pat.Nonce.ApplyAll == nil {
		return
	}
	np := k.Pat.toProto().Nonce
	ty, lo0, hi0, all := *k.Pat.Nonce.Type, int(*k.Pat.Nonce.MinLen), int(*k.Pat.Nonce.MaxLen), *k.Pat.Nonce.ApplyAll
	if trafficpattern.Validate(&appctlpb.TrafficPattern{Nonce: np}) != nil || lo0 > hi0 {
		return // the cipher is only ever given validated effective patterns
	}
	n := k.N
	if n <= 0 {
		n = 64
	}
	keyb, _ := json.Marshal(k)
	c.Eval(string(keyb), true)
	c.Hist("nonce_type", fmt.Sprint(ty))
	c.Hist("nonce_transport", map[bool]string{true: "udp-stateless", false: "tcp-stateful"}[k.Stateless])
	var panicked interface{}
	var nonces [][]byte
	var ok bool
	func() {
		defer func() { panicked = recover() }()
		nonces, ok = c16Nonces(c, k, np, n)
	}()
	if panicked != nil {
		c.Violate("C16/nonce/panic", fmt.Sprintf("nonce generation panicked: %v", panicked), k)
		return
	}
	if !ok {
		return
	}
	// model: which nonces are rewritten, and the length range
	fl := c.Model.Ask("pat-rewrite-flags %s %s %d", c16b01(k.Stateless), c16b01(all), n)
	rg := c.Model.Ask("pat-rewrite-range %d %d 24", lo0, hi0)
	c.Compared()
	var lo, hi int
	if _, err := fmt.Sscanf(rg, "ok %d %d", &lo, &hi); err != nil || !strings.HasPrefix(fl, "ok ") || len(fl) != 3+n {
		c.Disagree("C16/corr/nonce-model-reply", fmt.Sprintf("unexpected model replies %q %q", fl, rg), k)
		return
	}
	flags := fl[3:]
	// the model's range against the REAL nonceRewriteLen (hook): 600 draws span exactly lo..hi
	if lens, _, err := cipher.VerifNonceRewriteLens(np, 600); err == nil {
		rlo, rhi := 1<<30, -1
		for _, l := range lens {
			if l < rlo {
				rlo = l
			}
			if l > rhi {
				rhi = l
			}
		}
		if lo != rlo || hi != rhi {
			c.Disagree("C16/corr/nonce-range", fmt.Sprintf("model range %d..%d, real nonceRewriteLen over 600 draws %d..%d (pattern %d..%d)", lo, hi, rlo, rhi, lo0, hi0), k)
		}
		if rlo < lo0 || rhi > hi0 {
			c.Violate("C16/nonce/rewrite-len-outside-range", fmt.Sprintf("real rewrite lengths %d..%d outside the configured %d..%d", rlo, rhi, lo0, hi0), k)
		}
	}
	var prefixes [][]byte
	for _, h := range k.Pat.Nonce.Hex {
		b, _ := hex.DecodeString(h)
		prefixes = append(prefixes, b)
	}
	switch ty {
	case 1, 2:
		minSeen, nRew, nPlain, plainInClass, above := 25, 0, 0, 0, 0
		for i, nonce := range nonces {
			l := c16ClassPrefixLen(ty, nonce)
			if flags[i] == '1' {
				nRew++
				if l > hi {
					above++
				}
				if l < lo {
					c.Violate(fmt.Sprintf("C16/nonce/prefix-not-in-class/type=%d", ty), fmt.Sprintf("nonce %d (%x): only %d leading bytes in the configured class, minLen %d", i, nonce, l, lo), k)
				}
				if l < minSeen {
					minSeen = l
				}
			} else {
				nPlain++
				if l >= lo {
					plainInClass++
				}
			}
		}
		// never more than maxLen bytes rewritten: the byte after the rewritten prefix is uniformly
		// random (in class with probability <= 0.38), so over >= 48 nonces some prefix ends by maxLen
		if nRew >= 48 && hi < 20 && minSeen > hi {
			c.Violate(fmt.Sprintf("C16/nonce/rewrites-beyond-maxLen/type=%d", ty), fmt.Sprintf("every one of %d rewritten nonces has more than maxLen=%d leading class bytes (min %d)", nRew, hi, minSeen), k)
		}
		// ... and not sometimes either: a class prefix longer than maxLen arises only from random bytes
		// that happen to be in the class, P0 = (1/R) * sum_{j=1..R} p^j; alarm at 10 standard deviations
		if nRew >= 800 && hi < 20 {
			pc := c16ClassProb(ty)
			R := hi - lo + 1
			sum, pj := 0.0, 1.0
			for j := 1; j <= R; j++ {
				pj *= pc
				sum += pj
			}
			p0 := sum / float64(R)
			thr := float64(nRew)*p0 + 10*math.Sqrt(float64(nRew)*p0*(1-p0)) + 1
			if float64(above) > thr {
				c.Violate(fmt.Sprintf("C16/nonce/rewrite-length-above-maxLen/type=%d", ty), fmt.Sprintf("%d of %d rewritten nonces have more than maxLen=%d leading class bytes; at most %.0f expected from chance", above, nRew, hi, thr), k)
			}
		}
		// the shortest length of the range is used too (model: every length of the range occurs)
		if nRew >= 800 && minSeen != lo {
			c.Disagree("C16/corr/nonce-minlen-never-used", fmt.Sprintf("over %d rewritten nonces the shortest class prefix is %d, model range starts at %d", nRew, minSeen, lo), k)
		}
		// once-only for UDP: the nonces the model says are NOT rewritten are plain random
		if nPlain >= 40 {
			if lo >= 4 {
				if plainInClass > nPlain/2 {
					c.Violate("C16/nonce/applied-to-later-udp-packets", fmt.Sprintf("%d of %d later UDP nonces carry the pattern although applyToAllUDPPacket=false", plainInClass, nPlain), k)
				}
			} else {
				c.Res.Discarded++
			}
		}
		if all || !k.Stateless {
			if nPlain != 0 {
				c.Disagree("C16/corr/nonce-flags", "model marks nonces as not rewritten although the pattern applies to all", k)
			}
		}
	case 3:
		if len(prefixes) == 0 {
			return
		}
		used := map[int]int{}
		nPlain, plainMatch := 0, 0
		for i, nonce := range nonces {
			which := -1
			for j, p := range prefixes {
				if bytes.HasPrefix(nonce, p) {
					which = j
					// the longest matching prefix wins the attribution
					for j2, p2 := range prefixes {
						if len(p2) > len(p) && bytes.HasPrefix(nonce, p2) {
							which = j2
						}
					}
					break
				}
			}
			if flags[i] == '1' {
				if which < 0 {
					c.Violate("C16/nonce/fixed-prefix-missing", fmt.Sprintf("nonce %d (%x) starts with none of the configured prefixes", i, nonce), k)
				} else {
					used[which]++
				}
			} else {
				nPlain++
				if which >= 0 {
					plainMatch++
				}
			}
		}
		short := false
		for _, p := range prefixes {
			if len(p) < 4 {
				short = true
			}
		}
		if nPlain >= 40 && !short && plainMatch > nPlain/2 {
			c.Violate("C16/nonce/applied-to-later-udp-packets", fmt.Sprintf("%d of %d later UDP nonces carry a fixed prefix although applyToAllUDPPacket=false", plainMatch, nPlain), k)
		}
		distinct := map[string]bool{}
		for _, p := range prefixes {
			distinct[string(p)] = true
		}
		if n-nPlain >= 800 && len(prefixes) <= 4 && len(distinct) == len(prefixes) && !short {
			for j := range prefixes {
				if used[j] == 0 {
					c.Violate("C16/nonce/fixed-prefix-never-used", fmt.Sprintf("prefix %d (%x) never used over %d nonces", j, prefixes[j], n-nPlain), k)
				}
			}
		}
	}
}

// ---- maxPaddingSizeWithTrafficPattern vs maxPadTP ------------------------------------------

func c16MaxPad(c *core.Ctx, k c16Case) {
	var tp *appctlpb.TrafficPattern
	var cfg *int32
	if !k.Nil {
		tp = &appctlpb.TrafficPattern{}
		if !k.NilPad {
			tp.Padding = &appctlpb.PaddingPattern{}
			if k.Pat != nil && k.Pat.Padding != nil {
				tp.Padding.MaxMiddlePaddingLen = k.Pat.Padding.Mid
				tp.Padding.MaxEndPaddingLen = k.Pat.Padding.End
				switch k.Position {
				case 0:
					cfg = k.Pat.Padding.Mid
				case 1:
					cfg = k.Pat.Padding.End
				}
			}
		}
	}
	keyb, _ := json.Marshal(k)
	c.Eval(string(keyb), true)
	base := protocol.VerifMaxPaddingSize(k.MTU, k.Transport, k.Frag, k.Existing)
	got := protocol.VerifMaxPaddingSizeWithTrafficPattern(k.MTU, k.Transport, k.Frag, k.Existing, tp, k.Position)
	m := c.Model.Ask("pat-maxpad %d %s", base, c16oi(cfg))
	c.Compared()
	if m != fmt.Sprintf("ok %d", got) {
		c.Disagree("C16/corr/maxpad", fmt.Sprintf("model %q impl %d (base %d configured %s)", m, got, base, c16oi(cfg)), k)
	}
	if c.Gen != nil {
		var mid, end *int32
		if tp != nil && tp.Padding != nil {
			mid, end = tp.Padding.MaxMiddlePaddingLen, tp.Padding.MaxEndPaddingLen
		}
		g := c.Gen.Ask("pg-maxPaddingTP %d %d %d %d %s %s %s %s %d", k.MTU, k.Transport, k.Frag, k.Existing, c16b01(tp == nil), c16b01(tp == nil || tp.Padding == nil), c16oi(mid), c16oi(end), k.Position)
		c.Compared()
		if g != fmt.Sprintf("ok %d", got) {
			c.Disagree("C16/corr/gen-maxPaddingSizeWithTrafficPattern", fmt.Sprintf("regenerated %q impl %d", g, got), k)
		}
	}
	if cfg != nil && *cfg >= 0 && got > int(*cfg) {
		c.Violate("C16/padding-above-configured", fmt.Sprintf("padding budget %d above the configured maximum %d", got, *cfg), k)
	}
	if got < 0 || got > base && base >= 0 {
		c.Violate("C16/padding-budget-out-of-range", fmt.Sprintf("padding budget %d (base %d)", got, base), k)
	}
}

// ---- low-entropy send decision --------------------------------------------------------------

func c16LESend(c *core.Ctx, k c16Case) {
	var tp *appctlpb.TrafficPattern
	tpP, leP, mode, rot := "-", "-", "-", "-"
	if !k.Nil {
		tp = k.Pat.toProto()
		if tp == nil {
			tp = &appctlpb.TrafficPattern{}
		}
		tpP = "P"
		if tp.LowEntropy != nil {
			leP = "P"
			mode, rot = c16oi(k.Pat.LE.Mode), c16oi(k.Pat.LE.Rot)
		}
	}
	keyb, _ := json.Marshal(k)
	c.Eval(string(keyb), true)
	gm, gr, on := protocol.VerifLowEntropySendConfig(tp, k.IsClient, k.Used)
	m := c.Model.Ask("pat-le-send %s %s %s %s %s %s", tpP, leP, mode, rot, c16b01(k.IsClient), c16b01(k.Used))
	c.Compared()
	if got := fmt.Sprintf("ok %d %d %s", gm, gr, c16b01(on)); m != got {
		c.Disagree("C16/corr/le-send", fmt.Sprintf("model %q impl %q", m, got), k)
	}
	if c.Gen != nil {
		var mode0, rot0 int32
		if tp != nil && tp.LowEntropy != nil {
			mode0, rot0 = int32(tp.LowEntropy.GetMode()), int32(tp.LowEntropy.GetMaskRotation())
		}
		args := fmt.Sprintf("%s %s %d %d", c16b01(tp == nil), c16b01(tp == nil || tp.LowEntropy == nil), mode0, rot0)
		g := c.Gen.Ask("pg-leSend %s %s %s", args, c16b01(k.IsClient), c16b01(k.Used))
		c.Compared()
		if got := fmt.Sprintf("ok %d %d %s", gm, gr, c16b01(on)); g != got {
			c.Disagree("C16/corr/gen-lowEntropySendConfig", fmt.Sprintf("regenerated %q impl %q", g, got), k)
		}
		em, er, eon := protocol.VerifExtractLowEntropyConfig(tp)
		g = c.Gen.Ask("pg-extractLE %s", args)
		c.Compared()
		if got := fmt.Sprintf("ok %d %d %s", em, er, c16b01(eon)); g != got {
			c.Disagree("C16/corr/gen-extractLowEntropyConfig", fmt.Sprintf("regenerated %q impl %q", g, got), k)
		}
	}
	c.Hist("le_send", fmt.Sprintf("client=%v used=%v on=%v", k.IsClient, k.Used, on))
	if on && !k.IsClient && !k.Used {
		c.Violate("C16/server-low-entropy-before-client", "server decides to send low entropy although the client never used it", k)
	}
	cfgMode := 0
	if tp != nil && tp.LowEntropy != nil {
		cfgMode = int(tp.LowEntropy.GetMode())
	}
	if on && (gm != cfgMode || gm == 0) {
		c.Violate("C16/low-entropy-mode-not-configured", fmt.Sprintf("sends mode %d, configured %d", gm, cfgMode), k)
	}
	if k.IsClient && (cfgMode != 0) != on {
		c.Violate("C16/client-ignores-low-entropy-setting", fmt.Sprintf("client configured mode %d, decision %v", cfgMode, on), k)
	}
}

// ---- TCP fragmentation ----------------------------------------------------------------------

type c16RecConn struct {
	net.Conn
	writes [][]byte
}

func (r *c16RecConn) Write(b []byte) (int, error) {
	r.writes = append(r.writes, append([]byte{}, b...))
	return len(b), nil
}
func (r *c16RecConn) SetDeadline(time.Time) error { return nil }

func c16TcpFrag(c *core.Ctx, k c16Case) {
	var tp *appctlpb.TrafficPattern
	if !k.Nil {
		tp = k.Pat.toProto()
	}
	data := make([]byte, k.Size)
	for i := range data {
		data[i] = byte(i*7 + 3)
	}
	keyb, _ := json.Marshal(k)
	c.Eval(string(keyb), true)
	rec := &c16RecConn{}
	var err error
	var panicked interface{}
	func() {
		defer func() { panicked = recover() }()
		err = protocol.VerifWriteWithPossibleFragment(rec, tp, data)
	}()
	if panicked != nil || err != nil {
		c.Violate("C16/tcp-fragment/write-failed", fmt.Sprintf("writeWithPossibleFragment: err=%v panic=%v", err, panicked), k)
		return
	}
	var all []byte
	for _, w := range rec.writes {
		if len(w) == 0 {
			c.Violate("C16/tcp-fragment/empty-write", "an empty Write was issued", k)
		}
		all = append(all, w...)
	}
	if !bytes.Equal(all, data) {
		c.Violate("C16/tcp-fragment/content-changed", fmt.Sprintf("the concatenated writes (%d bytes) differ from the data (%d bytes)", len(all), len(data)), k)
	}
	enabled := tp != nil && tp.TcpFragment != nil && tp.TcpFragment.GetEnable()
	c.Hist("tcp_fragment", fmt.Sprintf("enabled=%v writes=%s", enabled, core.SizeBucket(len(rec.writes))))
	if !enabled && len(rec.writes) != 1 {
		c.Violate("C16/tcp-fragment/fragmented-when-disabled", fmt.Sprintf("%d writes although fragmentation is not enabled", len(rec.writes)), k)
	}
	if enabled && len(data) >= 16 && len(rec.writes) < 2 {
		c.Violate("C16/tcp-fragment/not-fragmented-when-enabled", fmt.Sprintf("%d bytes written in one piece although fragmentation is enabled", len(data)), k)
	}
}

// ---- enum tables ----------------------------------------------------------------------------

func c16Enums(c *core.Ctx) {
	m := c.Model.Ask("pat-consts")
	c.Compared()
	if got := fmt.Sprintf("ok %d %d 255 12", len(appctlpb.LowEntropyMode_name), len(appctlpb.LowEntropyMaskRotation_name)); m != got {
		c.Disagree("C16/corr/consts", fmt.Sprintf("model %q impl %q", m, got), nil)
	}
	for v := int32(-20); v <= 300; v++ {
		_, okR := appctlpb.LowEntropyMaskRotation_name[v]
		_, okM := appctlpb.LowEntropyMode_name[v]
		mr := c.Model.Ask("pat-valid-rot %d", v)
		mm := c.Model.Ask("pat-valid-mode %d", v)
		c.Compared()
		c.Eval(fmt.Sprintf("enum/%d", v), true)
		if mr != fmt.Sprintf("ok %v", okR) {
			c.Disagree("C16/corr/valid-rotation", fmt.Sprintf("rotation %d: model %q enum member %v", v, mr, okR), nil)
		}
		if mm != fmt.Sprintf("ok %v", okM) {
			c.Disagree("C16/corr/valid-mode", fmt.Sprintf("mode %d: model %q enum member %v", v, mm, okM), nil)
		}
	}
}

func c16Run(c *core.Ctx, k c16Case) {
	switch k.Kind {
	case "config":
		c16Config(c, k)
	case "nonce":
		c16NonceCase(c, k)
	case "maxpad":
		c16MaxPad(c, k)
	case "lesend":
		c16LESend(c, k)
	case "tcpfrag":
		c16TcpFrag(c, k)
	}
}

// ---- generators -----------------------------------------------------------------------------

func c16p32(v int32) *int32 { return &v }
func c16pb(v bool) *bool    { return &v }

var c16Rotations = func() []int32 {
	r := []int32{0}
	for i := int32(1); i <= 15; i++ {
		r = append(r, i, 16*i)
	}
	return r
}()

var c16HexChoices = [][]string{
	{"00"}, {"000102030405060708090a0b"}, {"FFFFFFFFFFFFFFFFFFFFFFFF"}, {"474554202f20"}, {"16030100", "16030300"},
	{"aa", "bbbb", "cccccc", "dddddddd"}, {""}, {"", "0a0b0c0d0e0f"}, {"1703030000000000", "1703030000000001", "1703030000000002"},
}

func c16pick32(c *core.Ctx, vs ...int32) *int32 { return c16p32(vs[c.Rand.Intn(len(vs))]) }

func c16Seed(c *core.Ctx) *int32 {
	switch c.Rand.Intn(6) {
	case 0:
		return c16pick32(c, 0, 1, -1, math.MaxInt32, math.MinInt32)
	default:
		return c16p32(int32(c.Rand.Uint32()))
	}
}

// c16Subset builds a valid pattern whose explicitly set leaf fields are exactly the bits of mask
// (bit order: seed, unlockAll, tcp.enable, tcp.sleep, nonce.type, nonce.applyAll, nonce.min, nonce.max,
// nonce.hex, pad.mid, pad.end, le.mode, le.rot), with boundary-biased values.
func c16Subset(c *core.Ctx, mask int) *c16Pat {
	bit := func(i int) bool { return mask&(1<<uint(i)) != 0 }
	p := &c16Pat{}
	if bit(0) {
		p.Seed = c16Seed(c)
	}
	if bit(1) {
		p.UnlockAll = c16pb(c.Rand.Intn(2) == 0)
	}
	emptyMsg := func() bool { return c.Rand.Intn(2) == 0 } // sub-message present but empty, or nil
	if bit(2) || bit(3) || emptyMsg() {
		p.Tcp = &c16Tcp{}
		if bit(2) {
			p.Tcp.Enable = c16pb(c.Rand.Intn(2) == 0)
		}
		if bit(3) {
			p.Tcp.MaxSleepMs = c16pick32(c, 0, 1, 50, 99, 100)
		}
	}
	if bit(4) || bit(5) || bit(6) || bit(7) || bit(8) || emptyMsg() {
		p.Nonce = &c16Nonce{}
		if bit(4) {
			p.Nonce.Type = c16pick32(c, 0, 1, 2, 3)
		}
		if bit(5) {
			p.Nonce.ApplyAll = c16pb(c.Rand.Intn(2) == 0)
		}
		switch {
		case bit(6) && bit(7):
			mx := *c16pick32(c, 0, 1, 3, 5, 6, 11, 12)
			var mn int32
			if c.Rand.Intn(3) == 0 {
				mn = mx // minLen = maxLen
			} else {
				mn = int32(c.Rand.Intn(int(mx) + 1))
			}
			p.Nonce.MinLen, p.Nonce.MaxLen = c16p32(mn), c16p32(mx)
		case bit(6):
			p.Nonce.MinLen = c16pick32(c, 0, 1, 5, 6, 7, 11, 12)
		case bit(7):
			p.Nonce.MaxLen = c16pick32(c, 0, 1, 2, 3, 4, 5, 6, 7, 11, 12) // mostly below the implicit minLen 6..12
		}
		if bit(8) {
			p.Nonce.Hex = c16HexChoices[c.Rand.Intn(len(c16HexChoices))]
		}
	}
	if bit(9) || bit(10) || emptyMsg() {
		p.Padding = &c16Pad{}
		if bit(9) {
			p.Padding.Mid = c16pick32(c, 0, 1, 127, 128, 254, 255)
		}
		if bit(10) {
			p.Padding.End = c16pick32(c, 0, 1, 127, 128, 254, 255)
		}
	}
	if bit(11) || bit(12) || emptyMsg() {
		p.LE = &c16LE{}
		if bit(11) {
			p.LE.Mode = c16pick32(c, 0, 1, 2, 3, 4)
		}
		if bit(12) {
			p.LE.Rot = c16p32(c16Rotations[c.Rand.Intn(len(c16Rotations))])
		}
	}
	return p
}

// c16Invalid derives an invalid pattern from a valid one (malformed stream).
func c16Invalid(c *core.Ctx, p *c16Pat) *c16Pat {
	if p.Tcp == nil {
		p.Tcp = &c16Tcp{}
	}
	if p.Nonce == nil {
		p.Nonce = &c16Nonce{}
	}
	if p.Padding == nil {
		p.Padding = &c16Pad{}
	}
	if p.LE == nil {
		p.LE = &c16LE{}
	}
	for n := 1 + c.Rand.Intn(2); n > 0; n-- {
		switch c.Rand.Intn(12) {
		case 0:
			p.Tcp.MaxSleepMs = c16pick32(c, -1, 101, math.MinInt32, math.MaxInt32)
		case 1:
			p.Nonce.MinLen = c16pick32(c, -1, 13, math.MinInt32, 255)
		case 2:
			p.Nonce.MaxLen = c16pick32(c, -1, 13, math.MaxInt32, 24)
		case 3:
			p.Nonce.MinLen, p.Nonce.MaxLen = c16pick32(c, 4, 12, 1), c16pick32(c, 0, 3)
			if *p.Nonce.MinLen <= *p.Nonce.MaxLen {
				p.Nonce.MinLen = c16p32(*p.Nonce.MaxLen + 1)
			}
		case 4:
			p.Nonce.Hex = [][]string{{"0"}, {"zz"}, {"00", "0g"}, {"00", "11", "abc"}, {"é0"}, {" 00"}, {"0x00"}}[c.Rand.Intn(7)]
		case 5:
			p.Nonce.Hex = [][]string{{"000102030405060708090a0b0c"}, {"00", "ffffffffffffffffffffffffffffffff"}}[c.Rand.Intn(2)]
		case 6:
			p.Padding.Mid = c16pick32(c, -1, 256, math.MaxInt32)
		case 7:
			p.Padding.End = c16pick32(c, -1, 256, math.MinInt32)
		case 8:
			p.LE.Mode = c16pick32(c, -1, 5, 100)
		case 9:
			p.LE.Rot = c16pick32(c, -1, 17, 31, 241, 256, 255)
		case 10:
			p.Nonce.Type = c16pick32(c, -1, 4, 99) // the nonce type is not validated: stays acceptable
		case 11:
			p.Padding.Mid, p.Padding.End = c16pick32(c, 0, 255), c16pick32(c, 255, 0)
		}
	}
	return p
}

// c16SeedFor finds the smallest non-negative seed whose hint makes the REAL rng.FixedInt(n, "<seed>:<name>")
// return want (deterministic: a pure function of the arguments).
func c16SeedFor(name string, n, want int) *int32 {
	for s := int32(0); s < 200000; s++ {
		if rng.FixedInt(n, fmt.Sprintf("%d:%s", s, name)) == want {
			return c16p32(s)
		}
	}
	return nil
}

type c16Named struct {
	name string
	k    c16Case
}

// c16Boundaries is the deterministic boundary set, generated on EVERY run before the random stream: every
// boundary the property's quantifier names and every boundary of the implicit generator's draws.
func c16Boundaries() []c16Named {
	var out []c16Named
	add := func(name string, p *c16Pat) { out = append(out, c16Named{name, c16Case{Kind: "config", Pat: p}}) }
	seeds := map[string]*int32{"0": c16p32(0), "-1": c16p32(-1), "MaxInt32": c16p32(math.MaxInt32), "MinInt32": c16p32(math.MinInt32), "unset": nil}
	seedNames := []string{"0", "-1", "MaxInt32", "MinInt32", "unset"}
	uas := map[string]*bool{"unset": nil, "false": c16pb(false), "true": c16pb(true)}
	uaNames := []string{"unset", "false", "true"}
	// minLen = maxLen
	for _, v := range []int32{0, 6, 12} {
		add(fmt.Sprintf("nonce minLen=maxLen=%d", v), &c16Pat{Seed: c16p32(0), Nonce: &c16Nonce{MinLen: c16p32(v), MaxLen: c16p32(v)}})
	}
	// explicit maxLen below the implicit minLen (6..12; 0..12 with unlockAll), every seed class, every unlockAll
	for mx := int32(0); mx <= 5; mx++ {
		for _, sn := range seedNames {
			for _, un := range uaNames {
				add(fmt.Sprintf("nonce explicit maxLen=%d<implicit minLen seed=%s unlockAll=%s", mx, sn, un), &c16Pat{Seed: seeds[sn], UnlockAll: uas[un], Nonce: &c16Nonce{MaxLen: c16p32(mx)}})
			}
		}
	}
	// explicit minLen with implicit maxLen (range 13 - minLen, incl. 13 - 12 = 1 and 13 - 0 = 13)
	for _, mn := range []int32{0, 1, 11, 12} {
		add(fmt.Sprintf("nonce explicit minLen=%d implicit maxLen", mn), &c16Pat{Seed: c16p32(-1), Nonce: &c16Nonce{MinLen: c16p32(mn)}})
	}
	// fixed prefixes
	add("nonce FIXED 12-byte prefix", &c16Pat{Nonce: &c16Nonce{Type: c16p32(3), Hex: []string{"000102030405060708090a0b"}}})
	add("nonce FIXED several prefixes", &c16Pat{Nonce: &c16Nonce{Type: c16p32(3), Hex: []string{"16030100", "16030300", "1603030a", "474554202f20"}}})
	add("nonce FIXED empty prefix list", &c16Pat{Nonce: &c16Nonce{Type: c16p32(3)}})
	add("nonce FIXED empty string prefix", &c16Pat{Nonce: &c16Nonce{Type: c16p32(3), Hex: []string{""}}})
	for ty := int32(0); ty <= 3; ty++ {
		add(fmt.Sprintf("nonce type=%d explicit", ty), &c16Pat{Seed: c16p32(1), Nonce: &c16Nonce{Type: c16p32(ty)}})
	}
	// padding
	for _, v := range []int32{0, 1, 254, 255} {
		add(fmt.Sprintf("padding middle=%d", v), &c16Pat{Seed: c16p32(0), Padding: &c16Pad{Mid: c16p32(v)}})
		add(fmt.Sprintf("padding end=%d", v), &c16Pat{Seed: c16p32(0), UnlockAll: c16pb(true), Padding: &c16Pad{End: c16p32(v)}})
	}
	add("padding 0/0", &c16Pat{Padding: &c16Pad{Mid: c16p32(0), End: c16p32(0)}})
	add("padding 255/255", &c16Pat{Padding: &c16Pad{Mid: c16p32(255), End: c16p32(255)}})
	// tcp fragment
	for _, v := range []int32{0, 1, 99, 100} {
		for _, en := range []bool{false, true} {
			add(fmt.Sprintf("tcp enable=%v maxSleepMs=%d", en, v), &c16Pat{Tcp: &c16Tcp{Enable: c16pb(en), MaxSleepMs: c16p32(v)}})
		}
	}
	// every mode x every rotation, explicit
	for mode := int32(0); mode <= 4; mode++ {
		for _, rot := range c16Rotations {
			add("low entropy explicit mode x rotation", &c16Pat{Seed: c16p32(0), LE: &c16LE{Mode: c16p32(mode), Rot: c16p32(rot)}})
		}
	}
	// boundaries of every implicit draw, reached through seeds found with the real rng.FixedInt
	type draw struct {
		hint string
		n    int
		vals []int
		ua   bool
	}
	for _, d := range []draw{
		{"lowEntropy.maskRotation", 31, []int{0, 1, 15, 16, 29, 30}, false},
		{"lowEntropy.mode", 5, []int{0, 1, 4}, true},
		{"nonce.minLen", 7, []int{0, 6}, false},
		{"nonce.minLen", 13, []int{0, 12}, true},
		{"nonce.type", 2, []int{0, 1}, false},
		{"nonce.type", 3, []int{0, 2}, true},
		{"nonce.applyToAllUDPPacket", 2, []int{0, 1}, false},
		{"padding.maxMiddlePaddingLen", 256, []int{0, 127, 128, 129, 255}, false},
		{"padding.maxEndPaddingLen", 256, []int{0, 255}, true},
		{"tcpFragment.enable", 2, []int{0, 1}, true},
		{"tcpFragment.maxSleepMs", 100, []int{0, 99}, true},
	} {
		for _, v := range d.vals {
			if s := c16SeedFor(d.hint, d.n, v); s != nil {
				p := &c16Pat{Seed: s}
				if d.ua {
					p.UnlockAll = c16pb(true)
				}
				add(fmt.Sprintf("implicit %s draw=%d/%d", d.hint, v, d.n), p)
				if d.hint == "nonce.minLen" { // the clamp at both ends of the draw
					add(fmt.Sprintf("implicit %s draw=%d/%d with explicit maxLen=3", d.hint, v, d.n), &c16Pat{Seed: s, UnlockAll: p.UnlockAll, Nonce: &c16Nonce{MaxLen: c16p32(3)}})
				}
			}
		}
	}
	return out
}

func c16Corpus(c *core.Ctx) {
	files, _ := filepath.Glob(filepath.Join(c.Corpus, "*.json"))
	sort.Strings(files)
	for _, f := range files {
		raw, err := os.ReadFile(f)
		if err != nil {
			continue
		}
		var wrap struct {
			Input json.RawMessage `json:"input"`
		}
		var k c16Case
		if json.Unmarshal(raw, &wrap) == nil && len(wrap.Input) > 0 && json.Unmarshal(wrap.Input, &k) == nil && k.Kind != "" {
			c.Hist("source", "corpus")
			c16Run(c, k)
		} else {
			c.Note("corpus file %s is not a C16 case", filepath.Base(f))
		}
	}
}

func init() {
	core.Register("C16", &core.Scenario{
		Run: func(c *core.Ctx) {
			c.Res.Rule = "config: every subset of the 13 optional leaf fields (8192) with boundary-biased values, sub-messages nil or empty, seeds incl. 0/-1/MaxInt32/MinInt32/unset(host), unlockAll; the nonce minLen/maxLen lattice x seeds x unlockAll; an invalid stream (out-of-range values, min>max, bad hex, bad enums) and the nil pattern. nonce: every type x transport x applyToAll x length ranges incl. minLen=maxLen, 12-byte and multiple fixed prefixes, 64..800 nonces each. maxpad / lesend: exhaustive small products. Distinct = distinct case JSON; non-trivial = accepted by NewConfig (config) or evaluated (others)."
			c.Correspondence("pat-eff/pat-validate: apis/trafficpattern NewConfig, Effective, Validate vs Mieru.Pattern (rng.FixedInt raw values read from the real function)")
			c.Correspondence("pat-maxpad: pkg/protocol maxPaddingSizeWithTrafficPattern vs Mieru.Padding.maxPadTP")
			c.Correspondence("pat-le-send: pkg/protocol Session.lowEntropySendConfig vs Mieru.Pattern.lowEntropySendConfig (hook)")
			c.Correspondence("pat-rewrite-range/pat-rewrite-flags: pkg/cipher nonce rewriting observed through Encrypt vs Mieru.Pattern.nonceRewriteRange/rewriteFlags")
			c.Note("on-the-wire monitors over whole sessions run in the extra stage c16_wire.go")
			c16Corpus(c)
			c16Enums(c)
			// --- deterministic boundaries, on every run, before the random stream
			for _, b := range c16Boundaries() {
				c.Hist("boundary", b.name)
				c16Run(c, b.k)
			}
			// --- every subset of explicit fields
			rounds := c.N(1, 6)
			for r := 0; r < rounds; r++ {
				for mask := 0; mask < 1<<13; mask++ {
					k := c16Case{Kind: "config", Pat: c16Subset(c, mask)}
					if r == 0 && (mask == 0x80 || mask == 0x1fff) {
						c.Sample(k)
					}
					c16Run(c, k)
				}
			}
			c16Run(c, c16Case{Kind: "config", Nil: true})
			c16Run(c, c16Case{Kind: "config", Pat: &c16Pat{}})
			// --- the minLen/maxLen lattice x seeds x unlockAll (explicit maxLen below the implicit minLen etc.)
			nseed := c.N(12, 120)
			for s := 0; s < nseed; s++ {
				seed := c16Seed(c)
				if s < 4 {
					seed = []*int32{c16p32(0), c16p32(-1), c16p32(math.MaxInt32), nil}[s]
				}
				for _, ua := range []*bool{nil, c16pb(false), c16pb(true)} {
					for mn := int32(-1); mn <= 12; mn++ {
						for mx := int32(-1); mx <= 12; mx++ {
							if mn >= 0 && mx >= 0 && mn > mx {
								continue
							}
							n := &c16Nonce{}
							if mn >= 0 {
								n.MinLen = c16p32(mn)
							}
							if mx >= 0 {
								n.MaxLen = c16p32(mx)
							}
							c16Run(c, c16Case{Kind: "config", Pat: &c16Pat{Seed: seed, UnlockAll: ua, Nonce: n}})
						}
					}
				}
			}
			// --- invalid stream
			for i := 0; i < c.N(600, 6000); i++ {
				k := c16Case{Kind: "config", Pat: c16Invalid(c, c16Subset(c, c.Rand.Intn(1<<13)))}
				if i == 0 {
					c.Sample(k)
				}
				c16Run(c, k)
			}
			// --- nonce rewriting on the real cipher
			type rng2 struct{ lo, hi int32 }
			ranges := []rng2{{0, 0}, {0, 12}, {6, 12}, {6, 6}, {12, 12}, {4, 5}, {8, 9}, {1, 3}, {11, 12}, {5, 10}}
			for _, ty := range []int32{0, 1, 2, 3} {
				for _, stateless := range []bool{true, false} {
					for _, all := range []bool{true, false} {
						for ri, rg := range ranges {
							n := 800
							np := &c16Nonce{Type: c16p32(ty), ApplyAll: c16pb(all), MinLen: c16p32(rg.lo), MaxLen: c16p32(rg.hi)}
							if ty == 3 {
								np.Hex = c16HexChoices[(ri+int(c.Seed))%len(c16HexChoices)]
								if ri == 0 {
									np.Hex = []string{"000102030405060708090a0b"}
								}
								if ri == 1 {
									np.Hex = []string{"16030100", "16030300", "1603030a"}
								}
							}
							k := c16Case{Kind: "nonce", Pat: &c16Pat{Nonce: np}, Stateless: stateless, N: n}
							if ty == 1 && stateless && !all && ri == 2 {
								c.Sample(k)
							}
							c16Run(c, k)
						}
					}
				}
			}
			// nonce patterns as NewConfig generates them
			for i := 0; i < c.N(40, 400); i++ {
				cfg, err := trafficpattern.NewConfig(c16Subset(c, c.Rand.Intn(1<<13)).toProto())
				if err != nil {
					continue
				}
				e := cfg.Effective().Nonce
				np := &c16Nonce{Type: c16p32(int32(e.GetType())), ApplyAll: c16pb(e.GetApplyToAllUDPPacket()), MinLen: c16p32(e.GetMinLen()), MaxLen: c16p32(e.GetMaxLen()), Hex: e.GetCustomHexStrings()}
				c16Run(c, c16Case{Kind: "nonce", Pat: &c16Pat{Nonce: np}, Stateless: c.Rand.Intn(2) == 0, N: 64})
			}
			// --- padding cap
			cfgs := []*int32{nil, c16p32(-1), c16p32(0), c16p32(1), c16p32(100), c16p32(254), c16p32(255), c16p32(300)}
			for _, mtu := range []int{1280, 1400, 1500} {
				for _, tr := range []int{1, 2} {
					for _, frag := range []int{0, 1, 100, mtu - 88 - 255, mtu - 88 - 100, mtu - 88 - 1, mtu - 88, mtu} {
						for _, ex := range []int{0, 1, 100, 255} {
							for pos := 0; pos <= 2; pos++ {
								for _, mid := range cfgs {
									for _, end := range []*int32{nil, c16p32(0), c16p32(7), c16p32(255)} {
										c16Run(c, c16Case{Kind: "maxpad", MTU: mtu, Transport: tr, Frag: frag, Existing: ex, Position: pos, Pat: &c16Pat{Padding: &c16Pad{Mid: mid, End: end}}})
									}
								}
								c16Run(c, c16Case{Kind: "maxpad", MTU: mtu, Transport: tr, Frag: frag, Existing: ex, Position: pos, Nil: true})
								c16Run(c, c16Case{Kind: "maxpad", MTU: mtu, Transport: tr, Frag: frag, Existing: ex, Position: pos, NilPad: true})
							}
						}
					}
				}
			}
			c.Sample(c16Case{Kind: "maxpad", MTU: 1400, Transport: 2, Frag: 100, Existing: 0, Position: 0, Pat: &c16Pat{Padding: &c16Pad{Mid: c16p32(0)}}})
			// --- low-entropy send decision (exhaustive)
			for _, isClient := range []bool{true, false} {
				for _, used := range []bool{true, false} {
					c16Run(c, c16Case{Kind: "lesend", Nil: true, IsClient: isClient, Used: used})
					c16Run(c, c16Case{Kind: "lesend", Pat: &c16Pat{}, IsClient: isClient, Used: used})
					for _, mode := range []*int32{nil, c16p32(0), c16p32(1), c16p32(2), c16p32(3), c16p32(4), c16p32(7)} {
						for _, rot := range []*int32{nil, c16p32(0), c16p32(5), c16p32(32), c16p32(240)} {
							c16Run(c, c16Case{Kind: "lesend", Pat: &c16Pat{LE: &c16LE{Mode: mode, Rot: rot}}, IsClient: isClient, Used: used})
						}
					}
				}
			}
			c.Sample(c16Case{Kind: "lesend", Pat: &c16Pat{LE: &c16LE{Mode: c16p32(3), Rot: c16p32(32)}}, IsClient: false, Used: false})
			// --- TCP fragmentation
			for _, size := range []int{1, 2, 15, 16, 100, 1500, 40000} {
				c16Run(c, c16Case{Kind: "tcpfrag", Nil: true, Size: size})
				c16Run(c, c16Case{Kind: "tcpfrag", Pat: &c16Pat{}, Size: size})
				c16Run(c, c16Case{Kind: "tcpfrag", Pat: &c16Pat{Tcp: &c16Tcp{}}, Size: size})
				c16Run(c, c16Case{Kind: "tcpfrag", Pat: &c16Pat{Tcp: &c16Tcp{Enable: c16pb(false), MaxSleepMs: c16p32(100)}}, Size: size})
				for i := 0; i < c.N(3, 20); i++ {
					c16Run(c, c16Case{Kind: "tcpfrag", Pat: &c16Pat{Tcp: &c16Tcp{Enable: c16pb(true), MaxSleepMs: c16p32(0)}}, Size: size, N: i})
				}
			}
			c16Run(c, c16Case{Kind: "tcpfrag", Pat: &c16Pat{Tcp: &c16Tcp{Enable: c16pb(true), MaxSleepMs: c16p32(1)}}, Size: 300})
		},
		Replay: func(c *core.Ctx, raw json.RawMessage) {
			var k c16Case
			if json.Unmarshal(raw, &k) == nil {
				c16Run(c, k)
			}
		},
	})
}
