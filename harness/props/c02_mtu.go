package props

import (
	"time"

	"verifharness/core"
	"verifharness/sim"
)

// C02 / C13, stage "mtu" (every run, quick and thorough, before nothing random): the two ends are
// configured with DIFFERENT legal MTUs. The MTU of an endpoint limits only what that endpoint sends
// (fragment size and padding are computed from the sender's MTU); nothing is negotiated, so the end
// with the larger MTU sends datagrams longer than its peer's MTU whenever it has a full fragment.
// The model's receiver (Arq / Flow `deliver`) accepts every datagram the network hands over: the
// corresponding assumption about the code is that the receive path reads datagrams up to the MAXIMUM
// legal MTU (1500), whatever the local MTU is (theorem C02.receive_buffer_holds_any_legal_datagram
// over the regenerated facts). Here the assumption is exercised end to end: writes larger than the
// smaller MTU in both directions, on a loss-free network, must be delivered (seeded C02-7: a receive
// buffer of the local MTU truncates every full-size datagram of the peer, retransmissions included;
// the transfer stalls and the session is abandoned after txCountLimit transmissions).

// mixedMTUPairs: (server MTU, client MTU) — the ends of the legal range both ways, the default-like
// 1400 against the maximum both ways, and the two one-byte boundaries.
var mixedMTUPairs = [][2]int{{1280, 1500}, {1500, 1280}, {1400, 1500}, {1500, 1400}, {1499, 1500}, {1281, 1280}}

func mixedMTUCases(c *core.Ctx) []udpCase {
	var cases []udpCase
	for i, p := range mixedMTUPairs {
		k := udpCase{Seed: c.Rand.Int63(), MTU: p[0], ClientMTU: p[1], Multiplex: i % 2, TimeoutS: 20}
		// default traffic pattern on the first four (the configuration a deployment would have),
		// random valid patterns (padding up to the sender's MTU) on the boundary pairs
		k.ClientPattern, k.ServerPattern = patJSON(nil), patJSON(nil)
		if i >= 4 {
			k.ClientPattern = patJSON(sim.RandomPattern(c.Rand, false))
			k.ServerPattern = patJSON(sim.RandomPattern(c.Rand, false))
		}
		// a short write first (fits every datagram: it is delivered on both trees), then writes well
		// above the smaller MTU, one of them exactly one full fragment of the LARGER MTU
		big := p[0]
		if p[1] > big {
			big = p[1]
		}
		k.Scripts = []sim.Script{
			{ClientWrites: []int{300, 20000, big - 100, 7}, ServerWrites: []int{300, 20000, big - 100, 7}, MaxRead: 65536},
			{ClientWrites: []int{3000}, ServerWrites: []int{1, 5000}, MaxRead: 1500},
		}
		k.Faults = sim.FaultSpec{Seed: c.Rand.Int63()} // loss-free, no delay
		cases = append(cases, k)
	}
	return cases
}

func init() {
	for _, prop := range []string{"C02", "C13"} {
		prop := prop
		core.RegisterExtra(prop, func(c *core.Ctx) {
			if !stageOn("mtu") {
				return
			}
			c.Correspondence("different MTUs on the two ends (1280/1500, 1500/1280, 1400/1500, 1500/1400, 1499/1500, 1281/1280), writes above the smaller MTU in both directions, loss-free network: delivery oracle, wire monitor and acceptor as in the main stage")
			cases := mixedMTUCases(c)
			c.Sample(cases[0])
			core.Parallel(len(cases), 6, func(i int) { udpRun(c, cases[i], prop) })
			bgClose.Wait(30 * time.Second)
		})
	}
}
