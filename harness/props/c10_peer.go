package props

import (
	"bytes"
	"encoding/binary"
	"fmt"
	"math/bits"
	"math/rand"
	"net"
	"sync"
	"time"

	"verifharness/simnet"
	"verifharness/wire"
)

// ------------------------------------------------------------------------------------------------
// The hostile-input language of C10: one arrival, described field by field. The same description is
// (a) turned into model inputs by c10ModelArgs and (b) turned into bytes by c10Build, so model and
// implementation see the same thing.

type c10Seg struct {
	Kind     string `json:"kind"` // "seg": validly encrypted metadata | "garbage": unauthenticated bytes | "replay": the previous arrival's bytes again
	Proto    int    `json:"proto"`
	SidSel   string `json:"sid_sel"` // zero | own1 | own2 | victim | value
	Sid      uint32 `json:"sid"`
	SeqSel   string `json:"seq_sel"` // value | next (the in-order sequence number of the target own session)
	Seq      uint32 `json:"seq"`
	UnAck    uint32 `json:"unack"`
	Window   uint16 `json:"window"`
	Fragment uint8  `json:"fragment"`
	Status   uint8  `json:"status"`
	Byte1    uint8  `json:"byte1"` // low-entropy mode for types 10/11
	LEMask   uint32 `json:"le_mask"`
	LERot    uint8  `json:"le_rot"`
	ExtLen   int    `json:"ext_len"` // -1: the attached payload length
	PayloadN int    `json:"payload_n"`
	Pad1N    int    `json:"pad1_n"`
	Pad2N    int    `json:"pad2_n"`
	DeclPre  int    `json:"decl_prefix"`  // -1: consistent with what is attached
	DeclPay  int    `json:"decl_payload"` // -1: consistent
	DeclSuf  int    `json:"decl_suffix"`  // -1: consistent
	TsSkew   int    `json:"ts_skew"`      // minutes added to the timestamp (0, or |skew| >= 2)
	KeyUser  string `json:"key_user"`     // user whose credential encrypts the segment
	From     string `json:"from"`         // UDP: "home" (the address the own sessions live at) | "fresh" | "port0" (a source address the socket cannot send to: source port 0)
	BadTag   bool   `json:"bad_tag"`
	BadLEPad bool   `json:"bad_le_pad"`
	Len      int    `json:"len"`    // garbage length
	Expect   string `json:"expect"` // model's outcome, used by the executor only to decide what to wait for
}

func c10IsSession(p int) bool { return p >= 2 && p <= 5 }
func c10IsLE(p int) bool      { return p == 10 || p == 11 }
func c10IsData(p int) bool    { return p == 6 || p == 7 || c10IsLE(p) }
func c10IsAck(p int) bool     { return p == 8 || p == 9 }

var c10LEC = map[uint8]int{1: 4, 2: 5, 3: 6, 4: 7}
var c10LEOnes = map[uint8]int{1: 16, 2: 20, 3: 24, 4: 28}

func c10LEParamsValid(mode uint8, mask uint32, rot uint8) bool {
	ones, ok := c10LEOnes[mode]
	if !ok || bits.OnesCount32(mask) != ones {
		return false
	}
	return rot == 0 || (rot >= 1 && rot <= 15) || (rot >= 16 && rot%16 == 0)
}

// c10Layout is everything about the bytes of a "seg" arrival that both the builder and the model need.
type c10Layout struct {
	bodyLen  int // encoded payload body length actually attached (without tag)
	tailLen  int // bytes that follow the metadata block
	declPre  int
	declPay  int
	declSuf  int
	extLen   int
	leEnc    bool // the body was expanded with the declared low-entropy parameters
	auth     bool // the payload at the declared offset/length authenticates
	leBodyOk bool
	framed   bool // TCP: declared lengths equal attached lengths
}

func (s *c10Seg) layout() c10Layout {
	var l c10Layout
	sess := c10IsSession(s.Proto)
	pad1 := s.Pad1N
	if sess {
		pad1 = 0
	}
	l.bodyLen = s.PayloadN
	if c10IsLE(s.Proto) && s.PayloadN > 0 && c10LEParamsValid(s.Byte1, s.LEMask, s.LERot) {
		c := c10LEC[s.Byte1]
		l.bodyLen = (s.PayloadN + c - 1) / c * 8
		l.leEnc = true
	}
	tag := 0
	if s.PayloadN > 0 {
		tag = 16
	}
	l.tailLen = pad1 + l.bodyLen + tag + s.Pad2N
	l.declPre, l.declPay, l.declSuf = pad1, l.bodyLen, s.Pad2N
	if s.DeclPre >= 0 && !sess {
		l.declPre = s.DeclPre
	}
	if s.DeclPay >= 0 {
		l.declPay = s.DeclPay
	}
	if s.DeclSuf >= 0 {
		l.declSuf = s.DeclSuf
	}
	l.extLen = s.PayloadN
	if s.ExtLen >= 0 {
		l.extLen = s.ExtLen
	}
	l.leBodyOk = !c10IsLE(s.Proto) || (l.leEnc && l.extLen == s.PayloadN && !s.BadLEPad)
	l.auth = s.PayloadN > 0 && !s.BadTag && l.declPre == pad1 && l.declPay == l.bodyLen && l.leBodyOk
	l.framed = l.declPre == pad1 && l.declSuf == s.Pad2N && ((s.PayloadN == 0 && l.declPay == 0) || (s.PayloadN > 0 && l.declPay == l.bodyLen))
	return l
}

// c10Build produces the metadata bytes and the tail of a "seg" arrival. payloadNonce is the nonce the
// receiver will use for the payload.
func (s *c10Seg) build(key, payloadNonce []byte, sid uint32, seq uint32, now time.Time, content []byte) (meta, tail []byte) {
	l := s.layout()
	sess := c10IsSession(s.Proto)
	m := wire.Meta{Proto: uint8(s.Proto), Byte1: s.Byte1, Timestamp: uint32(now.Unix()/60 + int64(s.TsSkew)), SessionID: sid, Seq: seq,
		Status: s.Status, UnAck: s.UnAck, Window: s.Window, Fragment: s.Fragment,
		PrefixLen: uint8(l.declPre), PayloadLen: uint16(l.declPay), SuffixLen: uint8(l.declSuf),
		LEMask: s.LEMask, ExtractedLen: uint16(l.extLen), LERot: s.LERot}
	meta = m.RawBytes(sess)
	if !sess {
		tail = append(tail, bytes.Repeat([]byte{'p'}, s.Pad1N)...)
	}
	if s.PayloadN > 0 {
		body, tag := wire.PayloadCipher(key, payloadNonce, content[:s.PayloadN], l.leEnc, s.Byte1, s.LEMask, s.LERot, 0)
		body = append([]byte(nil), body...)
		tag = append([]byte(nil), tag...)
		if s.BadTag {
			tag[3] ^= 0x40
		}
		if s.BadLEPad && l.leEnc {
			// flip one padding bit of the first chunk: a position where the (unrotated) mask has a 0
			full := uint64(s.LEMask)<<32 | uint64(s.LEMask)
			for pos := 0; pos < 64; pos++ {
				if full>>uint(pos)&1 == 0 {
					chunk := binary.BigEndian.Uint64(body[:8]) ^ (1 << uint(pos))
					binary.BigEndian.PutUint64(body[:8], chunk)
					break
				}
			}
		}
		tail = append(tail, body...)
		tail = append(tail, tag...)
	}
	tail = append(tail, bytes.Repeat([]byte{'s'}, s.Pad2N)...)
	return meta, tail
}

// ------------------------------------------------------------------------------------------------
// A wire-level endpoint written on top of harness/wire only: it plays a client towards a real server
// (attacker with a valid credential) or a server towards a real client (hostile server).

type c10PeerSess struct {
	id        uint32
	nextSend  uint32 // our next in-order sequence number
	nextRecv  uint32 // the peer's next in-order sequence number we expect
	peerUnAck uint32 // highest unAck the peer reported (its nextRecv for our direction)
	stream    []byte // application bytes received in order
	buffered  map[uint32][]byte
	opened    bool // open request / response seen
	closeSeen bool // the peer sent closeSessionRequest / closeSessionResponse
	// receive window the real endpoint advertised in its data / ack segments (window stage)
	winSeen   int
	minWindow uint16
	lastWin   uint16
}

func (s *c10PeerSess) noteWindow(w uint16) {
	if s.winSeen == 0 || w < s.minWindow {
		s.minWindow = w
	}
	s.winSeen++
	s.lastWin = w
}

type c10Peer struct {
	mu       sync.Mutex
	cond     *sync.Cond
	asServer bool
	udp      bool
	user     string
	keys     map[string][]byte // user → key for the current slot
	rng      *rand.Rand

	// UDP
	pc     *simnet.PacketConn
	remote net.Addr // client role: the server; server role: learned from the first datagram
	// TCP
	conn   net.Conn
	enc    *wire.StreamEncoder
	dec    *wire.StreamDecoder
	eof    bool
	rdErr  string
	wrFail bool

	sess        map[uint32]*c10PeerSess
	unknownData map[uint32]int // data / ack for sessions we do not have (server role: before open)
	closeReqs   map[uint32]int // closeSessionRequest received per session id
	undecodable int
	lastRaw     []byte
	echo        bool // server role: echo application data back
}

func newC10Peer(asServer, udp bool, user string, keys map[string][]byte, seed int64) *c10Peer {
	p := &c10Peer{asServer: asServer, udp: udp, user: user, keys: keys, rng: rand.New(rand.NewSource(seed)),
		sess: map[uint32]*c10PeerSess{}, unknownData: map[uint32]int{}, closeReqs: map[uint32]int{}}
	p.cond = sync.NewCond(&p.mu)
	return p
}

func (p *c10Peer) nonce(user string) []byte {
	n := make([]byte, 24)
	p.rng.Read(n)
	copy(n[20:], wire.UserHint(user, n))
	return n
}

func (p *c10Peer) protoOpen() uint8 {
	if p.asServer {
		return wire.OpenSessionResponse
	}
	return wire.OpenSessionRequest
}
func (p *c10Peer) protoData() uint8 {
	if p.asServer {
		return wire.DataServerToClient
	}
	return wire.DataClientToServer
}
func (p *c10Peer) protoAck() uint8 {
	if p.asServer {
		return wire.AckServerToClient
	}
	return wire.AckClientToServer
}

// sendRaw puts bytes on the wire (caller holds no lock requirement; writes are serialised by mu).
func (p *c10Peer) sendRawLocked(b []byte) {
	if p.udp {
		if p.remote != nil {
			p.pc.WriteTo(b, p.remote)
		}
		return
	}
	if _, err := p.conn.Write(b); err != nil {
		p.wrFail = true
	}
}

// sendSegLocked sends a well-formed segment under the peer's own credential.
func (p *c10Peer) sendSegLocked(m wire.Meta, payload []byte) {
	m.Timestamp = uint32(time.Now().Unix() / 60)
	if p.udp {
		p.sendRawLocked(wire.SealUDP(p.keys[p.user], p.nonce(p.user), m, payload, nil, nil, 0))
		return
	}
	p.sendRawLocked(p.enc.Seal(m, payload, nil, nil, 0))
}

func (p *c10Peer) ackLocked(s *c10PeerSess) {
	if !p.udp {
		return
	}
	seq := uint32(0)
	if s.nextSend > 0 {
		seq = s.nextSend - 1
	}
	p.sendSegLocked(wire.Meta{Proto: p.protoAck(), SessionID: s.id, Seq: seq, UnAck: s.nextRecv, Window: 256}, nil)
}

// onSegment processes one decoded segment from the real endpoint.
func (p *c10Peer) onSegmentLocked(g *wire.Segment) {
	sid := g.SessionID
	s := p.sess[sid]
	switch {
	case g.Proto == wire.OpenSessionRequest && p.asServer:
		if s == nil {
			s = &c10PeerSess{id: sid, buffered: map[uint32][]byte{}}
			p.sess[sid] = s
		}
		if !s.opened {
			s.opened = true
			if g.Seq == s.nextRecv {
				s.nextRecv++
				s.stream = append(s.stream, g.Payload...)
			}
			p.sendSegLocked(wire.Meta{Proto: wire.OpenSessionResponse, SessionID: sid, Seq: s.nextSend}, nil)
			s.nextSend++
			if p.echo && len(g.Payload) > 0 {
				p.sendDataLocked(s, g.Payload)
			}
		}
		p.ackLocked(s)
	case g.Proto == wire.OpenSessionResponse && !p.asServer:
		if s != nil {
			s.opened = true
			if g.Seq == s.nextRecv {
				s.nextRecv++
			}
			p.ackLocked(s)
		}
	case g.Proto == wire.CloseSessionRequest || g.Proto == wire.CloseSessionResponse:
		if g.Proto == wire.CloseSessionRequest {
			p.closeReqs[sid]++
		}
		if s != nil {
			s.closeSeen = true
		}
	case g.IsData():
		if s == nil {
			p.unknownData[sid]++
			return
		}
		if g.UnAck > s.peerUnAck {
			s.peerUnAck = g.UnAck
		}
		s.noteWindow(g.Window)
		if p.udp {
			if g.Seq >= s.nextRecv {
				s.buffered[g.Seq] = append([]byte(nil), g.Payload...)
			}
			for {
				b, ok := s.buffered[s.nextRecv]
				if !ok {
					break
				}
				delete(s.buffered, s.nextRecv)
				s.nextRecv++
				s.stream = append(s.stream, b...)
				if p.echo && len(b) > 0 {
					p.sendDataLocked(s, b)
				}
			}
			p.ackLocked(s)
		} else {
			s.stream = append(s.stream, g.Payload...)
			if p.echo && len(g.Payload) > 0 {
				p.sendDataLocked(s, g.Payload)
			}
		}
	case g.IsAck():
		if s == nil {
			p.unknownData[sid]++
			return
		}
		if g.UnAck > s.peerUnAck {
			s.peerUnAck = g.UnAck
		}
		s.noteWindow(g.Window)
	}
}

func (p *c10Peer) sendDataLocked(s *c10PeerSess, payload []byte) {
	if p.udp && s.peerUnAck > s.nextSend {
		// hostile in-order data consumed sequence numbers at the real endpoint: continue where it is
		s.nextSend = s.peerUnAck
	}
	p.sendSegLocked(wire.Meta{Proto: p.protoData(), SessionID: s.id, Seq: s.nextSend, UnAck: s.nextRecv, Window: 256}, payload)
	s.nextSend++
}

func (p *c10Peer) allKeys() [][]byte {
	var ks [][]byte
	for _, k := range p.keys {
		ks = append(ks, k)
	}
	return ks
}

// runUDP reads datagrams until the socket closes.
func (p *c10Peer) runUDP() {
	buf := make([]byte, 2048)
	for {
		n, from, err := p.pc.ReadFrom(buf)
		if err != nil {
			return
		}
		g, derr := wire.OpenUDP(buf[:n], p.allKeys())
		p.mu.Lock()
		if p.asServer && p.remote == nil {
			p.remote = from
		}
		if derr != nil {
			p.undecodable++
		} else {
			p.onSegmentLocked(g)
		}
		p.cond.Broadcast()
		p.mu.Unlock()
	}
}

// runTCP reads the stream until EOF / error.
func (p *c10Peer) runTCP() {
	buf := make([]byte, 65536)
	for {
		n, err := p.conn.Read(buf)
		p.mu.Lock()
		if n > 0 && p.dec.Err == nil {
			for _, g := range p.dec.Feed(buf[:n]) {
				p.onSegmentLocked(g)
			}
			if p.dec.Err != nil {
				p.undecodable++
			}
		}
		if err != nil {
			p.eof = true
			p.rdErr = err.Error()
			p.cond.Broadcast()
			p.mu.Unlock()
			return
		}
		p.cond.Broadcast()
		p.mu.Unlock()
	}
}

// waitLocked waits until pred holds or the timeout expires; reports whether pred holds.
func (p *c10Peer) wait(timeout time.Duration, pred func() bool) bool {
	deadline := time.Now().Add(timeout)
	t := time.AfterFunc(timeout+5*time.Millisecond, func() { p.mu.Lock(); p.cond.Broadcast(); p.mu.Unlock() })
	defer t.Stop()
	p.mu.Lock()
	defer p.mu.Unlock()
	for !pred() {
		if time.Now().After(deadline) {
			return false
		}
		p.cond.Wait()
	}
	return true
}

// open starts a session as a client and waits for the open response.
func (p *c10Peer) open(sid uint32, timeout time.Duration) bool {
	p.mu.Lock()
	s := &c10PeerSess{id: sid, buffered: map[uint32][]byte{}}
	p.sess[sid] = s
	p.sendSegLocked(wire.Meta{Proto: wire.OpenSessionRequest, SessionID: sid, Seq: 0}, nil)
	s.nextSend = 1
	p.mu.Unlock()
	return p.wait(timeout, func() bool { return s.opened || s.closeSeen || p.eof })
}

// probe sends a marker through session sid and waits for the echo. It returns "echo", "closed"
// (the peer closed the session or the connection) or "silent".
func (p *c10Peer) probe(sid uint32, marker []byte, timeout time.Duration) string {
	p.mu.Lock()
	s := p.sess[sid]
	if s == nil {
		p.mu.Unlock()
		return "silent"
	}
	deadline := time.Now().Add(timeout)
	p.mu.Unlock()
	attempt := 0
	for {
		p.mu.Lock()
		if bytes.Contains(s.stream, marker) {
			p.mu.Unlock()
			return "echo"
		}
		if s.closeSeen || p.eof {
			p.mu.Unlock()
			return "closed"
		}
		if p.udp {
			// the real endpoint reports the sequence number it waits for (unAck); hostile in-order data may
			// have consumed numbers we did not plan, in which case our first attempt is ignored as old, the
			// endpoint's ack tells us where it is, and the next attempt lands
			seq := s.nextSend
			if s.peerUnAck > seq {
				seq = s.peerUnAck
			}
			p.sendSegLocked(wire.Meta{Proto: p.protoData(), SessionID: sid, Seq: seq, UnAck: s.nextRecv, Window: 256}, marker)
			s.nextSend = seq + 1
		} else if attempt == 0 {
			p.sendSegLocked(wire.Meta{Proto: p.protoData(), SessionID: sid, Seq: s.nextSend, UnAck: s.nextRecv, Window: 256}, marker)
			s.nextSend++
		}
		p.mu.Unlock()
		attempt++
		step := 150 * time.Millisecond
		if rem := time.Until(deadline); rem < step {
			step = rem
		}
		if step <= 0 {
			return "silent"
		}
		p.wait(step, func() bool { return bytes.Contains(s.stream, marker) || s.closeSeen || p.eof })
	}
}

func (p *c10Peer) close() {
	if p.udp {
		if p.pc != nil {
			p.pc.Close()
		}
	} else if p.conn != nil {
		p.conn.Close()
	}
}

func c10Marker(tag string, n int) []byte {
	return []byte(fmt.Sprintf("<%s:%08d>", tag, n))
}
