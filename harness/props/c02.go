package props

import (
	"encoding/json"
	"time"

	"verifharness/core"
	"verifharness/sim"
)

// udpBoundaryMTUs: the ends of the supported MTU range and their neighbours, used by the first cases of
// every run (quick and thorough).
var udpBoundaryMTUs = []int{1280, 1281, 1499, 1500, 1400}

// C02 — UDP transport: reliable, ordered, exactly-once stream over a faulty network.
func init() {
	core.Register("C02", &core.Scenario{
		Run: func(c *core.Ctx) {
			if !stageOn("main") {
				return
			}
			c.Res.Rule = "each case: MTU from {1280,1281,1400,1499,1500} or random in [1280,1500], random valid traffic pattern per side (incl. low entropy), multiplex 0..3, 1..3 concurrent sessions, boundary and random write sizes in both directions, and a fault plan: clean / positional drops / duplicates / delays (reordering) / bursts / random loss up to 20% + duplication + reordering; thorough adds loss of the open request / open response / first k datagrams. Real protocol.Mux endpoints over the in-memory datagram network. Oracle: bytes read = bytes written in both directions and the transfer completes (a stall must reproduce in 2 of 3 runs). Every datagram is decoded by the reference codec and each (session, direction) history is replayed through the Lean acceptor Arq.acceptAll. Distinct = distinct case JSON."
			c.Correspondence("observed UDP histories (writes, emissions, deliveries, acks) accepted by Mieru.Arq.acceptAll (trace inclusion); every datagram decodes with the reference codec")
			n := c.N(36, 480)
			cases := make([]udpCase, n)
			for i := range cases {
				budget := 60000
				if c.Thorough() && i%10 == 0 {
					budget = 2 << 20
				}
				cases[i] = genUDPCase(c.Rand, budget, c.Thorough() && i%4 == 0)
				if i < len(udpBoundaryMTUs) {
					cases[i].MTU = udpBoundaryMTUs[i] // every boundary MTU on every run, before the random stream
				}
			}
			// special cases (also in the quick tier; each costs a few seconds of protocol timers)
			many := make([]int, 5000)
			for j := range many {
				many[j] = 16
			}
			mk := func(f func(k *udpCase)) {
				k := genUDPCase(c.Rand, 20000, false)
				k.Faults = sim.FaultSpec{Seed: c.Rand.Int63(), DelayMs: 20}
				k.TimeoutS = 180
				f(&k)
				cases = append(cases, k)
			}
			// the receiver's application stalls until the advertised window closes; it must reopen
			mk(func(k *udpCase) {
				k.Scripts = []sim.Script{{ClientWrites: many, ServerWrites: []int{10}, MaxRead: 65536, ServerStallMs: 3000}}
			})
			// paced writer (one segment in flight at a time) against a reader that stalls until the
			// receive window is exactly closed with nothing outstanding: only a later ack with an
			// unchanged cumulative ack can reopen it
			for _, pg := range [][2]int{{1000, 9000}, {2500, 14000}} {
				pg := pg
				mk(func(k *udpCase) {
					paced := make([]int, 4300)
					for j := range paced {
						paced[j] = 16
					}
					k.Multiplex = 1
					k.ClientPattern, k.ServerPattern = patJSON(nil), patJSON(nil)
					k.Scripts = []sim.Script{{ClientWrites: paced, ServerWrites: []int{10}, MaxRead: 65536, ServerStallMs: pg[1], WriteGapUs: pg[0]}}
				})
			}
			// a long, bandwidth-limited path (300 ms round trip, 1 MB/s) with single losses
			mk(func(k *udpCase) {
				k.Faults.LatencyMs = 150
				k.Faults.RateKBps = 1000
				k.Faults.DropC2S = []int{300, 620}
				k.Faults.DropS2C = []int{30}
				k.Scripts = []sim.Script{{ClientWrites: []int{65536, 65536, 65536, 65536, 65536, 65536, 65536, 65536, 65536, 65536}, ServerWrites: []int{65536, 65536}, MaxRead: 65536}}
			})
			// the open request (with a piggy-backed first write) is lost; the open response is lost
			mk(func(k *udpCase) {
				k.Faults.DropC2S = []int{0}
				k.Scripts = []sim.Script{{ClientWrites: []int{500, 3000}, ServerWrites: []int{2000}, MaxRead: 1500}}
			})
			mk(func(k *udpCase) {
				k.Faults.DropS2C = []int{0}
				k.Scripts = []sim.Script{{ClientWrites: []int{500, 3000}, ServerWrites: []int{2000}, MaxRead: 1500}}
			})
			n = len(cases)
			c.Sample(cases[0])
			c.Sample(cases[1])
			core.Parallel(n, 12, func(i int) { udpRun(c, cases[i], "C02") })
			bgClose.Wait(30 * time.Second)
		},
		Replay: func(c *core.Ctx, raw json.RawMessage) {
			var k udpCase
			if json.Unmarshal(raw, &k) == nil {
				udpRun(c, k, "C02")
			}
		},
	})
	core.Register("C13", &core.Scenario{
		Run: func(c *core.Ctx) {
			if !stageOn("main") {
				return
			}
			c.Res.Rule = "the fault schedules of C02 (same generator, different seeds): every datagram on the simulated network is decoded; each cumulative ack is compared with the exact set of that session's datagrams the network had handed to its emitter before the emission; all transmissions of one (session, direction, seq) are compared (type, fragment, payload); first transmissions must be numbered 0,1,2,…. Distinct = distinct case JSON."
			c.Correspondence("wire monitor over UDP runs + Arq.acceptAll on every (session,direction) history")
			n := c.N(36, 480)
			cases := make([]udpCase, n)
			for i := range cases {
				cases[i] = genUDPCase(c.Rand, 60000, c.Thorough() && i%4 == 0)
				if i < len(udpBoundaryMTUs) {
					cases[i].MTU = udpBoundaryMTUs[i]
				}
				// more loss and reordering than C02's mix: retransmissions and out-of-order delivery are the point
				if i%2 == 0 {
					cases[i].Faults.Loss, cases[i].Faults.Reorder, cases[i].Faults.Dup = 0.08, 0.15, 0.05
				}
			}
			// retransmission of the open request with a piggy-backed payload, and of the open response
			for _, drop := range [][2][]int{{{0}, nil}, {nil, {0}}, {{0, 1}, {0}}} {
				k := genUDPCase(c.Rand, 20000, false)
				k.Faults = sim.FaultSpec{Seed: c.Rand.Int63(), DelayMs: 20, DropC2S: drop[0], DropS2C: drop[1]}
				k.Scripts = []sim.Script{{ClientWrites: []int{700, 5000}, ServerWrites: []int{3000}, MaxRead: 1500},
					{ClientWrites: []int{700, 600, 5000}, ServerWrites: []int{3000}, MaxRead: 1500}}
				k.TimeoutS = 60
				cases = append(cases, k)
			}
			n = len(cases)
			c.Sample(cases[0])
			core.Parallel(n, 12, func(i int) { udpRun(c, cases[i], "C13") })
			bgClose.Wait(30 * time.Second)
		},
		Replay: func(c *core.Ctx, raw json.RawMessage) {
			var k udpCase
			if json.Unmarshal(raw, &k) == nil {
				udpRun(c, k, "C13")
			}
		},
	})
}
