package props

import (
	"context"
	"encoding/json"
	"fmt"
	"math/rand"
	"net"
	"strings"
	"sync"
	"time"

	"verifharness/core"
	"verifharness/sim"
	"verifharness/simnet"
)

// C06, simultaneous presentation: an on-path observer forwards a genuine first segment / first
// datagram on its own connection (from its own source address) AT ONCE, i.e. while the server is
// still busy finding out which user sealed the original. The property makes no exception for that
// schedule: of the byte-exact copies at most one — the first the server looks at — may open a
// session or draw a reply. The window is the duration of user discovery, so the server carries a few
// hundred registered users and the segments name no user in their hint.
//
// Oracle (direct): per round, sessions handed to the application ≤ 1 and peers that received bytes
// (datagrams) from the server ≤ 1. Positive control: at least one copy is served.

type c06RaceCase struct {
	Seed   int64 `json:"seed"`
	UDP    bool  `json:"udp"`
	Decoys int   `json:"decoys"`
	Rounds int   `json:"rounds"`
	Copies int   `json:"simultaneous_copies"`
}

func c06RaceRun(c *core.Ctx, k c06RaceCase) {
	r := rand.New(rand.NewSource(k.Seed))
	users := []sim.User{{Name: "alice", Password: "alice-secret"}}
	for i := 0; i < k.Decoys; i++ {
		h := make([]byte, 32)
		r.Read(h)
		users = append(users, sim.User{Name: fmt.Sprintf("decoy-%04d", i), HashedHex: core.Hex(h)})
	}
	w, err := sim.NewWorld(sim.Config{UDP: k.UDP, Seed: k.Seed, Users: users})
	if err != nil {
		c.Violate("C06/setup", err.Error(), k)
		return
	}
	defer bgClose.Go(w.Close)
	var mu sync.Mutex
	accepted := 0
	go func() {
		for {
			conn, err := w.Server.Accept()
			if err != nil {
				return
			}
			mu.Lock()
			accepted++
			mu.Unlock()
			go func(cn net.Conn) {
				buf := make([]byte, 65536)
				for {
					n, err := cn.Read(buf)
					if n > 0 {
						cn.Write(buf[:n])
					}
					if err != nil {
						return
					}
				}
			}(conn)
		}
	}()
	served := 0
	for round := 0; round < k.Rounds; round++ {
		// a genuine first segment of alice whose hint names nobody registered: discovery tries everyone
		var data []byte
		if k.UDP {
			data = wireDatagram(r, "alice", "alice-secret", "nobody-registered")
		} else {
			data = wireHandshake(r, "alice", "alice-secret", "nobody-registered")
		}
		mu.Lock()
		before := accepted
		mu.Unlock()
		w.Net.Lock()
		dgBefore := len(w.Net.Datagrams)
		w.Net.Unlock()
		type peer struct {
			conn  *simnet.Conn
			pc    net.PacketConn
			paddr string
		}
		peers := make([]peer, k.Copies)
		for i := range peers {
			if k.UDP {
				pc, err := w.Net.ListenPacket(context.Background(), "udp", "", "")
				if err != nil {
					c.Res.Discarded++
					return
				}
				peers[i] = peer{pc: pc, paddr: pc.LocalAddr().String()}
			} else {
				cc, _, err := w.Net.DialPair("10.8.0.1:8964")
				if err != nil {
					c.Res.Discarded++
					return
				}
				peers[i] = peer{conn: cc}
			}
		}
		time.Sleep(20 * time.Millisecond) // every connection is accepted and its reader is waiting
		start := make(chan struct{})
		var wg sync.WaitGroup
		for i := range peers {
			wg.Add(1)
			go func(p peer) {
				defer wg.Done()
				<-start
				if k.UDP {
					p.pc.WriteTo(data, &net.UDPAddr{IP: net.IPv4(10, 8, 0, 1), Port: 8964})
				} else {
					p.conn.Write(data)
				}
			}(peers[i])
		}
		close(start)
		wg.Wait()
		// the outcome is settled once one copy has been answered and discovery for the others is over
		deadline := time.Now().Add(5 * time.Second)
		for time.Now().Before(deadline) {
			mu.Lock()
			a := accepted - before
			mu.Unlock()
			if a > 0 {
				break
			}
			time.Sleep(10 * time.Millisecond)
		}
		time.Sleep(300 * time.Millisecond)
		mu.Lock()
		opened := accepted - before
		mu.Unlock()
		replied := 0
		if k.UDP {
			got := map[string]bool{}
			w.Net.Lock()
			for _, d := range w.Net.Datagrams[dgBefore:] {
				if d.From == "10.8.0.1:8964" {
					got[d.To] = true
				}
			}
			w.Net.Unlock()
			for _, p := range peers {
				if got[p.paddr] {
					replied++
				}
				p.pc.Close()
			}
		} else {
			for _, p := range peers {
				_, s2c, _, _ := p.conn.Capture().Snapshot()
				if len(s2c) > 0 {
					replied++
				}
				p.conn.Close()
			}
		}
		c.Eval(fmt.Sprintf("c06-race/%v/%d/%s", k.UDP, k.Copies, core.Hex(data[:24])), true)
		c.Compared()
		c.Hist("simultaneous_copies_outcome", fmt.Sprintf("%s copies=%d opened=%d replied=%d", map[bool]string{true: "udp", false: "tcp"}[k.UDP], k.Copies, opened, replied))
		if opened > 0 {
			served++
		}
		if opened > 1 || replied > 1 {
			c.Violate("C06/simultaneous-copy-accepted/"+map[bool]string{true: "udp", false: "tcp"}[k.UDP],
				fmt.Sprintf("round %d: one genuine first %s presented at the same time from %d source addresses opened %d sessions and drew replies to %d of them (%d registered users, no hint)", round, map[bool]string{true: "datagram", false: "segment"}[k.UDP], k.Copies, opened, replied, len(users)), k)
			return
		}
	}
	if served == 0 {
		c.Note("C06 simultaneous copies: no round was served at all (%+v) — the scenario exercised nothing", k)
		c.Hist("simultaneous_copies_outcome", "never-served")
	}
}

func init() {
	core.RegisterReplay("C06", func(c *core.Ctx, raw json.RawMessage) bool {
		var k c06RaceCase
		if json.Unmarshal(raw, &k) != nil || !strings.Contains(string(raw), "simultaneous_copies") {
			return false
		}
		c06RaceRun(c, k)
		bgClose.Wait(30 * time.Second)
		return true
	})
	core.RegisterExtra("C06", func(c *core.Ctx) {
		c.Correspondence("simultaneous presentation: a genuine first segment / datagram written at the same instant on 2..4 connections from distinct source addresses while discovery runs over several hundred users: at most one session, at most one replying connection")
		cases := []c06RaceCase{
			{Seed: c.Rand.Int63(), UDP: false, Decoys: c.N(600, 3000), Rounds: c.N(6, 12), Copies: 2},
			{Seed: c.Rand.Int63(), UDP: false, Decoys: c.N(600, 3000), Rounds: c.N(4, 12), Copies: 4},
			{Seed: c.Rand.Int63(), UDP: true, Decoys: c.N(600, 3000), Rounds: c.N(4, 12), Copies: 3},
		}
		c.Sample(cases[0])
		core.Parallel(len(cases), 3, func(i int) { c06RaceRun(c, cases[i]) })
		bgClose.Wait(30 * time.Second)
	})
}
