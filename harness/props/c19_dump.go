package props

import (
	"encoding/json"
	"fmt"
	"os"
	"path/filepath"
	"reflect"
	"sort"
	"strings"
	"time"

	"github.com/enfein/mieru/v3/pkg/metrics"
	pb "github.com/enfein/mieru/v3/pkg/metrics/metricspb"
	"google.golang.org/protobuf/proto"
	"verifharness/core"
)

// C19 round 4: the metrics dump / load FILE path. Real registries (several groups; plain and time-series
// counters, gauges) go through the real DumpMetricsNow and LoadMetricsFromDump (two passes, group
// registration) through real files; the dump may be modified by hand in between. Direct oracle first
// (no counter decreases; an idle dump→load changes nothing), then comparison with Mieru.MetricsDump
// (md-dump / md-load), which receives the real snapshot before each step.

type c19dMetric struct {
	Name  string   `json:"name"`
	Kind  string   `json:"kind"` // c | t | g
	Adds  []c19Add `json:"adds,omitempty"`
	Roll  bool     `json:"roll,omitempty"` // reach op%1000 == 0 on the last add: a real roll-up
	Gauge int64    `json:"gauge,omitempty"`
}

type c19dGroup struct {
	Name    string       `json:"name"`
	Metrics []c19dMetric `json:"metrics"`
}

type c19DumpCase struct {
	Kind   string      `json:"kind"` // dumpfile
	Groups []c19dGroup `json:"groups"`
	More   int64       `json:"more,omitempty"`  // added to every counter after the dump (live larger than dump)
	Craft  []string    `json:"craft,omitempty"` // value-up value-down shuffle drop unknown-group type-swap dup-group noname-group
}

func c19dName(s string) string {
	if s == "" {
		return "~"
	}
	return s
}

// snapshot of the real registry for the candidate (group, metric) names, in the model's wire format
func c19dSnapshot(prefix string, cand [][2]string) (string, map[string]map[string]string) {
	out := map[string]map[string]string{}
	var order []string
	seen := map[[2]string]bool{}
	for _, gm := range cand {
		if seen[gm] {
			continue
		}
		seen[gm] = true
		g := metrics.GetMetricGroupByName(prefix + gm[0])
		if g == nil {
			continue
		}
		m, ok := g.GetMetric(gm[1])
		if !ok {
			continue
		}
		if out[gm[0]] == nil {
			out[gm[0]] = map[string]string{}
			order = append(order, gm[0])
		}
		switch x := m.(type) {
		case *metrics.Counter:
			kind := "c"
			if x.Type() == metrics.COUNTER_TIME_SERIES { // counts as an operation: before the snapshot
				kind = "t"
			}
			v, op, h := c19Snap(x)
			out[gm[0]][gm[1]] = fmt.Sprintf("%s=%d=%d=%s", kind, v, op, c19Show(h))
		default:
			out[gm[0]][gm[1]] = fmt.Sprintf("g=%d=0=-", m.Load())
		}
	}
	if len(order) == 0 {
		return "-", out
	}
	var gs []string
	for _, g := range order {
		parts := []string{c19dName(g)}
		var names []string
		for n := range out[g] {
			names = append(names, n)
		}
		sort.Strings(names)
		for _, n := range names {
			parts = append(parts, c19dName(n)+"="+out[g][n])
		}
		gs = append(gs, strings.Join(parts, "|"))
	}
	return strings.Join(gs, ";"), out
}

// parse the model's registry / dump wire format into group → metric → rest
func c19dParse(s string) map[string]map[string]string {
	out := map[string]map[string]string{}
	if s == "-" {
		return out
	}
	for _, g := range strings.Split(s, ";") {
		parts := strings.Split(g, "|")
		name := parts[0]
		if name == "~" {
			name = ""
		}
		if len(parts) > 1 && out[name] == nil {
			out[name] = map[string]string{}
		}
		for _, m := range parts[1:] {
			kv := strings.SplitN(m, "=", 2)
			n := kv[0]
			if n == "~" {
				n = ""
			}
			out[name][n] = kv[1]
		}
	}
	return out
}

func c19dShowDump(prefix string, groups []*pb.MetricGroup) string {
	if len(groups) == 0 {
		return "-"
	}
	var gs []string
	for _, g := range groups {
		parts := []string{c19dName(strings.TrimPrefix(g.GetName(), prefix))}
		for _, m := range g.GetMetrics() {
			var h []c19Entry
			for _, e := range m.GetHistory() {
				h = append(h, c19Entry{e.GetTimeUnixMilli(), e.GetDelta(), int32(e.GetRollUp())})
			}
			parts = append(parts, fmt.Sprintf("%s=%d=%d=%s", c19dName(m.GetName()), int32(m.GetType()), m.GetValue(), c19Show(h)))
		}
		gs = append(gs, strings.Join(parts, "|"))
	}
	return strings.Join(gs, ";")
}

func c19RunDumpFile(c *core.Ctx, k c19DumpCase) {
	base := time.Now()
	run := c19UserSeq.Add(1)
	prefix := fmt.Sprintf("vC19d-%d-%d-%d-", c.Seed, os.Getpid(), run)
	var cand [][2]string
	var counters []*metrics.Counter
	for _, g := range k.Groups {
		for _, m := range g.Metrics {
			cand = append(cand, [2]string{g.Name, m.Name})
			switch m.Kind {
			case "g":
				metrics.RegisterMetric(prefix+g.Name, m.Name, metrics.GAUGE).Store(m.Gauge)
			default:
				typ := metrics.COUNTER
				if m.Kind == "t" {
					typ = metrics.COUNTER_TIME_SERIES
				}
				ctr := metrics.RegisterMetric(prefix+g.Name, m.Name, typ).(*metrics.Counter)
				counters = append(counters, ctr)
				for i, a := range m.Adds {
					if m.Roll && i == len(m.Adds)-1 {
						_, opn, _ := c19Snap(ctr)
						for j := 0; j < int((1000-1-opn%1000+1000)%1000); j++ {
							ctr.Load()
						}
					}
					ctr.VerifAddWithTime(a.Delta, time.UnixMilli(base.UnixMilli()-a.Age))
				}
			}
		}
	}
	dir := c.WorkDir
	if dir == "" {
		dir = os.TempDir()
	}
	path := filepath.Join(dir, fmt.Sprintf("c19-dumpfile-%d.pb", run))
	defer os.Remove(path)
	metrics.SetMetricsDumpFilePath(path)

	// ---- DumpMetricsNow
	reg0, _ := c19dSnapshot(prefix, cand)
	if err := metrics.DumpMetricsNow(); err != nil {
		c.Violate("C19/export/dump-failed", err.Error(), k)
		return
	}
	raw, _ := os.ReadFile(path)
	all := &pb.AllMetrics{}
	if err := proto.Unmarshal(raw, all); err != nil {
		c.Violate("C19/export/dump-unreadable", err.Error(), k)
		return
	}
	var mine []*pb.MetricGroup
	for _, g := range all.GetGroups() {
		if strings.HasPrefix(g.GetName(), prefix) {
			sort.Slice(g.Metrics, func(i, j int) bool { return g.Metrics[i].GetName() < g.Metrics[j].GetName() })
			mine = append(mine, g)
		}
	}
	sort.Slice(mine, func(i, j int) bool { return mine[i].GetName() < mine[j].GetName() })
	_, after0 := c19dSnapshot(prefix, nil)
	_ = after0
	md := c.Model.Ask("md-dump %s", reg0)
	f := strings.Fields(md)
	c.Compared()
	if len(f) != 3 || f[0] != "ok" {
		c.Disagree("C19/corr/dumpfile-dump", fmt.Sprintf("model %.200s", md), k)
		return
	}
	if want := c19dParse(c19dShowDump(prefix, mine)); !reflect.DeepEqual(want, c19dParse(f[2])) {
		c.Disagree("C19/corr/dumpfile-dump", fmt.Sprintf("real dump %.300s model %.300s", c19dShowDump(prefix, mine), f[2]), k)
	}
	// the registry after the dump; the model's has counted ToMetricPB's 4 operations and the snapshot's Type()
	regAfterDump, realAfterDump := c19dSnapshot(prefix, cand)
	modelAfterDump := c19dParse(f[1])
	for g, ms := range realAfterDump {
		for n, v := range ms {
			p := strings.Split(v, "=")
			q := strings.Split(modelAfterDump[g][n], "=")
			if len(q) != len(p) {
				c.Disagree("C19/corr/dumpfile-dump-registry", fmt.Sprintf("%s/%s real %s model %s", g, n, v, modelAfterDump[g][n]), k)
				continue
			}
			if p[0] != "g" {
				var a, b int
				fmt.Sscan(p[2], &a)
				fmt.Sscan(q[2], &b)
				p[2], q[2] = fmt.Sprint(a-1), fmt.Sprint(b) // the snapshot's own Type()
			}
			if strings.Join(p, "=") != strings.Join(q, "=") {
				c.Disagree("C19/corr/dumpfile-dump-registry", fmt.Sprintf("%s/%s real %s model %s", g, n, v, modelAfterDump[g][n]), k)
			}
		}
	}
	_ = regAfterDump

	// ---- live counters move on
	if k.More > 0 {
		for _, ctr := range counters {
			ctr.VerifAddWithTime(k.More, time.Now())
		}
	}

	// ---- the dump, possibly modified by hand; only this run's groups
	for _, what := range k.Craft {
		switch what {
		case "value-up":
			for _, g := range mine {
				for _, m := range g.Metrics {
					m.Value = proto.Int64(m.GetValue() + 1000 + c.Rand.Int63n(100000))
				}
			}
		case "value-down":
			for _, g := range mine {
				for _, m := range g.Metrics {
					m.Value = proto.Int64(m.GetValue() - 1 - c.Rand.Int63n(50))
				}
			}
		case "shuffle":
			for _, g := range mine {
				for _, m := range g.Metrics {
					h := m.History
					for i := len(h) - 1; i > 0; i-- {
						j := int(c.Rand.Int63n(int64(i + 1)))
						h[i], h[j] = h[j], h[i]
					}
				}
			}
		case "drop":
			if len(mine) > 0 && len(mine[0].Metrics) > 0 {
				mine[0].Metrics = mine[0].Metrics[1:]
			}
		case "type-swap":
			for _, g := range mine {
				for _, m := range g.Metrics {
					if m.GetType() == pb.MetricType_COUNTER {
						m.Type = pb.MetricType_COUNTER_TIME_SERIES.Enum()
					} else if m.GetType() == pb.MetricType_COUNTER_TIME_SERIES {
						m.Type = pb.MetricType_COUNTER.Enum()
					}
				}
			}
		case "unknown-group", "dup-group":
			ug := &pb.MetricGroup{Name: proto.String(prefix + "zz-" + what), Metrics: []*pb.Metric{
				{Name: proto.String("k1"), Type: pb.MetricType_COUNTER.Enum(), Value: proto.Int64(5)},
				{Name: proto.String("k2"), Type: pb.MetricType_COUNTER_TIME_SERIES.Enum(), Value: proto.Int64(9), History: []*pb.History{
					{TimeUnixMilli: proto.Int64(base.UnixMilli() - 5000), Delta: proto.Int64(4), RollUp: pb.RollUpLabel_ROLL_UP_TO_SECOND.Enum()},
					{TimeUnixMilli: proto.Int64(base.UnixMilli()), Delta: proto.Int64(5), RollUp: pb.RollUpLabel_NO_ROLL_UP.Enum()}}},
				{Name: proto.String(""), Type: pb.MetricType_COUNTER.Enum(), Value: proto.Int64(3)},
				{Name: proto.String("k3"), Type: pb.MetricType_GAUGE.Enum(), Value: proto.Int64(4)},
				{Name: proto.String("k4"), Type: pb.MetricType_UNSPECIFIED.Enum(), Value: proto.Int64(1)},
				{Name: proto.String("k1"), Type: pb.MetricType_COUNTER.Enum(), Value: proto.Int64(8)},
			}}
			mine = append(mine, ug)
			if what == "dup-group" {
				mine = append(mine, ug)
			}
		case "noname-group":
			mine = append(mine, &pb.MetricGroup{Name: proto.String(""), Metrics: []*pb.Metric{
				{Name: proto.String("k1"), Type: pb.MetricType_COUNTER.Enum(), Value: proto.Int64(77)}}})
		}
	}
	for _, g := range mine {
		for _, m := range g.Metrics {
			cand = append(cand, [2]string{strings.TrimPrefix(g.GetName(), prefix), m.GetName()})
		}
	}
	raw, err := proto.Marshal(&pb.AllMetrics{Groups: mine})
	if err != nil || os.WriteFile(path, raw, 0o660) != nil {
		return
	}
	dumpStr := c19dShowDump(prefix, mine)

	// ---- LoadMetricsFromDump
	reg1, real1 := c19dSnapshot(prefix, cand)
	if err := metrics.LoadMetricsFromDump(); err != nil {
		c.Violate("C19/export/load-failed", err.Error(), k)
		return
	}
	_, real2 := c19dSnapshot(prefix, cand)
	val := func(s string) int64 {
		var v int64
		p := strings.Split(s, "=")
		if len(p) > 1 && p[0] != "g" {
			fmt.Sscan(p[1], &v)
		}
		return v
	}
	hist := func(s string) string { p := strings.Split(s, "="); return p[len(p)-1] }
	var tot1, tot2 int64
	for g, ms := range real1 {
		for n, v := range ms {
			w, ok := real2[g][n]
			if !ok || val(w) < val(v) {
				c.Violate("C19/export/load-decreases-total", fmt.Sprintf("%s/%s: %s → %s", g, n, v, w), k)
			}
			if k.More == 0 && len(k.Craft) == 0 && (val(w) != val(v) || hist(w) != hist(v)) {
				c.Violate("C19/export/round-trip-changes-counter", fmt.Sprintf("%s/%s: %s → %s", g, n, v, w), k)
			}
			tot1 += val(v)
		}
	}
	for _, ms := range real2 {
		for _, v := range ms {
			tot2 += val(v)
		}
	}
	if tot2 < tot1 {
		c.Violate("C19/export/load-decreases-total", fmt.Sprintf("Σ %d → %d", tot1, tot2), k)
	}
	ml := c.Model.Ask("md-load %s %s 0", reg1, dumpStr)
	f = strings.Fields(ml)
	c.Compared()
	if len(f) != 4 || f[0] != "ok" {
		c.Disagree("C19/corr/dumpfile-load", fmt.Sprintf("model %.200s", ml), k)
		return
	}
	model2 := c19dParse(f[1])
	// the snapshot after the load counted one Type() per counter
	for g, ms := range real2 {
		for n, v := range ms {
			p := strings.Split(v, "=")
			if p[0] != "g" {
				var a int
				fmt.Sscan(p[2], &a)
				p[2] = fmt.Sprint(a - 1)
				ms[n] = strings.Join(p, "=")
			}
		}
		_ = g
	}
	if !reflect.DeepEqual(real2, model2) || f[3] != fmt.Sprint(tot2) {
		c.Disagree("C19/corr/dumpfile-load", fmt.Sprintf("real %.400v (Σ %d) model %.400s (Σ %s)", real2, tot2, f[1], f[3]), k)
	}
	c.Hist("dumpfile", fmt.Sprintf("groups=%d/more=%v/craft=%s", len(k.Groups), k.More > 0, strings.Join(k.Craft, "+")))
	c.Eval(fmt.Sprintf("dumpfile/%d/%d/%s", len(k.Groups), tot2, strings.Join(k.Craft, "+")), true)
	c.Res.TracesValidated++
}

func c19GenDumpFile(c *core.Ctx) c19DumpCase {
	k := c19DumpCase{Kind: "dumpfile"}
	for g := 0; g < 1+c.Rand.Intn(4); g++ {
		grp := c19dGroup{Name: fmt.Sprintf("g%d", g)}
		for m := 0; m < 1+c.Rand.Intn(4); m++ {
			mt := c19dMetric{Name: fmt.Sprintf("m%d", m), Kind: []string{"t", "t", "t", "c", "g"}[c.Rand.Intn(5)], Gauge: c.Rand.Int63n(1000)}
			ages := c19Ages(c, c.Rand.Intn(12))
			sort.Slice(ages, func(i, j int) bool { return ages[i] > ages[j] })
			for _, a := range ages {
				mt.Adds = append(mt.Adds, c19Add{int64(1 + c.Rand.Intn(9000)), a})
			}
			mt.Roll = c.Rand.Intn(4) == 0
			grp.Metrics = append(grp.Metrics, mt)
		}
		k.Groups = append(k.Groups, grp)
	}
	if c.Rand.Intn(2) == 0 {
		k.More = int64(1 + c.Rand.Intn(5000))
	}
	crafts := []string{"value-up", "value-down", "shuffle", "drop", "unknown-group", "type-swap", "dup-group", "noname-group"}
	for i := 0; i < c.Rand.Intn(4); i++ {
		k.Craft = append(k.Craft, crafts[c.Rand.Intn(len(crafts))])
	}
	return k
}

func init() {
	core.RegisterReplay("C19", func(c *core.Ctx, raw json.RawMessage) bool {
		var k c19DumpCase
		if json.Unmarshal(raw, &k) != nil || k.Kind != "dumpfile" {
			return false
		}
		c19RunDumpFile(c, k)
		return true
	})
	core.RegisterExtra("C19", func(c *core.Ctx) {
		c.Correspondence("md-dump / md-load: pkg/metrics DumpMetricsNow + LoadMetricsFromDump through real files (several groups, counters / time series / gauges, hand-modified dumps) vs Mieru.MetricsDump")
		one := []c19Add{{5, 10}}
		old := []c19Add{{3, 400000}, {4, 399000}, {2, 10}}
		bounds := []c19DumpCase{
			{Kind: "dumpfile"}, // empty registry
			{Kind: "dumpfile", Groups: []c19dGroup{{"g0", []c19dMetric{{Name: "m0", Kind: "t"}}}}},                                       // empty history, value 0
			{Kind: "dumpfile", Groups: []c19dGroup{{"g0", []c19dMetric{{Name: "m0", Kind: "t", Adds: one}, {Name: "m1", Kind: "c", Adds: one}}}}}, // one entry
			{Kind: "dumpfile", Groups: []c19dGroup{{"g0", []c19dMetric{{Name: "m0", Kind: "t", Adds: old, Roll: true}}}}},                  // rolled up
			{Kind: "dumpfile", Groups: []c19dGroup{{"g0", []c19dMetric{{Name: "m0", Kind: "t", Adds: old, Roll: true}}}}, More: 7, Craft: []string{"value-down", "unknown-group"}},
			{Kind: "dumpfile", Groups: []c19dGroup{{"g0", []c19dMetric{{Name: "m0", Kind: "t", Adds: old}, {Name: "m1", Kind: "g", Gauge: 4}}}}, Craft: []string{"dup-group", "type-swap", "noname-group"}},
		}
		for _, k := range bounds {
			c19RunDumpFile(c, k)
		}
		for i := 0; i < c.N(40, 400); i++ {
			c19RunDumpFile(c, c19GenDumpFile(c))
		}
	})
}
