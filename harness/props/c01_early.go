package props

import (
	"bytes"
	"fmt"
	"hash/fnv"
	"strings"

	apimodel "github.com/enfein/mieru/v3/apis/model"

	"verifharness/core"
	"verifharness/sim"
	"verifharness/wire"
)

// Tie of the API-handshake model (lean/Mieru/Model/EarlyConn.lean) to apis/client + apis/server,
// run on the API programs of the program stage in BOTH handshake modes, same on every seed/tier.
// Per session (found by the port in the SOCKS5 request at the head of its client→server stream):
//
//	msgLen      Lean `early-msglen` on the head of each direction's stream = the number of bytes the
//	            REAL Request.ReadFromSocks5 / Response.ReadFromSocks5 consume from the same bytes;
//	wire        `early-acts <mode> <request> <the script's writes>` gives the session-level Write
//	            calls (standard: request alone first; 0-RTT: request ++ first write in ONE call);
//	            `tcps-run c` on them gives the segments; the data-bearing segments of the session on
//	            the captured wire must be exactly those (type, number, length, FNV of the payload) —
//	            a prefix of them when the server application closed without reading to the end;
//	streams     what follows the request (the reply) on the wire is a prefix of what the client
//	            (server) APPLICATION wrote: the application streams are the same in both modes.
func c01EarlyWire(c *core.Ctx, k c01pCase, bySid map[uint32]map[bool][]*wire.Segment) {
	mode := "standard"
	if k.NoWait {
		mode = "nowait"
	}
	sum := func(b []byte) string { h := fnv.New32a(); h.Write(b); return fmt.Sprint(h.Sum32()) }
	for _, dirs := range bySid {
		var c2s, s2c []*wire.Segment
		var up, down []byte
		le := false
		for _, s := range dirs[true] {
			if (s.Proto == wire.CloseSessionRequest || s.Proto == wire.CloseSessionResponse) && len(up) > 0 {
				// Behind the client's first close segment nothing is the application's program any
				// more: when the server closed first, the client's input loop answers (close response,
				// own close request) while the application may still be inside Write — seen on seed 2:
				// the two fragments of one Write numbered 2 and 5. Compared up to here only.
				break
			}
			if s.IsData() || s.Proto == wire.OpenSessionRequest {
				c2s = append(c2s, s)
				up = append(up, s.Payload...)
				le = le || s.IsLE()
			}
		}
		for _, s := range dirs[false] {
			if s.IsData() || s.Proto == wire.OpenSessionResponse {
				s2c = append(s2c, s)
				down = append(down, s.Payload...)
			}
		}
		if len(up) == 0 {
			continue
		}
		// msgLen against the real readers
		realLen := func(b []byte, resp bool) int {
			r := bytes.NewReader(b)
			var err error
			if resp {
				err = (&apimodel.Response{}).ReadFromSocks5(r)
			} else {
				err = (&apimodel.Request{}).ReadFromSocks5(r)
			}
			if err != nil {
				return -1
			}
			return len(b) - r.Len()
		}
		modelLen := func(b []byte) int {
			reply := c.Model.Ask("early-msglen %s", core.Hex(b))
			n := -1
			fmt.Sscanf(reply, "ok %d", &n)
			return n
		}
		head := up[:min(len(up), 300)]
		n := realLen(head, false)
		c.Compared()
		if m := modelLen(head); m != n {
			c.Disagree("C01/early/msglen", fmt.Sprintf("%s: Request.ReadFromSocks5 consumes %d bytes of %x…, the model says %d", k.Name, n, head[:min(len(head), 24)], m), k)
		}
		if n != 10 {
			c.Violate("C01/early/request-not-first", fmt.Sprintf("%s (%s): the client→server stream of a session does not start with the SOCKS5 request of DialContext: %x", k.Name, mode, head[:min(len(head), 24)]), k)
			continue
		}
		req := up[:n]
		idx := int(req[8])<<8 | int(req[9])
		idx -= 1000
		if idx < 0 || idx >= len(k.Sess) {
			c.Violate("C01/early/request-not-first", fmt.Sprintf("%s (%s): unknown destination in the request %x", k.Name, mode, req), k)
			continue
		}
		sc := k.Sess[idx]
		c.Hist("early_mode", mode)
		// application streams
		exp := make([]byte, sumInts(sc.ClientWrites))
		sim.FillStream(exp, k.Seed, idx, 0, 0)
		if len(up)-n > len(exp) || !bytes.Equal(up[n:], exp[:len(up)-n]) {
			c.Violate("C01/early/"+mode+"/client-stream-differs", fmt.Sprintf("%s session %d: behind the request the wire does not carry (a prefix of) what the client application wrote", k.Name, idx), k)
			continue
		}
		if len(down) > 0 {
			dh := down[:min(len(down), 300)]
			rn := realLen(dh, true)
			c.Compared()
			if m := modelLen(dh); m != rn {
				c.Disagree("C01/early/msglen", fmt.Sprintf("%s: Response.ReadFromSocks5 consumes %d bytes of %x…, the model says %d", k.Name, rn, dh[:min(len(dh), 24)], m), k)
			}
			if rn > 0 {
				expd := make([]byte, sumInts(sc.ServerWrites))
				sim.FillStream(expd, k.Seed, idx, 1, 0)
				if len(down)-rn > len(expd) || !bytes.Equal(down[rn:], expd[:len(down)-rn]) {
					c.Violate("C01/early/"+mode+"/server-stream-differs", fmt.Sprintf("%s session %d: behind the reply the wire does not carry (a prefix of) what the server application wrote", k.Name, idx), k)
				}
			}
		}
		if le {
			c.Hist("early_wire", "skipped-low-entropy")
			continue
		}
		// the model's session writes and segments
		calls := []string{}
		off := 0
		for _, w := range sc.ClientWrites {
			calls = append(calls, "w/"+core.Hex(exp[off:off+w]))
			off += w
		}
		reply := c.Model.Ask("early-acts %s %s %s", mode, core.Hex(req), strings.Join(calls, " "))
		f := strings.Fields(reply)
		if len(f) == 0 || f[0] != "ok" {
			c.Disagree("C01/early/model-stuck", fmt.Sprintf("%s session %d (%s): the model cannot run the script: %s", k.Name, idx, mode, reply), k)
			continue
		}
		var ops []string
		for _, a := range f[1:] {
			if strings.HasPrefix(a, "W/") {
				ops = append(ops, "w/-/-/"+a[2:])
				if len(ops) == 1 {
					c.Hist("early_first_session_write", fmt.Sprintf("%s/%d", mode, (len(a)-2)/2))
				}
			}
		}
		segs := strings.Fields(c.Model.Ask("tcps-run c %s", strings.Join(ops, " ")))
		var want []string
		for _, s := range segs {
			p := strings.Split(s, "/")
			if len(p) == 9 && (p[0] == fmt.Sprint(int(wire.OpenSessionRequest)) || p[0] == fmt.Sprint(int(wire.DataClientToServer))) {
				want = append(want, p[0]+"/"+p[1]+"/"+p[7]+"/"+p[8])
			}
		}
		var got []string
		for _, s := range c2s {
			got = append(got, fmt.Sprintf("%d/%d/%d/%s", s.Proto, s.Seq, len(s.Payload), sum(s.Payload)))
		}
		c.Compared()
		readerLeft := sc.ServerClose == "after-writes" // the wire may stop early: prefix
		okp := len(got) <= len(want) && (readerLeft || len(got) == len(want))
		for i := 0; okp && i < len(got); i++ {
			okp = got[i] == want[i]
		}
		c.Hist("early_wire", fmt.Sprintf("%s/first-segment-payload=%s/ok=%v", mode, core.SizeBucket(len(c2s[0].Payload)), okp))
		if !okp {
			c.Disagree("C01/early/"+mode+"/segments-differ", fmt.Sprintf("%s session %d (writes %v): wire (type/seq/len/fnv) %.300s, model %.300s", k.Name, idx, sc.ClientWrites, strings.Join(got, " "), strings.Join(want, " ")), k)
		}
	}
}
