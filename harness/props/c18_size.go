package props

import (
	"bytes"
	"encoding/binary"
	"fmt"
	"net"
	"time"

	apicommon "github.com/enfein/mieru/v3/apis/common"
	"github.com/enfein/mieru/v3/pkg/socks5"
	"verifharness/core"
)

// C18, stage "reply sizes": deterministic on EVERY run. One association through the real RunUDPAssociateLoop with a
// "sized" sink per address family: a 4-byte request makes the sink reply with exactly N bytes. For every N at the
// boundaries of a UDP payload (65506/65507 over IPv4; 65506 … 65527 over IPv6, the largest UDP payload there) and of
// one tunnel frame (header + N = 65534/65535/65536), in both header forms (literal address, a 28-byte domain name):
//   - a reply that fits one frame comes out as header ++ exactly those N bytes (nothing cut: seeded change C18-5 read
//     replies into a 65507-byte buffer, so a 65508-byte IPv6 reply came out as a well-formed 65507-byte datagram);
//   - a reply that does not fit is dropped and the NEXT small reply still arrives (audit B C18 MODEL-MISMATCH-1: before
//     "fix: UDP associate drops a reply that does not fit a tunnel packet…" the reply direction stopped for good);
// each compared with Mieru.SocksMsg.Assoc.downChecked (op assoc-down2).

type c18SizeReplay struct {
	Kind string `json:"kind"` // "reply-size"
	V6   bool   `json:"v6"`
	Form string `json:"form"`
	N    int    `json:"n"`
}

func c18SizedReply(n int) []byte {
	r := make([]byte, n)
	for i := range r {
		r[i] = byte(i*7 + n)
	}
	return r
}

func c18ReplySizes(c *core.Ctx) {
	c.Correspondence("reply-size: RunUDPAssociateLoop, replies at the UDP / tunnel-frame size boundaries over IPv4 and IPv6 vs Mieru.SocksMsg.Assoc.downChecked")
	for _, v6 := range []bool{false, true} {
		if v6 && !c18HasV6() {
			c.Note("C18 reply sizes: ::1 cannot be bound — the IPv6 sizes (65508 … 65527) are NOT exercised on this host")
			c.Hist("reply_size", "skipped-no-ipv6")
			continue
		}
		c18ReplySizesFamily(c, v6)
	}
}

func c18ReplySizesFamily(c *core.Ctx, v6 bool) {
	network, ip := "udp4", net.IPv4(127, 0, 0, 1)
	maxUDP := 65507
	if v6 {
		network, ip, maxUDP = "udp6", net.IPv6loopback, 65527
	}
	fam := map[bool]string{false: "ipv4", true: "ipv6"}[v6]
	sink, err := net.ListenUDP(network, &net.UDPAddr{IP: ip})
	if err != nil {
		c.Note("C18 reply sizes: cannot open the %s sink: %v", fam, err)
		return
	}
	defer sink.Close()
	sink.SetWriteBuffer(1 << 20)
	sendErr := make(chan error, 64)
	go func() {
		buf := make([]byte, 1<<16)
		for {
			n, from, err := sink.ReadFromUDP(buf)
			if err != nil {
				return
			}
			if n == 4 {
				if _, err := sink.WriteToUDP(c18SizedReply(int(binary.BigEndian.Uint32(buf[:4]))), from); err != nil {
					sendErr <- err
				}
			}
		}
	}()
	listenIP := net.IPv4zero
	if c18HasV6() {
		listenIP = net.IPv6unspecified
	}
	udpConn, err := net.ListenUDP("udp", &net.UDPAddr{IP: listenIP})
	if err != nil {
		c.Note("C18 reply sizes: cannot open the relay socket: %v", err)
		return
	}
	udpConn.SetReadBuffer(1 << 21)
	name := "a-rather-long-host-name.test" // 28 bytes: header 7 + 28 = 35
	a, b := c18Pipe(nil, nil)
	done := make(chan error, 1)
	go func() {
		defer func() { recover(); done <- nil }()
		socks5.RunUDPAssociateLoop(udpConn, apicommon.NewPacketOverStreamTunnel(a), c18Resolver{name: ip})
	}()
	defer func() {
		b.Close()
		udpConn.Close()
		select {
		case <-done:
		case <-time.After(c18Wait):
		}
	}()
	fr := c18StartFrameReader(b)
	port := sink.LocalAddr().(*net.UDPAddr).Port
	hdrs := map[string][]byte{}
	lit := []byte{0, 0, 0, 1}
	if v6 {
		lit = []byte{0, 0, 0, 4}
	}
	lit = append(lit, c18CanonIP(ip)...)
	hdrs["ip"] = append(lit, byte(port>>8), byte(port))
	dom := append([]byte{0, 0, 0, 3, byte(len(name))}, name...)
	hdrs["domain"] = append(dom, byte(port>>8), byte(port))
	c.Model.Ask("assoc-new")
	c.Model.Ask("assoc-host %s %s", core.Hex([]byte(name)), c18IPHex(ip))
	ask := func(form string, n int) bool {
		req := make([]byte, 4)
		binary.BigEndian.PutUint32(req, uint32(n))
		pkt := append(append([]byte(nil), hdrs[form]...), req...)
		c.Model.Ask("assoc-up %s", core.Hex(pkt))
		_, err := b.Write(c18Frame(pkt))
		return err == nil
	}
	next := func(wait time.Duration) ([]byte, bool) {
		select {
		case d, ok := <-fr.ch:
			return d, ok
		case <-time.After(wait):
			return nil, false
		}
	}
	for _, form := range []string{"ip", "domain"} {
		h := len(hdrs[form])
		sizes := []int{0, 1, 65506, 65507}
		if v6 {
			sizes = append(sizes, 65508, 65512, 65513, 65514, 65527)
		}
		sizes = append(sizes, 65534-h, 65535-h, 65536-h)
		seen := map[int]bool{}
		for _, n := range sizes {
			if n < 0 || n > maxUDP || seen[n] {
				continue
			}
			seen[n] = true
			k := c18SizeReplay{Kind: "reply-size", V6: v6, Form: form, N: n}
			if !ask(form, n) {
				c.Violate("C18/assoc/tunnel-closed-early", "tunnel write failed during the reply-size stage", k)
				return
			}
			m := c.Model.Ask("assoc-down2 %s %d %s", c18IPHex(ip), port, core.Hex(c18SizedReply(n)))
			c.Compared()
			c.Eval(fmt.Sprintf("reply-size/%s/%s/%d", fam, form, n), true)
			fits := h+n <= 65535
			c.Hist("reply_size", fmt.Sprintf("%s/%s/header=%d/n=%d/fits=%v", fam, form, h, n, fits))
			if fits {
				got, ok := next(c18Wait)
				select {
				case e := <-sendErr:
					c.Note("C18 reply sizes: the sink could not send %d bytes over %s: %v (size not exercised)", n, fam, e)
					continue
				default:
				}
				if !ok {
					c.Violate("C18/assoc/reply-lost", fmt.Sprintf("%s, header form %s (%d bytes): a reply of %d bytes (fits one frame) never reached the tunnel", fam, form, h, n), k)
					return
				}
				want := append(append([]byte(nil), hdrs[form]...), c18SizedReply(n)...)
				if m != "ok "+core.Hex(got) {
					c.Disagree("C18/corr/assoc-down2", fmt.Sprintf("%s %s n=%d: model %s impl %s", fam, form, n, c18Short(m), c18Short(core.Hex(got))), k)
				}
				if !bytes.Equal(got, want) {
					c.Violate(fmt.Sprintf("C18/assoc/reply-size/%s", fam), fmt.Sprintf("%s, header form %s: a reply of %d bytes came out of the tunnel as a datagram of %d bytes (header %d + %d): %s", fam, form, n, len(got), h, len(got)-h, c18Short(core.Hex(got))), k)
				}
				continue
			}
			// does not fit one frame: nothing comes out for it, and the next small reply must still arrive
			if m != "ok dropped-oversize" {
				c.Disagree("C18/corr/assoc-down2", fmt.Sprintf("%s %s n=%d (header %d): model %s, expected dropped-oversize", fam, form, n, h, c18Short(m)), k)
			}
			if !ask(form, 33) {
				c.Violate("C18/assoc/tunnel-closed-early", "tunnel write failed after an oversize reply", k)
				return
			}
			m2 := c.Model.Ask("assoc-down2 %s %d %s", c18IPHex(ip), port, core.Hex(c18SizedReply(33)))
			got, ok := next(c18Wait)
			if !ok {
				c.Violate("C18/assoc/oversize/later-reply-lost", fmt.Sprintf("%s, header form %s (%d bytes): after ONE reply of %d bytes (header + reply = %d > 65535, cannot be framed) the association relays no reply any more: a 33-byte reply sent afterwards never reached the tunnel (the upstream direction still works)", fam, form, h, n, h+n), k)
				return
			}
			if len(got) == h+n {
				c.Violate("C18/assoc/oversize/framed", fmt.Sprintf("a reply of %d bytes with a %d-byte header was written to the tunnel", n, h), k)
				continue
			}
			if m2 != "ok "+core.Hex(got) {
				c.Disagree("C18/corr/assoc-down2", fmt.Sprintf("%s %s: small reply after an oversize one: model %s impl %s", fam, form, c18Short(m2), c18Short(core.Hex(got))), k)
			}
		}
	}
}
