package props

import (
	"bytes"
	"context"
	"fmt"
	"io"
	"math/rand"
	"net"
	"strings"
	"time"

	"verifharness/core"
	"verifharness/sim"
	"verifharness/simnet"
	"verifharness/wire"
)

// C09, endpoint level.
//
// Direction 1: everything real client/server sessions put on the (simulated) wire is decoded by the
// Lean reference codec (Mieru.Model.Spec, written only from docs/protocol.md) given only
// (username, password, clock); the decoded segments must equal the Go reference decoding and carry
// the streams the applications wrote.
// Direction 2: the Lean reference encoder acts as a third-party client against a real server
// (TCP and UDP) and as a third-party server against a real client: the real side's application must
// see exactly the reference side's payloads and vice versa.

func metaSpec(s *wire.Segment) string {
	m := s.Meta
	switch {
	case m.IsSession():
		return fmt.Sprintf("s/%d/%d/%d/%d/%d/%d/%d", m.Proto, m.Timestamp, m.SessionID, m.Seq, m.Status, m.PayloadLen, m.SuffixLen)
	case m.IsLE():
		return fmt.Sprintf("l/%d/%d/%d/%d/%d/%d/%d/%d/%d/%d/%d/%d/%d/%d", m.Proto, m.Byte1, m.Timestamp, m.SessionID, m.Seq, m.UnAck, m.Window, m.Fragment, m.PrefixLen, m.PayloadLen, m.SuffixLen, m.LEMask, m.ExtractedLen, m.LERot)
	default:
		return fmt.Sprintf("d/%d/%d/%d/%d/%d/%d/%d/%d/%d/%d", m.Proto, m.Timestamp, m.SessionID, m.Seq, m.UnAck, m.Window, m.Fragment, m.PrefixLen, m.PayloadLen, m.SuffixLen)
	}
}

func segSpec(s *wire.Segment) string { return metaSpec(s) + ":" + core.Hex(s.Payload) }

func hexKeys(keys [][]byte) string {
	var ks []string
	for _, k := range keys {
		ks = append(ks, core.Hex(k))
	}
	return strings.Join(ks, " ")
}

// c09DecodeWorld decodes everything captured in a world with the Lean codec.
func c09DecodeWorld(c *core.Ctx, w *sim.World, replay interface{}) {
	keys := hexKeys(w.AllKeys())
	if w.Cfg.UDP {
		for _, d := range w.DecodeDatagrams() {
			c.Compared()
			reply := c.Model.Ask("spec-udp-open %s %s", core.Hex(d.Data), keys)
			if d.Err != nil {
				c.Disagree("C09/endpoint/udp-go-reference-cannot-decode", fmt.Sprintf("datagram #%d: %v", d.Index, d.Err), replay)
				continue
			}
			f := strings.Fields(reply)
			if len(f) != 3 || f[0] != "ok" {
				c.Violate("C09/endpoint/udp-datagram-undecodable", fmt.Sprintf("the reference codec written from docs/protocol.md cannot decode emitted datagram #%d (%s→%s, %d bytes, type %d): %s", d.Index, d.From, d.To, len(d.Data), d.Seg.Proto, reply), replay)
				continue
			}
			if f[2] != segSpec(d.Seg) {
				c.Disagree("C09/endpoint/udp-decodings-differ", fmt.Sprintf("datagram #%d: lean %.200s go %.200s", d.Index, f[2], segSpec(d.Seg)), replay)
			}
		}
		return
	}
	w.Net.Lock()
	caps := append([]*simnet.StreamCapture(nil), w.Net.Streams...)
	w.Net.Unlock()
	goDec := w.DecodeStreams()
	gi := 0
	for _, cp := range caps {
		c2s, s2c, _, _ := cp.Snapshot()
		for _, data := range [][]byte{c2s, s2c} {
			gd := goDec[gi]
			gi++
			if len(data) == 0 {
				continue
			}
			c.Compared()
			h := c.Model.Ask("spec-tcp-new %s", keys)
			if !strings.HasPrefix(h, "ok ") {
				c.Disagree("C09/endpoint/driver", h, nil)
				return
			}
			handle := strings.TrimPrefix(h, "ok ")
			var got []string
			dead := ""
			for off := 0; off < len(data) && dead == ""; off += 16384 {
				end := off + 16384
				if end > len(data) {
					end = len(data)
				}
				reply := c.Model.Ask("spec-tcp-feed %s %s", handle, core.Hex(data[off:end]))
				f := strings.Fields(reply)
				if len(f) < 2 || f[0] != "ok" {
					dead = reply
					break
				}
				for _, t := range f[2:] {
					if strings.HasPrefix(t, "dead=") {
						dead = t
					} else {
						got = append(got, t)
					}
				}
			}
			c.Model.Ask("spec-tcp-free %s", handle)
			if dead != "" {
				c.Violate("C09/endpoint/tcp-stream-undecodable", fmt.Sprintf("the reference codec written from docs/protocol.md cannot decode conn %d after %d segments: %s", cp.ID, len(got), dead), replay)
				continue
			}
			if gd.Err != nil {
				c.Disagree("C09/endpoint/tcp-go-reference-cannot-decode", gd.Err.Error(), replay)
				continue
			}
			if len(got) != len(gd.Segs) {
				c.Disagree("C09/endpoint/tcp-decodings-differ", fmt.Sprintf("conn %d: lean decoded %d segments, go %d", cp.ID, len(got), len(gd.Segs)), replay)
				continue
			}
			for i, s := range gd.Segs {
				if got[i] != segSpec(s) {
					c.Disagree("C09/endpoint/tcp-decodings-differ", fmt.Sprintf("conn %d segment %d: lean %.200s go %.200s", cp.ID, i, got[i], segSpec(s)), replay)
					break
				}
			}
		}
	}
}

type c09Third struct {
	Seed    int64  `json:"seed"`
	UDP     bool   `json:"udp"`
	Role    string `json:"role"` // "client" = reference codec is the client
	LEMode  int    `json:"le_mode"`
	LERot   int    `json:"le_rot"`
	Open    int    `json:"open_payload"` // piggy-backed bytes in the open request (0..1024)
	Data    []int  `json:"data"`         // payload sizes of the data segments
	Pads    []int  `json:"pads"`         // padding lengths drawn cyclically (0..255)
	Reply   int    `json:"reply"`        // bytes the real side's application writes back
	LEPad   int    `json:"le_pad"`
	ModelOp string `json:"-"`
}

func randBytes(r *rand.Rand, n int) []byte {
	b := make([]byte, n)
	r.Read(b)
	return b
}

func weightMask(r *rand.Rand, ones int) uint32 {
	perm := r.Perm(32)
	var m uint32
	for i := 0; i < ones; i++ {
		m |= 1 << uint(perm[i])
	}
	return m
}

// c09ThirdPartyClient: the reference encoder opens a session on a real server, sends data, and
// decodes what the server sends back.
func c09ThirdPartyClient(c *core.Ctx, k c09Third) {
	r := rand.New(rand.NewSource(k.Seed))
	w, err := sim.NewWorld(sim.Config{UDP: k.UDP, Seed: k.Seed})
	if err != nil {
		c.Violate("C09/third-party/setup", err.Error(), k)
		return
	}
	defer bgClose.Go(w.Close)
	u := w.Cfg.Users[0]
	now := time.Now()
	ts := uint32(now.Unix() / 60)
	kr := c.Model.Ask("spec-keys %s %s %d", core.Hex([]byte(u.Name)), core.Hex([]byte(u.Password)), now.Unix())
	kf := strings.Fields(kr)
	if len(kf) != 4 {
		c.Disagree("C09/third-party/driver", kr, k)
		return
	}
	key := kf[2]
	allKeys := strings.Join(kf[1:], " ")
	nr := c.Model.Ask("spec-hint %s %s", core.Hex([]byte(u.Name)), core.Hex(randBytes(r, 24)))
	nonce0 := strings.TrimPrefix(nr, "ok ")
	sid := 1 + r.Uint32()%0x7ffffffe
	pad := func(i int) []byte {
		if len(k.Pads) == 0 {
			return nil
		}
		return randBytes(r, k.Pads[i%len(k.Pads)])
	}
	var sent []byte
	type unit struct {
		meta            string
		payload, p1, p2 []byte
	}
	var units []unit
	open := randBytes(r, k.Open)
	sent = append(sent, open...)
	p2 := pad(0)
	units = append(units, unit{fmt.Sprintf("s/2/%d/%d/0/0/%d/%d", ts, sid, len(open), len(p2)), open, nil, p2})
	leOnesN := []int{0, 16, 20, 24, 28}
	leCN := []int{0, 4, 5, 6, 7}
	for i, n := range k.Data {
		pl := randBytes(r, n)
		sent = append(sent, pl...)
		p1, p2 := pad(2*i+1), pad(2*i+2)
		if k.LEMode > 0 && n > 0 {
			enc := (n + leCN[k.LEMode] - 1) / leCN[k.LEMode] * 8
			units = append(units, unit{fmt.Sprintf("l/10/%d/%d/%d/%d/0/256/0/%d/%d/%d/%d/%d/%d", k.LEMode, ts, sid, i+1, len(p1), enc, len(p2), weightMask(r, leOnesN[k.LEMode]), n, k.LERot), pl, p1, p2})
		} else {
			units = append(units, unit{fmt.Sprintf("d/6/%d/%d/%d/0/256/0/%d/%d/%d", ts, sid, i+1, len(p1), n, len(p2)), pl, p1, p2})
		}
	}
	reply := randBytes(r, k.Reply)

	// the real server's application
	type srvRes struct {
		got []byte
		err error
	}
	resCh := make(chan srvRes, 1)
	go func() {
		conn, err := w.Server.Accept()
		if err != nil {
			resCh <- srvRes{nil, err}
			return
		}
		buf := make([]byte, len(sent))
		conn.SetReadDeadline(time.Now().Add(20 * time.Second))
		_, err = io.ReadFull(conn, buf)
		if err == nil && len(reply) > 0 {
			_, err = conn.Write(reply)
		}
		resCh <- srvRes{buf, err}
	}()

	var fromServer []string
	if !k.UDP {
		cc, _, err := w.Net.DialPair("10.8.0.1:8964")
		if err != nil {
			c.Violate("C09/third-party/setup", err.Error(), k)
			return
		}
		defer cc.Close()
		sh := strings.TrimPrefix(c.Model.Ask("spec-tcp-sender %s %s", key, nonce0), "ok ")
		for _, un := range units {
			b := c.Model.Ask("spec-tcp-seal %s %s %s %s %s %d", sh, un.meta, core.Hex(un.payload), core.Hex(un.p1), core.Hex(un.p2), k.LEPad)
			if !strings.HasPrefix(b, "ok ") {
				c.Disagree("C09/third-party/reference-encoder-refused", fmt.Sprintf("%s: %s", un.meta, b), k)
				return
			}
			cc.Write(core.UnHex(strings.TrimPrefix(b, "ok ")))
		}
		// decode the server's direction until the reply is complete
		rh := strings.TrimPrefix(c.Model.Ask("spec-tcp-new %s", allKeys), "ok ")
		var got []byte
		deadline := time.Now().Add(20 * time.Second)
		buf := make([]byte, 65536)
		sawOpenResp := false
		for (len(got) < len(reply) || !sawOpenResp) && time.Now().Before(deadline) {
			cc.SetReadDeadline(time.Now().Add(500 * time.Millisecond))
			n, err := cc.Read(buf)
			if n > 0 {
				rep := c.Model.Ask("spec-tcp-feed %s %s", rh, core.Hex(buf[:n]))
				f := strings.Fields(rep)
				if len(f) < 2 || f[0] != "ok" {
					c.Violate("C09/third-party/server-stream-undecodable", rep, k)
					return
				}
				for _, t := range f[2:] {
					if strings.HasPrefix(t, "dead=") {
						c.Violate("C09/third-party/server-stream-undecodable", "the reference codec cannot decode what the real server sent to a third-party client: "+t, k)
						return
					}
					fromServer = append(fromServer, t)
					parts := strings.SplitN(t, ":", 2)
					if strings.HasPrefix(parts[0], "s/3/") {
						sawOpenResp = true
					}
					if strings.HasPrefix(parts[0], "d/7/") || strings.HasPrefix(parts[0], "s/3/") || strings.HasPrefix(parts[0], "l/11/") {
						got = append(got, core.UnHex(parts[1])...)
					}
				}
			}
			if err != nil && !isTimeout(err) {
				break
			}
		}
		if !bytes.Equal(got, reply) {
			c.Violate("C09/third-party/client-reads-differ", fmt.Sprintf("third-party client decoded %d bytes from the real server, application wrote %d (open response seen: %v)", len(got), len(reply), sawOpenResp), k)
		}
	} else {
		pc, err := w.Net.ListenPacket(context.Background(), "udp", "", "")
		if err != nil {
			c.Violate("C09/third-party/setup", err.Error(), k)
			return
		}
		defer pc.Close()
		srv := &net.UDPAddr{IP: net.IPv4(10, 8, 0, 1), Port: 8964}
		var dgrams [][]byte
		for _, un := range units {
			nn := strings.TrimPrefix(c.Model.Ask("spec-hint %s %s", core.Hex([]byte(u.Name)), core.Hex(randBytes(r, 24))), "ok ")
			b := c.Model.Ask("spec-udp-seal %s %s %s %s %s %s %d", key, nn, un.meta, core.Hex(un.payload), core.Hex(un.p1), core.Hex(un.p2), k.LEPad)
			if !strings.HasPrefix(b, "ok ") {
				c.Disagree("C09/third-party/reference-encoder-refused", fmt.Sprintf("%s: %s", un.meta, b), k)
				return
			}
			dgrams = append(dgrams, core.UnHex(strings.TrimPrefix(b, "ok ")))
		}
		// a minimal reliable sender: repeat every datagram until the server's cumulative ack covers it
		var got []byte
		gotSeq := map[string]bool{}
		sawOpenResp := false
		deadline := time.Now().Add(25 * time.Second)
		buf := make([]byte, 2048)
		acked := uint32(0)
		for time.Now().Before(deadline) && (int(acked) < len(dgrams) || len(got) < len(reply) || !sawOpenResp) {
			for i := int(acked); i < len(dgrams) && i < int(acked)+8; i++ {
				pc.WriteTo(dgrams[i], srv)
			}
			pc.SetReadDeadline(time.Now().Add(150 * time.Millisecond))
			for {
				n, _, err := pc.ReadFrom(buf)
				if err != nil {
					break
				}
				rep := c.Model.Ask("spec-udp-open %s %s", core.Hex(buf[:n]), allKeys)
				f := strings.Fields(rep)
				if len(f) != 3 || f[0] != "ok" {
					c.Violate("C09/third-party/server-datagram-undecodable", "the reference codec cannot decode what the real server sent to a third-party client: "+rep, k)
					return
				}
				parts := strings.SplitN(f[2], ":", 2)
				mf := strings.Split(parts[0], "/")
				fromServer = append(fromServer, parts[0])
				switch mf[0] + "/" + mf[1] {
				case "s/3":
					sawOpenResp = true
					if !gotSeq[mf[4]] {
						gotSeq[mf[4]] = true
					}
				case "d/7", "d/9":
					var ua uint32
					fmt.Sscan(mf[5], &ua)
					if ua > acked {
						acked = ua
					}
					if mf[1] == "7" && !gotSeq[mf[4]] {
						gotSeq[mf[4]] = true
						got = append(got, core.UnHex(parts[1])...) // single-fragment replies only
					}
				case "l/11":
					var ua uint32
					fmt.Sscan(mf[6], &ua)
					if ua > acked {
						acked = ua
					}
					if !gotSeq[mf[5]] {
						gotSeq[mf[5]] = true
						got = append(got, core.UnHex(parts[1])...)
					}
				}
			}
		}
		if int(acked) < len(dgrams) {
			c.Violate("C09/third-party/udp-not-acknowledged", fmt.Sprintf("real server acknowledged %d of %d well-formed third-party datagrams (types seen from server: %v)", acked, len(dgrams), fromServer), k)
		}
		if !bytes.Equal(got, reply) {
			c.Violate("C09/third-party/client-reads-differ", fmt.Sprintf("third-party UDP client decoded %d bytes from the real server, application wrote %d", len(got), len(reply)), k)
		}
	}
	select {
	case sr := <-resCh:
		if sr.err != nil || !bytes.Equal(sr.got, sent) {
			c.Violate("C09/third-party/server-reads-differ", fmt.Sprintf("real server application read %d bytes (err=%v) of the %d bytes a third-party client sent in %d well-formed segments", len(sr.got), sr.err, len(sent), len(units)), k)
		}
	case <-time.After(25 * time.Second):
		c.Violate("C09/third-party/server-never-accepted", "real server did not accept / deliver the session opened by a third-party client", k)
	}
}

func isTimeout(err error) bool {
	ne, ok := err.(net.Error)
	return ok && ne.Timeout()
}

func init() {
	core.RegisterExtra("C09", func(c *core.Ctx) {
		c.Correspondence("endpoint level: all traffic of real sessions decoded by the Lean reference codec (direction 1); Lean reference encoder as third-party client against a real server on TCP and UDP (direction 2)")
		// direction 1
		n := c.N(10, 120)
		type wcase struct {
			tcp c01Case
			udp udpCase
			isU bool
		}
		cases := make([]wcase, n)
		for i := range cases {
			if i%2 == 0 {
				k := genC01(c.Rand, false)
				k.MaxChunk = 0
				cases[i] = wcase{tcp: k}
			} else {
				k := genUDPCase(c.Rand, 30000, false)
				k.Faults = sim.FaultSpec{Seed: 1, Loss: 0.03}
				cases[i] = wcase{udp: k, isU: true}
			}
		}
		core.Parallel(n, 6, func(i int) {
			wc := cases[i]
			var cfg sim.Config
			var scripts []sim.Script
			var seed int64
			var rep interface{}
			if wc.isU {
				k := wc.udp
				cfg = sim.Config{UDP: true, MTU: k.MTU, Seed: k.Seed, Multiplex: k.Multiplex, ClientPattern: patFromJSON(k.ClientPattern), ServerPattern: patFromJSON(k.ServerPattern)}
				scripts, seed, rep = k.Scripts, k.Seed, k
			} else {
				k := wc.tcp
				cfg = sim.Config{Seed: k.Seed, Multiplex: k.Multiplex, ClientPattern: patFromJSON(k.ClientPattern), ServerPattern: patFromJSON(k.ServerPattern)}
				scripts, seed, rep = k.Scripts, k.Seed, k
			}
			w, err := sim.NewWorld(cfg)
			if err != nil {
				return
			}
			defer bgClose.Go(w.Close)
			if wc.isU {
				w.Net.Plan = wc.udp.Faults.Plan("10.8.0.1:8964")
			}
			sim.RunTransfer(w, scripts, seed, 90*time.Second)
			c.Eval(fmt.Sprintf("endpoint-decode/%v/%d", wc.isU, seed), true)
			c.Hist("endpoint_stage", map[bool]string{true: "decode-udp-session", false: "decode-tcp-session"}[wc.isU])
			c.Res.TracesValidated++
			c09DecodeWorld(c, w, rep)
		})
		// direction 2
		m := c.N(16, 200)
		third := make([]c09Third, m)
		for i := range third {
			k := c09Third{Seed: c.Rand.Int63(), UDP: i%2 == 1, Role: "client", Open: []int{0, 1, 7, 1023, 1024}[c.Rand.Intn(5)], Reply: c.Rand.Intn(1000), LEPad: c.Rand.Intn(2)}
			maxPl := 32768
			if k.UDP {
				maxPl = 1200
			}
			for j := 0; j < 1+c.Rand.Intn(5); j++ {
				k.Data = append(k.Data, 1+c.Rand.Intn(maxPl))
			}
			for j := 0; j < 4; j++ {
				k.Pads = append(k.Pads, []int{0, 0, 1, 17, 100, 255}[c.Rand.Intn(6)])
			}
			if c.Rand.Intn(3) == 0 {
				k.LEMode = 1 + c.Rand.Intn(4)
				k.LERot = []int{0, 1, 7, 15, 16, 112, 240}[c.Rand.Intn(7)]
				if k.UDP {
					for j := range k.Data {
						if k.Data[j] > 500 {
							k.Data[j] = 1 + k.Data[j]%500
						}
					}
				} else {
					for j := range k.Data {
						if k.Data[j] > 32764 {
							k.Data[j] = 32764
						}
					}
				}
			}
			if k.UDP {
				for j := range k.Pads {
					if k.Pads[j] > 60 {
						k.Pads[j] = 60
					}
				}
				if k.Open > 1000 {
					k.Open = 1000
				}
			}
			third[i] = k
		}
		c.Sample(third[0])
		core.Parallel(m, 6, func(i int) {
			k := third[i]
			c.Eval(fmt.Sprintf("third/%v/%d", k.UDP, k.Seed), true)
			c.Hist("endpoint_stage", map[bool]string{true: "third-party-client-udp", false: "third-party-client-tcp"}[k.UDP])
			c.Compared()
			c09ThirdPartyClient(c, k)
		})
		bgClose.Wait(30 * time.Second)
	})
}
