package props

import (
	"bytes"
	"fmt"
	"io"
	"net"
	"os"
	"os/exec"
	"path/filepath"
	"strings"
	"sync"
	"sync/atomic"
	"time"

	"github.com/enfein/mieru/v3/pkg/appctl"
	"github.com/enfein/mieru/v3/pkg/cli"
	"github.com/enfein/mieru/v3/pkg/socks5"
	"verifharness/core"
)

// C11, stage "daemon": the REAL client daemon wiring (pkg/cli/client.go, the body of `mieru run`).
//
// A child process (`vh c11-daemon`, dispatched from this init() — harness/main.go is untouched) runs
// exactly what cmd/mieru/mieru.go runs: RegisterClientCommands + ParseAndExecute with the arguments
// "mieru run" and a JSON configuration (MIERU_CONFIG_JSON_FILE) that has socks5Authentication pairs,
// rpcPort 0 and a proxy server that is a plain TCP listener of the harness counting connections.
// The parent talks SOCKS5 to the daemon's loopback listener and compares every byte it gets back, and
// whether the daemon dialled the proxy server, with Mieru.SocksAuth.serveConn instantiated with
// EXACTLY the configured pairs (client placement, ClientSideAuthentication) — so a wiring that hands the
// listener anything but the configured pairs (seeded change C11-4: n zero-valued pairs in front) is a
// disagreement and a direct-oracle violation. A second child checks that the daemon refuses to run the
// HTTP proxy front end together with socks5Authentication.

func init() {
	if len(os.Args) >= 2 && os.Args[1] == "c11-daemon" {
		os.Args = []string{"mieru", "run"}
		appctl.RecordAppStartTime()
		appctl.SetAppType(appctl.CLIENT_APP)
		cli.RegisterClientCommands()
		if err := cli.ParseAndExecute(); err != nil {
			fmt.Fprintln(os.Stderr, "c11-daemon:", err)
			os.Exit(3)
		}
		os.Exit(0)
	}
}

type c11DaemonProbe struct {
	Kind     string    `json:"kind"` // "daemon"
	Label    string    `json:"label"`
	Creds    []c11Cred `json:"creds"`
	Methods  string    `json:"methods"`  // hex
	Supplied string    `json:"supplied"` // hex: what follows the method list (RFC 1929 message or nothing)
}

type c11Daemon struct {
	cmd      *exec.Cmd
	stderr   *bytes.Buffer
	addr     string
	upstream net.Listener
	conns    atomic.Int32
	exited   chan struct{}
	mu       sync.Mutex
}

func c11FreePort() (int, error) {
	l, err := net.Listen("tcp", "127.0.0.1:0")
	if err != nil {
		return 0, err
	}
	p := l.Addr().(*net.TCPAddr).Port
	l.Close()
	return p, nil
}

func c11DaemonConfig(creds []c11Cred, upstreamPort, socksPort, httpPort int) string {
	var auth []string
	for _, cr := range creds {
		auth = append(auth, fmt.Sprintf(`{"user": %q, "password": %q}`, string(core.UnHex(cr.User)), string(core.UnHex(cr.Pass))))
	}
	http := ""
	if httpPort != 0 {
		http = fmt.Sprintf(`"httpProxyPort": %d, "httpProxyListenLAN": false,`, httpPort)
	}
	return fmt.Sprintf(`{
  "profiles": [{"profileName": "default", "user": {"name": "c11user", "password": "c11password"},
    "servers": [{"ipAddress": "127.0.0.1", "portBindings": [{"port": %d, "protocol": "TCP"}]}], "mtu": 1400}],
  "activeProfile": "default", "rpcPort": 0, "socks5Port": %d, "loggingLevel": "ERROR", "socks5ListenLAN": false, %s
  "socks5Authentication": [%s]
}`, upstreamPort, socksPort, http, strings.Join(auth, ", "))
}

// c11StartDaemon starts the child; ok=false with a reason when the sandbox does not allow it.
func c11StartDaemon(workDir string, creds []c11Cred, httpPort int) (*c11Daemon, string) {
	d := &c11Daemon{stderr: &bytes.Buffer{}, exited: make(chan struct{})}
	var err error
	if d.upstream, err = net.Listen("tcp", "127.0.0.1:0"); err != nil {
		return nil, "cannot listen on 127.0.0.1: " + err.Error()
	}
	go func() {
		for {
			cn, err := d.upstream.Accept()
			if err != nil {
				return
			}
			d.conns.Add(1)
			go func() { io.Copy(io.Discard, cn); cn.Close() }()
		}
	}()
	socksPort, err := c11FreePort()
	if err != nil {
		d.upstream.Close()
		return nil, err.Error()
	}
	d.addr = fmt.Sprintf("127.0.0.1:%d", socksPort)
	dir, err := os.MkdirTemp(workDir, "c11-daemon-")
	if err != nil {
		d.upstream.Close()
		return nil, err.Error()
	}
	cfgFile := filepath.Join(dir, "client.json")
	if err := os.WriteFile(cfgFile, []byte(c11DaemonConfig(creds, d.upstream.Addr().(*net.TCPAddr).Port, socksPort, httpPort)), 0o600); err != nil {
		d.upstream.Close()
		return nil, err.Error()
	}
	d.cmd = exec.Command(os.Args[0], "c11-daemon")
	d.cmd.Env = append(os.Environ(), "MIERU_CONFIG_JSON_FILE="+cfgFile, "HOME="+dir)
	d.cmd.Dir = dir
	d.cmd.Stdout = d.stderr
	d.cmd.Stderr = d.stderr
	if err := d.cmd.Start(); err != nil {
		d.upstream.Close()
		return nil, "cannot start the child: " + err.Error()
	}
	go func() { d.cmd.Wait(); close(d.exited) }()
	return d, ""
}

func (d *c11Daemon) waitListening(timeout time.Duration) (up bool, exited bool) {
	deadline := time.Now().Add(timeout)
	for time.Now().Before(deadline) {
		select {
		case <-d.exited:
			return false, true
		default:
		}
		if cn, err := net.DialTimeout("tcp", d.addr, time.Second); err == nil {
			cn.Close()
			return true, false
		}
		time.Sleep(50 * time.Millisecond)
	}
	return false, false
}

func (d *c11Daemon) stop() {
	if d.cmd != nil && d.cmd.Process != nil {
		d.cmd.Process.Kill()
		select {
		case <-d.exited:
		case <-time.After(5 * time.Second):
		}
	}
	d.upstream.Close()
}

// negotiate plays one transcript against the daemon's listener: everything it answers until it closes the
// connection or falls silent for `quiet` after at least `want` bytes.
func (d *c11Daemon) negotiate(transcript []byte, want int) (got []byte, closed bool) {
	cn, err := net.DialTimeout("tcp", d.addr, 5*time.Second)
	if err != nil {
		return nil, true
	}
	defer cn.Close()
	cn.SetWriteDeadline(time.Now().Add(5 * time.Second))
	cn.Write(transcript)
	buf := make([]byte, 256)
	for {
		// generous while the expected bytes are outstanding (a passing run returns at once), short afterwards
		wait := 8 * time.Second
		if len(got) >= want {
			wait = 250 * time.Millisecond
		}
		cn.SetReadDeadline(time.Now().Add(wait))
		n, err := cn.Read(buf)
		got = append(got, buf[:n]...)
		if err != nil {
			if ne, ok := err.(net.Error); ok && ne.Timeout() {
				return got, false
			}
			return got, true
		}
		if len(got) > 64 {
			return got, false
		}
	}
}

func c11DaemonStage(c *core.Ctx) {
	c.Correspondence("daemon: the real `mieru run` wiring (pkg/cli/client.go in a child process) on its loopback SOCKS5 listener vs Mieru.SocksAuth.serveConn with exactly the configured pairs")
	creds := []c11Cred{{c11Hex("alice"), c11Hex("wonderland")}, {c11Hex("bob"), c11Hex("builder")}, {c11Hex("alice"), c11Hex("second")}}
	d, why := c11StartDaemon(c.WorkDir, creds, 0)
	if d == nil {
		c.Note("daemon stage skipped: %s", why)
		return
	}
	defer d.stop()
	up, exited := d.waitListening(60 * time.Second)
	if !up {
		if exited {
			c.Disagree("C11/daemon/does-not-start", "the client daemon (mieru run) exited with a valid configuration that has socks5Authentication: "+c11Tail(d.stderr.String()), c11DaemonProbe{Kind: "daemon", Label: "start", Creds: creds})
		} else {
			c.Note("daemon stage skipped: the listener did not come up within 60 s: %s", c11Tail(d.stderr.String()))
		}
		return
	}
	type probe struct {
		label string
		u, p  []byte
		raw   []byte // when set: sent instead of an RFC 1929 message
	}
	var probes []probe
	for i, cr := range creds {
		u, p := core.UnHex(cr.User), core.UnHex(cr.Pass)
		probes = append(probes,
			probe{label: fmt.Sprintf("pair%d", i), u: u, p: p},
			probe{label: fmt.Sprintf("pair%d/empty-password", i), u: u, p: nil},
			probe{label: fmt.Sprintf("pair%d/empty-user", i), u: nil, p: p},
			probe{label: fmt.Sprintf("pair%d/password-prefix", i), u: u, p: p[:len(p)-1]},
			probe{label: fmt.Sprintf("pair%d/password+1", i), u: u, p: append(append([]byte(nil), p...), 'x')},
			probe{label: fmt.Sprintf("pair%d/user-prefix", i), u: u[:len(u)-1], p: p},
		)
	}
	probes = append(probes,
		probe{label: "empty-user-empty-password", u: nil, p: nil},
		probe{label: "cross-pair", u: []byte("bob"), p: []byte("wonderland")},
		probe{label: "zero-bytes", u: []byte{0}, p: []byte{0}},
		probe{label: "255-byte", u: bytes.Repeat([]byte("u"), 255), p: bytes.Repeat([]byte("p"), 255)},
		probe{label: "nothing", raw: []byte{}},
		probe{label: "subversion-0", raw: c11SubNeg(0, []byte("alice"), []byte("wonderland"))},
	)
	// Two phases. Phase 1: every probe the model REFUSES — the daemon has not dialled the proxy server at all
	// yet, so "no connection to the proxy server, ever" is exact (later the multiplexer reuses its connection and
	// a new dial is not visible as a new connection). Phase 2: the probes the model serves — replies compared;
	// the first of them must make the daemon connect to the proxy server.
	type planned struct {
		ms   []byte
		pr   probe
		t    []byte
		sup  []byte
		want []byte
		dial int
	}
	var plan []planned
	for _, ms := range [][]byte{{2}, {0, 2}, {2, 0}, {0}, {1, 2, 0x80}} {
		for _, pr := range probes {
			sup := pr.raw
			if pr.raw == nil {
				sup = c11SubNeg(1, pr.u, pr.p)
			}
			t := c11Build(true, ms, sup, true)
			m := c.Model.Ask("socks-serve 1 1 %s %s", c11CredsArg(creds), core.Hex(t))
			var mRepl, mReq string
			var mDial, mCons int
			if _, err := fmt.Sscanf(m, "ok %s dialed=%d req=%s consumed=%d", &mRepl, &mDial, &mReq, &mCons); err != nil {
				c.Disagree("C11/corr/model-reply", "model did not answer socks-serve: "+m, nil)
				return
			}
			plan = append(plan, planned{ms, pr, t, sup, core.UnHex(mRepl), mDial})
		}
	}
	for phase := 0; phase <= 1; phase++ {
		for _, pl := range plan {
			if pl.dial != phase {
				continue
			}
			ms, pr, t, want := pl.ms, pl.pr, pl.t, pl.want
			k := c11DaemonProbe{Kind: "daemon", Label: pr.label, Creds: creds, Methods: core.Hex(ms), Supplied: core.Hex(pl.sup)}
			got, closed := d.negotiate(t, len(want))
			if phase == 0 {
				time.Sleep(40 * time.Millisecond) // grace: a dial, if any, happens right after the status byte
			} else {
				deadline := time.Now().Add(10 * time.Second)
				for d.conns.Load() == 0 && time.Now().Before(deadline) {
					time.Sleep(10 * time.Millisecond)
				}
			}
			dialedEver := d.conns.Load() > 0
			c.Eval(fmt.Sprintf("daemon/%x/%s", ms, pr.label), phase == 1)
			c.Compared()
			c.Res.TracesValidated++
			lab := strings.SplitN(pr.label, "/", 2)
			c.Hist("daemon", fmt.Sprintf("offer=%s/%s/replies=%x/proxy-server-dialled-so-far=%v", c11OfferClass(t), lab[len(lab)-1], got, dialedEver))
			if !bytes.Equal(got, want) || dialedEver != (phase == 1) {
				c.Disagree("C11/corr/daemon", fmt.Sprintf("methods %x, %s: model (listener credentials = the %d configured pairs): replies %x dialed=%d; daemon: replies %x, connections to the proxy server so far %d, closed=%v", ms, pr.label, len(creds), want, pl.dial, got, d.conns.Load(), closed), k)
			}
			// direct oracle
			presents, _ := c11Presents(creds, t)
			if !presents {
				if phase == 0 && dialedEver {
					c.Violate("C11/daemon/served-without-credentials", fmt.Sprintf("mieru run with %d socks5Authentication pairs: methods %x, %s (user %q password %q) is not a configured pair, yet the daemon dialled the proxy server; replies %x", len(creds), ms, pr.label, pr.u, pr.p, got), k)
				}
				if len(got) >= 4 && got[1] == 2 && got[2] == 1 && got[3] == 0 {
					c.Violate("C11/daemon/success-status-without-credentials", fmt.Sprintf("mieru run with %d socks5Authentication pairs: methods %x, %s (user %q password %q) is not a configured pair, yet the daemon answered RFC 1929 status 00; replies %x", len(creds), ms, pr.label, pr.u, pr.p, got), k)
				}
				if len(got) >= 2 && got[0] == 5 && got[1] == 0 {
					c.Violate("C11/daemon/noauth-selected-with-credentials", fmt.Sprintf("mieru run with socks5Authentication configured selected the no-authentication method for methods %x", ms), k)
				}
			} else if !(len(got) >= 4 && bytes.Equal(got[:4], []byte{5, 2, 1, 0})) {
				c.Violate("C11/daemon/configured-pair-refused", fmt.Sprintf("mieru run: methods %x, configured pair %s refused: replies %x", ms, pr.label, got), k)
			}
			if phase == 0 && dialedEver {
				return // the exactness of phase 1 is gone; everything needed has been reported
			}
		}
	}
	// the HTTP proxy front end must not be combined with socks5Authentication: the daemon refuses to run
	httpPort, err := c11FreePort()
	if err != nil {
		return
	}
	h, why := c11StartDaemon(c.WorkDir, creds, httpPort)
	if h == nil {
		c.Note("daemon http-guard stage skipped: %s", why)
		return
	}
	defer h.stop()
	select {
	case <-h.exited:
		c.Compared()
		c.Hist("daemon", "http-proxy+socks5Authentication/exited")
		if !strings.Contains(h.stderr.String(), "HTTP") {
			c.Note("daemon with httpProxyPort and socks5Authentication exited; output: %s", c11Tail(h.stderr.String()))
		}
	case <-time.After(30 * time.Second):
		c.Compared()
		// still running: is the HTTP front end serving?
		if cn, err := net.DialTimeout("tcp", fmt.Sprintf("127.0.0.1:%d", httpPort), time.Second); err == nil {
			cn.Close()
			c.Violate("C11/daemon/http-proxy-with-credentials", "mieru run with socks5Authentication AND httpProxyPort configured keeps running and serves the HTTP proxy port (the HTTP front end talks to the SOCKS5 listener without credentials; the daemon is documented to refuse the combination)", c11DaemonProbe{Kind: "daemon", Label: "http-guard", Creds: creds})
		} else {
			c.Disagree("C11/daemon/http-guard", "mieru run with socks5Authentication AND httpProxyPort configured neither exited nor serves the HTTP port within 30 s", c11DaemonProbe{Kind: "daemon", Label: "http-guard", Creds: creds})
		}
	}
}

func c11Tail(s string) string {
	s = strings.TrimSpace(s)
	if len(s) > 600 {
		s = s[len(s)-600:]
	}
	return s
}

// ---- sequences of negotiations on ONE listener --------------------------------------------------
//
// c11Run builds a fresh socks5.Server per case. A listener lives for many connections: whatever one
// negotiation leaves behind (a pooled buffer, a cached decision, a counter) must not influence the next
// (seeded change C11-5: pooled user/password buffers keep the previous login's bytes for a zero-length
// field). On every run: one Server, a successful login followed by empty-field probes, repeated, also
// concurrently; each negotiation is compared with the model's answer for that transcript ALONE.

type c11SeqReplay struct {
	Kind  string    `json:"kind"` // "sequence"
	Creds []c11Cred `json:"creds"`
	Steps []string  `json:"steps"` // hex transcripts, in order
	Index int       `json:"index"`
}

func c11Sequences(c *core.Ctx) {
	c.Correspondence("sequence: many negotiations on ONE socks5.Server, each compared with Mieru.SocksAuth.serveConn on its own transcript")
	creds := []c11Cred{{c11Hex("alice"), c11Hex("wonderland")}, {c11Hex("bob"), c11Hex("builder")}}
	var sc []socks5.Credential
	for _, cr := range creds {
		sc = append(sc, socks5.Credential{User: string(core.UnHex(cr.User)), Password: string(core.UnHex(cr.Pass))})
	}
	bi := func(b bool) int {
		if b {
			return 1
		}
		return 0
	}
	for _, useProxy := range []bool{true, false} {
		d := &c11Dialer{}
		cfg := &socks5.Config{
			UseProxy:         useProxy,
			AuthOpts:         socks5.Auth{ClientSideAuthentication: useProxy, IngressCredentials: sc},
			HandshakeTimeout: 10 * time.Second,
		}
		if useProxy {
			cfg.ProxyDialer = d
		}
		srv, err := socks5.New(cfg)
		if err != nil {
			c.Note("sequence stage: socks5.New failed: %v", err)
			return
		}
		login := func(u, p string) []byte {
			return c11Build(useProxy, []byte{2}, c11SubNeg(1, []byte(u), []byte(p)), true)
		}
		var steps [][]byte
		for round := 0; round < 6; round++ {
			steps = append(steps,
				login("alice", "wonderland"),
				login("", ""), login("alice", ""), login("", "wonderland"), login("", "builder"),
				login("bob", "builder"),
				login("", ""), login("bob", ""), login("b", "builder"), login("bob", "b"),
				c11Build(useProxy, []byte{0, 2}, c11SubNeg(1, nil, nil), true),
				login("alice", "builder"))
		}
		var hexSteps []string
		for _, t := range steps {
			hexSteps = append(hexSteps, core.Hex(t))
		}
		for i, t := range steps {
			m := c.Model.Ask("socks-serve %d %d %s %s", bi(useProxy), bi(useProxy), c11CredsArg(creds), core.Hex(t))
			var mRepl, mReq string
			var mDial, mCons int
			if _, err := fmt.Sscanf(m, "ok %s dialed=%d req=%s consumed=%d", &mRepl, &mDial, &mReq, &mCons); err != nil {
				c.Disagree("C11/corr/model-reply", "model did not answer socks-serve: "+m, nil)
				return
			}
			// negotiations are played one after the other on the SAME server; each gets a fresh scripted proxy conn
			d.conn = newSocksScriptConn(c11ProxyResp, 0, "")
			calls0 := d.calls.Load()
			conn := newSocksScriptConn(t, 0, "")
			done := make(chan struct{})
			go func() {
				defer close(done)
				defer func() { recover() }()
				srv.ServeConn(conn)
			}()
			select {
			case <-done:
			case <-time.After(20 * time.Second):
			}
			written, dialed := conn.Written(), int(d.calls.Load()-calls0)
			want := core.UnHex(mRepl)
			if mReq != "none" {
				if useProxy {
					want = append(want, c11ProxyResp...)
				} else {
					want = append(want, c11ServerReply(core.UnHex(mReq))...)
				}
			}
			k := c11SeqReplay{Kind: "sequence", Creds: creds, Steps: hexSteps[:i+1], Index: i}
			served := len(written) >= 4 && written[1] == 2 && written[2] == 1 && written[3] == 0
			c.Eval(fmt.Sprintf("sequence/%v/%d", useProxy, i), mReq != "none")
			c.Compared()
			c.Hist("sequence", fmt.Sprintf("%s/position=%d/served=%v", map[bool]string{true: "client", false: "server"}[useProxy], i%12, served))
			if !bytes.Equal(written, want) || (useProxy && dialed != mDial) {
				c.Disagree("C11/corr/sequence", fmt.Sprintf("negotiation %d on one listener (transcript %x): model for this transcript alone: written %x dialed=%d; listener: %x dialed=%d", i, t, want, mDial, written, dialed), k)
			}
			if presents, _ := c11Presents(creds, t); !presents && (dialed > 0 || served) {
				c.Violate("C11/sequence/served-without-credentials", fmt.Sprintf("negotiation %d on one listener presents no configured pair (transcript %x) but was served after earlier successful logins: written %x dialed=%d", i, t, written, dialed), k)
			}
		}
	}
}
