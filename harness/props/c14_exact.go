package props

import (
	"encoding/json"
	"fmt"
	"strings"
	"sync"
	"time"

	"github.com/enfein/mieru/v3/pkg/appctl/appctlpb"
	"github.com/enfein/mieru/v3/pkg/protocol"
	"google.golang.org/protobuf/proto"
	"verifharness/core"
	"verifharness/sim"
	"verifharness/wire"
)

// C14, exact stages (deterministic boundaries on every run, before any random stream):
//
//	emit   the REAL PacketUnderlay.writeOneSegment on segments built as Write / writeChunk /
//	       the ack and close paths build them, many padding draws per configuration: every
//	       datagram ≤ MTU, and len(datagram) == the REGENERATED length definition
//	       (Gen.UdpWire.packet{Session,Data}SegLen via mieru-gen) of the decoded fields — exact,
//	       not a bound; paddings within the configured maxima; length fields consistent.
//	cut    the REAL Session.Write / writeChunk (sendQueue drained by the harness) on boundary
//	       write sizes: the (type, fragment number, length) sequence it queues == Chunk.writeSegments
//	       (hand model, mieru-model) == Gen.UdpWire.cut per chunk (regenerated, mieru-gen) and
//	       the open request's payload == Gen.UdpWire.openPayloadLen.
//	wire   real UDP sessions at the same boundaries (piggyback × small MTU × maximal end padding;
//	       k·f−1, k·f, k·f+1 writes × every low-entropy mode), every datagram measured and its
//	       length compared exactly with the regenerated definition.

type c14ExactCase struct {
	Kind   string `json:"kind"` // "emit" | "cut" | "wire-exact"
	MTU    int    `json:"mtu"`
	Mode   int    `json:"mode"`
	MaxMid int    `json:"max_middle"` // -1 unset
	MaxEnd int    `json:"max_end"`
	Seg    string `json:"seg,omitempty"` // emit: open-req | open-resp | close-req | close-resp | data | ack
	N      int    `json:"n"`             // payload / write size
	Draws  int    `json:"draws,omitempty"`
	First  bool   `json:"first,omitempty"` // cut: the write is the session's first (open request)
	Writes []int  `json:"writes,omitempty"`
	Loss   float64 `json:"loss,omitempty"`
	Seed   int64  `json:"seed,omitempty"`
}

func c14ExactPattern(k c14ExactCase) *appctlpb.TrafficPattern {
	p := &appctlpb.TrafficPattern{TcpFragment: &appctlpb.TCPFragment{Enable: proto.Bool(false)}}
	m := appctlpb.LowEntropyMode(k.Mode)
	p.LowEntropy = &appctlpb.LowEntropyPattern{Mode: &m}
	if k.MaxMid >= 0 || k.MaxEnd >= 0 {
		p.Padding = &appctlpb.PaddingPattern{}
		if k.MaxMid >= 0 {
			p.Padding.MaxMiddlePaddingLen = proto.Int32(int32(k.MaxMid))
		}
		if k.MaxEnd >= 0 {
			p.Padding.MaxEndPaddingLen = proto.Int32(int32(k.MaxEnd))
		}
	}
	return p
}

var genCache sync.Map

func genAsk(c *core.Ctx, q string) string {
	if v, ok := genCache.Load(q); ok {
		return v.(string)
	}
	r := c.Gen.Ask("%s", q)
	genCache.Store(q, r)
	return r
}

// c14CheckDatagram evaluates the direct oracle and the exact-length tie on one decoded datagram.
func c14CheckDatagram(c *core.Ctx, data []byte, seg *wire.Segment, mtu, maxMid, maxEnd int, where string, replay interface{}) {
	if len(data) > mtu {
		c.Violate(fmt.Sprintf("C14/datagram-exceeds-mtu/type=%d", seg.Proto), fmt.Sprintf("%s: datagram of %d bytes at MTU %d (type %d, payload %d, on-wire payload length %d, prefix %d, suffix %d)", where, len(data), mtu, seg.Proto, len(seg.Payload), seg.PayloadLen, seg.PrefixLen, seg.SuffixLen), replay)
	}
	if maxMid >= 0 && int(seg.PrefixLen) > maxMid || maxEnd >= 0 && int(seg.SuffixLen) > maxEnd {
		c.Violate("C14/padding-above-configured", fmt.Sprintf("%s: prefix %d suffix %d, configured maxima %d/%d", where, seg.PrefixLen, seg.SuffixLen, maxMid, maxEnd), replay)
	}
	if seg.IsSession() && len(seg.Payload) > 1024 {
		c.Violate("C14/wire/session-payload-exceeds-1024", fmt.Sprintf("%s: session segment (type %d) carries %d bytes", where, seg.Proto, len(seg.Payload)), replay)
	}
	if c.Gen == nil {
		return
	}
	var q string
	if seg.IsSession() {
		q = fmt.Sprintf("wire-packet-session %d %d", len(seg.Payload), seg.SuffixLen)
	} else {
		le := 0
		if seg.IsLE() {
			le = 1
		}
		q = fmt.Sprintf("wire-packet-data %d %d %d %d %d", len(seg.Payload), seg.PayloadLen, seg.PrefixLen, seg.SuffixLen, le)
	}
	c.Compared()
	if v, ok := genOK(genAsk(c, q)); !ok || v != len(data) {
		c.Disagree("C14/tie/datagram-length", fmt.Sprintf("%s: the datagram is %d bytes, the regenerated writeOneSegment arithmetic gives %q for %q", where, len(data), genAsk(c, q), q), replay)
	}
}

func c14Emit(c *core.Ctx, k c14ExactCase) {
	key := fmt.Sprintf("emit/%d/%d/%d/%d/%s/%d", k.MTU, k.Mode, k.MaxMid, k.MaxEnd, k.Seg, k.N)
	b, err := protocol.VerifNewUDPBenchWithPattern(k.MTU, c14ExactPattern(k))
	c.Eval(key, err == nil)
	if err != nil {
		c.Disagree("C14/corr/bench", "bench setup failed: "+err.Error(), k)
		return
	}
	keys := wire.KeysAt([]byte(protocol.VerifBenchPassword), time.Now())
	payload := make([]byte, k.N)
	for i := range payload {
		payload[i] = byte(i*7 + 1)
	}
	maxP1, maxP2 := 0, 0
	for d := 0; d < k.Draws; d++ {
		var dg []byte
		switch k.Seg {
		case "open-req":
			dg, err = b.EmitSession(2, 0, 0, payload)
		case "open-resp":
			dg, err = b.EmitSession(3, 0, 0, nil)
		case "close-req":
			dg, err = b.EmitSession(4, 5, uint8(d%2), nil)
		case "close-resp":
			dg, err = b.EmitSession(5, 5, 0, nil)
		case "ack":
			dg, err = b.EmitData(9, 3, 0, nil, 0, 0, true)
		default:
			dg, err = b.EmitData(uint32(d), 3, uint8(d%7), payload, k.Mode, d%16, false)
		}
		if err != nil {
			c.Violate("C14/emit-error", fmt.Sprintf("writeOneSegment failed for a segment the send path builds (%s, %d bytes, mode %d, MTU %d): %v", k.Seg, k.N, k.Mode, k.MTU, err), k)
			return
		}
		seg, derr := wire.OpenUDP(dg, keys)
		if derr != nil {
			c.Disagree("C14/corr/wire-undecodable", fmt.Sprintf("%s datagram of %d bytes: %v", k.Seg, len(dg), derr), k)
			return
		}
		if len(seg.Payload) != k.N {
			c.Disagree("C14/corr/emit-payload", fmt.Sprintf("%s: decoded payload %d bytes, emitted %d", k.Seg, len(seg.Payload), k.N), k)
		}
		c14CheckDatagram(c, dg, seg, k.MTU, k.MaxMid, k.MaxEnd, fmt.Sprintf("emit %s n=%d mode=%d", k.Seg, k.N, k.Mode), k)
		if int(seg.PrefixLen) > maxP1 {
			maxP1 = int(seg.PrefixLen)
		}
		if int(seg.SuffixLen) > maxP2 {
			maxP2 = int(seg.SuffixLen)
		}
	}
	c.Hist("c14_emit_kind", k.Seg)
	c.Hist("c14_emit_mtu", fmt.Sprint(k.MTU))
	c.Hist("c14_emit_max_suffix_drawn", core.SizeBucket(maxP2))
	c.Hist("c14_emit_max_prefix_drawn", core.SizeBucket(maxP1))
}

func c14Cut(c *core.Ctx, k c14ExactCase) {
	key := fmt.Sprintf("cut/%d/%d/%d/%v", k.MTU, k.Mode, k.N, k.First)
	var b *protocol.VerifUDPBench
	var err error
	if k.First {
		b, err = protocol.VerifNewUDPBenchAttached(k.MTU, c14ExactPattern(k))
	} else {
		b, err = protocol.VerifNewUDPBenchWithPattern(k.MTU, c14ExactPattern(k))
	}
	frag, ferr := protocol.VerifMaxFragmentSize(k.MTU, 2, k.Mode)
	c.Eval(key, err == nil && ferr == nil)
	if err != nil || ferr != nil {
		return
	}
	data := make([]byte, k.N)
	got, werr := b.WriteAndDrain(data)
	if werr != nil {
		c.Violate("C14/write-error", fmt.Sprintf("Write of %d bytes failed on an open session (MTU %d, mode %d): %v", k.N, k.MTU, k.Mode, werr), k)
		return
	}
	c.Hist("c14_cut_size_class", func() string {
		switch {
		case k.First:
			return "first-write"
		case k.N%frag == 0:
			return "k*f"
		case (k.N+1)%frag == 0:
			return "k*f-1"
		case (k.N-1)%frag == 0:
			return "k*f+1"
		}
		return "other"
	}())
	c.Hist("c14_cut_mode", fmt.Sprint(k.Mode))
	// what the real code queued, as "frag:len" tokens; the open request first
	rest := k.N
	var real []string
	for i, g := range got {
		if i == 0 && k.First {
			if g[0] != 2 {
				c.Violate("C14/cut/first-segment-not-open-request", fmt.Sprintf("type %d", g[0]), k)
				return
			}
			le := 0
			if k.Mode != 0 {
				le = 1
			}
			c.Compared()
			if v, ok := genOK(genAsk(c, fmt.Sprintf("wire-open-payload %d %d", le, k.N))); c.Gen != nil && (!ok || v != g[2]) {
				c.Disagree("C14/tie/open-payload", fmt.Sprintf("first write of %d bytes (mode %d): the open request carries %d bytes, the regenerated decision gives %d", k.N, k.Mode, g[2], v), k)
			}
			if g[2] > 1024 {
				c.Violate("C14/wire/session-payload-exceeds-1024", fmt.Sprintf("open request carries %d bytes", g[2]), k)
			}
			rest -= g[2]
			continue
		}
		if g[2] <= 0 || g[2] > frag {
			c.Violate("C14/cut/fragment-exceeds-max-fragment-size", fmt.Sprintf("write of %d bytes at MTU %d mode %d: fragment #%d has %d bytes, maxFragmentSize %d", k.N, k.MTU, k.Mode, i, g[2], frag), k)
		}
		real = append(real, fmt.Sprintf("%d:%d", g[1], g[2]))
	}
	realS := strings.Join(real, ",")
	if realS == "" {
		realS = "-"
	}
	c.Compared()
	if m := c.Model.Ask("chunk-write 32768 %d %d", frag, rest); m != "ok "+realS {
		c.Disagree("C14/corr/chunk-write", fmt.Sprintf("write of %d bytes (after the open request: %d) at MTU %d mode %d: the real Write queued %.200s, the model %.200s", k.N, rest, k.MTU, k.Mode, realS, m), k)
	}
	if c.Gen != nil {
		var gen []string
		for r := rest; r > 0; {
			ch := r
			if ch > 32768 {
				ch = 32768
			}
			g := strings.TrimPrefix(genAsk(c, fmt.Sprintf("wire-cut %d %d 2", ch, frag)), "ok ")
			gen = append(gen, g)
			r -= ch
		}
		gs := strings.Join(gen, ",")
		if gs == "" {
			gs = "-"
		}
		c.Compared()
		if gs != realS {
			c.Disagree("C14/tie/cut", fmt.Sprintf("write of %d bytes at MTU %d mode %d: the real Write queued %.200s, the regenerated loop %.200s", rest, k.MTU, k.Mode, realS, gs), k)
		}
	}
}

func c14WireExact(c *core.Ctx, k c14ExactCase) {
	key, _ := json.Marshal(k)
	pat := c14ExactPattern(k)
	w, err := sim.NewWorld(sim.Config{UDP: true, MTU: k.MTU, Seed: k.Seed, ClientPattern: pat, ServerPattern: pat})
	c.Eval(string(key), err == nil)
	if err != nil {
		c.Violate("C14/setup", "valid configuration rejected: "+err.Error(), k)
		return
	}
	defer bgClose.Go(w.Close)
	if k.Loss > 0 {
		w.Net.Plan = sim.FaultSpec{Seed: k.Seed, Loss: k.Loss, DelayMs: 10}.Plan("10.8.0.1:8964")
	}
	sc := []sim.Script{{ClientWrites: k.Writes, ServerWrites: k.Writes, MaxRead: 65536}}
	tr := sim.RunTransfer(w, sc, k.Seed, 90*time.Second)
	for _, f := range tr.Check(sc) {
		c.Note("C14 wire-exact case: transfer problem (reported under C02, not here): %s", f)
	}
	n := 0
	for _, d := range w.DecodeDatagrams() {
		if d.Err != nil {
			continue
		}
		n++
		c14CheckDatagram(c, d.Data, d.Seg, k.MTU, k.MaxMid, k.MaxEnd, fmt.Sprintf("datagram #%d", d.Index), k)
	}
	c.Hist("c14_wire_exact_datagrams", core.SizeBucket(n))
	c.Hist("c14_wire_exact_mtu_mode", fmt.Sprintf("mtu=%d mode=%d", k.MTU, k.Mode))
}

func c14ExactRun(c *core.Ctx, k c14ExactCase) {
	switch k.Kind {
	case "emit":
		c14Emit(c, k)
	case "cut":
		c14Cut(c, k)
	case "wire-exact":
		c14WireExact(c, k)
	}
}

func clamp(v, lo, hi int) int {
	if v < lo {
		return lo
	}
	if v > hi {
		return hi
	}
	return v
}

func init() {
	core.RegisterExtra("C14", func(c *core.Ctx) {
		if !stageOn("exact") {
			return
		}
		c.Correspondence("exact datagram length: every datagram of the real writeOneSegment (bench: open/close/data/ack × MTU and padding boundaries × every low-entropy mode, many padding draws; and real sessions) has len == Gen.UdpWire.packet{Session,Data}SegLen of its decoded fields; the real Write/writeChunk cutting == Chunk.writeSegments == Gen.UdpWire.cut on k·f−1, k·f, k·f+1 and the piggyback / chunk boundaries")
		// Padding.maxPadTP (the budget PadOK uses) vs the real maxPaddingSizeWithTrafficPattern, inside the C14 run
		for _, mtu := range []int{1280, 1281, 1400, 1499, 1500} {
			for _, frag := range []int{0, 1, mtu - 88 - 256, mtu - 88 - 255, mtu - 88 - 1, mtu - 88, mtu - 87} {
				for _, ex := range []int{0, 1, 254, 255} {
					for _, cfg := range []int{-2, -1, 0, 1, 254, 255, 300} { // -2 = unset
						for pos := 0; pos <= 1; pos++ {
							var tp *appctlpb.TrafficPattern
							cs := "-"
							if cfg != -2 {
								tp = &appctlpb.TrafficPattern{Padding: &appctlpb.PaddingPattern{}}
								if pos == 0 {
									tp.Padding.MaxMiddlePaddingLen = proto.Int32(int32(cfg))
								} else {
									tp.Padding.MaxEndPaddingLen = proto.Int32(int32(cfg))
								}
								cs = fmt.Sprint(cfg)
							}
							base := protocol.VerifMaxPaddingSize(mtu, 2, frag, ex)
							got := protocol.VerifMaxPaddingSizeWithTrafficPattern(mtu, 2, frag, ex, tp, pos)
							c.Compared()
							c.Eval(fmt.Sprintf("maxpad/%d/%d/%d/%d/%d", mtu, frag, ex, cfg, pos), true)
							if m := c.Model.Ask("pat-maxpad %d %s", base, cs); m != fmt.Sprintf("ok %d", got) {
								c.Disagree("C14/corr/maxpad", fmt.Sprintf("Padding.maxPadTP %q, real %d (mtu %d fragment %d existing %d configured %s position %d)", m, got, mtu, frag, ex, cs, pos), c14Case{Kind: "tie-padding", MTU: mtu, Transport: 2, N: frag, P1: ex})
							}
						}
					}
				}
			}
		}
		var cases []c14ExactCase
		maxima := [][2]int{{-1, -1}, {0, 0}, {1, 1}, {254, 254}, {255, 255}, {-1, 255}, {255, 0}}
		draws := c.N(12, 60)
		// emit: session segments at the piggyback × small-MTU boundary, data at the fragment boundary
		for _, mtu := range []int{1280, 1281, 1320, 1366, 1367, 1400, 1453, 1499, 1500} {
			for _, mx := range maxima {
				for _, n := range []int{0, 1, mtu - 344, mtu - 343, mtu - 342, 1023, 1024} {
					cases = append(cases, c14ExactCase{Kind: "emit", MTU: mtu, MaxMid: mx[0], MaxEnd: mx[1], Seg: "open-req", N: clamp(n, 0, 1024), Draws: draws})
				}
				for _, sk := range []string{"open-resp", "close-req", "close-resp", "ack"} {
					cases = append(cases, c14ExactCase{Kind: "emit", MTU: mtu, MaxMid: mx[0], MaxEnd: mx[1], Seg: sk, Draws: draws})
				}
				for mode := 0; mode <= 4; mode++ {
					f, err := protocol.VerifMaxFragmentSize(mtu, 2, mode)
					if err != nil {
						continue
					}
					for _, n := range []int{1, f - 1, f} {
						cases = append(cases, c14ExactCase{Kind: "emit", MTU: mtu, Mode: mode, MaxMid: mx[0], MaxEnd: mx[1], Seg: "data", N: n, Draws: draws})
					}
				}
			}
		}
		// cut: boundary write sizes through the real Write
		for _, mtu := range []int{1280, 1281, 1400, 1453, 1499, 1500} {
			for mode := 0; mode <= 4; mode++ {
				f, err := protocol.VerifMaxFragmentSize(mtu, 2, mode)
				if err != nil {
					continue
				}
				sizes := []int{1, 1023, 1024, 1025, 32767, 32768, 32769, 65536, 65537}
				for _, kf := range []int{1, 2, 3, 25} {
					sizes = append(sizes, kf*f-1, kf*f, kf*f+1)
				}
				for _, n := range sizes {
					cases = append(cases, c14ExactCase{Kind: "cut", MTU: mtu, Mode: mode, MaxMid: -1, MaxEnd: -1, N: n})
				}
				for _, n := range []int{0, 1, mtu - 343, 1023, 1024, 1025, f, f + 1, 2 * f} {
					cases = append(cases, c14ExactCase{Kind: "cut", MTU: mtu, Mode: mode, MaxMid: -1, MaxEnd: -1, N: n, First: true})
				}
			}
		}
		nEmitCut := len(cases)
		// wire-exact: real sessions. (a) first write × small MTU × end padding 255; (b) k·f±1 writes × modes
		for _, mtu := range []int{1280, 1320, 1366, 1367} {
			for _, n := range []int{0, 1, mtu - 344, mtu - 343, mtu - 342, 1023, 1024} {
				cases = append(cases, c14ExactCase{Kind: "wire-exact", MTU: mtu, MaxMid: -1, MaxEnd: 255, Writes: []int{clamp(n, 0, 1024), 700}, Seed: c.Rand.Int63()})
			}
		}
		for _, mtu := range []int{1280, 1400, 1453, 1500} {
			for mode := 0; mode <= 4; mode++ {
				f, err := protocol.VerifMaxFragmentSize(mtu, 2, mode)
				if err != nil {
					continue
				}
				ws := []int{5}
				for _, kf := range []int{1, 2, 3, 25} {
					ws = append(ws, kf*f-1, kf*f, kf*f+1)
				}
				cases = append(cases, c14ExactCase{Kind: "wire-exact", MTU: mtu, Mode: mode, MaxMid: []int{-1, 0, 1, 254, 255}[mode], MaxEnd: []int{255, 254, 1, 0, -1}[mode], Writes: ws, Loss: 0.02, Seed: c.Rand.Int63()})
			}
		}
		c.Sample(cases[0])
		c.Sample(cases[nEmitCut])
		core.Parallel(nEmitCut, 8, func(i int) { c14ExactRun(c, cases[i]) })
		core.Parallel(len(cases)-nEmitCut, 10, func(i int) { c14ExactRun(c, cases[nEmitCut+i]) })
		bgClose.Wait(30 * time.Second)
	})
	core.RegisterReplay("C14", func(c *core.Ctx, raw json.RawMessage) bool {
		var k c14ExactCase
		if json.Unmarshal(raw, &k) != nil || (k.Kind != "emit" && k.Kind != "cut" && k.Kind != "wire-exact") {
			return false
		}
		c14ExactRun(c, k)
		return true
	})
}
