package props

import (
	"fmt"
	"sort"
	"strings"
	"sync"
	"sync/atomic"
	"time"

	"verifharness/wire"
)

// C03, round 3: stream-transport write log / stall, writer-side history for the Lean writer acceptor
// (driver op close-tcpw), and the deterministic fault boundaries of the generator.

// c03StreamTap is installed as simnet.Net.StreamFilter for every TCP case. It records when each
// net.Conn.Write of the closing direction completed and — for the fault kind "tcp-stall" — makes the
// closing direction of the connection make no progress (as towards a peer that has stopped draining
// its receive buffer) until `StallMs` after Close() was called.
type c03StreamTap struct {
	t0          time.Time
	closingC2S  bool
	stall       bool
	releaseAt   atomic.Int64 // UnixNano; writes of the closing direction block until then
	mu          sync.Mutex
	writes      map[int][]c03WriteRec // by connection id
	stalledOnce atomic.Bool
	// tcp-reset: when the closing direction has carried resetAt bytes the connection is reset (both
	// directions fail from then on); the write that crosses the mark is held for 100 ms meanwhile
	resetAt   int64
	onReset   func()
	resetDone atomic.Bool
}

type c03WriteRec struct {
	off int64
	n   int
	at  time.Duration
}

func newC03StreamTap(t0 time.Time, closingC2S bool, stall bool) *c03StreamTap {
	t := &c03StreamTap{t0: t0, closingC2S: closingC2S, stall: stall, writes: map[int][]c03WriteRec{}}
	if stall {
		// safety cap: if Close() is not reached (Write itself can wait for oLock while the output loop is
		// blocked in a network write) the connection is released after 4 s
		t.releaseAt.Store(t0.Add(4 * time.Second).UnixNano())
	}
	return t
}

// closeCalled starts the countdown. The stall must outlast the bounded wait of closeWithError, which is
// not a duration but 1000 iterations of time.Sleep(time.Millisecond) — on a loaded machine that takes
// several seconds. So the stall is calibrated the same way: it ends `d` after a loop of 1500 such
// sleeps, started now, has finished.
func (t *c03StreamTap) closeCalled(d time.Duration) {
	if !t.stall {
		return
	}
	t.releaseAt.Store(time.Now().Add(time.Hour).UnixNano())
	go func() {
		for i := 0; i < 1500; i++ {
			time.Sleep(time.Millisecond)
		}
		time.Sleep(d)
		t.releaseAt.Store(time.Now().UnixNano())
	}()
}

func (t *c03StreamTap) filter(connID int, clientToServer bool, offset int64, b []byte) []byte {
	if clientToServer != t.closingC2S {
		return b
	}
	if t.stall {
		for time.Now().UnixNano() < t.releaseAt.Load() {
			t.stalledOnce.Store(true)
			time.Sleep(time.Millisecond)
		}
	}
	if t.resetAt > 0 && offset+int64(len(b)) > t.resetAt && t.resetDone.CompareAndSwap(false, true) {
		go t.onReset()
		time.Sleep(100 * time.Millisecond)
	}
	t.mu.Lock()
	t.writes[connID] = append(t.writes[connID], c03WriteRec{offset, len(b), time.Since(t.t0)})
	t.mu.Unlock()
	return b
}

// writeTime returns when the byte at stream offset `end-1` of connection `connID` was written.
func (t *c03StreamTap) writeTime(connID int, end int64) (time.Duration, bool) {
	t.mu.Lock()
	defer t.mu.Unlock()
	for _, w := range t.writes[connID] {
		if w.off+int64(w.n) >= end {
			return w.at, true
		}
	}
	return 0, false
}

// c03WriterTokens builds the writer-side history of the closing direction for `close-tcpw`:
// W:<fragment lengths> (everything Write accepted: the data-bearing segments seen on the wire, in wire
// order, plus one fragment for whatever never reached the wire), C, O:… for every segment of the
// session with the time of the net.Conn.Write that carried its last byte, X.
func c03WriterTokens(k c03Case, o *c03Outcome) ([]string, []string) {
	var problems []string
	type ev struct {
		at  time.Duration
		pri int
		tok string
	}
	var evs []ev
	var lens []string
	sent := 0
	for _, ds := range o.world.DecodeStreams() {
		if ds.ClientToServer == k.ServerCloses {
			continue
		}
		var end int64
		for _, s := range ds.Segs {
			end += int64(s.WireLen)
			at, ok := o.tap.writeTime(ds.ConnID, end)
			if !ok {
				problems = append(problems, fmt.Sprintf("no recorded net.Conn.Write covers stream offset %d of conn %d", end, ds.ConnID))
				continue
			}
			ms := int64(0)
			if at > o.closeCallAt {
				ms = (at - o.closeCallAt).Milliseconds()
			}
			switch {
			case s.IsData() || s.Proto == wire.OpenSessionRequest || s.Proto == wire.OpenSessionResponse:
				lens = append(lens, fmt.Sprint(len(s.Payload)))
				sent += len(s.Payload)
				evs = append(evs, ev{at, 1, fmt.Sprintf("O:D:%d:%d", len(s.Payload), ms)})
			case s.Proto == wire.CloseSessionRequest:
				evs = append(evs, ev{at, 1, fmt.Sprintf("O:Q:%d", ms)})
			case s.Proto == wire.CloseSessionResponse:
				evs = append(evs, ev{at, 1, fmt.Sprintf("O:P:%d", ms)})
			}
		}
	}
	if sent < k.N {
		lens = append(lens, fmt.Sprint(k.N-sent))
	}
	evs = append(evs, ev{o.closeCallAt, 0, "C"}, ev{o.closeRetAt, 2, "X"})
	sort.SliceStable(evs, func(i, j int) bool {
		if evs[i].at != evs[j].at {
			return evs[i].at < evs[j].at
		}
		return evs[i].pri < evs[j].pri
	})
	toks := []string{"W:" + strings.Join(lens, ",")}
	if len(lens) == 0 {
		toks = []string{"W:-"}
	}
	for _, e := range evs {
		toks = append(toks, e.tok)
	}
	return toks, problems
}
