package props

import (
	"bufio"
	"bytes"
	"encoding/json"
	"fmt"
	"io"
	"math/bits"
	"math/rand"
	"os"
	"os/exec"
	"path/filepath"
	"regexp"
	"sort"
	"strings"
	"sync"
	"time"

	"verifharness/core"
)

// C10 — no input from the network can crash the process.
//
// Parent side. The endpoints live in child processes (c10_child.go); this file generates the hostile
// input language, asks the Lean model (Mieru.Dispatch) what each arrival does, lets a child execute
// it against the real code and compares. The direct oracle: the child process is alive after every
// arrival (a panic ends it and its stderr carries the trace) and another user's session still echoes.

const (
	c10VictimPlaceholder = 4000000001 // model-side id of "the other user's session"
	c10Own1Client        = 1001       // model-side ids of the two application sessions in the client role
	c10Own2Client        = 1002
	c10OtherClient       = 9001
)

// ------------------------------------------------------------------------------------------------
// generator

var c10Protos = []int{0, 1, 2, 3, 4, 5, 6, 7, 8, 9, 10, 11}
var c10U32 = []uint32{0, 1, 2, 3, 255, 256, 4095, 4096, 4097, 65535, 65536, 1 << 31, 1<<32 - 2, 1<<32 - 1}

// c10RandSeq draws a literal sequence number. On the stream transport a data segment must carry exactly
// the number its session expects (a small number that also depends on how many probes the executor has
// sent), so literal numbers are kept away from that range: 0 (always already used by the open segment)
// or >= 1000. The in-sequence case is SeqSel == "next".
func c10RandSeq(r *rand.Rand, udp bool) uint32 {
	v := c10RandU32(r)
	if !udp && v >= 1 && v < 1000 {
		v += 1000
	}
	return v
}

func c10RandU32(r *rand.Rand) uint32 {
	if r.Intn(3) == 0 {
		return r.Uint32()
	}
	return c10U32[r.Intn(len(c10U32))]
}

func c10MaskWithOnes(r *rand.Rand, ones int) uint32 {
	perm := r.Perm(32)
	var m uint32
	for _, p := range perm[:ones] {
		m |= 1 << uint(p)
	}
	return m
}

// genC10Plain draws a segment every field of which is well formed; what makes it hostile is its type,
// its direction and the session it names.
func genC10Plain(r *rand.Rand, role string, udp bool) c10Seg {
	s := c10Seg{Kind: "seg", ExtLen: -1, DeclPre: -1, DeclPay: -1, DeclSuf: -1, SeqSel: "value"}
	s.Proto = 2 + r.Intn(10)
	switch x := r.Intn(100); {
	case x < 5:
		s.SidSel = "zero"
	case x < 55:
		s.SidSel = "own1"
	case x < 65:
		s.SidSel = "own2"
	case x < 83:
		s.SidSel = "victim"
	default:
		s.SidSel = "value"
		s.Sid = 1 + r.Uint32()%4000000000
	}
	if r.Intn(10) < 6 {
		s.SeqSel = "next"
	} else {
		s.Seq = c10RandSeq(r, udp)
	}
	s.UnAck = []uint32{0, 1, 2, 5}[r.Intn(4)]
	s.Window = uint16(16 + r.Intn(4000))
	if c10IsLE(s.Proto) {
		s.Byte1 = uint8(1 + r.Intn(4))
		s.LEMask = c10MaskWithOnes(r, c10LEOnes[s.Byte1])
		s.LERot = []uint8{0, 1, 7, 15, 16, 32, 240}[r.Intn(7)]
	}
	if c10IsData(s.Proto) || (c10IsSession(s.Proto) && r.Intn(3) == 0) {
		s.PayloadN = []int{1, 3, 28, 64, 100, 500, 1024}[r.Intn(7)]
	}
	if !c10IsSession(s.Proto) {
		s.Pad1N = []int{0, 0, 3, 40}[r.Intn(4)]
	}
	s.Pad2N = []int{0, 0, 5, 60}[r.Intn(4)]
	if udp && c10IsLE(s.Proto) && s.PayloadN > 500 {
		s.PayloadN = 500 // the expansion doubles the body; stay below the 1500-byte read buffer of the packet underlay
	}
	s.From = "home"
	if role == "server" {
		s.KeyUser = "bob"
		if udp && r.Intn(4) == 0 {
			s.From = "fresh"
		}
		if udp && r.Intn(12) == 0 {
			s.From = "port0"
		}
	} else {
		s.KeyUser = "alice"
	}
	return s
}

func genC10Seg(r *rand.Rand, role string, udp bool, prevKind string) c10Seg {
	plain := 50
	if !udp {
		plain = 75 // on TCP almost every malformed field ends the connection and with it the case
	}
	if r.Intn(100) < plain {
		return genC10Plain(r, role, udp)
	}
	s := c10Seg{Kind: "seg", ExtLen: -1, DeclPre: -1, DeclPay: -1, DeclSuf: -1, SeqSel: "value"}
	switch x := r.Intn(100); {
	case x < 7:
		s.Kind = "garbage"
		s.Len = []int{0, 1, 23, 24, 47, 48, 71, 72, 73, 88, 200, 1400, 1500, 1501, 2000}[r.Intn(15)]
		if r.Intn(3) == 0 {
			s.Len = r.Intn(2001)
		}
		if !udp && s.Len == 0 {
			s.Len = 1
		}
		s.From = []string{"home", "fresh"}[r.Intn(2)]
		return s
	}
	switch x := r.Intn(10); {
	case x < 6:
		s.Proto = c10Protos[r.Intn(len(c10Protos))]
	case x < 8:
		s.Proto = r.Intn(256)
	default:
		s.Proto = []int{12, 13, 127, 128, 254, 255}[r.Intn(6)]
	}
	switch x := r.Intn(100); {
	case x < 8:
		s.SidSel = "zero"
	case x < 48:
		s.SidSel = "own1"
	case x < 58:
		s.SidSel = "own2"
	case x < 78:
		s.SidSel = "victim"
	default:
		s.SidSel = "value"
		s.Sid = 1 + r.Uint32()%4000000000
	}
	if r.Intn(3) == 0 {
		s.SeqSel = "next"
	} else {
		s.Seq = c10RandSeq(r, udp)
	}
	s.UnAck = c10RandU32(r)
	s.Window = uint16(c10RandU32(r))
	s.Fragment = uint8(c10RandU32(r))
	s.Status = []uint8{0, 0, 1, 2, 255}[r.Intn(5)]
	// low-entropy fields: meaningful for 10/11, arbitrary bytes for every other type
	if c10IsLE(s.Proto) || r.Intn(4) == 0 {
		if r.Intn(10) < 7 {
			s.Byte1 = uint8(1 + r.Intn(4))
			s.LEMask = c10MaskWithOnes(r, c10LEOnes[s.Byte1])
			s.LERot = []uint8{0, 1, 7, 15, 16, 32, 240}[r.Intn(7)]
		} else {
			s.Byte1 = []uint8{0, 1, 2, 5, 255}[r.Intn(5)]
			s.LEMask = r.Uint32()
			s.LERot = []uint8{0, 3, 17, 31, 241, 255}[r.Intn(6)]
		}
	}
	switch x := r.Intn(10); {
	case x < 4:
		s.PayloadN = 0
	case x < 8:
		s.PayloadN = []int{1, 4, 5, 28, 100, 1000}[r.Intn(6)]
	default:
		s.PayloadN = []int{1023, 1024, 1025, 1100}[r.Intn(4)] // around MaxSessionOpenPayload
	}
	if c10IsLE(s.Proto) && s.PayloadN > 500 && udp {
		s.PayloadN = 500 // the expansion doubles the body; keep the datagram below the 1500-byte read buffer
	}
	s.Pad1N = []int{0, 0, 1, 17, 100}[r.Intn(5)]
	s.Pad2N = []int{0, 0, 1, 17, 100}[r.Intn(5)]
	if c10IsSession(s.Proto) {
		s.Pad1N = 0
	}
	if r.Intn(5) == 0 && c10IsLE(s.Proto) {
		s.ExtLen = []int{0, 1, s.PayloadN + 1, 32768, 32769, 65535}[r.Intn(6)]
	}
	if r.Intn(4) == 0 {
		l := s.layout()
		switch r.Intn(3) {
		case 0:
			s.DeclPre = []int{0, 1, l.declPre + 1, 255}[r.Intn(4)]
		case 1:
			s.DeclPay = []int{0, 1, l.declPay + 1, l.declPay + 8, 1024, 1025, 65535}[r.Intn(7)]
		case 2:
			s.DeclSuf = []int{0, 1, l.declSuf + 1, 255}[r.Intn(4)]
		}
	}
	if r.Intn(8) == 0 {
		s.TsSkew = []int{-100000, -3, -2, 2, 3, 100000}[r.Intn(6)]
	}
	if role == "server" {
		s.KeyUser = "bob"
		if r.Intn(6) == 0 {
			s.KeyUser = "carol"
		}
		s.From = "home"
		if udp && r.Intn(3) == 0 {
			s.From = "fresh"
		}
	} else {
		s.KeyUser = "alice"
		if r.Intn(7) == 0 {
			s.KeyUser = "bob"
		}
		s.From = "home"
	}
	if s.PayloadN > 0 && r.Intn(15) == 0 {
		s.BadTag = true
	}
	if c10IsLE(s.Proto) && s.PayloadN > 0 && r.Intn(12) == 0 {
		s.BadLEPad = true
	}
	return s
}

func genC10Case(r *rand.Rand, role string, udp bool) c10Case {
	k := c10Case{Role: role, UDP: udp, Seed: r.Int63(), Setup: 2}
	k.Own1 = 1 + r.Uint32()%2000000000
	k.Own2 = 2000000001 + r.Uint32()%1000000000
	if role == "server" && r.Intn(6) == 0 {
		k.Setup = r.Intn(2)
	}
	n := 1 + r.Intn(5)
	for i := 0; i < n; i++ {
		if i > 0 && r.Intn(12) == 0 {
			// the previous arrival's bytes once more
			s := k.Steps[i-1]
			s.Kind = "replay"
			k.Steps = append(k.Steps, s)
			continue
		}
		k.Steps = append(k.Steps, genC10Seg(r, role, udp, ""))
	}
	return k
}

// ------------------------------------------------------------------------------------------------
// the model's view of a case

func (k *c10Case) modelSid(s *c10Seg) uint32 {
	switch s.SidSel {
	case "zero":
		return 0
	case "own1":
		if k.Role == "client" {
			return c10Own1Client
		}
		return k.Own1
	case "own2":
		if k.Role == "client" {
			return c10Own2Client
		}
		return k.Own2
	case "victim":
		if k.Role == "client" {
			return c10OtherClient
		}
		return c10VictimPlaceholder
	}
	return s.Sid
}

// peerHasSession: is the selector one of the sessions opened in the set-up of this case?
func (k *c10Case) peerHasSession(sel string) bool {
	switch sel {
	case "own1":
		return k.Role == "client" || k.Setup >= 1
	case "own2":
		return k.Role == "client" || k.Setup >= 2
	}
	return false
}

func b01(b bool) int {
	if b {
		return 1
	}
	return 0
}

// c10ModelSteps renders the steps (setup included) for the dispatch-udp / dispatch-tcp ops and returns
// how many leading steps are setup.
func (k *c10Case) modelSteps() (steps []string, nSetup int) {
	valid := func(proto int, sid uint32, key string, src int) string {
		return fmt.Sprintf("%d,1,%d,0,0,0,0,0,0,0,0,0,1,1,%d,1,72,%s,0,0", proto, sid, src, key) // sequence number 0: the first segment of a session
	}
	if k.Role == "server" {
		ids := []uint32{k.Own1, k.Own2}[:k.Setup]
		for _, id := range ids {
			steps = append(steps, valid(2, id, "bob", 1))
		}
	} else {
		steps = append(steps, valid(3, c10Own1Client, "alice", 1), valid(3, c10Own2Client, "alice", 1))
	}
	nSetup = len(steps)
	prev := ""
	for i := range k.Steps {
		s := &k.Steps[i]
		var line string
		switch s.Kind {
		case "garbage":
			src := 1
			if s.From == "fresh" {
				src = 2
			}
			if s.From == "port0" {
				src = 3
			}
			line = fmt.Sprintf("0,1,0,0,0,0,0,0,0,0,%d,0,1,0,%d,1,%d,-,0,0", s.Len, src, s.Len)
			if s.From == "port0" {
				line += ",0,1"
			}
		case "replay":
			line = prev
			f := strings.Split(prev, ",")
			if len(f) == 20 {
				if k.UDP {
					f[18] = "1" // the replay cache has seen these bytes
				} else {
					f[17] = "-" // the stream's nonce has moved on: nothing authenticates
				}
				line = strings.Join(f, ",")
			}
		default:
			l := s.layout()
			src := 1
			if s.From == "fresh" {
				src = 2
			}
			if s.From == "port0" {
				src = 3
			}
			key := s.KeyUser
			if k.Role == "client" && key != "alice" {
				key = "-" // the client holds one key; anything else does not authenticate
			}
			ts := s.TsSkew >= -1 && s.TsSkew <= 1
			// "next" means the number the executor's wire-level peer has for that session, i.e. the one the
			// real session expects — but only for sessions the peer itself opened in the set-up; for any
			// other id the executor sends the literal number
			seq := fmt.Sprint(s.Seq)
			if s.SeqSel == "next" && k.peerHasSession(s.SidSel) {
				seq = "n"
			}
			line = fmt.Sprintf("%d,%d,%d,%d,%d,%d,%d,%d,%d,%d,%d,%d,%d,%d,%d,1,%d,%s,0,%s",
				s.Proto, b01(ts), k.modelSid(s), l.declPre, l.declPay, l.declSuf, s.Byte1, s.LEMask, s.LERot, l.extLen,
				l.tailLen, b01(l.auth), b01(l.leBodyOk), b01(l.framed), src, 72+l.tailLen, key, seq)
			if s.From == "port0" {
				line += ",0,1" // replyWriteOk = 0: the socket cannot send to this datagram's source
			}
		}
		prev = line
		steps = append(steps, line)
	}
	return steps, nSetup
}

type c10Prediction struct {
	Tokens []string // one per executed step (the run stops at closeUnderlay / panic)
	Table  string
	Raw    string
}

func c10Predict(c *core.Ctx, k *c10Case) (c10Prediction, int, error) {
	steps, nSetup := k.modelSteps()
	var reply string
	if k.UDP {
		sess := "-"
		if k.Role == "server" {
			sess = fmt.Sprintf("%d,99,alice,alice", c10VictimPlaceholder)
		} else {
			sess = fmt.Sprintf("%d,0,-,-;%d,0,-,-", c10Own1Client, c10Own2Client)
		}
		role := "s"
		if k.Role == "client" {
			role = "c"
		}
		reply = c.Model.Ask("dispatch-udp %s 1 %s %s", role, sess, strings.Join(steps, ";"))
	} else {
		sess, role, cu := "-", "s", "-"
		if k.Role == "client" {
			sess, role, cu = fmt.Sprintf("%d,0,-,-;%d,0,-,-", c10Own1Client, c10Own2Client), "c", "alice"
		}
		reply = c.Model.Ask("dispatch-tcp %s %s %s %s", role, cu, sess, strings.Join(steps, ";"))
	}
	if !strings.HasPrefix(reply, "ok ") {
		return c10Prediction{Raw: reply}, nSetup, fmt.Errorf("model: %s", reply)
	}
	parts := strings.SplitN(reply[3:], " | ", 2)
	p := c10Prediction{Tokens: strings.Fields(parts[0]), Raw: reply}
	if len(parts) == 2 {
		p.Table = parts[1]
	}
	return p, nSetup, nil
}

func c10Class(tok string) (outcome string, reply bool) {
	tok = strings.TrimSuffix(tok, "+replyfailed") // the close request was attempted and could not be sent: nothing to see
	reply = strings.HasSuffix(tok, "+reply")
	tok = strings.TrimSuffix(tok, "+reply")
	if i := strings.Index(tok, "/"); i >= 0 {
		tok = tok[:i]
	}
	return tok, reply
}

// ------------------------------------------------------------------------------------------------
// child processes

type c10Proc struct {
	cmd    *exec.Cmd
	in     io.WriteCloser
	out    *bufio.Reader
	stderr *bytes.Buffer
	role   string
	udp    bool
	dead   bool
}

func c10StartChild(role string, udp bool, seed int64) (*c10Proc, error) {
	self, err := os.Executable()
	if err != nil {
		self = os.Args[0]
	}
	cmd := exec.Command(self, "c10-child")
	in, _ := cmd.StdinPipe()
	out, _ := cmd.StdoutPipe()
	eb := &bytes.Buffer{}
	cmd.Stderr = eb
	if err := cmd.Start(); err != nil {
		return nil, err
	}
	p := &c10Proc{cmd: cmd, in: in, out: bufio.NewReaderSize(out, 1<<20), stderr: eb, role: role, udp: udp}
	if role != "" {
		rep, died := p.ask(c10Cmd{Op: "start", Role: role, UDP: udp, Seed: seed}, 30*time.Second)
		if died || rep.Error != "" {
			p.kill()
			return nil, fmt.Errorf("child start: %s %s", rep.Error, p.trace())
		}
	}
	return p, nil
}

// ask sends one command and waits for the reply line; died = the process ended instead.
func (p *c10Proc) ask(cmd c10Cmd, timeout time.Duration) (c10Reply, bool) {
	var rep c10Reply
	b, _ := json.Marshal(cmd)
	if _, err := p.in.Write(append(b, '\n')); err != nil {
		p.dead = true
		p.cmd.Wait()
		return rep, true
	}
	type res struct {
		line []byte
		err  error
	}
	ch := make(chan res, 1)
	go func() {
		line, err := p.out.ReadBytes('\n')
		ch <- res{line, err}
	}()
	select {
	case r := <-ch:
		if r.err != nil {
			p.dead = true
			p.cmd.Wait()
			return rep, true
		}
		if err := json.Unmarshal(r.line, &rep); err != nil {
			rep.Error = "unparsable reply: " + string(r.line)
		}
		return rep, false
	case <-time.After(timeout):
		rep.Error = "timeout: the child did not answer within " + timeout.String()
		p.kill()
		return rep, false
	}
}

func (p *c10Proc) kill() {
	p.dead = true
	p.in.Close()
	p.cmd.Process.Kill()
	p.cmd.Wait()
}

func (p *c10Proc) close() {
	if p == nil || p.dead {
		return
	}
	b, _ := json.Marshal(c10Cmd{Op: "quit"})
	p.in.Write(append(b, '\n'))
	p.in.Close()
	done := make(chan struct{})
	go func() { p.cmd.Wait(); close(done) }()
	select {
	case <-done:
	case <-time.After(3 * time.Second):
		p.cmd.Process.Kill()
	}
}

func (p *c10Proc) trace() string {
	s := p.stderr.String()
	// keep the last step announcement and what follows (the panic trace)
	if i := strings.LastIndex(s, "c10-step "); i >= 0 {
		s = s[i:]
	}
	if len(s) > 6000 {
		s = s[:6000]
	}
	return s
}

var c10StepRe = regexp.MustCompile(`(?m)^c10-step (\d+)$`)

var c10FrameRe = regexp.MustCompile(`(?m)^github\.com/enfein/mieru/v3/(pkg|apis)/([\w/]+)\.(\(\*?\w+\)\.\w+|\w+)`)

// c10PanicSite extracts "package.Function" of the innermost repository frame of a panic trace.
func c10PanicSite(trace string) string {
	m := c10FrameRe.FindStringSubmatch(trace)
	if m == nil {
		if strings.Contains(trace, "panic:") || strings.Contains(trace, "fatal error:") {
			return "outside-repo"
		}
		return "exit-without-trace"
	}
	return filepath.Base(m[2]) + "." + m[3]
}

// ------------------------------------------------------------------------------------------------
// running and judging one case

type c10Result struct {
	rep   c10Reply
	died  bool
	trace string
}

func c10Kind(role string, udp bool) string {
	if udp {
		return role + "/udp"
	}
	return role + "/tcp"
}

func c10Judge(c *core.Ctx, k c10Case, pred c10Prediction, nSetup int, res c10Result) {
	kind := c10Kind(k.Role, k.UDP)
	key := func(what string, s *c10Seg) string {
		sel := "-"
		if s != nil {
			sel = fmt.Sprintf("%s/type=%d/sid=%s", s.Kind, s.Proto, s.SidSel)
			if s.Kind != "seg" {
				sel = s.Kind
			}
		}
		return fmt.Sprintf("C10/%s/%s/%s", kind, what, sel)
	}
	if res.died {
		// the child announces every step on stderr before executing it: the last announcement before the
		// trace is the arrival that was being handled
		site := c10PanicSite(res.trace)
		step := -1
		if m := c10StepRe.FindAllStringSubmatch(res.trace, -1); len(m) > 0 {
			fmt.Sscan(m[len(m)-1][1], &step)
		}
		sel := "-"
		if step >= 0 && step < len(k.Steps) {
			g := k.Steps[step]
			sel = fmt.Sprintf("type=%d/sid=%s/key=%s", g.Proto, g.SidSel, g.KeyUser)
			if g.Kind != "seg" {
				sel = g.Kind
			}
		}
		tr := res.trace
		if i := strings.Index(tr, "panic:"); i >= 0 {
			tr = tr[i:]
		} else if i := strings.Index(tr, "fatal error:"); i >= 0 {
			tr = tr[i:]
		}
		what := fmt.Sprintf("the %s process DIED while handling arrival %d of this case (model prediction: %s). Trace:\n%s", kind, step, pred.Raw, tr)
		c.Violate(fmt.Sprintf("C10/%s/panic/%s/%s", kind, site, sel), what, k)
		return
	}
	if res.rep.Error != "" {
		if strings.HasPrefix(res.rep.Error, "setup:") {
			c10ResMu.Lock()
			c.Res.Discarded++
			c10ResMu.Unlock()
			c.Note("case discarded, set-up did not complete (%s): %s", kind, res.rep.Error)
			return
		}
		c.Disagree(key("executor-error", nil), res.rep.Error, k)
		return
	}
	for i := 0; i < nSetup; i++ {
		want := "deliver"
		if k.Role == "server" {
			want = "createSession"
		}
		if i >= len(pred.Tokens) || !strings.HasPrefix(pred.Tokens[i], want) {
			c.Disagree(key("setup-prediction", nil), fmt.Sprintf("model says %q for a regular set-up segment: %s", strings.Join(pred.Tokens, " "), pred.Raw), k)
			return
		}
	}
	if len(res.rep.Obs) != len(k.Steps) {
		c.Disagree(key("executor-steps", nil), fmt.Sprintf("%d observations for %d steps", len(res.rep.Obs), len(k.Steps)), k)
		return
	}
	seenData := map[uint32]bool{}
	over := false
	for i := range k.Steps {
		s := &k.Steps[i]
		o := res.rep.Obs[i]
		c.Compared()
		if nSetup+i >= len(pred.Tokens) {
			over = true
		}
		if over {
			if !o.Skipped {
				c.Disagree(key("ran-after-model-stopped", s), fmt.Sprintf("the model's run ended before step %d (%s) but the endpoint was still up", i, pred.Raw), k)
			}
			continue
		}
		mo, mreply := c10Class(pred.Tokens[nSetup+i])
		c.Hist("model_outcome/"+kind, mo)
		c.Hist("kind", s.Kind)
		if s.Kind == "seg" {
			c.Hist("proto", fmt.Sprint(s.Proto))
			c.Hist("sid_sel", s.SidSel)
			if k.UDP && k.Role == "server" {
				c.Hist("udp_source", s.From+"->"+pred.Tokens[nSetup+i])
			}
			if c10IsData(s.Proto) || s.Proto == 2 || s.Proto == 3 {
				// in-sequence ("next") and out-of-sequence (literal) segments for inputData, per transport
				tr := "tcp"
				if k.UDP {
					tr = "udp"
				}
				c.Hist("seq_"+tr, s.SeqSel+"->"+mo)
			}
		}
		if o.Skipped {
			c.Disagree(key("underlay-closed-early", s), fmt.Sprintf("step %d was not executed: the connection was already closed, the model (%s) says it was still up", i, pred.Raw), k)
			return
		}
		// the direct oracle: other users' sessions keep working
		if o.Victim != "echo" && o.Victim != "none" {
			c.Violate(key("other-session-broken", s), fmt.Sprintf("after step %d the session of ANOTHER user (server role) / on another underlay (client role) no longer echoes (%s); observation %+v; model %s", i, o.Victim, o, pred.Raw), k)
			return
		}
		obs := "quiet"
		switch {
		case o.Underlay == "closed":
			obs = "closeUnderlay"
		case o.Created:
			obs = "createSession"
		case o.TargetGone:
			obs = "closeSession"
		}
		want := mo
		if mo == "drop" || mo == "deliver" {
			want = "quiet"
		}
		if mo == "panic" {
			c.Disagree(key("model-panics", s), fmt.Sprintf("the model predicts a panic for step %d and the real endpoint survived (%+v): %s", i, o, pred.Raw), k)
			return
		}
		if obs != want {
			c.Disagree(key("outcome/model="+mo+"/observed="+obs, s), fmt.Sprintf("step %d: model %s, observed %s (%+v); %s", i, mo, obs, o, pred.Raw), k)
			return
		}
		if obs == "closeUnderlay" {
			over = true
			continue
		}
		if o.AppGot && mo != "deliver" && mo != "createSession" {
			c.Disagree(key("payload-reached-application/model="+mo, s), fmt.Sprintf("step %d: the hostile payload reached the application although the model says %s; %+v", i, mo, o), k)
			return
		}
		if mreply && !o.ReplyClose {
			c.Disagree(key("no-close-reply", s), fmt.Sprintf("step %d: the model says the endpoint answers an unknown session with a closeSessionRequest; none was seen; %+v", i, o), k)
			return
		}
		if o.Bystander != "echo" && o.Bystander != "none" {
			c.Disagree(key("bystander-session-broken", s), fmt.Sprintf("step %d: the sender's OTHER session on the same underlay no longer echoes (%s) although the underlay is up; %+v; %s", i, o.Bystander, o, pred.Raw), k)
			return
		}
		if (mo == "drop" || mo == "deliver") && o.Target != "echo" && o.Target != "none" {
			c.Disagree(key("target-session-broken/model="+mo, s), fmt.Sprintf("step %d: the target session no longer echoes (%s) although the model says %s; %+v; %s", i, o.Target, mo, o, pred.Raw), k)
			return
		}
		// in-order data accepted by the session must come out at the application (only claimed for the
		// sequence number the session expects next: a hostile duplicate number may be overwritten in the queue)
		sid := k.modelSid(s)
		if mo == "deliver" && s.Kind == "seg" && c10IsData(s.Proto) && s.PayloadN > 0 && o.Target != "none" &&
			s.SeqSel == "next" && (!k.UDP || !seenData[sid]) {
			if !o.AppGot {
				c.Disagree(key("accepted-data-not-delivered", s), fmt.Sprintf("step %d: the session accepted in-order data (model: deliver) but the application never saw the payload; %+v", i, o), k)
				return
			}
		}
		if mo == "deliver" && s.Kind != "garbage" && (c10IsData(s.Proto) || c10IsSession(s.Proto)) {
			seenData[sid] = true
		}
	}
	if res.rep.VictimLeft != "echo" && res.rep.VictimLeft != "none" && res.rep.VictimLeft != "" {
		c.Violate(key("other-session-broken-at-end", nil), fmt.Sprintf("after the case the other session no longer echoes (%s)", res.rep.VictimLeft), k)
	}
}

// ------------------------------------------------------------------------------------------------
// pool: one child per worker, restarted after a death

var c10ResMu sync.Mutex // guards the plain counters of core.Result this scenario updates from its workers

type c10Job struct {
	k      c10Case
	pred   c10Prediction
	nSetup int
}

func c10RunJobs(c *core.Ctx, jobs []c10Job, workers int) {
	byKind := map[string][]int{}
	for i, j := range jobs {
		kd := c10Kind(j.k.Role, j.k.UDP)
		byKind[kd] = append(byKind[kd], i)
	}
	kinds := []string{}
	for kd := range byKind {
		kinds = append(kinds, kd)
	}
	sort.Strings(kinds)
	var wg sync.WaitGroup
	for _, kd := range kinds {
		idx := byKind[kd]
		ch := make(chan int, len(idx))
		for _, i := range idx {
			ch <- i
		}
		close(ch)
		n := workers
		if n > len(idx) {
			n = len(idx)
		}
		for w := 0; w < n; w++ {
			wg.Add(1)
			go func(w int, kd string) {
				defer wg.Done()
				var p *c10Proc
				defer func() { p.close() }()
				for i := range ch {
					j := jobs[i]
					if p == nil || p.dead {
						var err error
						p, err = c10StartChild(j.k.Role, j.k.UDP, c.Seed*1000+int64(w))
						if err != nil {
							c.Violate("C10/"+kd+"/endpoint-does-not-start", err.Error(), j.k)
							return
						}
					}
					rep, died := p.ask(c10Cmd{Op: "case", Case: &j.k}, 120*time.Second)
					res := c10Result{rep: rep, died: died}
					if died {
						res.trace = p.trace()
					}
					c10Judge(c, j.k, j.pred, j.nSetup, res)
					kj, _ := json.Marshal(j.k)
					c.Eval(string(kj), !died && rep.Error == "")
					c10ResMu.Lock()
					c.Res.TracesValidated++
					c10ResMu.Unlock()
				}
			}(w, kd)
		}
	}
	wg.Wait()
}

func c10Prepare(c *core.Ctx, k c10Case) (c10Job, bool) {
	pred, nSetup, err := c10Predict(c, &k)
	if err != nil {
		c.Disagree("C10/model-rejects-case", err.Error(), k)
		return c10Job{}, false
	}
	// tell the executor what to wait for
	for i := range k.Steps {
		k.Steps[i].Expect = ""
		if nSetup+i < len(pred.Tokens) {
			mo, rp := c10Class(pred.Tokens[nSetup+i])
			k.Steps[i].Expect = mo
			if rp {
				k.Steps[i].Expect = "drop+reply"
			}
			if mo == "createSession" && strings.Contains(pred.Tokens[nSetup+i], "/closed") {
				k.Steps[i].Expect = "createSession+closed" // the new session fails on its first segment
			}
		}
	}
	return c10Job{k: k, pred: pred, nSetup: nSetup}, true
}

// ------------------------------------------------------------------------------------------------

type c10Corpus struct {
	Kind string          `json:"kind"` // "dispatch" | "assoc-types" | "socks"
	Case json.RawMessage `json:"case"`
}

func c10LoadCorpus(c *core.Ctx) (cases []c10Case, others []c10Corpus) {
	ents, _ := os.ReadDir(c.Corpus)
	names := []string{}
	for _, e := range ents {
		if strings.HasSuffix(e.Name(), ".json") {
			names = append(names, e.Name())
		}
	}
	sort.Strings(names)
	for _, n := range names {
		raw, err := os.ReadFile(filepath.Join(c.Corpus, n))
		if err != nil {
			continue
		}
		var f struct {
			Input json.RawMessage `json:"input"`
		}
		if json.Unmarshal(raw, &f) != nil || len(f.Input) == 0 {
			continue
		}
		k, o, ok := c10DecodeReplay(f.Input)
		if !ok {
			continue
		}
		if k != nil {
			cases = append(cases, *k)
		} else {
			others = append(others, *o)
		}
	}
	return
}

// c10DecodeReplay accepts a bare dispatch case (what violations carry) or a tagged object.
func c10DecodeReplay(raw json.RawMessage) (*c10Case, *c10Corpus, bool) {
	var t c10Corpus
	if json.Unmarshal(raw, &t) == nil && t.Kind != "" {
		if t.Kind == "dispatch" {
			var k c10Case
			if json.Unmarshal(t.Case, &k) == nil {
				return &k, nil, true
			}
			return nil, nil, false
		}
		return nil, &t, true
	}
	var k c10Case
	if json.Unmarshal(raw, &k) == nil && k.Role != "" {
		return &k, nil, true
	}
	return nil, nil, false
}

func c10RunOther(c *core.Ctx, o c10Corpus) {
	switch o.Kind {
	case "assoc-types":
		c10AssocTypesCheck(c)
	case "socks":
		var sc c10SocksCase
		if json.Unmarshal(o.Case, &sc) == nil {
			c10SocksOne(c, sc)
		}
	}
}

// c10AssocTypesCheck runs the UDP relay loop over a transport whose read and write sides fail with
// errors of different concrete types, in a child.
func c10AssocTypesCheck(c *core.Ctx) {
	p, err := c10StartChild("", false, 0)
	if err != nil {
		c.Violate("C10/socks5/udp-associate/child-does-not-start", err.Error(), c10Corpus{Kind: "assoc-types"})
		return
	}
	defer p.close()
	rep, died := p.ask(c10Cmd{Op: "assoc-types"}, 30*time.Second)
	c.Eval("assoc-types", !died)
	if died {
		c.Violate("C10/socks5/udp-associate/panic/"+c10PanicSite(p.trace()),
			"socks5.RunUDPAssociateLoop crashed the process when its two relay goroutines ended with errors of different concrete types (a write that fails with *net.OpError, then a read that ends with io.EOF). Trace:\n"+p.trace(),
			c10Corpus{Kind: "assoc-types"})
		return
	}
	if rep.Error != "" {
		c.Disagree("C10/socks5/udp-associate/executor-error", rep.Error, c10Corpus{Kind: "assoc-types"})
	}
}

func c10LEValid(s *c10Seg) bool {
	return c10LEParamsValid(s.Byte1, s.LEMask, s.LERot) && bits.OnesCount32(s.LEMask) > 0
}

func init() {
	core.Register("C10", &core.Scenario{
		Run: func(c *core.Ctx) {
			c.Res.Rule = "hostile-input language (harness/wire, valid credential): per case 1..5 arrivals against a real protocol.Mux endpoint hosted in a CHILD process — every protocol type 0..255 (wrong-direction and undefined included), session id 0 / random / own session / own second session / ANOTHER user's session, boundary and random seq (on TCP both the in-sequence number a session expects and out-of-sequence ones) / unAck / window / fragment / status, prefix / payload / suffix lengths consistent or not with the bytes that follow, session payloads around 1024, low-entropy mode / mask weight / rotation / extracted length valid and invalid, stale timestamps, a second credential, corrupted tags and padding bits, replays, unauthenticated garbage of every length 0..2000 — against a real SERVER (attacker = registered user bob, victim = alice) and a real CLIENT (the harness plays the server), on TCP and UDP. The Lean model Mieru.Dispatch predicts drop / closeSession / closeUnderlay / deliver / createSession per arrival; the child reports what the application and the wire saw (new session accepted, target closed, close-request reply, payload delivered, sender's other session and the OTHER USER's session still echo, connection up). Direct oracle: the child process survives and the other user's session keeps echoing. Plus SOCKS5 byte strings (random, every truncation, every ATYP, domain lengths 0/255) against Request/Response.ReadFromSocks5, ReadSocks5Request/Response, AddrSpec.ReadFromSocks5 (compared with Mieru.SocksReq), parseSocks5UDPDatagram, UDPAssociateWrapper.ReadFrom, PacketOverStreamTunnel.Read, the socks5 client's reply handling and TransceiveUDPPacket (each under recover). Distinct = distinct case JSON."
			c.Correspondence("per-arrival outcome class of real endpoints (child process) = Mieru.Dispatch.udpStep / tcpStep on the same decoded fields; Request/Response/AddrSpec parsers = Mieru.SocksReq.parseMsg / parseMsg4 / SocksMsg.parseAddr")
			if !stageOn("main") { // development switch (VH_ONLY), see c02_flow.go
				return
			}
			corpusCases, others := c10LoadCorpus(c)
			var jobs []c10Job
			for _, k := range corpusCases {
				if j, ok := c10Prepare(c, k); ok {
					jobs = append(jobs, j)
				}
			}
			perKind := c.N(120, 1500)
			for _, kd := range []struct {
				role string
				udp  bool
			}{{"server", true}, {"server", false}, {"client", true}, {"client", false}} {
				for i := 0; i < perKind; i++ {
					k := genC10Case(c.Rand, kd.role, kd.udp)
					if i < 3 {
						c.Sample(k)
					}
					if j, ok := c10Prepare(c, k); ok {
						jobs = append(jobs, j)
					}
				}
			}
			// unauthenticated garbage of every length, in bulk
			for _, k := range c10SweepCases(c) {
				if j, ok := c10Prepare(c, k); ok {
					jobs = append(jobs, j)
				}
			}
			c10RunJobs(c, jobs, 4)
			for _, o := range others {
				c10RunOther(c, o)
			}
			c10AssocTypesCheck(c)
			c10Socks(c)
		},
		Replay: func(c *core.Ctx, raw json.RawMessage) {
			k, o, ok := c10DecodeReplay(raw)
			if !ok {
				c.Note("C10 replay: input not understood")
				return
			}
			if o != nil {
				c10RunOther(c, *o)
				return
			}
			if j, ok := c10Prepare(c, *k); ok {
				c10RunJobs(c, []c10Job{j}, 1)
			}
		},
	})
}

// c10SweepCases: unauthenticated garbage of every length 0..2000 (quick: a sample that contains every
// length up to 100 and the boundaries), many arrivals per case.
func c10SweepCases(c *core.Ctx) []c10Case {
	var lens []int
	if c.Thorough() {
		for l := 0; l <= 2000; l++ {
			lens = append(lens, l)
		}
	} else {
		for l := 0; l <= 100; l++ {
			lens = append(lens, l)
		}
		lens = append(lens, 1399, 1400, 1499, 1500, 1501, 1999, 2000)
		for i := 0; i < 40; i++ {
			lens = append(lens, 101+c.Rand.Intn(1900))
		}
	}
	var out []c10Case
	mk := func(role string, chunk []int) {
		k := c10Case{Role: role, UDP: true, Seed: c.Rand.Int63(), Setup: 2}
		k.Own1 = 1 + c.Rand.Uint32()%2000000000
		k.Own2 = 2000000001 + c.Rand.Uint32()%1000000000
		for _, l := range chunk {
			k.Steps = append(k.Steps, c10Seg{Kind: "garbage", Len: l, From: []string{"home", "fresh"}[l%2], ExtLen: -1, DeclPre: -1, DeclPay: -1, DeclSuf: -1})
		}
		out = append(out, k)
	}
	for i := 0; i < len(lens); i += 25 {
		j := i + 25
		if j > len(lens) {
			j = len(lens)
		}
		mk("server", lens[i:j])
		if i%50 == 0 {
			mk("client", lens[i:j])
		}
	}
	// every protocol type 0..255, well formed, towards the sender's own session and towards the other
	// user's session. On UDP an unknown or wrong type costs at most the session, so several per case; on
	// TCP most of them end the connection: one per case (quick: the defined types and a sample).
	plainType := func(p int, sel string, role string) c10Seg {
		g := c10Seg{Kind: "seg", Proto: p, SidSel: sel, SeqSel: "next", Window: 64, ExtLen: -1, DeclPre: -1, DeclPay: -1, DeclSuf: -1,
			KeyUser: "bob", From: "home"}
		if role == "client" {
			g.KeyUser = "alice"
		}
		if c10IsLE(p) {
			g.Byte1, g.LEMask = 1, 0x0f0f0f0f
		}
		if c10IsData(p) {
			g.PayloadN = 12
		}
		return g
	}
	for _, role := range []string{"server", "client"} {
		for base := 0; base < 256; base += 8 {
			k := c10Case{Role: role, UDP: true, Seed: c.Rand.Int63(), Setup: 2}
			k.Own1 = 1 + c.Rand.Uint32()%2000000000
			k.Own2 = 2000000001 + c.Rand.Uint32()%1000000000
			for p := base; p < base+8; p++ {
				sel := "own1"
				if p%2 == 1 {
					sel = "victim"
				}
				k.Steps = append(k.Steps, plainType(p, sel, role))
			}
			out = append(out, k)
		}
		var types []int
		if c.Thorough() {
			for p := 0; p < 256; p++ {
				types = append(types, p)
			}
		} else {
			for p := 0; p < 14; p++ {
				types = append(types, p)
			}
			types = append(types, 64+c.Rand.Intn(64), 128+c.Rand.Intn(64), 255)
		}
		for _, p := range types {
			k := c10Case{Role: role, UDP: false, Seed: c.Rand.Int63(), Setup: 2}
			k.Own1 = 1 + c.Rand.Uint32()%2000000000
			k.Own2 = 2000000001 + c.Rand.Uint32()%1000000000
			k.Steps = []c10Seg{plainType(p, []string{"own1", "victim"}[p%2], role)}
			out = append(out, k)
		}
	}
	// EVERY run: a source address the server's socket cannot SEND to (source port 0: the kernel delivers such a
	// datagram and refuses the reply with EINVAL). A data / ack segment of a registered user that names an unknown
	// session makes the server answer with a close request; that write fails. The ONE listener all users share
	// must survive it (audit A §C10: the event loop used to `return`, closing the socket) — the other user's
	// session is probed after every arrival. Also: session types, the other user's id, garbage from that address.
	for i, p := range []int{6, 8, 10, 7, 9, 4, 2, 200} {
		k := c10Case{Role: "server", UDP: true, Seed: c.Rand.Int63(), Setup: 2}
		k.Own1 = 1 + c.Rand.Uint32()%2000000000
		k.Own2 = 2000000001 + c.Rand.Uint32()%1000000000
		g := plainType(p, "value", "server")
		g.Sid, g.SeqSel, g.From = 0x7a000000+uint32(i), "value", "port0"
		v := plainType(8, "victim", "server")
		v.SeqSel, v.From = "value", "port0"
		k.Steps = []c10Seg{g, v, {Kind: "garbage", Len: 100, From: "port0", ExtLen: -1, DeclPre: -1, DeclPay: -1, DeclSuf: -1}, plainType(8, "own1", "server")}
		out = append(out, k)
	}
	// TCP: every garbage arrival ends the connection, so one arrival per case
	tl := []int{1, 23, 24, 47, 48, 71, 72, 73, 2000}
	if c.Thorough() {
		tl = nil
		for l := 1; l <= 2000; l += 1 + l/40 {
			tl = append(tl, l)
		}
	}
	for _, l := range tl {
		for _, setup := range []int{0, 2} {
			k := c10Case{Role: "server", UDP: false, Seed: c.Rand.Int63(), Setup: setup}
			k.Own1 = 1 + c.Rand.Uint32()%2000000000
			k.Own2 = 2000000001 + c.Rand.Uint32()%1000000000
			k.Steps = []c10Seg{{Kind: "garbage", Len: l, From: "home", ExtLen: -1, DeclPre: -1, DeclPay: -1, DeclSuf: -1}}
			out = append(out, k)
		}
	}
	return out
}
