package props

import (
	"fmt"
	"io"
	"math/big"
	"net"
	"os"
	"sort"
	"strconv"
	"strings"
	"sync"
	"time"

	"verifharness/core"
	"verifharness/sim"
	"verifharness/simnet"
	"verifharness/wire"
)

// Round 3 extensions of the C04 campaign (packet transport, generator):
//
//   * class-aware semantics for swap-next / replay-prev / reflect / splice and for the byte-level
//     kinds on the "boundary" class, so that EVERY byte-position class x EVERY mutation kind is a
//     defined, non-trivial mutation on both transports (c04Mut.Ext);
//   * a stream filter for those kinds on TCP (c04TCPX wraps c04TCP, whose emit() is left alone);
//   * the whole-run tie of the packet transport's end-to-end model: every datagram a real endpoint
//     was handed, in order, through Tamper.rxStep (driver op c04-udp-seq);
//   * an Endpoints wrapper that keeps the bytes of the session tag the server application read;
//   * the class x kind matrix of what was actually applied in a run.

// ------------------------------------------------------------------------------------------------
// byte-range operations on decoded units

func (u *c04Unit) rng(class string) (int, int) {
	sp := u.layout()[class]
	return sp.lo, sp.hi
}

// c04ReplaceRange returns u with the byte range of class replaced by other's range of that class.
func c04ReplaceRange(u, other *c04Unit, class string) []byte {
	lo, hi := u.rng(class)
	olo, ohi := other.rng(class)
	out := append([]byte(nil), u.Raw[:lo]...)
	out = append(out, other.Raw[olo:ohi]...)
	return append(out, u.Raw[hi:]...)
}

// c04SwapRange exchanges the byte ranges of class between two units.
func c04SwapRange(a, b *c04Unit, class string) ([]byte, []byte) {
	return c04ReplaceRange(a, b, class), c04ReplaceRange(b, a, class)
}

// c04SpliceAt returns u up to the start of its class range followed by other from the start of its
// class range to its end.
func c04SpliceAt(u, other *c04Unit, class string) []byte {
	lo, _ := u.rng(class)
	olo, _ := other.rng(class)
	return append(append([]byte(nil), u.Raw[:lo]...), other.Raw[olo:]...)
}

// mutateExt is mutateInUnit plus the "boundary" class for every byte-level kind and exact target
// lengths: bitflip / subst on "boundary" hit the LAST byte of the unit; insert with ToLen grows the unit
// to exactly ToLen bytes; truncate with ToLen cuts it to exactly ToLen bytes.
func mutateExt(u *c04Unit, m c04Mut, seed int64) []byte {
	raw := append([]byte(nil), u.Raw...)
	if m.Kind == "truncate" && m.ToLen > 0 {
		if m.ToLen < len(raw) {
			return raw[:m.ToLen]
		}
		return raw
	}
	if m.Kind == "insert" && m.ToLen > 0 {
		if m.ToLen <= len(raw) {
			return raw
		}
		mm := m
		mm.Param = m.ToLen - len(raw)
		mm.ToLen = 0
		return mutateInUnit(u, mm, seed)
	}
	if m.Class == "boundary" && len(raw) > 0 {
		switch m.Kind {
		case "bitflip":
			raw[len(raw)-1] ^= 1 << uint(m.Param&7)
			return raw
		case "subst":
			raw[len(raw)-1] += byte(1 + m.Param%255)
			return raw
		}
	}
	return mutateInUnit(u, m, seed)
}

// ------------------------------------------------------------------------------------------------
// UDP: the class-aware kinds (called by c04UDP.plan once the target is chosen)

func (p *c04UDP) planExt(u *c04Unit, d *simnet.Datagram) []simnet.Delivery {
	m := p.k.Mut
	whole := m.Class == "boundary"
	switch m.Kind {
	case "swap-next":
		if whole {
			return []simnet.Delivery{{Delay: 25 * time.Millisecond}}
		}
		// wait for the next eligible datagram that has the class; the two are delivered together with
		// their byte ranges exchanged (plan() handles the second one)
		p.held = u
		return nil
	case "replay-prev":
		if whole {
			return []simnet.Delivery{{}, {Data: p.prevClass.Raw}}
		}
		p.mutated = c04ReplaceRange(u, p.prevClass, m.Class)
	case "reflect":
		if whole {
			// the datagram also comes back to its sender, as if sent by the peer
			return []simnet.Delivery{{}, {To: d.From, From: d.To}}
		}
		p.mutated = c04ReplaceRange(u, p.other, m.Class)
	case "splice":
		if whole {
			p.mutated = append(append([]byte(nil), u.Raw...), p.prevClass.Raw...)
		} else {
			p.mutated = c04SpliceAt(u, p.prevClass, m.Class)
		}
	default:
		p.mutated = mutateExt(u, m, p.k.Seed)
	}
	return []simnet.Delivery{{Data: p.mutated}}
}

// ------------------------------------------------------------------------------------------------
// TCP: stream filter for the class-aware kinds. The genuine stream is re-framed exactly as in
// c04TCP.filter; only what is emitted in place of a unit differs.

type c04TCPX struct {
	*c04TCP
	cutAfter bool       // truncate/boundary: the stream ends after the target unit
	hold     []*c04Unit // swap-next: the target and everything behind it, until the partner arrives
	prevCls  *c04Unit   // previous unit of the mutated direction that has the class
}

func (x *c04TCPX) filter(conn int, c2s bool, off int64, b []byte) []byte {
	t := x.c04TCP
	t.mu.Lock()
	defer t.mu.Unlock()
	d := t.dir(conn, c2s)
	d.pend = append(d.pend, b...)
	segs := d.dec.Feed(b)
	if d.dec.Err != nil {
		if t.broken == "" {
			t.broken = d.dec.Err.Error()
		}
		out := d.pend
		d.pend = nil
		return out
	}
	var out []byte
	for _, s := range segs {
		u := &c04Unit{Raw: append([]byte(nil), d.pend[:s.WireLen]...), Seg: s, HasNonce: len(d.units) == 0, Index: len(d.units)}
		d.pend = d.pend[s.WireLen:]
		d.units = append(d.units, u)
		if conn != 0 || c2s != t.k.C2S {
			out = append(out, u.Raw...)
			continue
		}
		out = append(out, x.emit(d, u)...)
	}
	return out
}

func noNonce(u *c04Unit) []byte {
	if u.HasNonce {
		return u.Raw[24:]
	}
	return u.Raw
}

func (x *c04TCPX) emit(d *c04StreamDir, u *c04Unit) []byte {
	t := x.c04TCP
	m := t.k.Mut
	if u.Index == 0 {
		t.nonce0 = append([]byte(nil), u.Raw[:24]...)
	}
	if x.cutAfter {
		return nil
	}
	defer func() {
		if u.has(m.Class) {
			x.prevCls = u
		}
	}()
	whole := m.Class == "boundary"
	if len(x.hold) > 0 {
		// swap-next in progress: wait for the partner (the next unit that has the class)
		if !whole && !u.has(m.Class) {
			x.hold = append(x.hold, u)
			return nil
		}
		h := x.hold[0]
		var out []byte
		if whole {
			out = append(append(out, noNonce(u)...), noNonce(h)...)
			if h.HasNonce {
				out = append(append([]byte(nil), h.Raw[:24]...), out...)
			}
		} else {
			a, b := c04SwapRange(h, u, m.Class)
			out = append(out, a...)
			for _, mid := range x.hold[1:] {
				out = append(out, mid.Raw...)
			}
			out = append(out, b...)
		}
		x.hold = nil
		return out
	}
	if t.applied || m.Kind == "none" || !u.has(m.Class) || (m.PayloadLen > 0 && int(u.Seg.PayloadLen) != m.PayloadLen) {
		return u.Raw
	}
	needPrev := (m.Kind == "replay-prev" || m.Kind == "splice") && m.Class != "nonce"
	if needPrev && (x.prevCls == nil || u.Index == 0) {
		return u.Raw
	}
	var other *c04Unit
	if m.Kind == "reflect" {
		od := t.dir(0, !t.k.C2S)
		for i := len(od.units) - 1; i >= 0; i-- {
			if od.units[i].has(m.Class) {
				other = od.units[i]
				break
			}
		}
		if other == nil {
			return u.Raw // nothing suitable has travelled the other way yet: try the next unit
		}
	}
	if d.seen < m.Unit && m.Class != "nonce" {
		d.seen++
		return u.Raw
	}
	t.applied = true
	t.target = u
	if m.Class == "nonce" {
		// only the first unit of a stream carries the nonce: the partner range is the 24 bytes behind it
		raw := u.Raw
		switch m.Kind {
		case "swap-next":
			return append(append(append([]byte(nil), raw[24:48]...), raw[:24]...), raw[48:]...)
		case "replay-prev":
			return append(append([]byte(nil), raw[:24]...), raw...)
		case "splice":
			return append(append([]byte(nil), raw[24:48]...), raw[24:]...)
		case "reflect":
			return append(append([]byte(nil), other.Raw[:24]...), raw[24:]...)
		}
		return mutateExt(u, m, t.k.Seed)
	}
	switch m.Kind {
	case "swap-next":
		x.hold = []*c04Unit{u}
		return nil
	case "replay-prev":
		if whole {
			return append(append([]byte(nil), noNonce(x.prevCls)...), u.Raw...)
		}
		return c04ReplaceRange(u, x.prevCls, m.Class)
	case "reflect":
		if whole {
			return append(append([]byte(nil), noNonce(other)...), u.Raw...)
		}
		return c04ReplaceRange(u, other, m.Class)
	case "splice":
		if whole {
			return append(append([]byte(nil), u.Raw...), noNonce(x.prevCls)...)
		}
		return c04SpliceAt(u, x.prevCls, m.Class)
	case "truncate":
		if whole {
			x.cutAfter = true
			return u.Raw
		}
	}
	return mutateExt(u, m, t.k.Seed)
}

// ------------------------------------------------------------------------------------------------
// Endpoints wrapper: one script per world, so whatever the four tag bytes say the accepted session is
// script 0; the tag bytes the server application read are kept (they are the first four bytes of the
// client→server stream, the sender wrote 00 00 00 00 there).

type c04Ends struct {
	*sim.World
	mu     sync.Mutex
	tagGot []byte
	tagN   int
}

func (e *c04Ends) AcceptScript(n int, timeout time.Duration) (net.Conn, int, error) {
	conn, err := e.World.Server.Accept()
	if err != nil {
		return nil, -1, err
	}
	var tag [4]byte
	conn.SetReadDeadline(time.Now().Add(timeout))
	k, err := io.ReadFull(conn, tag[:])
	conn.SetReadDeadline(time.Time{})
	e.mu.Lock()
	first := e.tagGot == nil
	if first {
		e.tagGot, e.tagN = append([]byte(nil), tag[:k]...), k
	}
	e.mu.Unlock()
	if err != nil || !first {
		return conn, -1, nil
	}
	return conn, 0, nil
}

// ------------------------------------------------------------------------------------------------
// whole-run tie of the packet transport: every datagram an endpoint was handed → Tamper.rxStep

func c04FNV64(b []byte) uint64 {
	h := uint64(14695981039346656037)
	for _, x := range b {
		h ^= uint64(x)
		h *= 1099511628211
	}
	return h
}

// c04HonestByNonce indexes everything the real endpoints sealed (both directions: one key) by nonce.
func c04HonestByNonce(ds []*simnet.Datagram, keys [][]byte) (map[string][]string, uint32) {
	tab := map[string][]string{}
	var sid uint32
	for _, d := range ds {
		seg, err := wire.OpenUDP(d.Data, keys)
		if err != nil || len(d.Data) < 24 {
			continue
		}
		if sid == 0 && seg.Proto == wire.OpenSessionRequest {
			sid = seg.SessionID
		}
		k := string(d.Data[:24])
		if _, dup := tab[k]; dup {
			continue
		}
		u := &c04Unit{Raw: d.Data, Seg: seg, HasNonce: true}
		tab[k] = c04HonestUDP(u)
	}
	return tab, sid
}

type c04SeqReply struct {
	verdicts string
	next     []int
	digests  []string
}

func c04AskSeq(c *core.Ctx, isClient bool, sid uint32, evs []simnet.Event, tab map[string][]string) (*c04SeqReply, string) {
	var sb strings.Builder
	ic := 0
	if isClient {
		ic = 1
	}
	fmt.Fprintf(&sb, "c04-udp-seq %d %d", ic, sid)
	for _, e := range evs {
		b := e.Data
		if len(b) > 1500 {
			b = b[:1500] // readOneSegment reads into a 1500-byte buffer: the socket truncates
		}
		var ent []string
		if len(b) >= 24 {
			ent = tab[string(b[:24])]
		}
		fmt.Fprintf(&sb, " %s %d", core.Hex(b), len(ent)/2)
		for _, x := range ent {
			sb.WriteByte(' ')
			sb.WriteString(x)
		}
	}
	t0 := time.Now()
	reply := c04Procs.ask(c, sb.String())
	if os.Getenv("VH_SLOW") != "" {
		c.Hist("seq ask ms", fmt.Sprintf("%5d ms for %4d KB", time.Since(t0).Milliseconds()/100*100, sb.Len()/1024/100*100))
	}
	f := strings.Fields(reply)
	if len(f) != 4 || f[0] != "ok" {
		return nil, reply
	}
	r := &c04SeqReply{verdicts: f[1]}
	if f[1] == "-" {
		r.verdicts = ""
	}
	if f[2] != "-" {
		for _, x := range strings.Split(f[2], ",") {
			n, _ := strconv.Atoi(x)
			r.next = append(r.next, n)
		}
	}
	if f[3] != "-" {
		r.digests = strings.Split(f[3], ",")
	}
	return r, reply
}

// c04CompareUDPSeq replays, for each of the two endpoints, every datagram its ReadFrom returned (genuine,
// mutated, reordered, duplicated, reflected — whatever the network did) through the model's receive
// path and compares: (a) what the model's application has been handed is a prefix of what the sender
// wrote, content compared segment by segment; (b) its byte count against what the real application
// read (equal once the transfer completed); (c) every cumulative ack the real endpoint emitted is
// covered by what the model had accepted of the datagrams handed over until then (the endpoint never
// accepts what the model rejects).
func c04CompareUDPSeq(c *core.Ctx, k c04Case, o *c04Outcome) {
	w := o.world
	w.Net.Lock()
	ds := append([]*simnet.Datagram(nil), w.Net.Datagrams...)
	evs := append([]simnet.Event(nil), w.Net.Events...)
	w.Net.Unlock()
	tab, sid := c04HonestByNonce(ds, w.AllKeys())
	if sid == 0 {
		return
	}
	s := o.tr.Sessions[0]
	for _, side := range []struct {
		isClient bool
		name     string
		r        sim.DirResult
		dir      int
		tag      int
	}{{false, "server", s.C2S, 0, 4}, {true, "client", s.S2C, 1, 0}} {
		var mine []simnet.Event
		for _, e := range evs {
			if (e.To == c03ServerAddr) == !side.isClient {
				mine = append(mine, e)
			}
		}
		c.Compared()
		rep, raw := c04AskSeq(c, side.isClient, sid, mine, tab)
		if rep == nil {
			if len(raw) > 200 {
				raw = raw[:200]
			}
			c.Disagree("C04/corr/udp-seq-model-error", "model reply: "+raw, k)
			return
		}
		if len(rep.verdicts) != len(mine) || len(rep.next) != len(mine) {
			c.Disagree("C04/corr/udp-seq-model-error", fmt.Sprintf("model replied for %d datagrams, %d were sent", len(rep.verdicts), len(mine)), k)
			return
		}
		for _, v := range rep.verdicts {
			c.Hist("udp_seq_verdict", string(v))
		}
		// (a) content: the model's delivered stream against what the sender wrote
		want := s.C2S.Want
		if side.isClient {
			want = s.S2C.Want
		}
		exp := make([]byte, side.tag+want)
		sim.FillStream(exp[side.tag:], k.Seed, 0, side.dir, 0)
		off, ok := 0, true
		for i, dg := range rep.digests {
			var ln int
			var fnv uint64
			if !c04SplitDigest(dg, &ln, &fnv) {
				c.Disagree("C04/corr/udp-seq-model-error", "digest "+dg, k)
				return
			}
			if off+ln > len(exp) || c04FNV64(exp[off:off+ln]) != fnv {
				c.Disagree("C04/corr/udp-seq-model-delivers-other-bytes", fmt.Sprintf("udp %s %s/%s: fed the datagrams the real %s was handed, the model receiver hands its application a segment (#%d, %d bytes at stream offset %d) that is not what the sender wrote there", k.PatternName, k.Mut.Kind, k.Mut.Class, side.name, i, ln, off), k)
				ok = false
				break
			}
			off += ln
		}
		if !ok {
			continue
		}
		// (b) how much: the real application against the model
		got := side.r.Got
		if side.tag > 0 && o.ends != nil {
			o.ends.mu.Lock()
			got += o.ends.tagN // the tag bytes were read by AcceptScript
			o.ends.mu.Unlock()
		}
		complete := !o.tr.Stalled && side.r.Got == side.r.Want && side.r.MismatchAt < 0
		switch {
		case got > off:
			c.Disagree("C04/corr/udp-seq-delivered-more-than-model", fmt.Sprintf("udp %s %s/%s: the real %s application read %d bytes of the stream, the model receiver fed the same datagrams hands over only %d", k.PatternName, k.Mut.Kind, k.Mut.Class, side.name, got, off), k)
		case complete && got != off:
			c.Disagree("C04/corr/udp-seq-delivered-fewer-than-model", fmt.Sprintf("udp %s %s/%s: the transfer completed with %d bytes read by the real %s application, the model hands over %d", k.PatternName, k.Mut.Kind, k.Mut.Class, got, side.name, off), k)
		case got == off:
			c.Hist("udp_seq_delivered_vs_model", "equal")
		default:
			c.Hist("udp_seq_delivered_vs_model", "fewer (transfer did not complete)")
		}
		// (c) acks: nothing is acknowledged that the model has not accepted
		me := c03ServerAddr
		j := 0
		for _, d := range ds {
			i := d.Index
			if (d.From == me) != !side.isClient {
				continue
			}
			seg, err := wire.OpenUDP(d.Data, w.AllKeys())
			if err != nil || seg.SessionID != sid || !(seg.IsData() || seg.IsAck()) {
				continue
			}
			for j < len(mine) && mine[j].DatagramsSoFar <= d.Index {
				j++
			}
			nr := 0
			if j > 0 {
				nr = rep.next[j-1]
			}
			if int(seg.UnAck) > nr {
				c.Disagree("C04/corr/udp-seq-ack-ahead-of-model", fmt.Sprintf("udp %s %s/%s: datagram #%d emitted by the real %s acknowledges everything below sequence number %d, but the model receiver, fed the %d datagrams the endpoint had been handed until then (verdicts %s), has accepted only what is below %d: the endpoint accepted a datagram the model rejects", k.PatternName, k.Mut.Kind, k.Mut.Class, i, side.name, seg.UnAck, j, c04Tail(rep.verdicts[:j], 24), nr), k)
				break
			}
		}
	}
}

func c04Tail(s string, n int) string {
	if len(s) > n {
		return "…" + s[len(s)-n:]
	}
	return s
}

// c04SplitDigest splits the driver's digest length·2^64 + fnv64 (a decimal string).
func c04SplitDigest(dec string, ln *int, fnv *uint64) bool {
	x, ok := new(big.Int).SetString(dec, 10)
	if !ok || x.Sign() < 0 {
		return false
	}
	hi := new(big.Int).Rsh(x, 64)
	if !hi.IsInt64() || hi.Int64() > 1<<30 {
		return false
	}
	lo := new(big.Int).And(x, new(big.Int).SetUint64(^uint64(0)))
	*ln, *fnv = int(hi.Int64()), lo.Uint64()
	return true
}

// ------------------------------------------------------------------------------------------------
// The requests of c04-udp-seq carry a whole run (hundreds of KB): they are spread over a few instances of the
// model executable instead of queueing on one.

type c04Pool struct {
	free chan *core.Proc
	own  []*core.Proc
}

var c04Procs *c04Pool

func newC04Pool(c *core.Ctx, n int) *c04Pool {
	p := &c04Pool{free: make(chan *core.Proc, n)}
	if c.Model == nil {
		return p
	}
	p.free <- c.Model
	for i := 1; i < n; i++ {
		pr, err := core.StartProc(c.Model.Path())
		if err != nil {
			break
		}
		p.own = append(p.own, pr)
		p.free <- pr
	}
	return p
}

func (p *c04Pool) ask(c *core.Ctx, line string) string {
	if p == nil || cap(p.free) == 0 {
		return c.Model.Ask("%s", line)
	}
	pr := <-p.free
	defer func() { p.free <- pr }()
	return pr.Ask("%s", line)
}

func (p *c04Pool) close() {
	if p == nil {
		return
	}
	for _, pr := range p.own {
		pr.Close()
	}
}

// ------------------------------------------------------------------------------------------------
// the class x kind matrix

var c04MatrixKinds = []string{"bitflip", "subst", "insert", "delete", "truncate", "swap-next", "replay-prev", "reflect", "splice"}

type c04Matrix struct {
	mu    sync.Mutex
	cells map[string]int // transport/class/kind → cases in which the mutation was applied
}

func c04CellClass(m c04Mut) string {
	// the whole-unit forms of the four unit-level kinds act at the unit boundary
	if !m.Ext {
		switch m.Kind {
		case "swap-next", "replay-prev", "reflect", "splice":
			return "boundary"
		}
	}
	return m.Class
}

func (x *c04Matrix) add(k c04Case) {
	tr := "tcp"
	if k.UDP {
		tr = "udp"
	}
	x.mu.Lock()
	if x.cells == nil {
		x.cells = map[string]int{}
	}
	x.cells[tr+"/"+c04CellClass(k.Mut)+"/"+k.Mut.Kind]++
	x.mu.Unlock()
}

// report prints the matrix into the histograms and returns the empty cells.
func (x *c04Matrix) report(c *core.Ctx, print bool) []string {
	x.mu.Lock()
	defer x.mu.Unlock()
	var empty []string
	for _, tr := range []string{"tcp", "udp"} {
		for _, class := range c04Classes {
			var row []string
			for _, kind := range c04MatrixKinds {
				n := x.cells[tr+"/"+class+"/"+kind]
				row = append(row, fmt.Sprintf("%s=%d", kind, n))
				if n == 0 {
					empty = append(empty, tr+"/"+class+"/"+kind)
				}
			}
			if print {
				c.Hist("matrix "+tr+" "+class, strings.Join(row, " "))
			}
		}
	}
	var special []string
	for key, n := range x.cells {
		f := strings.Split(key, "/")
		known := false
		for _, kind := range c04MatrixKinds {
			if f[2] == kind {
				known = true
			}
		}
		if !known {
			special = append(special, fmt.Sprintf("%s=%d", key, n))
		}
	}
	sort.Strings(special)
	if print {
		c.Hist("matrix specials", strings.Join(special, " "))
	}
	sort.Strings(empty)
	return empty
}

// c04Lens records the length fields of a mutated unit (boundary values get their own buckets).
func c04Lens(c *core.Ctx, tr string, u *c04Unit) {
	if u == nil || u.Seg == nil {
		return
	}
	b := func(name string, v, max int) {
		switch {
		case v == 0:
			c.Hist(tr+" target "+name, "0")
		case v == 1:
			c.Hist(tr+" target "+name, "1")
		case max > 0 && v == max-1:
			c.Hist(tr+" target "+name, "max-1")
		case max > 0 && v == max:
			c.Hist(tr+" target "+name, "max")
		default:
			c.Hist(tr+" target "+name, "other")
		}
	}
	b("prefixLen", int(u.Seg.PrefixLen), 255)
	b("suffixLen", int(u.Seg.SuffixLen), 255)
	b("payloadLen", int(u.Seg.PayloadLen), 0)
}
