package props

import (
	"encoding/json"
	"fmt"
	"math/rand"
	"strings"
	"time"

	"verifharness/core"
	"verifharness/sim"
)

// udpCase is one UDP scenario: configuration, application scripts and the network's fault plan.
type udpCase struct {
	Seed          int64           `json:"seed"`
	MTU           int             `json:"mtu"`
	ClientPattern json.RawMessage `json:"client_pattern"`
	ServerPattern json.RawMessage `json:"server_pattern"`
	Multiplex     int             `json:"multiplex"`
	Scripts       []sim.Script    `json:"scripts"`
	Faults        sim.FaultSpec   `json:"faults"`
	TimeoutS      int             `json:"timeout_s"`
}

var udpMTUs = []int{1280, 1281, 1400, 1499, 1500}

func genUDPCase(r *rand.Rand, budget int, handshakeLoss bool) udpCase {
	k := udpCase{Seed: r.Int63(), MTU: udpMTUs[r.Intn(len(udpMTUs))], Multiplex: r.Intn(4)}
	if r.Intn(3) == 0 {
		k.MTU = 1280 + r.Intn(221)
	}
	k.ClientPattern = patJSON(sim.RandomPattern(r, false))
	k.ServerPattern = patJSON(sim.RandomPattern(r, false))
	ns := 1 + r.Intn(3)
	for i := 0; i < ns; i++ {
		s := sim.Script{MaxRead: []int{1, 13, 1500, 65536, 100000}[r.Intn(5)]}
		s.ClientWrites = sim.RandomWrites(r, 5, budget/ns)
		s.ServerWrites = sim.RandomWrites(r, 5, budget/ns)
		if s.MaxRead == 1 && sumInts(s.ClientWrites)+sumInts(s.ServerWrites) > 30000 {
			s.MaxRead = 13
		}
		k.Scripts = append(k.Scripts, s)
	}
	f := sim.FaultSpec{Seed: r.Int63(), DelayMs: 5 + r.Intn(40)}
	pos := func(n, from, to int) []int {
		var xs []int
		for i := 0; i < n; i++ {
			xs = append(xs, from+r.Intn(to-from))
		}
		return xs
	}
	lo := 3 // leave the opening handshake alone unless asked: its loss costs seconds of timers
	if handshakeLoss {
		lo = 0
	}
	switch r.Intn(7) {
	case 0: // clean network
	case 1:
		f.DropC2S, f.DropS2C = pos(1+r.Intn(4), lo, 60), pos(1+r.Intn(4), lo, 60)
	case 2:
		f.DupC2S, f.DupS2C = pos(1+r.Intn(6), 0, 60), pos(1+r.Intn(6), 0, 60)
	case 3:
		f.DelayC2S, f.DelayS2C = pos(1+r.Intn(6), lo, 60), pos(1+r.Intn(6), lo, 60)
	case 4:
		f.Loss = []float64{0.01, 0.05, 0.1, 0.2}[r.Intn(4)]
	case 5:
		f.Loss, f.Dup, f.Reorder = 0.05*r.Float64(), 0.1*r.Float64(), 0.2*r.Float64()
	case 6:
		f.DropC2S, f.DupS2C, f.DelayC2S, f.Reorder = pos(2, lo, 40), pos(3, 0, 40), pos(3, lo, 40), 0.1
		if r.Intn(2) == 0 {
			f.BurstS2CFrom = lo + r.Intn(20)
			f.BurstS2CTo = f.BurstS2CFrom + 1 + r.Intn(8)
		}
	}
	if handshakeLoss && r.Intn(2) == 0 {
		// lose the open request, the open response, or the first k datagrams of one direction
		switch r.Intn(3) {
		case 0:
			f.DropC2S = append(f.DropC2S, 0)
		case 1:
			f.DropS2C = append(f.DropS2C, 0)
		case 2:
			f.BurstS2CFrom, f.BurstS2CTo = 0, 1+r.Intn(4)
		}
	}
	k.Faults = f
	k.TimeoutS = 120
	return k
}

type udpOutcome struct {
	tr    *sim.TransferResult
	audit *sim.UDPAudit
	fails []string
	setup error
}

// runUDPCase executes one case on fresh endpoints and audits the wire.
func runUDPCase(k udpCase) udpOutcome {
	cfg := sim.Config{UDP: true, MTU: k.MTU, Seed: k.Seed, Multiplex: k.Multiplex,
		ClientPattern: patFromJSON(k.ClientPattern), ServerPattern: patFromJSON(k.ServerPattern)}
	w, err := sim.NewWorld(cfg)
	if err != nil {
		return udpOutcome{setup: err}
	}
	defer bgClose.Go(w.Close)
	w.Net.Plan = k.Faults.Plan(fmt.Sprintf("10.8.0.1:%d", 8964))
	tr := sim.RunTransfer(w, k.Scripts, k.Seed, time.Duration(k.TimeoutS)*time.Second)
	return udpOutcome{tr: tr, audit: w.AuditUDP(), fails: tr.Check(k.Scripts)}
}

// udpRun runs a case for property prop and reports the predicates that belong to that property.
func udpRun(c *core.Ctx, k udpCase, prop string) {
	key, _ := json.Marshal(k)
	o := runUDPCase(k)
	if o.setup != nil {
		c.Eval(string(key), false)
		c.Violate(prop+"/setup", "valid configuration rejected or endpoints failed to start: "+o.setup.Error(), k)
		return
	}
	if o.tr.Stalled && prop == "C02" {
		// timing-dependent verdict: must reproduce in 2 of 3 runs of the same case
		again := 0
		for i := 0; i < 2; i++ {
			if o2 := runUDPCase(k); o2.setup == nil && o2.tr.Stalled {
				again++
				o = o2
			}
		}
		if again == 0 {
			c.Note("case stalled once and completed twice on re-run (not reported): seed %d", k.Seed)
			o.fails = nil
		}
	}
	c.Eval(string(key), true)
	c.Res.TracesValidated++
	c.Hist("mtu", fmt.Sprint(k.MTU))
	c.Hist("sessions", fmt.Sprint(len(k.Scripts)))
	fk := "clean"
	f := k.Faults
	switch {
	case f.Loss > 0 || f.Dup > 0 || f.Reorder > 0:
		fk = "random-rate"
	case len(f.DropC2S)+len(f.DropS2C) > 0 || f.BurstS2CTo > f.BurstS2CFrom:
		fk = "positional-drop"
	case len(f.DupC2S)+len(f.DupS2C) > 0:
		fk = "positional-dup"
	case len(f.DelayC2S)+len(f.DelayS2C) > 0:
		fk = "positional-delay"
	}
	c.Hist("fault_kind", fk)
	c.Hist("retransmissions", core.SizeBucket(o.audit.Retransmitted))
	for t, n := range o.audit.Types {
		for i := 0; i < n; i++ {
			c.Hist("segment_type", fmt.Sprint(t))
		}
	}
	switch prop {
	case "C02":
		for _, f := range o.fails {
			kind := "delivery"
			if o.tr.Stalled {
				kind = "stall"
			}
			c.Violate("C02/udp/"+kind, f, k)
		}
		// trace inclusion: every observed history must be accepted by the model
		for name, h := range o.audit.Histories {
			c.Compared()
			reply := c.Model.Ask("arq-run %s", strings.Join(h, " "))
			if !strings.HasPrefix(reply, "ok ") {
				c.Disagree("C02/corr/arq-acceptor", fmt.Sprintf("history of %s rejected by the model: %s", name, reply), k)
			}
		}
		for _, u := range o.audit.Undecodable {
			c.Disagree("C02/corr/wire-undecodable", u, k)
		}
	case "C13":
		for _, x := range o.audit.AckAhead {
			c.Violate("C13/ack-ahead-of-receipt", x, k)
		}
		for _, x := range o.audit.ContentDrift {
			c.Violate("C13/retransmission-changed-content", x, k)
		}
		for _, x := range o.audit.SeqGaps {
			c.Violate("C13/sequence-numbers-not-consecutive", x, k)
		}
		for name, h := range o.audit.Histories {
			c.Compared()
			reply := c.Model.Ask("arq-run %s", strings.Join(h, " "))
			if !strings.HasPrefix(reply, "ok ") {
				c.Disagree("C13/corr/arq-acceptor", fmt.Sprintf("history of %s rejected by the model: %s", name, reply), k)
			}
		}
		for _, u := range o.audit.Undecodable {
			c.Disagree("C13/corr/wire-undecodable", u, k)
		}
	case "C14":
		for _, x := range o.audit.OverMTU {
			c.Violate("C14/wire/datagram-exceeds-mtu", x, k)
		}
	}
}
