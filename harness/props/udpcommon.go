package props

import (
	"encoding/json"
	"fmt"
	"math/rand"
	"strings"
	"time"

	"github.com/enfein/mieru/v3/pkg/protocol"
	"verifharness/core"
	"verifharness/sim"
)

// udpCase is one UDP scenario: configuration, application scripts and the network's fault plan.
type udpCase struct {
	Seed          int64           `json:"seed"`
	MTU           int             `json:"mtu"`
	// ClientMTU, if non-zero, is the client's MTU and MTU is the server's: the MTU is a local sending
	// limit and is not negotiated, so the two ends may legally differ (seeded C02-7)
	ClientMTU     int             `json:"client_mtu,omitempty"`
	ClientPattern json.RawMessage `json:"client_pattern"`
	ServerPattern json.RawMessage `json:"server_pattern"`
	Multiplex     int             `json:"multiplex"`
	Scripts       []sim.Script    `json:"scripts"`
	Faults        sim.FaultSpec   `json:"faults"`
	TimeoutS      int             `json:"timeout_s"`
}

var udpMTUs = []int{1280, 1281, 1400, 1499, 1500}

func genUDPCase(r *rand.Rand, budget int, handshakeLoss bool) udpCase {
	k := udpCase{Seed: r.Int63(), MTU: udpMTUs[r.Intn(len(udpMTUs))], Multiplex: r.Intn(4)}
	if r.Intn(3) == 0 {
		k.MTU = 1280 + r.Intn(221)
	}
	k.ClientPattern = patJSON(sim.RandomPattern(r, false))
	k.ServerPattern = patJSON(sim.RandomPattern(r, false))
	ns := 1 + r.Intn(3)
	for i := 0; i < ns; i++ {
		s := sim.Script{MaxRead: []int{1, 13, 1500, 65536, 100000}[r.Intn(5)]}
		s.ClientWrites = sim.RandomWrites(r, 5, budget/ns)
		s.ServerWrites = sim.RandomWrites(r, 5, budget/ns)
		if s.MaxRead == 1 && sumInts(s.ClientWrites)+sumInts(s.ServerWrites) > 30000 {
			s.MaxRead = 13
		}
		k.Scripts = append(k.Scripts, s)
	}
	f := sim.FaultSpec{Seed: r.Int63(), DelayMs: 5 + r.Intn(40)}
	pos := func(n, from, to int) []int {
		var xs []int
		for i := 0; i < n; i++ {
			xs = append(xs, from+r.Intn(to-from))
		}
		return xs
	}
	lo := 3 // leave the opening handshake alone unless asked: its loss costs seconds of timers
	if handshakeLoss {
		lo = 0
	}
	switch r.Intn(7) {
	case 0: // clean network
	case 1:
		f.DropC2S, f.DropS2C = pos(1+r.Intn(4), lo, 60), pos(1+r.Intn(4), lo, 60)
	case 2:
		f.DupC2S, f.DupS2C = pos(1+r.Intn(6), 0, 60), pos(1+r.Intn(6), 0, 60)
	case 3:
		f.DelayC2S, f.DelayS2C = pos(1+r.Intn(6), lo, 60), pos(1+r.Intn(6), lo, 60)
	case 4:
		f.Loss = []float64{0.01, 0.05, 0.1, 0.2}[r.Intn(4)]
	case 5:
		f.Loss, f.Dup, f.Reorder = 0.05*r.Float64(), 0.1*r.Float64(), 0.2*r.Float64()
	case 6:
		f.DropC2S, f.DupS2C, f.DelayC2S, f.Reorder = pos(2, lo, 40), pos(3, 0, 40), pos(3, lo, 40), 0.1
		if r.Intn(2) == 0 {
			f.BurstS2CFrom = lo + r.Intn(20)
			f.BurstS2CTo = f.BurstS2CFrom + 1 + r.Intn(8)
		}
	}
	if handshakeLoss && r.Intn(2) == 0 {
		// lose the open request, the open response, or the first k datagrams of one direction
		switch r.Intn(3) {
		case 0:
			f.DropC2S = append(f.DropC2S, 0)
		case 1:
			f.DropS2C = append(f.DropS2C, 0)
		case 2:
			f.BurstS2CFrom, f.BurstS2CTo = 0, 1+r.Intn(4)
		}
	}
	k.Faults = f
	k.TimeoutS = 120
	return k
}

type udpOutcome struct {
	tr      *sim.TransferResult
	audit   *sim.UDPAudit
	fails   []string
	setup   error
	sampler *sim.WindowSampler
}

// udpContentProblems compares, for every (session, direction), the payloads of the numbered segments
// as FIRST put on the wire, concatenated in sequence order, with the bytes the application wrote
// (deterministic content of sim.RunTransfer: a 4-byte script tag, then the generator's stream).
// It also returns how many sessions could be attributed to a script.
func udpContentProblems(k udpCase, a *sim.UDPAudit) (problems []string, attributed int) {
	script := map[string]int{} // session id (hex) -> script index
	for name, ps := range a.Payloads {
		if !strings.HasSuffix(name, "/c2s") {
			continue
		}
		var head []byte
		for _, p := range ps {
			head = append(head, p...)
			if len(head) >= 4 {
				break
			}
		}
		if len(head) >= 4 {
			if idx := int(uint32(head[0])<<24 | uint32(head[1])<<16 | uint32(head[2])<<8 | uint32(head[3])); idx >= 0 && idx < len(k.Scripts) {
				script[strings.TrimSuffix(name, "/c2s")] = idx
			}
		}
	}
	for name, ps := range a.Payloads {
		sid, dir := name[:strings.Index(name, "/")], 0
		if strings.HasSuffix(name, "/s2c") {
			dir = 1
		}
		idx, ok := script[sid]
		if !ok {
			continue
		}
		if dir == 0 {
			attributed++
		}
		sc := k.Scripts[idx]
		want := sumInts(sc.ServerWrites)
		if dir == 0 {
			want = sumInts(sc.ClientWrites) + 4
		}
		pos := 0
	segs:
		for seq, p := range ps {
			for i, b := range p {
				var e byte
				switch {
				case dir == 0 && pos < 4:
					e = byte(uint32(idx) >> (8 * uint(3-pos)))
				case dir == 0:
					e = sim.StreamByte(k.Seed, idx, 0, pos-4)
				default:
					e = sim.StreamByte(k.Seed, idx, 1, pos)
				}
				if pos >= want {
					problems = append(problems, fmt.Sprintf("session %s seq %d: the wire carries more than the %d bytes the application wrote", name, seq, want))
					break segs
				}
				if b != e {
					problems = append(problems, fmt.Sprintf("session %s seq %d byte %d (stream offset %d): first transmission carries %#02x, the application wrote %#02x", name, seq, i, pos, b, e))
					break segs
				}
				pos++
			}
		}
	}
	return problems, attributed
}

// runUDPCase executes one case on fresh endpoints and audits the wire.
func runUDPCase(k udpCase) udpOutcome {
	cfg := sim.Config{UDP: true, MTU: k.MTU, Seed: k.Seed, Multiplex: k.Multiplex,
		ClientPattern: patFromJSON(k.ClientPattern), ServerPattern: patFromJSON(k.ServerPattern)}
	w, err := sim.NewWorldMTUs(cfg, k.ClientMTU)
	if err != nil {
		return udpOutcome{setup: err}
	}
	defer bgClose.Go(w.Close)
	w.Net.Plan = k.Faults.Plan(fmt.Sprintf("10.8.0.1:%d", 8964))
	ob := sim.Observe(w)
	sampler := sim.StartWindowSampler(ob, int(protocol.VerifConsts()["segmentTreeCapacity"]), 500*time.Microsecond)
	tr := sim.RunTransfer(ob, k.Scripts, k.Seed, time.Duration(k.TimeoutS)*time.Second)
	sampler.Stop()
	return udpOutcome{tr: tr, audit: w.AuditUDP(), fails: tr.Check(k.Scripts), sampler: sampler}
}

// udpRun runs a case for property prop and reports the predicates that belong to that property.
func udpRun(c *core.Ctx, k udpCase, prop string) {
	key, _ := json.Marshal(k)
	o := runUDPCase(k)
	if o.setup != nil {
		c.Eval(string(key), false)
		c.Violate(prop+"/setup", "valid configuration rejected or endpoints failed to start: "+o.setup.Error(), k)
		return
	}
	if o.tr.Stalled && prop == "C02" {
		// timing-dependent verdict: must reproduce in 2 of 3 runs of the same case
		again := 0
		for i := 0; i < 2; i++ {
			if o2 := runUDPCase(k); o2.setup == nil && o2.tr.Stalled {
				again++
				o = o2
			}
		}
		if again == 0 {
			c.Note("case stalled once and completed twice on re-run (not reported): seed %d", k.Seed)
			o.fails = nil
		}
	}
	c.Eval(string(key), true)
	c.Res.TracesValidated++
	c.Hist("mtu", fmt.Sprint(k.MTU))
	if k.ClientMTU != 0 && k.ClientMTU != k.MTU {
		c.Hist("mtu_server/client", fmt.Sprintf("%d/%d", k.MTU, k.ClientMTU))
	}
	c.Hist("sessions", fmt.Sprint(len(k.Scripts)))
	fk := "clean"
	f := k.Faults
	switch {
	case f.Loss > 0 || f.Dup > 0 || f.Reorder > 0:
		fk = "random-rate"
	case len(f.DropC2S)+len(f.DropS2C) > 0 || f.BurstS2CTo > f.BurstS2CFrom:
		fk = "positional-drop"
	case len(f.DupC2S)+len(f.DupS2C) > 0:
		fk = "positional-dup"
	case len(f.DelayC2S)+len(f.DelayS2C) > 0:
		fk = "positional-delay"
	}
	c.Hist("fault_kind", fk)
	c.Hist("retransmissions", core.SizeBucket(o.audit.Retransmitted))
	for t, n := range o.audit.Types {
		for i := 0; i < n; i++ {
			c.Hist("segment_type", fmt.Sprint(t))
		}
	}
	c.Hist("window_samples", core.SizeBucket(o.sampler.Samples))
	c.Hist("max_sendbuf_seen", core.SizeBucket(o.sampler.MaxSendBuf))
	c.Hist("max_recv_held_seen", core.SizeBucket(o.sampler.MaxRecvHeld))
	content, attributed := udpContentProblems(k, o.audit)
	c.Hist("sessions_attributed_to_script", fmt.Sprint(attributed))
	// the acceptor's final state must agree with what the readers saw: a direction whose reader got
	// every byte has had every numbered segment handed over in order
	finalOK := func(name, reply string) string {
		var nr, q, lo, n int
		if _, err := fmt.Sscanf(reply, "ok %d %d %d %d", &nr, &q, &lo, &n); err != nil {
			return ""
		}
		if lo > nr || nr > q || q > n {
			return fmt.Sprintf("history of %s: the model ends with lo %d, nextRecv %d, qLo %d, |segs| %d", name, lo, nr, q, n)
		}
		// A direction whose only segment is the payload-less open-session response (n == 1) may end with that
		// segment lost and never needed: an upload-only transfer completes without the client ever reading it
		// (false alarm of the thorough tier on the unchanged tree before this case was excluded).
		if !o.tr.Stalled && len(o.fails) == 0 && nr != n && !(n == 1 && nr == 0) {
			return fmt.Sprintf("history of %s: every reader received everything, yet the model has released only %d of %d segments", name, nr, n)
		}
		return ""
	}
	switch prop {
	case "C02":
		for key, what := range o.sampler.Problems {
			if key == "receive-buffers-exceed-capacity" || key == "send-buffer-full" {
				c.Violate("C02/udp/"+key, what, k)
			}
		}
		for _, f := range o.fails {
			kind := "delivery"
			if o.tr.Stalled {
				kind = "stall"
			}
			c.Violate("C02/udp/"+kind, f, k)
		}
		// trace inclusion: every observed history must be accepted by the model
		for name, h := range o.audit.Histories {
			c.Compared()
			reply := c.Model.Ask("arq-run %s", strings.Join(h, " "))
			if !strings.HasPrefix(reply, "ok ") {
				c.Disagree("C02/corr/arq-acceptor", fmt.Sprintf("history of %s rejected by the model: %s", name, reply), k)
			} else if bad := finalOK(name, reply); bad != "" {
				c.Disagree("C02/corr/arq-final-state", bad, k)
			}
		}
		for _, u := range o.audit.Undecodable {
			c.Disagree("C02/corr/wire-undecodable", u, k)
		}
	case "C13":
		for key, what := range o.sampler.Problems {
			if key == "sender-discarded-unreceived-segment" || key == "receiver-ahead-of-sender-numbering" {
				c.Violate("C13/"+key, what, k)
			}
		}
		for _, x := range content {
			c.Violate("C13/content-differs-from-application-write", x, k)
		}
		for _, x := range o.audit.CloseDrift {
			c.Violate("C13/close-request-retransmission-changed", x, k)
		}
		if o.audit.CloseRetransmitted > 0 {
			c.Hist("close_request_retransmissions", core.SizeBucket(o.audit.CloseRetransmitted))
		}
		for _, x := range o.audit.AckAhead {
			c.Violate("C13/ack-ahead-of-receipt", x, k)
		}
		for _, x := range o.audit.ContentDrift {
			c.Violate("C13/retransmission-changed-content", x, k)
		}
		for _, x := range o.audit.SeqGaps {
			c.Violate("C13/sequence-numbers-not-consecutive", x, k)
		}
		for name, h := range o.audit.Histories {
			c.Compared()
			reply := c.Model.Ask("arq-run %s", strings.Join(h, " "))
			if !strings.HasPrefix(reply, "ok ") {
				c.Disagree("C13/corr/arq-acceptor", fmt.Sprintf("history of %s rejected by the model: %s", name, reply), k)
			} else if bad := finalOK(name, reply); bad != "" {
				c.Disagree("C13/corr/arq-final-state", bad, k)
			}
		}
		for _, u := range o.audit.Undecodable {
			c.Disagree("C13/corr/wire-undecodable", u, k)
		}
	case "C14":
		for _, x := range o.audit.OverMTU {
			c.Violate("C14/wire/datagram-exceeds-mtu", x, k)
		}
	}
}
